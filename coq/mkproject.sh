#!/bin/sh
# regenerate _CoqProject and Makefile from the files present (full .vo build only)
cd "$(dirname "$0")"
{ echo "-R theories GoGit"; echo "-arg -w -arg -notation-overridden,-deprecated-hint-without-locality,-deprecated-instance-without-locality"; find theories -name '*.v' | sort; } > _CoqProject.new
if ! cmp -s _CoqProject.new _CoqProject 2>/dev/null; then mv _CoqProject.new _CoqProject; coq_makefile -f _CoqProject -o Makefile >/dev/null; else rm _CoqProject.new; fi
[ -f Makefile ] || coq_makefile -f _CoqProject -o Makefile >/dev/null
