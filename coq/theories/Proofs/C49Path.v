(* Proofs/C49Path.v — git's dowild with WM_PATHNAME (the way match_pathname
   calls it) is sound and complete for the declarative path-glob semantics of
   Spec/PathGlob.v.  What needs proof is the pruning: WM_ABORT_ALL and
   WM_ABORT_TO_STARSTAR, the "**/" shortcut, the jump of "*/" to the next
   slash, the fast-forward to a literal. *)
From Coq Require Import List NArith Bool Lia.
From GoGit Require Import Base.Out Model.Gitignore Spec.Glob Spec.PathGlob Spec.GitIgnore
     Proofs.C49Total Proofs.C49Wild.
Import ListNotations.
Local Open Scope N_scope.

(* ------------------------------------------------------------------ *)
(* suffixes                                                            *)

(* a suffix reached without crossing a slash *)
Definition csuffix (t' t : bytes) : Prop := exists s, t = s ++ t' /\ noslash s.
(* a suffix that starts a component *)
Definition bsuffix (t' t : bytes) : Prop := t' = t \/ exists s, t = s ++ 47 :: t'.

Lemma noslash_nil : noslash [].
Proof. intros []. Qed.

Lemma noslash_cons c s : c <> 47 -> noslash s -> noslash (c :: s).
Proof. intros Hc Hs [H|H]; [congruence|exact (Hs H)]. Qed.

Lemma noslash_cons_inv c s : noslash (c :: s) -> c <> 47 /\ noslash s.
Proof. intros H. split; [intros E; apply H; now left|intros E; apply H; now right]. Qed.

Lemma noslash_app a b : noslash a -> noslash b -> noslash (a ++ b).
Proof. unfold noslash. intros Ha Hb H. apply in_app_or in H. tauto. Qed.

Lemma noslash_has_slash s : noslash s <-> has_slash s = false.
Proof.
  induction s as [|c r IH]; cbn [has_slash]; [split; [reflexivity|intros _ []]|].
  unfold cSLASH. split.
  - intros H. apply noslash_cons_inv in H. destruct H as [H1 H2].
    apply N.eqb_neq in H1. rewrite H1. now apply IH.
  - intros H. apply orb_false_iff in H. destruct H as [H1 H2]. apply noslash_cons.
    + now apply N.eqb_neq.
    + now apply IH.
Qed.

Lemma csuffix_refl t : csuffix t t.
Proof. exists []. split; [reflexivity|apply noslash_nil]. Qed.

Lemma csuffix_suffix t' t : csuffix t' t -> suffix t' t.
Proof. intros (s & E & _). now exists s. Qed.

Lemma bsuffix_suffix t' t : bsuffix t' t -> suffix t' t.
Proof.
  intros [->|(s & ->)]; [apply suffix_refl|]. exists (s ++ [47]). now rewrite <- app_assoc.
Qed.

Lemma csuffix_cons c t' t : c <> 47 -> csuffix t' t -> csuffix t' (c :: t).
Proof. intros Hc (s & -> & Hs). exists (c :: s). split; [reflexivity|now apply noslash_cons]. Qed.

Lemma csuffix_cons_inv c t t'' : csuffix t'' (c :: t) -> t'' = c :: t \/ (c <> 47 /\ csuffix t'' t).
Proof.
  intros (s & H & Hs). destruct s as [|x s]; cbn in H.
  - left. now symmetry.
  - right. inversion H; subst. apply noslash_cons_inv in Hs. destruct Hs as [Hx Hs].
    split; [exact Hx|]. now exists s.
Qed.

Lemma csuffix_slash t t'' : csuffix t'' (47 :: t) -> t'' = 47 :: t.
Proof. intros H. apply csuffix_cons_inv in H. destruct H as [H|[H _]]; [exact H|congruence]. Qed.

Lemma csuffix_nil t : csuffix t [] -> t = [].
Proof. intros H. apply csuffix_suffix in H. now apply suffix_nil. Qed.

Lemma csuffix_trans a b c : csuffix a b -> csuffix b c -> csuffix a c.
Proof.
  intros (s & -> & Hs) (s' & -> & Hs'). exists (s' ++ s). split; [now rewrite app_assoc|now apply noslash_app].
Qed.

Lemma csuffix_snoc y t'' t : y <> 47 -> csuffix (y :: t'') t -> csuffix t'' t.
Proof.
  intros Hy (s & -> & Hs). exists (s ++ [y]). split; [now rewrite <- app_assoc|].
  apply noslash_app; [exact Hs|]. apply noslash_cons; [exact Hy|apply noslash_nil].
Qed.

Lemma suffix_snoc y t'' t : suffix (y :: t'') t -> suffix t'' t.
Proof. intros (s & ->). exists (s ++ [y]). now rewrite <- app_assoc. Qed.

(* the split at the first slash is unique *)
Lemma first_slash s : forall w a b, noslash s -> s ++ 47 :: a = w ++ 47 :: b ->
  (w = s /\ b = a) \/ exists x, a = x ++ 47 :: b.
Proof.
  induction s as [|c s IH]; intros w a b Hs H.
  - destruct w as [|y w]; cbn in H; inversion H; subst.
    + left. split; reflexivity.
    + right. exists w. reflexivity.
  - apply noslash_cons_inv in Hs. destruct Hs as [Hc Hs].
    destruct w as [|y w]; cbn in H; inversion H; subst; [congruence|].
    destruct (IH _ _ _ Hs H2) as [[-> ->]|Hx]; [left; split; reflexivity|right; exact Hx].
Qed.

Lemma first_slash_unique s : forall s' a b, noslash s -> noslash s' ->
  s ++ 47 :: a = s' ++ 47 :: b -> s = s' /\ a = b.
Proof.
  induction s as [|c s IH]; intros s' a b Hs Hs' H.
  - destruct s' as [|y w]; cbn in H; inversion H; subst; [split; reflexivity|].
    apply noslash_cons_inv in Hs'. destruct Hs' as [Hy _]. congruence.
  - apply noslash_cons_inv in Hs. destruct Hs as [Hc Hs].
    destruct s' as [|y w]; cbn in H; inversion H; subst; [congruence|].
    apply noslash_cons_inv in Hs'. destruct Hs' as [_ Hs'].
    destruct (IH _ _ _ Hs Hs' H2) as [-> ->]. split; reflexivity.
Qed.

Lemma after_slash_spec t : match after_slash t with
                           | None => noslash t
                           | Some t1 => exists s, t = s ++ 47 :: t1 /\ noslash s
                           end.
Proof.
  induction t as [|c r IH]; cbn [after_slash]; [apply noslash_nil|].
  unfold cSLASH. destruct (c =? 47) eqn:E.
  - apply N.eqb_eq in E. subst. exists []. split; [reflexivity|apply noslash_nil].
  - apply N.eqb_neq in E. destruct (after_slash r) as [t1|].
    + destruct IH as (s & -> & Hs). exists (c :: s). split; [reflexivity|now apply noslash_cons].
    + now apply noslash_cons.
Qed.

(* ------------------------------------------------------------------ *)
(* inversion of the declarative semantics                              *)

Lemma PM_item_inv it g t : is_star it = false -> PMatch (PIt it :: g) t ->
  exists c t', t = c :: t' /\ item_ok it c = true /\ c <> 47 /\ PMatch g t'.
Proof.
  intros Hs H. inversion H; subst.
  - eauto 6.
  - discriminate.
Qed.

Lemma PM_star_iff g t : PMatch (PIt IStar :: g) t <-> exists t', csuffix t' t /\ PMatch g t'.
Proof.
  split.
  - intros H. inversion H; subst; [discriminate|].
    exists t0. split; [exists s; split; [reflexivity|assumption]|assumption].
  - intros (t' & (s & -> & Hs) & H). now constructor.
Qed.

Lemma PM_sep_inv g t : PMatch (PSep :: g) t -> exists t', t = 47 :: t' /\ PMatch g t'.
Proof. intros H. inversion H; subst. eauto. Qed.

Lemma PM_dirs_iff g t :
  PMatch (PDirs :: g) t <-> PMatch g t \/ exists s t', t = s ++ 47 :: t' /\ PMatch g t'.
Proof.
  split.
  - intros H. inversion H; subst; [now left|right; eauto].
  - intros [H|(s & t' & -> & H)]; [now apply PM_dirs0|now apply PM_dirsS].
Qed.

Lemma PM_nil_inv t : PMatch [] t -> t = [].
Proof. intros H. inversion H. reflexivity. Qed.

(* ------------------------------------------------------------------ *)
(* what each return code claims                                        *)

(* bos: the pattern is at the beginning of a segment.  WM_ABORT_ALL is then
   only a claim about the suffixes that begin a component (a "**/" prunes the
   component starts it did not try; it is never retried anywhere else) *)
Definition R2 (bos : bool) (g : list pitem) (w : wm) (t : bytes) : Prop :=
  match w with
  | WMatch => PMatch g t
  | WNoMatch => ~ PMatch g t
  | WAbortStarStar => forall t', csuffix t' t -> ~ PMatch g t'
  | WAbortAll => if bos then forall t', bsuffix t' t -> ~ PMatch g t'
                 else forall t', suffix t' t -> ~ PMatch g t'
  | WFuel => False
  end.

Lemma R2_weaken bos g w t : R2 false g w t -> R2 bos g w t.
Proof.
  destruct bos; [|tauto]. destruct w; cbn; try tauto.
  intros H t' Hb. apply H. now apply bsuffix_suffix.
Qed.

(* any code but WMatch denies the match at t itself *)
Lemma R2_not_match bos g w t : R2 bos g w t -> w <> WMatch -> ~ PMatch g t.
Proof.
  destruct w; cbn; intros H Hw; try congruence; try tauto.
  - destruct bos; apply H; [now left|apply suffix_refl].
  - apply H. apply csuffix_refl.
Qed.

Lemma R2_item bos it g w c t :
  is_star it = false -> item_ok it c = true -> c <> 47 ->
  R2 false g w t -> R2 bos (PIt it :: g) w (c :: t).
Proof.
  intros Hs Hok Hc H. apply R2_weaken. destruct w; cbn in *; try tauto.
  - now constructor.
  - intros H'. apply PM_item_inv in H'; [|assumption].
    destruct H' as (c0 & t0 & E & _ & _ & B). inversion E; subst. tauto.
  - intros t' Hsuf H'. apply PM_item_inv in H'; [|assumption].
    destruct H' as (c0 & t0 & -> & _ & _ & B). apply suffix_tail in Hsuf. exact (H _ Hsuf B).
  - intros t' Hsuf H'. apply PM_item_inv in H'; [|assumption].
    destruct H' as (c0 & t0 & -> & _ & Hc0 & B).
    apply csuffix_cons_inv in Hsuf. destruct Hsuf as [E|[_ Hsuf]].
    + inversion E; subst. eapply H; [apply csuffix_refl|exact B].
    + eapply H; [|exact B]. eapply csuffix_snoc; eassumption.
Qed.

Lemma R2_item_fail bos it g c t :
  is_star it = false -> item_ok it c = false \/ c = 47 -> R2 bos (PIt it :: g) WNoMatch (c :: t).
Proof.
  intros Hs Hor H'. apply PM_item_inv in H'; [|assumption].
  destruct H' as (c0 & t0 & E & A & B & _). inversion E; subst. destruct Hor; congruence.
Qed.

Lemma R2_item_nil bos it g : is_star it = false -> R2 bos (PIt it :: g) WAbortAll [].
Proof.
  intros Hs. apply R2_weaken. intros t' Hsuf H'. apply suffix_nil in Hsuf. subst.
  apply PM_item_inv in H'; [|assumption]. destruct H' as (? & ? & ? & _). discriminate.
Qed.

Lemma R2_sep_nil bos g : R2 bos (PSep :: g) WAbortAll [].
Proof.
  apply R2_weaken. intros t' Hsuf H'. apply suffix_nil in Hsuf. subst.
  apply PM_sep_inv in H'. destruct H' as (? & ? & _). discriminate.
Qed.

Lemma R2_sep bos g w t : R2 true g w t -> R2 bos (PSep :: g) w (47 :: t).
Proof.
  intros H. apply R2_weaken. destruct w; cbn in *; try tauto.
  - now constructor.
  - intros H'. apply PM_sep_inv in H'. destruct H' as (t0 & E & B). inversion E; subst. tauto.
  - intros t' Hsuf H'. apply PM_sep_inv in H'. destruct H' as (t0 & -> & B).
    eapply H; [|exact B].
    apply suffix_cons_inv in Hsuf. destruct Hsuf as [E|(s & ->)].
    + inversion E; subst. now left.
    + right. now exists s.
  - intros t' Hsuf H'. apply csuffix_slash in Hsuf. subst.
    apply PM_sep_inv in H'. destruct H' as (t0 & E & B). inversion E; subst.
    eapply H; [apply csuffix_refl|exact B].
Qed.

Lemma R2_sep_fail bos g c t : c <> 47 -> R2 bos (PSep :: g) WNoMatch (c :: t).
Proof. intros Hc H'. apply PM_sep_inv in H'. destruct H' as (t0 & E & _). inversion E; congruence. Qed.

(* ------------------------------------------------------------------ *)
(* the loop of a single star (it does not cross a slash)               *)

Definition RS2 (g2 : list pitem) (w : wm) (t : bytes) : Prop :=
  match w with
  | WMatch => exists t', csuffix t' t /\ PMatch g2 t'
  | WNoMatch | WAbortStarStar => forall t', csuffix t' t -> ~ PMatch g2 t'
  | WAbortAll => forall t', suffix t' t -> ~ PMatch g2 t'
  | WFuel => False
  end.

Lemma star_loop_single rec g2 lit q0 :
  (forall t, R2 false g2 (rec t) t) ->
  ~ PMatch g2 [] ->
  (forall c t, PMatch g2 (c :: t) -> c <> 47) ->
  (lit = true -> forall t, PMatch g2 t -> exists t1, t = q0 :: t1) ->
  forall t skipped, RS2 g2 (star_loop rec false lit false q0 WNoMatch skipped t) t.
Proof.
  intros Hrec Hne Hhead Hlit. induction t as [|c t' IH]; intros skipped; cbn [star_loop].
  - assert (H : forall t', suffix t' [] -> ~ PMatch g2 t').
    { intros t' Hs. apply suffix_nil in Hs. now subst. }
    destruct skipped; cbn; [intros t' Hs; apply H; now apply csuffix_suffix|exact H].
  - cbn [negb andb orb fold].
    assert (Hskip : c <> 47 -> ~ PMatch g2 (c :: t') -> forall sk,
              RS2 g2 (star_loop rec false lit false q0 WNoMatch sk t') (c :: t')).
    { intros Hc Hno sk. specialize (IH sk).
      destruct (star_loop rec false lit false q0 WNoMatch sk t'); cbn in *; try tauto.
      - destruct IH as [t2 [Hs H]]. exists t2. split; [now apply csuffix_cons|assumption].
      - intros t2 Hs. apply csuffix_cons_inv in Hs. destruct Hs as [->|[_ Hs]]; [assumption|now apply IH].
      - intros t2 Hs. apply suffix_cons_inv in Hs. destruct Hs as [->|Hs]; [assumption|now apply IH].
      - intros t2 Hs. apply csuffix_cons_inv in Hs. destruct Hs as [->|[_ Hs]]; [assumption|now apply IH]. }
    assert (Htry :
      RS2 g2 (let m := rec (c :: t') in
              if negb (wm_eqb m WNoMatch) then m
              else if c =? cSLASH then WAbortStarStar
                   else star_loop rec false lit false q0 WNoMatch false t') (c :: t')).
    { cbv zeta. pose proof (Hrec (c :: t')) as Hm.
      destruct (rec (c :: t')); cbn in Hm |- *; try tauto.
      - exists (c :: t'). split; [apply csuffix_refl|assumption].
      - unfold cSLASH. destruct (c =? 47) eqn:Ec.
        + apply N.eqb_eq in Ec. subst c. cbn. intros t2 Hs. apply csuffix_slash in Hs. now subst.
        + apply N.eqb_neq in Ec. now apply Hskip. }
    destruct lit.
    + unfold cSLASH. destruct (c =? 47) eqn:Ec.
      * apply N.eqb_eq in Ec. subst c. cbn. intros t2 Hs. apply csuffix_slash in Hs. subst.
        intros H. apply Hhead in H. congruence.
      * destruct (c =? q0) eqn:Eq.
        -- cbv zeta in Htry. unfold cSLASH in Htry. rewrite Ec in Htry. exact Htry.
        -- apply Hskip; [now apply N.eqb_neq|].
           intros H. destruct (Hlit eq_refl _ H) as [t1 E]. inversion E; subst.
           rewrite N.eqb_refl in Eq. discriminate.
    + exact Htry.
Qed.

(* the loop of "**/" : the rest, which begins with the slash, is tried at
   every slash of the text *)
Definition RS3 (g2 : list pitem) (w : wm) (t : bytes) : Prop :=
  match w with
  | WMatch => exists t', suffix t' t /\ PMatch g2 t'
  | WNoMatch | WAbortAll => forall t', suffix t' t -> ~ PMatch g2 t'
  | _ => False
  end.

Lemma star_loop_dirs rec g3 :
  (forall t, R2 false (PSep :: g3) (rec t) t) ->
  forall t skipped, RS3 (PSep :: g3) (star_loop rec true true false 47 WNoMatch skipped t) t.
Proof.
  intros Hrec. induction t as [|c t' IH]; intros skipped; cbn [star_loop].
  - assert (H : forall t', suffix t' [] -> ~ PMatch (PSep :: g3) t').
    { intros t' Hs. apply suffix_nil in Hs. subst. intros H. apply PM_sep_inv in H.
      destruct H as (? & ? & _). discriminate. }
    destruct skipped; exact H.
  - cbn [negb andb orb fold].
    assert (Hskip : ~ PMatch (PSep :: g3) (c :: t') -> forall sk,
              RS3 (PSep :: g3) (star_loop rec true true false 47 WNoMatch sk t') (c :: t')).
    { intros Hno sk. specialize (IH sk).
      destruct (star_loop rec true true false 47 WNoMatch sk t'); cbn in *; try tauto.
      - destruct IH as [t2 [Hs H]]. exists t2. split; [now apply suffix_cons|assumption].
      - intros t2 Hs. apply suffix_cons_inv in Hs. destruct Hs as [->|Hs]; [assumption|now apply IH].
      - intros t2 Hs. apply suffix_cons_inv in Hs. destruct Hs as [->|Hs]; [assumption|now apply IH]. }
    destruct (c =? 47) eqn:Ec.
    + pose proof (Hrec (c :: t')) as Hm.
      destruct (rec (c :: t')); cbn in Hm |- *; try tauto.
      * exists (c :: t'). split; [apply suffix_refl|assumption].
      * now apply Hskip.
      * apply Hskip. apply Hm. apply csuffix_refl.
    + apply Hskip. intros H. apply PM_sep_inv in H. destruct H as (t0 & E & _).
      inversion E; subst. discriminate.
Qed.

(* ------------------------------------------------------------------ *)
(* case '*' with WM_PATHNAME, in the two shapes of the fragment        *)

Lemma drop_stars_nonstar p : match p with c :: _ => c =? cSTAR | [] => false end = false ->
  drop_stars p = p.
Proof. destruct p as [|c r]; [reflexivity|]. cbn. intros ->. reflexivity. Qed.

(* a single star *)
Lemma star_case_single rec c1 c2 c3 prev p1 t :
  match p1 with c :: _ => c =? cSTAR | [] => false end = false ->
  star_case rec true false c1 c2 c3 prev p1 t =
  match p1 with
  | [] => if has_slash t then c1 else WMatch
  | q0 :: q1 =>
    if q0 =? cSLASH then match after_slash t with None => c2 | Some t' => rec (Some cSLASH) q1 t' end
    else star_loop (rec None p1) false (negb (is_glob_special q0)) false q0 (c3 false) false t
  end.
Proof.
  intros H. unfold star_case. rewrite (drop_stars_nonstar _ H), H. cbn [andb negb orb].
  destruct p1 as [|q0 q1]; reflexivity.
Qed.

(* "**/" at the beginning of a segment *)
Lemma star_case_dirs rec c1 c2 c3 prev r3 t :
  (prev = None \/ prev = Some 47) ->
  star_case rec true false c1 c2 c3 prev (cSTAR :: cSLASH :: r3) t =
  match rec None r3 t with
  | WMatch => WMatch
  | WFuel => WFuel
  | _ => star_loop (rec None (cSLASH :: r3)) true true false 47 (c3 true) false t
  end.
Proof.
  intros Hp. unfold star_case.
  change (drop_stars (cSTAR :: cSLASH :: r3)) with (cSLASH :: r3).
  change (cSTAR =? cSTAR) with true. change (cSLASH =? cSLASH) with true.
  assert (Hb : match prev with Some c => c =? cSLASH | None => true end = true)
    by (destruct Hp as [->| ->]; reflexivity).
  rewrite Hb. cbn [andb orb negb]. reflexivity.
Qed.

(* ------------------------------------------------------------------ *)
(* the parser                                                          *)

Lemma ocons_some {A} (x : A) o l : ocons x o = Some l -> exists l', o = Some l' /\ l = x :: l'.
Proof. destruct o as [l'|]; cbn; [|discriminate]. intros H; inversion H; eauto. Qed.

(* the first item of a parsed pattern that begins neither with a star nor with a slash *)
Lemma pparse_head f bos q0 q1 g : pparse f bos (q0 :: q1) = Some g ->
  (q0 =? 42) = false -> (q0 =? 47) = false ->
  exists it g', g = PIt it :: g' /\ is_star it = false /\
                (is_glob_special q0 = false -> it = ILit q0).
Proof.
  intros Hp Hs Hsl. destruct f as [|f0]; [discriminate|]. cbn [pparse] in Hp.
  unfold is_glob_special, cSTAR, cQM, cLB, cBSL.
  destruct (q0 =? 92) eqn:E1.
  { destruct q1 as [|e r']; [discriminate|]. destruct (e =? 47); [discriminate|].
    apply ocons_some in Hp. destruct Hp as (g' & _ & ->).
    eexists _, _. split; [reflexivity|]. split; [reflexivity|].
    rewrite !orb_true_r. discriminate. }
  destruct (q0 =? 63) eqn:E2.
  { apply ocons_some in Hp. destruct Hp as (g' & _ & ->).
    eexists _, _. split; [reflexivity|]. split; [reflexivity|]. rewrite Hs. cbn. discriminate. }
  rewrite Hs in Hp.
  destruct (q0 =? 91) eqn:E3.
  { destruct (parse_set q1) as [[it rest]|] eqn:Hps; [|discriminate].
    apply ocons_some in Hp. destruct Hp as (g' & _ & ->).
    destruct (parse_set_is_set _ _ _ Hps) as (neg & rs & ->).
    eexists _, _. split; [reflexivity|]. split; [reflexivity|]. rewrite Hs. cbn. discriminate. }
  rewrite Hsl in Hp.
  apply ocons_some in Hp. destruct Hp as (g' & _ & ->).
  eexists _, _. split; [reflexivity|]. split; [reflexivity|]. reflexivity.
Qed.

(* ------------------------------------------------------------------ *)
(* the main invariant                                                  *)

Lemma R2_star_of_RS2 bos g2 w t : RS2 g2 w t -> R2 bos (PIt IStar :: g2) w t.
Proof.
  intros H. apply R2_weaken. destruct w; cbn in *; try tauto.
  - apply PM_star_iff. exact H.
  - intros H'. apply PM_star_iff in H'. destruct H' as (t' & Hs & Hm). exact (H _ Hs Hm).
  - intros T' Hs H'. apply PM_star_iff in H'. destruct H' as (t' & Hs' & Hm).
    apply (H t'); [|exact Hm]. eapply suffix_trans; [apply csuffix_suffix; eassumption|assumption].
  - intros T' Hs H'. apply PM_star_iff in H'. destruct H' as (t' & Hs' & Hm).
    apply (H t'); [|exact Hm]. eapply csuffix_trans; eassumption.
Qed.

Lemma gdowild_R2 : forall fuel fuel' p t prev bos g,
  (List.length p < fuel)%nat -> pparse fuel' bos p = Some g ->
  (bos = true -> prev = None \/ prev = Some 47) ->
  R2 bos g (gdowild fuel 2 prev p t) t.
Proof.
  induction fuel as [|f IH]; intros fuel' p t prev bos g Hf Hp Hprev; [lia|].
  destruct fuel' as [|f']; [discriminate|].
  cbn [gdowild]. change (fl_casefold 2) with false. change (fl_pathname 2) with true.
  cbn [fold andb].
  destruct p as [|pc0 p1].
  { cbn in Hp. inversion Hp; subst. destruct t; cbn; [constructor|]. intros H; inversion H. }
  cbn [pparse] in Hp. cbn in Hf.
  unfold cBSL, cQM, cSTAR, cLB, cRB, cSLASH.
  destruct (pc0 =? 92) eqn:E1.
  { (* backslash *)
    apply N.eqb_eq in E1. subst pc0. change (92 =? 42) with false. cbn [negb andb].
    destruct p1 as [|e p2]; [discriminate|].
    destruct (e =? 47) eqn:Ee47; [discriminate|]. apply N.eqb_neq in Ee47.
    apply ocons_some in Hp. destruct Hp as (g' & Hp2 & ->).
    destruct t as [|tc t1]; [now apply R2_item_nil|].
    destruct (tc =? e) eqn:Ee; cbn [negb].
    - apply R2_item; [reflexivity|exact Ee| |].
      + apply N.eqb_eq in Ee. congruence.
      + eapply IH; [cbn in Hf; lia|exact Hp2|discriminate].
    - apply R2_item_fail; [reflexivity|now left]. }
  destruct (pc0 =? 63) eqn:E2.
  { apply N.eqb_eq in E2. subst pc0. change (63 =? 42) with false. cbn [negb andb].
    apply ocons_some in Hp. destruct Hp as (g' & Hp1 & ->).
    destruct t as [|tc t1]; [now apply R2_item_nil|].
    destruct (tc =? 47) eqn:Et.
    - apply R2_item_fail; [reflexivity|]. right. now apply N.eqb_eq.
    - apply R2_item; [reflexivity|reflexivity|now apply N.eqb_neq|].
      eapply IH; [lia|exact Hp1|discriminate]. }
  destruct (pc0 =? 42) eqn:E3.
  { (* star *)
    rewrite andb_false_r.
    destruct p1 as [|d r2].
    { (* a trailing star *)
      inversion Hp; subst. rewrite star_case_single by reflexivity.
      destruct (has_slash t) eqn:Hh; cbn.
      - intros H. apply PM_star_iff in H. destruct H as (t' & (s & -> & Hs) & Hm).
        apply PM_nil_inv in Hm. subst. rewrite app_nil_r in Hh.
        apply noslash_has_slash in Hs. congruence.
      - replace t with (t ++ []) by apply app_nil_r. constructor; [|constructor].
        now apply noslash_has_slash. }
    destruct (d =? 42) eqn:Ed.
    { (* "**/" *)
      apply N.eqb_eq in Ed. subst d.
      destruct bos; [|discriminate].
      destruct r2 as [|s r3]; [discriminate|].
      destruct (s =? 47) eqn:Es; [|discriminate]. apply N.eqb_eq in Es. subst s.
      apply ocons_some in Hp. destruct Hp as (g3 & Hp3 & ->).
      change (42 :: 47 :: r3) with (cSTAR :: cSLASH :: r3).
      rewrite (star_case_dirs _ _ _ _ _ _ _ (Hprev eq_refl)).
      cbn in Hf.
      pose proof (IH f' r3 t None true g3 ltac:(lia) Hp3 ltac:(intros _; now left)) as H0.
      assert (Hloop : RS3 (PSep :: g3)
                (star_loop (gdowild f 2 None (cSLASH :: r3)) true true false 47 WNoMatch false t) t).
      { apply star_loop_dirs. intros t0.
        apply (IH (S f') (cSLASH :: r3) t0 None false (PSep :: g3)); [cbn; lia| |discriminate].
        cbn [pparse]. unfold cSLASH. change (47 =? 92) with false. change (47 =? 63) with false.
        change (47 =? 42) with false. change (47 =? 91) with false. change (47 =? 47) with true.
        cbn iota. now rewrite Hp3. }
      destruct (gdowild f 2 None r3 t) eqn:E0.
      - cbn. now apply PM_dirs0.
      - (* WNoMatch *)
        assert (Hno : ~ PMatch g3 t) by (eapply R2_not_match; [exact H0|discriminate]).
        clear H0.
        destruct (star_loop _ _ _ _ _ _ _ t); cbn in Hloop |- *; try tauto.
        + destruct Hloop as (t' & (s & ->) & Hm). apply PM_sep_inv in Hm.
          destruct Hm as (t'' & -> & Hm). now apply PM_dirsS.
        + intros H. apply PM_dirs_iff in H. destruct H as [H|(s & t'' & -> & H)]; [tauto|].
          apply (Hloop (47 :: t'')); [now exists s|now constructor].
        + intros T' Hb H. apply PM_dirs_iff in H. destruct H as [H|(s & t'' & -> & H)].
          * destruct Hb as [->|(s0 & ->)]; [tauto|].
            apply (Hloop (47 :: T')); [now exists s0|now constructor].
          * apply (Hloop (47 :: t'')); [|now constructor].
            eapply suffix_trans; [|apply bsuffix_suffix; exact Hb]. now exists s.
      - (* WAbortAll *)
        assert (Hno : ~ PMatch g3 t) by (eapply R2_not_match; [exact H0|discriminate]).
        clear H0.
        destruct (star_loop _ _ _ _ _ _ _ t); cbn in Hloop |- *; try tauto.
        + destruct Hloop as (t' & (s & ->) & Hm). apply PM_sep_inv in Hm.
          destruct Hm as (t'' & -> & Hm). now apply PM_dirsS.
        + intros H. apply PM_dirs_iff in H. destruct H as [H|(s & t'' & -> & H)]; [tauto|].
          apply (Hloop (47 :: t'')); [now exists s|now constructor].
        + intros T' Hb H. apply PM_dirs_iff in H. destruct H as [H|(s & t'' & -> & H)].
          * destruct Hb as [->|(s0 & ->)]; [tauto|].
            apply (Hloop (47 :: T')); [now exists s0|now constructor].
          * apply (Hloop (47 :: t'')); [|now constructor].
            eapply suffix_trans; [|apply bsuffix_suffix; exact Hb]. now exists s.
      - (* WAbortStarStar *)
        assert (Hno : ~ PMatch g3 t) by (eapply R2_not_match; [exact H0|discriminate]).
        clear H0.
        destruct (star_loop _ _ _ _ _ _ _ t); cbn in Hloop |- *; try tauto.
        + destruct Hloop as (t' & (s & ->) & Hm). apply PM_sep_inv in Hm.
          destruct Hm as (t'' & -> & Hm). now apply PM_dirsS.
        + intros H. apply PM_dirs_iff in H. destruct H as [H|(s & t'' & -> & H)]; [tauto|].
          apply (Hloop (47 :: t'')); [now exists s|now constructor].
        + intros T' Hb H. apply PM_dirs_iff in H. destruct H as [H|(s & t'' & -> & H)].
          * destruct Hb as [->|(s0 & ->)]; [tauto|].
            apply (Hloop (47 :: T')); [now exists s0|now constructor].
          * apply (Hloop (47 :: t'')); [|now constructor].
            eapply suffix_trans; [|apply bsuffix_suffix; exact Hb]. now exists s.
      - cbn in H0. exact H0. }
    (* a single star followed by d :: r2 *)
    apply ocons_some in Hp. destruct Hp as (g1 & Hp1 & ->).
    rewrite star_case_single by (cbn; unfold cSTAR; exact Ed).
    unfold cSLASH. destruct (d =? 47) eqn:Ed47.
    { (* "*/" : jump to the next slash *)
      apply N.eqb_eq in Ed47. subst d.
      destruct f' as [|f'']; [discriminate|]. cbn [pparse] in Hp1.
      change (47 =? 92) with false in Hp1. change (47 =? 63) with false in Hp1.
      change (47 =? 42) with false in Hp1. change (47 =? 91) with false in Hp1.
      change (47 =? 47) with true in Hp1. cbn iota in Hp1.
      apply ocons_some in Hp1. destruct Hp1 as (g' & Hpq & ->).
      pose proof (after_slash_spec t) as Has.
      destruct (after_slash t) as [t1|].
      - destruct Has as (s & -> & Hs). cbn in Hf.
        pose proof (IH f'' r2 t1 (Some 47) true g' ltac:(lia) Hpq ltac:(intros _; now right)) as H1.
        apply R2_weaken.
        destruct (gdowild f 2 (Some 47) r2 t1); cbn in H1 |- *; try tauto.
        + constructor; [exact Hs|]. now constructor.
        + intros H. apply PM_star_iff in H. destruct H as (t' & (s' & E & Hs') & Hm).
          apply PM_sep_inv in Hm. destruct Hm as (t'' & -> & Hm).
          destruct (first_slash_unique _ _ _ _ Hs Hs' E) as [_ <-]. tauto.
        + intros T' Hsuf H. apply PM_star_iff in H. destruct H as (t' & (s' & -> & Hs') & Hm).
          apply PM_sep_inv in Hm. destruct Hm as (t'' & -> & Hm).
          destruct Hsuf as (u & E). rewrite app_assoc in E.
          destruct (first_slash _ _ _ _ Hs E) as [[_ ->]|(x & ->)].
          * eapply H1; [now left|exact Hm].
          * eapply H1; [right; now exists x|exact Hm].
        + intros T' Hsuf H. apply PM_star_iff in H. destruct H as (t' & (s' & -> & Hs') & Hm).
          apply PM_sep_inv in Hm. destruct Hm as (t'' & -> & Hm).
          destruct Hsuf as (u & E & Hu). rewrite app_assoc in E.
          destruct (first_slash_unique _ _ _ _ Hs (noslash_app _ _ Hu Hs') E) as [_ <-].
          eapply H1; [apply csuffix_refl|exact Hm].
      - (* no slash left *)
        cbn. intros H. apply PM_star_iff in H. destruct H as (t' & (s' & -> & Hs') & Hm).
        apply PM_sep_inv in Hm. destruct Hm as (t'' & -> & Hm).
        apply Has. apply in_or_app. right. now left. }
    (* the star loop *)
    destruct f' as [|f'']; [discriminate|].
    destruct (pparse_head _ _ _ _ _ Hp1 Ed Ed47) as (it & g' & -> & Hit & Hlit).
    apply R2_star_of_RS2.
    change (fun _ : bool => WNoMatch) with (fun _ : bool => WNoMatch).
    apply star_loop_single.
    - intros t0. eapply IH; [cbn in Hf |- *; lia|exact Hp1|discriminate].
    - intros H. apply PM_item_inv in H; [|assumption]. destruct H as (? & ? & ? & _). discriminate.
    - intros c t0 H. apply PM_item_inv in H; [|assumption].
      destruct H as (c0 & t1 & E & _ & Hc & _). inversion E; subst. exact Hc.
    - intros Hl t0 H. apply negb_true_iff in Hl. rewrite (Hlit Hl) in H.
      apply PM_item_inv in H; [|reflexivity]. destruct H as (c0 & t1 & -> & A & _).
      cbn in A. apply N.eqb_eq in A. subst. eauto. }
  destruct (pc0 =? 91) eqn:E4.
  { (* bracket *)
    cbn [negb andb].
    destruct (parse_set p1) as [[it rest]|] eqn:Hps; [|discriminate].
    apply ocons_some in Hp. destruct Hp as (g' & Hpr & ->).
    destruct (parse_set_is_set _ _ _ Hps) as (neg & rs & ->).
    destruct t as [|tc t1]; [now apply R2_item_nil|].
    rewrite (bracket_parse _ _ _ _ tc Hps).
    destruct (bracket_ok false tc p1) as [_ Hlen].
    specialize (Hlen _ _ _ (bracket_parse _ _ _ _ tc Hps)).
    destruct (eqb (in_ranges rs tc) neg) eqn:Eq; cbn [orb].
    - apply R2_item_fail; [reflexivity|]. left. cbn. now rewrite Eq.
    - destruct (tc =? 47) eqn:Et.
      + apply R2_item_fail; [reflexivity|]. right. now apply N.eqb_eq.
      + apply R2_item; [reflexivity|cbn; now rewrite Eq|now apply N.eqb_neq|].
        eapply IH; [lia|exact Hpr|discriminate]. }
  cbn [negb andb].
  destruct (pc0 =? 47) eqn:E5.
  { (* the slash *)
    apply N.eqb_eq in E5. subst pc0.
    apply ocons_some in Hp. destruct Hp as (g' & Hp1 & ->).
    destruct t as [|tc t1]; [apply R2_sep_nil|].
    destruct (tc =? 47) eqn:Et; cbn [negb].
    - apply N.eqb_eq in Et. subst tc. apply R2_sep.
      eapply IH; [lia|exact Hp1|intros _; now right].
    - apply R2_sep_fail. now apply N.eqb_neq. }
  (* literal *)
  apply ocons_some in Hp. destruct Hp as (g' & Hp1 & ->).
  destruct t as [|tc t1]; [now apply R2_item_nil|].
  destruct (tc =? pc0) eqn:Ee; cbn [negb].
  - apply R2_item; [reflexivity|exact Ee| |].
    + apply N.eqb_eq in Ee. subst tc. now apply N.eqb_neq.
    + eapply IH; [lia|exact Hp1|discriminate].
  - apply R2_item_fail; [reflexivity|now left].
Qed.

(* wildmatch(p, t, WM_PATHNAME) holds exactly when the path glob denoted by p matches t *)
Theorem gwildmatch_path_sound_complete p g t :
  pglob_of p = Some g -> (gwildmatch 2 p t = true <-> PMatch g t).
Proof.
  intros Hp. unfold gwildmatch.
  pose proof (gdowild_R2 (wm_fuel p) _ p t None true g ltac:(unfold wm_fuel; lia) Hp
                ltac:(intros _; now left)) as H.
  destruct (gdowild (wm_fuel p) 2 None p t); cbn in H |- *; split; try tauto; try discriminate.
  - intros H'. exfalso. apply (H t); [now left|assumption].
  - intros H'. exfalso. apply (H t); [apply csuffix_refl|assumption].
Qed.
