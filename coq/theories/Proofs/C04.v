(* Proofs/C04.v — tree codec: round trip, decode agrees with git's reader. *)
From Coq Require Import List NArith ZArith Bool Lia ZifyBool ZifyNat ZifyN.
From GoGit Require Import Base.Out Gen.C04 Model.TreeObj Spec.GitTree.
Import ListNotations.
Local Open Scope N_scope.

Ltac norm := repeat (rewrite <- app_assoc || (progress (cbn [app]))).

(* ================================================================ small facts *)
Definition tlacks (c : N) (s : bytes) : bool := forallb (fun x => negb (x =? c)) s.

Lemma tcut_app c a b : tlacks c a = true -> tcut c (a ++ c :: b) = Some (a, b).
Proof.
  induction a as [|x a IH]; cbn [app tcut]; intros H.
  - now rewrite N.eqb_refl.
  - cbn [tlacks forallb] in H. apply andb_true_iff in H as [Hx Ha].
    destruct (x =? c); [discriminate|]. now rewrite IH.
Qed.

(* tcut is the only way the parsers split: inversion *)
Lemma tcut_inv c s a b : tcut c s = Some (a, b) -> s = a ++ c :: b /\ tlacks c a = true.
Proof.
  revert a b; induction s as [|x s IH]; intros a b; cbn [tcut]; [discriminate|].
  destruct (x =? c) eqn:E.
  - intros [= <- <-]. apply N.eqb_eq in E. subst. now split.
  - destruct (tcut c s) as [[a' b']|]; [|discriminate]. intros [= <- <-].
    destruct (IH a' b' eq_refl) as [-> H]. split; [reflexivity|].
    unfold tlacks in *. cbn [forallb]. now rewrite E, H.
Qed.

Lemma beq_eq a b : beq a b = true <-> a = b.
Proof.
  revert b; induction a as [|x a IH]; intros [|y b]; cbn; try easy.
  rewrite andb_true_iff, IH, N.eqb_eq. split; [intros [-> ->]|intros [= -> ->]]; auto.
Qed.

(* ================================================================ modes *)
(* the two canonicalisations are the same function *)
Lemma canon_same m : treeobj_canonicalTreeMode m = canon_mode m.
Proof.
  unfold treeobj_canonicalTreeMode, canon_mode. cbv zeta.
  destruct (Z.land m 61440 =? 16384)%Z eqn:A, (Z.land m 61440 =? 32768)%Z eqn:B, (Z.land m 61440 =? 40960)%Z eqn:C;
    try reflexivity; try lia.
  all: destruct (Z.land m 64 =? 0)%Z; reflexivity.
Qed.

Definition valid_modes : list Z := [33188; 33261; 40960; 16384; 57344; 33204]%Z.

Lemma valid_mode_in m : treeobj_isValidTreeMode m = true -> In m valid_modes.
Proof.
  unfold treeobj_isValidTreeMode, valid_modes. intros H.
  destruct (m =? 33188)%Z eqn:E1; [left; lia|].
  destruct (m =? 33261)%Z eqn:E2; [right; left; lia|].
  destruct (m =? 40960)%Z eqn:E3; [right; right; left; lia|].
  destruct (m =? 16384)%Z eqn:E4; [right; right; right; left; lia|].
  destruct (m =? 57344)%Z eqn:E5; [right; right; right; right; left; lia|].
  destruct (m =? 33204)%Z eqn:E6; [right; right; right; right; right; left; lia|].
  cbn in H. discriminate.
Qed.

(* "%o" of a valid mode parses back, is 5 or 6 octal digits, holds no SP *)
Lemma oct_valid m : In m valid_modes ->
  mode_of_bytes (oct_of m) = Some m /\ tlacks 32 (oct_of m) = true /\
  get_mode (oct_of m ++ [32]) = Some (oct_of m, Z.to_N m, []) /\
  match oct_of m with c :: _ => negb (c =? 48) | [] => true end = true.
Proof.
  unfold valid_modes. intros H.
  repeat (destruct H as [<-|H]; [vm_compute; repeat split; reflexivity|]). destruct H.
Qed.

(* ================================================================ what Validate guarantees per entry *)
Definition entry_ok (e : tentry) : Prop :=
  t_name e <> [] /\ tlacks 0 (t_name e) = true /\ tlacks 47 (t_name e) = true /\
  treeobj_isValidTreeMode (t_mode e) = true /\ is_zero_hash (t_hash e) = false /\
  valid_tree_path (t_name e) = true.

Lemma control_free_no_nul n : existsb is_control n = false -> tlacks 0 n = true.
Proof.
  induction n as [|c n IH]; cbn [existsb tlacks forallb]; [easy|].
  intros H. apply orb_false_iff in H as [Hc Hn]. fold (tlacks 0 n). rewrite (IH Hn), andb_true_r.
  unfold is_control in Hc. lia.
Qed.

Lemma slash_free n : existsb (fun c => c =? 47) n = false -> tlacks 47 n = true.
Proof.
  unfold tlacks. induction n as [|x l IH]; [reflexivity|].
  cbn [existsb forallb]. intros K. apply orb_false_iff in K as [K1 K2]. now rewrite K1, IH.
Qed.

Lemma validate_entry_ok seen prev e :
  v_invalid (validate_entry seen prev e) = false -> entry_ok e.
Proof.
  unfold validate_entry. cbv zeta. cbn [v_invalid]. intros H.
  apply orb_false_iff in H as [H Huns]. apply orb_false_iff in H as [H Hlink].
  apply orb_false_iff in H as [H Hmode]. apply orb_false_iff in H as [Hzero Hname].
  apply orb_false_iff in Hname as [Hname Hlong]. apply orb_false_iff in Hname as [Hname Hdup].
  apply orb_false_iff in Hname as [Hnok Hvtp].
  apply negb_false_iff in Hnok, Hvtp, Hmode.
  destruct (t_name e) as [|c n] eqn:N.
  { exfalso. revert Hnok. clear. intros H. discriminate H. }
  apply negb_true_iff in Hnok.
  unfold entry_ok. rewrite N.
  split. { intros E. discriminate E. }
  split. { unfold valid_tree_path in Hvtp. apply andb_true_iff in Hvtp as [K _].
           apply negb_true_iff in K. now apply control_free_no_nul. }
  split. { now apply slash_free. }
  auto.
Qed.

Lemma validate_go_inv es : forall seen prev acc,
  v_invalid (validate_go es seen prev acc) = false ->
  v_invalid acc = false /\ Forall entry_ok es.
Proof.
  induction es as [|e es IH]; intros seen prev acc H; cbn [validate_go] in H.
  - now split.
  - apply IH in H as [H1 H2]. cbn [v_invalid] in H1. apply orb_false_iff in H1 as [Ha Hv].
    split; [exact Ha|]. constructor; [now apply (validate_entry_ok seen prev)|exact H2].
Qed.

Lemma validate_all_ok es : v_invalid (validate es) = false -> Forall entry_ok es.
Proof. intros H. now apply (validate_go_inv es [] None _ H). Qed.

(* ================================================================ round trip *)
Definition canon_entry (e : tentry) : tentry :=
  mkT (treeobj_canonicalTreeMode (t_mode e)) (t_name e) (t_hash e).

Lemma firstn_skipn_app {A} (h r : list A) n : List.length h = n -> firstn n (h ++ r) = h /\ skipn n (h ++ r) = r.
Proof.
  intros <-. split.
  - rewrite firstn_app, Nat.sub_diag, firstn_all. cbn. apply app_nil_r.
  - rewrite skipn_app, Nat.sub_diag, skipn_all. reflexivity.
Qed.

Lemma decode_encoded es : forall fuel acc rest_ok,
  Forall entry_ok es -> Forall (fun e => List.length (t_hash e) = 20%nat) es ->
  (List.length (concat (map encode_entry es)) < fuel)%nat -> rest_ok = tt ->
  decode_go fuel 20 (concat (map encode_entry es)) acc = inr (rev acc ++ map canon_entry es).
Proof.
  induction es as [|e es IH]; intros fuel acc u Hok Hlen Hfuel _.
  - destruct fuel; cbn [map concat decode_go]; now rewrite app_nil_r.
  - inversion Hok as [|? ? (Hn & Hnul & Hsl & Hm & Hz & Hp) Hok']; subst.
    inversion Hlen as [|? ? Hh Hlen']; subst.
    destruct (oct_valid _ (valid_mode_in _ Hm)) as (O1 & O2 & _ & _).
    cbn [map concat]. unfold encode_entry at 1. norm.
    destruct fuel as [|f]; [lia|].
    assert (NE : oct_of (t_mode e) ++ 32 :: t_name e ++ 0 :: t_hash e ++ concat (map encode_entry es) <> [])
      by (destruct (oct_of (t_mode e)); discriminate).
    cbn [decode_go].
    destruct (oct_of (t_mode e) ++ 32 :: t_name e ++ 0 :: t_hash e ++ concat (map encode_entry es)) eqn:E; [easy|].
    rewrite <- E. rewrite (tcut_app 32) by easy. rewrite O1. rewrite (tcut_app 0) by easy.
    destruct (t_name e) as [|c0 n0] eqn:N; [easy|]. rewrite <- N.
    destruct (firstn_skipn_app (t_hash e) (concat (map encode_entry es)) 20 Hh) as [-> ->].
    assert (L : Nat.ltb (List.length (t_hash e ++ concat (map encode_entry es))) 20 = false)
      by (rewrite app_length, Hh; apply Nat.ltb_ge; lia).
    rewrite L. rewrite N. rewrite <- N.
    rewrite (IH f _ tt Hok' Hlen'); [|
      cbn [map concat] in Hfuel; unfold encode_entry at 1 in Hfuel; rewrite !app_length in Hfuel; cbn [List.length] in Hfuel;
      rewrite !app_length in Hfuel; cbn [List.length] in Hfuel; lia|reflexivity].
    cbn [rev map]. unfold canon_entry at 2. now norm.
Qed.

Lemma enc_dec es b :
  Forall (fun e => List.length (t_hash e) = 20%nat) es ->
  encode es = Some b -> decode 20 b = inr (map canon_entry es).
Proof.
  intros Hlen. unfold encode. destruct (v_invalid (validate es)) eqn:V; [discriminate|]. intros [= <-].
  unfold decode. now rewrite (decode_encoded es _ [] tt (validate_all_ok es V) Hlen (Nat.lt_succ_diag_r _) eq_refl).
Qed.

(* Deprecated (0100664) is the one accepted mode that does not read back as written *)
Lemma canon_valid m : In m valid_modes -> m <> 33204%Z -> treeobj_canonicalTreeMode m = m.
Proof.
  unfold valid_modes. intros H Hd.
  repeat (destruct H as [<-|H]; [try reflexivity; now elim Hd|]). destruct H.
Qed.

(* ================================================================ go-git's decoder is git's *)
(* a successful decode_go exhibits the buffer as a sequence of well-formed raw entries *)
Record wfraw (r : rawent) : Prop := {
  wf_mtext : mode_of_bytes (r_mtext r) = Some (r_mode r);
  wf_name : r_name r <> [];
  wf_nul : tlacks 0 (r_name r) = true;
  wf_oid : List.length (r_oid r) = 20%nat }.

Definition raw_bytes (r : rawent) : bytes := r_mtext r ++ 32 :: r_name r ++ 0 :: r_oid r.
Definition raw_canon (r : rawent) : tentry := mkT (treeobj_canonicalTreeMode (r_mode r)) (r_name r) (r_oid r).

Lemma firstn_skipn_len {A} (l : list A) n : (n <= List.length l)%nat -> List.length (firstn n l) = n /\ l = firstn n l ++ skipn n l.
Proof. intros H. split; [now apply firstn_length_le|symmetry; apply firstn_skipn]. Qed.

Lemma mode_of_bytes_octal m v : mode_of_bytes m = Some v ->
  forallb is_octal m = true /\ (1 <= List.length m <= 7)%nat /\ v = Z.of_N (octal_val m 0).
Proof.
  unfold mode_of_bytes. destruct (Nat.eqb (List.length m) 0 || Nat.ltb 7 (List.length m)) eqn:L; [discriminate|].
  destruct (forallb is_octal m) eqn:O; [|discriminate]. intros [= <-]. repeat split; lia.
Qed.

Lemma decode_go_inv : forall fuel b acc l,
  decode_go fuel 20 b acc = inr l ->
  exists rs, b = concat (map raw_bytes rs) /\ Forall wfraw rs /\ l = rev acc ++ map raw_canon rs.
Proof.
  induction fuel as [|f IH]; intros b acc l H.
  - destruct b; cbn [decode_go] in H; [|discriminate]. injection H as <-. exists []. cbn. now rewrite app_nil_r.
  - destruct b as [|x b']; cbn [decode_go] in H.
    { injection H as <-. exists []. cbn. now rewrite app_nil_r. }
    set (b := x :: b') in *.
    destruct (tcut 32 b) as [[m r]|] eqn:C1; [|discriminate].
    destruct (mode_of_bytes m) as [mode|] eqn:M; [|discriminate].
    destruct (tcut 0 r) as [[name r2]|] eqn:C2; [|discriminate].
    destruct name as [|c n] eqn:N; [discriminate|]. rewrite <- N in *.
    destruct (Nat.ltb (List.length r2) 20) eqn:L; [discriminate|]. apply Nat.ltb_ge in L.
    apply IH in H as (rs & Hb & Hwf & Hl).
    destruct (tcut_inv _ _ _ _ C1) as [E1 _]. destruct (tcut_inv _ _ _ _ C2) as [E2 Hnul].
    destruct (firstn_skipn_len r2 20 L) as [Hlen Hsplit].
    exists (mkR m mode name (firstn 20 r2) :: rs). repeat split.
    + cbn [map concat]. unfold raw_bytes at 1. cbn [r_mtext r_name r_oid]. rewrite <- Hb.
      rewrite E1, E2. norm. now rewrite <- Hsplit.
    + constructor; [|exact Hwf]. constructor; cbn [r_mtext r_mode r_name r_oid]; auto. rewrite N. discriminate.
    + rewrite Hl. cbn [rev map]. unfold raw_canon at 2. cbn [r_mode r_name r_oid]. now norm.
Qed.

(* git's get_mode on a short octal token: the same number, no wrap-around *)
Lemma octal_val_bound s acc : forallb is_octal s = true -> octal_val s acc < (acc + 1) * 8 ^ N.of_nat (List.length s).
Proof.
  revert acc; induction s as [|c s IH]; intros acc H.
  - cbn. lia.
  - cbn [forallb] in H. apply andb_true_iff in H as [Hc Hs]. cbn [octal_val List.length].
    specialize (IH (8 * acc + (c - 48)) Hs). rewrite Nat2N.inj_succ, N.pow_succ_r'.
    unfold is_octal in Hc.
    assert (8 * acc + (c - 48) + 1 <= (acc + 1) * 8) by lia.
    eapply N.lt_le_trans; [exact IH|]. nia.
Qed.

Lemma get_mode_go_octal s : forall acc seen rest,
  forallb is_octal s = true -> (acc + 1) * 8 ^ N.of_nat (List.length s) <= 2 ^ 32 ->
  get_mode_go (s ++ 32 :: rest) acc seen = Some (rev seen ++ s, octal_val s acc, rest).
Proof.
  induction s as [|c s IH]; intros acc seen rest H B.
  - cbn. now rewrite app_nil_r.
  - cbn [forallb] in H. apply andb_true_iff in H as [Hc Hs]. cbn [app get_mode_go].
    assert (E : (c =? 32) = false) by (unfold is_octal in Hc; lia). rewrite E, Hc.
    cbn [List.length] in B. rewrite Nat2N.inj_succ, N.pow_succ_r' in B.
    assert (P : 0 < 8 ^ N.of_nat (List.length s)) by (apply N.neq_0_lt_0, N.pow_nonzero; lia).
    assert (Hsmall : 8 * acc + (c - 48) < 2 ^ 32) by (unfold is_octal in Hc; nia).
    rewrite N.mod_small by exact Hsmall.
    rewrite IH; [cbn [rev octal_val]; now norm|exact Hs|unfold is_octal in Hc; nia].
Qed.

Lemma get_mode_octal m rest : forallb is_octal m = true -> (1 <= List.length m <= 7)%nat ->
  get_mode (m ++ 32 :: rest) = Some (m, octal_val m 0, rest).
Proof.
  intros H L. unfold get_mode.
  destruct m as [|c m']; [cbn in L; lia|].
  assert (E : (c =? 32) = false) by (cbn [forallb] in H; apply andb_true_iff in H as [Hc _]; unfold is_octal in Hc; lia).
  cbn [app]. destruct c as [|p]; [cbn in E|].
  - change (get_mode_go ((0 :: m') ++ 32 :: rest) 0 [] = Some (0 :: m', octal_val (0 :: m') 0, rest)).
    rewrite get_mode_go_octal; [reflexivity|exact H|].
    assert (8 ^ N.of_nat (List.length (0 :: m')) <= 8 ^ 7) by (apply N.pow_le_mono_r; lia).
    change (8 ^ 7) with 2097152 in *. change (2 ^ 32) with 4294967296. lia.
  - assert (Np : N.pos p <> 32) by lia.
    destruct (N.pos p =? 32) eqn:F; [lia|].
    replace (match N.pos p with 32 => None | _ => get_mode_go (N.pos p :: m' ++ 32 :: rest) 0 [] end)
      with (get_mode_go ((N.pos p :: m') ++ 32 :: rest) 0 []).
    + rewrite get_mode_go_octal; [reflexivity|exact H|].
      assert (8 ^ N.of_nat (List.length (N.pos p :: m')) <= 8 ^ 7) by (apply N.pow_le_mono_r; lia).
      change (8 ^ 7) with 2097152 in *. change (2 ^ 32) with 4294967296. lia.
    + cbn [app]. destruct p as [p|p|]; try reflexivity; destruct p as [p|p|]; try reflexivity;
        destruct p as [p|p|]; try reflexivity; destruct p as [p|p|]; try reflexivity;
        destruct p as [p|p|]; try reflexivity; destruct p as [p|p|]; try reflexivity. cbn in Np. lia.
Qed.

Lemma nth_last_nul (pre h : bytes) : List.length h = 20%nat ->
  nth (List.length (pre ++ 0 :: h) - 21) (pre ++ 0 :: h) 1 = 0.
Proof.
  intros H. rewrite app_length. cbn [List.length]. rewrite H.
  replace (List.length pre + 21 - 21)%nat with (List.length pre + 0)%nat by lia.
  rewrite app_nth2_plus. reflexivity.
Qed.

(* the last entry of a well-formed sequence ends in NUL + 20 bytes *)
Lemma concat_last_nul rs r : Forall wfraw (r :: rs) ->
  exists pre h, concat (map raw_bytes (r :: rs)) = pre ++ 0 :: h /\ List.length h = 20%nat.
Proof.
  revert r; induction rs as [|r' rs IH]; intros r H.
  - inversion H as [|? ? W _]; subst. cbn [map concat]. rewrite app_nil_r.
    exists (r_mtext r ++ 32 :: r_name r), (r_oid r). split; [unfold raw_bytes; now norm|apply W].
  - inversion H as [|? ? W H']; subst. destruct (IH r' H') as (pre & h & E & L).
    exists (raw_bytes r ++ pre), h. split; [|exact L].
    cbn [map concat] in *. rewrite E. now norm.
Qed.

Lemma git_parse_wf rs : forall fuel acc,
  Forall wfraw rs -> (List.length (concat (map raw_bytes rs)) < fuel)%nat ->
  git_parse_go fuel 20 (concat (map raw_bytes rs)) acc =
  (None, rev acc ++ map (fun r => mkR (r_mtext r) (r_mode r) (r_name r) (r_oid r)) rs).
Proof.
  induction rs as [|r rs IH]; intros fuel acc Hwf Hfuel.
  - destruct fuel; cbn [map concat git_parse_go]; now rewrite app_nil_r.
  - destruct (concat_last_nul rs r Hwf) as (pre & h & E & Lh).
    inversion Hwf as [|? ? W Hwf']; subst.
    destruct W as [Wm Wn Wz Wo]. destruct (mode_of_bytes_octal _ _ Wm) as (Oct & Len & Val).
    destruct fuel as [|f]; [lia|].
    assert (Hfuel' : (List.length (concat (map raw_bytes rs)) < f)%nat).
    { clear -Hfuel. cbn [map concat] in Hfuel. unfold raw_bytes at 1 in Hfuel. rewrite !app_length in Hfuel.
      cbn [List.length] in Hfuel. rewrite !app_length in Hfuel. cbn [List.length] in Hfuel. lia. }
    assert (NE : concat (map raw_bytes (r :: rs)) <> []).
    { cbn [map concat]. unfold raw_bytes. destruct (r_mtext r); discriminate. }
    (* size and NUL tests *)
    assert (S1 : Nat.ltb (List.length (concat (map raw_bytes (r :: rs)))) (20 + 3) = false).
    { apply Nat.ltb_ge. cbn [map concat]. unfold raw_bytes at 1. rewrite !app_length. cbn [List.length].
      rewrite !app_length. cbn [List.length]. rewrite Wo.
      destruct (r_name r); [easy|]. destruct (r_mtext r); [cbn in Len; lia|]. cbn [List.length]. lia. }
    assert (S2 : (nth (List.length (concat (map raw_bytes (r :: rs))) - (20 + 1)) (concat (map raw_bytes (r :: rs))) 1 =? 0) = true).
    { rewrite E. change (20 + 1)%nat with 21%nat. rewrite (nth_last_nul pre h Lh). reflexivity. }
    cbn [git_parse_go]. destruct (concat (map raw_bytes (r :: rs))) as [|x0 b0] eqn:B; [easy|]. rewrite <- B in S1, S2 |- *.
    rewrite S1, S2. cbn [negb].
    cbn [map concat]. unfold raw_bytes at 1. norm.
    rewrite (get_mode_octal _ _ Oct Len). rewrite (tcut_app 0) by exact Wz.
    destruct (r_name r) as [|c0 n0] eqn:N; [easy|]. rewrite <- N.
    destruct (firstn_skipn_app (r_oid r) (concat (map raw_bytes rs)) 20 Wo) as [-> ->].
    assert (L : Nat.ltb (List.length (r_oid r ++ concat (map raw_bytes rs))) 20 = false)
      by (rewrite app_length, Wo; apply Nat.ltb_ge; lia).
    rewrite L. rewrite N. rewrite <- N.
    rewrite IH; [|exact Hwf'|].
    + cbn [rev map]. rewrite Val. now norm.
    + exact Hfuel'.
Qed.

Lemma decode_is_git b es : decode 20 b = inr es -> git_ls_tree 20 b = inr es.
Proof.
  unfold decode. intros H. apply decode_go_inv in H as (rs & -> & Hwf & ->).
  unfold git_ls_tree, git_parse, git_parse_partial.
  rewrite (git_parse_wf rs _ [] Hwf (Nat.lt_succ_diag_r _)). cbn [rev app].
  f_equal. rewrite map_map. apply map_ext. intros r. unfold raw_canon. cbn [r_mode r_name r_oid].
  now rewrite canon_same.
Qed.

(* ================================================================ the converse: git lists it, modes of at most 7 digits *)
Lemma get_mode_go_inv s : forall acc seen mt v rest,
  get_mode_go s acc seen = Some (mt, v, rest) ->
  exists d, s = d ++ 32 :: rest /\ mt = rev seen ++ d /\ forallb is_octal d = true /\
            ((acc + 1) * 8 ^ N.of_nat (List.length d) <= 2 ^ 32 -> v = octal_val d acc).
Proof.
  induction s as [|c s IH]; intros acc seen mt v rest H; cbn [get_mode_go] in H; [discriminate|].
  destruct (c =? 32) eqn:E.
  - injection H as <- <- <-. apply N.eqb_eq in E. subst. exists []. cbn. rewrite app_nil_r. auto.
  - destruct (is_octal c) eqn:O; [|discriminate].
    apply IH in H as (d & -> & -> & Hd & Hv). exists (c :: d). repeat split.
    + cbn [rev]. now rewrite <- app_assoc.
    + cbn [forallb]. now rewrite O, Hd.
    + intros B. cbn [List.length] in B. rewrite Nat2N.inj_succ, N.pow_succ_r' in B. cbn [octal_val].
      assert (P : 0 < 8 ^ N.of_nat (List.length d)) by (apply N.neq_0_lt_0, N.pow_nonzero; lia).
      assert (Hsmall : 8 * acc + (c - 48) < 2 ^ 32) by (unfold is_octal in O; nia).
      rewrite N.mod_small in Hv by exact Hsmall. apply Hv. unfold is_octal in O. nia.
Qed.

Lemma get_mode_inv s mt v rest : get_mode s = Some (mt, v, rest) ->
  s = mt ++ 32 :: rest /\ forallb is_octal mt = true /\ mt <> [] /\
  ((List.length mt <= 7)%nat -> v = octal_val mt 0).
Proof.
  unfold get_mode. intros H.
  assert (H' : get_mode_go s 0 [] = Some (mt, v, rest) /\ (forall r, s <> 32 :: r)).
  { destruct s as [|c s']; [discriminate|]. destruct (c =? 32) eqn:E.
    - apply N.eqb_eq in E. subst. discriminate.
    - split; [|intros r [= -> _]; discriminate].
      destruct c as [|p]; [exact H|].
      destruct p as [p|p|]; try exact H; destruct p as [p|p|]; try exact H; destruct p as [p|p|]; try exact H;
        destruct p as [p|p|]; try exact H; destruct p as [p|p|]; try exact H; destruct p as [p|p|]; try exact H.
      cbn in E. discriminate. }
  destruct H' as [H' Hne]. apply get_mode_go_inv in H' as (d & -> & -> & Hd & Hv). cbn [rev app].
  repeat split; auto.
  - intros ->. now apply (Hne rest).
  - intros L. apply Hv.
    assert (8 ^ N.of_nat (List.length d) <= 8 ^ 7) by (apply N.pow_le_mono_r; lia).
    change (8 ^ 7) with 2097152 in *. change (2 ^ 32) with 4294967296. lia.
Qed.

Definition short_modes (rs : list rawent) : bool := forallb (fun r => Nat.leb (List.length (r_mtext r)) 7) rs.

Lemma git_parse_go_inv : forall fuel b acc l,
  git_parse_go fuel 20 b acc = (None, l) ->
  exists rs, b = concat (map raw_bytes rs) /\ l = rev acc ++ rs /\
             Forall (fun r => forallb is_octal (r_mtext r) = true /\ r_mtext r <> [] /\ r_name r <> [] /\
                              tlacks 0 (r_name r) = true /\ List.length (r_oid r) = 20%nat /\
                              ((List.length (r_mtext r) <= 7)%nat -> r_mode r = Z.of_N (octal_val (r_mtext r) 0))) rs.
Proof.
  induction fuel as [|f IH]; intros b acc l H.
  - destruct b; cbn [git_parse_go] in H; [|discriminate]. injection H as <-. exists []. cbn. now rewrite app_nil_r.
  - destruct b as [|x b']; cbn [git_parse_go] in H.
    { injection H as <-. exists []. cbn. now rewrite app_nil_r. }
    set (b := x :: b') in *.
    destruct (Nat.ltb (List.length b) (20 + 3)); [discriminate|].
    destruct (negb (nth (List.length b - (20 + 1)) b 1 =? 0)); [discriminate|].
    destruct (get_mode b) as [[[mt v] path]|] eqn:GM; [|discriminate].
    destruct (tcut 0 path) as [[name rest]|] eqn:C; [|discriminate].
    destruct name as [|c n] eqn:N; [discriminate|]. rewrite <- N in *.
    destruct (Nat.ltb (List.length rest) 20) eqn:L; [discriminate|]. apply Nat.ltb_ge in L.
    apply IH in H as (rs & Hb & Hl & Hall).
    destruct (get_mode_inv _ _ _ _ GM) as (E1 & Oct & Ne & Val).
    destruct (tcut_inv _ _ _ _ C) as [E2 Hnul].
    destruct (firstn_skipn_len rest 20 L) as [Hlen Hsplit].
    exists (mkR mt (Z.of_N v) name (firstn 20 rest) :: rs). repeat split.
    + cbn [map concat]. unfold raw_bytes at 1. cbn [r_mtext r_name r_oid]. rewrite <- Hb, E1, E2. norm. now rewrite <- Hsplit.
    + rewrite Hl. cbn [rev]. now norm.
    + constructor; [|exact Hall]. cbn [r_mtext r_mode r_name r_oid]. repeat split; auto.
      * rewrite N. discriminate.
      * intros K. now rewrite (Val K).
Qed.

Lemma decode_wf rs : forall fuel acc,
  Forall wfraw rs -> (List.length (concat (map raw_bytes rs)) < fuel)%nat ->
  decode_go fuel 20 (concat (map raw_bytes rs)) acc = inr (rev acc ++ map raw_canon rs).
Proof.
  induction rs as [|r rs IH]; intros fuel acc Hwf Hfuel.
  - destruct fuel; cbn [map concat decode_go]; now rewrite app_nil_r.
  - inversion Hwf as [|? ? W Hwf']; subst. destruct W as [Wm Wn Wz Wo].
    destruct (mode_of_bytes_octal _ _ Wm) as (Oct & Len & Val).
    destruct fuel as [|f]; [lia|].
    assert (Hfuel' : (List.length (concat (map raw_bytes rs)) < f)%nat).
    { clear -Hfuel. cbn [map concat] in Hfuel. unfold raw_bytes at 1 in Hfuel. rewrite !app_length in Hfuel.
      cbn [List.length] in Hfuel. rewrite !app_length in Hfuel. cbn [List.length] in Hfuel. lia. }
    assert (SP : tlacks 32 (r_mtext r) = true).
    { clear -Oct. unfold tlacks. induction (r_mtext r) as [|c l IHl]; [reflexivity|].
      cbn [forallb] in *. apply andb_true_iff in Oct as [A B]. rewrite (IHl B), andb_true_r. unfold is_octal in A. lia. }
    cbn [map concat]. unfold raw_bytes at 1. norm. cbn [decode_go].
    destruct (r_mtext r ++ 32 :: r_name r ++ 0 :: r_oid r ++ concat (map raw_bytes rs)) eqn:E.
    { destruct (r_mtext r); discriminate. }
    rewrite <- E. rewrite (tcut_app 32) by exact SP. rewrite Wm. rewrite (tcut_app 0) by exact Wz.
    destruct (r_name r) as [|c0 n0] eqn:N; [easy|]. rewrite <- N.
    destruct (firstn_skipn_app (r_oid r) (concat (map raw_bytes rs)) 20 Wo) as [-> ->].
    assert (L : Nat.ltb (List.length (r_oid r ++ concat (map raw_bytes rs))) 20 = false)
      by (rewrite app_length, Wo; apply Nat.ltb_ge; lia).
    rewrite L. rewrite N. rewrite <- N.
    rewrite IH by assumption. cbn [rev map]. unfold raw_canon at 2. now norm.
Qed.

Lemma git_is_decode b es :
  match git_parse 20 b with inr rs => short_modes rs | inl _ => true end = true ->
  git_ls_tree 20 b = inr es -> decode 20 b = inr es.
Proof.
  unfold git_ls_tree, git_parse, git_parse_partial. intros Hs.
  destruct (git_parse_go (S (List.length b)) 20 b []) as [[e|] l] eqn:G; [discriminate|].
  intros [= <-]. apply git_parse_go_inv in G as (rs & -> & -> & Hall). cbn [rev app] in *.
  assert (Hwf : Forall wfraw rs).
  { unfold short_modes in Hs. rewrite forallb_forall in Hs. rewrite Forall_forall in Hall |- *.
    intros r Hr. destruct (Hall r Hr) as (Oct & Ne & Nn & Nul & Oid & Val). specialize (Hs r Hr).
    apply Nat.leb_le in Hs. constructor; auto.
    unfold mode_of_bytes.
    assert (L : (Nat.eqb (List.length (r_mtext r)) 0 || Nat.ltb 7 (List.length (r_mtext r))) = false).
    { destruct (r_mtext r); [easy|]. cbn [List.length] in *. lia. }
    now rewrite L, Oct, (Val Hs). }
  unfold decode. rewrite (decode_wf rs _ [] Hwf (Nat.lt_succ_diag_r _)). cbn [rev app].
  f_equal. apply map_ext. intros r. unfold raw_canon. now rewrite canon_same.
Qed.

(* ================================================================ ordering: treeEntrySortName vs verify_ordered *)
Lemma bgt_app_same p x y : bgt (p ++ x) (p ++ y) = bgt x y.
Proof. induction p as [|c p IH]; cbn [app bgt]; [reflexivity|]. now rewrite N.eqb_refl. Qed.

Lemma bgt_irrefl x : bgt x x = false.
Proof. induction x as [|c x IH]; cbn [bgt]; [reflexivity|]. now rewrite N.eqb_refl. Qed.

(* cmp_names: a common prefix, then either a decisive byte pair or the end of a name *)
Lemma cmp_names_spec a b :
  match cmp_names a b with
  | (Lt, _, _) => exists p x y ra rb, a = p ++ x :: ra /\ b = p ++ y :: rb /\ x < y
  | (Gt, _, _) => exists p x y ra rb, a = p ++ x :: ra /\ b = p ++ y :: rb /\ y < x
  | (Eq, c1, c2) => exists p ra rb, a = p ++ ra /\ b = p ++ rb /\ (ra = [] \/ rb = []) /\ c1 = hd 0 ra /\ c2 = hd 0 rb
  end.
Proof.
  revert b; induction a as [|x a IH]; intros [|y b]; cbn [cmp_names].
  - exists [], [], []. repeat split; auto.
  - exists [], [], (y :: b). repeat split; auto.
  - exists [], (x :: a), []. repeat split; auto.
  - destruct (x =? y) eqn:E.
    + apply N.eqb_eq in E. subst y. specialize (IH b).
      destruct (cmp_names a b) as [[[| |] c1] c2].
      * destruct IH as (p & ra & rb & -> & -> & H). exists (x :: p), ra, rb. now cbn.
      * destruct IH as (p & x0 & y0 & ra & rb & -> & -> & H). exists (x :: p), x0, y0, ra, rb. now cbn.
      * destruct IH as (p & x0 & y0 & ra & rb & -> & -> & H). exists (x :: p), x0, y0, ra, rb. now cbn.
    + apply N.eqb_neq in E. destruct (x <? y) eqn:L.
      * exists [], x, y, a, b. repeat split; auto. lia.
      * exists [], x, y, a, b. repeat split; auto. lia.
Qed.

Lemma dir_mode_valid m : In m valid_modes -> is_dir_mode m = (m =? fmode_Dir)%Z.
Proof.
  unfold valid_modes. intros H. repeat (destruct H as [<-|H]; [reflexivity|]). destruct H.
Qed.

Lemma tlacks_in c s x : tlacks c s = true -> In x s -> x <> c.
Proof.
  unfold tlacks. rewrite forallb_forall. intros H Hi E. subst. specialize (H _ Hi). now rewrite N.eqb_refl in H.
Qed.

Lemma hd_nonzero s : tlacks 0 s = true -> tlacks 47 s = true -> s <> [] -> hd 0 s <> 0 /\ hd 0 s <> 47.
Proof.
  destruct s as [|c s]; [easy|]. intros H0 H47 _. cbn [hd]. split.
  - apply (tlacks_in 0 (c :: s)); [exact H0|now left].
  - apply (tlacks_in 47 (c :: s)); [exact H47|now left].
Qed.

Lemma tlacks_app c a b : tlacks c (a ++ b) = tlacks c a && tlacks c b.
Proof. apply forallb_app. Qed.

(* go-git's adjacent test passing means git's verify_ordered does not say "unordered";
   it says "duplicates" only for an equal name or a name found on the stack *)
Lemma verify_ordered_sorted a b st :
  entry_ok a -> entry_ok b ->
  bgt (sort_name a) (sort_name b) = false ->
  let '(o, st') := verify_ordered (t_mode a) (t_name a) (t_mode b) (t_name b) st in
  o <> Unordered /\ (o = HasDups -> t_name a = t_name b \/ In (t_name b) st) /\
  (forall x, In x st' -> x = t_name a \/ In x st).
Proof.
  intros (Na & Za & Sa & Ma & _) (Nb & Zb & Sb & Mb & _) H.
  unfold verify_ordered. pose proof (cmp_names_spec (t_name a) (t_name b)) as C.
  unfold sort_name in H.
  rewrite <- (dir_mode_valid _ (valid_mode_in _ Ma)), <- (dir_mode_valid _ (valid_mode_in _ Mb)) in H.
  assert (SN : forall (d : bool) (n : bytes), (if d then n ++ [47] else n) = n ++ (if d then [47] else []))
    by (intros [] n; [reflexivity|now rewrite app_nil_r]).
  rewrite !SN in H. clear SN.
  destruct (cmp_names (t_name a) (t_name b)) as [[[| |] c1] c2].
  - (* common prefix, one name ended *)
    destruct C as (p & ra & rb & Ea & Eb & Hend & -> & ->).
    rewrite Ea, Eb in H. rewrite Ea in Za, Sa. rewrite Eb in Zb, Sb.
    rewrite tlacks_app in Za, Sa, Zb, Sb.
    apply andb_true_iff in Za as [_ Za]. apply andb_true_iff in Sa as [_ Sa].
    apply andb_true_iff in Zb as [_ Zb]. apply andb_true_iff in Sb as [_ Sb].
    destruct Hend as [-> | ->].
    + (* first name is a prefix of the second *)
      cbn [hd]. change (0 =? 0) with true. cbn [andb].
      destruct rb as [|y rb'].
      * (* equal names *)
        cbn [hd]. change (0 =? 0) with true. cbv iota. repeat split; try discriminate; auto.
        intros _. left. now rewrite Ea, Eb.
      * cbn [hd]. destruct (hd_nonzero (y :: rb') Zb Sb ltac:(discriminate)) as [Y0 Y47]. cbn [hd] in Y0, Y47.
        assert (E0 : (y =? 0) = false) by lia. rewrite E0. cbn [andb].
        rewrite <- !app_assoc in H. rewrite bgt_app_same in H. cbn [app] in H.
        destruct (is_dir_mode (t_mode a)) eqn:Da.
        -- (* dir vs longer name: "/" against y *)
           cbn [bgt] in H. assert (E47 : (47 =? y) = false) by lia. rewrite E47 in H.
           assert (L : (47 <? y) = true) by lia. rewrite L.
           change (47 =? 0) with false. cbn [andb].
           assert (Q : ((y =? 47) && lt_slash 47) = false) by (unfold lt_slash; lia). rewrite Q.
           repeat split; try discriminate; auto.
        -- cbn [bgt] in H. assert (L : (0 <? y) = true) by lia. rewrite L.
           change (0 =? 0) with true. cbn [andb].
           destruct (lt_slash y) eqn:LY.
           ++ repeat split; try discriminate; auto. intros x [<-|Hx]; auto.
           ++ assert (Q : ((y =? 47) && lt_slash 0) = false) by (unfold lt_slash; lia). rewrite Q.
              repeat split; try discriminate; auto.
    + (* second name is a proper prefix of the first, or equal *)
      destruct ra as [|x ra'].
      * cbn [hd]. change (0 =? 0) with true. cbn [andb]. cbv iota. repeat split; try discriminate; auto.
        intros _. left. now rewrite Ea, Eb.
      * cbn [hd]. destruct (hd_nonzero (x :: ra') Za Sa ltac:(discriminate)) as [X0 X47]. cbn [hd] in X0, X47.
        assert (E0 : (x =? 0) = false) by lia. rewrite E0. cbn [andb].
        rewrite <- !app_assoc in H. rewrite bgt_app_same in H. cbn [app] in H.
        change (0 =? 0) with true. cbn [andb].
        destruct (is_dir_mode (t_mode b)) eqn:Db.
        -- cbn [app bgt] in H. assert (E47 : (x =? 47) = false) by lia. rewrite E47 in H.
           assert (L : (x <? 47) = true) by lia. rewrite L.
           assert (Q1 : ((x =? 0) && lt_slash 47) = false) by lia. rewrite Q1.
           change (47 =? 47) with true. cbn [andb].
           destruct (lt_slash x) eqn:LS.
           ++ destruct (pop_loop (t_name b) st) as [dup st2] eqn:PL.
              assert (PLS : (dup = true -> In (t_name b) st) /\ (forall z, In z st2 -> In z st)).
              { clear -PL. revert dup st2 PL. induction st as [|f rest IH]; intros dup st2 PL; cbn [pop_loop] in PL.
                - injection PL as <- <-. split; [discriminate|auto].
                - destruct (skip_prefix (t_name b) f) as [[|c r]|] eqn:SP.
                  + injection PL as <- <-. split; [|intros z Hz; now right]. intros _. left.
                    clear -SP. revert SP. generalize (t_name b). induction f as [|y f IHf]; intros [|x s]; cbn [skip_prefix]; try easy.
                    destruct (x =? y) eqn:E; [|discriminate]. apply N.eqb_eq in E. subst. intros H. f_equal. now apply IHf.
                  + destruct (lt_slash c).
                    * injection PL as <- <-. split; [discriminate|auto].
                    * destruct (IH _ _ PL) as [A B]. split; [intros D; right; auto|intros z Hz; right; auto].
                  + destruct (IH _ _ PL) as [A B]. split; [intros D; right; auto|intros z Hz; right; auto]. }
              destruct PLS as [P1 P2]. destruct dup; repeat split; try discriminate; auto.
           ++ repeat split; try discriminate; auto.
        -- cbn [app bgt] in H. discriminate H.
  - (* decisive byte pair, first smaller *)
    repeat split; try discriminate; auto.
  - (* decisive byte pair, first larger: go-git's test fails *)
    destruct C as (p & x & y & ra & rb & Ea & Eb & Hlt). exfalso.
    rewrite Ea, Eb in H. rewrite <- !app_assoc in H. rewrite bgt_app_same in H. cbn [app bgt] in H.
    assert (E : (x =? y) = false) by lia. rewrite E in H. lia.
Qed.

(* ================================================================ what go-git writes is fsck-clean (structural rules) *)
Definition raw_of (e : tentry) : rawent := mkR (oct_of (t_mode e)) (t_mode e) (t_name e) (t_hash e).

Lemma raw_of_bytes es : concat (map raw_bytes (map raw_of es)) = concat (map encode_entry es).
Proof. induction es as [|e es IH]; [reflexivity|]. cbn [map concat]. now rewrite IH. Qed.

Lemma raw_of_wf es :
  Forall entry_ok es -> Forall (fun e => List.length (t_hash e) = 20%nat) es -> Forall wfraw (map raw_of es).
Proof.
  intros H1 H2. induction es as [|e es IH]; [constructor|].
  inversion H1 as [|? ? (Hn & Hnul & Hsl & Hm & Hz & Hp) H1']; inversion H2 as [|? ? Hh H2']; subst.
  cbn [map]. constructor; [|now apply IH].
  destruct (oct_valid _ (valid_mode_in _ Hm)) as (O1 & _). now constructor.
Qed.

Lemma encode_git_parse es b :
  Forall (fun e => List.length (t_hash e) = 20%nat) es ->
  encode es = Some b -> git_parse_partial 20 b = (None, map raw_of es).
Proof.
  intros Hlen. unfold encode. destruct (v_invalid (validate es)) eqn:V; [discriminate|]. intros [= <-].
  unfold git_parse_partial. rewrite <- raw_of_bytes.
  rewrite (git_parse_wf (map raw_of es) _ [] (raw_of_wf es (validate_all_ok es V) Hlen) (Nat.lt_succ_diag_r _)).
  cbn [rev app]. f_equal. rewrite map_map. apply map_ext. now intros [].
Qed.

(* the chain of adjacent tests and the seen-set of Validate *)
Fixpoint chain_ok (prev : option bytes) (seen : list bytes) (es : list tentry) : Prop :=
  match es with
  | [] => True
  | e :: r =>
    match prev with Some p => bgt p (sort_name e) = false | None => True end /\
    ~ In (t_name e) seen /\ chain_ok (Some (sort_name e)) (t_name e :: seen) r
  end.

Lemma existsb_beq_in n seen : existsb (beq n) seen = false -> ~ In n seen.
Proof.
  intros H Hi. assert (existsb (beq n) seen = true); [|congruence].
  apply existsb_exists. exists n. split; [exact Hi|now apply beq_eq].
Qed.

Lemma validate_go_chain es : forall seen prev acc,
  v_invalid (validate_go es seen prev acc) = false -> chain_ok prev seen es.
Proof.
  induction es as [|e es IH]; intros seen prev acc H; [exact I|].
  cbn [validate_go] in H. pose proof H as H'. apply validate_go_inv in H' as [Hacc _].
  cbn [v_invalid] in Hacc. apply orb_false_iff in Hacc as [_ Hv].
  pose proof (validate_entry_ok _ _ _ Hv) as (Hn & _ & Hsl & _).
  unfold validate_entry in Hv. cbv zeta in Hv. cbn [v_invalid] in Hv.
  apply orb_false_iff in Hv as [Hv Huns]. apply orb_false_iff in Hv as [Hv _].
  apply orb_false_iff in Hv as [Hv _]. apply orb_false_iff in Hv as [_ Hname].
  apply orb_false_iff in Hname as [Hname _]. apply orb_false_iff in Hname as [Hname Hdup].
  apply orb_false_iff in Hname as [Hnok _]. apply negb_false_iff in Hnok. rewrite Hnok in Hdup. cbn [andb] in Hdup.
  assert (SL : existsb (fun c => c =? 47) (t_name e) = false).
  { clear -Hsl. unfold tlacks in Hsl. induction (t_name e) as [|x l IHl]; [reflexivity|].
    cbn [forallb existsb] in *. apply andb_true_iff in Hsl as [A B]. apply negb_true_iff in A. now rewrite A, IHl. }
  cbn [chain_ok]. split; [destruct prev; [exact Huns|exact I]|]. split; [now apply existsb_beq_in|].
  assert (SEEN : (match t_name e with
                  | [] => seen
                  | _ :: _ => if existsb (fun c => c =? 47) (t_name e) then seen else t_name e :: seen
                  end) = t_name e :: seen).
  { clear -Hn SL. destruct (t_name e) as [|c n]; [easy|]. now rewrite SL. }
  rewrite SEEN in H. now apply IH in H.
Qed.

Lemma order_flags_clean es : forall p seen stack uns dup,
  entry_ok p -> Forall entry_ok es ->
  chain_ok (Some (sort_name p)) seen es -> In (t_name p) seen -> (forall x, In x stack -> In x seen) ->
  order_flags (Some (t_mode p, t_name p)) (map raw_of es) stack uns dup = (uns, dup).
Proof.
  induction es as [|e es IH]; intros p seen stack uns dup Hp Hes Hc Hin Hst; [reflexivity|].
  inversion Hes as [|? ? He Hes']; subst. cbn [chain_ok] in Hc. destruct Hc as (Hs & Hnew & Hc).
  cbn [map order_flags raw_of r_mode r_name].
  pose proof (verify_ordered_sorted p e stack Hp He Hs) as V.
  destruct (verify_ordered (t_mode p) (t_name p) (t_mode e) (t_name e) stack) as [o st'].
  destruct V as (V1 & V2 & V3).
  assert (NoDup' : o <> HasDups).
  { intros ->. destruct (V2 eq_refl) as [E|E]; [apply Hnew; now rewrite <- E|apply Hnew; auto]. }
  rewrite (IH e (t_name e :: seen) st').
  - destruct o; try easy; now rewrite !orb_false_r.
  - exact He.
  - exact Hes'.
  - exact Hc.
  - now left.
  - intros x Hx. destruct (V3 x Hx) as [->|Hx']; [right; exact Hin|right; auto].
Qed.

Lemma existsb_map_false {A B} (f : A -> B) (p : B -> bool) l :
  (forall x, In x l -> p (f x) = false) -> existsb p (map f l) = false.
Proof.
  intros H. induction l as [|x l IH]; [reflexivity|]. cbn [map existsb].
  rewrite (H x (or_introl eq_refl)), IH; [reflexivity|]. intros y Hy. apply H. now right.
Qed.

Lemma not_dot_names n : valid_tree_path n = true -> tlacks 47 n = true -> beq n [46] = false /\ beq n [46; 46] = false.
Proof.
  intros H _. split.
  - destruct (beq n [46]) eqn:E; [|reflexivity]. apply beq_eq in E. subst. vm_compute in H. discriminate.
  - destruct (beq n [46; 46]) eqn:E; [|reflexivity]. apply beq_eq in E. subst. vm_compute in H. discriminate.
Qed.

Definition structural (m : fmsg) : bool :=
  match m with MHasDotgit | MGitmodulesSymlink => false | _ => true end.

(* the messages that remain possible on a written tree: the two name disguises *)
Lemma written_fsck_shape es b :
  Forall (fun e => List.length (t_hash e) = 20%nat) es ->
  encode es = Some b ->
  git_fsck_tree 20 b =
  (if existsb (fun e => git_has_dotgit (r_name e)) (map raw_of es) then [MHasDotgit] else []) ++
  (if existsb (fun e => (Z.land (r_mode e) 61440 =? 40960)%Z && git_is_dotgitmodules (r_name e)) (map raw_of es)
   then [MGitmodulesSymlink] else []).
Proof.
  intros Hlen Henc. unfold git_fsck_tree. rewrite (encode_git_parse es b Hlen Henc).
  unfold encode in Henc. destruct (v_invalid (validate es)) eqn:V; [discriminate|]. clear Henc.
  pose proof (validate_all_ok es V) as Hok. pose proof (validate_go_chain es [] None _ V) as Hch.
  unfold fsck_entries, fsck_with.
  assert (OF : order_flags None (map raw_of es) [] false false = (false, false)).
  { destruct es as [|e es]; [reflexivity|]. cbn [map order_flags raw_of r_mode r_name].
    inversion Hok as [|? ? He Hes]; subst. cbn [chain_ok] in Hch. destruct Hch as (_ & _ & Hc).
    apply (order_flags_clean es e [t_name e]); auto. now left. intros x []. }
  rewrite OF.
  assert (A1 : existsb (fun e => is_zero_hash (r_oid e)) (map raw_of es) = false).
  { apply existsb_map_false. intros e He. rewrite Forall_forall in Hok. now destruct (Hok e He) as (_ & _ & _ & _ & Z & _). }
  assert (A2 : existsb (fun e => existsb (fun c => c =? 47) (r_name e)) (map raw_of es) = false).
  { apply existsb_map_false. intros e He. rewrite Forall_forall in Hok. destruct (Hok e He) as (_ & _ & S & _).
    cbn [raw_of r_name]. clear -S. unfold tlacks in S. induction (t_name e) as [|x l IHl]; [reflexivity|].
    cbn [forallb existsb] in *. apply andb_true_iff in S as [A B]. apply negb_true_iff in A. now rewrite A, IHl. }
  assert (A3 : existsb (fun e => beq (r_name e) [46]) (map raw_of es) = false).
  { apply existsb_map_false. intros e He. rewrite Forall_forall in Hok. destruct (Hok e He) as (_ & _ & S & _ & _ & P).
    now apply not_dot_names. }
  assert (A4 : existsb (fun e => beq (r_name e) [46; 46]) (map raw_of es) = false).
  { apply existsb_map_false. intros e He. rewrite Forall_forall in Hok. destruct (Hok e He) as (_ & _ & S & _ & _ & P).
    now apply not_dot_names. }
  assert (A5 : existsb (fun e => match r_mtext e with c :: _ => c =? 48 | [] => false end) (map raw_of es) = false).
  { apply existsb_map_false. intros e He. rewrite Forall_forall in Hok. destruct (Hok e He) as (_ & _ & _ & M & _).
    destruct (oct_valid _ (valid_mode_in _ M)) as (_ & _ & _ & O). cbn [raw_of r_mtext].
    destruct (oct_of (t_mode e)) as [|c r]; [reflexivity|]. now apply negb_true_iff in O. }
  rewrite A1, A2, A3, A4, A5. reflexivity.
Qed.

Lemma written_clean_structural es b :
  Forall (fun e => List.length (t_hash e) = 20%nat) es ->
  encode es = Some b ->
  forallb (fun m => negb (structural m)) (git_fsck_tree 20 b) = true.
Proof.
  intros Hlen Henc. rewrite (written_fsck_shape es b Hlen Henc).
  rewrite forallb_app. apply andb_true_iff. split.
  - match goal with |- context [if ?c then _ else _] => destruct c end; reflexivity.
  - match goal with |- context [if ?c then _ else _] => destruct c end; reflexivity.
Qed.

(* ================================================================ never refuses: sorting a duplicate-free acceptable set *)
From Coq Require Import Permutation.

Lemma bgt_total a b : bgt a b = true -> bgt b a = false.
Proof.
  revert b; induction a as [|x a IH]; intros [|y b]; cbn [bgt]; try easy.
  destruct (x =? y) eqn:E.
  - apply N.eqb_eq in E. subst. rewrite N.eqb_refl. apply IH.
  - intros H. rewrite N.eqb_sym, E. lia.
Qed.

Lemma bgt_trans a b c : bgt a b = false -> bgt b c = false -> bgt a c = false.
Proof.
  revert b c; induction a as [|x a IH]; intros [|y b] [|z c]; cbn [bgt]; try easy.
  destruct (x =? y) eqn:E1; destruct (y =? z) eqn:E2.
  - apply N.eqb_eq in E1, E2. subst. rewrite N.eqb_refl. apply IH.
  - apply N.eqb_eq in E1. subst. rewrite E2. auto.
  - apply N.eqb_eq in E2. subst. rewrite E1. auto.
  - intros H1 H2. destruct (x =? z) eqn:E3; [apply N.eqb_eq in E3; subst; lia|lia].
Qed.

Fixpoint sorted_by (l : list tentry) : Prop :=
  match l with
  | x :: ((y :: _) as r) => bgt (sort_name x) (sort_name y) = false /\ sorted_by r
  | _ => True
  end.

Lemma insert_perm e l : Permutation (e :: l) (insert_entry e l).
Proof.
  induction l as [|x l IH]; cbn [insert_entry]; [reflexivity|].
  destruct (bgt (sort_name x) (sort_name e)); [reflexivity|].
  rewrite perm_swap. now apply perm_skip.
Qed.

Lemma sort_perm es : Permutation es (sort_entries es).
Proof.
  induction es as [|e es IH]; [reflexivity|]. cbn [sort_entries fold_right].
  rewrite <- insert_perm. now apply perm_skip.
Qed.

Lemma insert_sorted e l : sorted_by l -> sorted_by (insert_entry e l).
Proof.
  induction l as [|x l IH]; intros H; [exact I|].
  cbn [insert_entry]. destruct (bgt (sort_name x) (sort_name e)) eqn:B.
  - cbn [sorted_by]. split; [now apply bgt_total|exact H].
  - destruct l as [|y l'].
    + cbn [insert_entry sorted_by]. auto.
    + cbn [sorted_by] in H. destruct H as [H1 H2]. specialize (IH H2).
      cbn [insert_entry] in IH |- *. destruct (bgt (sort_name y) (sort_name e)) eqn:B2.
      * cbn [sorted_by]. repeat split; auto. now apply bgt_total.
      * cbn [sorted_by]. split; [exact H1|exact IH].
Qed.

Lemma sort_sorted es : sorted_by (sort_entries es).
Proof. induction es as [|e es IH]; [exact I|]. cbn [sort_entries fold_right]. now apply insert_sorted. Qed.

(* the rules of Validate that look at one entry only *)
Definition entry_valid (e : tentry) : bool := negb (v_invalid (validate_entry [] None e)).

Lemma validate_entry_split seen prev e :
  v_invalid (validate_entry seen prev e) =
  v_invalid (validate_entry [] None e) || v_dup (validate_entry seen prev e) || v_unsorted (validate_entry seen prev e).
Proof.
  unfold validate_entry. cbv zeta. cbn [v_invalid v_dup v_unsorted existsb].
  rewrite andb_false_r.
  destruct (is_zero_hash (t_hash e)), (match t_name e with [] => false | _ => negb (existsb (fun c => c =? 47) (t_name e)) end),
    (valid_tree_path (t_name e)), (existsb (beq (t_name e)) seen),
    (treeobj_maxTreeEntryNameLen <? Z.of_nat (List.length (t_name e)))%Z,
    (treeobj_isValidTreeMode (t_mode e)), ((t_mode e =? fmode_Symlink)%Z && dot_symlink_name (t_name e)),
    (match prev with Some p => bgt p (sort_name e) | None => false end); reflexivity.
Qed.

Lemma validate_sorted l : forall seen prev acc,
  Forall (fun e => entry_valid e = true) l ->
  NoDup (map t_name l) -> (forall e, In e l -> ~ In (t_name e) seen) ->
  match prev, l with Some p, e :: _ => bgt p (sort_name e) = false | _, _ => True end ->
  sorted_by l -> v_invalid acc = false ->
  v_invalid (validate_go l seen prev acc) = false.
Proof.
  induction l as [|e l IH]; intros seen prev acc Hv Hnd Hseen Hprev Hs Hacc; [exact Hacc|].
  inversion Hv as [|? ? He Hv']; subst. cbn [map] in Hnd. inversion Hnd as [|? ? Hnin Hnd']; subst.
  cbn [validate_go].
  assert (EV : v_invalid (validate_entry seen prev e) = false).
  { rewrite validate_entry_split. unfold entry_valid in He. apply negb_true_iff in He. rewrite He. cbn [orb].
    unfold validate_entry. cbv zeta. cbn [v_dup v_unsorted].
    assert (D : existsb (beq (t_name e)) seen = false).
    { destruct (existsb (beq (t_name e)) seen) eqn:X; [|reflexivity]. apply existsb_exists in X as (x & Hx & Hb).
      apply beq_eq in Hb. subst x. exfalso. apply (Hseen e); [now left|exact Hx]. }
    rewrite D, andb_false_r. cbn [orb]. destruct prev; [exact Hprev|reflexivity]. }
  assert (NOK : match t_name e with [] => false | _ => negb (existsb (fun c => c =? 47) (t_name e)) end = true).
  { unfold entry_valid in He. apply negb_true_iff in He. unfold validate_entry in He. cbv zeta in He. cbn [v_invalid] in He.
    apply orb_false_iff in He as [He _]. apply orb_false_iff in He as [He _]. apply orb_false_iff in He as [He _].
    apply orb_false_iff in He as [_ He]. apply orb_false_iff in He as [He _]. apply orb_false_iff in He as [He _].
    apply orb_false_iff in He as [He _]. now apply negb_false_iff in He. }
  apply IH.
  - exact Hv'.
  - exact Hnd'.
  - intros x Hx. destruct (t_name e) as [|c n] eqn:N; [discriminate NOK|].
    apply negb_true_iff in NOK. rewrite NOK. intros [E|E].
    + apply Hnin. rewrite E. now apply in_map.
    + apply (Hseen x); [now right|exact E].
  - destruct l as [|y l']; [exact I|]. cbn [sorted_by] in Hs. apply Hs.
  - destruct l as [|y l']; [exact I|]. cbn [sorted_by] in Hs. apply Hs.
  - cbn [v_invalid]. now rewrite Hacc, EV.
Qed.

Lemma never_refuses es :
  Forall (fun e => entry_valid e = true) es -> NoDup (map t_name es) ->
  v_invalid (validate (sort_entries es)) = false.
Proof.
  intros Hv Hnd. unfold validate. apply validate_sorted.
  - eapply Permutation_Forall; [apply sort_perm|exact Hv].
  - eapply Permutation_NoDup; [apply Permutation_map, sort_perm|exact Hnd].
  - intros e _ [].
  - exact I.
  - apply sort_sorted.
  - reflexivity.
Qed.
