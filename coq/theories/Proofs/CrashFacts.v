(* Proofs/CrashFacts.v — the abstract directory of Model/Crash.v read through
   flookup: every observer used by repo_ok is characterised by lookups, so that
   a mutation's effect is a statement about flookup only. *)
From Coq Require Import List NArith ZArith Arith Lia Bool String.
From GoGit Require Import Base.Out Gen.C22 Model.Gc Model.Crash Spec.RepoOk Proofs.C22.
Import ListNotations.
Local Open Scope N_scope.

Lemma tkind_eqb_eq a b : tkind_eqb a b = true <-> a = b.
Proof. destruct a, b; cbn; split; congruence. Qed.
Lemma pext_eqb_eq a b : pext_eqb a b = true <-> a = b.
Proof. destruct a, b; cbn; split; congruence. Qed.

Lemma path_eqb_eq a b : path_eqb a b = true <-> a = b.
Proof.
  destruct a, b; cbn; try (split; congruence).
  - rewrite String.eqb_eq. split; congruence.
  - rewrite andb_true_iff, tkind_eqb_eq, Nat.eqb_eq. split; [intros [-> ->]; reflexivity|intro H; inversion H; auto].
  - rewrite N.eqb_eq. split; congruence.
  - rewrite andb_true_iff, String.eqb_eq, pext_eqb_eq. split; [intros [-> ->]; reflexivity|intro H; inversion H; auto].
Qed.

Lemma path_eqb_refl a : path_eqb a a = true.
Proof. now apply path_eqb_eq. Qed.

Lemma path_eqb_neq a b : path_eqb a b = false <-> a <> b.
Proof.
  split; intro H.
  - intro E. apply path_eqb_eq in E. congruence.
  - destruct (path_eqb a b) eqn:E; [apply path_eqb_eq in E; contradiction|reflexivity].
Qed.

Lemma path_eqb_sym a b : path_eqb a b = path_eqb b a.
Proof.
  destruct (path_eqb a b) eqn:E.
  - apply path_eqb_eq in E. subst. now rewrite path_eqb_refl.
  - symmetry. apply path_eqb_neq. apply path_eqb_neq in E. congruence.
Qed.

Lemma flookup_fdel fs p q : flookup (fdel fs p) q = if path_eqb p q then None else flookup fs q.
Proof.
  induction fs as [|[a c] r IH]; cbn [fdel flookup].
  - now destruct (path_eqb p q).
  - destruct (path_eqb a p) eqn:E1.
    + apply path_eqb_eq in E1. subst a. rewrite IH. destruct (path_eqb p q); reflexivity.
    + cbn [flookup]. rewrite IH. destruct (path_eqb a q) eqn:E2; [|reflexivity].
      apply path_eqb_eq in E2. subst a. rewrite path_eqb_sym, E1. reflexivity.
Qed.

Lemma flookup_fset fs p c q : flookup (fset fs p c) q = if path_eqb p q then Some c else flookup fs q.
Proof.
  unfold fset. cbn [flookup]. destruct (path_eqb p q) eqn:E; [reflexivity|].
  rewrite flookup_fdel, E. reflexivity.
Qed.

Lemma flookup_keys fs q : In q (keys fs) <-> flookup fs q <> None.
Proof.
  induction fs as [|[a c] r IH]; cbn.
  - split; [intros []|congruence].
  - destruct (path_eqb a q) eqn:E.
    + apply path_eqb_eq in E. subst. split; [congruence|auto].
    + apply path_eqb_neq in E. rewrite <- IH. split; [intros [H|H]; [contradiction|assumption]|auto].
Qed.

Lemma in_ref_names fs n : In n (ref_names fs) <-> flookup fs (PRef n) <> None.
Proof.
  rewrite <- flookup_keys. unfold ref_names. rewrite in_flat_map. split.
  - intros (p & Hp & Hn). destruct p; cbn in Hn; try contradiction. destruct Hn as [->|[]]. assumption.
  - intro H. exists (PRef n). split; [assumption|now left].
Qed.

Lemma in_pack_names fs n : In n (pack_names fs) <-> flookup fs (PPackF n XPack) <> None.
Proof.
  rewrite <- flookup_keys. unfold pack_names. rewrite in_flat_map. split.
  - intros (p & Hp & Hn). destruct p as [| | | | |m x| | |]; cbn in Hn; try contradiction.
    destruct x; cbn in Hn; try contradiction. destruct Hn as [->|[]]. assumption.
  - intro H. exists (PPackF n XPack). split; [assumption|now left].
Qed.

(* avail by lookups only *)
Lemma avail_iff fs o : avail fs o = true <-> loose_ok fs o = true \/ exists n, in_pack fs o n = true.
Proof.
  unfold avail. rewrite orb_true_iff, existsb_exists. split.
  - intros [H|(n & _ & H)]; [now left|right; eauto].
  - intros [H|(n & H)]; [now left|]. right. exists n. split; [|assumption].
    apply in_pack_names. unfold in_pack, pack_objs in H. destruct (flookup fs (PPackF n XPack)); [congruence|discriminate].
Qed.

(* files_ok by lookups only *)
Definition head_okP (fs : fsmap) : bool :=
  match flookup fs PHead with Some (Whole (DRef _)) => true | _ => false end.
Definition packed_okP (fs : fsmap) : bool := match packed_refs fs with Some _ => true | None => false end.
Definition shallow_okP (fs : fsmap) : bool := match shallow_of fs with Some _ => true | None => false end.
Definition index_okP (fs : fsmap) : bool :=
  match flookup fs PIndex with None | Some (Whole (DIndex _)) => true | _ => false end.
Definition config_okP (fs : fsmap) : bool :=
  match flookup fs PConfig with Some (Whole DConfig) | Some Empty => true | _ => false end.

Lemma files_ok_iff fs : files_ok fs = true <->
  head_okP fs = true /\ (forall n, ref_file_ok fs n = true) /\ packed_okP fs = true /\ shallow_okP fs = true /\
  (forall n, pack_file_ok fs n = true) /\ index_okP fs = true /\ config_okP fs = true.
Proof.
  unfold files_ok. rewrite !andb_true_iff, !forallb_forall.
  fold (head_okP fs) (packed_okP fs) (shallow_okP fs) (index_okP fs) (config_okP fs).
  split.
  - intros ((((((H1 & H2) & H3) & H4) & H5) & H6) & H7). repeat split; try assumption.
    + intro n. destruct (flookup fs (PRef n)) eqn:E.
      * apply H2. apply in_ref_names. congruence.
      * unfold ref_file_ok. now rewrite E.
    + intro n. destruct (flookup fs (PPackF n XPack)) eqn:E.
      * apply H5. apply in_pack_names. congruence.
      * unfold pack_file_ok. now rewrite E.
  - intros (H1 & H2 & H3 & H4 & H5 & H6 & H7). repeat split; auto.
Qed.

(* ref_roots by lookups only *)
Lemma in_ref_roots fs o : In o (ref_roots fs) <->
  flookup fs PHead = Some (Whole (DRef (RHash o))) \/
  (exists n, flookup fs (PRef n) = Some (Whole (DRef (RHash o)))) \/
  (exists l n, packed_refs fs = Some l /\ In (n, o) l /\ flookup fs (PRef n) = None).
Proof.
  unfold ref_roots. rewrite !in_app_iff. split.
  - intros [H|[H|H]].
    + left. destruct (flookup fs PHead) as [[[[]| | | | | | | |]| |]|]; cbn in H; try contradiction.
      destruct H as [->|[]]. reflexivity.
    + right. left. apply in_flat_map in H as (n & _ & H). exists n. unfold loose_root in H.
      destruct (flookup fs (PRef n)) as [[[[]| | | | | | | |]| |]|]; cbn in H; try contradiction.
      destruct H as [->|[]]. reflexivity.
    + right. right. destruct (packed_refs fs) as [l|] eqn:E; [|contradiction].
      apply in_flat_map in H as ([n o'] & Hin & H). cbn in H. unfold is_loose_name, fexists in H.
      destruct (flookup fs (PRef n)) eqn:E2; [contradiction|]. destruct H as [->|[]]. exists l, n. auto.
  - intros [H|[(n & H)|(l & n & E & Hin & Hn)]].
    + left. rewrite H. now left.
    + right. left. apply in_flat_map. exists n. split; [apply in_ref_names; congruence|].
      unfold loose_root. rewrite H. now left.
    + right. right. rewrite E. apply in_flat_map. exists (n, o). split; [assumption|].
      cbn. unfold is_loose_name, fexists. rewrite Hn. now left.
Qed.

(* needed is monotone in the roots *)
Lemma needed_roots g rs rs' sh o : (forall x, In x rs -> In x rs') -> needed g rs sh o -> needed g rs' sh o.
Proof.
  intros H N. induction N as [o Hr|o c _ IH Hk]; [apply needed_root; auto|eapply needed_step; eassumption].
Qed.

(* the paths repo_ok never looks at *)
Definition relevant (p : path) : bool :=
  match p with PTmp _ _ | PPackF _ XRev | PPackF _ XPromisor => false | _ => true end.

Definition agree (fs fs' : fsmap) : Prop := forall q, relevant q = true -> flookup fs' q = flookup fs q.

Lemma agree_repo_ok g fs fs' : agree fs fs' -> repo_ok g fs -> repo_ok g fs'.
Proof.
  intros A [F N].
  assert (Ep : packed_refs fs' = packed_refs fs) by (unfold packed_refs; now rewrite A).
  assert (Es : shallow_of fs' = shallow_of fs) by (unfold shallow_of; now rewrite A).
  assert (Ei : forall n os, idx_ok fs' n os = idx_ok fs n os) by (intros; unfold idx_ok; now rewrite A).
  assert (Eip : forall o n, in_pack fs' o n = in_pack fs o n).
  { intros. unfold in_pack, pack_objs. rewrite A by reflexivity. destruct (flookup fs (PPackF n XPack)) as [[[]| |]|]; auto.
    now rewrite Ei. }
  split.
  - apply files_ok_iff. apply files_ok_iff in F as (H1 & H2 & H3 & H4 & H5 & H6 & H7).
    unfold head_okP, packed_okP, shallow_okP, index_okP, config_okP, ref_file_ok, pack_file_ok in *.
    rewrite Ep, Es, !A by reflexivity. repeat split; try assumption.
    + intro n. rewrite A by reflexivity. apply H2.
    + intro n. rewrite A by reflexivity. specialize (H5 n).
      destruct (flookup fs (PPackF n XPack)) as [[[]| |]|]; auto. now rewrite Ei.
  - intros o Hn.
    assert (Hn' : needed g (ref_roots fs) (shallow_list fs) o).
    { unfold shallow_list in *. rewrite Es in Hn. eapply needed_roots; [|exact Hn].
      intros x Hx. apply in_ref_roots. apply in_ref_roots in Hx.
      rewrite Ep in Hx. rewrite A in Hx by reflexivity.
      destruct Hx as [H|[(n & H)|(l & n & E & Hin & Hl)]].
      - now left.
      - right. left. exists n. now rewrite A in H.
      - right. right. exists l, n. rewrite A in Hl by reflexivity. auto. }
    destruct (N o Hn') as [Ha Hk]. split; [|assumption].
    apply avail_iff. apply avail_iff in Ha as [Ha|(n & Ha)].
    + left. unfold loose_ok in *. now rewrite A.
    + right. exists n. now rewrite Eip.
Qed.
