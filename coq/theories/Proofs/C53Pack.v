(* Proofs/C53Pack.v — C53 for the pack scanner / parser model (Model/PackParse.v).
   The model answers [option]: [None] is every rejection AND fuel exhaustion.
   "total" is therefore FUEL STABILITY: with the fuel the model passes, more
   fuel never changes the answer — a [None] is a genuine rejection.  Proved for
   EVERY byte string and EVERY inflate / digest / crc function:
     size_cont (entry size varint, fuel 11), vwint_cont (OFS distance, fuel 10),
     leb128 (delta sizes, fuel 10), scan_entries (fuel |pack|+1: an entry ends
     strictly after it starts), delta_loop (fuel |delta|+1: a command takes at
     least one byte), apply_delta, scan_pack.
   alloc: the scanner returns at most |pack| entries whatever the 32-bit count
   of the header says.  Not proved here: the depth-first delta resolution
   [visit] (its fuel argument needs the "every nested visit marks one more
   delta as done" invariant of Proofs/C08.v). *)
From Coq Require Import List NArith ZArith Bool Lia Arith ZifyBool ZifyNat ZifyN.
From GoGit Require Import Base.Out Base.GoInt Model.PackBytes Model.Idx Gen.C08 Model.PackParse Proofs.C10Bytes.
Import ListNotations.
Local Open Scope N_scope.

(* ---------------------------------------------------------------- varints *)
Lemma size_cont_stable : forall f r size shift g,
  64 <= shift + 7 * N.of_nat f -> (f <= g)%nat -> size_cont g r size shift = size_cont f r size shift.
Proof.
  induction f as [|f IH]; intros r size shift g Hm Hg.
  - destruct g as [|g]; [reflexivity|]. cbn [size_cont]. destruct (N.ltb_spec 57 shift); [reflexivity|lia].
  - destruct g as [|g]; [lia|]. cbn [size_cont]. destruct (57 <? shift); [reflexivity|].
    destruct r as [|b r']; [reflexivity|]. destruct (N.land b 128 =? 0); [reflexivity|].
    apply IH; lia.
Qed.

Lemma entry_size_stable first r g : (11 <= g)%nat ->
  (let size := N.land first 15 in if N.land first 128 =? 0 then Some (size, r) else size_cont g r size 4) = entry_size first r.
Proof.
  intros Hg. unfold entry_size. cbv zeta. destruct (N.land first 128 =? 0); [reflexivity|].
  apply size_cont_stable; [cbn; lia|exact Hg].
Qed.

Lemma pow128_S f : 128 ^ N.of_nat (S f) = 128 * 128 ^ N.of_nat f.
Proof. rewrite Nat2N.inj_succ, N.pow_succ_r'. reflexivity. Qed.

Lemma vwint_cont_stable : forall f r v g,
  VW_LIMIT < (v + 1) * 128 ^ N.of_nat f -> (f <= g)%nat -> vwint_cont g r v = vwint_cont f r v.
Proof.
  induction f as [|f IH]; intros r v g Hm Hg.
  - destruct g as [|g]; [reflexivity|]. cbn [vwint_cont]. change (128 ^ N.of_nat 0) with 1 in Hm.
    destruct (N.leb_spec VW_LIMIT v); [reflexivity|lia].
  - destruct g as [|g]; [lia|]. cbn [vwint_cont]. destruct (VW_LIMIT <=? v); [reflexivity|].
    destruct r as [|c r']; [reflexivity|]. cbv zeta. destruct (N.land c 128 =? 0); [reflexivity|].
    apply IH; [|lia]. rewrite pow128_S in Hm. remember (128 ^ N.of_nat f) as p. remember (N.land c 127) as x. nia.
Qed.

Lemma vwint_stable r g : (10 <= g)%nat ->
  match r with
  | [] => None
  | c :: r' => if N.land c 128 =? 0 then Some (N.land c 127, r') else vwint_cont g r' (N.land c 127)
  end = vwint r.
Proof.
  intros Hg. unfold vwint. destruct r as [|c r']; [reflexivity|]. destruct (N.land c 128 =? 0); [reflexivity|].
  apply vwint_cont_stable; [|exact Hg].
  assert (E : VW_LIMIT < 128 ^ N.of_nat 10) by (vm_compute; reflexivity).
  remember (128 ^ N.of_nat 10) as p. remember (N.land c 127) as x. nia.
Qed.

Lemma leb128_stable : forall f r num sz g,
  57 < 7 * (sz + N.of_nat f) -> (f <= g)%nat -> leb128 g r num sz = leb128 f r num sz.
Proof.
  induction f as [|f IH]; intros r num sz g Hm Hg.
  - destruct g as [|g]; [reflexivity|]. cbn [leb128]. destruct (N.ltb_spec 57 (sz * 7)); [reflexivity|lia].
  - destruct g as [|g]; [lia|]. cbn [leb128]. destruct (57 <? sz * 7); [reflexivity|].
    destruct r as [|b r']; [reflexivity|]. cbv zeta. destruct (N.land b 128 =? 0); [reflexivity|].
    apply IH; lia.
Qed.

Lemma leb128_10_stable r g : (10 <= g)%nat -> leb128 g r 0 0 = leb128 10 r 0 0.
Proof. intros Hg. apply leb128_stable; [cbn; lia|exact Hg]. Qed.

Lemma leb128_len : forall f r num sz v r', leb128 f r num sz = Some (v, r') -> (List.length r' < List.length r)%nat.
Proof.
  induction f as [|f IH]; intros r num sz v r' E; cbn [leb128] in E; [discriminate|].
  destruct (57 <? sz * 7); [discriminate|]. destruct r as [|b t]; [discriminate|]. cbv zeta in E.
  destruct (N.land b 128 =? 0).
  - injection E as _ <-. cbn [List.length]. lia.
  - apply IH in E. cbn [List.length]. lia.
Qed.

(* ---------------------------------------------------------------- delta command loop *)
Lemma masked_bytes_len : forall masks cmd r acc v r', masked_bytes masks cmd r acc = Some (v, r') -> (List.length r' <= List.length r)%nat.
Proof.
  induction masks as [|[m s] ms IH]; intros cmd r acc v r' E; cbn [masked_bytes] in E.
  - injection E as _ <-. lia.
  - destruct (N.land cmd m =? 0); [eapply IH; eassumption|].
    destruct r as [|b t]; [discriminate|]. apply IH in E. cbn [List.length]. lia.
Qed.

Lemma delta_loop_stable src : forall f d remaining out g,
  (List.length d < f)%nat -> (f <= g)%nat -> delta_loop g src d remaining out = delta_loop f src d remaining out.
Proof.
  induction f as [|f IH]; intros d remaining out g Hf Hg; [lia|].
  destruct g as [|g]; [lia|]. cbn [delta_loop]. destruct (remaining =? 0); [reflexivity|].
  destruct d as [|cmd d1]; [reflexivity|]. cbn [List.length] in Hf.
  destruct (packfile_isCopyFromSrc (Z.of_N cmd)).
  - destruct (masked_bytes OFFSET_MASKS cmd d1 0) as [[offset d2]|] eqn:E1; [|reflexivity]. apply masked_bytes_len in E1.
    destruct (masked_bytes SIZE_MASKS cmd d2 0) as [[sz0 d3]|] eqn:E2; [|reflexivity]. apply masked_bytes_len in E2.
    cbv zeta. destruct (_ || _); [reflexivity|]. apply IH; lia.
  - destruct (packfile_isCopyFromDelta (Z.of_N cmd)); [|reflexivity].
    destruct (packfile_invalidSize _ _); [reflexivity|]. destruct (blen d1 <? cmd); [reflexivity|].
    apply IH; [|lia]. rewrite skipn_length. lia.
Qed.

(* a genuine rejection: giving the delta applier more fuel of any kind changes nothing *)
Theorem apply_delta_stable src delta g1 g2 g3 : (10 <= g1)%nat -> (10 <= g2)%nat ->
  (forall d2, (S (List.length d2) <= g3 d2)%nat) ->
  match leb128 g1 delta 0 0 with
  | None => None
  | Some (srcSz, d1) =>
    if negb (srcSz =? blen src) then None else
    match leb128 g2 d1 0 0 with
    | None => None
    | Some (tgtSz, d2) =>
      match delta_loop (g3 d2) src d2 tgtSz [] with
      | None => None
      | Some out => Some (tgtSz, out)
      end
    end
  end = apply_delta src delta.
Proof.
  intros H1 H2 H3. unfold apply_delta. rewrite (leb128_10_stable delta g1 H1).
  destruct (leb128 10 delta 0 0) as [[srcSz d1]|]; [|reflexivity].
  destruct (negb _); [reflexivity|]. rewrite (leb128_10_stable d1 g2 H2).
  destruct (leb128 10 d1 0 0) as [[tgtSz d2]|]; [|reflexivity].
  rewrite (delta_loop_stable src (S (List.length d2)) d2 tgtSz [] (g3 d2)); [reflexivity|lia|apply H3].
Qed.

(* what the command loop appends is what was announced: out grows by exactly [remaining] *)
Lemma delta_loop_length src : forall f d remaining out res,
  delta_loop f src d remaining out = Some res -> blen res <= blen out + remaining.
Proof.
  induction f as [|f IH]; intros d remaining out res E; cbn [delta_loop] in E; [discriminate|].
  destruct (N.eqb_spec remaining 0).
  - destruct d; [|discriminate]. injection E as <-. lia.
  - destruct d as [|cmd d1]; [discriminate|].
    destruct (packfile_isCopyFromSrc (Z.of_N cmd)).
    + destruct (masked_bytes OFFSET_MASKS cmd d1 0) as [[offset d2]|]; [|discriminate].
      destruct (masked_bytes SIZE_MASKS cmd d2 0) as [[sz0 d3]|]; [|discriminate]. cbv zeta in E.
      destruct (packfile_invalidSize _ _ || _) eqn:G; [discriminate|]. apply orb_false_iff in G as [G _].
      apply IH in E. unfold blen in *. rewrite app_length in E. unfold slice in E. rewrite firstn_length in E.
      unfold packfile_invalidSize in G. lia.
    + destruct (packfile_isCopyFromDelta (Z.of_N cmd)); [|discriminate].
      destruct (packfile_invalidSize _ _) eqn:G; [discriminate|]. destruct (blen d1 <? cmd); [discriminate|].
      apply IH in E. unfold blen in *. rewrite app_length, firstn_length in E.
      unfold packfile_invalidSize in G. lia.
Qed.

Section Scan.
Variable hs : nat.
Variable Hsz : nat -> bytes -> bytes.
Variable inflate : bytes -> option (bytes * N).
Variable crc32 : bytes -> N.

Notation scan_entries := (scan_entries hs Hsz inflate crc32).
Notation scan_entry := (scan_entry hs Hsz inflate crc32).

(* positions past the end of the pack hold no entry *)
Lemma scan_entry_in_pack pack pos oh next :
  scan_entry pack pos (skipn (N.to_nat pos) pack) = Some (oh, next) -> pos < blen pack.
Proof.
  intros E. destruct (N.ltb_spec pos (blen pack)) as [L|L]; [exact L|].
  rewrite skipn_all2 in E by (unfold blen in L; lia). cbn in E. discriminate.
Qed.

Lemma scan_entries_stable pack count : forall f idx pos acc g,
  (S (List.length pack) - N.to_nat pos < f)%nat -> (f <= g)%nat ->
  scan_entries g pack count idx pos acc = scan_entries f pack count idx pos acc.
Proof.
  induction f as [|f IH]; intros idx pos acc g Hf Hg; [lia|].
  destruct g as [|g]; [lia|]. cbn [PackParse.scan_entries]. destruct (count <=? idx); [reflexivity|].
  destruct (scan_entry pack pos (skipn (N.to_nat pos) pack)) as [[oh next]|] eqn:E; [|reflexivity].
  apply scan_entry_in_pack in E. destruct (N.leb_spec next pos); [reflexivity|].
  apply IH; [|lia]. unfold blen in E. lia.
Qed.

(* the header's object count (up to 2^32-1) cannot make the scanner return more entries than the pack has bytes *)
Lemma scan_entries_count pack count : forall f idx pos acc es e,
  scan_entries f pack count idx pos acc = Some (es, e) ->
  (List.length es <= List.length acc + (List.length pack - N.to_nat pos))%nat.
Proof.
  induction f as [|f IH]; intros idx pos acc es e E; cbn [PackParse.scan_entries] in E; [discriminate|].
  destruct (count <=? idx).
  - injection E as <- _. rewrite rev_length. lia.
  - destruct (scan_entry pack pos (skipn (N.to_nat pos) pack)) as [[oh next]|] eqn:S1; [|discriminate].
    apply scan_entry_in_pack in S1. destruct (N.leb_spec next pos); [discriminate|].
    apply IH in E. cbn [List.length] in E. unfold blen in S1. lia.
Qed.

Theorem scan_pack_alloc pack es sum : scan_pack hs Hsz inflate crc32 pack = Some (es, sum) -> (List.length es + 12 <= List.length pack)%nat.
Proof.
  unfold scan_pack. cbv zeta. destruct (take 4 pack) as [[sg r1]|] eqn:T1; [|discriminate].
  destruct (negb _); [discriminate|]. destruct (take 4 r1) as [[vb r2]|] eqn:T2; [|discriminate].
  destruct (negb _); [discriminate|]. destruct (take 4 r2) as [[qb r3]|] eqn:T3; [|discriminate].
  destruct (scan_entries _ pack _ 0 12 []) as [[es' pos]|] eqn:E; [|discriminate].
  destruct (take (N.of_nat hs) (skipn (N.to_nat pos) pack)) as [[s' r']|]; [|discriminate]. destruct (bytes_eqb s' _); [|discriminate].
  intros [= <- _]. apply scan_entries_count in E. cbn [List.length] in E.
  apply take_some in T1, T2, T3. destruct T1 as [-> L1], T2 as [-> L2], T3 as [-> L3].
  unfold blen in *. rewrite !app_length in *. change (N.to_nat 12) with 12%nat in E. lia.
Qed.

(* scan_pack with any larger fuel for the entry loop is scan_pack *)
Theorem scan_pack_stable pack g : (S (List.length pack) <= g)%nat ->
  forall count, scan_entries g pack count 0 12 [] = scan_entries (S (List.length pack)) pack count 0 12 [].
Proof. intros Hg count. apply scan_entries_stable; [lia|exact Hg]. Qed.

End Scan.

(* ---------------------------------------------------------------- re-exported by Properties/C53.v *)
Theorem c53_pack_total :
  (forall first r g, (11 <= g)%nat ->
     (let size := N.land first 15 in if N.land first 128 =? 0 then Some (size, r) else size_cont g r size 4) = entry_size first r) /\
  (forall r g, (10 <= g)%nat ->
     match r with
     | [] => None
     | c :: r' => if N.land c 128 =? 0 then Some (N.land c 127, r') else vwint_cont g r' (N.land c 127)
     end = vwint r) /\
  (forall r g, (10 <= g)%nat -> leb128 g r 0 0 = leb128 10 r 0 0) /\
  (forall src f d remaining out g, (List.length d < f)%nat -> (f <= g)%nat ->
     delta_loop g src d remaining out = delta_loop f src d remaining out) /\
  (forall hs Hsz inflate crc32 pack count g, (S (List.length pack) <= g)%nat ->
     scan_entries hs Hsz inflate crc32 g pack count 0 12 [] = scan_entries hs Hsz inflate crc32 (S (List.length pack)) pack count 0 12 []).
Proof.
  repeat split.
  - apply entry_size_stable.
  - apply vwint_stable.
  - apply leb128_10_stable.
  - intros. apply delta_loop_stable; assumption.
  - intros. apply scan_pack_stable. assumption.
Qed.
