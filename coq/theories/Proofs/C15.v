(* Proofs/C15.v — one step and whole histories of the reference store refine the map. *)
From Coq Require Import List Arith NArith ZArith Bool String Lia.
From GoGit Require Import Base.Out Model.RefStrings Model.RefName Model.RefGuard Model.RefStore Spec.RefMap
  Proofs.C13 Proofs.C15a Proofs.C15b Proofs.C15c.
Import ListNotations.
Local Open Scope N_scope.

(* a compare-and-swap is only guaranteed to leave no debris when the loose file exists *)
Definition cas_guard (s : store) (o : op) : bool :=
  match o with OSet n _ (Some _) => is_file (fs s) n | _ => true end.

(* what "behaves like the map" means for one operation *)
Definition refines_step (s : store) (o : op) (s' : store) (r : tres) : Prop :=
  match o, r with
  | OSet n v old, TUnit r =>
    (r = Er EFs /\ s' = s) \/
    (r = snd (spec_set (abs s) n v old) /\ abs_eq (abs s') (fst (spec_set (abs s) n v old)))
  | ORef n, TRef n' r => n' = n /\ s' = s /\ r = spec_get (abs s) n
  | ORefs, TList r =>
    s' = s /\ exists l, r = Ok l /\ forall n v, In (n, v) l <-> (listed n = true /\ abs s n = Some v)
  | ORm n, TUnit r =>
    (* the name leaves the map even when the OS refuses to remove the loose path
       (packed-refs is rewritten first; no loose file of that name can exist then) *)
    (r = Er EFs \/ r = Ok tt) /\ abs_eq (abs s') (m_del (abs s) n)
  | OPack, TUnit r => r = Ok tt /\ abs_eq (abs s') (abs s)
  | _, _ => False
  end.

Lemma name_ok_valid n : name_okb n = true -> valid_reference_name n = true.
Proof. unfold name_okb. intros H. apply andb_true_iff in H as [H _]. now apply andb_true_iff in H as [H _]. Qed.

(* everything except the debris of a failed compare-and-swap: no guard needed *)
Lemma step_refines_reads s o : wfb s = true -> op_okb o = true ->
  let (s', r) := step_t s o in refines_step s o s' r.
Proof.
  intros Hw Ho. destruct o as [n v old|n| |n|]; cbn [step_t op_okb] in *.
  - apply andb_true_iff in Ho as [Hn Hv]. destruct old as [o|].
    + pose proof (set_ref_cas s n v o Hw Hn Hv) as H. destruct (set_ref s n v (Some o)) as [s' r].
      cbn [refines_step]. destruct H as [H|[H1 [H2 _]]]; [now left|right; auto].
    + pose proof (set_ref_plain s n v Hw Hn Hv) as H. destruct (set_ref s n v None) as [s' r].
      cbn [refines_step]. destruct H as [H|[H1 [_ H2]]]; [now left|right].
      cbn [spec_set fst snd]. auto.
  - cbn [refines_step]. repeat split. apply get_ref_spec; [assumption|now apply name_ok_valid].
  - cbn [refines_step]. split; [reflexivity|]. destruct (list_refs_spec s Hw) as [l [-> Hl]]. now exists l.
  - pose proof (remove_ref_spec s n Hw Ho) as H. destruct (remove_ref s n) as [s' r].
    cbn [refines_step]. destruct H as [H1 [_ H2]]. auto.
  - pose proof (pack_refs_spec s Hw) as H. destruct (pack_refs s) as [s' r].
    cbn [refines_step]. destruct H as [H1 [_ H2]]. auto.
Qed.

(* … and under the guard the invariant is kept, so the next operation refines too *)
Lemma step_keeps_wf s o : wfb s = true -> op_okb o = true -> cas_guard s o = true ->
  wfb (fst (step_t s o)) = true.
Proof.
  intros Hw Ho Hg. destruct o as [n v old|n| |n|]; cbn [step_t op_okb cas_guard] in *; try assumption.
  - apply andb_true_iff in Ho as [Hn Hv]. destruct old as [o|].
    + pose proof (set_ref_cas s n v o Hw Hn Hv) as H. destruct (set_ref s n v (Some o)) as [s' r].
      cbn [fst]. destruct H as [[_ ->]|[_ [_ H3]]]; auto.
    + pose proof (set_ref_plain s n v Hw Hn Hv) as H. destruct (set_ref s n v None) as [s' r].
      cbn [fst]. destruct H as [[_ ->]|[_ [H2 _]]]; auto.
  - pose proof (remove_ref_spec s n Hw Ho) as H. destruct (remove_ref s n) as [s' r].
    cbn [fst]. now destruct H as [_ [H2 _]].
  - pose proof (pack_refs_spec s Hw) as H. destruct (pack_refs s) as [s' r].
    cbn [fst]. now destruct H as [_ [H2 _]].
Qed.

(* histories *)
Fixpoint guards (s : store) (ops : list op) : bool :=
  match ops with
  | [] => true
  | o :: r => op_okb o && cas_guard s o && guards (fst (step_t s o)) r
  end.

Fixpoint run_refines (s : store) (ops : list op) : Prop :=
  match ops with
  | [] => True
  | o :: r => refines_step s o (fst (step_t s o)) (snd (step_t s o)) /\ run_refines (fst (step_t s o)) r
  end.

Lemma run_refines_all ops : forall s, wfb s = true -> guards s ops = true ->
  run_refines s ops /\ wfb (fold_left (fun st o => fst (step_t st o)) ops s) = true.
Proof.
  induction ops as [|o r IH]; intros s Hw Hg; [split; [exact I|assumption]|].
  cbn [guards] in Hg. apply andb_true_iff in Hg as [Hg Hr]. apply andb_true_iff in Hg as [Ho Hc].
  cbn [run_refines fold_left].
  pose proof (step_refines_reads s o Hw Ho) as H1. pose proof (step_keeps_wf s o Hw Ho Hc) as H2.
  destruct (step_t s o) as [s' t]. cbn [fst snd] in *.
  destruct (IH s' H2 Hr) as [H3 H4]. auto.
Qed.

(* packing preserves every read and the listing *)
Lemma pack_preserves s : wfb s = true ->
  let s' := fst (pack_refs s) in
  wfb s' = true /\ abs_eq (abs s') (abs s) /\
  exists l l', list_refs s = Ok l /\ list_refs s' = Ok l' /\ forall n v, In (n, v) l' <-> In (n, v) l.
Proof.
  intros Hw. pose proof (pack_refs_spec s Hw) as H. destruct (pack_refs s) as [s' r]. cbn [fst].
  destruct H as [_ [Hw' Ha]]. split; [assumption|]. split; [assumption|].
  destruct (list_refs_spec s Hw) as [l [El Hl]]. destruct (list_refs_spec s' Hw') as [l' [El' Hl']].
  exists l, l'. repeat split; try assumption; intros H.
  - apply Hl. apply Hl' in H. now rewrite <- Ha.
  - apply Hl'. apply Hl in H. now rewrite Ha.
Qed.

(* ---- the defect: a failed compare-and-swap on a name without a loose file ---- *)
Local Open Scope string_scope.
Definition hA : string := "e6c47f5d909abcf69dd810014ec7d771b68c27f4".
Definition nameA : bytes := bytes_of_string "refs/heads/a".
Definition s_fresh : store :=
  c15_init [("48454144", "7265663a20726566732f68656164732f610a")] ["726566732f6865616473"; "726566732f74616773"] None.
Definition cas_absent : op := OSet nameA (mk_hash hA) (Some (mk_hash hA)).

Lemma failed_cas_breaks :
  wfb s_fresh = true /\ op_okb cas_absent = true /\ cas_guard s_fresh cas_absent = false /\
  snd (step_t s_fresh cas_absent) = TUnit (Er ENotFound) /\
  wfb (fst (step_t s_fresh cas_absent)) = false /\
  list_refs (fst (step_t s_fresh cas_absent)) = Er EEmpty /\
  (exists l, list_refs s_fresh = Ok l).
Proof. vm_compute. repeat split. eexists. reflexivity. Qed.
