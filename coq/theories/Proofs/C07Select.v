(* Proofs/C07Select.v — what every run of the DeltaSelector model guarantees, for EVERY sort
   permutation [order] and EVERY delta-size function [dsz] (the chooser's nondeterminism). *)
From Coq Require Import List NArith ZArith Arith Bool Lia ZifyBool.
From GoGit Require Import Base.Out Gen.C07 Model.PackEnc Model.DeltaSel.
Import ListNotations.
Local Open Scope Z_scope.

Lemma maxDepth_pos : 0 < maxDepth. Proof. reflexivity. Qed.

(* ------------------------------------------------------------ deltaSizeLimit *)
Lemma quot_nonpos : forall a b, a <= 0 -> 0 < b -> Z.quot a b <= 0.
Proof.
  intros a b Ha Hb. replace a with (- (- a)) by lia. rewrite Z.quot_opp_l by lia.
  pose proof (Z.quot_pos (- a) b). lia.
Qed.

(* a limit above 8 is only ever granted against a base whose Depth is below maxDepth *)
Lemma limit_depth : forall n bd td isd, 0 <= n -> 8 < delta_size_limit n bd td isd -> bd < maxDepth.
Proof.
  intros n bd td isd Hn H. pose proof maxDepth_pos as HM. unfold delta_size_limit in H.
  destruct (Z.lt_ge_cases bd maxDepth) as [Hlt|Hge]; [exact Hlt|exfalso].
  destruct isd; cbn [negb] in H.
  - destruct (td >=? maxDepth) eqn:E; [lia|].
    assert (Hq : Z.quot (n * (maxDepth - bd)) (maxDepth - td) <= 0) by (apply quot_nonpos; nia). lia.
  - assert (Hs : 0 <= Z.shiftr n 1) by (apply Z.shiftr_nonneg; exact Hn).
    assert (Hq : Z.quot (Z.shiftr n 1 * (maxDepth - bd)) maxDepth <= 0) by (apply quot_nonpos; nia). lia.
Qed.

(* ------------------------------------------------------------ tryToDeltify *)
Section Walk.
Variable objs : list sobj.
Variable dsz : nat -> nat -> Z.
Hypothesis dsz_nonneg : forall b t, 0 <= dsz b t.
Hypothesis size_nonneg : forall u, 0 <= so_size (obj_at objs u).

Definition same_except (t : nat) (st st' : sstate) : Prop :=
  forall u, u <> t -> sb st' u = sb st u /\ sd st' u = sd st u /\ sz st' u = sz st u /\ sf st' u = sf st u.

Lemma same_except_refl : forall t st, same_except t st st.
Proof. intros t st u _. auto. Qed.

Lemma same_except_trans : forall t a b c, same_except t a b -> same_except t b c -> same_except t a c.
Proof.
  intros t a b c H1 H2 u Hu. destruct (H1 u Hu) as [A1 [A2 [A3 A4]]]. destruct (H2 u Hu) as [B1 [B2 [B3 B4]]].
  repeat split; congruence.
Qed.

Lemma upd_same : forall (A : Type) (f : nat -> A) k v, upd f k v k = v.
Proof. intros. unfold upd. now rewrite Nat.eqb_refl. Qed.

Lemma upd_other : forall (A : Type) (f : nat -> A) k v u, u <> k -> upd f k v u = f u.
Proof. intros A f k v u H. unfold upd. destruct (Nat.eqb u k) eqn:E; [apply Nat.eqb_eq in E; contradiction | reflexivity]. Qed.

Lemma set_delta_same_except : forall st t b d, same_except t st (set_delta st t b d).
Proof. intros st t b d u Hu. unfold set_delta. cbn [sb sd sz sf]. rewrite !upd_other by exact Hu. auto. Qed.

(* the outcome of one attempt: nothing, or t now points to b with the guards satisfied *)
Definition chosen (st st' : sstate) (t b : nat) : Prop :=
  sb st' t = Some b /\ sd st' t = sd st b + 1 /\ sd st b < maxDepth /\ sz st' t = dsz b t /\
  Z.shiftr (so_size (obj_at objs b)) 4 <= so_size (obj_at objs t).

Lemma try_deltify_spec : forall st t b, 0 <= sz st t ->
  let st' := try_deltify objs dsz st t b in
  same_except t st st' /\ (st' = st \/ chosen st st' t b).
Proof.
  intros st t b Hsz st'. unfold st', try_deltify.
  destruct (so_size (obj_at objs t) <? Z.shiftr (so_size (obj_at objs b)) 4) eqn:E1; [split; [apply same_except_refl | now left]|].
  set (isd := match sb st t with Some _ => true | None => false end).
  set (msz := delta_size_limit (sz st t) (sd st b) (sd st t) isd).
  destruct (msz <=? 8) eqn:E2; [split; [apply same_except_refl | now left]|].
  destruct (msz <? so_size (obj_at objs b) - so_size (obj_at objs t)) eqn:E3; [split; [apply same_except_refl | now left]|].
  destruct (dsz b t <? msz) eqn:E4; [|split; [apply same_except_refl | now left]].
  apply Z.ltb_ge in E1. apply Z.leb_gt in E2.
  split; [apply set_delta_same_except|]. right. unfold chosen, set_delta. cbn [sb sd sz sf]. rewrite !upd_same.
  repeat split; try reflexivity.
  - apply (limit_depth (sz st t) (sd st b) (sd st t) isd Hsz). exact E2.
  - exact E1.
Qed.

(* the inner loop over the candidates of target t *)
Definition inner (t : nat) (cs : list nat) (st : sstate) : sstate :=
  fold_left (fun s b => if so_typ (obj_at objs b) =? so_typ (obj_at objs t) then try_deltify objs dsz s t b else s) cs st.

Lemma inner_spec : forall t cs st, 0 <= sz st t ->
  same_except t st (inner t cs st) /\ 0 <= sz (inner t cs st) t /\
  ((sb (inner t cs st) t = sb st t /\ sd (inner t cs st) t = sd st t) \/
   exists b s, In b cs /\ so_typ (obj_at objs b) = so_typ (obj_at objs t) /\ same_except t st s /\
               sb (inner t cs st) t = Some b /\ sd (inner t cs st) t = sd s b + 1 /\ sd s b < maxDepth).
Proof.
  intros t cs. induction cs as [|b r IH]; intros st Hsz.
  - cbn. split; [apply same_except_refl|]. split; [exact Hsz|]. left. auto.
  - change (inner t (b :: r) st) with
      (inner t r (if so_typ (obj_at objs b) =? so_typ (obj_at objs t) then try_deltify objs dsz st t b else st)).
    set (s1 := if so_typ (obj_at objs b) =? so_typ (obj_at objs t) then try_deltify objs dsz st t b else st).
    assert (H1 : same_except t st s1 /\ 0 <= sz s1 t /\
                 (s1 = st \/ (so_typ (obj_at objs b) = so_typ (obj_at objs t) /\ chosen st s1 t b))).
    { unfold s1. destruct (so_typ (obj_at objs b) =? so_typ (obj_at objs t)) eqn:Et.
      - destruct (try_deltify_spec st t b Hsz) as [A [B|B]].
        + split; [exact A|]. split; [rewrite B; exact Hsz|]. now left.
        + split; [exact A|]. split; [destruct B as [_ [_ [_ [B4 _]]]]; rewrite B4; apply dsz_nonneg|].
          right. split; [lia | exact B].
      - split; [apply same_except_refl|]. split; [exact Hsz|]. now left. }
    destruct H1 as [S1 [Z1 C1]].
    destruct (IH s1 Z1) as [S2 [Z2 C2]].
    split; [eapply same_except_trans; eassumption|]. split; [exact Z2|].
    destruct C2 as [[E1 E2]|[b' [s [Hin [Ht [Hs [Hb [Hd Hm]]]]]]]].
    + destruct C1 as [C1|[Ht [Hb [Hd [Hm _]]]]].
      * left. rewrite E1, E2, C1. auto.
      * right. exists b, st. split; [now left|]. split; [exact Ht|]. split; [apply same_except_refl|].
        rewrite E1, E2. auto.
    + right. exists b', s. split; [now right|]. split; [exact Ht|]. split; [eapply same_except_trans; eassumption|]. auto.
Qed.

(* ------------------------------------------------------------ list facts *)
Lemma In_firstn : forall (A : Type) n (l : list A) x, In x (firstn n l) -> In x l.
Proof.
  induction n as [|n IH]; intros l x H; [contradiction|]. destruct l as [|y l]; [contradiction|].
  simpl in H. destruct H as [H|H]; [now left | right; now apply IH].
Qed.

Lemma NoDup_app_l : forall (A : Type) (l l' : list A), NoDup (l ++ l') -> NoDup l.
Proof.
  induction l as [|a l IH]; intros l' H; [constructor|]. simpl in H. inversion H as [|? ? Hn Hr]; subst.
  constructor; [intros Hin; apply Hn; apply in_or_app; now left | now apply (IH l')].
Qed.

(* ------------------------------------------------------------ the walk without reused deltas *)
Definition INV (proc : list nat) (st : sstate) : Prop :=
  (forall u, ~ In u proc -> sb st u = None /\ sd st u = 0) /\
  (forall u, In u proc -> 0 <= sd st u <= maxDepth /\
     match sb st u with
     | None => sd st u = 0
     | Some b => In b proc /\ sd st u = sd st b + 1 /\ so_typ (obj_at objs b) = so_typ (obj_at objs u) /\
                 deltable (so_typ (obj_at objs u)) = true
     end) /\
  (forall u, 0 <= sz st u).

Lemma walk_step_inv : forall window t before st proc,
  ~ In t proc -> incl before proc -> INV proc st ->
  INV (proc ++ [t])
      (if negb (deltable (so_typ (obj_at objs t))) then st else inner t (firstn (window - 1) before) st).
Proof.
  intros window t before st proc Ht Hinc [Ha [Hb Hz]].
  destruct (Ha t Ht) as [Hbt Hdt].
  set (st' := if negb (deltable (so_typ (obj_at objs t))) then st else inner t (firstn (window - 1) before) st).
  assert (Hcases : same_except t st st' /\ 0 <= sz st' t /\
            ((sb st' t = None /\ sd st' t = 0) \/
             exists b, In b proc /\ so_typ (obj_at objs b) = so_typ (obj_at objs t) /\
                       deltable (so_typ (obj_at objs t)) = true /\
                       sb st' t = Some b /\ sd st' t = sd st b + 1 /\ sd st b < maxDepth)).
  { unfold st'. destruct (negb (deltable (so_typ (obj_at objs t)))) eqn:Edel.
    - split; [apply same_except_refl|]. split; [apply Hz|]. left. auto.
    - destruct (inner_spec t (firstn (window - 1) before) st (Hz t)) as [S [Z C]].
      split; [exact S|]. split; [exact Z|].
      destruct C as [[E1 E2]|[b [s [Hin [Hty [Hs [Hb' [Hd Hm]]]]]]]].
      + left. rewrite E1, E2. auto.
      + right. assert (Hbp : In b proc) by (apply Hinc; eapply In_firstn; exact Hin).
        assert (Hne : b <> t) by (intros ->; contradiction).
        destruct (Hs b Hne) as [_ [Hsd _]]. rewrite Hsd in Hd, Hm.
        exists b. apply negb_false_iff in Edel. auto 10. }
  destruct Hcases as [S [Z C]].
  split; [|split].
  - intros u Hu. assert (Hne : u <> t) by (intros ->; apply Hu; apply in_or_app; right; now left).
    assert (Hup : ~ In u proc) by (intros H; apply Hu; apply in_or_app; now left).
    destruct (S u Hne) as [E1 [E2 _]]. rewrite E1, E2. now apply Ha.
  - intros u Hu. apply in_app_or in Hu. destruct Hu as [Hu|[<-|[]]].
    + assert (Hne : u <> t) by (intros ->; contradiction).
      destruct (S u Hne) as [E1 [E2 _]]. rewrite E1, E2. destruct (Hb u Hu) as [Hr Hm]. split; [exact Hr|].
      destruct (sb st u) as [b|]; [|exact Hm]. destruct Hm as [M1 [M2 [M3 M4]]].
      assert (Hbn : b <> t) by (intros ->; contradiction).
      destruct (S b Hbn) as [_ [E3 _]]. rewrite E3. split; [apply in_or_app; now left | auto].
    + destruct C as [[C1 C2]|[b [Hbp [Hty [Hdl [C1 [C2 C3]]]]]]].
      * rewrite C1, C2. pose proof maxDepth_pos. split; [lia | reflexivity].
      * rewrite C1, C2. destruct (Hb b Hbp) as [Hr _].
        assert (Hbn : b <> t) by (intros ->; contradiction).
        destruct (S b Hbn) as [_ [E3 _]]. rewrite E3. split; [lia|]. split; [apply in_or_app; now left | auto].
  - intros u. destruct (Nat.eq_dec u t) as [->|Hne]; [exact Z|]. destruct (S u Hne) as [_ [_ [E _]]]. rewrite E. apply Hz.
Qed.

Lemma walk_go_inv : forall window rest before st proc,
  NoDup (proc ++ rest) -> incl before proc -> INV proc st ->
  INV (proc ++ rest) (walk_go objs dsz window before rest st).
Proof.
  intros window. induction rest as [|t r IH]; intros before st proc Hnd Hinc HI.
  - cbn. now rewrite app_nil_r.
  - cbn [walk_go].
    assert (Ht : ~ In t proc).
    { intros Hin. apply NoDup_remove_2 in Hnd. apply Hnd. apply in_or_app. now left. }
    destruct HI as [Ha [Hb Hz]]. destruct (Ha t Ht) as [Hbt Hdt]. rewrite Hbt.
    replace (proc ++ t :: r) with ((proc ++ [t]) ++ r) by (now rewrite <- app_assoc).
    apply (IH (t :: before) _ (proc ++ [t])).
    + now rewrite <- app_assoc.
    + intros x [<-|Hx]; apply in_or_app; [right; now left | left; now apply Hinc].
    + apply (walk_step_inv window t before st proc Ht Hinc). split; [exact Ha | split; [exact Hb | exact Hz]].
Qed.

Lemma groups_inv : forall window gs st proc,
  NoDup (proc ++ List.concat gs) -> INV proc st ->
  INV (proc ++ List.concat gs) (fold_left (fun s g => walk_go objs dsz window [] g s) gs st).
Proof.
  intros window. induction gs as [|g r IH]; intros st proc Hnd HI; cbn [fold_left List.concat] in *.
  - now rewrite app_nil_r.
  - rewrite app_assoc. apply IH.
    + now rewrite <- app_assoc.
    + apply walk_go_inv; [|intros x []|exact HI]. rewrite app_assoc in Hnd. now apply NoDup_app_l in Hnd.
Qed.
End Walk.

Lemma groups_concat : forall objs l cur, List.concat (groups objs l cur) = rev cur ++ l.
Proof.
  intros objs. induction l as [|u r IH]; intros cur.
  - destruct cur; cbn [groups List.concat]; [reflexivity | now rewrite !app_nil_r].
  - cbn [groups]. destruct cur as [|p c].
    + rewrite IH. reflexivity.
    + destruct (so_typ (obj_at objs p) =? so_typ (obj_at objs u)).
      * rewrite IH. cbn [rev]. now rewrite <- app_assoc.
      * cbn [List.concat]. rewrite IH. reflexivity.
Qed.

Lemma is_perm_spec : forall n l, is_perm n l = true -> NoDup l /\ (forall u, In u l <-> (u < n)%nat).
Proof.
  intros n l H. unfold is_perm in H. apply andb_true_iff in H. destruct H as [Hl Hall].
  apply Nat.eqb_eq in Hl. rewrite forallb_forall in Hall.
  assert (Hinc : incl (seq 0 n) l).
  { intros u Hu. specialize (Hall u Hu). apply existsb_exists in Hall. destruct Hall as [x [Hx E]].
    apply Nat.eqb_eq in E. now subst. }
  assert (Hlen : (List.length l <= List.length (seq 0 n))%nat) by (rewrite seq_length; lia).
  split.
  - exact (NoDup_incl_NoDup (seq_NoDup n 0) Hlen Hinc).
  - intros u. split.
    + intros Hu. pose proof (NoDup_length_incl (seq_NoDup n 0) Hlen Hinc u Hu) as H. apply in_seq in H. lia.
    + intros Hu. apply Hinc. apply in_seq. lia.
Qed.

(* ------------------------------------------------------------ selections without reused deltas *)
Definition no_reuse (objs : list sobj) : Prop := forall u, so_stored (obj_at objs u) = None.

Lemma fix_all_noreuse : forall objs us, no_reuse objs -> fix_all objs us (init_state objs) = Some (init_state objs).
Proof.
  intros objs us H. induction us as [|u r IH]; [reflexivity|]. cbn [fix_all fix_one].
  assert (E : sf (init_state objs) u = false) by (cbn; now rewrite H). rewrite E. cbn [negb]. exact IH.
Qed.

Theorem select_noreuse_inv : forall window objs order dsz st ord,
  (forall b t, 0 <= dsz b t) -> (forall u, 0 <= so_size (obj_at objs u)) -> no_reuse objs ->
  select window objs order dsz = inl (st, ord) -> INV objs ord st.
Proof.
  intros window objs order dsz st ord Hd Hs Hn H. pose proof maxDepth_pos as HM. unfold select in H.
  destruct window as [|w].
  - injection H as <- <-. split; [|split]; cbn; intros; auto. split; [lia | reflexivity].
  - rewrite (fix_all_noreuse objs _ Hn) in H.
    destruct (is_perm (List.length objs) order && sorted_by objs (init_state objs) order) eqn:E; [|discriminate].
    cbn [negb] in H. injection H as <- <-.
    apply andb_true_iff in E. destruct E as [Ep _]. destruct (is_perm_spec _ _ Ep) as [Hnd _].
    pose proof (groups_inv objs dsz Hd (S w) (groups objs order []) (init_state objs) []) as G.
    rewrite groups_concat in G. cbn [rev app] in G. apply G; [exact Hnd|].
    split; [|split]; cbn; intros; auto. contradiction.
Qed.

(* the true length of the chain hanging off an object (any number of steps followed) *)
Fixpoint chain_len (sbf : nat -> option nat) (fuel : nat) (u : nat) : nat :=
  match fuel with
  | O => O
  | S f => match sbf u with None => O | Some b => S (chain_len sbf f b) end
  end.

Lemma chain_len_le_depth : forall objs ord st, INV objs ord st ->
  forall fuel u, Z.of_nat (chain_len (sb st) fuel u) <= sd st u.
Proof.
  intros objs ord st [Ha [Hb Hz]]. induction fuel as [|f IH]; intros u.
  - cbn. destruct (in_dec Nat.eq_dec u ord) as [Hi|Hi]; [destruct (Hb u Hi); lia | destruct (Ha u Hi); lia].
  - cbn [chain_len]. destruct (in_dec Nat.eq_dec u ord) as [Hi|Hi].
    + destruct (Hb u Hi) as [Hr Hm]. destruct (sb st u) as [b|]; [|lia]. destruct Hm as [_ [E _]]. specialize (IH b). lia.
    + destruct (Ha u Hi) as [E1 E2]. rewrite E1. lia.
Qed.

Lemma chain_len_eq_depth : forall objs ord st, INV objs ord st ->
  forall fuel u, (Z.to_nat (sd st u) <= fuel)%nat -> Z.of_nat (chain_len (sb st) fuel u) = sd st u.
Proof.
  intros objs ord st [Ha [Hb Hz]]. induction fuel as [|f IH]; intros u Hf.
  - cbn. destruct (in_dec Nat.eq_dec u ord) as [Hi|Hi]; [destruct (Hb u Hi); lia | destruct (Ha u Hi); lia].
  - cbn [chain_len]. destruct (in_dec Nat.eq_dec u ord) as [Hi|Hi].
    + destruct (Hb u Hi) as [Hr Hm]. destruct (sb st u) as [b|]; [|lia]. destruct Hm as [Hbi [E _]].
      destruct (Hb b Hbi) as [Hrb _]. rewrite Nat2Z.inj_succ, (IH b); lia.
    + destruct (Ha u Hi) as [E1 E2]. rewrite E1. lia.
Qed.

(* ------------------------------------------------------------ the graph handed to the encoder *)
Lemma pos_of_spec : forall u l i p, pos_of u l i = Some p -> (i <= p)%nat /\ (p - i < List.length l)%nat /\ nth (p - i) l 0%nat = u.
Proof.
  intros u. induction l as [|x r IH]; intros i p H; [discriminate|]. cbn [pos_of] in H.
  destruct (Nat.eqb x u) eqn:E.
  - injection H as <-. apply Nat.eqb_eq in E. rewrite Nat.sub_diag. cbn. repeat split; [lia | lia | exact E].
  - destruct (IH (S i) p H) as [A [B C]]. split; [lia|]. replace (p - i)%nat with (S (p - S i)) by lia. cbn. split; [lia | exact C].
Qed.

Lemma pos_of_in : forall u l i, In u l -> exists p, pos_of u l i = Some p.
Proof.
  intros u. induction l as [|x r IH]; intros i H; [contradiction|]. cbn [pos_of].
  destruct (Nat.eqb x u) eqn:E; [eexists; reflexivity|]. destruct H as [->|H]; [rewrite Nat.eqb_refl in E; discriminate|].
  now apply IH.
Qed.

Lemma sel_base_fun : forall objs st ord k b, base_fun (sel_nodes objs st ord) k = Some b ->
  (k < List.length ord)%nat /\ (b < List.length ord)%nat /\ sb st (nth k ord 0%nat) = Some (nth b ord 0%nat).
Proof.
  intros objs st ord k b H. unfold base_fun, sel_nodes in H. rewrite nth_error_map in H.
  destruct (nth_error ord k) as [u|] eqn:E; [|discriminate]. cbn [option_map] in H.
  assert (Hk : (k < List.length ord)%nat) by (apply nth_error_Some; congruence).
  rewrite (nth_error_nth ord k 0%nat E).
  destruct (sb st u) as [bu|]; [|discriminate]. destruct (pos_of bu ord 0) as [p|] eqn:Ep; [|discriminate].
  injection H as <-. rewrite Nat2N.id. destruct (pos_of_spec _ _ _ _ Ep) as [_ [B C]]. rewrite Nat.sub_0_r in B, C.
  rewrite C. auto.
Qed.

(* no reuse: the encoder's graph is acyclic (Depth is a rank) and its chains are at most maxDepth long *)
Theorem select_noreuse_graph : forall window objs order dsz st ord,
  (forall b t, 0 <= dsz b t) -> (forall u, 0 <= so_size (obj_at objs u)) -> no_reuse objs ->
  select window objs order dsz = inl (st, ord) ->
  let base0 := base_fun (sel_nodes objs st ord) in
  let rank := fun k => Z.to_nat (sd st (nth k ord 0%nat)) in
  (forall k b, base0 k = Some b -> (rank b < rank k)%nat) /\
  (forall fuel k, Z.of_nat (chain_len base0 fuel k) <= maxDepth).
Proof.
  intros window objs order dsz st ord Hd Hs Hn H base0 rank.
  pose proof (select_noreuse_inv _ _ _ _ _ _ Hd Hs Hn H) as HI. destruct HI as [Ha [Hb Hz]].
  assert (Hedge : forall k b, base0 k = Some b ->
            In (nth k ord 0%nat) ord /\ In (nth b ord 0%nat) ord /\ sd st (nth k ord 0%nat) = sd st (nth b ord 0%nat) + 1).
  { intros k b E. destruct (sel_base_fun _ _ _ _ _ E) as [Hk [Hbl Hsb]].
    assert (Hi : In (nth k ord 0%nat) ord) by (apply nth_In; exact Hk).
    destruct (Hb _ Hi) as [_ Hm]. rewrite Hsb in Hm. destruct Hm as [M1 [M2 _]]. auto. }
  split.
  - intros k b E. destruct (Hedge k b E) as [_ [Hi2 E2]]. destruct (Hb _ Hi2) as [Hr _]. unfold rank. lia.
  - assert (G : forall fuel k, (k < List.length ord)%nat -> Z.of_nat (chain_len base0 fuel k) <= sd st (nth k ord 0%nat)).
    { induction fuel as [|f IH]; intros k Hk.
      - cbn. destruct (Hb _ (nth_In ord 0%nat Hk)). lia.
      - cbn [chain_len]. destruct (base0 k) as [b|] eqn:E.
        + destruct (Hedge k b E) as [_ [_ E2]]. destruct (sel_base_fun _ _ _ _ _ E) as [_ [Hbl _]].
          specialize (IH b Hbl). lia.
        + destruct (Hb _ (nth_In ord 0%nat Hk)). lia. }
    intros fuel k. destruct (Nat.lt_ge_cases k (List.length ord)) as [Hk|Hk].
    + specialize (G fuel k Hk). destruct (Hb _ (nth_In ord 0%nat Hk)). lia.
    + pose proof maxDepth_pos. destruct fuel; cbn [chain_len]; [lia|].
      destruct (base0 k) as [b|] eqn:E; [destruct (sel_base_fun _ _ _ _ _ E); lia | lia].
Qed.

(* ------------------------------------------------------------ reused deltas: fixAndBreakChains *)
Definition dflt_obj : sobj := mkSObj 0 0 0 None.

Lemma find_last_spec : forall objs k i found b, find_last objs k i found = Some b ->
  found = Some b \/ ((i <= b < i + List.length objs)%nat /\ so_key (nth (b - i) objs dflt_obj) = k).
Proof.
  induction objs as [|o r IH]; intros k i found b H; [now left|]. cbn [find_last] in H.
  destruct (IH k (S i) _ b H) as [E|[R K]].
  - destruct (so_key o =? k)%N eqn:Ek; [|now left]. injection E as <-. right. rewrite Nat.sub_diag. cbn.
    split; [lia | now apply N.eqb_eq].
  - right. split; [simpl; lia|]. replace (b - i)%nat with (S (b - S i)) by lia. exact K.
Qed.

(* every Base assigned so far is the object carrying the id the stored delta names as its base *)
Definition reuse_ok (objs : list sobj) (st : sstate) : Prop :=
  (forall u b, sb st u = Some b ->
     exists bk asz, so_stored (obj_at objs u) = Some (bk, asz) /\ (b < List.length objs)%nat /\ so_key (obj_at objs b) = bk) /\
  (forall u, 0 <= sz st u) /\
  (forall u, 0 <= sd st u) /\ (forall u, sb st u = None -> sd st u = 0).

Lemma fix_one_ok : forall objs fuel st u st', reuse_ok objs st -> fix_one fuel objs st u = Some st' -> reuse_ok objs st'.
Proof.
  intros objs. induction fuel as [|f IH]; intros st u st' Hok H; [discriminate|]. cbn [fix_one] in H.
  destruct (negb (sf st u)); [injection H as <-; exact Hok|].
  destruct (so_stored (obj_at objs u)) as [[bk asz]|] eqn:Es; [|injection H as <-; exact Hok].
  destruct (find_last objs bk 0 None) as [b|] eqn:Ef.
  - destruct (fix_one f objs st b) as [s1|] eqn:E1; [|discriminate]. injection H as <-.
    destruct (IH _ _ _ Hok E1) as [A [Z [D0 D1]]]. split; [|split; [|split]].
    + intros x bx Hx. unfold set_delta in Hx. cbn [sb] in Hx. destruct (Nat.eq_dec x u) as [->|Hne].
      * rewrite upd_same in Hx. injection Hx as <-. exists bk, asz. split; [exact Es|].
        destruct (find_last_spec _ _ _ _ _ Ef) as [?|[R K]]; [discriminate|]. rewrite Nat.sub_0_r in K.
        split; [lia | exact K].
      * rewrite upd_other in Hx by exact Hne. now apply A.
    + intros x. unfold set_delta. cbn [sz]. destruct (Nat.eq_dec x u) as [->|Hne]; [rewrite upd_same | rewrite upd_other by exact Hne]; apply Z.
    + intros x. unfold set_delta. cbn [sd]. destruct (Nat.eq_dec x u) as [->|Hne]; [rewrite upd_same; specialize (D0 b); lia | rewrite upd_other by exact Hne; apply D0].
    + intros x. unfold set_delta. cbn [sb sd]. destruct (Nat.eq_dec x u) as [->|Hne]; [rewrite upd_same; discriminate | rewrite !upd_other by exact Hne; apply D1].
  - injection H as <-. destruct Hok as [A [Z [D0 D1]]]. split; [exact A | split; [exact Z | split]].
    + intros x. unfold undeltify. cbn [sd]. destruct (Nat.eq_dec x u) as [->|Hne]; [rewrite upd_same; lia | rewrite upd_other by exact Hne; apply D0].
    + intros x. unfold undeltify. cbn [sb sd]. destruct (Nat.eq_dec x u) as [->|Hne]; [rewrite upd_same; reflexivity | rewrite upd_other by exact Hne; apply D1].
Qed.

Lemma fix_all_ok : forall objs us st st', reuse_ok objs st -> fix_all objs us st = Some st' -> reuse_ok objs st'.
Proof.
  intros objs. induction us as [|u r IH]; intros st st' Hok H; [injection H as <-; exact Hok|]. cbn [fix_all] in H.
  destruct (fix_one (S (List.length objs)) objs st u) as [s1|] eqn:E; [|discriminate].
  apply (IH s1); [eapply fix_one_ok; eassumption | exact H].
Qed.

(* ------------------------------------------------------------ the walk in general *)
Section WalkK.
Variable objs : list sobj.
Variable dsz : nat -> nat -> Z.
Hypothesis dsz_nonneg : forall b t, 0 <= dsz b t.
Variable st0 : sstate.
Variable order : list nat.

(* a reused delta keeps the base fixAndBreakChains gave it; any other base is an object of the request *)
Definition KINV (st : sstate) : Prop :=
  (forall u, match sb st0 u with
             | Some b0 => sb st u = Some b0
             | None => (forall b, sb st u = Some b -> In b order) /\ sd st u <= maxDepth
             end) /\
  (forall u, 0 <= sz st u) /\ (forall u, 0 <= sd st u).

Lemma inner_sd_nonneg : forall t cs st, (forall x, 0 <= sd st x) -> forall x, 0 <= sd (inner objs dsz t cs st) x.
Proof.
  intros t cs. induction cs as [|b r IH]; intros st H x; [apply H|].
  change (inner objs dsz t (b :: r) st) with
    (inner objs dsz t r (if so_typ (obj_at objs b) =? so_typ (obj_at objs t) then try_deltify objs dsz st t b else st)).
  apply IH. intros y. destruct (so_typ (obj_at objs b) =? so_typ (obj_at objs t)); [|apply H].
  unfold try_deltify. repeat match goal with |- context [if ?c then _ else _] => destruct c end; try apply H.
  unfold set_delta. cbn [sd]. destruct (Nat.eq_dec y t) as [->|Hne]; [rewrite upd_same; specialize (H b); lia | rewrite upd_other by exact Hne; apply H].
Qed.

Lemma walk_go_K : forall window rest before st,
  incl before order -> incl rest order -> KINV st -> KINV (walk_go objs dsz window before rest st).
Proof.
  intros window. induction rest as [|t r IH]; intros before st Hb Hr [K [Z D]]; [split; [|split]; assumption|].
  cbn [walk_go]. apply IH.
  - intros x [<-|Hx]; [apply Hr; now left | now apply Hb].
  - intros x Hx. apply Hr. now right.
  - destruct (sb st t) as [bt|] eqn:Et; [split; [|split]; assumption|].
    destruct (negb (deltable (so_typ (obj_at objs t)))); [split; [|split]; assumption|].
    destruct (inner_spec objs dsz dsz_nonneg t (firstn (window - 1) before) st (Z t)) as [S [Zt C]].
    pose proof (inner_sd_nonneg t (firstn (window - 1) before) st D) as D'.
    fold (inner objs dsz t (firstn (window - 1) before) st).
    set (st' := inner objs dsz t (firstn (window - 1) before) st) in *.
    split; [|split].
    + intros u. destruct (Nat.eq_dec u t) as [->|Hne].
      * specialize (K t). destruct (sb st0 t) as [b0|]; [rewrite Et in K; discriminate|]. destruct K as [K1 K2].
        destruct C as [[C1 C2]|[b1 [s [Hin [_ [_ [C1 [C2 C3]]]]]]]].
        -- split; [intros b Hb'; rewrite C1, Et in Hb'; discriminate | rewrite C2; exact K2].
        -- split; [|lia]. intros b Hb'. rewrite C1 in Hb'. injection Hb' as <-. apply Hb. eapply In_firstn. exact Hin.
      * destruct (S u Hne) as [E [E2 _]]. rewrite E, E2. apply K.
    + intros u. destruct (Nat.eq_dec u t) as [->|Hne]; [exact Zt|]. destruct (S u Hne) as [_ [_ [E _]]]. rewrite E. apply Z.
    + exact D'.
Qed.

Lemma groups_K : forall window gs st,
  (forall g, In g gs -> incl g order) -> KINV st -> KINV (fold_left (fun s g => walk_go objs dsz window [] g s) gs st).
Proof.
  intros window. induction gs as [|g r IH]; intros st Hg HK; [exact HK|]. cbn [fold_left].
  apply IH; [intros g' Hg'; apply Hg; now right|].
  apply walk_go_K; [intros x [] | apply Hg; now left | exact HK].
Qed.
End WalkK.

(* every Base of every selection is an object of the returned list; a reused one is the object whose id the
   stored delta names; every delta that is not a reused one has Depth <= maxDepth *)
Theorem select_edges : forall window objs order dsz st ord,
  (forall b t, 0 <= dsz b t) -> (forall u, 0 <= so_size (obj_at objs u)) ->
  select window objs order dsz = inl (st, ord) ->
  exists reused : nat -> bool,
    (forall u b, sb st u = Some b ->
       In b ord /\
       (reused u = true -> exists bk asz, so_stored (obj_at objs u) = Some (bk, asz) /\ so_key (obj_at objs b) = bk)) /\
    (forall u, 0 <= sd st u /\ (reused u = false -> sd st u <= maxDepth)).
Proof.
  intros window objs order dsz st ord Hd Hs H. pose proof maxDepth_pos as HM. unfold select in H. destruct window as [|w].
  - injection H as <- <-. exists (fun _ => false). split; [intros u b Hb; discriminate | intros u; cbn; lia].
  - destruct (fix_all objs (seq 0 (List.length objs)) (init_state objs)) as [st0|] eqn:Ef; [|discriminate].
    destruct (is_perm (List.length objs) order && sorted_by objs st0 order) eqn:E; [|discriminate].
    cbn [negb] in H. injection H as <- <-.
    apply andb_true_iff in E. destruct E as [Ep _]. destruct (is_perm_spec _ _ Ep) as [Hnd Hin].
    assert (H0 : reuse_ok objs (init_state objs)).
    { split; [intros u b Hb; discriminate|]. split; [intros u; apply Hs|]. split; intros; cbn; [lia | reflexivity]. }
    pose proof (fix_all_ok _ _ _ _ H0 Ef) as [R0 [Z0 [D0 D1]]].
    assert (K0 : KINV st0 order st0).
    { split; [|split; [exact Z0 | exact D0]]. intros u. destruct (sb st0 u) as [b0|] eqn:Eb; [reflexivity|].
      split; [intros b Hb; discriminate | rewrite (D1 u Eb); lia]. }
    assert (Hgs : forall g, In g (groups objs order []) -> incl g order).
    { intros g Hg x Hx. assert (Hc : In x (List.concat (groups objs order []))) by (apply in_concat; exists g; auto).
      rewrite groups_concat in Hc. exact Hc. }
    pose proof (groups_K objs dsz Hd st0 order (S w) _ st0 Hgs K0) as [K [_ D]].
    exists (fun u => match sb st0 u with Some _ => true | None => false end). split.
    + intros u b Hb. specialize (K u). destruct (sb st0 u) as [b0|] eqn:Eb.
      * rewrite K in Hb. injection Hb as <-. destruct (R0 u b0 Eb) as [bk [asz [E1 [E2 E3]]]].
        split; [apply Hin; exact E2|]. intros _. exists bk, asz. auto.
      * destruct K as [K1 _]. split; [now apply K1 | discriminate].
    + intros u. split; [apply D|]. specialize (K u). destruct (sb st0 u); [discriminate | intros _; apply K].
Qed.
