(* Proofs/C10Mmap.v — mmap.PackScanner (Model/Idx.v, the scan_ functions) loaded
   on git's idx layout of a well-formed table: load succeeds, FindOffset
   answers like the map (sort.Search lower bound + equality check, 32/64-bit
   offsets with the trailer bound). *)
From Coq Require Import List NArith ZArith Bool Lia ZifyBool ZifyNat ZifyN Sorting.Sorted.
From GoGit Require Import Base.Out Base.GoInt Model.PackBytes Model.Idx Spec.IdxFormat
  Proofs.C10Search Proofs.C10Order Proofs.C10Bytes Proofs.C10Table Proofs.C10Layout Proofs.C10Lazy.
Import ListNotations.
Local Open Scope N_scope.
Ltac Zify.zify_post_hook ::= Z.div_mod_to_equations.

Section Mmap.
Variable hs : nat.
Variable H : bytes -> bytes.
Variable tbl : list entry.
Variable pack rev : bytes.
Hypothesis WF : wf_tbl hs tbl.
Hypothesis Hpack : List.length pack = hs.
Hypothesis Hrev : exists hf t, rev = ([82; 73; 68; 88] ++ be32 1 ++ hf) ++ t /\ List.length hf = 4%nat.
Hypothesis Hrev16 : 16 <= blen rev.
Hypothesis Hhs20 : (20 <= hs)%nat.

Let n : N := N.of_nat (List.length tbl).
Let HS : N := N.of_nat hs.
Let file := idx_file H tbl pack.
Set Default Proof Using "hs H tbl pack rev WF Hpack Hrev Hrev16 Hhs20".

Let FileEq := file_eq hs H tbl pack WF Hpack.
Let RName := read_name hs H tbl pack WF Hpack.
Let RCode := read_code hs H tbl pack WF Hpack.
Let RBig := read_big hs H tbl pack WF Hpack.
Let CodeLt := code_lt hs H tbl pack WF Hpack.
Let CodeSmall := code_small hs H tbl pack WF Hpack.
Let CodeBig := code_big hs H tbl pack WF Hpack.
Let CountAll := count_all hs H tbl pack WF Hpack.
Let FanNth := fanout_nth hs H tbl pack WF Hpack.
Let BFan := blen_FAN hs H tbl pack WF Hpack.
Let BNames := blen_NAMES hs H tbl pack WF Hpack.
Let BCrc := blen_CRC hs H tbl pack WF Hpack.
Let BO32 := blen_O32 hs H tbl pack WF Hpack.
Let BO64 := blen_O64 hs H tbl pack WF Hpack.
Let BPack := blen_pack hs H tbl pack WF Hpack.
Let BucketRange := bucket_range hs H tbl pack rev WF Hpack Hrev.
Let LookupNth := lookup_nth hs H tbl pack rev WF Hpack Hrev.
Let LookupNone := lookup_none hs H tbl pack rev WF Hpack Hrev.
Let HashSorted := hash_at_sorted hs H tbl pack rev WF Hpack Hrev.
Let FLeN := F_le_n hs H tbl pack rev WF Hpack Hrev.

Lemma blen_file : blen file = 1032 + n * HS + n * 4 + n * 4 + n_big tbl * 8 + HS + blen (S_SUM H tbl pack).
Proof.
  unfold file. rewrite FileEq, !blen_app, BFan, BNames, BCrc, BO32, BO64, BPack.
  change (blen S_HDRB) with 8. unfold n, HS. lia.
Qed.

Section WithSum.
(* the digest has the size of an object id *)
Hypothesis Hsum : blen (S_SUM H tbl pack) = HS.
Set Default Proof Using "hs H tbl pack rev WF Hpack Hrev Hrev16 Hhs20 Hsum".

Definition the_scanner : scanner :=
  mkSc file rev n 1032 (1032 + n * HS) (1032 + n * HS + n * 4) (1032 + n * HS + n * 4 + n * 4)
       (blen file - 2 * HS).

Lemma trailer_eq : blen file - 2 * HS = 1032 + n * HS + n * 4 + n * 4 + n_big tbl * 8.
Proof. rewrite blen_file, Hsum. lia. Qed.

(* fanout[i] read straight from the mapped file *)
Lemma fan_slice i : (i < 256)%nat ->
  get32 (slice file (8 + 4 * N.of_nat i) 4) = F tbl i.
Proof.
  intros Hi. unfold file. rewrite FileEq.
  replace (8 + 4 * N.of_nat i) with (blen S_HDRB + N.of_nat i * 4) by (change (blen S_HDRB) with 8; lia).
  unfold S_FAN at 1.
  rewrite (record_at be32 4 (fanout_of tbl) S_HDRB _ (N.of_nat i) 0);
    [|apply blen_be32|rewrite (fanout_length hs H tbl pack WF Hpack); lia].
  rewrite Nat2N.id, FanNth by assumption.
  rewrite get32_be32'; [reflexivity|].
  pose proof (count_le_le tbl (N.of_nat i)). pose proof (wf_count _ _ WF). unfold F. lia.
Qed.

Lemma scan_load_ok : scan_load hs file rev = Ok the_scanner.
Proof.
  unfold scan_load.
  assert (V1 : valid_file rev S_REVVER S_REVSIG S_REVMIN = true).
  { destruct Hrev as (hf & t & -> & Hl). unfold valid_file.
    change S_REVMIN with 16. replace (16 <=? blen _) with true by (symmetry; apply N.leb_le; exact Hrev16).
    reflexivity. }
  rewrite V1. cbn [negb].
  assert (V2 : valid_file file S_IDXVER S_IDXSIG S_IDXMIN = true).
  { unfold valid_file. change S_IDXMIN with 1072.
    replace (1072 <=? blen file) with true by (symmetry; apply N.leb_le; rewrite blen_file, Hsum; unfold HS; lia).
    unfold file. rewrite FileEq. reflexivity. }
  rewrite V2. cbn [negb].
  change (S_HDR + S_FANOUT) with 1032. change Idx.S_CRC with 4. change S_OFF32 with 4.
  assert (Ecount : get32 (skipn (N.to_nat (1032 - 4)) file) = n).
  { replace (skipn (N.to_nat (1032 - 4)) file) with (skipn (N.to_nat (8 + 4 * N.of_nat 255)) file) by reflexivity.
    pose proof (fan_slice 255 ltac:(lia)) as Hf. unfold slice in Hf.
    assert (G : forall l : bytes, get32 (firstn (N.to_nat 4) l) = get32 l).
    { intros l. destruct l as [|a [|b [|c [|d l']]]]; reflexivity. }
    rewrite G in Hf. rewrite Hf. unfold F. change (N.of_nat 255) with 255. exact CountAll. }
  rewrite Ecount. fold HS.
  replace (blen file - 2 * HS <? 1032 + n * HS + n * 4 + n * 4) with false by (rewrite trailer_eq; lia).
  reflexivity.
Qed.

Lemma scan_fanout_ok i : (i < 256)%nat -> scan_fanout the_scanner i = F tbl i.
Proof.
  intros Hi. unfold scan_fanout. replace (Nat.ltb i 256) with true by (symmetry; apply Nat.ltb_lt; exact Hi).
  cbn [s_idx]. change S_HDR with 8. now apply fan_slice.
Qed.

Lemma name_slice i : i < n -> slice file (1032 + i * HS) HS = e_hash (nth (N.to_nat i) tbl d0).
Proof.
  intros Hi. pose proof (RName i Hi) as R. apply read_at_some in R. destruct R as [_ R]. now symmetry.
Qed.

Lemma scan_offset_ok i : i < n -> scan_offset the_scanner i = Ok (e_off (nth (N.to_nat i) tbl d0)).
Proof.
  intros Hi. unfold scan_offset, the_scanner. cbn [s_idx s_off32 s_off64 s_trailer].
  change S_OFF32 with 4. change S_OFF64 with 8. change S_MASK with P31.
  pose proof (RCode i Hi) as Rc. apply read_at_some in Rc. destruct Rc as [Rb Rc].
  fold file in Rb, Rc. fold n in Rb, Rc. fold HS in Rb, Rc.
  replace (blen file <? 1032 + n * HS + n * 4 + i * 4 + 4) with false by lia.
  rewrite <- Rc.
  pose proof (CodeLt i Hi) as Hc.
  rewrite get32_be32' by exact Hc. rewrite land_mask31 by exact Hc.
  destruct (is_big (nth (N.to_nat i) tbl d0)) eqn:Eb.
  - destruct (CodeBig i Hi Eb) as (j & Ej & Hj & Hj31 & Ev). rewrite Ej.
    replace (j + 2147483648 <? P31) with false by (unfold P31; lia).
    replace (P31 =? 0) with false by reflexivity.
    rewrite ldiff_mask31 by (unfold P31 in *; lia).
    replace ((j + 2147483648) mod P31) with j by (unfold P31; lia).
    rewrite trailer_eq.
    replace (1032 + n * HS + n * 4 + n * 4 + n_big tbl * 8 <? 1032 + n * HS + n * 4 + n * 4 + j * 8 + 8) with false by lia.
    pose proof (RBig j Hj) as Rg. apply read_at_some in Rg. destruct Rg as [_ Rg].
    fold file in Rg. fold n in Rg. fold HS in Rg. rewrite <- Rg.
    rewrite <- (app_nil_r (be64 _)). rewrite get64_be64; [now rewrite Ev|].
    rewrite Ev. apply (wf_off _ _ WF). apply nth_In. unfold n in Hi. lia.
  - destruct (CodeSmall i Hi Eb) as [Ec Hs]. rewrite Ec.
    replace (e_off (nth (N.to_nat i) tbl d0) <? P31) with true by (unfold P31; lia). reflexivity.
Qed.

(* compareObjectID on the mapped names table *)
Lemma scan_below_ok h i : blen h = HS -> i < n ->
  scan_name_below the_scanner h i = is_lt (bytes_cmp (e_hash (nth (N.to_nat i) tbl d0)) h).
Proof.
  intros Hh Hi. unfold scan_name_below, the_scanner. cbn [s_crcs s_names s_idx]. rewrite Hh.
  replace (1032 + n * HS - 1032 <? i * HS + HS) with false by nia.
  now rewrite name_slice.
Qed.

Lemma scan_eq_ok h i : blen h = HS -> i < n ->
  scan_name_eq the_scanner h i = bytes_eqb (e_hash (nth (N.to_nat i) tbl d0)) h.
Proof.
  intros Hh Hi. unfold scan_name_eq, the_scanner. cbn [s_crcs s_names s_idx]. rewrite Hh.
  replace (1032 + n * HS - 1032 <? i * HS + HS) with false by nia.
  now rewrite name_slice.
Qed.

Theorem scan_find_offset_map h : wf_hash hs h ->
  scan_find_offset the_scanner h =
    match lookup tbl h with Some e => Ok (e_off e) | None => Err ENotFound end.
Proof.
  intros Hh. pose proof (first_byte_lt hs H tbl pack rev WF Hpack Hrev h Hh) as Hf.
  assert (Hbl : blen h = HS) by (destruct Hh as [Hl _]; unfold blen, HS; now rewrite Hl).
  unfold scan_find_offset.
  rewrite !scan_fanout_ok by lia.
  set (lo := if Nat.eqb (first_byte h) 0 then 0 else F tbl (first_byte h - 1)).
  set (hi := F tbl (first_byte h)).
  cbn [s_crcs s_names the_scanner]. rewrite Hbl.
  assert (Hout : forall i, i < n -> e_hash (nth (N.to_nat i) tbl d0) = h -> lo <= i < hi).
  { intros i Hi E. apply (BucketRange i (first_byte h) Hi Hf).
    unfold first_of. rewrite E. unfold first_byte. destruct Hh as [_ Hb].
    destruct h as [|b r]; cbn; [reflexivity|]. specialize (Hb b (or_introl eq_refl)). lia. }
  assert (Hnone : (forall i, lo <= i -> i < hi -> e_hash (nth (N.to_nat i) tbl d0) <> h) -> lookup tbl h = None).
  { intros Hno. apply LookupNone. intros e He E. destruct (In_nth tbl e d0 He) as (k & Hk & Ek).
    assert (Hkn : N.of_nat k < n) by (unfold n; lia).
    specialize (Hout (N.of_nat k) Hkn). rewrite Nat2N.id, Ek in Hout. specialize (Hout E).
    apply (Hno (N.of_nat k)); try lia. now rewrite Nat2N.id, Ek. }
  pose proof (FLeN (first_byte h)) as Hhn. fold hi in Hhn. fold n in Hhn.
  destruct (1032 + n * HS - 1032 <? HS) eqn:Eempty.
  - (* no objects at all *)
    assert (n = 0) by (pose proof (wf_hs _ _ WF); unfold HS in *; nia).
    rewrite Hnone; [reflexivity|]. intros i Hi Hj. lia.
  - destruct (lo <? hi) eqn:Elh.
    + assert (Sp : lb_spec (fun i => Some (scan_name_below the_scanner h i)) lo hi
                     (lower_bound (bs_fuel lo hi) (fun i => Some (scan_name_below the_scanner h i)) lo hi)).
      { apply lower_bound_fuel; [lia| |].
        - intros i j Hi Hij Hj Eb. f_equal. injection Eb as Eb.
          rewrite scan_below_ok in * by (try assumption; lia).
          destruct (N.eq_dec i j) as [->|Hne]; [exact Eb|].
          assert (Hs := HashSorted i j ltac:(lia) ltac:(lia)).
          unfold is_lt in *. destruct (bytes_cmp (e_hash (nth (N.to_nat j) tbl d0)) h) eqn:Cj; try discriminate.
          now rewrite (bytes_cmp_trans _ _ _ Hs Cj).
        - intros i Hi Hj. discriminate. }
      destruct (lower_bound _ _ lo hi) as [k| | |]; cbn in Sp; try contradiction.
      destruct Sp as (Hk & Hbelow & Habove).
      destruct (k <? hi) eqn:Ekh; cbn [andb].
      * rewrite scan_eq_ok by (try assumption; lia).
        destruct (bytes_eqb (e_hash (nth (N.to_nat k) tbl d0)) h) eqn:Eeq.
        -- apply bytes_eqb_eq in Eeq. rewrite scan_offset_ok by lia. now rewrite <- Eeq, LookupNth by lia.
        -- rewrite Hnone; [reflexivity|]. intros i Hi Hj E.
           destruct (N.lt_ge_cases i k) as [L|G].
           ++ specialize (Hbelow i Hi L). injection Hbelow as Hb. rewrite scan_below_ok in Hb by (try assumption; lia).
              rewrite E, bytes_cmp_refl in Hb. discriminate.
           ++ apply bytes_eqb_neq in Eeq. destruct (N.eq_dec i k) as [->|Hne]; [contradiction|].
              assert (Hs := HashSorted k i ltac:(lia) ltac:(lia)). rewrite E in Hs.
              specialize (Habove k ltac:(lia) ltac:(lia)). injection Habove as Ha.
              rewrite scan_below_ok in Ha by (try assumption; lia).
              unfold is_lt in Ha. rewrite Hs in Ha. discriminate.
      * rewrite Hnone; [reflexivity|]. intros i Hi Hj E.
        specialize (Hbelow i Hi ltac:(lia)). injection Hbelow as Hb. rewrite scan_below_ok in Hb by (try assumption; lia).
        rewrite E, bytes_cmp_refl in Hb. discriminate.
    + replace (lo <? hi) with false by lia. cbn [andb].
      rewrite Hnone; [reflexivity|]. intros; lia.
Qed.

End WithSum.
End Mmap.
