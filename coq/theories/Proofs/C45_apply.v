(* Proofs/C45_apply.v — algebra of the strict hunk application (Spec/HunkApply.v). *)
From Coq Require Import List NArith ZArith Bool Arith Lia.
From GoGit Require Import Base.Out Model.Unified Spec.HunkApply.
Import ListNotations.

Lemma line_eqb_refl l : line_eqb l l = true.
Proof. induction l; cbn; [reflexivity|]. now rewrite N.eqb_refl. Qed.

Definition oldside (ops : list (dop * line)) : list line :=
  flat_map (fun o => match fst o with Add => [] | _ => [snd o] end) ops.
Definition newside (ops : list (dop * line)) : list line :=
  flat_map (fun o => match fst o with Delete => [] | _ => [snd o] end) ops.

Lemma oldside_app a b : oldside (a ++ b) = oldside a ++ oldside b.
Proof. apply flat_map_app. Qed.
Lemma newside_app a b : newside (a ++ b) = newside a ++ newside b.
Proof. apply flat_map_app. Qed.

Lemma oldside_map t ls : oldside (map (fun l => (t, l)) ls) = match t with Add => [] | _ => ls end.
Proof. induction ls as [|l ls IH]; [now destruct t|]. cbn [map]. unfold oldside in *. cbn [flat_map fst snd]. rewrite IH. now destruct t. Qed.
Lemma newside_map t ls : newside (map (fun l => (t, l)) ls) = match t with Delete => [] | _ => ls end.
Proof. induction ls as [|l ls IH]; [now destruct t|]. cbn [map]. unfold newside in *. cbn [flat_map fst snd]. rewrite IH. now destruct t. Qed.

(* a hunk body replays on its own old side *)
Lemma run_ops_self ops X :
  run_ops ops (oldside ops ++ X) = Some (newside ops, X, length (oldside ops), length (newside ops)).
Proof.
  induction ops as [|[t l] r IH]; [reflexivity|].
  destruct t; cbn [run_ops oldside newside flat_map fst snd app].
  - fold (oldside r). fold (newside r). cbn [app]. rewrite line_eqb_refl, IH. reflexivity.
  - fold (oldside r). fold (newside r). cbn [app]. rewrite IH. reflexivity.
  - fold (oldside r). fold (newside r). cbn [app]. rewrite line_eqb_refl, IH. reflexivity.
Qed.

Lemma run_ops_ext ops : forall old em rest nf nt X,
  run_ops ops old = Some (em, rest, nf, nt) -> run_ops ops (old ++ X) = Some (em, rest ++ X, nf, nt).
Proof.
  induction ops as [|[t l] r IH]; intros old em rest nf nt X H.
  - cbn in *. inversion H; subst. reflexivity.
  - destruct t; cbn [run_ops] in *.
    + destruct old as [|o old']; [discriminate|]. cbn [app].
      destruct (line_eqb o l); [|discriminate].
      destruct (run_ops r old') as [[[[em' rest'] nf'] nt']|] eqn:Hr; [|discriminate].
      rewrite (IH _ _ _ _ _ X Hr). inversion H; subst. reflexivity.
    + destruct (run_ops r old) as [[[[em' rest'] nf'] nt']|] eqn:Hr; [|discriminate].
      rewrite (IH _ _ _ _ _ X Hr). inversion H; subst. reflexivity.
    + destruct old as [|o old']; [discriminate|]. cbn [app].
      destruct (line_eqb o l); [|discriminate].
      destruct (run_ops r old') as [[[[em' rest'] nf'] nt']|] eqn:Hr; [|discriminate].
      rewrite (IH _ _ _ _ _ X Hr). inversion H; subst. reflexivity.
Qed.

Lemma apply_pref_ext hs : forall kf kt old o kf' kt' r X,
  apply_pref hs kf kt old = Some (o, kf', kt', r) ->
  apply_pref hs kf kt (old ++ X) = Some (o, kf', kt', r ++ X).
Proof.
  induction hs as [|h hs IH]; intros kf kt old o kf' kt' r X H.
  - cbn in *. inversion H; subst. reflexivity.
  - cbn [apply_pref] in *. cbv zeta in *.
    destruct (start_index (h_from h) (h_fromc h) <? kf)%Z; [discriminate|].
    set (gap := Z.to_nat (start_index (h_from h) (h_fromc h) - kf)) in *.
    destruct (Nat.ltb (length old) gap) eqn:Hg; [discriminate|]. apply Nat.ltb_ge in Hg.
    assert (Hg' : Nat.ltb (length (old ++ X)) gap = false) by (apply Nat.ltb_ge; rewrite app_length; lia).
    rewrite Hg'.
    destruct (negb (start_index (h_to h) (h_toc h) =? kt + (start_index (h_from h) (h_fromc h) - kf))%Z); [discriminate|].
    rewrite skipn_app, firstn_app. replace (gap - length old)%nat with O by lia. cbn [skipn firstn]. rewrite app_nil_r.
    destruct (run_ops (h_ops h) (skipn gap old)) as [[[[em rest] nf] nt]|] eqn:Hr; [|discriminate].
    rewrite (run_ops_ext _ _ _ _ _ _ X Hr).
    destruct ((Z.of_nat nf =? h_fromc h)%Z && (Z.of_nat nt =? h_toc h)%Z); [|discriminate].
    destruct (apply_pref hs _ _ rest) as [[[[out kf2] kt2] rest2]|] eqn:Ha; [|discriminate].
    rewrite (IH _ _ _ _ _ _ _ X Ha). inversion H; subst. reflexivity.
Qed.

Lemma apply_pref_app hs1 : forall hs2 kf kt old,
  apply_pref (hs1 ++ hs2) kf kt old =
  match apply_pref hs1 kf kt old with
  | Some (o1, kf1, kt1, r1) =>
    match apply_pref hs2 kf1 kt1 r1 with
    | Some (o2, kf2, kt2, r2) => Some (o1 ++ o2, kf2, kt2, r2)
    | None => None
    end
  | None => None
  end.
Proof.
  induction hs1 as [|h hs1 IH]; intros hs2 kf kt old.
  - cbn. destruct (apply_pref hs2 kf kt old) as [[[[o2 kf2] kt2] r2]|]; reflexivity.
  - cbn [app apply_pref]. cbv zeta.
    destruct (start_index (h_from h) (h_fromc h) <? kf)%Z; [reflexivity|].
    destruct (Nat.ltb (length old) (Z.to_nat (start_index (h_from h) (h_fromc h) - kf))); [reflexivity|].
    destruct (negb (start_index (h_to h) (h_toc h) =? kt + (start_index (h_from h) (h_fromc h) - kf))%Z); [reflexivity|].
    destruct (run_ops (h_ops h) (skipn (Z.to_nat (start_index (h_from h) (h_fromc h) - kf)) old)) as [[[[em rest] nf] nt]|]; [|reflexivity].
    destruct ((Z.of_nat nf =? h_fromc h)%Z && (Z.of_nat nt =? h_toc h)%Z); [|reflexivity]. rewrite IH.
    destruct (apply_pref hs1 _ _ rest) as [[[[o1 kf1] kt1] r1]|]; [|reflexivity].
    destruct (apply_pref hs2 kf1 kt1 r1) as [[[[o2 kf2] kt2] r2]|]; [|reflexivity].
    now rewrite !app_assoc.
Qed.

(* one hunk that sits where the cursor plus a gap of copied lines says *)
Lemma apply_one h kf kt gapl X :
  start_index (h_from h) (h_fromc h) = (kf + Z.of_nat (length gapl))%Z ->
  start_index (h_to h) (h_toc h) = (kt + Z.of_nat (length gapl))%Z ->
  h_fromc h = Z.of_nat (length (oldside (h_ops h))) ->
  h_toc h = Z.of_nat (length (newside (h_ops h))) ->
  apply_pref [h] kf kt (gapl ++ oldside (h_ops h) ++ X) =
  Some (gapl ++ newside (h_ops h),
        (kf + Z.of_nat (length gapl) + Z.of_nat (length (oldside (h_ops h))))%Z,
        (kt + Z.of_nat (length gapl) + Z.of_nat (length (newside (h_ops h))))%Z, X).
Proof.
  intros Hf Ht Hfc Htc. cbn [apply_pref]. cbv zeta. rewrite Hf, Ht.
  replace (kf + Z.of_nat (length gapl) <? kf)%Z with false by (symmetry; apply Z.ltb_ge; lia).
  replace (kf + Z.of_nat (length gapl) - kf)%Z with (Z.of_nat (length gapl)) by lia.
  rewrite Nat2Z.id.
  replace (Nat.ltb (length (gapl ++ oldside (h_ops h) ++ X)) (length gapl)) with false
    by (symmetry; apply Nat.ltb_ge; rewrite app_length; lia).
  rewrite Z.eqb_refl. cbn [negb].
  rewrite skipn_app, Nat.sub_diag, skipn_all. cbn [skipn app].
  rewrite run_ops_self, <- Hfc, <- Htc, !Z.eqb_refl. cbn [andb apply_pref].
  rewrite firstn_app, Nat.sub_diag, firstn_all. cbn [firstn]. rewrite !app_nil_r.
  rewrite Hfc, Htc. reflexivity.
Qed.

(* closing a hunk after hunks that consumed obase exactly *)
Lemma apply_close hs h obase outp gapl X :
  apply_pref hs 0 0 obase = Some (outp, Z.of_nat (length obase), Z.of_nat (length outp), []) ->
  start_index (h_from h) (h_fromc h) = Z.of_nat (length obase + length gapl) ->
  start_index (h_to h) (h_toc h) = Z.of_nat (length outp + length gapl) ->
  h_fromc h = Z.of_nat (length (oldside (h_ops h))) ->
  h_toc h = Z.of_nat (length (newside (h_ops h))) ->
  apply_pref (hs ++ [h]) 0 0 ((obase ++ gapl ++ oldside (h_ops h)) ++ X) =
  Some (outp ++ gapl ++ newside (h_ops h),
        Z.of_nat (length (obase ++ gapl ++ oldside (h_ops h))),
        Z.of_nat (length (outp ++ gapl ++ newside (h_ops h))), X).
Proof.
  intros Hb Hf Ht Hfc Htc. rewrite apply_pref_app.
  rewrite <- !app_assoc.
  rewrite (apply_pref_ext _ _ _ _ _ _ _ _ (gapl ++ oldside (h_ops h) ++ X) Hb). cbn [app].
  rewrite (apply_one h _ _ gapl X); [ | rewrite Hf; lia | rewrite Ht; lia | exact Hfc | exact Htc ].
  rewrite !app_length. repeat f_equal; lia.
Qed.

(* ---------- split_lines *)
Lemma split_lines_concat s : concat (split_lines s) = s.
Proof.
  induction s as [|c r IH]; [reflexivity|]. cbn [split_lines].
  destruct (N.eqb c LF); [cbn; now rewrite IH|].
  destruct (split_lines r) as [|l ls]; cbn in *; [now rewrite <- IH|]. now rewrite <- IH.
Qed.

Lemma split_lines_nonempty s : s <> [] -> split_lines s <> [].
Proof.
  destruct s as [|c r]; [congruence|]. intros _. cbn [split_lines].
  destruct (N.eqb c LF); [discriminate|]. destruct (split_lines r); discriminate.
Qed.
