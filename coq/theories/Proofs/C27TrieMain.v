(* Proofs/C27TrieMain.v — assembling Proofs/C27Trie.v: status_rec = status of the flattened state. *)
From Coq Require Import List NArith ZArith Bool Arith Lia.
From GoGit Require Import Base.Out Model.Status Model.StatusTrie Spec.GitStatus Spec.GitStatusTrie Proofs.C27 Proofs.C27Trie.
From GoGit Require Model.DiffTree Spec.MapDiff Proofs.C44_order Proofs.C44_diff Proofs.C44_spec Proofs.C44_nodup Proofs.C44_paths.
Import ListNotations.
Local Open Scope N_scope.

(* names distinct per directory, names non-empty and free of '/', HEAD leaves well-formed *)
Definition ts_wf (ts : tstate) : bool :=
  MapDiff.tree_ok (ts_head ts) && MapDiff.tree_ok (ts_index ts) && MapDiff.tree_ok (ts_wt ts) &&
  C44_paths.names_ok (ts_head ts) && C44_paths.names_ok (ts_index ts) && C44_paths.names_ok (ts_wt ts) &&
  forallb (fun pl => head_leaf_ok (snd pl)) (fl (ts_head ts)).

Lemma ffm_ext f g pre m : (forall p l, f p l = g p l) -> ffm f pre m = ffm g pre m.
Proof. intros H. unfold ffm. apply flat_map_ext. intros [p l]. cbn [fst snd]. now rewrite H. Qed.

Lemma ffm_id f m : (forall p l, In (p, l) m -> f p l = Some l) -> ffm f [] m = m.
Proof.
  induction m as [|[p l] m IH]; intros H; [reflexivity|].
  unfold ffm in *. cbn [flat_map fst snd app]. rewrite (H p l (or_introl eq_refl)). cbn [app]. f_equal.
  apply IH. intros p' l' Hi. apply H. now right.
Qed.

Lemma listing_ext m1 m2 ps : (forall q, sget m1 q = sget m2 q) -> listing m1 ps = listing m2 ps.
Proof. intros H. unfold listing. apply flat_map_ext. intros p. now rewrite H. Qed.

Lemma paths_ok_fl t : C44_paths.names_ok t = true -> paths_ok (fl t).
Proof. intros H p l Hi. eapply C44_paths.flatten_paths_ok; eassumption. Qed.

Lemma keys_fl t : MapDiff.tree_ok t = true -> C44_spec.keys_unique (fl t).
Proof. apply C44_spec.flatten_keys_unique. Qed.

Section Main.
Variables (ts : tstate) (ig : dpath -> bool).
Hypothesis WF : ts_wf ts = true.

Let s := flat_of ts ig.
Let s0 := flat_of ts (fun _ => false).
Let XH := fl (ts_head ts).
Let XI := fl (ts_index ts).
Let XW := fl (ts_wt ts).

Definition hxH (pl : dpath * dleaf) : nhash := tnode_hash (dec_t pl).
Definition hyI (uphold : bool) (pl : dpath * dleaf) : option nhash := Some (inode_hash uphold (dec_i pl)).
Definition hxI (uphold : bool) (pl : dpath * dleaf) : nhash := inode_hash uphold (dec_i pl).
Definition hyW (pl : dpath * dleaf) : option nhash :=
  let f := dec_w ts (fun _ => false) pl in
  if wt_visible s0 f then Some (wnode_hash s0 f) else None.

Lemma wf_parts :
  MapDiff.tree_ok (ts_head ts) = true /\ MapDiff.tree_ok (ts_index ts) = true /\ MapDiff.tree_ok (ts_wt ts) = true /\
  C44_paths.names_ok (ts_head ts) = true /\ C44_paths.names_ok (ts_index ts) = true /\ C44_paths.names_ok (ts_wt ts) = true /\
  forallb (fun pl => head_leaf_ok (snd pl)) (fl (ts_head ts)) = true.
Proof.
  pose proof WF as W. unfold ts_wf in W. do 6 (apply andb_true_iff in W as [W ?]). repeat split; assumption.
Qed.

Lemma left_is_chg q : left_change s q = chg XH XI hxH (hyI true) q.
Proof.
  unfold left_change, chg, s, flat_of. cbn [st_head st_index]. rewrite find_t_dec, find_i_dec.
  fold XH XI. destruct (find_j XH q), (find_j XI q); reflexivity.
Qed.

Lemma right_is_chg q : right_change s q = chg XI XW (hxI (ts_filemode ts)) hyW q.
Proof.
  unfold right_change, chg, s, flat_of. cbn [st_index st_wt st_filemode]. rewrite find_i_dec, find_w_dec.
  fold XI XW. destruct (find_j XI q), (find_j XW q); reflexivity.
Qed.

Lemma head_as_ffm : ffm (fun p l => Some (enc (hxH (p, l)))) [] XH = XH.
Proof.
  destruct wf_parts as (_ & _ & _ & _ & _ & _ & HL). rewrite forallb_forall in HL.
  apply ffm_id. intros p l Hi. f_equal. apply head_leaf_enc. apply (HL (p, l) Hi).
Qed.

Lemma index_as_ffm u : fl (index_tree ts u) = ffm (fun p l => option_map enc (hyI u (p, l))) [] XI.
Proof. unfold index_tree. rewrite files_tfm. reflexivity. Qed.

Lemma index_as_ffm' u : fl (index_tree ts u) = ffm (fun p l => Some (enc (hxI u (p, l)))) [] XI.
Proof. unfold index_tree. rewrite files_tfm. reflexivity. Qed.

Lemma wt_as_ffm : fl (fs_tree ts) = ffm (fun p l => option_map enc (hyW (p, l))) [] XW.
Proof.
  unfold fs_tree. rewrite files_tfm. apply ffm_ext. intros p l. unfold f_wt, hyW. fold s0.
  destruct (wt_visible s0 (dec_w ts (fun _ => false) (p, l))); reflexivity.
Qed.

(* one walk, as a change list characterised per joined path *)
Lemma walk_char (X Y : list (dpath * dleaf)) hx hy a b :
  paths_ok X -> paths_ok Y -> C44_spec.keys_unique X -> C44_spec.keys_unique Y ->
  MapDiff.tree_ok a = true -> MapDiff.tree_ok b = true ->
  fl a = ffm (fun p l => Some (enc (hx (p, l)))) [] X ->
  fl b = ffm (fun p l => option_map enc (hy (p, l))) [] Y ->
  exists cs, DiffTree.difftree a b = Some cs /\
             NoDup (map fst (map change_of cs)) /\
             forall q, assoc q (map change_of cs) = chg X Y hx hy q.
Proof.
  intros HpX HpY HkX HkY Ha Hb Ea Eb.
  destruct (C44_spec.difftree_spec a b Ha Hb) as (cs & Hd & Hs).
  unfold MapDiff.flatten in Hs. fold (fl a) (fl b) in Hs. rewrite Ea, Eb in Hs.
  exists cs. split; [exact Hd|].
  assert (Hn : NoDup (map fst (map change_of cs))).
  { rewrite map_map. apply NoDup_map_in; [exact (C44_nodup.difftree_nodup a b cs Ha Hb Hd)|].
    intros c c' Hc Hc' E. apply Hs in Hc, Hc'.
    eapply (spec_same_path X Y hx hy HpX HpY HkX HkY); eassumption. }
  split; [exact Hn|].
  apply assoc_char; [exact Hn|]. intros q act. split.
  - intros Hi. apply in_map_iff in Hi as (c & Ec & Hc). apply Hs in Hc.
    pose proof (spec_to_chg X Y hx hy HpX HpY HkX HkY c Hc) as H. rewrite Ec in H. exact H.
  - intros Hq. destruct (chg_to_spec X Y hx hy HpX HpY HkY q act Hq) as (c & Hc & Ec).
    apply in_map_iff. exists c. split; [exact Ec|]. now apply Hs.
Qed.

Lemma status_rec_flat ps : status_rec ts ps = Some (status s ps).
Proof.
  destruct wf_parts as (TH & TI & TW & NH & NI & NW & HL).
  pose proof (paths_ok_fl _ NH) as PH. pose proof (paths_ok_fl _ NI) as PI. pose proof (paths_ok_fl _ NW) as PW.
  pose proof (keys_fl _ TH) as KH. pose proof (keys_fl _ TI) as KI. pose proof (keys_fl _ TW) as KW.
  destruct (walk_char XH XI hxH (hyI true) (ts_head ts) (index_tree ts true) PH PI KH KI TH
              (tree_ok_tfm _ _ TI) (eq_sym head_as_ffm) (index_as_ffm true)) as (csL & DL & NL & CL).
  destruct (walk_char XI XW (hxI (ts_filemode ts)) hyW (index_tree ts (ts_filemode ts)) (fs_tree ts) PI PW KI KW
              (tree_ok_tfm _ _ TI) (tree_ok_tfm _ _ TW) (index_as_ffm' _) wt_as_ffm) as (csR & DR & NR & CR).
  unfold status_rec. rewrite DL, DR. f_equal. unfold status. apply listing_ext. intros q.
  rewrite status_map_get. unfold fold_status.
  rewrite fold_right_gen by exact NR. unfold sfile. rewrite fold_left_gen by exact NL.
  rewrite CL, CR, <- left_is_chg, <- right_is_chg. cbn [sget].
  destruct (left_change s q), (right_change s q); reflexivity.
Qed.

End Main.

(* git's listing of the tree-shaped state *)
Lemma git_status_noskip ts ps : ts_skip ts = [] -> git_status_ts ts ps = git_status (flat_git ts) ps.
Proof.
  intros H. unfold git_status_ts, git_status. apply flat_map_ext. intros p.
  unfold git_records_ts, git_records. rewrite H. reflexivity.
Qed.

Lemma status_rec_git ts ps :
  ts_wf ts = true -> ts_skip ts = [] -> forallb (ok_path (flat_git ts)) ps = true ->
  status_rec ts ps = Some (git_status_ts ts ps).
Proof.
  intros W K G. unfold flat_git in *. rewrite (status_rec_flat ts (ign_git ts) W ps).
  rewrite git_status_noskip by exact K. f_equal. now apply status_eq_git.
Qed.
