(* Proofs/C31Writers.v — the two EOL writers: what one Write call emits and
   returns, and when the emitted stream depends on the concatenation only. *)
From Coq Require Import List NArith Arith Lia Bool ZifyBool ZifyNat ZifyN.
From GoGit Require Import Base.Out Model.Eol Spec.GitConvert Proofs.C31Stat.
Import ListNotations.
Local Open Scope N_scope.

(* ------------------------------------------------------------ generic *)

Lemma last_app_ne (A : Type) (a b : list A) d : b <> [] -> last (a ++ b) d = last b d.
Proof.
  intros Hb. induction a as [|x a IH]; [reflexivity|].
  cbn [app last]. destruct (a ++ b) eqn:E; [|exact IH].
  apply app_eq_nil in E as [_ E]. congruence.
Qed.

Lemma last_cons_ne (A : Type) (x : A) l d : l <> [] -> last (x :: l) d = last l d.
Proof. destruct l; [congruence|reflexivity]. Qed.

(* ------------------------------------------------------------ crlfToLFWriter *)

(* every CR LF pair becomes LF (leftmost first; pairs cannot overlap) *)
Fixpoint crlf2lf (w : bytes) : bytes :=
  match w with
  | [] => []
  | c :: r =>
    match r with
    | [] => [c]
    | c2 :: r2 => if (c =? CR) && (c2 =? LF) then LF :: crlf2lf r2 else c :: crlf2lf r
    end
  end.

(* what one Write emits: the pairs folded, and a chunk-final CR swallowed *)
Definition lf_chunk (d : bytes) : bytes :=
  if last d 0 =? CR then removelast (crlf2lf d) else crlf2lf d.

Lemma cut_crlf_cons2 a b l :
  cut_crlf (a :: b :: l) =
  if (a =? CR) && (b =? LF) then Some ([], l)
  else match cut_crlf (b :: l) with Some (p, q) => Some (a :: p, q) | None => None end.
Proof. reflexivity. Qed.

Lemma crlf2lf_cons2 a b l :
  crlf2lf (a :: b :: l) = if (a =? CR) && (b =? LF) then LF :: crlf2lf l else a :: crlf2lf (b :: l).
Proof. reflexivity. Qed.

Lemma cut_crlf_some w : forall p q,
  cut_crlf w = Some (p, q) ->
  w = p ++ CR :: LF :: q /\ crlf2lf w = p ++ LF :: crlf2lf q.
Proof.
  induction w as [| a | a b l IH1 IH2] using list_ind2; intros p q H.
  - discriminate.
  - discriminate.
  - rewrite cut_crlf_cons2 in H. rewrite crlf2lf_cons2.
    destruct ((a =? CR) && (b =? LF)) eqn:E.
    + inversion H; subst. apply andb_true_iff in E as [E1 E2].
      apply N.eqb_eq in E1, E2. subst. split; reflexivity.
    + destruct (cut_crlf (b :: l)) as [[p' q']|] eqn:E2; [|discriminate].
      inversion H; subst. destruct (IH2 _ _ eq_refl) as [Hw Hc].
      split; [cbn [app]; f_equal; exact Hw|]. cbn [app]. f_equal. exact Hc.
Qed.

Lemma cut_crlf_none w : cut_crlf w = None -> crlf2lf w = w.
Proof.
  induction w as [| a | a b l IH1 IH2] using list_ind2; intros H; try reflexivity.
  rewrite cut_crlf_cons2 in H. rewrite crlf2lf_cons2.
  destruct ((a =? CR) && (b =? LF)) eqn:E; [discriminate|].
  destruct (cut_crlf (b :: l)) as [[p' q']|] eqn:E2; [discriminate|].
  f_equal. apply IH2. reflexivity.
Qed.

(* the loop: emitted ++ rest is the folded window, rest is a suffix, the
   count is right, and a non-empty consumed part ends with LF *)
Lemma lf_loop_spec : forall fuel w n,
  (List.length w < fuel)%nat ->
  exists o n' rest pre,
    lf_loop fuel w n = Some (o, n', rest) /\
    o ++ rest = crlf2lf w /\ (n' + List.length rest = n + List.length w)%nat /\
    w = pre ++ rest /\ (pre = [] \/ last pre 0 = LF).
Proof.
  induction fuel as [|f IH]; intros w n Hf; [lia|].
  cbn [lf_loop]. destruct (cut_crlf w) as [[p q]|] eqn:E.
  - destruct (cut_crlf_some w p q E) as [Hw Hc].
    assert (Hq : (List.length q < f)%nat).
    { rewrite Hw in Hf. rewrite app_length in Hf. cbn [List.length] in Hf. lia. }
    destruct (IH q (n + List.length p + 2)%nat Hq) as (o & n' & rest & pre & EL & Ho & Hn & Hpre & Hlast).
    rewrite EL. exists (p ++ LF :: o), n', rest, (p ++ CR :: LF :: pre).
    split; [reflexivity|]. split.
    { rewrite <- app_assoc. cbn [app]. rewrite Ho. symmetry. exact Hc. }
    split.
    { rewrite Hw, app_length. cbn [List.length]. lia. }
    split.
    { rewrite <- app_assoc. cbn [app]. rewrite <- Hpre. exact Hw. }
    right. destruct Hlast as [Hp|Hl].
    + subst pre. rewrite last_app_ne by discriminate. reflexivity.
    + destruct pre as [|x pre]; [cbn in Hl; discriminate|].
      rewrite last_app_ne by discriminate. cbn [last]. cbn [last] in Hl. exact Hl.
  - exists [], n, w, []. split; [reflexivity|]. split; [cbn; symmetry; now apply cut_crlf_none|].
    split; [lia|]. split; [reflexivity|]. now left.
Qed.

Lemma lf_write_spec d : lf_write d = Some (lf_chunk d, List.length d).
Proof.
  destruct d as [|a d']; [reflexivity|].
  unfold lf_write. cbv iota. set (d := a :: d').
  destruct (lf_loop_spec (S (List.length d)) d O (Nat.lt_succ_diag_r _))
    as (o & n' & rest & pre & EL & Ho & Hn & Hpre & Hlast).
  rewrite EL. unfold lf_chunk. rewrite <- Ho.
  destruct (last d 0 =? CR) eqn:ELast.
  - apply N.eqb_eq in ELast.
    assert (Hr : rest <> []).
    { intros ->. rewrite app_nil_r in Hpre. subst pre.
      destruct Hlast as [H|H]; [discriminate|]. rewrite H in ELast. discriminate. }
    rewrite removelast_app by assumption. f_equal. f_equal.
    assert (List.length rest = S (List.length (removelast rest))).
    { destruct (exists_last Hr) as [r0 [x Ex]]. rewrite Ex, removelast_last, app_length. cbn. lia. }
    lia.
  - f_equal. f_equal. lia.
Qed.

Lemma lf_writer_spec chunks :
  lf_writer chunks = Some (List.concat (map lf_chunk chunks), map (@List.length N) chunks).
Proof.
  induction chunks as [|d r IH]; [reflexivity|].
  cbn [lf_writer map List.concat]. rewrite lf_write_spec, IH. reflexivity.
Qed.

(* every CR is immediately followed by LF *)
Fixpoint lcf (bs : bytes) : bool :=
  match bs with
  | [] => true
  | c :: r => if c =? CR then match r with c2 :: _ => (c2 =? LF) && lcf r | [] => false end else lcf r
  end.
(* ... except possibly a final CR *)
Fixpoint lcf_open (bs : bytes) : bool :=
  match bs with
  | [] => true
  | c :: r => if c =? CR then match r with c2 :: _ => (c2 =? LF) && lcf_open r | [] => true end else lcf_open r
  end.

Lemma lcf_cons2 a b l : lcf (a :: b :: l) = if a =? CR then (b =? LF) && lcf (b :: l) else lcf (b :: l).
Proof. reflexivity. Qed.
Lemma lcf_open_cons2 a b l :
  lcf_open (a :: b :: l) = if a =? CR then (b =? LF) && lcf_open (b :: l) else lcf_open (b :: l).
Proof. reflexivity. Qed.

Lemma lcf_app x y : lcf (x ++ y) = true -> lcf_open x = true /\ lcf y = true.
Proof.
  induction x as [| a | a b l IH1 IH2] using list_ind2; intros H.
  - split; [reflexivity|exact H].
  - cbn [app lcf] in H. cbn [lcf_open]. destruct (a =? CR).
    + split; [reflexivity|]. destruct y as [|c2 y']; [discriminate|].
      apply andb_true_iff in H as [_ H]. exact H.
    + split; [reflexivity|exact H].
  - change ((a :: b :: l) ++ y) with (a :: b :: (l ++ y)) in H.
    rewrite lcf_cons2 in H. rewrite lcf_open_cons2.
    change (b :: l ++ y) with ((b :: l) ++ y) in H.
    destruct (a =? CR).
    + apply andb_true_iff in H as [Hb H]. apply IH2 in H as [H1 H2].
      split; [|exact H2]. rewrite Hb. exact H1.
    + apply IH2 in H. exact H.
Qed.

Lemma strip_cr_app a b : strip_cr (a ++ b) = strip_cr a ++ strip_cr b.
Proof. apply filter_app. Qed.

Lemma crlf2lf_open d :
  lcf_open d = true ->
  crlf2lf d = strip_cr d ++ (if last d 0 =? CR then [CR] else []).
Proof.
  induction d as [| a | a b l IH1 IH2] using list_ind2; intros H.
  - reflexivity.
  - cbn [crlf2lf strip_cr filter last]. destruct (a =? CR) eqn:E; cbn [negb app].
    + apply N.eqb_eq in E. subst. reflexivity.
    + reflexivity.
  - rewrite lcf_open_cons2 in H. rewrite crlf2lf_cons2.
    rewrite (last_cons_ne _ a (b :: l)) by discriminate.
    destruct (a =? CR) eqn:E.
    + apply andb_true_iff in H as [Hb H]. rewrite Hb. cbn [andb].
      apply N.eqb_eq in Hb. subst b.
      assert (Hl : lcf_open l = true).
      { cbn [lcf_open] in H. change (LF =? CR) with false in H. exact H. }
      rewrite (IH1 Hl). unfold strip_cr. cbn [filter]. rewrite E.
      change (LF =? CR) with false. cbn [negb app]. f_equal. f_equal.
      destruct l as [|x l]; [reflexivity|]. rewrite (last_cons_ne _ LF (x :: l)) by discriminate. reflexivity.
    + cbn [andb]. rewrite (IH2 H). unfold strip_cr at 2. cbn [filter]. rewrite E. cbn [negb app]. reflexivity.
Qed.

Lemma lf_chunk_open d : lcf_open d = true -> lf_chunk d = strip_cr d.
Proof.
  intros H. unfold lf_chunk. rewrite (crlf2lf_open d H).
  destruct (last d 0 =? CR); [apply removelast_last|apply app_nil_r].
Qed.

(* chunking independence of the LF writer: no lone CR in the stream *)
Lemma lf_writer_chunk_free chunks :
  lcf (List.concat chunks) = true ->
  lf_writer chunks = Some (strip_cr (List.concat chunks), map (@List.length N) chunks).
Proof.
  intros H. rewrite lf_writer_spec. f_equal. f_equal.
  induction chunks as [|d r IH]; [reflexivity|].
  cbn [List.concat map] in *. apply lcf_app in H as [H1 H2].
  rewrite strip_cr_app, lf_chunk_open, IH by assumption. reflexivity.
Qed.

(* ------------------------------------------------------------ lfToCRLFWriter *)

(* what one Write emits, byte by byte: an LF at the start of a window (the
   chunk start, or right after another LF) consults the flag h left by the
   previous Write; elsewhere the byte before it *)
Fixpoint crlf_chunk_aux (h ws pc : bool) (d : bytes) : bytes :=
  match d with
  | [] => []
  | c :: r =>
    if c =? LF then (if (if ws then h else pc) then [LF] else [CR; LF]) ++ crlf_chunk_aux h true false r
    else c :: crlf_chunk_aux h false (c =? CR) r
  end.
Definition crlf_chunk (h : bool) (d : bytes) : bytes := crlf_chunk_aux h true false d.

Lemma cut_lf_some w : forall p q, cut_lf w = Some (p, q) ->
  w = p ++ LF :: q /\ forallb (fun c => negb (c =? LF)) p = true.
Proof.
  induction w as [|a w IH]; intros p q H; [discriminate|].
  cbn [cut_lf] in H. destruct (a =? LF) eqn:E.
  - inversion H; subst. apply N.eqb_eq in E. subst. split; reflexivity.
  - destruct (cut_lf w) as [[p' q']|] eqn:E2; [|discriminate]. inversion H; subst.
    destruct (IH _ _ eq_refl) as [Hw Hp]. split; [cbn; f_equal; exact Hw|].
    cbn [forallb]. rewrite E, Hp. reflexivity.
Qed.

Lemma cut_lf_none w : cut_lf w = None -> forallb (fun c => negb (c =? LF)) w = true.
Proof.
  induction w as [|a w IH]; intros H; [reflexivity|].
  cbn [cut_lf] in H. destruct (a =? LF) eqn:E; [discriminate|].
  destruct (cut_lf w) as [[p q]|]; [discriminate|]. cbn [forallb]. rewrite E, IH; reflexivity.
Qed.

Lemma crlf_aux_nolf h ws pc w : forallb (fun c => negb (c =? LF)) w = true -> crlf_chunk_aux h ws pc w = w.
Proof.
  revert ws pc. induction w as [|a w IH]; intros ws pc H; [reflexivity|].
  cbn [forallb] in H. apply andb_true_iff in H as [Ha H]. apply negb_true_iff in Ha.
  cbn [crlf_chunk_aux]. rewrite Ha. f_equal. apply IH. exact H.
Qed.

Lemma crlf_aux_pre h p : forall ws pc q,
  forallb (fun c => negb (c =? LF)) p = true ->
  crlf_chunk_aux h ws pc (p ++ LF :: q) =
  p ++ (if match p with [] => (if ws then h else pc) | _ => last p 0 =? CR end then [LF] else [CR; LF])
    ++ crlf_chunk_aux h true false q.
Proof.
  induction p as [|a p IH]; intros ws pc q H.
  - cbn [app crlf_chunk_aux]. change (LF =? LF) with true. cbn iota. reflexivity.
  - cbn [forallb] in H. apply andb_true_iff in H as [Ha H]. apply negb_true_iff in Ha.
    cbn [app crlf_chunk_aux]. rewrite Ha. f_equal. rewrite IH by assumption.
    f_equal. destruct p as [|b p]; [reflexivity|].
    rewrite (last_cons_ne _ a (b :: p)) by discriminate. reflexivity.
Qed.

Lemma crlf_loop_spec h : forall fuel w n,
  (List.length w < fuel)%nat ->
  exists o n' rest,
    crlf_loop fuel h w n = Some (o, n', rest) /\
    o ++ rest = crlf_chunk h w /\ (n' + List.length rest = n + List.length w)%nat.
Proof.
  induction fuel as [|f IH]; intros w n Hf; [lia|].
  cbn [crlf_loop]. destruct (cut_lf w) as [[p q]|] eqn:E.
  - destruct (cut_lf_some w p q E) as [Hw Hp].
    assert (Hq : (List.length q < f)%nat).
    { rewrite Hw, app_length in Hf. cbn [List.length] in Hf. lia. }
    clear E.
    destruct (IH q (n + List.length p + 1)%nat Hq) as (o & n' & rest & EL & Ho & Hn).
    rewrite EL. eexists _, n', rest. split; [reflexivity|]. split.
    + unfold crlf_chunk. subst w. rewrite crlf_aux_pre by assumption.
      rewrite <- !app_assoc. f_equal. f_equal. exact Ho.
    + rewrite Hw, app_length. cbn [List.length]. lia.
  - exists [], n, w. split; [reflexivity|]. split; [|lia].
    cbn [app]. unfold crlf_chunk. symmetry. apply crlf_aux_nolf. now apply cut_lf_none.
Qed.

Definition next_h (h : bool) (d : bytes) : bool :=
  match d with [] => h | _ => last d 0 =? CR end.

Lemma crlf_write_spec h d :
  crlf_write h d = Some (crlf_chunk h d, List.length d, next_h h d).
Proof.
  destruct d as [|a d']; [reflexivity|].
  unfold crlf_write, next_h. cbv iota. set (d := a :: d').
  destruct (crlf_loop_spec h (S (List.length d)) d O (Nat.lt_succ_diag_r _)) as (o & n' & rest & EL & Ho & Hn).
  rewrite EL, Ho. f_equal. f_equal. f_equal. lia.
Qed.

Fixpoint crlf_stream (h : bool) (chunks : list bytes) : bytes :=
  match chunks with
  | [] => []
  | d :: r => crlf_chunk h d ++ crlf_stream (next_h h d) r
  end.

Lemma crlf_writer_spec chunks : forall h,
  crlf_writer h chunks = Some (crlf_stream h chunks, map (@List.length N) chunks).
Proof.
  induction chunks as [|d r IH]; intros h; [reflexivity|].
  cbn [crlf_writer crlf_stream map]. rewrite crlf_write_spec, IH. reflexivity.
Qed.

(* git's loop over a concatenation *)
Lemma git_lf_to_crlf_app a b p :
  git_lf_to_crlf p (a ++ b) = git_lf_to_crlf p a ++ git_lf_to_crlf (next_h p a) b.
Proof.
  revert p. induction a as [|x a IH]; intros p; [reflexivity|].
  cbn [app git_lf_to_crlf]. destruct (x =? LF) eqn:E.
  - rewrite IH. rewrite <- app_assoc. f_equal. f_equal.
    destruct a as [|y a]; [|cbn [next_h]; now rewrite (last_cons_ne _ x (y :: a)) by discriminate].
    cbn [next_h last]. apply N.eqb_eq in E. subst. reflexivity.
  - rewrite IH. cbn [app]. f_equal. f_equal.
    destruct a as [|y a]; [reflexivity|]. cbn [next_h]. now rewrite (last_cons_ne _ x (y :: a)) by discriminate.
Qed.

(* with the flag false the writer is git's loop *)
Lemma crlf_aux_false ws pc d :
  crlf_chunk_aux false ws pc d = git_lf_to_crlf (if ws then false else pc) d.
Proof.
  revert ws pc. induction d as [|c r IH]; intros ws pc; [reflexivity|].
  cbn [crlf_chunk_aux git_lf_to_crlf]. destruct (c =? LF).
  - rewrite IH. reflexivity.
  - rewrite IH. reflexivity.
Qed.

Definition no_final_cr (d : bytes) : bool := negb (last d 0 =? CR).

Lemma next_h_false d : no_final_cr d = true -> next_h false d = false.
Proof. unfold no_final_cr. intros H. destruct d; [reflexivity|]. cbn [next_h]. now apply negb_true_iff. Qed.

(* chunking independence when no chunk ends with CR: git's loop on the concatenation *)
Lemma crlf_writer_no_final_cr chunks :
  forallb no_final_cr chunks = true ->
  crlf_writer false chunks = Some (git_lf_to_crlf false (List.concat chunks), map (@List.length N) chunks).
Proof.
  intros H. rewrite crlf_writer_spec. f_equal. f_equal.
  induction chunks as [|d r IH]; [reflexivity|].
  cbn [forallb] in H. apply andb_true_iff in H as [Hd Hr].
  cbn [crlf_stream List.concat]. rewrite git_lf_to_crlf_app, !next_h_false by assumption.
  rewrite IH by assumption. f_equal. unfold crlf_chunk. apply crlf_aux_false.
Qed.

Definition has_cr (bs : bytes) : bool := existsb (fun c => c =? CR) bs.

Lemma has_cr_app a b : has_cr (a ++ b) = has_cr a || has_cr b.
Proof. apply existsb_app. Qed.

Lemma no_cr_no_final d : has_cr d = false -> no_final_cr d = true.
Proof.
  unfold no_final_cr. induction d as [|a d IH]; intros H; [reflexivity|].
  cbn [has_cr existsb] in H. apply orb_false_iff in H as [Ha H].
  destruct d as [|b d]; [cbn [last]; now rewrite Ha|].
  rewrite (last_cons_ne _ a (b :: d)) by discriminate. apply IH. exact H.
Qed.

Lemma crlf_writer_nocr chunks :
  has_cr (List.concat chunks) = false ->
  crlf_writer false chunks = Some (git_lf_to_crlf false (List.concat chunks), map (@List.length N) chunks).
Proof.
  intros H. apply crlf_writer_no_final_cr.
  induction chunks as [|d r IH]; [reflexivity|].
  cbn [List.concat] in H. rewrite has_cr_app in H. apply orb_false_iff in H as [Hd Hr].
  cbn [forallb]. rewrite no_cr_no_final, IH by assumption. reflexivity.
Qed.

(* every LF is preceded by CR (p: the byte before the list is CR) *)
Fixpoint alf (p : bool) (bs : bytes) : bool :=
  match bs with
  | [] => true
  | c :: r => if c =? LF then p && alf false r else alf (c =? CR) r
  end.

Lemma alf_app a b p : alf p (a ++ b) = alf p a && alf (next_h p a) b.
Proof.
  revert p. induction a as [|x a IH]; intros p; [reflexivity|].
  cbn [app alf]. destruct (x =? LF) eqn:E.
  - rewrite IH, andb_assoc. f_equal.
    destruct a as [|y a]; [|cbn [next_h]; now rewrite (last_cons_ne _ x (y :: a)) by discriminate].
    cbn [next_h last]. apply N.eqb_eq in E. subst. reflexivity.
  - rewrite IH. f_equal.
    destruct a as [|y a]; [reflexivity|]. cbn [next_h]. now rewrite (last_cons_ne _ x (y :: a)) by discriminate.
Qed.

(* content whose LFs all follow a CR passes through unchanged, for any chunking:
   the stale flag is only consulted right after an LF, where no LF may follow *)
Lemma crlf_aux_alf h d : forall ws pc e : bool,
  alf e d = true -> (e = true -> (if ws then h else pc) = true) ->
  crlf_chunk_aux h ws pc d = d.
Proof.
  induction d as [|c r IH]; intros ws pc e Ha He; [reflexivity|].
  cbn [alf] in Ha. cbn [crlf_chunk_aux]. destruct (c =? LF) eqn:E.
  - apply andb_true_iff in Ha as [Hp Ha]. rewrite (He Hp). cbn [app]. f_equal.
    + symmetry. now apply N.eqb_eq.
    + apply (IH true false false Ha). discriminate.
  - f_equal. apply (IH false (c =? CR) (c =? CR) Ha). auto.
Qed.

Lemma crlf_stream_alf chunks : forall h,
  alf h (List.concat chunks) = true -> crlf_stream h chunks = List.concat chunks.
Proof.
  induction chunks as [|d r IH]; intros h H; [reflexivity|].
  cbn [List.concat] in H. rewrite alf_app in H. apply andb_true_iff in H as [Hd Hr].
  cbn [crlf_stream List.concat]. rewrite (IH _ Hr). f_equal.
  unfold crlf_chunk. apply (crlf_aux_alf h d true false h Hd). auto.
Qed.

Lemma git_lf_to_crlf_alf bs : forall p, alf p bs = true -> git_lf_to_crlf p bs = bs.
Proof.
  induction bs as [|c r IH]; intros p H; [reflexivity|].
  cbn [alf] in H. cbn [git_lf_to_crlf]. destruct (c =? LF) eqn:E.
  - apply andb_true_iff in H as [Hp H]. rewrite Hp. cbn [app]. f_equal; [symmetry; now apply N.eqb_eq|now apply IH].
  - f_equal. now apply IH.
Qed.
