(* Proofs/C36.v — the protocol core of fetch: negotiation terminates, wants
   cover what is missing, a reference update either lands or asks for force,
   pruning only removes stale names, the delivered pack completes the client,
   and what getShallowCommits reports lies where it says. *)
From Coq Require Import List NArith ZArith Bool Lia Arith.
From GoGit Require Import Base.Out Model.RefSpec Model.RevList Model.PushRules Model.FetchProto
     Spec.ObjReach Proofs.C37Trees Proofs.C37 Proofs.C38.
Import ListNotations.
Local Arguments Nat.leb : simpl never.
Local Arguments Nat.ltb : simpl never.
Local Arguments Nat.min : simpl never.
Local Arguments Nat.sub : simpl never.
Local Arguments Nat.eqb : simpl never.

(* ================= negotiation ================= *)
Lemma take_rev_spec : forall n l t rest, take_rev n l = (t, rest) ->
  List.length t = Nat.min n (List.length l) /\ List.length rest = (List.length l - List.length t)%nat.
Proof.
  induction n as [|n IH]; intros l t rest H; cbn [take_rev] in H.
  - inversion H; subst. cbn. split; [reflexivity | lia].
  - destruct l as [|x l]; [inversion H; subst; cbn; split; reflexivity|].
    destruct (take_rev n l) as [t0 r0] eqn:E. inversion H; subst.
    destruct (IH _ _ _ E) as [A B]. cbn. split; lia.
Qed.

Lemma apply_acks_haves : forall st acks s,
  n_haves (apply_acks st acks s) = n_haves s /\ n_flush_at (apply_acks st acks s) = n_flush_at s /\
  n_done_after_ready (apply_acks st acks s) = n_done_after_ready s.
Proof.
  intros st acks. induction acks as [|[h stt] r IH]; intros s; cbn [apply_acks]; [auto|].
  match goal with |- context [apply_acks st r ?x] => destruct (IH x) as (A & B & C); rewrite A, B, C end.
  destruct stt; cbn; auto.
  destruct (st && negb (mem h (n_common s))); cbn; auto.
Qed.

Lemma next_flush_pos : forall st c, (1 <= c)%nat -> (1 <= next_flush st c)%nat.
Proof.
  intros st c H. unfold next_flush. destruct st.
  - destruct (Nat.ltb c LARGE_FLUSH) eqn:E; [lia|]. apply Nat.ltb_ge in E. unfold LARGE_FLUSH in E.
    apply Nat.div_le_lower_bound; lia.
  - destruct (Nat.ltb c PIPESAFE_FLUSH); lia.
Qed.

Lemma neg_recv_false : forall stl r acks s1 s2,
  neg_recv stl r acks s1 = (s2, false) ->
  n_haves s2 = n_haves s1 /\ n_flush_at s2 = next_flush stl (n_flush_at s1) /\
  r_done r = false /\ n_done_after_ready s1 = false.
Proof.
  intros stl r acks s1 s2 H. unfold neg_recv in H.
  set (sa := if r_done r || negb (Nat.eqb (List.length (r_haves r)) 0) then apply_acks stl acks s1 else s1) in *.
  assert (Hsa : n_haves sa = n_haves s1 /\ n_flush_at sa = n_flush_at s1 /\ n_done_after_ready sa = n_done_after_ready s1).
  { unfold sa. destruct (r_done r || negb (Nat.eqb (List.length (r_haves r)) 0)); [apply apply_acks_haves | auto]. }
  destruct Hsa as (A & B & C). cbn zeta in H.
  destruct (n_done_after_ready sa) eqn:D; [inversion H|]. inversion H; subst. cbn. rewrite A, B, <- C. auto.
Qed.

(* a round that does not end the negotiation consumed at least one have *)
Lemma neg_round_progress : forall stl wants ns s r s1 acks s2,
  (1 <= n_flush_at s)%nat ->
  neg_send stl wants ns s = NRound r s1 -> neg_recv stl r acks s1 = (s2, false) ->
  (List.length (n_haves s2) < List.length (n_haves s))%nat /\ (1 <= n_flush_at s2)%nat.
Proof.
  intros stl wants ns s r s1 acks s2 Hf HS HR.
  destruct (neg_recv_false _ _ _ _ _ HR) as (A & B & C & D). rewrite A, B. clear HR.
  unfold neg_send in HS.
  destruct (take_rev _ (rev (n_haves s))) as [taken rest] eqn:T.
  destruct (forallb _ wants && ns); [discriminate|]. inversion HS; subst r s1. clear HS.
  destruct (take_rev_spec _ _ _ _ T) as [LT LR]. rewrite rev_length in LT, LR.
  cbn [n_haves n_flush_at n_done_after_ready r_done] in *. rewrite rev_length.
  split; [|now apply next_flush_pos].
  rewrite D in C. cbn [orb] in C. apply orb_false_iff in C. destruct C as [E2 E3].
  rewrite rev_length in E2. apply Nat.eqb_neq in E2. rewrite D in LT.
  destruct (n_got_continue s) eqn:GC.
  - destruct (Nat.leb (MAX_IN_VEIN - n_in_vein s) 0) eqn:Z.
    + exfalso. apply Nat.leb_le in Z. rewrite andb_true_l in E3. apply Nat.leb_gt in E3. lia.
    + apply Nat.leb_gt in Z. lia.
  - lia.
Qed.

Lemma negotiate_terminates : forall stl wants ns table fuel s rounds,
  (1 <= n_flush_at s)%nat -> (List.length (n_haves s) < fuel)%nat ->
  exists r nc, negotiate fuel stl wants ns table s rounds = Some (r, nc) /\
               (List.length r <= List.length rounds + S (List.length (n_haves s)))%nat.
Proof.
  intros stl wants ns table. induction fuel as [|f IH]; intros s rounds Hf Hl; [lia|]. cbn [negotiate].
  destruct (neg_send stl wants ns s) as [r s1|] eqn:SD.
  - destruct (neg_recv stl r (round_acks table r) s1) as [s2 stop] eqn:RV. destruct stop.
    + exists (rounds ++ [r]), false. split; [reflexivity|]. rewrite app_length. cbn. lia.
    + destruct (neg_round_progress _ _ _ _ _ _ _ _ Hf SD RV) as [A B].
      destruct (IH s2 (rounds ++ [r]) B ltac:(lia)) as (r' & nc & E & L). exists r', nc. split; [exact E|].
      rewrite app_length in L. cbn in L. lia.
  - exists rounds, true. split; [reflexivity | lia].
Qed.

(* ================= wants ================= *)
Lemma get_wants_cover : forall client sh depth m nh,
  In nh m ->
  get client (snd nh) = None \/ (negb (Nat.eqb depth 1) && negb (Nat.eqb (List.length sh) 0) = true) ->
  In (snd nh) (get_wants client sh depth m).
Proof.
  intros client sh depth m nh. unfold get_wants.
  set (sm := negb (Nat.eqb depth 1) && negb (Nat.eqb (List.length sh) 0)).
  induction m as [|x m IH]; intros Hin Hc; [contradiction|]. cbn [fold_right].
  set (acc := fold_right _ [] m) in *.
  destruct Hin as [->|Hin].
  - assert (C : (match get client (snd nh) with Some _ => false | None => true end) || sm = true).
    { destruct Hc as [Hc|Hc]; [rewrite Hc; reflexivity | fold sm in Hc; rewrite Hc; apply orb_true_r]. }
    rewrite C. destruct (mem (snd nh) acc) eqn:M; [now apply mem_In | now left].
  - specialize (IH Hin Hc).
    destruct ((match get client (snd x) with Some _ => false | None => true end) || sm); [|exact IH].
    destruct (mem (snd x) acc); [exact IH | now right].
Qed.

(* ================= reference update ================= *)
Lemma ref_get_set_same : forall rs n t, ref_get (ref_set rs n t) n = Some t.
Proof.
  induction rs as [|[k v] rs IH]; intros n t; cbn [ref_set ref_get].
  - assert (E : beq_bytes n n = true) by (induction n as [|x n IHn]; cbn; [reflexivity | now rewrite N.eqb_refl, IHn]).
    now rewrite E.
  - destruct (beq_bytes k n) eqn:E; cbn [ref_get]; rewrite E; [reflexivity | apply IH].
Qed.

Lemma check_and_update_sets : forall local n h old l' c,
  check_and_update local n h old = Some (l', c) -> ref_get l' n = Some (RHash h).
Proof.
  intros local n h old l' c H. unfold check_and_update in H.
  destruct (ref_get local n) as [[h'|t]|] eqn:G.
  - destruct (N.eqb h' h) eqn:E.
    + inversion H; subst. apply N.eqb_eq in E. now subst.
    + destruct old as [oh|]; [destruct (N.eqb h' oh); [|discriminate]|]; inversion H; subst; apply ref_get_set_same.
  - destruct old as [oh|]; [destruct (N.eqb 0 oh); [|discriminate]|]; inversion H; subst; apply ref_get_set_same.
  - inversion H; subst; apply ref_get_set_same.
Qed.

(* the local name a fetched reference is stored under *)
Definition local_name (spec n : bytes) : option bytes :=
  let raw := rs_dst spec n in
  if has_prefix REFS raw then Some raw else if is_hash_text raw then None else Some (HEADS ++ raw).

(* one fetched reference: either the update is refused and flagged (force
   needed), or the local name now carries the advertised value *)
Lemma update_one_spec : forall st sh force spec nh u u' lname,
  update_one st sh force spec nh u = Some u' -> local_name spec (fst nh) = Some lname ->
  (u_force_needed u' = true /\ u_local u' = u_local u) \/ ref_get (u_local u') lname = Some (RHash (snd nh)).
Proof.
  intros st sh force spec nh u u' lname H L. unfold update_one in H. unfold local_name in L.
  destruct (has_prefix REFS (rs_dst spec (fst nh))) eqn:P.
  - inversion L; subst lname.
    destruct (resolve_named _ (u_local u) (rs_dst spec (fst nh))) as [[on oh]|] eqn:R.
    + destruct (is_tag_name (rs_dst spec (fst nh)) && negb (N.eqb oh (snd nh)) && negb (force || rs_force spec)).
      * inversion H; subst. left. cbn. auto.
      * destruct (negb (is_tag_name on) && negb (force || rs_force spec)).
        -- destruct (is_ff st sh oh (snd nh)) as [[|]|]; [| inversion H; subst; left; cbn; auto | discriminate].
           destruct (check_and_update _ _ _ _) as [[l' c]|] eqn:CU; [|discriminate]. inversion H; subst. right. cbn.
           eapply check_and_update_sets; eauto.
        -- destruct (check_and_update _ _ _ _) as [[l' c]|] eqn:CU; [|discriminate]. inversion H; subst. right. cbn.
           eapply check_and_update_sets; eauto.
    + destruct (check_and_update _ _ _ _) as [[l' c]|] eqn:CU; [|discriminate]. inversion H; subst. right. cbn.
      eapply check_and_update_sets; eauto.
  - destruct (is_hash_text (rs_dst spec (fst nh))); [discriminate|]. inversion L; subst lname.
    destruct (resolve_named _ (u_local u) (HEADS ++ rs_dst spec (fst nh))) as [[on oh]|] eqn:R.
    + destruct (is_tag_name (HEADS ++ rs_dst spec (fst nh)) && negb (N.eqb oh (snd nh)) && negb (force || rs_force spec)).
      * inversion H; subst. left. cbn. auto.
      * destruct (negb (is_tag_name on) && negb (force || rs_force spec)).
        -- destruct (is_ff st sh oh (snd nh)) as [[|]|]; [| inversion H; subst; left; cbn; auto | discriminate].
           destruct (check_and_update _ _ _ _) as [[l' c]|] eqn:CU; [|discriminate]. inversion H; subst. right. cbn.
           eapply check_and_update_sets; eauto.
        -- destruct (check_and_update _ _ _ _) as [[l' c]|] eqn:CU; [|discriminate]. inversion H; subst. right. cbn.
           eapply check_and_update_sets; eauto.
    + destruct (check_and_update _ _ _ _) as [[l' c]|] eqn:CU; [|discriminate]. inversion H; subst. right. cbn.
      eapply check_and_update_sets; eauto.
Qed.

(* ================= prune ================= *)
Lemma ref_get_del_other : forall rs n m, beq_bytes n m = false -> ref_get (ref_del rs n) m = ref_get rs m.
Proof.
  induction rs as [|[k v] rs IH]; intros n m H; cbn [ref_del ref_get]; [reflexivity|].
  destruct (beq_bytes k n) eqn:E.
  - apply beq_bytes_eq in E. subst k. rewrite H. now apply IH.
  - cbn [ref_get]. destruct (beq_bytes k m); [reflexivity | now apply IH].
Qed.

(* pruning for one (reversed) refspec only ever removes a name the refspec
   maps back to a reference the server no longer advertises *)
Lemma prune_spec_only_stale : forall rv remote iter local ch m,
  ref_get local m <> None -> ref_get (fst (prune_spec rv remote iter local ch)) m = None ->
  exists n, beq_bytes n m = true /\ rs_match rv n = true /\ ref_get remote (rs_dst rv n) = None.
Proof.
  intros rv remote iter. induction iter as [|[n t] r IH]; intros local ch m Hl H; cbn [prune_spec] in H.
  - cbn in H. contradiction.
  - destruct (rs_match rv n) eqn:M; [|now apply IH in H].
    destruct (ref_get remote (rs_dst rv n)) eqn:G; [now apply IH in H|].
    destruct (beq_bytes n m) eqn:E; [exists n; auto|].
    apply IH in H; [exact H|]. now rewrite ref_get_del_other.
Qed.

(* ================= what the pack completes ================= *)
(* if the server selects the pack with revlist.Objects over wants and the common
   haves (boundary sh: the shallow commits the client reported plus the new
   ones), and the client holds whatever the common haves reach up to that
   boundary, then after storing the pack the client holds everything the wants
   reach up to the boundary *)
Lemma fetch_complete : forall server sh wants common pack (held : oid -> Prop),
  wf_store server = true -> objects server sh wants common = Ok pack ->
  (forall o, reach_set server sh common o -> held o) ->
  forall o, reach_set server sh wants o -> In o pack \/ held o.
Proof.
  intros server sh wants common pack held Hwf H Hh o Ho.
  destruct (covers server sh wants common Hwf pack H o Ho); [now left | right; now apply Hh].
Qed.

(* ================= getShallowCommits ================= *)
(* a path of exactly k parent steps through stored commits *)
Inductive pdist (st : store) : oid -> oid -> nat -> Prop :=
| pd0 : forall a, pdist st a a 0
| pdS : forall a t ps tm p b k, get_commit st a = Some (t, ps, tm) -> In p ps -> pdist st p b k -> pdist st a b (S k).

Lemma pdist_snoc : forall st a b k t ps tm p,
  pdist st a b k -> get_commit st b = Some (t, ps, tm) -> In p ps -> pdist st a p (S k).
Proof.
  intros st a b k t ps tm p H. induction H; intros G Hp.
  - econstructor; eauto. constructor.
  - econstructor; eauto.
Qed.

Lemma push_parents_In : forall d ps stack nxt stack',
  push_parents d ps stack = (nxt, stack') ->
  (forall w, nxt = Some w -> In (sw_id w) ps /\ sw_depth w = d) /\
  (forall w, In w stack' -> In w stack \/ (In (sw_id w) ps /\ sw_depth w = d)).
Proof.
  intros d. fix IH 1. intros ps stack nxt stack' H. destruct ps as [|p [|q rest]]; cbn [push_parents] in H.
  - inversion H; subst. split; [discriminate | auto].
  - inversion H; subst. split; [intros w E; inversion E; subst; cbn; auto | auto].
  - destruct (IH rest _ _ _ H) as [A B]. split.
    + intros w E. destruct (A w E). split; [right; right; assumption | assumption].
    + intros w Hw. destruct (B w Hw) as [[<-|Hs]|[X Y]]; [right; cbn; auto | now left | right; split; [right; right; assumption | assumption]].
Qed.

(* every commit reported shallow is depth-1 parent steps from a wanted head,
   every commit reported not shallow is closer *)
Lemma shallow_walk_sound : forall st depth heads0 fuel cur heads stack sh un sh' un',
  shallow_walk fuel st depth cur heads stack sh un = Some (sh', un') ->
  incl heads heads0 ->
  (forall w, cur = Some w -> exists h, In h heads0 /\ pdist st h (sw_id w) (sw_depth w)) ->
  (forall w, In w stack -> exists h, In h heads0 /\ pdist st h (sw_id w) (sw_depth w)) ->
  (forall c, In c sh -> exists h k, In h heads0 /\ pdist st h c k /\ S k = depth \/ (exists h k, In h heads0 /\ pdist st h c k /\ (depth <= S k)%nat)) ->
  (forall c, In c un -> exists h k, In h heads0 /\ pdist st h c k /\ (S k < depth)%nat) ->
  (forall c, In c sh' -> exists h k, In h heads0 /\ pdist st h c k /\ (depth <= S k)%nat) /\
  (forall c, In c un' -> exists h k, In h heads0 /\ pdist st h c k /\ (S k < depth)%nat).
Proof.
  intros st depth heads0. induction fuel as [|f IH]; intros cur heads stack sh un sh' un' H Hh Hc Hs Hsh Hun; cbn [shallow_walk] in H; [discriminate|].
  destruct cur as [w|].
  - destruct (Hc w eq_refl) as (h & Hin & Hp).
    destruct (Nat.leb depth (S (sw_depth w))) eqn:D.
    + apply Nat.leb_le in D. eapply IH; [exact H | exact Hh | discriminate | exact Hs | | exact Hun].
      intros c Hc'. apply in_app_or in Hc'. destruct Hc' as [Hc'|[<-|[]]]; [now apply Hsh|].
      exists h, (sw_depth w). right. exists h, (sw_depth w). auto.
    + apply Nat.leb_gt in D.
      destruct (get_commit st (sw_id w)) as [[[t ps] tm]|] eqn:G; [|discriminate].
      destruct (forallb _ ps); [|discriminate].
      destruct (push_parents (S (sw_depth w)) ps stack) as [nxt stack'] eqn:PP.
      destruct (push_parents_In _ _ _ _ _ PP) as [A B].
      eapply IH; [exact H | exact Hh | | | exact Hsh |].
      * intros w' E. destruct (A w' E) as [X Y]. exists h. split; [exact Hin|]. rewrite Y. eapply pdist_snoc; eauto.
      * intros w' Hw'. destruct (B w' Hw') as [Hw''|[X Y]]; [now apply Hs|].
        exists h. split; [exact Hin|]. rewrite Y. eapply pdist_snoc; eauto.
      * intros c Hc'. apply in_app_or in Hc'. destruct Hc' as [Hc'|[<-|[]]]; [now apply Hun|].
        exists h, (sw_depth w). auto.
  - destruct heads as [|h hs].
    + destruct stack as [|w ws].
      * inversion H; subst. split; [|exact Hun].
        intros c Hc'. destruct (Hsh c Hc') as (h & k & [X|X]); [destruct X as (A & B & C); exists h, k; split; [exact A|]; split; [exact B | lia] | exact X].
      * eapply IH; [exact H | exact Hh | | | exact Hsh | exact Hun].
        -- intros w' E. inversion E; subst. apply Hs. now left.
        -- intros w' Hw'. apply Hs. now right.
    + assert (Hh' : incl hs heads0) by (intros x Hx; apply Hh; now right).
      destruct (get_commit st h) eqn:G.
      * eapply IH; [exact H | exact Hh' | | exact Hs | exact Hsh | exact Hun].
        intros w' E. inversion E; subst. cbn. exists h. split; [apply Hh; now left | constructor].
      * eapply IH; [exact H | exact Hh' | discriminate | exact Hs | exact Hsh | exact Hun].
Qed.
