(* Proofs/C49Lines.v — pattern lines read by both sides: negation, and the
   coherence (Proofs/C49Walk.coh) of plain name patterns. *)
From Coq Require Import List NArith Bool Lia PeanoNat.
From GoGit Require Import Base.Out Model.Gitignore Spec.Glob Spec.GitIgnore
     Proofs.C49Total Proofs.C49Wild Proofs.C49Git Proofs.C49Trim Proofs.C49Names Proofs.C49Walk.
Import ListNotations.
Local Open Scope N_scope.

(* ------------------------------------------------------------------ *)
(* negation: "!" + line                                                *)

Definition is_bang (l : bytes) : bool := match l with c :: _ => c =? cBANG | [] => false end.
Definition strip_bang (l : bytes) : bytes := match l with c :: r => if c =? cBANG then r else l | [] => l end.

Definition set_incl (b : bool) (p : pat) : pat := mkPat (p_dom p) (p_segs p) b (p_dironly p) (p_isglob p).
Definition set_neg (b : bool) (g : gpat) : gpat :=
  mkG (g_pat g) b (g_mustdir g) (g_nodir g) (g_endswith g) (g_nowild g) (g_base g).

Lemma parse_bang l0 dir : is_bang l0 = false ->
  parse_pattern (cBANG :: l0) dir = set_incl true (parse_pattern l0 dir).
Proof.
  intros H. unfold parse_pattern. rewrite N.eqb_refl.
  assert (E : match l0 with c :: r => if c =? cBANG then (true, r) else (false, l0) | [] => (false, l0) end = (false, l0)).
  { destruct l0 as [|c r]; [reflexivity|]. cbn in H. now rewrite H. }
  rewrite E.
  destruct (rev (trim_trailing_spaces l0)) as [|c r]; [reflexivity|].
  destruct (c =? cSLASH); reflexivity.
Qed.

Lemma gparse_bang l0 dir : is_bang l0 = false ->
  gparse (cBANG :: l0) dir = set_neg true (gparse l0 dir).
Proof.
  intros H. unfold gparse. rewrite N.eqb_refl.
  assert (E : match l0 with c :: r => if c =? cBANG then (true, r) else (false, l0) | [] => (false, l0) end = (false, l0)).
  { destruct l0 as [|c r]; [reflexivity|]. cbn in H. now rewrite H. }
  rewrite E.
  destruct (rev l0) as [|c r]; [reflexivity|].
  destruct (c =? cSLASH); reflexivity.
Qed.

Lemma parse_nobang_incl l0 dir : is_bang l0 = false -> p_incl (parse_pattern l0 dir) = false.
Proof.
  intros H. unfold parse_pattern.
  assert (E : match l0 with c :: r => if c =? cBANG then (true, r) else (false, l0) | [] => (false, l0) end = (false, l0)).
  { destruct l0 as [|c r]; [reflexivity|]. cbn in H. now rewrite H. }
  rewrite E.
  destruct (rev (trim_trailing_spaces l0)) as [|c r]; [reflexivity|].
  destruct (c =? cSLASH); reflexivity.
Qed.

Lemma gparse_nobang_neg l0 dir : is_bang l0 = false -> g_neg (gparse l0 dir) = false.
Proof.
  intros H. unfold gparse.
  assert (E : match l0 with c :: r => if c =? cBANG then (true, r) else (false, l0) | [] => (false, l0) end = (false, l0)).
  { destruct l0 as [|c r]; [reflexivity|]. cbn in H. now rewrite H. }
  rewrite E.
  destruct (rev l0) as [|c r]; [reflexivity|].
  destruct (c =? cSLASH); reflexivity.
Qed.

Lemma pat_match_set_incl b p path d :
  pat_match (set_incl b p) path d <> NoMatch <-> pat_match p path d <> NoMatch.
Proof.
  unfold pat_match, set_incl. cbn [p_dom p_isglob p_segs p_dironly p_incl].
  destruct (Nat.leb _ _); [tauto|]. destruct (strip_domain _ _); [|tauto].
  unfold glob_match. cbn [p_segs p_dironly].
  destruct (if p_isglob p then _ else _); [|tauto].
  destruct b, (p_incl p); split; discriminate.
Qed.

Lemma gpat_match_set_neg b g path d : gpat_match (set_neg b g) path d = gpat_match g path d.
Proof. reflexivity. Qed.

(* negating a coherent pair keeps it coherent *)
Lemma coh_bang p g b : coh p g -> coh (set_incl b p) (set_neg b g).
Proof.
  intros (Hb & _ & Hc). split; [exact Hb|]. split; [reflexivity|].
  intros rel d Hne Hok. change (p_dom (set_incl b p)) with (p_dom p).
  rewrite pat_match_set_incl. apply Hc; assumption.
Qed.

(* ------------------------------------------------------------------ *)
(* plain name patterns are coherent                                    *)

(* git's verdict for prefix k of rel, for a basename pattern *)
Definition nm (b : bytes) (md d : bool) (rel : list bytes) (k : nat) : bool :=
  negb (md && negb (dirflag k (List.length rel) d)) && wildmatch b (last (firstn k rel) []).

Lemma last_cons_ne {A} (c : A) x dflt : x <> [] -> last (c :: x) dflt = last x dflt.
Proof. destruct x; [congruence|reflexivity]. Qed.

Lemma simple_name_prefix b md d : forall rel,
  simple_name_match b md d rel = true <->
  exists k, (0 < k <= List.length rel)%nat /\ nm b md d rel k = true.
Proof.
  induction rel as [|c rest IH]; cbn [simple_name_match].
  - split; [discriminate|]. intros (k & Hk & _). cbn in Hk. lia.
  - assert (Hshift : forall k', (0 < k' <= List.length rest)%nat ->
              nm b md d (c :: rest) (S k') = nm b md d rest k').
    { intros k' Hk. unfold nm. cbn [List.length firstn]. unfold dirflag. cbn [Nat.eqb].
      rewrite last_cons_ne; [reflexivity|].
      destruct rest; [cbn in Hk; lia|]. destruct k'; [lia|]. discriminate. }
    assert (H1 : nm b md d (c :: rest) 1 = negb (md && negb d && match rest with [] => true | _ => false end) && wildmatch b c).
    { unfold nm. cbn [firstn last List.length]. unfold dirflag.
      destruct rest, md, d; reflexivity. }
    destruct (wildmatch b c) eqn:W.
    + split.
      * intros H. exists 1%nat. split; [cbn; lia|]. rewrite H1, H. reflexivity.
      * intros (k & Hk & Hm). destruct k as [|[|k']]; [lia| |].
        -- rewrite H1 in Hm. now rewrite andb_true_r in Hm.
        -- cbn [List.length] in Hk. destruct rest; [cbn in Hk; lia|]. cbn. now rewrite andb_false_r.
    + rewrite IH. split.
      * intros (k' & Hk & Hm). exists (S k'). split; [cbn; lia|]. now rewrite Hshift.
      * intros (k & Hk & Hm). destruct k as [|[|k']]; [lia| |].
        -- rewrite H1 in Hm. now rewrite andb_false_r in Hm.
        -- exists (S k'). cbn [List.length] in Hk. split; [lia|]. rewrite <- Hshift by lia. exact Hm.
Qed.

Lemma last_app_ne {A} (a x : list A) dflt : x <> [] -> last (a ++ x) dflt = last x dflt.
Proof.
  intros H. induction a as [|c a IH]; [reflexivity|]. cbn [app].
  rewrite last_cons_ne; [exact IH|]. destruct a; [exact H|discriminate].
Qed.

Lemma name_coh dir body incl dironly ew nw :
  (forall name, match_basename (mkG body incl dironly true ew nw dir) name = wildmatch body name) ->
  coh (mkPat dir [body] incl dironly false) (mkG body incl dironly true ew nw dir).
Proof.
  intros Hbase. split; [reflexivity|]. split; [reflexivity|].
  intros rel d Hne Hok. cbn [p_dom].
  assert (Hpm : pat_match (mkPat dir [body] incl dironly false) (dir ++ rel) d <> NoMatch <->
                simple_name_match body dironly d rel = true).
  { unfold pat_match. cbn [p_dom p_isglob p_segs p_dironly p_incl hd].
    assert (Hl : Nat.leb (List.length (dir ++ rel)) (List.length dir) = false).
    { apply Nat.leb_gt. rewrite app_length. destruct rel; [congruence|cbn; lia]. }
    rewrite Hl, strip_domain_app.
    destruct (simple_name_match body dironly d rel); destruct incl; split; congruence. }
  rewrite Hpm, simple_name_prefix.
  split; intros (k & Hk & Hm); exists k; (split; [exact Hk|]).
  - unfold gpat_match. cbn [g_mustdir g_nodir]. unfold nm in Hm.
    apply andb_true_iff in Hm. destruct Hm as [Hm1 Hm2].
    apply negb_true_iff in Hm1. rewrite Hm1. rewrite Hbase.
    unfold last_comp. rewrite last_app_ne; [exact Hm2|].
    destruct rel; [congruence|]. destruct k; [lia|discriminate].
  - unfold gpat_match in Hm. cbn [g_mustdir g_nodir] in Hm. unfold nm.
    destruct (dironly && negb (dirflag k (List.length rel) d)); [discriminate|].
    rewrite Hbase in Hm. unfold last_comp in Hm. rewrite last_app_ne in Hm; [exact Hm|].
    destruct rel; [congruence|]. destruct k; [lia|discriminate].
Qed.

(* a name line without "!" *)
Lemma name_line_coh l dir g :
  nospace l -> is_bang l = false -> has_slash (body_of_line l) = false ->
  glob_of (body_of_line l) = Some g ->
  coh (parse_pattern l dir) (gparse l dir) /\ p_dom (parse_pattern l dir) = dir.
Proof.
  intros Hns Hb Hs Hg.
  assert (Hb' : match l with c :: _ => c =? cBANG | [] => false end = false) by exact Hb.
  rewrite (parse_name l dir Hns Hb' Hs). split; [|reflexivity].
  rewrite (gparse_name l dir Hb' Hs).
  apply name_coh. intros name.
  rewrite <- (gparse_name l dir Hb' Hs). eapply basename_name; eassumption.
Qed.
