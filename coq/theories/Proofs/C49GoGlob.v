(* Proofs/C49GoGlob.v — go-git's globMatch on the patterns of the fragment:
   it accepts a path exactly when the segments match a non-empty leading part
   of it, component by component (the greedy scan after a "**" loses nothing
   when exactly one segment follows each run of "**"). *)
From Coq Require Import List NArith Bool Lia PeanoNat.
From GoGit Require Import Base.Out Model.Gitignore Spec.Glob Spec.PathGlob Spec.GitIgnore
     Proofs.C49Total Proofs.C49Wild Proofs.C49Path Proofs.C49Names Proofs.C49Walk Proofs.C49Segs.
Import ListNotations.
Local Open Scope N_scope.

(* a pattern segment (bytes) and what it denotes *)
Definition seg_den (s : bytes) (x : pseg) : Prop :=
  (x = SDirs /\ s = dstar) \/
  (exists g, x = SReg g /\ glob_of s = Some g /\ is_nil s = false /\ beq s dstar = false).

(* the shapes go-git's scan handles like git: plain segments, then groups of
   one or more "**" followed by exactly one plain segment *)
Inductive gst := GR | GD | GT.
Fixpoint shape (st : gst) (F : list pseg) : bool :=
  match F with
  | [] => match st with GD => false | _ => true end
  | SReg _ :: r => match st with GR => shape GR r | GD => shape GT r | GT => false end
  | SDirs :: r => shape GD r
  end.

Lemma skipn_skipn' {A} a : forall b (l : list A), skipn a (skipn b l) = skipn (b + a) l.
Proof.
  induction b as [|b IH]; intros l; [reflexivity|].
  destruct l as [|x l]; [now rewrite !skipn_nil|]. cbn [skipn Nat.add]. apply IH.
Qed.

Section Go.
Variables (dironly isdir : bool).

Definition fin (path : list bytes) : Prop := path = [] -> negb (dironly && negb isdir) = true.

(* the segments match a non-empty leading part pr of the path; when that is
   the whole path, a directory-only pattern needs a directory *)
Definition GG (F : list pseg) (path : list bytes) : Prop :=
  exists pr suf, path = pr ++ suf /\ SMatch F pr /\ fin suf.

Lemma finish_true path :
  (if true && dironly && negb isdir && (is_nil path || false) then false else true) = true <-> fin path.
Proof.
  unfold fin. destruct path as [|e r]; destruct dironly, isdir; cbn; split; intros H;
    try discriminate; auto; try (now specialize (H eq_refl)).
Qed.

Lemma traverse_spec s : forall path,
  match traverse s path with
  | None => forall e, In e path -> wildmatch s e = false
  | Some rem => exists pre e, path = pre ++ e :: rem /\ wildmatch s e = true /\
                              forall x, In x pre -> wildmatch s x = false
  end.
Proof.
  induction path as [|e r IH]; cbn [traverse]; [intros ? []|].
  destruct (wildmatch s e) eqn:W.
  - exists [], e. repeat split; [assumption|intros ? []].
  - destruct (traverse s r) as [rem|].
    + destruct IH as (pre & e0 & -> & We & Hpre). exists (e :: pre), e0.
      repeat split; [assumption|]. intros x [<-|Hx]; [assumption|now apply Hpre].
    + intros x [<-|Hx]; [assumption|now apply IH].
Qed.

Lemma SMatch_dirs_prepend F mid cs : SMatch (SDirs :: F) cs -> SMatch (SDirs :: F) (mid ++ cs).
Proof. intros H. induction mid as [|c m IH]; [exact H|]. cbn [app]. now apply SM_dirsS. Qed.

Lemma SMatch_dirs_dirs F cs : SMatch (SDirs :: SDirs :: F) cs <-> SMatch (SDirs :: F) cs.
Proof.
  split.
  - intros H. apply SMatch_dirs_iff in H. destruct H as [k Hk].
    apply SMatch_dirs_iff in Hk. destruct Hk as [k' Hk'].
    apply SMatch_dirs_iff. exists (k + k')%nat. now rewrite <- skipn_skipn'.
  - intros H. now apply SM_dirs0.
Qed.

Lemma glob_loop_spec : forall F,
  (shape GD F = true -> forall segs path m, Forall2 seg_den segs F ->
     (glob_loop segs dironly isdir path m true = true <-> GG (SDirs :: F) path)) /\
  (shape GT F = true -> forall segs path, Forall2 seg_den segs F ->
     (glob_loop segs dironly isdir path true false = true <->
      match F with [] => fin path | _ => GG F path end)) /\
  (shape GR F = true -> F <> [] -> forall segs path m, Forall2 seg_den segs F ->
     (glob_loop segs dironly isdir path m false = true <-> GG F path)).
Proof.
  induction F as [|x F' (IHD & IHT & IHR)].
  { split; [discriminate|]. split; [|congruence].
    intros _ segs path HF. inversion HF; subst. cbn [glob_loop]. apply finish_true. }
  split; [|split].
  - (* after "**" *)
    intros Hsh segs path m HF. inversion HF as [|s x0 segs' F0 Hden HF']; subst.
    destruct x as [g|].
    + (* the one plain segment: first component that matches *)
      destruct Hden as [[Hx _]|(g0 & Hx & Hg & Hnil & Hds)]; [discriminate|]. inversion Hx; subst g0.
      cbn [shape] in Hsh. cbn [glob_loop]. rewrite Hnil, Hds.
      assert (HW : forall e, wildmatch s e = true <-> Gmatch g e)
        by (intros e; now apply wildmatch_sound_complete).
      destruct path as [|e0 path0].
      { split; [discriminate|]. intros (pr & suf & E & Hm & _).
        apply SMatch_nonempty in Hm. destruct pr; [congruence|discriminate]. }
      pose proof (traverse_spec s (e0 :: path0)) as Htr.
      destruct (traverse s (e0 :: path0)) as [rem|].
      * destruct Htr as (pre & e & Epath & We & Hpre). rewrite Epath.
        rewrite (IHT Hsh segs' rem HF'). split.
        -- intros H. destruct F' as [|y F''].
           ++ exists (pre ++ [e]), rem. split; [now rewrite <- app_assoc|]. split; [|exact H].
              apply SMatch_dirs_iff. exists (List.length pre).
              rewrite skipn_app, skipn_all, Nat.sub_diag. cbn. constructor. now apply HW.
           ++ destruct H as (pr' & suf & -> & Hm & Hfin).
              exists (pre ++ e :: pr'), suf. split; [now rewrite <- app_assoc|]. split; [|exact Hfin].
              apply SMatch_dirs_iff. exists (List.length pre).
              rewrite skipn_app, skipn_all, Nat.sub_diag. cbn [skipn app].
              apply SM_reg; [discriminate|now apply HW|assumption].
        -- intros (pr & suf & E & Hm & Hfin).
           apply SMatch_dirs_iff in Hm. destruct Hm as [k Hk].
           (* the component the witness uses *)
           assert (Hc : exists c cs', skipn k pr = c :: cs' /\ Gmatch g c /\
                        match F' with [] => cs' = [] | _ => SMatch F' cs' end).
           { inversion Hk; subst; eauto. eexists _, _. split; [reflexivity|]. split; [assumption|].
             destruct F'; [congruence|assumption]. }
           destruct Hc as (c & cs' & Esk & Hgc & Hrest).
           assert (Epr : pr = firstn k pr ++ c :: cs') by (rewrite <- Esk; symmetry; apply firstn_skipn).
           rewrite Epr, <- app_assoc in E. cbn [app] in E.
           (* pre ++ e :: rem = firstn k pr ++ c :: cs' ++ suf, and nothing in pre matches *)
           assert (Hcmp : forall (a b : list bytes) x y ra rb,
                     a ++ x :: ra = b ++ y :: rb ->
                     (forall z, In z a -> wildmatch s z = false) -> wildmatch s y = true ->
                     (a = b /\ x = y /\ ra = rb) \/ exists mid, ra = mid ++ y :: rb).
           { clear. induction a as [|a0 a IH]; intros b x y ra rb E Ha Wy.
             - destruct b as [|b0 b]; cbn in E; inversion E; subst; [left; auto|].
               right. exists b. reflexivity.
             - destruct b as [|b0 b]; cbn in E; inversion E; subst.
               + rewrite (Ha y (or_introl eq_refl)) in Wy. discriminate.
               + destruct (IH b x y ra rb H1 (fun z Hz => Ha z (or_intror Hz)) Wy) as [(-> & -> & ->)|Hm];
                   [left; auto|right; exact Hm]. }
           destruct (Hcmp _ _ _ _ _ _ E Hpre (proj2 (HW c) Hgc)) as [(_ & _ & ->)|(mid & ->)].
           ++ destruct F' as [|y F'']; [now subst cs'|].
              exists cs', suf. repeat split; assumption.
           ++ destruct F' as [|y F''].
              ** intros Habs. destruct mid; discriminate.
              ** destruct y as [gy|]; [cbn in Hsh; discriminate|].
                 exists (mid ++ c :: cs'), suf. split; [now rewrite <- app_assoc|]. split; [|exact Hfin].
                 change (c :: cs') with ([c] ++ cs'). rewrite app_assoc.
                 now apply SMatch_dirs_prepend.
      * split; [discriminate|]. intros (pr & suf & E & Hm & _).
        apply SMatch_dirs_iff in Hm. destruct Hm as [k Hk].
        assert (Hc : exists c cs', skipn k pr = c :: cs' /\ Gmatch g c) by (inversion Hk; subst; eauto).
        destruct Hc as (c & cs' & Esk & Hgc).
        assert (In c (e0 :: path0)).
        { rewrite E. apply in_or_app. left. rewrite <- (firstn_skipn k pr), Esk.
          apply in_or_app. right. now left. }
        destruct (HW c) as [_ HW']. specialize (HW' Hgc). rewrite (Htr _ H) in HW'. discriminate.
    + (* another "**" *)
      destruct Hden as [[_ ->]|(g0 & Hx & _)]; [|discriminate].
      cbn [shape] in Hsh. cbn [glob_loop].
      change (is_nil dstar) with false. change (beq dstar dstar) with true. cbn iota.
      assert (Hne : is_nil segs' = false).
      { destruct F'; [discriminate|]. inversion HF'; reflexivity. }
      rewrite Hne. rewrite (IHD Hsh segs' path m HF').
      unfold GG. split; intros (pr & suf & E & Hm & Hfin); exists pr, suf; (split; [exact E|]);
        (split; [|exact Hfin]); now apply SMatch_dirs_dirs.
  - (* after the segment that follows a "**" *)
    intros Hsh segs path HF. inversion HF as [|s x0 segs' F0 Hden HF']; subst.
    destruct x as [g|]; [discriminate|].
    destruct Hden as [[_ ->]|(g0 & Hx & _)]; [|discriminate].
    cbn [shape] in Hsh. cbn [glob_loop].
    change (is_nil dstar) with false. change (beq dstar dstar) with true. cbn iota.
    assert (Hne : is_nil segs' = false).
    { destruct F'; [discriminate|]. inversion HF'; reflexivity. }
    rewrite Hne. apply (IHD Hsh segs' path true HF').
  - (* the leading plain segments *)
    intros Hsh _ segs path m HF. inversion HF as [|s x0 segs' F0 Hden HF']; subst.
    destruct x as [g|].
    + destruct Hden as [[Hx _]|(g0 & Hx & Hg & Hnil & Hds)]; [discriminate|]. inversion Hx; subst g0.
      cbn [shape] in Hsh. cbn [glob_loop]. rewrite Hnil, Hds.
      assert (HW : forall e, wildmatch s e = true <-> Gmatch g e)
        by (intros e; now apply wildmatch_sound_complete).
      destruct path as [|e path'].
      { split; [discriminate|]. intros (pr & suf & E & Hm & _).
        apply SMatch_nonempty in Hm. destruct pr; [congruence|discriminate]. }
      cbn [negb]. destruct (wildmatch s e) eqn:We; cbn [negb].
      * destruct F' as [|y F''].
        -- inversion HF'; subst. cbn [glob_loop is_nil negb andb].
           rewrite andb_false_r. cbn [negb]. rewrite finish_true. split.
           ++ intros H. exists [e], path'. repeat split; [|exact H]. constructor. now apply HW.
           ++ intros (pr & suf & E & Hm & Hfin). inversion Hm; subst; [|congruence].
              cbn in E. inversion E; subst. exact Hfin.
        -- rewrite (IHR Hsh ltac:(discriminate) segs' path' _ HF'). split.
           ++ intros (pr & suf & -> & Hm & Hfin). exists (e :: pr), suf.
              repeat split; [|exact Hfin]. apply SM_reg; [discriminate|now apply HW|assumption].
           ++ intros (pr & suf & E & Hm & Hfin). inversion Hm; subst.
              cbn in E. inversion E; subst. exists cs, suf. repeat split; assumption.
      * split; [discriminate|]. intros (pr & suf & E & Hm & _).
        assert (Gmatch g e).
        { inversion Hm; subst; cbn in E; inversion E; subst; assumption. }
        apply HW in H. congruence.
    + destruct Hden as [[_ ->]|(g0 & Hx & _)]; [|discriminate].
      cbn [shape] in Hsh. cbn [glob_loop].
      change (is_nil dstar) with false. change (beq dstar dstar) with true. cbn iota.
      assert (Hne : is_nil segs' = false).
      { destruct F'; [discriminate|]. inversion HF'; reflexivity. }
      rewrite Hne. apply (IHD Hsh segs' path m HF').
Qed.

End Go.
