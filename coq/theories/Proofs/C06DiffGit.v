(* Proofs/C06DiffGit.v — git's patch_delta applied to diffDelta's output gives
   the target back (whenever the target is not empty: git refuses the 2-byte
   delta of an empty target, finding below-git-min-delta-size). *)
From Coq Require Import List NArith Arith Lia Bool.
From Coq Require Import ZifyBool ZifyNat ZifyN.
From GoGit Require Import Base.Out Model.Delta Spec.GitDelta Proofs.C06Apply Proofs.C06Diff.
Import ListNotations.
Local Open Scope N_scope.

(* ---------------------------------------------------------------- every emitted byte is a byte *)
Lemma bytes_ok_cons x l : bytes_ok (x :: l) = (x <? 256) && bytes_ok l.
Proof. reflexivity. Qed.

Lemma bytes_ok_firstn n b : bytes_ok b = true -> bytes_ok (firstn n b) = true.
Proof.
  intros H. rewrite <- (firstn_skipn n b), bytes_ok_app in H. apply andb_true_iff in H. tauto.
Qed.

Lemma bytes_ok_take n b : bytes_ok b = true -> bytes_ok (take n b) = true.
Proof. rewrite take_firstn. apply bytes_ok_firstn. Qed.

Lemma bytes_ok_rev b : bytes_ok (rev b) = bytes_ok b.
Proof.
  induction b as [|x b IH]; [reflexivity|]. cbn [rev]. rewrite bytes_ok_app, IH, bytes_ok_cons.
  cbn [bytes_ok forallb]. rewrite andb_true_r. apply andb_comm.
Qed.

Lemma enc_leb_go_ok : forall f n, bytes_ok (enc_leb_go f n) = true.
Proof.
  induction f as [|f IH]; intros n; [reflexivity|]. cbn [enc_leb_go]. cbv zeta.
  pose proof (land127_le n) as H127.
  destruct (N.shiftr n 7 =? 0).
  - rewrite bytes_ok_cons. cbn [bytes_ok forallb]. rewrite andb_true_r. apply N.ltb_lt. lia.
  - rewrite bytes_ok_cons, IH, andb_true_r. apply N.ltb_lt.
    apply (lor_lt_pow2 _ _ 8); change (2 ^ 8) with 256; [lia|vm_compute; reflexivity].
Qed.

Lemma enc_leb_go_nonnil f n : enc_leb_go (S f) n <> [].
Proof. cbn [enc_leb_go]. cbv zeta. destruct (N.shiftr n 7 =? 0); discriminate. Qed.

Lemma enc_leb_len n : 1 <= len (enc_leb n).
Proof.
  unfold enc_leb. pose proof (enc_leb_go_nonnil (N.to_nat (N.size n)) n).
  destruct (enc_leb_go _ _); [congruence|]. unfold len. cbn [List.length]. lia.
Qed.

Lemma enc_insert_go_ok : forall fuel b, bytes_ok b = true -> bytes_ok (enc_insert_go fuel b) = true.
Proof.
  induction fuel as [|fuel IH]; intros b Hb; [reflexivity|]. cbn [enc_insert_go].
  destruct (is_nil b); [reflexivity|]. destruct (127 <? len b) eqn:E.
  - rewrite bytes_ok_cons, bytes_ok_app, bytes_ok_take, IH by (try apply bytes_ok_drop; assumption). reflexivity.
  - apply N.ltb_ge in E. rewrite bytes_ok_cons, Hb, andb_true_r. apply N.ltb_lt. lia.
Qed.

Lemma enc_insert_go_len : forall fuel b, b <> [] -> (2 <= List.length (enc_insert_go (S fuel) b))%nat.
Proof.
  intros fuel b Hb. cbn [enc_insert_go]. destruct b as [|x b']; [congruence|]. cbn [is_nil].
  destruct (127 <? len (x :: b')); cbn [List.length].
  - rewrite take_firstn. change (N.to_nat 127) with (S 126). cbn [firstn app List.length]. lia.
  - lia.
Qed.

Lemma field_byte_lt v i : field_byte v i < 256.
Proof.
  unfold field_byte. change 256 with (2 ^ 8). apply lt_pow2_shiftr.
  rewrite N.shiftr_shiftr, N.shiftr_land, N.shiftr_shiftl_r by lia.
  replace (8 * i + 8 - 8 * i) with 8 by lia. change (N.shiftr 255 8) with 0. apply N.land_0_r.
Qed.

Lemma enc_list_snd_ok : forall es bit, bytes_ok es = true -> bytes_ok (snd (enc_list bit es)) = true.
Proof.
  induction es as [|e t IH]; intros bit H; [reflexivity|].
  rewrite bytes_ok_cons in H. apply andb_true_iff in H as [He Ht].
  cbn [enc_list]. specialize (IH (2 * bit) Ht). destruct (enc_list (2 * bit) t) as [code bs].
  cbn [snd] in IH. destruct (e =? 0); cbn [snd]; [assumption|]. rewrite bytes_ok_cons, He, IH. reflexivity.
Qed.

Lemma enc_list_cmd_lt e0 e1 e2 e3 s0 s1 s2 :
  N.lor 128 (N.lor (fst (enc_list 1 [e0; e1; e2; e3])) (fst (enc_list 16 [s0; s1; s2]))) < 256.
Proof.
  cbn [enc_list].
  destruct (e0 =? 0), (e1 =? 0), (e2 =? 0), (e3 =? 0), (s0 =? 0), (s1 =? 0), (s2 =? 0);
    cbn [fst]; vm_compute; reflexivity.
Qed.

Lemma enc_copy_ok off l : bytes_ok (enc_copy off l) = true.
Proof.
  unfold enc_copy. rewrite enc_fields_list4, enc_fields_list3.
  pose proof (enc_list_cmd_lt (field_byte off 0) (field_byte off 1) (field_byte off 2) (field_byte off 3)
                              (field_byte l 0) (field_byte l 1) (field_byte l 2)) as Hc.
  assert (Ho : bytes_ok [field_byte off 0; field_byte off 1; field_byte off 2; field_byte off 3] = true).
  { cbn [bytes_ok forallb]. rewrite !andb_true_r.
    repeat (apply andb_true_iff; split); apply N.ltb_lt; apply field_byte_lt. }
  assert (Hl : bytes_ok [field_byte l 0; field_byte l 1; field_byte l 2] = true).
  { cbn [bytes_ok forallb]. rewrite !andb_true_r.
    repeat (apply andb_true_iff; split); apply N.ltb_lt; apply field_byte_lt. }
  pose proof (enc_list_snd_ok _ 1 Ho) as H1. pose proof (enc_list_snd_ok _ 16 Hl) as H2.
  destruct (enc_list 1 [field_byte off 0; field_byte off 1; field_byte off 2; field_byte off 3]) as [c1 b1].
  destruct (enc_list 16 [field_byte l 0; field_byte l 1; field_byte l 2]) as [c2 b2].
  cbn [fst snd] in *. rewrite bytes_ok_cons, bytes_ok_app, H1, H2. cbn [andb]. rewrite andb_true_r.
  apply N.ltb_lt. exact Hc.
Qed.

Lemma enc_copy_len off l : 1 <= l -> l < 2 ^ 24 -> (2 <= List.length (enc_copy off l))%nat.
Proof.
  intros H1 H24. unfold enc_copy. rewrite enc_fields_list3.
  destruct (enc_fields 4 0 1 off) as [c1 b1].
  pose proof (recompose3 l H24) as R. unfold lor3 in R. cbn [enc_list].
  destruct (field_byte l 0 =? 0) eqn:E0; destruct (field_byte l 1 =? 0) eqn:E1; destruct (field_byte l 2 =? 0) eqn:E2;
    cbn [List.length]; rewrite ?app_length; cbn [List.length]; try lia.
  apply N.eqb_eq in E0, E1, E2. rewrite E0, E1, E2 in R. cbn in R. lia.
Qed.

Lemma enc_copies_ok : forall fuel off l, bytes_ok (enc_copies fuel off l) = true.
Proof.
  induction fuel as [|fuel IH]; intros off l; [reflexivity|]. cbn [enc_copies].
  destruct (l =? 0); [reflexivity|]. destruct (l <? max_copy_size); [apply enc_copy_ok|].
  rewrite bytes_ok_app, enc_copy_ok, IH. reflexivity.
Qed.

Lemma enc_copy_run_len off l : 1 <= l -> (2 <= List.length (enc_copy_run off l))%nat.
Proof.
  intros H1. unfold enc_copy_run. cbn [enc_copies]. unfold max_copy_size.
  assert (E : l =? 0 = false) by (apply N.eqb_neq; lia). rewrite E.
  destruct (l <? 65536) eqn:E2.
  - apply N.ltb_lt in E2. apply enc_copy_len; [assumption|].
    apply N.lt_trans with 65536; [assumption|vm_compute; reflexivity].
  - rewrite app_length. pose proof (enc_copy_len off 65536 ltac:(lia) ltac:(vm_compute; reflexivity)). lia.
Qed.

(* ---------------------------------------------------------------- the main loop again *)
Lemma diff_loop_ok src pick : forall fuel t i ib ops,
  bytes_ok t = true -> bytes_ok ib = true ->
  diff_loop fuel pick src t i ib = Some ops -> bytes_ok ops = true.
Proof.
  induction fuel as [|fuel IH]; intros t i ib ops Ht Hib H; [discriminate|].
  cbn [diff_loop] in H.
  assert (Hins : forall b, bytes_ok b = true -> bytes_ok (enc_insert b) = true)
    by (intros b Hb; apply enc_insert_go_ok; exact Hb).
  assert (Hrev : bytes_ok (rev ib) = true) by (rewrite bytes_ok_rev; exact Hib).
  destruct t as [|c t'].
  - inversion H; subst. apply Hins. exact Hrev.
  - destruct (shorter (c :: t') blk).
    { inversion H; subst. apply Hins. rewrite bytes_ok_app, Hrev, Ht. reflexivity. }
    destruct (shorter src blk).
    { inversion H; subst. apply Hins. rewrite bytes_ok_app, Hrev, Ht. reflexivity. }
    pose proof Ht as Ht0. rewrite bytes_ok_cons in Ht. apply andb_true_iff in Ht as [Hc Ht'].
    assert (Hone : forall ops', diff_loop fuel pick src t' (S i) (c :: ib) = Some ops' -> bytes_ok ops' = true).
    { intros ops' H'. eapply IH; [exact Ht'| |exact H']. rewrite bytes_ok_cons, Hc, Hib. reflexivity. }
    destruct (pick i) as [off|]; [|cbn [Nat.eqb] in H; apply Hone; exact H].
    set (l := common_prefix (skipn off src) (c :: t')) in *.
    destruct (Nat.eqb l 0); [apply Hone; exact H|].
    destruct (Nat.ltb l blk).
    + eapply IH; [| |exact H].
      * apply bytes_ok_skipn. exact Ht0.
      * rewrite bytes_ok_app, bytes_ok_rev, bytes_ok_firstn, Hib by exact Ht0. reflexivity.
    + destruct (diff_loop fuel pick src (skipn l (c :: t')) (i + l) []) as [rest|] eqn:Hrec; [|discriminate].
      inversion H; subst ops.
      rewrite !bytes_ok_app, (Hins _ Hrev). unfold enc_copy_run. rewrite enc_copies_ok. cbn [andb].
      apply (IH (skipn l (c :: t')) (i + l)%nat [] rest); [apply bytes_ok_skipn; exact Ht0|reflexivity|exact Hrec].
Qed.

Lemma diff_loop_len src pick : forall fuel t i ib ops,
  diff_loop fuel pick src t i ib = Some ops -> rev ib ++ t <> [] -> (2 <= List.length ops)%nat.
Proof.
  induction fuel as [|fuel IH]; intros t i ib ops H Hne; [discriminate|].
  cbn [diff_loop] in H.
  assert (Hins : forall b, b <> [] -> (2 <= List.length (enc_insert b))%nat)
    by (intros b Hb; apply enc_insert_go_len; exact Hb).
  destruct t as [|c t'].
  - inversion H; subst. apply Hins. rewrite app_nil_r in Hne. exact Hne.
  - assert (Hnn : rev ib ++ c :: t' <> []) by (destruct (rev ib); discriminate).
    destruct (shorter (c :: t') blk). { inversion H; subst. apply Hins. exact Hnn. }
    destruct (shorter src blk). { inversion H; subst. apply Hins. exact Hnn. }
    assert (Hone : forall ops', diff_loop fuel pick src t' (S i) (c :: ib) = Some ops' -> (2 <= List.length ops')%nat).
    { intros ops' H'. eapply IH; [exact H'|]. cbn [rev]. destruct (rev ib); discriminate. }
    destruct (pick i) as [off|]; [|cbn [Nat.eqb] in H; apply Hone; exact H].
    set (l := common_prefix (skipn off src) (c :: t')) in *.
    destruct (Nat.eqb l 0) eqn:El0; [apply Hone; exact H|]. apply Nat.eqb_neq in El0.
    destruct (common_prefix_spec (skipn off src) (c :: t')) as (_ & _ & Hlt). fold l in Hlt. cbn [List.length] in Hlt.
    destruct (Nat.ltb l blk).
    + eapply IH; [exact H|].
      * rewrite rev_app_distr, rev_involutive. intro E. apply app_eq_nil in E as [E _]. apply app_eq_nil in E as [_ E].
        destruct l; [congruence|]. discriminate.
    + destruct (diff_loop fuel pick src (skipn l (c :: t')) (i + l) []) as [rest|]; [|discriminate].
      inversion H; subst ops. rewrite !app_length.
      assert (2 <= List.length (enc_copy_run (N.of_nat off) (N.of_nat l)))%nat; [|lia].
      apply enc_copy_run_len. lia.
Qed.

(* ---------------------------------------------------------------- git applies diffDelta's output *)
Lemma diff_git pick src tgt :
  bytes_ok tgt = true -> tgt <> [] -> len src <= 2 ^ 32 -> len tgt < 2 ^ 63 ->
  exists d, diff_delta pick src tgt = Some d /\ git_patch_delta src d = GOk tgt.
Proof.
  intros Hok Hne H32 H63.
  destruct (diff_roundtrip pick src tgt H32 H63) as (d & Hd & Hp).
  exists d. split; [assumption|].
  assert (Hs63 : len src < 2 ^ 63) by (pose proof pow32_63; lia).
  unfold diff_delta in Hd.
  destruct (diff_loop (S (List.length tgt)) pick src tgt 0 []) as [ops|] eqn:Hl; [|discriminate].
  inversion Hd; subst d. clear Hd.
  pose proof (diff_loop_ok src pick (S (List.length tgt)) tgt 0%nat [] ops Hok eq_refl Hl) as Hopsok.
  pose proof (diff_loop_len src pick _ _ _ _ _ Hl ltac:(cbn [rev app]; exact Hne)) as Hopslen.
  rewrite <- (apply_eq_git src).
  - rewrite Hp. reflexivity.
  - unfold enc_leb. rewrite !bytes_ok_app, !enc_leb_go_ok, Hopsok. reflexivity.
  - unfold git_guard. apply andb_true_iff. split.
    + apply N.leb_le. rewrite !len_app.
      pose proof (enc_leb_len (len src)). pose proof (enc_leb_len (len tgt)).
      assert (2 <= len ops) by (unfold len; lia). lia.
    + rewrite leb_buf_enc_leb by assumption.
      assert (Hnn : is_nil (enc_leb (len tgt) ++ ops) = false).
      { unfold enc_leb. pose proof (enc_leb_go_nonnil (N.to_nat (N.size (len tgt))) (len tgt)).
        destruct (enc_leb_go _ _); [congruence|reflexivity]. }
      rewrite Hnn. cbn [negb andb]. rewrite leb_buf_enc_leb by assumption. reflexivity.
Qed.
