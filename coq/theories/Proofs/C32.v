(* Proofs/C32.v — SkipUnless selects exactly the entries inside a selected directory. *)
From Coq Require Import List NArith Arith Lia Bool.
From GoGit Require Import Base.Out Model.SparseCheckout Spec.SparseSpec.
Import ListNotations.
Local Open Scope N_scope.

Lemma bytes_eqb_refl a : bytes_eqb a a = true.
Proof. induction a; cbn; [reflexivity|]. now rewrite N.eqb_refl. Qed.

Lemma bytes_eqb_eq a b : bytes_eqb a b = true <-> a = b.
Proof.
  revert b. induction a as [|x a IH]; destruct b as [|y b]; cbn; split; try congruence; try discriminate.
  - intros H. apply andb_true_iff in H as [H1 H2]. apply N.eqb_eq in H1. apply IH in H2. congruence.
  - intros H. inversion H; subst. rewrite N.eqb_refl. cbn. now apply IH.
Qed.

Lemma bytes_eqb_neq a b : bytes_eqb a b = false <-> a <> b.
Proof.
  split; intros H.
  - intros E. apply bytes_eqb_eq in E. congruence.
  - destruct (bytes_eqb a b) eqn:E; [|reflexivity]. apply bytes_eqb_eq in E. contradiction.
Qed.

Lemma has_prefix_iff p s : has_prefix p s = true <-> exists r, s = p ++ r.
Proof.
  revert s. induction p as [|x p IH]; intros s; cbn.
  - split; [intros _; now exists s|reflexivity].
  - destruct s as [|y s].
    + split; [discriminate|]. intros [r H]. discriminate.
    + rewrite andb_true_iff, N.eqb_eq, IH. split.
      * intros [-> [r ->]]. now exists r.
      * intros [r H]. inversion H; subst. split; [reflexivity|now exists r].
Qed.

Lemma pat_match_iff d p : pat_match d p = true <-> Inside d p.
Proof.
  unfold pat_match, Inside. rewrite orb_true_iff, bytes_eqb_eq, has_prefix_iff.
  split; intros [H|[r H]]; auto; right; exists r; rewrite H; rewrite <- ?app_assoc; reflexivity.
Qed.

Lemma included_iff D p : included D p = true <-> Selected D p.
Proof.
  unfold included, Selected. rewrite existsb_exists.
  split; intros [d [H1 H2]]; exists d; split; auto; now apply pat_match_iff.
Qed.

Lemma skip_unless_names D es : map e_name (skip_unless D es) = map e_name es.
Proof. unfold skip_unless. rewrite map_map. reflexivity. Qed.

Lemma skip_unless_data D es : map e_data (skip_unless D es) = map e_data es.
Proof. unfold skip_unless. rewrite map_map. reflexivity. Qed.

Lemma skip_unless_exact D es e :
  In e (skip_unless D es) -> (e_skip e = false <-> Selected D (e_name e)).
Proof.
  unfold skip_unless. intros H. apply in_map_iff in H as [e0 [<- _]]. cbn.
  rewrite negb_false_iff. apply included_iff.
Qed.

Lemma skip_unless_length D es : List.length (skip_unless D es) = List.length es.
Proof. unfold skip_unless. apply map_length. Qed.

(* ---- whole path components ---- *)
Lemma split_go_app cur a b :
  split_go cur (a ++ SEP :: b) = split_go cur a ++ split_go [] b.
Proof.
  revert cur. induction a as [|c a IH]; intros cur; cbn [app split_go].
  - rewrite N.eqb_refl. reflexivity.
  - destruct (c =? SEP); [rewrite IH; reflexivity|apply IH].
Qed.

Lemma split_go_nonnil cur s : split_go cur s <> [].
Proof. revert cur. induction s as [|c s IH]; intros cur; cbn; [discriminate|]. destruct (c =? SEP); [discriminate|apply IH]. Qed.

(* join with '/' is a left inverse of split *)
Fixpoint join (l : list bytes) : bytes :=
  match l with
  | [] => []
  | [x] => x
  | x :: r => x ++ SEP :: join r
  end.

Lemma join_split cur s : join (split_go cur s) = cur ++ s.
Proof.
  revert cur. induction s as [|c s IH]; intros cur; cbn [split_go].
  - cbn. now rewrite app_nil_r.
  - destruct (c =? SEP) eqn:E.
    + apply N.eqb_eq in E. subst c. specialize (IH []).
      destruct (split_go [] s) eqn:Es; [now apply split_go_nonnil in Es|].
      cbn [join]. cbn [join] in IH. rewrite IH. reflexivity.
    + rewrite IH. rewrite <- app_assoc. reflexivity.
Qed.

Lemma join_app_cons l x r : l <> [] -> join (l ++ x :: r) = join l ++ SEP :: join (x :: r).
Proof.
  induction l as [|y l IH]; [congruence|]. intros _.
  destruct l as [|z l].
  - reflexivity.
  - change ((y :: z :: l) ++ x :: r) with (y :: ((z :: l) ++ x :: r)).
    assert (E : forall a b m, join (a :: b :: m) = a ++ SEP :: join (b :: m)) by reflexivity.
    cbn [app]. rewrite E. change (z :: l ++ x :: r) with ((z :: l) ++ x :: r).
    rewrite IH by discriminate. rewrite E. rewrite <- app_assoc. reflexivity.
Qed.

Lemma inside_components d p : Inside d p <-> ComponentPrefix d p.
Proof.
  unfold Inside, ComponentPrefix, components. split.
  - intros [->|[r ->]].
    + exists []. now rewrite app_nil_r.
    + exists (split_go [] r). apply split_go_app.
  - intros [l H].
    assert (Hp : join (split_go [] p) = p) by apply (join_split [] p).
    assert (Hd : join (split_go [] d) = d) by apply (join_split [] d).
    destruct l as [|x l].
    + left. rewrite app_nil_r in H. rewrite <- Hp, <- Hd. now rewrite H.
    + right. exists (join (x :: l)). rewrite <- Hp at 1. rewrite H.
      rewrite join_app_cons by apply split_go_nonnil. now rewrite Hd.
Qed.

Lemma pat_match_components d p : pat_match d p = true <-> ComponentPrefix d p.
Proof. rewrite pat_match_iff. apply inside_components. Qed.

(* ---- what the string-prefix condition (before the repair) got wrong ---- *)
Definition skip_unless_old (pats : list bytes) (es : list entry) : list entry :=
  map (fun e => mkE (e_name e) (e_data e) (negb (existsb (fun p => pat_match_old p (e_name e)) pats))) es.

Lemma old_prefix_refuted :
  exists D es e, In e (skip_unless_old D es) /\ e_skip e = false /\ ~ Selected D (e_name e).
Proof.
  exists [[97]], [mkE [97;98;47;121] [] false], (mkE [97;98;47;121] [] false).
  split; [vm_compute; auto|]. split; [reflexivity|].
  intros [d [[<-|[]] Hin]]. apply pat_match_iff in Hin. vm_compute in Hin. discriminate.
Qed.
