(* Proofs/C43.v — every commit walker of Model/CommitWalk.v is an instance of
   Proofs/Worklist.v. *)
From Coq Require Import List Arith ZArith Bool Lia.
From GoGit Require Import Spec.Dag Model.CommitWalk Proofs.Worklist.
Import ListNotations.

Lemma filter_length_le' : forall (f : node -> bool) l, length (filter f l) <= length l.
Proof. induction l as [|x r IH]; simpl; [lia|]. destruct (f x); simpl; lia. Qed.

Lemma forallb_present : forall g (l : list node), (forall x : node, In x l -> x < nnodes g) -> forallb (present g) l = true.
Proof.
  intros g l H. apply forallb_forall. intros x Hx. unfold present. apply Nat.ltb_lt. now apply H.
Qed.

(* ------------------------------------------------------------- pre-order *)
Lemma pop_frames_none : forall st, pop_frames st = None -> concat st = [].
Proof.
  induction st as [|f r IH]; intros H; [reflexivity|].
  destruct f as [|h t]; simpl in *; [now apply IH | discriminate].
Qed.

Lemma pop_frames_some : forall st h st', pop_frames st = Some (h, st') -> concat st = h :: concat st'.
Proof.
  induction st as [|f r IH]; intros h st' H; [discriminate|].
  destruct f as [|x t]; simpl in *.
  - now apply IH.
  - injection H as H1 H2. subst. reflexivity.
Qed.

Section Walkers.
  Variable g : dag.
  Hypothesis Hclosed : dag_closed g = true.
  Variable stop : node -> bool.

  Let n := nnodes g.
  Let w := fun c => length (parents g c).

  Lemma par_lt : forall c p : node, c < n -> In p (parents g c) -> p < n.
  Proof. intros c p _ H. eapply dag_closed_parent; eauto. Qed.

  (* pre-order instance *)
  Definition pre_pushed (c : node) (seen : list node) : list node :=
    filter (fun p => negb (mem p seen)) (parents g c).
  Definition pre_push (c : node) (seen : list node) (st : list (list node)) := pre_pushed c seen :: st.

  Definition pre_gloop := gloop (list (list node)) pop_frames pre_push stop.

  Lemma pre_loop_eq : forall fuel (st : list (list node)) (seen acc : list node),
    (forall x : node, In x (concat st) -> x < n) ->
    pre_loop g stop fuel st seen acc = pre_gloop fuel st seen acc.
  Proof.
    induction fuel as [|f IH]; intros st seen acc Hlt; [reflexivity|].
    simpl. destruct (pop_frames st) as [[h st']|] eqn:Ep; [|reflexivity].
    pose proof (pop_frames_some _ _ _ Ep) as Hc.
    assert (Hh : present g h = true).
    { unfold present. apply Nat.ltb_lt. apply Hlt. rewrite Hc. now left. }
    rewrite Hh. simpl.
    assert (Hlt' : forall x : node, In x (concat st') -> x < n).
    { intros x Hx. apply Hlt. rewrite Hc. now right. }
    destruct (mem h seen); [now apply IH|].
    destruct (stop h); [reflexivity|].
    apply IH. intros x Hx. unfold pre_push in Hx. simpl in Hx. apply in_app_or in Hx.
    destruct Hx as [Hx|Hx]; [|now apply Hlt'].
    unfold pre_pushed in Hx. apply filter_In in Hx. destruct Hx as [Hx _].
    eapply dag_closed_parent; eauto.
  Qed.

  Lemma pre_post : forall fuel (I : list node) (s : node) st seen acc,
    Inv (parents g) n (list (list node)) (@concat node) stop I s st seen acc ->
    length (concat st) + budget n w acc < fuel ->
    Post (parents g) stop I s (pre_gloop fuel st seen acc).
  Proof.
    intros. unfold pre_gloop.
    eapply (gloop_post (parents g) n w par_lt (list (list node)) (@concat node) pop_frames pre_push pre_pushed); eauto.
    - apply pop_frames_none.
    - intros b c b' Hp x. rewrite (pop_frames_some _ _ _ Hp). simpl. split; intros [Hx|Hx]; auto.
    - intros b c b' Hp. rewrite (pop_frames_some _ _ _ Hp). reflexivity.
    - intros c sn b x. unfold pre_push. simpl. apply in_app_iff.
    - intros c sn b. unfold pre_push. simpl. apply app_length.
    - intros c sn x Hx. unfold pre_pushed in Hx. apply filter_In in Hx. tauto.
    - intros c sn p Hp Hn. unfold pre_pushed. apply filter_In. split; [exact Hp|].
      apply negb_true_iff. now apply mem_false_In.
    - intros c sn. unfold pre_pushed, w. apply filter_length_le'.
  Qed.

  (* ----------------------------------------------------------- post-order *)
  Definition pop_list (st : list node) : option (node * list node) :=
    match st with [] => None | c :: r => Some (c, r) end.
  Definition post_pushed (c : node) (_ : list node) : list node := rev (parents g c).
  Definition post_push (c : node) (seen : list node) (st : list node) := post_pushed c seen ++ st.
  Definition post_gloop := gloop (list node) pop_list post_push stop.

  Lemma post_loop_eq : forall fuel (st seen acc : list node),
    (forall x : node, In x st -> x < n) ->
    post_loop g stop fuel st seen acc = post_gloop fuel st seen acc.
  Proof.
    induction fuel as [|f IH]; intros st seen acc Hlt; [reflexivity|].
    simpl. destruct st as [|c st']; [reflexivity|]. simpl.
    assert (Hlt' : forall x : node, In x st' -> x < n) by (intros x Hx; apply Hlt; now right).
    destruct (mem c seen); [now apply IH|].
    assert (Hp : forallb (present g) (parents g c) = true).
    { apply forallb_present. intros x Hx. eapply dag_closed_parent; eauto. }
    rewrite Hp. simpl.
    destruct (stop c); [reflexivity|].
    apply IH. intros x Hx. unfold post_push, post_pushed in Hx. apply in_app_or in Hx.
    destruct Hx as [Hx|Hx]; [|now apply Hlt'].
    apply in_rev in Hx. eapply dag_closed_parent; eauto.
  Qed.

  Lemma post_post : forall fuel (I : list node) (s : node) st seen acc,
    Inv (parents g) n (list node) (fun l => l) stop I s st seen acc ->
    length st + budget n w acc < fuel ->
    Post (parents g) stop I s (post_gloop fuel st seen acc).
  Proof.
    intros. unfold post_gloop.
    eapply (gloop_post (parents g) n w par_lt (list node) (fun l => l) pop_list post_push post_pushed); eauto.
    - intros b Hb. destruct b; [reflexivity | discriminate].
    - intros b c b' Hp x. destruct b; [discriminate|]. injection Hp as H1 H2. subst. simpl.
      split; intros [Hx|Hx]; auto.
    - intros b c b' Hp. destruct b; [discriminate|]. injection Hp as H1 H2. subst. reflexivity.
    - intros c sn b x. unfold post_push. apply in_app_iff.
    - intros c sn b. unfold post_push. apply app_length.
    - intros c sn x Hx. unfold post_pushed in Hx. now apply in_rev in Hx.
    - intros c sn p Hp _. unfold post_pushed. now apply in_rev in Hp.
    - intros c sn. unfold post_pushed, w. rewrite rev_length. lia.
  Qed.

  (* ------------------------------------------------ first-parent post-order *)
  Definition fp_succ (c : node) : list node :=
    match parents g c with [] => [] | p0 :: _ => [p0] end.
  Definition fp_pushed (c : node) (_ : list node) : list node := rev (first_parent_pushes (parents g c)).
  Definition fp_push (c : node) (seen : list node) (st : list node) := fp_pushed c seen ++ st.
  Definition fp_gloop := gloop (list node) pop_list fp_push stop.

  Lemma fp_lt : forall c p : node, c < n -> In p (fp_succ c) -> p < n.
  Proof.
    intros c p _ H. unfold fp_succ in H. destruct (parents g c) as [|p0 r] eqn:E; [contradiction|].
    destruct H as [H|[]]. subst p. eapply dag_closed_parent with (c := c); eauto. rewrite E. now left.
  Qed.

  Lemma first_parent_pushes_in : forall ps x, In x (first_parent_pushes ps) ->
    match ps with [] => False | p0 :: _ => x = p0 end.
  Proof.
    intros ps x H. destruct ps as [|p0 r]; [exact H|].
    unfold first_parent_pushes in H. apply filter_In in H. destruct H as [_ H].
    apply Nat.eqb_eq in H. now subst.
  Qed.

  Lemma postfp_loop_eq : forall fuel (st seen acc : list node),
    (forall x : node, In x st -> x < n) ->
    postfp_loop g stop fuel st seen acc = fp_gloop fuel st seen acc.
  Proof.
    induction fuel as [|f IH]; intros st seen acc Hlt; [reflexivity|].
    simpl. destruct st as [|c st']; [reflexivity|]. simpl.
    assert (Hlt' : forall x : node, In x st' -> x < n) by (intros x Hx; apply Hlt; now right).
    destruct (mem c seen); [now apply IH|].
    assert (Hp : forallb (present g) (parents g c) = true).
    { apply forallb_present. intros x Hx. eapply dag_closed_parent; eauto. }
    rewrite Hp. simpl.
    destruct (stop c); [reflexivity|].
    apply IH. intros x Hx. unfold fp_push, fp_pushed in Hx. apply in_app_or in Hx.
    destruct Hx as [Hx|Hx]; [|now apply Hlt'].
    apply in_rev in Hx. unfold first_parent_pushes in Hx.
    destruct (parents g c) as [|p0 r] eqn:E; [contradiction|].
    apply filter_In in Hx. destruct Hx as [Hx _].
    eapply dag_closed_parent with (c := c); eauto. now rewrite E.
  Qed.

  Lemma fp_post : forall fuel (I : list node) (s : node) st seen acc,
    Inv fp_succ n (list node) (fun l => l) stop I s st seen acc ->
    length st + budget n w acc < fuel ->
    Post fp_succ stop I s (fp_gloop fuel st seen acc).
  Proof.
    intros. unfold fp_gloop.
    eapply (gloop_post fp_succ n w fp_lt (list node) (fun l => l) pop_list fp_push fp_pushed); eauto.
    - intros b Hb. destruct b; [reflexivity | discriminate].
    - intros b c b' Hp x. destruct b; [discriminate|]. injection Hp as H1 H2. subst. simpl.
      split; intros [Hx|Hx]; auto.
    - intros b c b' Hp. destruct b; [discriminate|]. injection Hp as H1 H2. subst. reflexivity.
    - intros c sn b x. unfold fp_push. apply in_app_iff.
    - intros c sn b. unfold fp_push. apply app_length.
    - intros c sn x Hx. unfold fp_pushed in Hx. apply in_rev in Hx.
      apply first_parent_pushes_in in Hx. unfold fp_succ.
      destruct (parents g c); [contradiction|]. subst. now left.
    - intros c sn p Hp _. unfold fp_pushed. apply in_rev. rewrite rev_involutive.
      unfold fp_succ in Hp. unfold first_parent_pushes.
      destruct (parents g c) as [|p0 r]; [contradiction|]. destruct Hp as [Hp|[]]. subst p.
      apply filter_In. split; [now left | apply Nat.eqb_refl].
    - intros c sn. unfold fp_pushed, w. rewrite rev_length. unfold first_parent_pushes.
      destruct (parents g c) as [|p0 r]; [simpl; lia|]. apply filter_length_le'.
  Qed.

  (* ------------------------------------------------------------------ BFS *)
  Definition bfs_pushed (c : node) (seen : list node) : list node := unseen_parents g seen c.
  Definition bfs_push (c : node) (seen : list node) (q : list node) := q ++ bfs_pushed c seen.
  Definition bfs_gloop := gloop (list node) pop_list bfs_push stop.

  Lemma unseen_lt : forall (c : node) (seen : list node) (x : node), In x (unseen_parents g seen c) -> x < n.
  Proof.
    intros c seen x Hx. unfold unseen_parents in Hx. apply filter_In in Hx. destruct Hx as [Hx _].
    eapply dag_closed_parent; eauto.
  Qed.

  Lemma bfs_loop_eq : forall fuel (q seen acc : list node),
    (forall x : node, In x q -> x < n) ->
    bfs_loop g stop fuel q seen acc = bfs_gloop fuel q seen acc.
  Proof.
    induction fuel as [|f IH]; intros q seen acc Hlt; [reflexivity|].
    simpl. destruct q as [|c q']; [reflexivity|]. simpl.
    assert (Hlt' : forall x : node, In x q' -> x < n) by (intros x Hx; apply Hlt; now right).
    destruct (mem c seen); [now apply IH|].
    assert (Hp : forallb (present g) (unseen_parents g (c :: seen) c) = true).
    { apply forallb_present. intros x Hx. eapply unseen_lt; eauto. }
    rewrite Hp. simpl.
    destruct (stop c); [reflexivity|].
    apply IH. intros x Hx. unfold bfs_push, bfs_pushed in Hx. apply in_app_or in Hx.
    destruct Hx as [Hx|Hx]; [now apply Hlt' | eapply unseen_lt; eauto].
  Qed.

  Lemma unseen_props :
    (forall c sn x, In x (unseen_parents g sn c) -> In x (parents g c)) /\
    (forall c sn p, In p (parents g c) -> ~ In p sn -> In p (unseen_parents g sn c)) /\
    (forall c sn, length (unseen_parents g sn c) <= w c).
  Proof.
    repeat split.
    - intros c sn x Hx. unfold unseen_parents in Hx. apply filter_In in Hx. tauto.
    - intros c sn p Hp Hn. unfold unseen_parents. apply filter_In. split; [exact Hp|].
      apply negb_true_iff. now apply mem_false_In.
    - intros c sn. unfold unseen_parents, w. apply filter_length_le'.
  Qed.

  Lemma bfs_post : forall fuel (I : list node) (s : node) q seen acc,
    Inv (parents g) n (list node) (fun l => l) stop I s q seen acc ->
    length q + budget n w acc < fuel ->
    Post (parents g) stop I s (bfs_gloop fuel q seen acc).
  Proof.
    intros. unfold bfs_gloop. destruct unseen_props as [U1 [U2 U3]].
    eapply (gloop_post (parents g) n w par_lt (list node) (fun l => l) pop_list bfs_push bfs_pushed); eauto.
    - intros b Hb. destruct b; [reflexivity | discriminate].
    - intros b c b' Hp x. destruct b; [discriminate|]. injection Hp as H1 H2. subst. simpl.
      split; intros [Hx|Hx]; auto.
    - intros b c b' Hp. destruct b; [discriminate|]. injection Hp as H1 H2. subst. reflexivity.
    - intros c sn b x. unfold bfs_push. rewrite in_app_iff. tauto.
    - intros c sn b. unfold bfs_push. rewrite app_length. lia.
  Qed.

  (* ---------------------------------------------------------------- fuel *)
  Lemma budget_on_nil : forall L, budget_on w L [] = fold_right (fun x t => w x + t) 0 L.
  Proof. induction L as [|x r IH]; simpl; [reflexivity|]. now rewrite IH. Qed.

  Lemma sum_nth : forall (L pre : list (list node)),
    fold_right (fun x t => length (nth x (pre ++ L) []) + t) 0 (seq (length pre) (length L))
    = fold_right (fun ps t => length ps + t) 0 L.
  Proof.
    induction L as [|ps r IH]; intros pre; simpl; [reflexivity|].
    rewrite nth_middle. f_equal.
    specialize (IH (pre ++ [ps])). rewrite app_length in IH. simpl in IH.
    rewrite Nat.add_1_r in IH. rewrite <- app_assoc in IH. simpl in IH. exact IH.
  Qed.

  Lemma budget_nil : budget n w [] = nedges g.
  Proof.
    unfold budget. rewrite budget_on_nil. unfold w, parents, n, nnodes, nedges.
    exact (sum_nth (dpar g) []).
  Qed.

  Lemma init_inv : forall succ (I : list node) (s : node) B (contents : B -> list node) (b : B),
    s < n -> contents b = [s] ->
    Inv succ n B contents stop I s b I [].
  Proof.
    intros succ I s B contents b Hs Hb. constructor.
    - constructor.
    - intros x. simpl. tauto.
    - intros x [].
    - intros x [].
    - intros x Hx. rewrite Hb in Hx. destruct Hx as [Hx|[]]. now subst.
    - intros x Hx. rewrite Hb in Hx. destruct Hx as [Hx|[]]. now left.
    - intros y p [].
    - intros _. right. rewrite Hb. now left.
    - intros x [].
    - intros a1 x a2 E. destruct a1; discriminate.
  Qed.

  Lemma fuel_ok : forall acc0, acc0 = @nil node -> 1 + budget n w acc0 < walk_fuel g.
  Proof. intros acc0 ->. rewrite budget_nil. unfold walk_fuel, n. lia. Qed.

  (* ------------------------------------------------------- the four walks *)
  Theorem pre_walk_post : forall (I : list node) (s : node), s < n ->
    Post (parents g) stop I s (pre_walk g stop (walk_fuel g) s I).
  Proof.
    intros I s Hs. unfold pre_walk. rewrite pre_loop_eq.
    - apply pre_post.
      + apply init_inv; [exact Hs | reflexivity].
      + simpl. apply fuel_ok. reflexivity.
    - intros x Hx. simpl in Hx. destruct Hx as [Hx|[]]. now subst.
  Qed.

  Theorem post_walk_post : forall (I : list node) (s : node), s < n ->
    Post (parents g) stop I s (post_walk g stop (walk_fuel g) s I).
  Proof.
    intros I s Hs. unfold post_walk. rewrite post_loop_eq.
    - apply post_post.
      + apply (init_inv (parents g) I s (list node) (fun l => l)); [exact Hs | reflexivity].
      + simpl. apply fuel_ok. reflexivity.
    - intros x Hx. destruct Hx as [Hx|[]]. now subst.
  Qed.

  Theorem postfp_walk_post : forall (I : list node) (s : node), s < n ->
    Post fp_succ stop I s (postfp_walk g stop (walk_fuel g) s I).
  Proof.
    intros I s Hs. unfold postfp_walk. rewrite postfp_loop_eq.
    - apply fp_post.
      + apply (init_inv fp_succ I s (list node) (fun l => l)); [exact Hs | reflexivity].
      + simpl. apply fuel_ok. reflexivity.
    - intros x Hx. destruct Hx as [Hx|[]]. now subst.
  Qed.

  Theorem bfs_walk_post : forall (I : list node) (s : node), s < n ->
    Post (parents g) stop I s (bfs_walk g stop (walk_fuel g) s I).
  Proof.
    intros I s Hs. unfold bfs_walk. rewrite bfs_loop_eq.
    - apply bfs_post.
      + apply (init_inv (parents g) I s (list node) (fun l => l)); [exact Hs | reflexivity].
      + simpl. apply fuel_ok. reflexivity.
    - intros x Hx. destruct Hx as [Hx|[]]. now subst.
  Qed.
End Walkers.

(* ra over the parent relation with nothing ignored is reachability *)
Lemma ra_reach : forall g s x, ra (parents g) [] s x <-> reach g s x.
Proof.
  intros g s x. split.
  - intros H. induction H as [_ | y x Hy IH Hp _].
    + constructor.
    + eapply reach_trans; [exact IH|]. eapply reach_step; [exact Hp | constructor].
  - intros H. assert (Hs : ra (parents g) [] s s) by (constructor; intros []).
    assert (G : forall c a, reach g c a -> ra (parents g) [] s c -> ra (parents g) [] s a).
    { intros c a Hr. induction Hr as [c | c p a Hp Hr IH]; intros Hc; [exact Hc|].
      apply IH. eapply ra_step; eauto. }
    eapply G; eauto.
Qed.

Lemma ra_fp_reach : forall g s x, ra (fp_succ g) [] s x <-> fp_reach g s x.
Proof.
  intros g s x. split.
  - intros H. induction H as [_ | y x Hy IH Hp _].
    + constructor.
    + unfold fp_succ in Hp. destruct (parents g y) as [|p0 r] eqn:E; [contradiction|].
      destruct Hp as [Hp|[]]. subst x.
      clear Hy. induction IH as [c | c p r' a Hc Hr IH'].
      * eapply fp_step; [exact E | constructor].
      * eapply fp_step; [exact Hc | now apply IH'].
  - intros H. assert (Hs : ra (fp_succ g) [] s s) by (constructor; intros []).
    assert (G : forall c a, fp_reach g c a -> ra (fp_succ g) [] s c -> ra (fp_succ g) [] s a).
    { intros c a Hr. induction Hr as [c | c p r a Hp Hr IH]; intros Hc; [exact Hc|].
      apply IH. eapply ra_step; [exact Hc | | intros []]. unfold fp_succ. rewrite Hp. now left. }
    eapply G; eauto.
Qed.
