(* Proofs/C28Mv.v — Move onto a destination that is still tracked in the index
   (its file deleted from the worktree without staging the deletion): Lstat(to)
   only speaks for the worktree, so `to` may well be an index entry; the entry
   is REPLACED (addOrUpdateFileToIndex finds it with idx.Entry and overwrites
   it; git mv: rename_index_entry_at with ADD_CACHE_OK_TO_REPLACE), never
   doubled: an index with one entry per path keeps one entry per path. *)
From Coq Require Import List NArith Arith Lia Bool.
From GoGit Require Import Base.Out Model.Status Model.IndexOps Spec.GitIndexOps Proofs.C27 Proofs.C28 Proofs.C28Add.
Import ListNotations.

Local Notation is_some := IndexOps.is_some (only parsing).

(* number of entries of the index named p (`git ls-files -s` lines for p) *)
Definition count_path (l : list ientry) (p : path) : nat :=
  length (filter (fun e => bytes_eqb (ie_path e) p) l).
(* one entry per path: no stages, no duplicates *)
Definition uniq_idx (l : list ientry) : Prop := forall q, (count_path l q <= 1)%nat.

Lemma count_cons e l q :
  count_path (e :: l) q = ((if bytes_eqb (ie_path e) q then 1 else 0) + count_path l q)%nat.
Proof. unfold count_path. cbn [filter]. destruct (bytes_eqb (ie_path e) q); reflexivity. Qed.

Lemma count_remove l p : forall q,
  count_path (idx_remove l p) q = if bytes_eqb p q then 0%nat else count_path l q.
Proof.
  induction l as [|e r IH]; intros q; [cbn; now destruct (bytes_eqb p q)|].
  cbn [idx_remove]. destruct (bytes_eqb (ie_path e) p) eqn:E.
  - apply bytes_eqb_eq in E. rewrite IH, count_cons, E. now destruct (bytes_eqb p q).
  - rewrite !count_cons, IH. destruct (bytes_eqb p q) eqn:E2; [|reflexivity].
    apply bytes_eqb_eq in E2. subst q. now rewrite E.
Qed.

Lemma count_find l p : (count_path l p = 0)%nat <-> find_i l p = None.
Proof.
  induction l as [|e r IH]; [cbn; tauto|].
  rewrite count_cons. cbn [find_i]. destruct (bytes_eqb (ie_path e) p); [split; [lia|discriminate]|exact IH].
Qed.

Lemma count_set l n : forall q,
  count_path (idx_set l n) q =
  if bytes_eqb (ie_path n) q then Nat.max 1 (count_path l q) else count_path l q.
Proof.
  induction l as [|e r IH]; intros q.
  - cbn [idx_set]. rewrite count_cons. cbn. now destruct (bytes_eqb (ie_path n) q).
  - cbn [idx_set]. destruct (bytes_eqb (ie_path e) (ie_path n)) eqn:E.
    + apply bytes_eqb_eq in E. rewrite !count_cons, E. destruct (bytes_eqb (ie_path n) q); lia.
    + rewrite !count_cons, IH. destruct (bytes_eqb (ie_path n) q) eqn:E2; [|reflexivity].
      apply bytes_eqb_eq in E2. subst q. rewrite E. lia.
Qed.

Lemma length_remove l p : (length (idx_remove l p) + count_path l p = length l)%nat.
Proof.
  induction l as [|e r IH]; [reflexivity|].
  cbn [idx_remove]. rewrite count_cons. destruct (bytes_eqb (ie_path e) p); cbn [length]; lia.
Qed.

Lemma length_set l n :
  length (idx_set l n) = if is_some (find_i l (ie_path n)) then length l else S (length l).
Proof.
  induction l as [|e r IH]; [reflexivity|].
  cbn [idx_set find_i]. destruct (bytes_eqb (ie_path e) (ie_path n)); [reflexivity|].
  cbn [length]. rewrite IH. now destruct (find_i r (ie_path n)).
Qed.

(* what a successful Move is made of *)
Lemma mv_ok_inv s from to s' :
  g_mv s from to = ROk s' ->
  exists f e, find_w (st_wt s) from = Some f /\ find_i (st_index s) from = Some e /\
    has_file s to = false /\
    st_index s' = idx_set (idx_remove (st_index s) from)
                    (mkI to (wf_mode f) (ie_hash e) (wf_size f mod 2 ^ 32) (wf_mtime f) false).
Proof.
  unfold g_mv. destruct (find_w (st_wt s) from) as [f|] eqn:Ef; [|discriminate].
  destruct (has_file s to) eqn:Eh; [discriminate|]. cbn [orb].
  destruct (is_dir_wt s to); [discriminate|].
  destruct (find_i (st_index s) from) as [e|] eqn:Ee; [|discriminate].
  intros H. injection H as <-. exists f, e. repeat split; reflexivity.
Qed.

Lemma mv_from_neq_to s from to f : find_w (st_wt s) from = Some f -> has_file s to = false -> bytes_eqb from to = false.
Proof.
  intros Hf Hh. destruct (bytes_eqb from to) eqn:E; [|reflexivity].
  apply bytes_eqb_eq in E. subst to. unfold has_file in Hh. now rewrite Hf in Hh.
Qed.

(* the statement: one entry per path before => one entry per path after, exactly
   one named `to` (carrying the id of the source entry), none named `from`; the
   index shrinks by one when `to` was still tracked (entry replaced), keeps its
   length otherwise (entry renamed) *)
Theorem mv_replaces_tracked_dest s from to s' :
  uniq_idx (st_index s) -> g_mv s from to = ROk s' ->
  uniq_idx (st_index s') /\ count_path (st_index s') to = 1%nat /\ count_path (st_index s') from = 0%nat /\
  (exists e e', find_i (st_index s) from = Some e /\ find_i (st_index s') to = Some e' /\ ie_hash e' = ie_hash e) /\
  (forall q, bytes_eqb from q = false -> bytes_eqb to q = false -> find_i (st_index s') q = find_i (st_index s) q) /\
  length (st_index s') = (if is_some (find_i (st_index s) to) then length (st_index s) - 1 else length (st_index s))%nat.
Proof.
  intros U H. apply mv_ok_inv in H as (f & e & Hf & He & Hh & Hs). rewrite Hs. clear Hs.
  pose proof (mv_from_neq_to _ _ _ _ Hf Hh) as Hne.
  assert (Hne' : bytes_eqb to from = false) by now rewrite bytes_eqb_sym.
  set (n := mkI to _ _ _ _ _).
  assert (Hc : forall q, (count_path (idx_remove (st_index s) from) q <= 1)%nat).
  { intros q. rewrite count_remove. destruct (bytes_eqb from q); [lia|apply U]. }
  repeat split.
  - intros q. rewrite count_set. cbn [n ie_path]. specialize (Hc q). destruct (bytes_eqb to q); lia.
  - rewrite count_set. cbn [n ie_path]. rewrite bytes_eqb_refl. specialize (Hc to). lia.
  - rewrite count_set. cbn [n ie_path]. rewrite Hne', count_remove. now rewrite bytes_eqb_refl.
  - exists e, n. split; [exact He|split; [|reflexivity]].
    rewrite find_i_set. cbn [n ie_path]. now rewrite bytes_eqb_refl.
  - intros q H1 H2. rewrite find_i_set. cbn [n ie_path]. rewrite H2, find_i_remove, H1. reflexivity.
  - rewrite length_set. cbn [n ie_path]. rewrite find_i_remove, Hne.
    pose proof (length_remove (st_index s) from) as L.
    assert (C1 : count_path (st_index s) from = 1%nat).
    { specialize (U from). destruct (count_path (st_index s) from) as [|[|k]] eqn:C; [|reflexivity|lia].
      apply count_find in C. congruence. }
    destruct (find_i (st_index s) to); cbn [is_some]; lia.
Qed.
