(* Proofs/C49Wild.v — dowild (flags = 0, the only way gitignore calls it) is
   sound and complete for the declarative glob semantics of Spec/Glob.v on
   the fragment  literal | \c | ? | * | ** | bracket sets (ranges, escapes,
   negation, POSIX classes).
   What needs proof is the pruning: wmAbortAll claims that no suffix of the
   text can match, and the fast-forward over bytes different from a literal
   that follows a star. *)
From Coq Require Import List NArith Bool Lia.
From GoGit Require Import Base.Out Model.Gitignore Spec.Glob Proofs.C49Total.
Import ListNotations.
Local Open Scope N_scope.

(* ------------------------------------------------------------------ *)
(* the declarative semantics                                           *)

Definition suffix (t' t : bytes) : Prop := exists s, t = s ++ t'.

Lemma suffix_refl t : suffix t t.
Proof. exists []. reflexivity. Qed.

Lemma suffix_cons c t' t : suffix t' t -> suffix t' (c :: t).
Proof. intros [s ->]. exists (c :: s). reflexivity. Qed.

Lemma suffix_cons_inv c t t'' : suffix t'' (c :: t) -> t'' = c :: t \/ suffix t'' t.
Proof.
  intros [s H]. destruct s as [|x s]; cbn in H.
  - left. symmetry. exact H.
  - right. inversion H; subst. exists s. reflexivity.
Qed.

Lemma suffix_nil t : suffix t [] -> t = [].
Proof. intros [s H]. symmetry in H. apply app_eq_nil in H. tauto. Qed.

Lemma suffix_tail x a c t : suffix (x :: a) (c :: t) -> suffix a t.
Proof.
  intros H. apply suffix_cons_inv in H. destruct H as [H|[s ->]].
  - inversion H; subst. apply suffix_refl.
  - exists (s ++ [x]). rewrite <- app_assoc. reflexivity.
Qed.

Lemma suffix_trans a b c : suffix a b -> suffix b c -> suffix a c.
Proof. intros [s ->] [s' ->]. exists (s' ++ s). now rewrite app_assoc. Qed.

Lemma Gmatch_nil_inv t : Gmatch [] t -> t = [].
Proof. intros H; inversion H; reflexivity. Qed.

Lemma Gmatch_one_inv it g t : is_star it = false -> Gmatch (it :: g) t ->
  exists c t', t = c :: t' /\ item_ok it c = true /\ Gmatch g t'.
Proof.
  intros Hs H. inversion H; subst.
  - eauto.
  - discriminate.
Qed.

Lemma Gmatch_star_iff g t : Gmatch (IStar :: g) t <-> exists t', suffix t' t /\ Gmatch g t'.
Proof.
  split.
  - intros H. inversion H; subst.
    + discriminate.
    + exists t0. split; [exists s; reflexivity|assumption].
  - intros [t' [[s ->] H]]. now constructor.
Qed.

Lemma Gmatch_stars k g t :
  Gmatch (IStar :: repeat IStar k ++ g) t <-> exists t', suffix t' t /\ Gmatch g t'.
Proof.
  revert t. induction k as [|k IH]; intros t; cbn [repeat app].
  - apply Gmatch_star_iff.
  - rewrite Gmatch_star_iff. split.
    + intros [t1 [H1 H2]]. apply IH in H2. destruct H2 as [t2 [H3 H4]].
      exists t2. split; [eapply suffix_trans; eassumption|assumption].
    + intros [t2 [H1 H2]]. exists t. split; [apply suffix_refl|]. apply IH. eauto.
Qed.

Lemma gmatch_spec g : forall t, gmatch g t = true <-> Gmatch g t.
Proof.
  induction g as [|it g IH]; intros t.
  - cbn. destruct t; split; intros H; try constructor; try discriminate. inversion H.
  - destruct it as [d| | |neg rs].
    1,2,4: (cbn [gmatch]; destruct t as [|c t'];
      [ split; [discriminate|intros H; apply Gmatch_one_inv in H; [|reflexivity];
                            destruct H as (? & ? & ? & _); discriminate]
      | rewrite andb_true_iff, IH; split;
        [ intros [A B]; now constructor
        | intros H; apply Gmatch_one_inv in H; [|reflexivity];
          destruct H as (c0 & t0 & E & A & B); inversion E; subst; tauto ] ]).
    rewrite Gmatch_star_iff. cbn [gmatch].
    induction t as [|c t' IHt].
    + rewrite orb_false_r, IH. split.
      * intros H. exists []. split; [apply suffix_refl|assumption].
      * intros [t' [Hs H]]. apply suffix_nil in Hs. now subst.
    + rewrite orb_true_iff, IH, IHt. split.
      * intros [H|[t2 [Hs H]]].
        -- exists (c :: t'). split; [apply suffix_refl|assumption].
        -- exists t2. split; [now apply suffix_cons|assumption].
      * intros [t2 [Hs H]]. apply suffix_cons_inv in Hs. destruct Hs as [->|Hs]; [now left|].
        right. eauto.
Qed.

(* ------------------------------------------------------------------ *)
(* what each return code of dowild claims                              *)

Definition R (g : list item) (w : wm) (t : bytes) : Prop :=
  match w with
  | WMatch => Gmatch g t
  | WNoMatch => ~ Gmatch g t
  | WAbortAll => forall t', suffix t' t -> ~ Gmatch g t'
  | _ => False
  end.

Lemma R_cons it g w c t :
  is_star it = false -> item_ok it c = true -> R g w t -> R (it :: g) w (c :: t).
Proof.
  intros Hs Hok. destruct w; cbn; try tauto.
  - intros H. now constructor.
  - intros H H'. apply Gmatch_one_inv in H'; [|assumption].
    destruct H' as (c0 & t0 & E & _ & B). inversion E; subst. tauto.
  - intros H t' Hsuf H'. apply Gmatch_one_inv in H'; [|assumption].
    destruct H' as (c0 & t0 & -> & _ & B). apply suffix_tail in Hsuf. exact (H _ Hsuf B).
Qed.

Lemma R_nomatch_head it g c t :
  is_star it = false -> item_ok it c = false -> R (it :: g) WNoMatch (c :: t).
Proof.
  intros Hs Hok H'. apply Gmatch_one_inv in H'; [|assumption].
  destruct H' as (c0 & t0 & E & A & _). inversion E; subst. congruence.
Qed.

Lemma R_abort_nil it g : is_star it = false -> R (it :: g) WAbortAll [].
Proof.
  intros Hs t' Hsuf H'. apply suffix_nil in Hsuf. subst.
  apply Gmatch_one_inv in H'; [|assumption]. destruct H' as (? & ? & ? & _). discriminate.
Qed.

(* ------------------------------------------------------------------ *)
(* bracket sets                                                        *)

Lemma leb_both c tch : (c <=? tch) && (tch <=? c) = (tch =? c).
Proof.
  destruct (tch =? c) eqn:E.
  - apply N.eqb_eq in E. subst. now rewrite N.leb_refl.
  - apply N.eqb_neq in E. destruct (c <=? tch) eqn:A; destruct (tch <=? c) eqn:B; try reflexivity.
    apply N.leb_le in A. apply N.leb_le in B. lia.
Qed.

Lemma in_ranges_single c tch : in_ranges [(c, c)] tch = (tch =? c).
Proof. unfold in_ranges. cbn. now rewrite orb_false_r, leb_both. Qed.

Lemma in_ranges_one lo hi tch : in_ranges [(lo, hi)] tch = (tch <=? hi) && (lo <=? tch).
Proof. unfold in_ranges. cbn. rewrite orb_false_r. apply andb_comm. Qed.

Lemma in_ranges_app a b c : in_ranges (a ++ b) c = in_ranges a c || in_ranges b c.
Proof. unfold in_ranges. apply existsb_app. Qed.

(* POSIX classes: matchPOSIXClass decides membership in the ranges the class denotes *)
Lemma bytes_eqb_beq a b : bytes_eqb a b = beq a b.
Proof. reflexivity. Qed.

Lemma cut_rb_split s : cut_rb s = split_rb s.
Proof. reflexivity. Qed.

Ltac bool_lia :=
  apply eq_true_iff_eq; unfold in_ranges, is_alpha, is_digit, is_upper, is_lower, is_punct;
  cbn [existsb fst snd andb orb];
  rewrite ?orb_false_r; rewrite ?orb_true_iff, ?andb_true_iff, ?N.leb_le, ?N.ltb_lt, ?N.eqb_eq; lia.

Lemma posix_class_ranges name tch :
  posix_class name tch false =
  match class_ranges name with Some rs => Some (in_ranges rs tch) | None => None end.
Proof.
  unfold posix_class, class_ranges. change bytes_eqb with beq.
  repeat match goal with
  | |- (if beq name ?l then _ else _) = _ => destruct (beq name l); [apply f_equal; bool_lia|]
  end.
  reflexivity.
Qed.

Definition prevN (prev : option N) : N := match prev with Some x => x | None => 0 end.
Definition prev_ok (prev : option N) : Prop := match prev with Some x => x <> 0 | None => True end.

Lemma prev_some prev : prev_ok prev -> negb (prevN prev =? 0) = is_some prev.
Proof.
  destruct prev as [x|]; cbn; [|reflexivity]. intros H. apply N.eqb_neq in H. now rewrite H.
Qed.

Lemma cls_loop_parse_n : forall n fuel pfuel prev c r rs rest tch matched,
  (List.length r < n)%nat -> prev_ok prev ->
  parse_elems pfuel prev (c :: r) = Some (rs, rest) -> (List.length r < fuel)%nat ->
  cls_loop fuel false tch (prevN prev) matched c r = CDone (matched || in_ranges rs tch) rest.
Proof.
  induction n as [|n IH]; intros fuel pfuel prev c r rs rest tch matched Hn Hok Hp Hf; [lia|].
  destruct fuel as [|f]; [lia|]. destruct pfuel as [|pf]; [discriminate|].
  (* the loop tail against the continuation of the parser *)
  assert (Htail : forall prev' rs0 rest0 m0, prev_ok prev' -> (List.length rest0 <= List.length r)%nat ->
     match rest0 with
     | [] => None
     | x :: after =>
       if x =? 93 then Some (rs0, after)
       else match parse_elems pf prev' rest0 with
            | Some (rs', rest') => Some (rs0 ++ rs', rest')
            | None => None
            end
     end = Some (rs, rest) ->
     exists rs1, rs = rs0 ++ rs1 /\
       match rest0 with
       | [] => CAbort
       | x :: r0 => if x =? cRB then CDone m0 r0 else cls_loop f false tch (prevN prev') m0 x r0
       end = CDone (m0 || in_ranges rs1 tch) rest).
  { intros prev' rs0 rest0 m0 Hok' Hl H. destruct rest0 as [|x r0]; [discriminate|].
    unfold cRB. destruct (x =? 93).
    - inversion H; subst. exists []. rewrite app_nil_r. split; [reflexivity|]. now rewrite orb_false_r.
    - destruct (parse_elems pf prev' (x :: r0)) as [[rs' rest']|] eqn:E; [|discriminate].
      inversion H; subst. exists rs'. split; [reflexivity|].
      apply (IH f pf prev' x r0 rs' rest tch m0); [cbn in Hl; lia|assumption|assumption|cbn in Hl; lia]. }
  cbn [parse_elems] in Hp. cbn [cls_loop]. unfold cBSL, cDASH, cLB, cRB, cCOLON.
  destruct (c =? 0) eqn:C0; [discriminate|].
  destruct (c =? 92) eqn:C92.
  { destruct r as [|e r']; [discriminate|]. destruct (e =? 0) eqn:E0; [discriminate|].
    destruct (Htail (Some e) [(e, e)] r' (matched || (tch =? e))) as (rs1 & -> & Ht);
      [cbn; now apply N.eqb_neq|cbn; lia|exact Hp|].
    cbn [prevN] in Ht. unfold cRB in Ht. rewrite Ht. f_equal.
    now rewrite in_ranges_app, in_ranges_single, orb_assoc. }
  rewrite (prev_some _ Hok).
  destruct ((c =? 45) && is_some prev && match r with [] => false | h :: _ => negb (h =? 93) end) eqn:CD.
  { destruct prev as [lo|]; [|now rewrite andb_false_r in CD].
    destruct r as [|h r1]; [discriminate|].
    destruct (h =? 92) eqn:H92.
    - destruct r1 as [|e2 r2]; [discriminate|].
      destruct (Htail None [(lo, e2)] r2
                  (matched || ((tch <=? e2) && (prevN (Some lo) <=? tch) ||
                               false && is_lower tch && ((tch - 32 <=? e2) && (prevN (Some lo) <=? tch - 32)))))
        as (rs1 & -> & Ht); [exact I|cbn; lia|exact Hp|].
      cbn [prevN] in Ht |- *. unfold cRB in Ht. rewrite Ht. f_equal.
      rewrite in_ranges_app, in_ranges_one. cbn [andb]. now rewrite orb_false_r, orb_assoc.
    - destruct (Htail None [(lo, h)] r1
                  (matched || ((tch <=? h) && (prevN (Some lo) <=? tch) ||
                               false && is_lower tch && ((tch - 32 <=? h) && (prevN (Some lo) <=? tch - 32)))))
        as (rs1 & -> & Ht); [exact I|cbn; lia|exact Hp|].
      cbn [prevN] in Ht |- *. unfold cRB in Ht. rewrite Ht. f_equal.
      rewrite in_ranges_app, in_ranges_one. cbn [andb]. now rewrite orb_false_r, orb_assoc. }
  destruct ((c =? 91) && match r with [] => false | h :: _ => h =? 58 end) eqn:CP.
  { (* "[:" *)
    apply andb_true_iff in CP. destruct CP as [C91 _]. apply N.eqb_eq in C91. subst c.
    destruct r as [|c0 r0]; [discriminate|].
    rewrite cut_rb_split in Hp.
    destruct (split_rb r0) as [[name' after]|] eqn:Esp; [|discriminate].
    pose proof (split_rb_len _ _ _ Esp) as Hlen.
    assert (Hlit : forall rs' rest',
      match c0 :: r0 with
      | [] => None
      | x :: after0 =>
        if x =? 93 then Some ([(91, 91)], after0)
        else match parse_elems pf (Some 91) (c0 :: r0) with
             | Some (rs'0, rest'0) => Some ([(91, 91)] ++ rs'0, rest'0)
             | None => None
             end
      end = Some (rs', rest') -> rs' = rs -> rest' = rest ->
      match c0 :: r0 with
      | [] => CAbort
      | c1 :: r1 => if c1 =? 93 then CDone (matched || (tch =? 91)) r1
                    else cls_loop f false tch 91 (matched || (tch =? 91)) c1 r1
      end = CDone (matched || in_ranges rs tch) rest).
    { intros rs' rest' H -> ->.
      destruct (Htail (Some 91) [(91, 91)] (c0 :: r0) (matched || (tch =? 91))) as (rs1 & -> & Ht);
        [cbn; discriminate|lia|exact H|].
      cbn [prevN] in Ht. unfold cRB in Ht. rewrite Ht. f_equal.
      now rewrite in_ranges_app, in_ranges_single, orb_assoc. }
    destruct (rev name') as [|lastc rname].
    { eapply Hlit; [exact Hp|reflexivity|reflexivity]. }
    destruct (negb (lastc =? 58)).
    { eapply Hlit; [exact Hp|reflexivity|reflexivity]. }
    rewrite posix_class_ranges.
    destruct (class_ranges (rev rname)) as [crs|]; [|discriminate].
    destruct (Htail None crs after (matched || in_ranges crs tch)) as (rs1 & -> & Ht);
      [exact I|cbn in Hlen |- *; lia|exact Hp|].
    cbn [prevN] in Ht. unfold cRB in Ht. rewrite Ht. f_equal.
    now rewrite in_ranges_app, orb_assoc. }
  destruct (Htail (Some c) [(c, c)] r (matched || (tch =? c))) as (rs1 & -> & Ht);
    [cbn; now apply N.eqb_neq|lia|exact Hp|].
  cbn [prevN] in Ht. unfold cRB in Ht. rewrite Ht. f_equal.
  now rewrite in_ranges_app, in_ranges_single, orb_assoc.
Qed.

Lemma cls_loop_parse fuel pfuel c r rs rest tch matched :
  parse_elems pfuel None (c :: r) = Some (rs, rest) -> (List.length r < fuel)%nat ->
  cls_loop fuel false tch 0 matched c r = CDone (matched || in_ranges rs tch) rest.
Proof. intros. eapply (cls_loop_parse_n (S (List.length r)) fuel pfuel None); eauto. exact I. Qed.

Lemma bracket_parse q neg rs rest tch :
  parse_set q = Some (ISet neg rs, rest) ->
  bracket false tch q = (CDone (in_ranges rs tch) rest, neg).
Proof.
  unfold parse_set, bracket. destruct q as [|c q1]; [discriminate|].
  unfold cCARET, cBANG.
  destruct (c =? 33) eqn:C33.
  - apply N.eqb_eq in C33. subst c. cbn [orb N.eqb].
    change (33 =? 94) with false. cbn iota. change (33 =? 33) with true. cbn iota.
    destruct (parse_elems (S (List.length q1)) None q1) as [[rs' rest']|] eqn:Hp; [|discriminate].
    intros H; inversion H; subst.
    destruct q1 as [|c2 q2]; [discriminate|].
    now rewrite (cls_loop_parse (S (List.length q2)) _ _ _ _ _ tch false Hp ltac:(lia)).
  - destruct (c =? 94) eqn:C94.
    + cbn [orb]. change (33 =? 33) with true. cbn iota.
      destruct (parse_elems (S (List.length q1)) None q1) as [[rs' rest']|] eqn:Hp; [|discriminate].
      intros H; inversion H; subst.
      destruct q1 as [|c2 q2]; [discriminate|].
      now rewrite (cls_loop_parse (S (List.length q2)) _ _ _ _ _ tch false Hp ltac:(lia)).
    + cbn [orb]. rewrite C33.
      destruct (parse_elems (S (List.length (c :: q1))) None (c :: q1)) as [[rs' rest']|] eqn:Hp; [|discriminate].
      intros H; inversion H; subst.
      now rewrite (cls_loop_parse (S (List.length q1)) _ _ _ _ _ tch false Hp ltac:(lia)).
Qed.

Lemma parse_set_is_set q it rest : parse_set q = Some (it, rest) -> exists neg rs, it = ISet neg rs.
Proof.
  unfold parse_set. destruct q as [|c r]; [discriminate|].
  destruct ((c =? 33) || (c =? 94)).
  - destruct (parse_elems _ None r) as [[rs rest']|]; [|discriminate]. intros H; inversion H; eauto.
  - destruct (parse_elems _ None (c :: r)) as [[rs rest']|]; [|discriminate]. intros H; inversion H; eauto.
Qed.

(* ------------------------------------------------------------------ *)
(* stars                                                               *)

Lemma parse_drop_stars : forall p1 f g1, parse_glob f p1 = Some g1 ->
  exists k f' g2, g1 = repeat IStar k ++ g2 /\ parse_glob f' (drop_stars p1) = Some g2.
Proof.
  induction p1 as [|c r IH]; intros f g1 Hp.
  - exists O, f, g1. split; [reflexivity|exact Hp].
  - cbn [drop_stars]. unfold cSTAR. destruct (c =? 42) eqn:C42.
    + destruct f as [|f0]; [discriminate|]. cbn [parse_glob] in Hp.
      apply N.eqb_eq in C42. subst c.
      change (42 =? 92) with false in Hp. change (42 =? 63) with false in Hp.
      change (42 =? 42) with true in Hp. cbn iota in Hp.
      destruct (parse_glob f0 r) as [g|] eqn:Hr; [|discriminate]. inversion Hp; subst.
      destruct (IH _ _ Hr) as (k & f' & g2 & -> & H2).
      exists (S k), f', g2. split; [reflexivity|exact H2].
    + exists O, f, g1. split; [reflexivity|exact Hp].
Qed.

Lemma drop_stars_head p q0 q1 : drop_stars p = q0 :: q1 -> (q0 =? 42) = false.
Proof.
  induction p as [|c r IH]; cbn; [discriminate|].
  unfold cSTAR. destruct (c =? 42) eqn:C; [exact IH|]. intros H; inversion H; subst. exact C.
Qed.

(* the first item of a parsed non-star pattern is not a star *)
Lemma parse_head_nonstar f q0 q1 g : parse_glob f (q0 :: q1) = Some g -> (q0 =? 42) = false ->
  exists it g', g = it :: g' /\ is_star it = false /\
                (is_glob_special q0 = false -> it = ILit q0).
Proof.
  intros Hp Hs. destruct f as [|f0]; [discriminate|]. cbn [parse_glob] in Hp.
  unfold is_glob_special, cSTAR, cQM, cLB, cBSL.
  destruct (q0 =? 92) eqn:E1.
  { destruct q1 as [|e r']; [discriminate|]. destruct (parse_glob f0 r'); [|discriminate].
    inversion Hp; subst. eexists _, _. split; [reflexivity|]. split; [reflexivity|].
    rewrite !orb_true_r. discriminate. }
  destruct (q0 =? 63) eqn:E2.
  { destruct (parse_glob f0 q1); [|discriminate]. inversion Hp; subst.
    eexists _, _. split; [reflexivity|]. split; [reflexivity|]. rewrite Hs. cbn. discriminate. }
  rewrite Hs in Hp.
  destruct (q0 =? 91) eqn:E3.
  { destruct (parse_set q1) as [[it rest]|] eqn:Hps; [|discriminate].
    destruct (parse_glob f0 rest); [|discriminate]. inversion Hp; subst.
    destruct (parse_set_is_set _ _ _ Hps) as (neg & rs & ->).
    eexists _, _. split; [reflexivity|]. split; [reflexivity|]. rewrite Hs. cbn. discriminate. }
  destruct (parse_glob f0 q1); [|discriminate]. inversion Hp; subst.
  eexists _, _. split; [reflexivity|]. split; [reflexivity|]. reflexivity.
Qed.

(* what the star loop claims, in terms of the pattern after the stars *)
Definition RS (g2 : list item) (w : wm) (t : bytes) : Prop :=
  match w with
  | WMatch => exists t', suffix t' t /\ Gmatch g2 t'
  | WAbortAll | WNoMatch => forall t', suffix t' t -> ~ Gmatch g2 t'
  | _ => False
  end.

Lemma star_loop_RS rec g2 lit q0 :
  (forall t, R g2 (rec t) t) ->
  ~ Gmatch g2 [] ->
  (lit = true -> forall t, Gmatch g2 t -> exists t1, t = q0 :: t1) ->
  forall litfail, litfail = WAbortAll \/ litfail = WNoMatch ->
  forall t skipped, RS g2 (star_loop rec true lit false q0 litfail skipped t) t.
Proof.
  intros Hrec Hne Hlit litfail Hlf. induction t as [|c t' IH]; intros skipped; cbn [star_loop].
  - assert (H : forall t', suffix t' [] -> ~ Gmatch g2 t').
    { intros t' Hs. apply suffix_nil in Hs. now subst. }
    destruct skipped; [destruct Hlf as [-> | ->]|]; exact H.
  - cbn [negb andb orb fold].
    assert (Hskip : ~ Gmatch g2 (c :: t') -> forall sk,
              RS g2 (star_loop rec true lit false q0 litfail sk t') (c :: t')).
    { intros Hno sk. specialize (IH sk).
      destruct (star_loop rec true lit false q0 litfail sk t'); cbn in *; try tauto.
      - destruct IH as [t2 [Hs H]]. exists t2. split; [now apply suffix_cons|assumption].
      - intros t2 Hs. apply suffix_cons_inv in Hs. destruct Hs as [->|Hs]; [assumption|now apply IH].
      - intros t2 Hs. apply suffix_cons_inv in Hs. destruct Hs as [->|Hs]; [assumption|now apply IH]. }
    assert (Htry :
      RS g2 (let m := rec (c :: t') in
             if negb (wm_eqb m WNoMatch)
             then if negb (wm_eqb m WAbortStarStar) then m
                  else star_loop rec true lit false q0 litfail false t'
             else star_loop rec true lit false q0 litfail false t') (c :: t')).
    { cbv zeta. pose proof (Hrec (c :: t')) as Hm.
      destruct (rec (c :: t')); cbn in Hm |- *; try tauto.
      - exists (c :: t'). split; [apply suffix_refl|assumption].
      - now apply Hskip. }
    destruct lit.
    + destruct (c =? q0) eqn:Ec.
      * exact Htry.
      * apply Hskip. intros H. destruct (Hlit eq_refl _ H) as [t1 E]. inversion E; subst.
        rewrite N.eqb_refl in Ec. discriminate.
    + exact Htry.
Qed.

Lemma star_case_flags0 rec cf c1 c2 c3 prev p1 t :
  star_case rec false cf c1 c2 c3 prev p1 t =
  match drop_stars p1 with
  | [] => WMatch
  | q0 :: q1 => star_loop (rec None (q0 :: q1)) true (negb (is_glob_special q0)) cf (fold cf q0)
                          (c3 true) false t
  end.
Proof.
  unfold star_case. rewrite andb_false_r. cbn [andb negb orb].
  destruct (match p1 with [] => false | c :: _ => c =? cSTAR end); cbn [negb andb orb];
    destruct (drop_stars p1); reflexivity.
Qed.

(* ------------------------------------------------------------------ *)
(* the main invariant                                                  *)

Lemma dowild_R : forall fuel fuel' p t prev g,
  (List.length p < fuel)%nat -> parse_glob fuel' p = Some g ->
  R g (dowild fuel 0 prev p t) t.
Proof.
  induction fuel as [|f IH]; intros fuel' p t prev g Hf Hp; [lia|].
  destruct fuel' as [|f']; [discriminate|].
  cbn [dowild]. change (fl_casefold 0) with false. change (fl_pathname 0) with false.
  cbn [fold andb].
  destruct p as [|pc0 p1].
  { cbn in Hp. inversion Hp; subst. destruct t; cbn; [constructor|]. intros H; inversion H. }
  cbn [parse_glob] in Hp. cbn in Hf.
  unfold cBSL, cQM, cSTAR, cLB, cRB.
  destruct (pc0 =? 92) eqn:E1.
  { (* backslash *)
    apply N.eqb_eq in E1. subst pc0. change (92 =? 42) with false. cbn [negb andb].
    destruct p1 as [|e p2]; [discriminate|].
    destruct (parse_glob f' p2) as [g'|] eqn:Hp2; [|discriminate]. inversion Hp; subst.
    destruct t as [|tc t1]; [now apply R_abort_nil|].
    destruct (tc =? e) eqn:Ee; cbn [negb].
    - apply R_cons; [reflexivity|exact Ee|]. eapply IH; [cbn in Hf; lia|exact Hp2].
    - now apply R_nomatch_head. }
  destruct (pc0 =? 63) eqn:E2.
  { apply N.eqb_eq in E2. subst pc0. change (63 =? 42) with false. cbn [negb andb].
    destruct (parse_glob f' p1) as [g'|] eqn:Hp1; [|discriminate]. inversion Hp; subst.
    destruct t as [|tc t1]; [now apply R_abort_nil|].
    apply R_cons; [reflexivity|reflexivity|]. eapply IH; [lia|exact Hp1]. }
  destruct (pc0 =? 42) eqn:E3.
  { (* star *)
    rewrite andb_false_r.
    destruct (parse_glob f' p1) as [g1|] eqn:Hp1; [|discriminate]. inversion Hp; subst.
    rewrite star_case_flags0.
    destruct (parse_drop_stars _ _ _ Hp1) as (k & f2 & g2 & -> & Hp2).
    destruct (drop_stars p1) as [|q0 q1] eqn:Ed.
    - destruct f2; [discriminate|]. cbn in Hp2. inversion Hp2; subst.
      cbn [R]. apply Gmatch_stars. exists []. split; [|constructor].
      exists t. now rewrite app_nil_r.
    - pose proof (drop_stars_head _ _ _ Ed) as Hq0.
      destruct (parse_head_nonstar _ _ _ _ Hp2 Hq0) as (it & g' & -> & Hit & Hlit).
      pose proof (drop_stars_len p1) as Hlen. rewrite Ed in Hlen.
      assert (HRS : RS (it :: g')
                (star_loop (dowild f 0 None (q0 :: q1)) true (negb (is_glob_special q0)) false q0
                           WAbortAll false t) t).
      { apply star_loop_RS.
        - intros t0. eapply IH; [lia|exact Hp2].
        - intros H. apply Gmatch_one_inv in H; [|assumption]. destruct H as (? & ? & ? & _). discriminate.
        - intros Hl t0 H. apply negb_true_iff in Hl. rewrite (Hlit Hl) in H.
          apply Gmatch_one_inv in H; [|reflexivity]. destruct H as (c0 & t1 & -> & A & _).
          cbn in A. apply N.eqb_eq in A. subst. eauto.
        - now left. }
      cbn [fold andb].
      destruct (star_loop _ _ _ _ _ _ _ t); cbn in HRS |- *; try tauto.
      + apply Gmatch_stars. exact HRS.
      + intros H. apply Gmatch_stars in H. destruct H as [t2 [Hs2 H]]. exact (HRS _ Hs2 H).
      + intros t' Hs H. apply Gmatch_stars in H. destruct H as [t2 [Hs2 H]].
        eapply HRS; [|exact H]. eapply suffix_trans; eassumption. }
  destruct (pc0 =? 91) eqn:E4.
  { (* bracket *)
    cbn [negb andb].
    destruct (parse_set p1) as [[it rest]|] eqn:Hps; [|discriminate].
    destruct (parse_glob f' rest) as [g'|] eqn:Hpr; [|discriminate]. inversion Hp; subst.
    destruct (parse_set_is_set _ _ _ Hps) as (neg & rs & ->).
    destruct t as [|tc t1]; [now apply R_abort_nil|].
    rewrite (bracket_parse _ _ _ _ tc Hps). rewrite orb_false_r.
    destruct (bracket_ok false tc p1) as [_ Hlen].
    specialize (Hlen _ _ _ (bracket_parse _ _ _ _ tc Hps)).
    destruct (eqb (in_ranges rs tc) neg) eqn:Eq.
    - apply R_nomatch_head; [reflexivity|]. cbn. now rewrite Eq.
    - apply R_cons; [reflexivity|cbn; now rewrite Eq|]. eapply IH; [lia|exact Hpr]. }
  (* literal *)
  cbn [negb andb].
  destruct (parse_glob f' p1) as [g'|] eqn:Hp1; [|discriminate]. inversion Hp; subst.
  destruct t as [|tc t1]; [now apply R_abort_nil|].
  destruct (tc =? pc0) eqn:Ee; cbn [negb].
  - apply R_cons; [reflexivity|exact Ee|]. eapply IH; [lia|exact Hp1].
  - now apply R_nomatch_head.
Qed.

(* wildmatch(p, t) holds exactly when the glob denoted by p matches t *)
Theorem wildmatch_sound_complete p g t :
  glob_of p = Some g -> (wildmatch p t = true <-> Gmatch g t).
Proof.
  intros Hp. unfold wildmatch.
  pose proof (dowild_R (wm_fuel p) _ p t None g ltac:(unfold wm_fuel; lia) Hp) as H.
  destruct (dowild (wm_fuel p) 0 None p t); cbn in H |- *; split; try tauto; try discriminate.
  - intros H'. exfalso. apply (H t); [apply suffix_refl|assumption].
Qed.

Corollary wildmatch_eq_gmatch p g t :
  glob_of p = Some g -> wildmatch p t = gmatch g t.
Proof.
  intros Hp. pose proof (wildmatch_sound_complete p g t Hp) as H.
  pose proof (gmatch_spec g t) as H'.
  destruct (wildmatch p t), (gmatch g t); try reflexivity; intuition congruence.
Qed.
