(* Proofs/C51Records.v — what the encoder writes per commit: the CDAT record, the slice of the
   EDGE chunk, the GDA2 word and the GDO2 slot (structure of commit_data and gen2_chunks). *)
From Coq Require Import List NArith ZArith Bool Lia ZifyBool ZifyN ZifyNat.
From GoGit Require Import Base.Out Gen.C51 Model.CommitGraph Proofs.C51 Proofs.C51Reader Proofs.C51Bytes.
Import ListNotations.
Local Open Scope N_scope.

(* ------------------------------------------------------------------ commit data *)
Section Records.
Variable sorted : list bytes.
Variable es : list centry.

Definition pidx_of (e : centry) : list N := map (hash_to_index sorted) (e_parents e).

(* the extra edges a commit appends to the EDGE chunk *)
Definition new_edges (e : centry) : list N :=
  match e_parents e with
  | _ :: b :: c :: rest => set_last (map (hash_to_index sorted) (b :: c :: rest))
  | _ => []
  end.

(* the two parent words, given the number of edges written before this commit *)
Definition parent_words (e : centry) (pos : nat) : N * N :=
  match e_parents e with
  | [] => (parentNone, parentNone)
  | [a] => (hash_to_index sorted a, parentNone)
  | [a; b] => (hash_to_index sorted a, hash_to_index sorted b)
  | a :: _ => (hash_to_index sorted a, N.lor (N.of_nat pos mod two32) parentOctopusUsed)
  end.

Definition time_word (e : centry) : N := N.lor (u64_of_Z (e_when e)) ((N.shiftl (e_gen e) 34) mod two64).

Definition record (e : centry) (pos : nat) : bytes :=
  e_tree e ++ be32 (fst (parent_words e pos)) ++ be32 (snd (parent_words e pos)) ++ be64 (time_word e).

Fixpoint records (ents : list centry) (pos : nat) : list bytes :=
  match ents with
  | [] => []
  | e :: r => record e pos :: records r (pos + List.length (new_edges e))
  end.

Lemma commit_data_records : forall hs edges,
  (forall h, In h hs -> find_entry h es None = Some (entry_of es h)) ->
  commit_data sorted es hs edges =
    (List.concat (records (map (entry_of es) hs) (List.length edges)),
     edges ++ flat_map new_edges (map (entry_of es) hs)).
Proof.
  induction hs as [|h r IH]; intros edges H.
  - simpl. now rewrite app_nil_r.
  - assert (Hr : forall h0, In h0 r -> find_entry h0 es None = Some (entry_of es h0)) by (intros; apply H; now right).
    cbn [commit_data map records flat_map List.concat]. rewrite (H h (or_introl eq_refl)).
    set (e := entry_of es h). unfold record, parent_words, new_edges, time_word.
    destruct (e_parents e) as [|a [|b [|c rest]]].
    + rewrite (IH edges Hr). cbn [fst snd List.length app]. rewrite Nat.add_0_r, <- !app_assoc. reflexivity.
    + rewrite (IH edges Hr). cbn [fst snd List.length app]. rewrite Nat.add_0_r, <- !app_assoc. reflexivity.
    + rewrite (IH edges Hr). cbn [fst snd List.length app]. rewrite Nat.add_0_r, <- !app_assoc. reflexivity.
    + rewrite (IH _ Hr). cbn [fst snd]. rewrite app_length, <- !app_assoc. reflexivity.
Qed.

Lemma records_length : forall ents pos, List.length (records ents pos) = List.length ents.
Proof. induction ents as [|e r IH]; intros pos; [reflexivity|]. simpl. now rewrite IH. Qed.

Lemma records_nth : forall ents pos i, (i < List.length ents)%nat ->
  nth i (records ents pos) [] =
  record (nth i ents dummy_entry) (pos + List.length (flat_map new_edges (firstn i ents))).
Proof.
  induction ents as [|e r IH]; intros pos i Hi; [simpl in Hi; lia|].
  destruct i as [|i].
  - simpl. now rewrite Nat.add_0_r.
  - cbn [records nth firstn flat_map]. rewrite IH by (simpl in Hi; lia). rewrite app_length. f_equal. lia.
Qed.

Lemma record_length : forall e pos, List.length (e_tree e) = 20%nat -> List.length (record e pos) = 36%nat.
Proof. intros e pos H. unfold record. rewrite !app_length, !be32_length, be64_length, H. reflexivity. Qed.

Lemma records_width : forall ents pos, Forall (fun e => List.length (e_tree e) = 20%nat) ents ->
  forall r, In r (records ents pos) -> List.length r = 36%nat.
Proof.
  induction ents as [|e rs IH]; intros pos H r Hr; [contradiction|].
  inversion H; subst. simpl in Hr. destruct Hr as [Hr|Hr]; [subst r; now apply record_length | eapply IH; eauto].
Qed.

(* the edges of commit i sit in the chunk right after those of the commits before it *)
Lemma flat_map_split_nth : forall (ents : list centry) i, (i < List.length ents)%nat ->
  flat_map new_edges ents =
  flat_map new_edges (firstn i ents) ++ new_edges (nth i ents dummy_entry) ++ flat_map new_edges (skipn (S i) ents).
Proof.
  induction ents as [|e r IH]; intros i Hi; [simpl in Hi; lia|].
  destruct i as [|i]; [reflexivity|]. cbn [firstn skipn nth flat_map]. rewrite <- app_assoc. f_equal.
  apply IH. simpl in Hi. lia.
Qed.

Lemma new_edges_length : forall e, List.length (new_edges e) = extra_nat e.
Proof.
  intros e. unfold new_edges, extra_nat. destruct (e_parents e) as [|a [|b [|c rest]]]; try reflexivity.
  rewrite set_last_length, map_length. cbn [List.length]. destruct (2 <? S (S (S (List.length rest))))%nat eqn:E; lia.
Qed.

Lemma flat_new_edges_length : forall ents, List.length (flat_map new_edges ents) = sum_nat (map extra_nat ents).
Proof.
  induction ents as [|e r IH]; [reflexivity|]. cbn [flat_map map sum_nat]. now rewrite app_length, new_edges_length, IH.
Qed.
End Records.

(* ------------------------------------------------------------------ generation data *)
Definition is_ovf (d : N) : bool := 2147483648 <=? d.

Fixpoint gen2_words (ds : list N) (head : N) : list N :=
  match ds with
  | [] => []
  | d :: r => if is_ovf d then N.lor (head mod two32) 2147483648 :: gen2_words r (head + 1)
              else d :: gen2_words r head
  end.

Lemma gen2_chunks_words : forall ds head,
  gen2_chunks ds head = (flat_map be32 (gen2_words ds head), filter is_ovf ds).
Proof.
  induction ds as [|d r IH]; intros head; [reflexivity|].
  cbn [gen2_chunks gen2_words filter]. unfold is_ovf at 1 2. fold (is_ovf d). destruct (is_ovf d).
  - rewrite IH. reflexivity.
  - rewrite IH. reflexivity.
Qed.

Lemma gen2_words_length : forall ds head, List.length (gen2_words ds head) = List.length ds.
Proof.
  induction ds as [|d r IH]; intros head; [reflexivity|]. cbn [gen2_words]. destruct (is_ovf d); simpl; now rewrite IH.
Qed.

Definition ovf_before (ds : list N) (i : nat) : nat := List.length (filter is_ovf (firstn i ds)).

Lemma gen2_words_nth : forall ds head i, (i < List.length ds)%nat ->
  nth i (gen2_words ds head) 0 =
  if is_ovf (nth i ds 0) then N.lor ((head + N.of_nat (ovf_before ds i)) mod two32) 2147483648 else nth i ds 0.
Proof.
  induction ds as [|d r IH]; intros head i Hi; [simpl in Hi; lia|].
  destruct i as [|i].
  - cbn [gen2_words nth]. unfold ovf_before. cbn [firstn filter List.length]. destruct (is_ovf d); cbn [nth]; [|reflexivity].
    now rewrite N.add_0_r.
  - cbn [gen2_words nth]. unfold ovf_before. cbn [firstn filter]. destruct (is_ovf d) eqn:E; cbn [nth].
    + rewrite IH by (simpl in Hi; lia). unfold ovf_before. cbn [List.length].
      replace (head + 1 + N.of_nat (List.length (filter is_ovf (firstn i r))))
        with (head + N.of_nat (S (List.length (filter is_ovf (firstn i r))))) by lia. reflexivity.
    + rewrite IH by (simpl in Hi; lia). reflexivity.
Qed.

(* the slot of an overflowing value in the overflow chunk *)
Lemma filter_nth_ovf : forall ds i, (i < List.length ds)%nat -> is_ovf (nth i ds 0) = true ->
  (ovf_before ds i < List.length (filter is_ovf ds))%nat /\
  nth (ovf_before ds i) (filter is_ovf ds) 0 = nth i ds 0.
Proof.
  induction ds as [|d r IH]; intros i Hi Ho; [simpl in Hi; lia|].
  destruct i as [|i].
  - cbn [nth] in Ho. unfold ovf_before. cbn [firstn filter List.length nth]. rewrite Ho. cbn [List.length nth]. split; [lia | reflexivity].
  - cbn [nth] in Ho. destruct (IH i) as [A B]; [simpl in Hi; lia | exact Ho |].
    unfold ovf_before in *. cbn [firstn filter nth]. destruct (is_ovf d); cbn [List.length nth]; split; try lia; exact B.
Qed.

Lemma filter_length_le : forall (A : Type) (p : A -> bool) l, (List.length (filter p l) <= List.length l)%nat.
Proof. intros A p l. induction l as [|x r IH]; simpl; [lia|]. destruct (p x); simpl; lia. Qed.

Lemma ovf_before_le : forall ds i, (ovf_before ds i <= i)%nat.
Proof.
  intros ds i. unfold ovf_before. pose proof (filter_length_le _ is_ovf (firstn i ds)).
  pose proof (firstn_le_length i ds). lia.
Qed.
