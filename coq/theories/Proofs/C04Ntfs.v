(* Proofs/C04Ntfs.v — go-git's pathutil.IsNTFSDotGit / IsNTFSDot are git's
   is_ntfs_dotgit / is_ntfs_dot_generic (path.c), the latter transcribed
   index-wise over a NUL-terminated string in Spec/GitTree.v. *)
From Coq Require Import List NArith ZArith Bool Lia ZifyBool ZifyNat ZifyN.
From GoGit Require Import Base.Out Gen.C04 Model.TreeObj Spec.GitTree Proofs.C04 Proofs.C04Utf8 Proofs.C04Hfs.
Import ListNotations.
Local Open Scope N_scope.

(* ================================================================ IsNTFSDotGit *)
Lemma tolower_is c x : 97 <= x <= 122 -> (c_tolower c =? x) = is_ch c x.
Proof. intros H. unfold c_tolower, is_ch. destruct ((65 <=? c) && (c <=? 90)) eqn:E; lia. Qed.

Lemma ntfs_tail_osp r : tlacks 47 r = true -> tlacks 92 r = true -> ntfs_tail r = only_spaces_periods r.
Proof.
  induction r as [|c r IH]; intros H1 H2; [reflexivity|].
  apply tlacks_cons in H1 as [C1 H1]. apply tlacks_cons in H2 as [C2 H2].
  cbn [ntfs_tail only_spaces_periods]. rewrite (IH H1 H2).
  assert (E1 : (c =? 47) = false) by lia. assert (E2 : (c =? 92) = false) by lia. rewrite E1, E2. reflexivity.
Qed.

Lemma ntfs_dotgit_eq_git p : tlacks 47 p = true -> tlacks 92 p = true ->
  is_ntfs_dotgit p = git_is_ntfs_dotgit p.
Proof.
  intros H1 H2. unfold is_ntfs_dotgit, git_is_ntfs_dotgit.
  destruct p as [|a [|g [|i [|t r]]]].
  - reflexivity.
  - destruct (a =? 46); [reflexivity|]. destruct (is_ch a 103); reflexivity.
  - destruct (a =? 46); [reflexivity|]. destruct (is_ch a 103); reflexivity.
  - destruct (a =? 46); [reflexivity|]. destruct (is_ch a 103); reflexivity.
  - rewrite !lower_c. rewrite !tolower_is by lia.
    apply tlacks_cons in H1 as [_ H1]. apply tlacks_cons in H1 as [_ H1]. apply tlacks_cons in H1 as [_ H1]. apply tlacks_cons in H1 as [_ H1].
    apply tlacks_cons in H2 as [_ H2]. apply tlacks_cons in H2 as [_ H2]. apply tlacks_cons in H2 as [_ H2]. apply tlacks_cons in H2 as [_ H2].
    destruct (a =? 46) eqn:A.
    + cbn [andb]. destruct (is_ch g 103), (is_ch i 105), (is_ch t 116); cbn [andb negb orb]; try reflexivity.
      * symmetry. now apply ntfs_tail_osp.
      * assert (X : is_ch a 103 = false) by (unfold is_ch; lia). rewrite X. destruct r; reflexivity.
      * assert (X : is_ch a 103 = false) by (unfold is_ch; lia). rewrite X. destruct r; reflexivity.
      * assert (X : is_ch a 103 = false) by (unfold is_ch; lia). rewrite X. destruct r; reflexivity.
      * assert (X : is_ch a 103 = false) by (unfold is_ch; lia). rewrite X. destruct r; reflexivity.
      * assert (X : is_ch a 103 = false) by (unfold is_ch; lia). rewrite X. destruct r; reflexivity.
      * assert (X : is_ch a 103 = false) by (unfold is_ch; lia). rewrite X. destruct r; reflexivity.
      * assert (X : is_ch a 103 = false) by (unfold is_ch; lia). rewrite X. destruct r; reflexivity.
    + cbn [andb]. destruct r as [|e r'].
      * destruct (is_ch a 103); reflexivity.
      * apply tlacks_cons in H1 as [_ H1]. apply tlacks_cons in H2 as [_ H2].
        rewrite (ntfs_tail_osp r' H1 H2).
        destruct (is_ch a 103), (is_ch g 105), (is_ch i 116), (t =? 126), (e =? 49); reflexivity.
Qed.

(* ================================================================ index view of a C string *)
Lemma chr_skipn : forall i s, chr s i = hd 0 (skipn i s).
Proof. unfold chr. induction i as [|i IH]; intros [|c s]; try reflexivity. cbn [nth skipn]. apply IH. Qed.

Lemma skipn_S_tl {A} : forall i (s : list A), skipn (S i) s = tl (skipn i s).
Proof. induction i as [|i IH]; intros [|c s]; try reflexivity. cbn [skipn] in *. apply IH. Qed.

Lemma tlacks_skipn x n s : tlacks x s = true -> tlacks x (skipn n s) = true.
Proof.
  revert s; induction n as [|n IH]; intros s H; [exact H|]. destruct s as [|c s]; [exact H|].
  cbn [skipn]. apply IH. now apply tlacks_cons in H.
Qed.

(* the only_spaces_and_periods loop *)
Lemma only_sp_eq name : tlacks 0 name = true -> forall f i, (List.length (skipn i name) < f)%nat ->
  only_sp_git f name i = only_spaces_periods (skipn i name).
Proof.
  intros H0. induction f as [|f IH]; intros i L; [lia|].
  cbn [only_sp_git]. rewrite chr_skipn. pose proof (tlacks_skipn 0 i name H0) as T.
  pose proof (skipn_S_tl i name) as E. specialize (IH (S i)). rewrite E in IH.
  destruct (skipn i name) as [|c r]; [reflexivity|].
  apply tlacks_cons in T as [C0 _]. cbn [hd tl only_spaces_periods List.length] in *.
  assert (Z : (c =? 0) = false) by lia. rewrite Z. cbn [orb].
  destruct (c =? 58); [reflexivity|]. rewrite IH by lia.
  destruct (c =? 46), (c =? 32); reflexivity.
Qed.

(* strncasecmp, list view *)
Fixpoint strn_list (n : nat) (x y : bytes) : bool :=
  match n with
  | O => true
  | S n' =>
    let cx := c_tolower (hd 0 x) in
    let cy := c_tolower (hd 0 y) in
    if negb (cx =? cy) then false else if cx =? 0 then true else strn_list n' (tl x) (tl y)
  end.

Lemma strncase_list : forall n a ia b ib, strncase_eq n a ia b ib = strn_list n (skipn ia a) (skipn ib b).
Proof.
  induction n as [|n IH]; intros a ia b ib; [reflexivity|].
  cbn [strncase_eq strn_list]. rewrite !chr_skipn, IH, !skipn_S_tl. reflexivity.
Qed.

Definition ascii_text (s : bytes) : bool := forallb (fun c => (0 <? c) && (c <? 128)) s.

Lemma strn_fold : forall n x y, tlacks 0 x = true -> (n <= List.length y)%nat -> ascii_text (firstn n y) = true ->
  strn_list n x y = Nat.leb n (List.length x) && fold_eq (firstn n x) (firstn n y).
Proof.
  induction n as [|n IH]; intros x y H0 L A; [reflexivity|].
  destruct y as [|cy y]; [cbn in L; lia|]. cbn [firstn ascii_text forallb] in A.
  apply andb_true_iff in A as [Ay A]. cbn [List.length] in L.
  cbn [strn_list hd tl]. destruct x as [|cx x].
  - cbn [hd]. assert (E : negb (c_tolower 0 =? c_tolower cy) = true).
    { clear -Ay. unfold c_tolower. change ((65 <=? 0) && (0 <=? 90)) with false. cbv iota.
      destruct ((65 <=? cy) && (cy <=? 90)); lia. }
    rewrite E. reflexivity.
  - apply tlacks_cons in H0 as [C0 H0]. cbn [hd tl firstn fold_eq List.length]. rewrite !lower_c.
    change (Nat.leb (S n) (S (List.length x))) with (Nat.leb n (List.length x)).
    destruct (c_tolower cx =? c_tolower cy) eqn:E; cbn [negb andb].
    + assert (Z : (c_tolower cx =? 0) = false) by (unfold c_tolower; destruct ((65 <=? cx) && (cx <=? 90)); lia).
      assert (S7 : (cx <? 128) = true).
      { clear -E Ay. unfold c_tolower in E. destruct ((65 <=? cx) && (cx <=? 90)) eqn:X, ((65 <=? cy) && (cy <=? 90)) eqn:Y; lia. }
      rewrite Z, S7. cbn [andb]. apply IH; auto; lia.
    + now rewrite andb_false_r.
Qed.

(* ================================================================ the fall-back short-name loop *)
Lemma ntfs_short_eq i s pre saw : ntfs_short i s pre saw =
  match Nat.leb 8 i with
  | true => only_spaces_periods s
  | false =>
    match s with
    | [] => false
    | c :: r =>
      if saw then (if (c <? 48) || (57 <? c) then false else ntfs_short (S i) r (tl pre) true)
      else if c =? 126 then
        if Nat.eqb i 7 then false else
        match r with
        | d :: r' => if (d <? 49) || (57 <? d) then false else ntfs_short (S (S i)) r' (tl (tl pre)) true
        | [] => false
        end
      else if Nat.leb 6 i then false
      else if 128 <=? c then false
      else match pre with
           | e :: pre' => if lower c =? e then ntfs_short (S i) r pre' false else false
           | [] => false
           end
    end
  end.
Proof. destruct s; reflexivity. Qed.

Lemma is_bytes_hd n s : is_bytes s = true -> hd 0 (skipn n s) < 256.
Proof.
  intros H. pose proof (is_bytes_skipn n s H) as K. destruct (skipn n s) as [|c r]; [cbn; lia|].
  now apply is_bytes_cons in K.
Qed.

Lemma short_eq name short : is_bytes name = true -> tlacks 0 name = true -> (6 <= List.length short)%nat ->
  forall f i saw, (i <= 8)%nat -> (9 <= f + i)%nat -> (saw = false -> i <= 6)%nat ->
  ntfs_short i (skipn i name) (skipn i short) saw = short_loop_git f name short i saw.
Proof.
  intros HB H0 LS. induction f as [|f IH]; intros i saw I8 F INV; [lia|].
  rewrite ntfs_short_eq. cbn [short_loop_git].
  destruct (Nat.leb 8 i) eqn:E8.
  { symmetry. apply only_sp_eq; [exact H0|]. rewrite skipn_length. lia. }
  apply Nat.leb_gt in E8. rewrite chr_skipn.
  pose proof (tlacks_skipn 0 i name H0) as T. pose proof (is_bytes_hd i name HB) as B.
  pose proof (skipn_S_tl i name) as E. pose proof (skipn_S_tl i short) as ES.
  destruct (skipn i name) as [|c r] eqn:EN; [reflexivity|].
  apply tlacks_cons in T as [C0 _]. cbn [hd tl] in *.
  assert (Z : (c =? 0) = false) by lia. rewrite Z.
  destruct saw.
  - destruct ((c <? 48) || (57 <? c)); [reflexivity|]. rewrite <- E, <- ES. apply IH; lia.
  - specialize (INV eq_refl). destruct (c =? 126) eqn:T126.
    + assert (E7 : Nat.eqb i 7 = false) by (apply Nat.eqb_neq; lia). rewrite E7.
      rewrite chr_skipn, E. pose proof (skipn_S_tl (S i) name) as E2. rewrite E in E2. cbn [tl] in E2.
      pose proof (skipn_S_tl (S i) short) as ES2. rewrite ES in ES2.
      destruct r as [|d r']; [reflexivity|]. cbn [hd tl] in *.
      destruct ((d <? 49) || (57 <? d)); [reflexivity|]. rewrite <- E2, <- ES2. apply IH; lia.
    + destruct (Nat.leb 6 i) eqn:E6; [reflexivity|]. apply Nat.leb_gt in E6.
      destruct (lead_byte c B) as (_ & _ & _ & _ & L128). rewrite L128.
      destruct (c <? 128) eqn:A.
      * assert (A' : (128 <=? c) = false) by lia. rewrite A'. cbn [negb].
        rewrite chr_skipn. assert (LP : (0 < List.length (skipn i short))%nat) by (rewrite skipn_length; lia).
        destruct (skipn i short) as [|e pre'] eqn:EP; [cbn in LP; lia|]. cbn [hd tl] in *.
        rewrite lower_c. destruct (c_tolower c =? e); [|reflexivity]. cbn [negb].
        rewrite <- E, <- ES. apply IH; lia.
      * assert (A' : (128 <=? c) = true) by lia. rewrite A'. reflexivity.
Qed.

(* a successful short-name match consumed 8 bytes and ended in the tail test at 8 *)
Lemma ntfs_short_tail : forall n s i pre saw, (List.length s <= n)%nat ->
  ntfs_short i s pre saw = true -> (i <= 8)%nat ->
  (8 - i <= List.length s)%nat /\ only_spaces_periods (skipn (8 - i) s) = true.
Proof.
  induction n as [|n IH]; intros s i pre saw LN H I8; rewrite ntfs_short_eq in H.
  - destruct s; [|cbn in LN; lia]. destruct (Nat.leb 8 i) eqn:E8; [|discriminate]. apply Nat.leb_le in E8.
    replace (8 - i)%nat with 0%nat by lia. split; [cbn; lia|exact H].
  - destruct (Nat.leb 8 i) eqn:E8.
    { apply Nat.leb_le in E8. replace (8 - i)%nat with 0%nat by lia. split; [lia|exact H]. }
    apply Nat.leb_gt in E8. destruct s as [|c r]; [discriminate|]. cbn [List.length] in LN.
    assert (STEP : forall pre' saw', ntfs_short (S i) r pre' saw' = true ->
                   (8 - i <= List.length (c :: r))%nat /\ only_spaces_periods (skipn (8 - i) (c :: r)) = true).
    { intros pre' saw' K. destruct (IH r _ _ _ ltac:(lia) K ltac:(lia)) as [L T].
      replace (8 - i)%nat with (S (8 - S i)) by lia. cbn [skipn List.length]. split; [lia|exact T]. }
    destruct saw.
    + destruct ((c <? 48) || (57 <? c)); [discriminate|]. now apply STEP in H.
    + destruct (c =? 126).
      * destruct (Nat.eqb i 7) eqn:E7; [discriminate|]. apply Nat.eqb_neq in E7.
        destruct r as [|d r']; [discriminate|]. destruct ((d <? 49) || (57 <? d)); [discriminate|].
        cbn [List.length] in LN.
        destruct (IH r' _ _ _ ltac:(lia) H ltac:(lia)) as [L T].
        replace (8 - i)%nat with (S (S (8 - S (S i)))) by lia. cbn [skipn List.length]. split; [lia|exact T].
      * destruct (Nat.leb 6 i); [discriminate|]. destruct (128 <=? c); [discriminate|].
        destruct pre as [|e pre']; [discriminate|]. destruct (lower c =? e); [|discriminate]. now apply STEP in H.
Qed.

(* ================================================================ IsNTFSDot = is_ntfs_dot_generic *)
(* the needles: ASCII text of at least 6 bytes and a short-name prefix of at
   least 6 bytes, neither starting with a period (true of all four pairs) *)
Definition ntfs_needles_ok (dotgit short : bytes) : bool :=
  ascii_text dotgit && Nat.leb 6 (List.length dotgit) && negb (hd 0 dotgit =? 46) &&
  Nat.leb 6 (List.length short) && negb (hd 0 short =? 46).

Lemma tolower_46 c : (c_tolower 46 =? c_tolower c) = (c =? 46).
Proof. unfold c_tolower. change ((65 <=? 46) && (46 <=? 90)) with false. cbv iota. destruct ((65 <=? c) && (c <=? 90)) eqn:E; lia. Qed.

Section NtfsDot.
Variables name dotgit short : bytes.
Hypothesis HB : is_bytes name = true.
Hypothesis H0 : tlacks 0 name = true.
Hypothesis OK : ntfs_needles_ok dotgit short = true.

Let A : ascii_text dotgit = true.
Proof. unfold ntfs_needles_ok in OK. repeat (apply andb_true_iff in OK as [OK ?]). exact OK. Qed.
Let L6 : (6 <= List.length dotgit)%nat.
Proof. unfold ntfs_needles_ok in OK. repeat (apply andb_true_iff in OK as [OK ?]). now apply Nat.leb_le. Qed.
Let D46 : hd 0 dotgit <> 46.
Proof. unfold ntfs_needles_ok in OK. repeat (apply andb_true_iff in OK as [OK ?]). lia. Qed.
Let LS : (6 <= List.length short)%nat.
Proof. unfold ntfs_needles_ok in OK. repeat (apply andb_true_iff in OK as [OK ?]). now apply Nat.leb_le. Qed.
Let S46 : hd 0 short <> 46.
Proof. unfold ntfs_needles_ok in OK. repeat (apply andb_true_iff in OK as [OK ?]). lia. Qed.

Lemma ascii_firstn n s : ascii_text s = true -> ascii_text (firstn n s) = true.
Proof.
  revert s; induction n as [|n IH]; intros [|c s] H; try reflexivity.
  cbn [firstn ascii_text forallb] in *. apply andb_true_iff in H as [H1 H2]. rewrite H1. cbn [andb]. now apply IH.
Qed.

Lemma c1_eq : strncase_eq (List.length dotgit) name 1 dotgit 0 =
  Nat.leb (List.length dotgit) (List.length (skipn 1 name)) && fold_eq (firstn (List.length dotgit) (skipn 1 name)) dotgit.
Proof.
  rewrite strncase_list. cbn [skipn]. change (match name with [] => [] | _ :: l => l end) with (skipn 1 name).
  rewrite strn_fold; [now rewrite firstn_all|now apply tlacks_skipn|lia|now rewrite firstn_all].
Qed.

Lemma c2_eq : strncase_eq 6 name 0 dotgit 0 = Nat.leb 6 (List.length name) && fold_eq (firstn 6 name) (firstn 6 dotgit).
Proof.
  rewrite strncase_list. cbn [skipn]. rewrite strn_fold; [reflexivity|exact H0|exact L6|now apply ascii_firstn].
Qed.

Lemma p3_eq : ntfs_short 0 name short false = short_loop_git 9 name short 0 false.
Proof. apply (short_eq name short HB H0 LS 9 0 false); lia. Qed.

Lemma p3_tail : ntfs_short 0 name short false = true ->
  (8 <= List.length name)%nat /\ only_spaces_periods (skipn 8 name) = true.
Proof. intros H. exact (ntfs_short_tail _ name 0 short false (Nat.le_refl _) H ltac:(lia)). Qed.

End NtfsDot.

Lemma needles_ok_inv dotgit short : ntfs_needles_ok dotgit short = true ->
  (6 <= List.length dotgit)%nat /\ hd 0 dotgit <> 46 /\ (6 <= List.length short)%nat /\ hd 0 short <> 46.
Proof.
  unfold ntfs_needles_ok. intros OK. repeat (apply andb_true_iff in OK as [OK ?]).
  repeat split; try (now apply Nat.leb_le); lia.
Qed.

(* a name that starts with a period matches neither short-name pattern *)
Lemma dot_first r dotgit short : ntfs_needles_ok dotgit short = true ->
  fold_eq (firstn 6 (46 :: r)) (firstn 6 dotgit) = false /\ ntfs_short 0 (46 :: r) short false = false.
Proof.
  intros OK. destruct (needles_ok_inv _ _ OK) as (L6 & D46 & LS & S46). split.
  - destruct dotgit as [|d0 dg]; [cbn in L6; lia|]. cbn [firstn fold_eq hd] in *.
    rewrite !lower_c, tolower_46. assert (E : (d0 =? 46) = false) by lia. rewrite E. reflexivity.
  - rewrite ntfs_short_eq. cbn [Nat.leb]. change (46 =? 126) with false. cbv iota.
    change (128 <=? 46) with false. cbv iota.
    destruct short as [|e pre]; [reflexivity|]. cbn [hd] in S46.
    rewrite lower_c. change (c_tolower 46) with 46. assert (E : (46 =? e) = false) by lia. now rewrite E.
Qed.

Lemma ntfs_dot_eq name dotgit short :
  is_bytes name = true -> tlacks 0 name = true -> ntfs_needles_ok dotgit short = true ->
  is_ntfs_dot name dotgit short = git_is_ntfs_dot_generic name dotgit short.
Proof.
  intros HB H0 OK. destruct (needles_ok_inv _ _ OK) as (L6 & D46 & LS & S46).
  unfold is_ntfs_dot, git_is_ntfs_dot_generic. cbv zeta.
  rewrite (c1_eq name dotgit short) by assumption. rewrite (c2_eq name dotgit short) by assumption.
  rewrite <- (p3_eq name dotgit short) by assumption.
  assert (L6b : Nat.leb 6 (List.length dotgit) = true) by now apply Nat.leb_le.
  assert (LSb : Nat.leb 6 (List.length short) = true) by now apply Nat.leb_le.
  rewrite L6b, LSb. cbn [andb].
  pose proof (p3_tail name dotgit short HB H0 OK) as PT.
  pose proof (fun i f => only_sp_eq name H0 f i) as OSP.
  set (N3 := ntfs_short 0 name short false) in *.
  destruct name as [|c r].
  { (* the empty name *)
    cbn [chr nth List.length Nat.leb andb orb]. change (0 =? 46) with false. cbn [andb orb].
    destruct N3; [destruct (PT eq_refl) as [K _]; cbn in K; lia|reflexivity]. }
  set (name := c :: r) in *.
  change (chr name 0) with c. change (skipn 1 name) with r.
  destruct (c =? 46) eqn:C46.
  - (* ".": pattern 1 or nothing *)
    assert (c = 46) by lia. subst c. destruct (dot_first r dotgit short OK) as [F6 N3f].
    fold name in F6, N3f. fold N3 in N3f.
    rewrite F6, N3f, !andb_false_r. cbn [andb orb]. rewrite !orb_false_r.
    destruct (Nat.leb (List.length dotgit) (List.length r) && fold_eq (firstn (List.length dotgit) r) dotgit) eqn:Q.
    + cbn [andb]. rewrite OSP by (rewrite skipn_length; lia).
      rewrite Nat.add_1_r. reflexivity.
    + reflexivity.
  - (* no leading period *)
    cbn [andb orb].
    rewrite !chr_skipn. replace (skipn 7 name) with (tl (skipn 6 name)) by (symmetry; apply skipn_S_tl).
    assert (SK8 : skipn 8 name = tl (tl (skipn 6 name))) by (now rewrite !skipn_S_tl).
    assert (LEN : List.length (skipn 6 name) = (List.length name - 6)%nat) by apply skipn_length.
    set (F := fold_eq (firstn 6 name) (firstn 6 dotgit)) in *.
    destruct (skipn 6 name) as [|t [|d r2]] eqn:E6; cbn [hd tl List.length] in LEN, SK8 |- *.
    + (* fewer than 7 bytes *)
      change (0 =? 126) with false. rewrite !andb_false_r. cbn [orb andb].
      assert (L8 : Nat.leb 8 (List.length name) = false) by (apply Nat.leb_gt; lia). rewrite L8. cbn [andb].
      destruct N3; [destruct (PT eq_refl) as [K _]; lia|reflexivity].
    + (* 7 bytes *)
      change (49 <=? 0) with false. rewrite !andb_false_r. cbn [orb andb].
      assert (L8 : Nat.leb 8 (List.length name) = false) by (apply Nat.leb_gt; lia). rewrite L8. cbn [andb].
      destruct N3; [destruct (PT eq_refl) as [K _]; lia|reflexivity].
    + assert (L8 : Nat.leb 8 (List.length name) = true) by (apply Nat.leb_le; lia).
      assert (L6n : Nat.leb 6 (List.length name) = true) by (apply Nat.leb_le; lia).
      rewrite L8, L6n. cbn [andb].
      assert (TL : N3 = true -> only_spaces_periods r2 = true).
      { intros K. destruct (PT K) as [_ T]. now rewrite SK8 in T. }
      destruct (F && (t =? 126) && (49 <=? d) && (d <=? 52)) eqn:C2.
      * rewrite OSP by (rewrite skipn_length; lia). rewrite SK8.
        apply andb_true_iff in C2 as [C2 X3]. apply andb_true_iff in C2 as [C2 X2]. apply andb_true_iff in C2 as [X0 X1].
        rewrite X0, X1, X2, X3. cbn [andb].
        destruct (only_spaces_periods r2) eqn:O; [reflexivity|]. cbn [orb].
        destruct N3; [discriminate (TL eq_refl)|reflexivity].
      * assert (P2 : F && ((t =? 126) && (49 <=? d) && (d <=? 52) && only_spaces_periods r2) = false).
        { clear -C2. destruct F, (t =? 126), (49 <=? d), (d <=? 52); cbn in *; try reflexivity; discriminate. }
        rewrite P2. reflexivity.
Qed.

(* the four dot-file needle pairs pass the guard *)
Lemma needles_ok_all :
  ntfs_needles_ok N_gitmodules S_gi7eba = true /\ ntfs_needles_ok N_gitattributes S_gi7d29 = true /\
  ntfs_needles_ok N_gitignore S_gi250a = true /\ ntfs_needles_ok N_mailmap S_maba30 = true.
Proof. vm_compute. repeat split. Qed.

Lemma ntfs_gitmodules_eq name : is_bytes name = true -> tlacks 0 name = true ->
  is_ntfs_dot name N_gitmodules S_gi7eba = git_is_ntfs_dotgitmodules name.
Proof. intros HB H0. apply ntfs_dot_eq; auto; apply needles_ok_all. Qed.
