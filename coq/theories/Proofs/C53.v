(* Proofs/C53.v — totality / index safety / allocation bounds of the decoders
   modelled by this batch: pkt-line, sideband (from the C34 development), the
   variable-length integers, and the number of lines a packp decoder can see. *)
From Coq Require Import List NArith ZArith Bool Lia Arith.
From GoGit Require Import Base.Out Base.GoInt Gen.C34 Gen.C53 Model.PktLine Model.Sideband Model.Packp Model.C53Varint
  Proofs.C34Stream Proofs.C34Hex Proofs.C34Pkt Proofs.C34Sideband Proofs.C35Base.
Import ListNotations.

Arguments MaxSizeN : simpl never.
Opaque MaxSizeN.

(* ---------- LEB128 ---------- *)
Definition leb_bad (v : vres) : bool := match v with VOob | VFuel => true | _ => false end.

Lemma leb_loop_safe : forall fuel input num sz,
  (sz < List.length input)%nat -> (List.length input - sz <= fuel)%nat ->
  leb_bad (leb_loop fuel input num sz) = false.
Proof.
  induction fuel as [|f IH]; intros input num sz Hsz Hf; [lia|].
  cbn [leb_loop]. destruct (Z.of_nat sz * 7 >? pfutil_uintBits - 7)%Z; [reflexivity|].
  destruct (nth_error input sz) as [b|] eqn:E.
  2:{ apply nth_error_None in E. lia. }
  destruct ((Z.land (Z.of_N b) pfutil_maskContinue =? 0)%Z || Nat.eqb (S sz) (List.length input)) eqn:C; [reflexivity|].
  apply orb_false_elim in C. destruct C as [_ C]. apply Nat.eqb_neq in C.
  apply IH; lia.
Qed.

Theorem decode_leb128_safe input : leb_bad (decode_leb128 input) = false.
Proof.
  unfold decode_leb128. destruct input as [|b r]; [reflexivity|].
  apply leb_loop_safe; cbn [List.length]; lia.
Qed.

(* what is consumed: between 1 and 9 bytes, never more than the input holds *)
Lemma leb_loop_consumed : forall fuel input num sz n rest,
  leb_loop fuel input num sz = VOk n rest ->
  exists k, rest = skipn k input /\ (sz < k <= List.length input)%nat /\ (Z.of_nat k <= 9)%Z.
Proof.
  induction fuel as [|f IH]; intros input num sz n rest H; [discriminate|].
  cbn [leb_loop] in H. unfold pfutil_uintBits in H.
  destruct (Z.gtb_spec (Z.of_nat sz * 7) (64 - 7)); [discriminate|].
  destruct (nth_error input sz) as [b|] eqn:E; [|discriminate].
  assert (sz < List.length input)%nat as Hlt by (apply nth_error_Some; congruence).
  destruct ((Z.land (Z.of_N b) pfutil_maskContinue =? 0)%Z || Nat.eqb (S sz) (List.length input)).
  - injection H as <- <-. exists (S sz). repeat split; lia.
  - apply IH in H. destruct H as (k & Hr & Hk & H9). exists k. repeat split; try lia. assumption.
Qed.

Theorem decode_leb128_consumed input n rest : decode_leb128 input = VOk n rest ->
  exists k, rest = skipn k input /\ (k <= List.length input)%nat /\ (k <= 9)%nat.
Proof.
  unfold decode_leb128. destruct input as [|b r].
  - intros [= <- <-]. exists 0%nat. cbn. repeat split; lia.
  - intros H. apply leb_loop_consumed in H. destruct H as (k & Hr & Hk & H9). exists k. repeat split; try lia. assumption.
Qed.

(* the reader variants are structural: no fuel at all; they stop after at most
   10 (LEB128) / 9 (entry size) bytes *)
Lemma leb_reader_consumed : forall input num sz n rest,
  leb_reader input num sz = VOk n rest ->
  exists k, rest = skipn k input /\ (1 <= k <= List.length input)%nat /\ (Z.of_nat (sz + k) <= 9)%Z.
Proof.
  induction input as [|b r IH]; intros num sz n rest H; cbn [leb_reader] in H; unfold pfutil_uintBits in H;
    destruct (Z.gtb_spec (Z.of_nat sz * 7) (64 - 7)); try discriminate.
  destruct (Z.land (Z.of_N b) pfutil_maskContinue =? 0)%Z.
  - injection H as <- <-. exists 1%nat. cbn [skipn List.length]. repeat split; lia.
  - apply IH in H. destruct H as (k & Hr & Hk & H9). exists (S k). cbn [skipn List.length]. repeat split; try lia. assumption.
Qed.

Lemma vls_loop_consumed : forall input size shift n rest,
  (4 <= shift)%Z -> vls_loop input size shift = VOk n rest ->
  exists k, rest = skipn k input /\ (1 <= k <= List.length input)%nat /\ (shift + 7 * Z.of_nat k <= 64 + 7)%Z.
Proof.
  induction input as [|b r IH]; intros size shift n rest Hs H; cbn [vls_loop] in H;
    destruct (Z.gtb_spec shift (64 - 7)); try discriminate.
  destruct (Z.land (Z.of_N b) pfutil_maskContinue =? 0)%Z.
  - injection H as <- <-. exists 1%nat. cbn [skipn List.length]. repeat split; lia.
  - apply IH in H; [|lia]. destruct H as (k & Hr & Hk & H9). exists (S k). cbn [skipn List.length]. repeat split; try lia. assumption.
Qed.

(* ---------- the number of lines a packp decoder can see ---------- *)
Lemma scan_all_go_count : forall fuel r acc l,
  scan_all_go fuel r acc = RAll l -> (4 * List.length l <= 4 * List.length acc + 4 + rlen r)%nat.
Proof.
  induction fuel as [|f IH]; intros r acc l H; [discriminate|].
  cbn [scan_all_go] in H. pose proof (scan_ok_consumes r) as C.
  destruct (scan r) as [s r']. cbn [fst snd] in C. destruct (sc_ok s).
  - specialize (C eq_refl). apply IH in H. cbn [List.length] in H. lia.
  - injection H as <-. cbn [rev]. rewrite app_length, rev_length. cbn [List.length]. lia.
Qed.

Lemma src_of_items_count l : (List.length (s_items (src_of_items l)) = List.length l - 1)%nat.
Proof.
  induction l as [|d l IH]; [reflexivity|]. destruct l as [|e l]; [reflexivity|].
  change (src_of_items (d :: e :: l)) with
    (mksrc ((rd_len d, rd_payload d) :: s_items (src_of_items (e :: l))) (s_fin (src_of_items (e :: l)))).
  cbn [s_items List.length] in *. lia.
Qed.

Theorem scan_items_bound r : (4 * List.length (s_items (src_of (scan_all r))) <= rlen r)%nat.
Proof.
  pose proof (scan_all_total r) as T. unfold scan_all in *.
  destruct (scan_all_go (S (S (rlen r))) r []) as [l|] eqn:E; [|contradiction].
  apply scan_all_go_count in E. cbn [src_of List.length] in *. rewrite src_of_items_count. lia.
Qed.

(* AdvRefs.Decode appends at most one reference or shallow per line *)
Lemma adv_rest_count : forall items fin sh a a',
  adv_rest items fin sh a = inl a' ->
  (List.length (ar_refs a') + List.length (ar_shallows a') <=
   List.length (ar_refs a) + List.length (ar_shallows a) + List.length items)%nat.
Proof.
  induction items as [|it r IH]; intros fin sh a a' H; [discriminate|].
  cbn [adv_rest] in H. destruct (line_of it) as [|c line] eqn:L.
  { injection H as <-. cbn [List.length]. lia. }
  destruct (has_prefix _ (c :: line)).
  - destruct (Nat.eqb (List.length (skipn 8 (c :: line))) 40 || Nat.eqb (List.length (skipn 8 (c :: line))) 64); [|discriminate].
    destruct (from_hex (skipn 8 (c :: line))) as [h [|]]; [|discriminate].
    apply IH in H. cbn [ar_refs ar_shallows List.length] in *. rewrite app_length in H. cbn [List.length] in H. lia.
  - destruct sh; [discriminate|].
    destruct (cut SP (c :: line)) as [[before after]|]; [|discriminate].
    destruct (index_byte SP after); [discriminate|].
    apply IH in H. cbn [ar_refs ar_shallows List.length] in *. rewrite app_length in H. cbn [List.length] in H. lia.
Qed.

Lemma adv_first_count line r fin a a' :
  adv_first line r fin a = inl a' -> ar_refs a = [] -> ar_shallows a = [] ->
  (List.length (ar_refs a') + List.length (ar_shallows a') <= 1 + List.length r)%nat.
Proof.
  unfold adv_first. intros H Hr Hs.
  destruct (negb ((ar_version a =? 0)%Z || (ar_version a =? 1)%Z)); [discriminate|].
  destruct line as [|c line]; [discriminate|].
  destruct (Nat.ltb (List.length (c :: line)) 40); [discriminate|].
  destruct (hash_from (c :: line)) as [h|]; [|discriminate].
  destruct (hash_is_zero h).
  - destruct (Nat.ltb _ _); [discriminate|]. destruct (negb _); [discriminate|].
    apply adv_rest_count in H. cbn [ar_refs ar_shallows] in H. rewrite Hr, Hs in H. cbn [List.length] in H. lia.
  - destruct (Nat.ltb _ 3); [discriminate|].
    destruct (skipn (hash_hexsize h) (c :: line)) as [|c0 rem]; [discriminate|].
    destruct (negb (N.eqb c0 SP)); [discriminate|].
    destruct (cut NUL rem) as [[name capsb]|]; [|discriminate].
    apply adv_rest_count in H. cbn [ar_refs ar_shallows] in H. rewrite Hr, Hs, app_length in H. cbn [List.length] in H. lia.
Qed.

Theorem adv_decode_count s a : adv_decode s = inl a ->
  (List.length (ar_refs a) + List.length (ar_shallows a) <= List.length (s_items s))%nat.
Proof.
  unfold adv_decode. destruct (s_items s) as [|it r]; [discriminate|].
  destruct (line_of it) as [|c line]; [discriminate|].
  destruct (has_prefix _ (c :: line)).
  - destruct (parse_version _); [|discriminate]. destruct r as [|it2 r2]; [discriminate|].
    intros H. apply adv_first_count in H; [|reflexivity|reflexivity]. cbn [List.length]. lia.
  - intros H. apply adv_first_count in H; [|reflexivity|reflexivity]. cbn [List.length]. lia.
Qed.
