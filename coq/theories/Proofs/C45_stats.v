(* Proofs/C45_stats.v — every Add/Delete line of the chunk list appears exactly once, in order, as a
   '+' / '-' line of the generated hunks (for ALL chunk lists and context sizes); hence the line
   statistics of getFileStatsFromFilePatches count the '+' and '-' lines of the patch.
   Also: a successful strict application certifies the header counts of every hunk. *)
From Coq Require Import List NArith ZArith Bool Arith Lia.
From GoGit Require Import Base.Out Model.Unified Spec.HunkApply Proofs.C45_apply Proofs.C45_gen.
Import ListNotations.

Definition is_change (o : dop * line) : bool := negb (dop_eqb (fst o) Equal).
Definition changes (ops : list (dop * line)) : list (dop * line) := filter is_change ops.
Definition all_ops (st : gstate) : list (dop * line) :=
  flat_map h_ops (g_hunks st) ++ match g_cur st with Some h => h_ops h | None => [] end.
Definition chunk_changes (c : chunk) : list (dop * line) :=
  match fst c with Equal => [] | t => map (fun l => (t, l)) (split_lines (snd c)) end.

Lemma changes_app a b : changes (a ++ b) = changes a ++ changes b.
Proof. apply filter_app. Qed.
Lemma changes_equal ls : changes (map (fun l : line => (Equal, l)) ls) = [].
Proof. induction ls; cbn; auto. Qed.
Lemma changes_map t ls : t <> Equal -> changes (map (fun l : line => (t, l)) ls) = map (fun l => (t, l)) ls.
Proof.
  intros Ht. unfold changes. induction ls as [|l ls IH]; [reflexivity|].
  cbn [map filter]. unfold is_change at 1. cbn [fst].
  destruct t; try congruence; cbn [dop_eqb negb]; now rewrite IH.
Qed.

Lemma flat_map_snoc {A B} (f : A -> list B) l x : flat_map f (l ++ [x]) = flat_map f l ++ f x.
Proof. rewrite flat_map_app. cbn. now rewrite app_nil_r. Qed.

Lemma process_hunk_ops ctx st next op :
  changes (all_ops (process_hunk ctx st next op)) = changes (all_ops st) /\
  (exists h, g_cur (process_hunk ctx st next op) = Some h) /\
  g_hunks (process_hunk ctx st next op) = g_hunks st.
Proof.
  destruct (g_cur st) as [h|] eqn:Hc.
  - unfold process_hunk. rewrite Hc. rewrite Hc. eauto.
  - destruct (process_hunk_none ctx st next op Hc) as (dropped & b2 & pfx & _ & _ & ->).
    unfold all_ops. cbn [g_hunks g_cur]. rewrite Hc, app_nil_r. split; [|split; [eauto|reflexivity]].
    rewrite changes_app. destruct op; cbn [h_ops]; rewrite changes_equal; now rewrite app_nil_r.
Qed.

Lemma step_changes ctx st c next :
  changes (all_ops (core_step ctx st c next)) = changes (all_ops st) ++ chunk_changes c.
Proof.
  unfold core_step, chunk_changes. cbv zeta. destruct (fst c) eqn:Hf.
  - (* Equal *)
    rewrite app_nil_r. unfold process_equals. cbn [set_lines g_cur g_from g_to g_hunks g_before].
    destruct (g_cur st) as [h|] eqn:Hc; [|unfold all_ops; cbn [g_hunks g_cur]; now rewrite Hc].
    destruct (_ && _).
    + unfold all_ops. cbn [g_hunks g_cur]. rewrite Hc, add_op_ops, !changes_app, changes_equal. now rewrite app_nil_r.
    + unfold all_ops. cbn [g_hunks g_cur]. rewrite Hc, flat_map_snoc, add_op_ops, !changes_app, changes_equal.
      now rewrite !app_nil_r.
  - (* Add *)
    match goal with |- context [process_hunk ctx ?s next Add] =>
      destruct (process_hunk_ops ctx s next Add) as (Hch & (h & Hcur) & Hh); set (s2 := process_hunk ctx s next Add) in * end.
    unfold cur_add. cbn [set_lines g_cur g_hunks]. rewrite Hcur.
    unfold all_ops at 1. cbn [g_hunks g_cur]. rewrite add_op_ops, app_assoc, changes_app.
    unfold all_ops in Hch. rewrite Hcur in Hch. cbn [set_lines g_cur g_hunks] in Hch. rewrite Hch.
    rewrite changes_map by discriminate. reflexivity.
  - (* Delete *)
    match goal with |- context [process_hunk ctx ?s next Delete] =>
      destruct (process_hunk_ops ctx s next Delete) as (Hch & (h & Hcur) & Hh); set (s2 := process_hunk ctx s next Delete) in * end.
    unfold cur_add. cbn [set_lines g_cur g_hunks]. rewrite Hcur.
    unfold all_ops at 1. cbn [g_hunks g_cur]. rewrite add_op_ops, app_assoc, changes_app.
    unfold all_ops in Hch. rewrite Hcur in Hch. cbn [set_lines g_cur g_hunks] in Hch. rewrite Hch.
    rewrite changes_map by discriminate. reflexivity.
Qed.

Lemma finish_ops st : flat_map h_ops (finish st) = all_ops st.
Proof. unfold finish, all_ops. destruct (g_cur st); [apply flat_map_snoc | now rewrite app_nil_r]. Qed.

Lemma loop_changes ctx : forall cs c st,
  changes (flat_map h_ops (g_hunks (gen_loop ctx st (c :: cs)))) =
  changes (all_ops st) ++ flat_map chunk_changes (c :: cs).
Proof.
  induction cs as [|d r IH]; intros c st.
  - cbn [gen_loop]. rewrite gen_step_core, finish_ops, step_changes. cbn. now rewrite app_nil_r.
  - change (gen_loop ctx st (c :: d :: r)) with (gen_loop ctx (gen_step ctx st c (Some (fst d))) (d :: r)).
    rewrite gen_step_core_some, IH, step_changes. cbn [flat_map]. now rewrite <- app_assoc.
Qed.

Theorem generate_changes ctx cs :
  changes (flat_map h_ops (generate ctx cs)) = flat_map chunk_changes cs.
Proof. unfold generate. destruct cs as [|c r]; [reflexivity|]. now rewrite loop_changes. Qed.

(* ---------- line statistics *)
Definition count_op (t : dop) (ops : list (dop * line)) : nat :=
  length (filter (fun o => dop_eqb (fst o) t) ops).

Lemma stat_of_fold t cs a :
  fold_left (fun a c => if dop_eqb (fst c) t then (a + count_lines (snd c))%nat else a) cs a =
  (a + length (flat_map (fun c : chunk => if dop_eqb (fst c) t then split_lines (snd c) else []) cs))%nat.
Proof.
  revert a; induction cs as [|c r IH]; intros a; cbn [fold_left flat_map]; [cbn; lia|].
  rewrite IH, app_length. unfold count_lines. destruct (dop_eqb (fst c) t); cbn [length]; lia.
Qed.

Lemma count_op_changes t ops : t <> Equal -> count_op t (changes ops) = count_op t ops.
Proof.
  intros Ht. unfold count_op, changes. induction ops as [|[o l] r IH]; [reflexivity|].
  cbn [filter]. unfold is_change at 1. cbn [fst].
  destruct o; cbn [dop_eqb negb filter fst]; destruct t; cbn [dop_eqb length]; try congruence; auto.
Qed.

Lemma count_op_chunks t cs : t <> Equal ->
  count_op t (flat_map chunk_changes cs) =
  length (flat_map (fun c : chunk => if dop_eqb (fst c) t then split_lines (snd c) else []) cs).
Proof.
  intros Ht. unfold count_op. induction cs as [|c r IH]; [reflexivity|].
  cbn [flat_map]. rewrite filter_app, !app_length, IH. f_equal.
  unfold chunk_changes. destruct (fst c) eqn:Hf; destruct t; cbn [dop_eqb]; try congruence; cbn [length filter];
    try reflexivity;
    try (induction (split_lines (snd c)) as [|l ls IHl]; cbn; auto).
Qed.

Theorem stats_count_patch_lines ctx cs t : t <> Equal ->
  stat_of t cs = count_op t (flat_map h_ops (generate ctx cs)).
Proof.
  intros Ht. unfold stat_of. rewrite stat_of_fold. cbn [Nat.add].
  rewrite <- (count_op_changes t) by exact Ht. rewrite generate_changes. symmetry. now apply count_op_chunks.
Qed.

(* ---------- a successful strict application certifies the header counts *)
Lemma line_eqb_eq a b : line_eqb a b = true -> a = b.
Proof.
  revert b; induction a as [|x a IH]; intros [|y b]; cbn; try discriminate; [reflexivity|].
  intros H. apply andb_true_iff in H as [H1 H2]. apply N.eqb_eq in H1. apply IH in H2. congruence.
Qed.

Lemma run_ops_counts ops : forall old em rest nf nt,
  run_ops ops old = Some (em, rest, nf, nt) ->
  nf = length (oldside ops) /\ nt = length (newside ops) /\ em = newside ops /\ old = oldside ops ++ rest.
Proof.
  induction ops as [|[t l] r IH]; intros old em rest nf nt H.
  - cbn in H. inversion H; subst. auto.
  - destruct t; cbn [run_ops] in H.
    + destruct old as [|o old']; [discriminate|]. destruct (line_eqb o l) eqn:He; [|discriminate].
      destruct (run_ops r old') as [[[[em' rest'] nf'] nt']|] eqn:Hr; [|discriminate].
      destruct (IH _ _ _ _ _ Hr) as (-> & -> & -> & ->). apply line_eqb_eq in He. inversion H; subst. cbn. auto.
    + destruct (run_ops r old) as [[[[em' rest'] nf'] nt']|] eqn:Hr; [|discriminate].
      destruct (IH _ _ _ _ _ Hr) as (-> & -> & -> & ->). inversion H; subst. cbn. auto.
    + destruct old as [|o old']; [discriminate|]. destruct (line_eqb o l) eqn:He; [|discriminate].
      destruct (run_ops r old') as [[[[em' rest'] nf'] nt']|] eqn:Hr; [|discriminate].
      destruct (IH _ _ _ _ _ Hr) as (-> & -> & -> & ->). apply line_eqb_eq in He. inversion H; subst. cbn. auto.
Qed.

Lemma apply_pref_counts hs : forall kf kt old r,
  apply_pref hs kf kt old = Some r ->
  Forall (fun h => h_fromc h = Z.of_nat (length (oldside (h_ops h))) /\
                   h_toc h = Z.of_nat (length (newside (h_ops h)))) hs.
Proof.
  induction hs as [|h hs IH]; intros kf kt old r H; [constructor|].
  cbn [apply_pref] in H. cbv zeta in H.
  destruct (_ <? kf)%Z; [discriminate|]. destruct (Nat.ltb _ _); [discriminate|]. destruct (negb _); [discriminate|].
  destruct (run_ops _ _) as [[[[em rest] nf] nt]|] eqn:Hr; [|discriminate].
  destruct ((Z.of_nat nf =? h_fromc h)%Z && (Z.of_nat nt =? h_toc h)%Z) eqn:Hc; [|discriminate].
  destruct (apply_pref hs _ _ rest) as [r'|] eqn:Ha; [|discriminate].
  apply andb_true_iff in Hc as [Hc1 Hc2]. apply Z.eqb_eq in Hc1, Hc2.
  destruct (run_ops_counts _ _ _ _ _ _ Hr) as (-> & -> & _ & _).
  constructor; [auto|]. eapply IH; eauto.
Qed.

Theorem strict_apply_counts hs old new :
  strict_apply hs old = Some new ->
  Forall (fun h => h_fromc h = Z.of_nat (length (oldside (h_ops h))) /\
                   h_toc h = Z.of_nat (length (newside (h_ops h)))) hs.
Proof.
  unfold strict_apply. destruct (apply_pref hs 0 0 old) as [r|] eqn:H; [|discriminate]. intros _.
  eapply apply_pref_counts; eauto.
Qed.
