(* Proofs/C53Visit.v — C53 for the depth-first delta resolution of the pack
   parser model (Model/PackParse.v visit / resolve).  [visit] answers None both
   for a rejection and for exhausted fuel; the resolver calls it with fuel
   |entries|+1.  FUEL STABILITY: every nested visit is entered right after a
   delta that was not yet done has been marked done, so the nesting depth is
   bounded by the number of undone deltas: with fuel > #undone(s), more fuel
   never changes the answer.  For every store, entry lists, inflate result. *)
From Coq Require Import List NArith ZArith Bool Lia Arith.
From GoGit Require Import Base.Out Base.GoInt Model.PackBytes Model.Idx Model.PackParse Proofs.C08.
Import ListNotations.

Lemma filter_len_le {A} (p q : A -> bool) : forall l,
  (forall x, In x l -> p x = true -> q x = true) -> (List.length (filter p l) <= List.length (filter q l))%nat.
Proof.
  induction l as [|x l IH]; intros H; [cbn; lia|]. cbn [filter].
  assert (IH' : (List.length (filter p l) <= List.length (filter q l))%nat) by (apply IH; intros y Hy; apply H; now right).
  destruct (p x) eqn:Px.
  - rewrite (H x (or_introl eq_refl) Px). cbn [List.length]. lia.
  - destruct (q x); cbn [List.length]; lia.
Qed.

Lemma filter_len_lt {A} (p q : A -> bool) : forall l c,
  (forall x, In x l -> p x = true -> q x = true) -> In c l -> p c = false -> q c = true ->
  (List.length (filter p l) < List.length (filter q l))%nat.
Proof.
  induction l as [|x l IH]; intros c H Hin Pc Qc; [destruct Hin|]. cbn [filter].
  assert (Hl : forall y, In y l -> p y = true -> q y = true) by (intros y Hy; apply H; now right).
  destruct Hin as [->|Hin].
  - rewrite Pc, Qc. cbn [List.length]. pose proof (filter_len_le p q l Hl). lia.
  - specialize (IH c Hl Hin Pc Qc). destruct (p x) eqn:Px.
    + rewrite (H x (or_introl eq_refl) Px). cbn [List.length]. lia.
    + destruct (q x); cbn [List.length]; lia.
Qed.

Section V.
Variable hs : nat.
Variable Hsz : nat -> bytes -> bytes.
Variable ext : store.
Variables refs ofss : list ohdr.

Definition undone (s : pstate) : nat :=
  List.length (filter (fun c => negb (is_done s (oh_off c))) (refs ++ ofss)).

Lemma is_done_mono s s' off : incl (p_done s) (p_done s') -> is_done s off = true -> is_done s' off = true.
Proof. intros I D. apply is_done_in. apply I. apply is_done_in. exact D. Qed.

Lemma undone_mono s s' : psub s s' -> (undone s' <= undone s)%nat.
Proof.
  intros [_ I]. unfold undone. apply filter_len_le. intros c _ N.
  apply negb_true_iff in N. apply negb_true_iff.
  destruct (is_done s (oh_off c)) eqn:D; [|reflexivity]. rewrite (is_done_mono s s' _ I D) in N. discriminate.
Qed.

Lemma undone_dec s s' c : psub s s' -> In c (refs ++ ofss) -> is_done s (oh_off c) = false ->
  In (oh_off c) (p_done s') -> (undone s' < undone s)%nat.
Proof.
  intros [_ I] Hin D Hd. unfold undone. apply filter_len_lt with (c := c); [|exact Hin| |].
  - intros x _ N. apply negb_true_iff in N. apply negb_true_iff.
    destruct (is_done s (oh_off x)) eqn:D'; [|reflexivity]. rewrite (is_done_mono s s' _ I D') in N. discriminate.
  - apply negb_false_iff. apply is_done_in. exact Hd.
  - rewrite D. reflexivity.
Qed.

(* one child of the walk, with the recursive call abstracted *)
Definition vstep (rec : bytes -> N -> pstate -> option pstate) (acc : option pstate) (c : ohdr) : option pstate :=
  match acc with
  | None => None
  | Some s0 =>
    if is_done s0 (oh_off c) then Some s0 else
    match process_delta hs Hsz ext s0 c with
    | None => None
    | Some s1 =>
      match by_offset s1 (oh_off c) with
      | None => None
      | Some o => rec (r_id o) (r_off o) s1
      end
    end
  end.

Lemma visit_S f pid poff s :
  visit hs Hsz (S f) ext refs ofss pid poff s =
  fold_left (vstep (visit hs Hsz f ext refs ofss)) (filter (fun c => oh_base_off c =? poff)%N ofss)
    (fold_left (vstep (visit hs Hsz f ext refs ofss)) (filter (fun c => bytes_eqb (oh_base_id c) pid) refs) (Some s)).
Proof. reflexivity. Qed.

Definition bounded (m : nat) (acc : option pstate) : Prop :=
  match acc with Some a => (undone a <= m)%nat | None => True end.

(* two recursive calls that agree below the bound, the second one monotone: the folds agree *)
Lemma fold_vstep_agree (recg recf : bytes -> N -> pstate -> option pstate) (m : nat) :
  (forall pid poff s, (undone s < m)%nat -> recg pid poff s = recf pid poff s) ->
  (forall pid poff s r, recf pid poff s = Some r -> psub s r) ->
  forall l, (forall c, In c l -> In c (refs ++ ofss)) -> forall acc, bounded m acc ->
  fold_left (vstep recg) l acc = fold_left (vstep recf) l acc /\ bounded m (fold_left (vstep recf) l acc).
Proof.
  intros Hag Hmono. induction l as [|c l IH]; intros Hl acc Hb; [split; [reflexivity|exact Hb]|].
  cbn [fold_left].
  assert (Hl' : forall x, In x l -> In x (refs ++ ofss)) by (intros x Hx; apply Hl; now right).
  assert (E : vstep recg acc c = vstep recf acc c /\ bounded m (vstep recf acc c)).
  { destruct acc as [a|]; [|split; [reflexivity|exact I]]. cbn [vstep bounded] in *.
    destruct (is_done a (oh_off c)) eqn:D; [split; [reflexivity|exact Hb]|].
    destruct (process_delta hs Hsz ext a c) as [s1|] eqn:P; [|split; [reflexivity|exact I]].
    destruct (by_offset s1 (oh_off c)) as [o|]; [|split; [reflexivity|exact I]].
    apply (process_delta_mono hs Hsz) in P. destruct P as (P1 & P2 & _ & _).
    assert (U : (undone s1 < undone a)%nat) by (eapply undone_dec; [exact P1|apply Hl; now left|exact D|exact P2]).
    rewrite Hag by lia. split; [reflexivity|].
    destruct (recf (r_id o) (r_off o) s1) as [r|] eqn:R; [|exact I]. apply Hmono in R. apply undone_mono in R. cbn. lia. }
  destruct E as [E1 E2]. rewrite E1. apply IH; assumption.
Qed.

Theorem visit_stable : forall f pid poff s g,
  (undone s < f)%nat -> (f <= g)%nat ->
  visit hs Hsz g ext refs ofss pid poff s = visit hs Hsz f ext refs ofss pid poff s.
Proof.
  induction f as [|f IH]; intros pid poff s g Hf Hg; [lia|]. destruct g as [|g]; [lia|].
  rewrite !visit_S.
  assert (Hag : forall pid' poff' s', (undone s' < f)%nat ->
            visit hs Hsz g ext refs ofss pid' poff' s' = visit hs Hsz f ext refs ofss pid' poff' s').
  { intros. apply IH; lia. }
  assert (Hmono : forall pid' poff' s' r, visit hs Hsz f ext refs ofss pid' poff' s' = Some r -> psub s' r).
  { intros pid' poff' s' r E. apply (visit_mono hs Hsz) in E. apply E. }
  destruct (fold_vstep_agree _ _ (undone s) (fun p o s' H => Hag p o s' ltac:(lia)) Hmono
              (filter (fun c => bytes_eqb (oh_base_id c) pid) refs)
              ltac:(intros c Hc; apply filter_In in Hc; apply in_or_app; left; apply Hc) (Some s) (le_n _)) as [E1 B1].
  rewrite E1.
  destruct (fold_vstep_agree _ _ (undone s) (fun p o s' H => Hag p o s' ltac:(lia)) Hmono
              (filter (fun c => (oh_base_off c =? poff)%N) ofss)
              ltac:(intros c Hc; apply filter_In in Hc; apply in_or_app; right; apply Hc) _ B1) as [E2 _].
  exact E2.
Qed.

Lemma undone_le s : (undone s <= List.length refs + List.length ofss)%nat.
Proof.
  unfold undone. rewrite <- app_length. generalize (refs ++ ofss). intros l.
  induction l as [|x l IH]; cbn [filter List.length]; [lia|]. destruct (negb _); cbn [List.length]; lia.
Qed.

End V.

(* the fuel of the resolver: refs and ofss are disjoint selections of the scanned entries *)
Lemma two_filters_le {A} (p q : A -> bool) : forall l, (forall x, p x = true -> q x = false) ->
  (List.length (filter p l) + List.length (filter q l) <= List.length l)%nat.
Proof.
  induction l as [|x l IH]; intros H; [cbn; lia|]. cbn [filter]. specialize (IH H).
  destruct (p x) eqn:Px; [rewrite (H x Px)|destruct (q x)]; cbn [List.length]; lia.
Qed.

Theorem resolve_visit_stable hs Hsz ext (es : list ohdr) pid poff s g :
  let refs := filter (fun e => match oh_type e with TRef => true | _ => false end) es in
  let ofss := filter (fun e => match oh_type e with TOfs => true | _ => false end) es in
  (S (List.length es) <= g)%nat ->
  visit hs Hsz g ext refs ofss pid poff s = visit hs Hsz (S (List.length es)) ext refs ofss pid poff s.
Proof.
  cbv zeta. intros Hg. apply visit_stable; [|exact Hg].
  pose proof (undone_le hs Hsz (filter (fun e => match oh_type e with TRef => true | _ => false end) es)
                        (filter (fun e => match oh_type e with TOfs => true | _ => false end) es) s) as U.
  pose proof (two_filters_le (fun e : ohdr => match oh_type e with TRef => true | _ => false end)
                             (fun e => match oh_type e with TOfs => true | _ => false end) es
                             ltac:(intros x; cbv beta; destruct (oh_type x); intros; try reflexivity; discriminate)). lia.
Qed.
