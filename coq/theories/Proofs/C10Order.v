(* Proofs/C10Order.v — bytes.Compare as a total order, sorted tables of
   entries, Writer.Add de-duplication and the insertion sort of the model. *)
From Coq Require Import List NArith ZArith Bool Lia ZifyBool ZifyNat ZifyN Sorting.Sorted Sorting.Permutation.
From GoGit Require Import Base.Out Model.PackBytes Model.Idx.
Import ListNotations.
Local Open Scope N_scope.

(* ------------------------------------------------------------- bytes_cmp *)

Lemma bytes_cmp_refl a : bytes_cmp a a = Eq.
Proof. induction a as [|x a IH]; cbn; [reflexivity|]. now rewrite N.compare_refl. Qed.

Lemma bytes_cmp_eq a : forall b, bytes_cmp a b = Eq -> a = b.
Proof.
  induction a as [|x a IH]; intros [|y b]; cbn; try discriminate; auto.
  destruct (x ?= y) eqn:E; try discriminate. intros H. apply N.compare_eq in E. subst. f_equal. auto.
Qed.

Lemma bytes_cmp_antisym a : forall b, bytes_cmp b a = CompOpp (bytes_cmp a b).
Proof.
  induction a as [|x a IH]; intros [|y b]; cbn; auto.
  rewrite (N.compare_antisym x y). destruct (x ?= y); cbn; auto.
Qed.

Lemma bytes_cmp_lt_gt a b : bytes_cmp a b = Lt <-> bytes_cmp b a = Gt.
Proof. rewrite (bytes_cmp_antisym a b). destruct (bytes_cmp a b); cbn; split; congruence. Qed.

Lemma bytes_cmp_trans a : forall b c, bytes_cmp a b = Lt -> bytes_cmp b c = Lt -> bytes_cmp a c = Lt.
Proof.
  induction a as [|x a IH]; intros [|y b] [|z c]; cbn; try discriminate; auto.
  destruct (x ?= y) eqn:E1; try discriminate; destruct (y ?= z) eqn:E2; try discriminate; intros H1 H2.
  - apply N.compare_eq in E1, E2. subst. rewrite N.compare_refl. eauto.
  - apply N.compare_eq in E1. subst. now rewrite E2.
  - apply N.compare_eq in E2. subst. now rewrite E1.
  - rewrite N.compare_lt_iff in *. assert (x < z) by lia. rewrite <- N.compare_lt_iff in H. now rewrite H.
Qed.

Lemma bytes_cmp_le_trans a b c :
  bytes_cmp a b <> Gt -> bytes_cmp b c = Lt -> bytes_cmp a c = Lt.
Proof.
  intros H1 H2. destruct (bytes_cmp a b) eqn:E; try congruence.
  - apply bytes_cmp_eq in E. now subst.
  - eapply bytes_cmp_trans; eauto.
Qed.

Lemma bytes_cmp_lt_le_trans a b c :
  bytes_cmp a b = Lt -> bytes_cmp b c <> Gt -> bytes_cmp a c = Lt.
Proof.
  intros H1 H2. destruct (bytes_cmp b c) eqn:E; try congruence.
  - apply bytes_cmp_eq in E. now subst.
  - eapply bytes_cmp_trans; eauto.
Qed.

Lemma bytes_eqb_eq a b : bytes_eqb a b = true <-> a = b.
Proof.
  unfold bytes_eqb. split.
  - destruct (bytes_cmp a b) eqn:E; try discriminate. intros _. now apply bytes_cmp_eq.
  - intros ->. now rewrite bytes_cmp_refl.
Qed.

Lemma bytes_eqb_neq a b : bytes_eqb a b = false <-> a <> b.
Proof.
  split.
  - intros H E. apply bytes_eqb_eq in E. congruence.
  - intros H. destruct (bytes_eqb a b) eqn:E; auto. apply bytes_eqb_eq in E. contradiction.
Qed.

(* the first byte decides first *)
Lemma bytes_cmp_hd a b : bytes_cmp a b = Lt -> a <> [] -> b <> [] -> hd 0 a <= hd 0 b.
Proof.
  destruct a as [|x a], b as [|y b]; try congruence. cbn. intros H _ _.
  destruct (x ?= y) eqn:E; try discriminate.
  - apply N.compare_eq in E. lia.
  - rewrite N.compare_lt_iff in E. lia.
Qed.

Lemma bytes_cmp_hd_lt a b : a <> [] -> b <> [] -> hd 0 a < hd 0 b -> bytes_cmp a b = Lt.
Proof.
  destruct a as [|x a], b as [|y b]; try congruence. cbn. intros _ _ H.
  rewrite <- N.compare_lt_iff in H. now rewrite H.
Qed.

(* --------------------------------------------------------- sorted tables *)

Definition hlt (a b : entry) : Prop := bytes_cmp (e_hash a) (e_hash b) = Lt.
Definition sorted_tbl (l : list entry) : Prop := StronglySorted hlt l.

Lemma insert_perm e l : Permutation (e :: l) (insert_by_hash e l).
Proof.
  induction l as [|x l IH]; cbn; [reflexivity|].
  destruct (bytes_cmp (e_hash e) (e_hash x)); try reflexivity.
  rewrite perm_swap. now constructor.
Qed.

Lemma insert_sorted e : forall l,
  sorted_tbl l -> (forall x, In x l -> e_hash x <> e_hash e) -> sorted_tbl (insert_by_hash e l).
Proof.
  induction l as [|x l IH]; intros S D; cbn.
  - constructor; constructor.
  - inversion S as [|? ? S' F]; subst.
    destruct (bytes_cmp (e_hash e) (e_hash x)) eqn:C.
    + exfalso. apply bytes_cmp_eq in C. apply (D x); [now left|congruence].
    + constructor; [assumption|]. constructor; [exact C|].
      rewrite Forall_forall in *. intros y Hy. unfold hlt in *. eapply bytes_cmp_trans; eauto.
    + constructor.
      * apply IH; [assumption|]. intros y Hy. apply D. now right.
      * assert (HL : hlt x e) by (unfold hlt; now apply bytes_cmp_lt_gt).
        eapply Permutation_Forall; [apply insert_perm|]. constructor; assumption.
Qed.

Lemma sort_perm l : Permutation l (sort_entries l).
Proof.
  induction l as [|e l IH]; cbn; [reflexivity|].
  rewrite <- insert_perm. now constructor.
Qed.

Definition distinct_hashes (l : list entry) : Prop := NoDup (map e_hash l).

Lemma sort_sorted l : distinct_hashes l -> sorted_tbl (sort_entries l).
Proof.
  induction l as [|e l IH]; intros D; cbn.
  - constructor.
  - inversion D as [|? ? Hn D']; subst. apply insert_sorted; [auto|].
    intros x Hx E. apply Hn. rewrite <- E. apply in_map.
    eapply Permutation_in; [symmetry; apply sort_perm|exact Hx].
Qed.

(* Writer.Add: what is kept has distinct, non-zero hashes; it is the first occurrence of each id *)
Lemma mem_hash_in h l : mem_hash h l = true <-> In h l.
Proof.
  unfold mem_hash. rewrite existsb_exists. split.
  - intros (x & Hx & E). apply bytes_eqb_eq in E. now subst.
  - intros H. exists h. split; [assumption|now apply bytes_eqb_eq].
Qed.

Lemma writer_add_spec : forall es seen acc,
  NoDup (map e_hash acc) -> (forall x, In x acc -> In (e_hash x) seen) ->
  distinct_hashes (writer_add es seen acc) /\
  (forall x, In x (writer_add es seen acc) -> In x acc \/ (In x es /\ is_zero_hash (e_hash x) = false /\ ~ In (e_hash x) seen)).
Proof.
  induction es as [|e es IH]; intros seen acc ND Hs; cbn [writer_add].
  - split.
    + unfold distinct_hashes. rewrite map_rev. now apply NoDup_rev.
    + intros x Hx. left. now apply in_rev.
  - destruct (is_zero_hash (e_hash e) || mem_hash (e_hash e) seen) eqn:C.
    + destruct (IH seen acc ND Hs) as [A B]. split; [assumption|].
      intros x Hx. destruct (B x Hx) as [|(H1 & H2 & H3)]; [now left|right]. repeat split; auto. now right.
    + apply orb_false_iff in C. destruct C as [Cz Cm].
      assert (Hn : ~ In (e_hash e) seen) by (rewrite <- mem_hash_in; congruence).
      destruct (IH (e_hash e :: seen) (e :: acc)) as [A B].
      * cbn. constructor; [|assumption]. intros Hi. apply in_map_iff in Hi. destruct Hi as (y & Ey & Hy).
        apply Hn. rewrite <- Ey. now apply Hs.
      * intros x [<-|Hx]; [now left|right; now apply Hs].
      * split; [assumption|]. intros x Hx. destruct (B x Hx) as [[<-|Hi]|(H1 & H2 & H3)].
        -- right. repeat split; auto. now left.
        -- now left.
        -- right. repeat split; auto; [now right|]. intros Hi. apply H3. now right.
Qed.

Lemma writer_add_distinct es : distinct_hashes (writer_add es [] []).
Proof. apply writer_add_spec; [constructor|intros x []]. Qed.

(* a strictly sorted table has distinct hashes, and positions are ordered like hashes *)
Lemma sorted_nth_lt l : sorted_tbl l -> forall i j d,
  (i < j)%nat -> (j < List.length l)%nat -> hlt (nth i l d) (nth j l d).
Proof.
  induction 1 as [|x l S IH F]; intros i j d Hij Hj; cbn in Hj; [lia|].
  destruct j as [|j]; [lia|]. destruct i as [|i]; cbn.
  - rewrite Forall_forall in F. apply F. apply nth_In. lia.
  - apply IH; lia.
Qed.

Lemma sorted_distinct l : sorted_tbl l -> distinct_hashes l.
Proof.
  induction 1 as [|x l S IH F]; [constructor|]. cbn. constructor; [|assumption].
  intros Hi. apply in_map_iff in Hi. destruct Hi as (y & E & Hy).
  rewrite Forall_forall in F. specialize (F y Hy). unfold hlt in F. rewrite E, bytes_cmp_refl in F. discriminate.
Qed.
