(* Proofs/C02Message.v — for EVERY stored commit that go-git decodes and git
   parses, the decoded message is the message git reports (the bytes after the
   first empty line); no guard. *)
From Coq Require Import List NArith ZArith Bool Lia String.
From GoGit Require Import Base.Out Model.ObjLines Model.Ident Model.Commit Spec.GitFields
     Proofs.ObjLinesFacts Proofs.C03Commit Proofs.C03CommitSig Proofs.C02Lines.
Import ListNotations.
Local Open Scope N_scope.

Fixpoint body_of (ls : list bytes) : option bytes :=
  match ls with
  | [] => None
  | l :: r => if first_is LF l then Some (List.concat r) else body_of r
  end.

Lemma git_scan_header_body ls : forall a c, snd (git_scan_header ls a c) = body_of ls.
Proof.
  induction ls as [|l r IH]; intros a c; [reflexivity|]. cbn [git_scan_header body_of].
  destruct (first_is LF l); [reflexivity|].
  destruct (starts_with (str "author "%string) l); [apply IH|].
  destruct (starts_with (str "committer "%string) l); apply IH.
Qed.

Lemma on_headers_msg c se l : c_msg (fst (fst (on_headers c se l))) = c_msg c.
Proof.
  unfold on_headers. destruct (is_blank l); [reflexivity|]. destruct (split_header l) as [key data].
  destruct (beqb key k_tree || beqb key k_parent || beqb key k_author || beqb key k_committer); [reflexivity|].
  destruct (beqb key k_encoding); [now destruct se|].
  destruct (beqb key k_gpgsig); [reflexivity|]. destruct (beqb key k_gpgsig256); [reflexivity|].
  destruct (parse_extra_header l) as [[k v] m]. now destruct m.
Qed.

Lemma on_committer_msg c se l : c_msg (fst (fst (on_committer c se l))) = c_msg c.
Proof.
  unfold on_committer. destruct (is_blank l); [reflexivity|]. destruct (split_header l) as [key data].
  destruct (beqb key k_committer); [reflexivity|apply on_headers_msg].
Qed.

Lemma on_author_msg c se l : c_msg (fst (fst (on_author c se l))) = c_msg c.
Proof.
  unfold on_author. destruct (is_blank l); [reflexivity|]. destruct (split_header l) as [key data].
  destruct (beqb key k_author); [reflexivity|apply on_committer_msg].
Qed.

Lemma cstep_msg st c se eof l c' se' st' :
  st <> SMessage -> cstep st c se eof l = Ok (c', se', st') -> c_msg c' = c_msg c.
Proof.
  intros Hst. destruct st; cbn [cstep]; try contradiction.
  - destruct (is_blank l); [intros H; now inversion H|]. destruct (split_header l) as [key data].
    destruct (beqb key k_parent).
    + destruct (parse_oid data); intros H; inversion H; reflexivity.
    + intros H. inversion H as [H']. pose proof (on_author_msg c se l) as P. now rewrite H' in P.
  - intros H. inversion H as [H']. pose proof (on_author_msg c se l) as P. now rewrite H' in P.
  - intros H. inversion H as [H']. pose proof (on_committer_msg c se l) as P. now rewrite H' in P.
  - intros H. inversion H as [H']. pose proof (on_headers_msg c se l) as P. now rewrite H' in P.
  - destruct (first_is SPC l); intros H; inversion H as [H']; [reflexivity|].
    pose proof (on_headers_msg c se l) as P. now rewrite H' in P.
  - destruct (first_is SPC l); intros H; inversion H as [H']; [reflexivity|].
    pose proof (on_headers_msg c se l) as P. now rewrite H' in P.
  - destruct (first_is SPC l).
    + destruct eof; intros H; inversion H; reflexivity.
    + intros H. inversion H as [H']. pose proof (on_headers_msg (finalise_extra c k v) se l) as P. now rewrite H' in P.
Qed.

(* a non-blank line keeps the scanner in the header *)
Lemma cstep_stays st c se l c' se' st' :
  st <> SMessage -> is_blank l = false -> cstep st c se false l = Ok (c', se', st') -> st' <> SMessage.
Proof.
  intros Hst Hb H. destruct (first_is SPC l) eqn:Esp.
  - now destruct (cstep_sig_cont _ _ _ _ _ _ _ Hst Esp H).
  - pose proof (cstep_sig_plain _ _ _ _ _ _ _ Hst Hb Esp H) as P.
    destruct (beqb (fst (split_header l)) k_gpgsig); [destruct P as [_ ->]; discriminate|tauto].
Qed.

Lemma crun_msg : forall ls st c0 se c m,
  st <> SMessage -> Forall line_ok ls -> all_but_last_nl ls = true ->
  crun st c0 se ls = Ok c -> body_of ls = Some m -> c_msg c = c_msg c0 ++ m.
Proof.
  induction ls as [|l r IH]; intros st c0 se c m Hst Hok Habl Hrun Hbody; [discriminate|].
  inversion Hok as [|x0 y0 Hl Hr]. subst x0 y0. cbn [body_of] in Hbody. cbn [crun] in Hrun.
  assert (Hablr : all_but_last_nl r = true).
  { destruct r as [|l2 r']; [reflexivity|].
    change (all_but_last_nl (l :: l2 :: r')) with (ends_nl l && all_but_last_nl (l2 :: r')) in Habl.
    now apply andb_true_iff in Habl. }
  destruct (first_is LF l) eqn:Elf.
  - inversion Hbody; subst m.
    assert (Hb : is_blank l = true) by now rewrite <- (first_is_lf_blank _ Hl).
    assert (Een : ends_nl l = true) by (destruct l as [|x [|y l']]; try discriminate; exact Hb).
    rewrite Een in Hrun. cbn [negb] in Hrun.
    destruct (cstep st c0 se false l) as [[[c1 se1] st1]|e] eqn:Es; [|discriminate].
    destruct (cstep_sig_blank _ _ _ _ _ _ _ Hst Hb Es) as [-> _].
    rewrite (crun_message _ Hablr) in Hrun. inversion Hrun. cbn [c_msg set_msg].
    now rewrite (cstep_msg _ _ _ _ _ _ _ _ Hst Es).
  - assert (Een : ends_nl l = true).
    { destruct r as [|l2 r']; [discriminate|].
      change (all_but_last_nl (l :: l2 :: r')) with (ends_nl l && all_but_last_nl (l2 :: r')) in Habl.
      now apply andb_true_iff in Habl. }
    rewrite Een in Hrun. cbn [negb] in Hrun.
    destruct (cstep st c0 se false l) as [[[c1 se1] st1]|e] eqn:Es; [|discriminate].
    assert (Hb : is_blank l = false) by now rewrite <- (first_is_lf_blank _ Hl).
    rewrite (IH _ _ _ _ _ (cstep_stays _ _ _ _ _ _ _ Hst Hb Es) Hr Hablr Hrun Hbody).
    now rewrite (cstep_msg _ _ _ _ _ _ _ _ Hst Es).
Qed.

Theorem message_matches_git : forall raw c g m,
  decode_commit raw = Ok c -> git_log_fields raw = GOk g -> gl_body g = Some m -> c_msg c = m.
Proof.
  intros raw c g m Hd Hg Hm.
  assert (Hbody : body_of (split_lines raw) = Some m).
  { unfold git_log_fields in Hg.
    destruct (has_nul raw); [discriminate|]. destruct (negb (Nat.ltb 46 (List.length raw))); [discriminate|].
    destruct (negb (starts_with (str "tree "%string) raw)); [discriminate|]. destruct (negb (nth 45 raw 0 =? LF)); [discriminate|].
    destruct (negb (all_hex (firstn 40 (skipn 5 raw)))); [discriminate|].
    destruct (git_parents (List.length raw) (skipn 46 raw)); [|discriminate].
    pose proof (git_scan_header_body (split_lines raw) None None) as B.
    destruct (git_scan_header (split_lines raw) None None) as [[a0 c0] body].
    destruct (git_person a0) as [[an ae] ad]. destruct (git_person c0) as [[cn ce] cd].
    inversion Hg; subst g. cbn [gl_body] in Hm. cbn [snd] in B. now rewrite <- B. }
  unfold decode_commit in Hd. pose proof (split_lines_ok raw) as Hok. pose proof (split_lines_abl raw) as Habl.
  destruct (split_lines raw) as [|l r]; [discriminate|].
  inversion Hok as [|x0 y0 Hl Hr]. subst x0 y0.
  cbn [decode_commit_lines] in Hd. destruct (is_blank l) eqn:Hb; [discriminate|].
  destruct (split_header l) as [key data]. destruct (negb (beqb key k_tree)); [discriminate|].
  destruct (parse_oid data) as [h|]; [|discriminate].
  cbn [body_of] in Hbody. rewrite (first_is_lf_blank _ Hl), Hb in Hbody.
  destruct (ends_nl l) eqn:Een.
  - assert (Hablr : all_but_last_nl r = true).
    { destruct r as [|l2 r']; [reflexivity|].
      change (all_but_last_nl (l :: l2 :: r')) with (ends_nl l && all_but_last_nl (l2 :: r')) in Habl.
      now apply andb_true_iff in Habl. }
    assert (Hne : SParents <> SMessage) by discriminate.
    now rewrite (crun_msg _ _ _ _ _ _ Hne Hr Hablr Hd Hbody).
  - destruct r as [|l2 r']; [discriminate|].
    change (all_but_last_nl (l :: l2 :: r')) with (ends_nl l && all_but_last_nl (l2 :: r')) in Habl.
    rewrite Een in Habl. discriminate.
Qed.
