(* Proofs/C26.v — lexical confinement of validPath / ValidTreePath and the
   leading-symlink discipline. *)
From Coq Require Import List NArith Bool String Lia.
From GoGit Require Import Base.Out Model.Porcelain Model.WorktreePaths Proofs.PorcelainMaps.
Import ListNotations.
Local Open Scope N_scope.
Arguments beqb : simpl never.

(* ---------- splitting on two separators = splitting on one, then on the other *)

Lemma words_nonnil : forall sep s, words sep s <> [].
Proof.
  intros sep s. destruct s as [|c r]; cbn; [discriminate|].
  destruct (sep c); [discriminate|]. destruct (words sep r); discriminate.
Qed.

Lemma words_two : forall (s1 s2 : N -> bool) s,
  words (fun c => s1 c || s2 c) s = flat_map (words s2) (words s1 s).
Proof.
  intros s1 s2. induction s as [|c r IH]; [reflexivity|].
  cbn [words]. destruct (s1 c) eqn:E1; cbn [orb].
  - cbn [flat_map words app]. now rewrite IH.
  - destruct (words s1 r) as [|w ws] eqn:Ew; [now apply words_nonnil in Ew|].
    cbn [flat_map] in *. rewrite IH. cbn [words]. destruct (s2 c) eqn:E2.
    + reflexivity.
    + destruct (words s2 w) as [|x xs] eqn:Ex; [now apply words_nonnil in Ex|]. reflexivity.
Qed.

Lemma filter_flat_map {A B} (f : A -> list B) (p : B -> bool) (l : list A) :
  filter p (flat_map f l) = flat_map (fun x => filter p (f x)) l.
Proof. induction l as [|x l IH]; cbn; [reflexivity|]. now rewrite filter_app, IH. Qed.

Lemma flat_map_filter_nonempty (g : bytes -> list bytes) (l : list bytes) :
  g [] = [] -> flat_map g (filter nonempty l) = flat_map g l.
Proof.
  intro Hg. induction l as [|x l IH]; cbn; [reflexivity|].
  destruct x; cbn; [now rewrite Hg|]. now rewrite IH.
Qed.

Lemma fields_two : forall (s1 s2 : N -> bool) s,
  fields (fun c => s1 c || s2 c) s = flat_map (fields s2) (fields s1 s).
Proof.
  intros s1 s2 s. unfold fields at 1. rewrite words_two, filter_flat_map.
  unfold fields at 2. now rewrite flat_map_filter_nonempty.
Qed.

Lemma words_nosep : forall sep w, forallb (fun c => negb (sep c)) w = true -> words sep w = [w].
Proof.
  intros sep. induction w as [|c r IH]; cbn; [reflexivity|].
  intro H. apply andb_true_iff in H. destruct H as [H1 H2]. apply negb_true_iff in H1.
  now rewrite H1, (IH H2).
Qed.

Lemma fields_nosep : forall sep w, w <> [] -> forallb (fun c => negb (sep c)) w = true -> fields sep w = [w].
Proof.
  intros sep w Hne H. unfold fields. rewrite (words_nosep _ _ H). cbn. destruct w; [contradiction|reflexivity].
Qed.

Lemma fields_nonempty : forall sep s w, In w (fields sep s) -> w <> [].
Proof. intros sep s w H. unfold fields in H. apply filter_In in H. destruct H as [_ H]. now destruct w. Qed.

(* an OS component without backslash is also a validPath component *)
Lemma os_part_is_part : forall p c,
  In c (os_parts p) -> forallb (fun x => negb (is_bslash x)) c = true -> In c (fields is_sep p).
Proof.
  intros p c Hin Hb. unfold is_sep.
  rewrite (fields_two is_slash is_bslash p). apply in_flat_map. exists c. split; [exact Hin|].
  rewrite (fields_nosep _ _ (fields_nonempty _ _ _ Hin) Hb). now left.
Qed.

(* ---------- what valid_parts guarantees *)

Lemma valid_parts_nodots : forall ntfs first parts q,
  valid_parts ntfs first parts = true -> In q parts -> q <> s_dot /\ q <> s_dotdot.
Proof.
  intros ntfs first parts. revert first. induction parts as [|x r IH]; intros first q H Hin; [destruct Hin|].
  cbn [valid_parts] in H. repeat (apply andb_true_iff in H; destruct H as [H ?]).
  destruct Hin as [->|Hin].
  - apply negb_true_iff in H. apply negb_true_iff in H3. split; intro X; subst.
    + now rewrite beqb_refl in H.
    + now rewrite beqb_refl in H3.
  - eapply IH; eauto.
Qed.

Lemma valid_parts_first : forall ntfs q r, valid_parts ntfs true (q :: r) = true -> is_dotgit_name q = false.
Proof.
  intros ntfs q r H. cbn [valid_parts] in H. repeat (apply andb_true_iff in H; destruct H as [H ?]).
  apply negb_true_iff in H2. cbn [orb] in H2. now rewrite andb_true_r in H2.
Qed.

Lemma valid_parts_nonfinal : forall ntfs first pre q x post,
  valid_parts ntfs first (pre ++ q :: x :: post) = true -> is_dotgit_name q = false.
Proof.
  intros ntfs first pre. revert first. induction pre as [|y pre IH]; intros first q x post H.
  - cbn [app valid_parts] in H. repeat (apply andb_true_iff in H; destruct H as [H ?]).
    apply negb_true_iff in H2. cbn [negb] in H2. now rewrite orb_true_r, andb_true_r in H2.
  - cbn [app valid_parts] in H. repeat (apply andb_true_iff in H; destruct H as [H ?]). eapply IH; eauto.
Qed.

(* a .git name has no backslash in it *)
Lemma ieqb_no_bslash : forall c n, ieqb c n = true ->
  forallb (fun x => negb (is_bslash x)) (map lower n) = true ->
  forallb (fun x => negb (is_bslash x)) c = true.
Proof.
  intros c n H Hn. unfold ieqb in H. apply beqb_true in H. rewrite <- H in Hn. clear H.
  induction c as [|x c IH]; [reflexivity|]. cbn [map forallb] in *.
  apply andb_true_iff in Hn. destruct Hn as [H1 H2]. rewrite (IH H2), andb_true_r.
  unfold is_bslash, BSLASH, lower in *.
  destruct ((65 <=? x) && (x <=? 90)) eqn:E.
  - apply andb_true_iff in E. destruct E as [E1 E2]. apply N.leb_le in E1, E2.
    apply negb_true_iff. apply N.eqb_neq. lia.
  - exact H1.
Qed.

Lemma dotgit_no_bslash : forall c, is_dotgit_name c = true -> forallb (fun x => negb (is_bslash x)) c = true.
Proof.
  intros c H. unfold is_dotgit_name in H. apply orb_true_iff in H. destruct H as [H|H];
    (eapply ieqb_no_bslash; [exact H | vm_compute; reflexivity]).
Qed.

(* ---------- lexical resolution *)

Lemma lex_resolve_nodots : forall parts stack,
  (forall q, In q parts -> q <> s_dot /\ q <> s_dotdot) ->
  lex_resolve stack parts = Some (rev stack ++ parts).
Proof.
  induction parts as [|q r IH]; intros stack H; cbn [lex_resolve].
  - now rewrite app_nil_r.
  - destruct (H q (or_introl eq_refl)) as [H1 H2].
    rewrite (proj2 (beqb_false q s_dot) H1), (proj2 (beqb_false q s_dotdot) H2).
    rewrite IH by (intros; apply H; now right). cbn [rev]. now rewrite <- app_assoc.
Qed.

Lemma valid_path_parts : forall ntfs hfs p, valid_path ntfs hfs p = true ->
  fields is_sep p <> [] /\ valid_parts ntfs true (fields is_sep p) = true.
Proof.
  intros ntfs hfs p H. unfold valid_path in H. apply andb_true_iff in H. destruct H as [_ H].
  destruct (fields is_sep p); [discriminate|]. split; [discriminate|exact H].
Qed.

Lemma valid_path_os_nodots : forall ntfs hfs p c, valid_path ntfs hfs p = true ->
  In c (os_parts p) -> c <> s_dot /\ c <> s_dotdot.
Proof.
  intros ntfs hfs p c H Hin. destruct (valid_path_parts _ _ _ H) as [_ Hv].
  split; intro X; subst c.
  - destruct (valid_parts_nodots _ _ _ s_dot Hv (os_part_is_part p s_dot Hin eq_refl)) as [A _]. now apply A.
  - destruct (valid_parts_nodots _ _ _ s_dotdot Hv (os_part_is_part p s_dotdot Hin eq_refl)) as [_ A]. now apply A.
Qed.

Lemma valid_path_confined : forall ntfs hfs p, valid_path ntfs hfs p = true ->
  os_parts p <> [] /\
  lex_resolve [] (os_parts p) = Some (os_parts p) /\
  (forall c r, os_parts p = c :: r -> is_dotgit_name c = false).
Proof.
  intros ntfs hfs p H. destruct (valid_path_parts _ _ _ H) as [Hne Hv].
  assert (Hf : fields is_sep p = flat_map (fields is_bslash) (os_parts p))
    by (unfold is_sep, os_parts; apply fields_two).
  repeat split.
  - intro X. rewrite X in Hf. cbn in Hf. contradiction.
  - rewrite lex_resolve_nodots; [reflexivity|]. intros q Hq. eapply valid_path_os_nodots; eauto.
  - intros c r Hc. destruct (is_dotgit_name c) eqn:E; [|reflexivity]. exfalso.
    assert (Hin : In c (os_parts p)) by (rewrite Hc; now left).
    rewrite Hc in Hf. cbn [flat_map] in Hf.
    rewrite (fields_nosep _ _ (fields_nonempty _ _ _ Hin) (dotgit_no_bslash _ E)) in Hf.
    cbn [app] in Hf. rewrite Hf in Hv. apply valid_parts_first in Hv. congruence.
Qed.

(* ValidTreePath: no component at any depth is a .git name, "." or ".." *)
Lemma valid_tree_path_components : forall p c, valid_tree_path p = true -> In c (os_parts p) ->
  is_dotgit_name c = false /\ c <> s_dot /\ c <> s_dotdot.
Proof.
  intros p c H Hin. unfold valid_tree_path in H. apply andb_true_iff in H. destruct H as [_ H].
  destruct (fields is_sep p) as [|x xs] eqn:Ef; [discriminate|]. rewrite <- Ef in H.
  rewrite forallb_forall in H.
  assert (Hq : forall q, In q (os_parts p) -> forallb (fun x => negb (is_bslash x)) q = true ->
               beqb q s_dot = false /\ beqb q s_dotdot = false /\ is_dotgit_name q = false).
  { intros q Hq Hb. specialize (H q (os_part_is_part p q Hq Hb)).
    repeat (apply andb_true_iff in H; destruct H as [H ?]).
    repeat split; now apply negb_true_iff. }
  repeat split.
  - destruct (is_dotgit_name c) eqn:E; [|reflexivity].
    destruct (Hq c Hin (dotgit_no_bslash _ E)) as (_ & _ & X). congruence.
  - intro X. subst. destruct (Hq s_dot Hin eq_refl) as (A & _). now rewrite beqb_refl in A.
  - intro X. subst. destruct (Hq s_dotdot Hin eq_refl) as (_ & A & _). now rewrite beqb_refl in A.
Qed.

(* ---------- leading symlinks *)

Section Walk.
  (* the real file tree: what sits at a RESOLVED location, and where a symlink found there leads *)
  Variable node : list bytes -> ntype.
  Variable follow : list bytes -> list bytes.

  Definition wstep (cur : list bytes) (q : bytes) : list bytes :=
    let here := (cur ++ [q])%list in if is_link (node here) then follow here else here.

  (* kernel resolution of a directory path, every component followed *)
  Definition walk (parts : list bytes) : list bytes := fold_left wstep parts [].

  (* Lstat of a path: directory part resolved by the kernel, final component not followed *)
  Definition os_lstat (d : list bytes) : ntype :=
    match d with
    | [] => TDir
    | _ => node (walk (removelast d) ++ [last d []])%list
    end.

  Lemma os_lstat_snoc : forall ds q, os_lstat (ds ++ [q]) = node (walk ds ++ [q]).
  Proof.
    intros ds q. unfold os_lstat. destruct (ds ++ [q])%list eqn:E; [now destruct ds|].
    rewrite <- E. now rewrite removelast_last, last_last.
  Qed.

  Lemma walk_lexical : forall dirs,
    (forall d r, dirs = (d ++ r)%list -> d <> [] -> is_link (os_lstat d) = false) ->
    walk dirs = dirs.
  Proof.
    induction dirs as [|q ds IH] using rev_ind; intro H; [reflexivity|].
    unfold walk in *. rewrite fold_left_app. cbn [fold_left].
    rewrite IH.
    - unfold wstep. cbv zeta.
      assert (X : is_link (os_lstat (ds ++ [q])) = false).
      { apply (H (ds ++ [q])%list []); [now rewrite app_nil_r | now destruct ds]. }
      rewrite os_lstat_snoc in X. unfold walk in X. rewrite IH in X; [now rewrite X|].
      intros d r Hd Hne. apply (H d (r ++ [q])%list); [rewrite Hd; now rewrite app_assoc | exact Hne].
    - intros d r Hd Hne. apply (H d (r ++ [q])%list); [rewrite Hd; now rewrite app_assoc | exact Hne].
  Qed.

  Lemma in_proper_prefixes : forall (d r : list bytes), d <> [] -> r <> [] -> In d (proper_prefixes (d ++ r)).
  Proof.
    induction d as [|y d IH]; [contradiction|]. intros r _ Hr. cbn [app proper_prefixes].
    destruct (d ++ r)%list eqn:E.
    - destruct d; [destruct r; [contradiction|discriminate]|discriminate].
    - rewrite <- E. destruct d as [|y' d'].
      + now left.
      + right. apply in_map. apply IH; [discriminate|assumption].
  Qed.

  (* validNoLeadingSymlink accepted the path => the directory in which the final
     component is created / removed / opened is the lexical one *)
  Lemma no_leading_symlink_lexical : forall parts, parts <> [] ->
    no_leading_symlink os_lstat parts = true -> walk (removelast parts) = removelast parts.
  Proof.
    intros parts Hne H. unfold no_leading_symlink in H. rewrite forallb_forall in H.
    apply walk_lexical. intros d r Hd Hdne.
    specialize (H d). rewrite negb_true_iff in H. apply H.
    assert (E : exists lst, parts = (d ++ (r ++ [lst]))%list).
    { exists (last parts []). rewrite app_assoc, <- Hd. now apply app_removelast_last. }
    destruct E as (lst & E). rewrite E.
    apply in_proper_prefixes; [exact Hdne | now destruct r].
  Qed.
End Walk.
