(* Proofs/WorklistOrd.v — order contract of a worklist whose pop returns a
   maximum of its contents (priority queue): every emitted node is maximal
   among the frontier — the not yet emitted successors of the nodes emitted
   before it. *)
From Coq Require Import List Arith Bool Lia.
From GoGit Require Import Spec.Dag Model.CommitWalk Proofs.Worklist.
Import ListNotations.

Section Ord.
  Variable succ : node -> list node.
  Variable B : Type.
  Variable contents : B -> list node.
  Variable pop : B -> option (node * B).
  Variable push : node -> list node -> B -> B.
  Variable pushed : node -> list node -> list node.
  Variable good : B -> Prop.
  Variable R : node -> node -> Prop.      (* R x c: x is not preferred to c *)
  Hypothesis pop_in : forall b c b', pop b = Some (c, b') ->
    forall x, In x (contents b) <-> x = c \/ In x (contents b').
  Hypothesis push_in : forall c seen b x,
    In x (contents (push c seen b)) <-> In x (pushed c seen) \/ In x (contents b).
  Hypothesis pushed_all : forall c seen p, In p (succ c) -> ~ In p seen -> In p (pushed c seen).
  Hypothesis pop_good : forall b c b', good b -> pop b = Some (c, b') -> good b'.
  Hypothesis push_good : forall c seen b, good b -> good (push c seen b).
  Hypothesis pop_max : forall b c b', good b -> pop b = Some (c, b') -> forall x, In x (contents b) -> R x c.

  Variable I : list node.

  (* on the accumulator (newest first) *)
  Definition fm_acc (acc : list node) : Prop :=
    forall a1 c a2, acc = a1 ++ c :: a2 ->
    forall y p, In y a2 -> In p (succ y) -> ~ In p I -> ~ In p a2 -> R p c.

  (* on the output (emission order) *)
  Definition frontier_max (l : list node) : Prop :=
    forall l1 c l2, l = l1 ++ c :: l2 ->
    forall y p, In y l1 -> In p (succ y) -> ~ In p I -> ~ In p l1 -> R p c.

  Lemma fm_rev : forall acc, fm_acc acc -> frontier_max (rev acc).
  Proof.
    intros acc H l1 c l2 E y p Hy Hp Hi Hn.
    assert (E' : acc = rev l2 ++ c :: rev l1).
    { rewrite <- (rev_involutive acc), E, rev_app_distr. simpl. now rewrite <- app_assoc. }
    apply (H _ _ _ E' y p); auto.
    - now apply in_rev in Hy.
    - intros Hin. apply Hn. now apply in_rev.
  Qed.

  Record J (b : B) (seen acc : list node) : Prop := mkJ {
    j_closed : forall y p, In y acc -> In p (succ y) -> ~ In p I -> In p acc \/ In p (contents b);
    j_seen : forall x, In x seen <-> In x acc \/ In x I;
    j_good : good b;
    j_fm : fm_acc acc
  }.

  Lemma gloop_frontier : forall stop fuel b seen acc,
    J b seen acc -> frontier_max (fst (gloop B pop push stop fuel b seen acc)).
  Proof.
    intros stop. induction fuel as [|f IH]; intros b seen acc HJ.
    - simpl. apply fm_rev, (j_fm _ _ _ HJ).
    - simpl. destruct (pop b) as [[c b']|] eqn:Ep; [|simpl; apply fm_rev, (j_fm _ _ _ HJ)].
      pose proof (pop_in _ _ _ Ep) as Hin. destruct HJ as [h1 h2 h3 h4].
      destruct (mem c seen) eqn:Es.
      + apply IH. apply mem_In in Es. constructor; auto.
        * intros y p Hy Hp Hn. destruct (h1 y p Hy Hp Hn) as [H|H]; [now left|].
          apply Hin in H. destruct H as [H|H]; [|now right]. subst p.
          apply h2 in Es. destruct Es as [Es|Es]; [now left | contradiction].
        * eapply pop_good; eauto.
      + apply mem_false_In in Es.
        assert (Hfm : fm_acc (c :: acc)).
        { intros a1 x a2 E y p Hy Hp Hi Hn. destruct a1 as [|a a1]; simpl in E.
          - injection E as E1 E2. subst x a2.
            apply (pop_max b c b' h3 Ep). destruct (h1 y p Hy Hp Hi) as [H|H]; [contradiction | exact H].
          - injection E as E1 E2. subst a. eapply h4; eauto. }
        destruct (stop c); [simpl; change (rev acc ++ [c]) with (rev (c :: acc)); now apply fm_rev|].
        apply IH. constructor.
        * intros y p [Hy|Hy] Hp Hn.
          -- subst y. destruct (in_dec Nat.eq_dec p (c :: seen)) as [Hps|Hps].
             ++ destruct Hps as [Hps|Hps]; [left; now left|].
                apply h2 in Hps. destruct Hps as [Hps|Hps]; [left; now right | contradiction].
             ++ right. apply push_in. left. now apply pushed_all.
          -- destruct (h1 y p Hy Hp Hn) as [H|H]; [left; now right|].
             apply Hin in H. destruct H as [H|H]; [left; now left|]. right. apply push_in. now right.
        * intros x. simpl. rewrite h2. tauto.
        * apply push_good. eapply pop_good; eauto.
        * exact Hfm.
  Qed.
End Ord.
