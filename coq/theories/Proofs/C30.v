(* Proofs/C30.v — which local content survives a non-forced checkout and a
   merge / keep / soft / mixed reset. *)
From Coq Require Import List NArith ZArith Bool String.
From GoGit Require Import Base.Out Model.Porcelain Proofs.PorcelainMaps Proofs.Porcelain Proofs.C25 Proofs.C29.
Import ListNotations.
Local Open Scope N_scope.

(* an index entry whose file is missing or different on disk makes [unstaged] true *)
Lemma unstaged_true : forall s p e, In (p, e) (idx s) -> lookup p (wt s) <> Some e -> unstaged s = true.
Proof.
  intros s p e Hin Hne. unfold unstaged. apply existsb_exists. exists (p, e). split; [assumption|].
  cbn [fst snd]. apply negb_true_iff.
  destruct (ofent_eqb (lookup p (wt s)) (Some e)) eqn:E; [|reflexivity].
  apply ofent_eqb_true in E. contradiction.
Qed.

(* MergeReset refuses whenever a tracked file has an unstaged modification or
   deletion — whatever the target does to that file — and then changes nothing *)
Lemma merge_reset_refuses_unstaged : forall commit from s p e,
  In (p, e) (idx s) -> lookup p (wt s) <> Some e ->
  exists er, reset commit Merge from s = (Some er, s).
Proof.
  intros commit from s p e Hin Hne. pose proof (unstaged_true _ _ _ Hin Hne) as Hu.
  unfold reset. destruct (reset_commit commit s) as [[e1|] c]; [eauto|].
  rewrite Hu. eauto.
Qed.

Lemma checkout_merge_refuses_unstaged : forall o s p e,
  co_force o = false -> co_keep o = false ->
  In (p, e) (idx s) -> lookup p (wt s) <> Some e ->
  exists er, checkout o s = (Some er, s).
Proof.
  intros o s p e Hf Hk Hin Hne.
  assert (Hm : co_mode o = Merge) by (unfold co_mode; now rewrite Hf, Hk).
  destruct (checkout o s) as [[er|] s'] eqn:Ec.
  - exists er. now rewrite (checkout_err_unchanged _ _ _ _ Ec).
  - exfalso. destruct (checkout_ok _ _ _ Ec ltac:(rewrite Hm; discriminate)) as (c & t & pv & _ & _ & _ & _ & _ & _ & _ & K).
    rewrite (unstaged_true _ _ _ Hin Hne) in K. specialize (K Hm). discriminate.
Qed.

(* successful MergeReset: a path whose index entry already equals the target's
   entry (both absent included) keeps its worktree content *)
Lemma merge_reset_preserves : forall commit from s s',
  reset commit Merge from s = (None, s') ->
  exists c t, reset_target commit s = Some c /\ tree_of s c = Some t /\
    forall p, lookup p (idx s) = lookup p t -> lookup p (wt s') = lookup p (wt s).
Proof.
  intros commit from s s' H.
  destruct (reset_ok _ _ _ _ _ H ltac:(discriminate)) as (c & t & s1 & R1 & R2 & _ & _ & _ & _ & _ & R8 & _).
  exists c, t. repeat split; auto. intros p Hp. rewrite R8. cbn [wt_after].
  now rewrite (proj2 (ofent_eqb_true _ _) Hp).
Qed.

Lemma checkout_merge_preserves : forall o s s',
  co_force o = false -> co_keep o = false -> checkout o s = (None, s') ->
  exists c t, checkout_target o s = Some c /\ tree_of s c = Some t /\
    forall p, lookup p (idx s) = lookup p t -> lookup p (wt s') = lookup p (wt s).
Proof.
  intros o s s' Hf Hk H.
  assert (Hm : co_mode o = Merge) by (unfold co_mode; now rewrite Hf, Hk).
  destruct (checkout_ok _ _ _ H ltac:(rewrite Hm; discriminate)) as (c & t & pv & K1 & K2 & _ & _ & _ & K6 & _).
  exists c, t. repeat split; auto. intros p Hp. rewrite K6, Hm. cbn [wt_after].
  now rewrite (proj2 (ofent_eqb_true _ _) Hp).
Qed.

(* KeepReset that succeeds writes exactly like HardReset *)
Lemma keep_reset_effect : forall commit s s',
  reset commit Keep None s = (None, s') ->
  exists c t, reset_target commit s = Some c /\ tree_of s c = Some t /\
    (forall p e, lookup p t = Some e -> lookup p (wt s') = Some e) /\
    (forall p, lookup p t = None -> lookup p (tree_or_empty (head_tree s)) = None ->
               lookup p (wt s') = lookup p (wt s)).
Proof.
  intros commit s s' H.
  destruct (reset_ok _ _ _ _ _ H ltac:(discriminate)) as (c & t & s1 & R1 & R2 & _ & _ & _ & _ & _ & R8 & _).
  exists c, t. repeat split; auto.
  - intros p e Hp. rewrite R8. cbn [wt_after]. now rewrite Hp.
  - intros p Hp Hh. rewrite R8. cbn [wt_after]. rewrite Hp.
    unfold prev_of, prev_tree. now rewrite (not_in_tree_mem _ _ Hh).
Qed.

(* Soft and Mixed never touch the worktree (Soft not even the index); neither
   does Checkout with Keep *)
Lemma reset_mixed_wt : forall commit from s r, reset commit Mixed from s = r -> wt (snd r) = wt s.
Proof.
  intros commit from s [[e|] s'] H; cbn [snd].
  - apply reset_err_unchanged in H. now subst.
  - destruct (reset_ok _ _ _ _ _ H ltac:(discriminate)) as (c & t & s1 & _ & _ & R3 & _ & _ & _ & _ & R8 & _).
    (* pointwise equality is what the model gives; for Mixed the worktree is literally untouched *)
    unfold reset in H. destruct (reset_commit commit s) as [[e1|] c1]; [discriminate|].
    cbv beta iota in H. unfold prev_tree in H. cbv beta iota in H.
    destruct (tree_of s c1); [|discriminate]. unfold apply_reset in H.
    destruct (set_head_commit c1 s) as [[e2|] s2] eqn:E2; [discriminate|].
    destruct (set_head_commit_ok _ _ _ E2) as (_ & _ & W & _).
    inversion H; subst. cbn. exact W.
Qed.

Lemma checkout_keep_untouched : forall o s r,
  co_force o = false -> co_keep o = true -> checkout o s = r ->
  idx (snd r) = idx s /\ wt (snd r) = wt s.
Proof.
  intros o s r Hf Hk <-. destruct (checkout o s) as [[e|] s'] eqn:Ec; cbn [snd].
  - now rewrite (checkout_err_unchanged _ _ _ _ Ec).
  - unfold checkout in Ec.
    destruct (checkout_pre o s) as [[e1|] [[[c m] from] s2]] eqn:Ep; [discriminate|].
    destruct (checkout_pre_ok _ _ _ _ _ _ Ep) as (-> & _ & _ & _ & A & B & _).
    assert (Hm : co_mode o = Soft) by (unfold co_mode; now rewrite Hf, Hk).
    rewrite Hm in Ec. destruct (reset_soft c from s2 _ Ec) as (X & Y). cbn [snd] in X, Y. split; congruence.
Qed.

(* ---------- witnesses of lost local content (replayed on the real code) *)

(* (i) a staged new file that the target lacks is deleted from disk *)
Definition c30_t0 : fmap := [(b "a", (KReg, b "A0"))].
Definition c30_t1 : fmap := [(b "a", (KReg, b "A1")); (b "n", (KReg, b "N"))].
Definition c30_base (ix w : fmap) : state :=
  mkState [c30_t0; c30_t1] [(master, 0%Z); (o_other, 1%Z)] (HSym master) ix w [].
Definition co_plain (br : bytes) := mkCopts br (-1) false false false.

Definition c30_staged : state :=
  c30_base [(b "a", (KReg, b "A0")); (b "s", (KReg, b "S"))] [(b "a", (KReg, b "A0")); (b "s", (KReg, b "S"))].

Lemma checkout_deletes_staged_new :
  exists s', checkout (co_plain o_other) c30_staged = (None, s') /\
    lookup (b "s") (wt c30_staged) = Some (KReg, b "S") /\ lookup (b "s") (wt s') = None /\
    lookup (b "s") (idx s') = None.
Proof. eexists. vm_compute. repeat split. Qed.

(* (ii) an untracked file at a path the target adds is overwritten *)
Definition c30_untracked : state :=
  c30_base c30_t0 [(b "a", (KReg, b "A0")); (b "n", (KReg, b "mine"))].

Lemma checkout_overwrites_untracked :
  exists s', checkout (co_plain o_other) c30_untracked = (None, s') /\
    lookup (b "n") (idx c30_untracked) = None /\
    lookup (b "n") (wt c30_untracked) = Some (KReg, b "mine") /\
    lookup (b "n") (wt s') = Some (KReg, b "N").
Proof. eexists. vm_compute. repeat split. Qed.

(* (iii) KeepReset: an unstaged modification of a file the reset does not touch
   (same entry in HEAD and target) is overwritten with the target's version *)
Definition c30_k0 : fmap := [(b "a", (KReg, b "A0")); (b "u", (KReg, b "U"))].
Definition c30_k1 : fmap := [(b "a", (KReg, b "A1")); (b "u", (KReg, b "U"))].
Definition c30_keep : state :=
  mkState [c30_k0; c30_k1] [(master, 0%Z)] (HSym master) c30_k0
          [(b "a", (KReg, b "A0")); (b "u", (KReg, b "local"))] [].

Lemma keep_overwrites_untouched :
  exists s', reset 1 Keep None c30_keep = (None, s') /\
    lookup (b "u") c30_k0 = lookup (b "u") c30_k1 /\
    lookup (b "u") (wt c30_keep) = Some (KReg, b "local") /\
    lookup (b "u") (wt s') = Some (KReg, b "U").
Proof. eexists. vm_compute. repeat split. Qed.
