(* Proofs/C10Lazy.v — LazyIndex (Model/Idx.v, the lazy_ functions) opened on git's idx
   layout of a well-formed table answers like the map: init, findHashPos,
   offset (32/64-bit), crc32, Contains, FindOffset, FindCRC32, Entries. *)
From Coq Require Import List NArith ZArith Bool Lia ZifyBool ZifyNat ZifyN Sorting.Sorted.
From GoGit Require Import Base.Out Base.GoInt Model.PackBytes Model.Idx Spec.IdxFormat
  Proofs.C10Search Proofs.C10Order Proofs.C10Bytes Proofs.C10Table Proofs.C10Layout.
Import ListNotations.
Local Open Scope N_scope.
Ltac Zify.zify_post_hook ::= Z.div_mod_to_equations.

(* ---- parsing the fanout table back ---- *)

Fixpoint nondec (prev : N) (l : list N) : Prop :=
  match l with [] => True | x :: r => prev <= x /\ nondec x r end.

Lemma nondec_map_seq (f : nat -> N) : forall len s prev,
  prev <= f s -> (forall i, f i <= f (S i)) -> nondec prev (map f (seq s len)).
Proof.
  induction len as [|len IH]; intros s prev Hp Hm; cbn; [exact I|].
  split; [assumption|]. apply IH; auto.
Qed.

Lemma parse_fanout_flat : forall l prev,
  nondec prev l -> (forall x, In x l -> x < 4294967296) ->
  parse_fanout (List.length l) (flat_map be32 l) prev = Some l.
Proof.
  induction l as [|x l IH]; intros prev Hn Hb; [reflexivity|].
  destruct Hn as [Hp Hn]. cbn [List.length parse_fanout flat_map].
  rewrite get32_be32 by (apply Hb; now left).
  replace (x <? prev) with false by lia.
  replace (skipn 4 (be32 x ++ flat_map be32 l)) with (flat_map be32 l) by reflexivity.
  rewrite IH; auto. intros; apply Hb; now right.
Qed.

Lemma count_msb32_flat : forall codes,
  (forall c, In c codes -> c < 4294967296) ->
  count_msb32 (List.length codes) (flat_map be32 codes)
  = N.of_nat (List.length (filter (fun c => P31 <=? c) codes)).
Proof.
  induction codes as [|c l IH]; intros Hb; [reflexivity|].
  cbn [List.length count_msb32 flat_map filter].
  rewrite get32_be32 by (apply Hb; now left).
  replace (skipn 4 (be32 c ++ flat_map be32 l)) with (flat_map be32 l) by reflexivity.
  rewrite IH by (intros; apply Hb; now right).
  change L_MASK with P31. rewrite land_mask31 by (apply Hb; now left).
  destruct (c <? P31) eqn:E.
  - replace (P31 <=? c) with false by lia. cbn. lia.
  - replace (P31 <=? c) with true by lia. cbn [List.length]. unfold P31. cbn [N.eqb]. lia.
Qed.

Lemma big_codes_count : forall tbl n0,
  n0 + n_big tbl <= 2147483648 -> (forall e, In e tbl -> e_off e < 18446744073709551616) ->
  List.length (filter (fun c => P31 <=? c) (off32_codes tbl n0)) = List.length (filter is_big tbl).
Proof.
  unfold n_big. induction tbl as [|e l IH]; intros n0 Hn Ho; [reflexivity|].
  cbn [off32_codes filter] in *. destruct (is_big e) eqn:E; cbn [filter List.length] in *.
  - replace (P31 <=? n0 + 2147483648) with true by (unfold P31; lia). cbn [List.length]. f_equal.
    apply IH; [lia|intros; apply Ho; now right].
  - unfold is_big in E. replace (P31 <=? e_off e) with false by (unfold P31; lia).
    apply IH; [lia|intros; apply Ho; now right].
Qed.

Section Lazy.
Variable hs : nat.
Variable H : bytes -> bytes.
Variable tbl : list entry.
Variable pack rev : bytes.
Hypothesis WF : wf_tbl hs tbl.
Hypothesis Hpack : List.length pack = hs.
(* the rev file starts with "RIDX", version 1 and a 4-byte hash-function id *)
Hypothesis Hrev : exists hf t, rev = ([82; 73; 68; 88] ++ be32 1 ++ hf) ++ t /\ List.length hf = 4%nat.

Let n : N := N.of_nat (List.length tbl).
Let HS : N := N.of_nat hs.
Let file := idx_file H tbl pack.
Set Default Proof Using "hs H tbl pack rev WF Hpack Hrev".

(* the layout lemmas at this table *)
Let RHeader := read_header hs H tbl pack WF Hpack.
Let RFanout := read_fanout_tbl hs H tbl pack WF Hpack.
Let RO32 := read_o32_table hs H tbl pack WF Hpack.
Let RPack := read_pack hs H tbl pack WF Hpack.
Let RName := read_name hs H tbl pack WF Hpack.
Let RCrc := read_crc hs H tbl pack WF Hpack.
Let RCode := read_code hs H tbl pack WF Hpack.
Let RBig := read_big hs H tbl pack WF Hpack.
Let CodeLt := code_lt hs H tbl pack WF Hpack.
Let CodeSmall := code_small hs H tbl pack WF Hpack.
Let CodeBig := code_big hs H tbl pack WF Hpack.
Let CountAll := count_all hs H tbl pack WF Hpack.
Let FanNth := fanout_nth hs H tbl pack WF Hpack.
Let FanLen := fanout_length hs H tbl pack WF Hpack.
Let HashNe := hash_nonempty hs H tbl pack WF Hpack.

Definition the_lazy : lazyidx :=
  mkL file rev (fanout_of tbl) n (n_big tbl) 1032 (1032 + n * HS) (1032 + n * HS + n * 4) (1032 + n * HS + n * 4 + n * 4).

Lemma n_big_le : n_big tbl <= n.
Proof.
  unfold n_big, n. assert (List.length (filter is_big tbl) <= List.length tbl)%nat.
  { clear. induction tbl as [|e l IH]; cbn; [lia|]. destruct (is_big e); cbn; lia. }
  lia.
Qed.

Lemma fanout_nondec : nondec 0 (fanout_of tbl).
Proof.
  unfold fanout_of. apply nondec_map_seq; [lia|]. intros i. apply count_le_mono. lia.
Qed.

Lemma fanout_bound x : In x (fanout_of tbl) -> x < 4294967296.
Proof.
  unfold fanout_of. rewrite in_map_iff. intros (k & <- & _).
  pose proof (count_le_le tbl (N.of_nat k)). pose proof (wf_count _ _ WF). lia.
Qed.

Lemma lazy_init_ok : lazy_init hs file rev pack = Ok the_lazy.
Proof.
  unfold lazy_init. change L_HDR with 8. change L_FANOUT with 1024. change L_REVHDR with 12.
  change L_OFF32 with 4. change L_OFF64 with 8.
  unfold file. rewrite RHeader.
  replace (bytes_eqb (firstn 4 S_HDRB) IDX_MAGIC) with true by reflexivity.
  replace (get32 (skipn 4 S_HDRB) =? IDX_VERSION) with true by reflexivity. cbn [negb].
  destruct Hrev as (hf & t & Er & Ht).
  assert (R : read_at rev 0 12 = Some ([82; 73; 68; 88] ++ be32 1 ++ hf)).
  { rewrite Er. apply (read_at_app_mid [] ([82; 73; 68; 88] ++ be32 1 ++ hf) t); [reflexivity|].
    unfold blen. rewrite !app_length, Ht. reflexivity. }
  rewrite R. clear R.
  replace (bytes_eqb (firstn 4 ([82; 73; 68; 88] ++ be32 1 ++ hf)) [82; 73; 68; 88]) with true by reflexivity.
  replace (get32 (skipn 4 ([82; 73; 68; 88] ++ be32 1 ++ hf)) =? 1) with true by reflexivity. cbn [negb].
  rewrite RFanout.
  unfold S_FAN. replace 256%nat with (List.length (fanout_of tbl)) by apply FanLen.
  rewrite parse_fanout_flat by (apply fanout_nondec || apply fanout_bound).
  rewrite (FanNth 255%nat) by lia. change (N.of_nat 255) with 255.
  rewrite CountAll. fold n. fold HS.
  assert (C : (if n =? 0 then Some 0
               else match read_at (idx_file H tbl pack) (8 + 1024 + n * HS + n * 4) (n * 4) with
                    | Some tbl0 => Some (count_msb32 (N.to_nat n) tbl0)
                    | None => None
                    end) = Some (n_big tbl)).
  { destruct (n =? 0) eqn:E0.
    - pose proof n_big_le. f_equal. lia.
    - change (8 + 1024) with 1032. unfold n, HS. rewrite RO32. f_equal.
      unfold S_O32. replace (N.to_nat (N.of_nat (List.length tbl))) with (List.length (off32_codes tbl 0))
        by (rewrite off32_codes_length; lia).
      rewrite count_msb32_flat.
      + rewrite big_codes_count; [reflexivity| |apply (wf_off _ _ WF)].
        pose proof n_big_le. pose proof (wf_count _ _ WF). unfold n in *. lia.
      + apply (off32_codes_bound tbl 0).
        * pose proof n_big_le. pose proof (wf_count _ _ WF). unfold n in *. lia.
        * intros e He Hb. unfold is_big in Hb. lia. }
  rewrite C. clear C.
  change (8 + 1024) with 1032. unfold n, HS. rewrite RPack.
  replace (bytes_eqb pack pack) with true by (symmetry; now apply bytes_eqb_eq). cbn [negb].
  reflexivity.
Qed.

(* ---- positions ---- *)

Lemma lazy_name_ok i : i < n -> lazy_name hs the_lazy i = Some (e_hash (nth (N.to_nat i) tbl d0)).
Proof. intros Hi. unfold lazy_name, the_lazy. cbn [l_file l_names]. apply (RName i Hi). Qed.

Lemma lazy_crc_ok i : i < n -> lazy_crc the_lazy i = Ok (e_crc (nth (N.to_nat i) tbl d0)).
Proof.
  intros Hi. unfold lazy_crc, the_lazy. cbn [l_file l_crc].
  unfold n, HS, file. rewrite (RCrc i Hi).
  rewrite get32_be32'; [reflexivity|]. apply (wf_crc _ _ WF). apply nth_In. unfold n in Hi. lia.
Qed.

Lemma lazy_offset_ok i : i < n -> lazy_offset the_lazy i = Ok (e_off (nth (N.to_nat i) tbl d0)).
Proof.
  intros Hi. unfold lazy_offset, the_lazy. cbn [l_file l_off32 l_off64 l_count64].
  change L_OFF32 with 4. change L_OFF64 with 8. change L_MASK with P31.
  unfold n, HS, file. rewrite (RCode i Hi).
  pose proof (CodeLt i Hi) as Hc.
  rewrite get32_be32' by exact Hc. rewrite land_mask31 by exact Hc.
  destruct (is_big (nth (N.to_nat i) tbl d0)) eqn:Eb.
  - destruct (CodeBig i Hi Eb) as (j & Ej & Hj & Hj31 & Ev). rewrite Ej.
    replace (j + 2147483648 <? P31) with false by (unfold P31; lia).
    replace (P31 =? 0) with false by reflexivity.
    rewrite ldiff_mask31 by (unfold P31 in *; lia).
    replace ((j + 2147483648) mod P31) with j by (unfold P31; lia).
    replace (n_big tbl <=? j) with false by lia.
    rewrite (RBig j Hj). rewrite <- (app_nil_r (be64 _)).
    rewrite get64_be64; [now rewrite Ev|]. rewrite Ev. apply (wf_off _ _ WF). apply nth_In. unfold n in Hi. lia.
  - destruct (CodeSmall i Hi Eb) as [Ec Hs]. rewrite Ec.
    replace (e_off (nth (N.to_nat i) tbl d0) <? P31) with true by (unfold P31; lia). reflexivity.
Qed.

Lemma lazy_entry_ok i : i < n -> lazy_entry_at hs the_lazy i = Ok (nth (N.to_nat i) tbl d0).
Proof.
  intros Hi. unfold lazy_entry_at. rewrite lazy_name_ok, lazy_offset_ok, lazy_crc_ok by assumption.
  now destruct (nth (N.to_nat i) tbl d0).
Qed.

(* ---- the fanout bounds of a first byte ---- *)

Definition F (k : nat) : N := count_le tbl (N.of_nat k).

Lemma lazy_bounds_ok fb : (fb < 256)%nat ->
  lazy_bounds the_lazy fb = ((if Nat.eqb fb 0 then 0 else F (fb - 1)), F fb).
Proof.
  intros Hf. unfold lazy_bounds, the_lazy. cbn [l_fanout].
  rewrite (FanNth fb) by assumption.
  destruct (Nat.eqb fb 0) eqn:E; [reflexivity|]. apply Nat.eqb_neq in E.
  now rewrite (FanNth (fb - 1)%nat) by lia.
Qed.

(* position i holds an id whose first byte is fb iff lo <= i < hi *)
Lemma bucket_range i fb : i < n -> (fb < 256)%nat ->
  (first_of (nth (N.to_nat i) tbl d0) = N.of_nat fb <->
   (if Nat.eqb fb 0 then 0 else F (fb - 1)) <= i < F fb).
Proof.
  intros Hi Hf. unfold F.
  assert (Hne : forall e, In e tbl -> e_hash e <> []) by (apply HashNe).
  assert (Hl : (N.to_nat i < List.length tbl)%nat) by (unfold n in Hi; lia).
  pose proof (count_le_pos tbl (N.of_nat fb) (N.to_nat i) d0 (wf_sorted _ _ WF) Hne Hl) as P1.
  rewrite N2Nat.id in P1.
  destruct (Nat.eqb fb 0) eqn:E.
  - apply Nat.eqb_eq in E. subst fb. cbn in *. lia.
  - apply Nat.eqb_neq in E.
    pose proof (count_le_pos tbl (N.of_nat (fb - 1)) (N.to_nat i) d0 (wf_sorted _ _ WF) Hne Hl) as P2.
    rewrite N2Nat.id in P2. lia.
Qed.

Lemma F_le_n k : F k <= n.
Proof. apply count_le_le. Qed.

(* ---- findHashPos ---- *)

Definition wf_hash (h : bytes) : Prop := List.length h = hs /\ forall b, In b h -> b < 256.

Lemma first_byte_lt h : wf_hash h -> (first_byte h < 256)%nat.
Proof.
  intros [Hl Hb]. unfold first_byte. destruct h as [|b r]; cbn; [lia|].
  specialize (Hb b (or_introl eq_refl)). lia.
Qed.

Lemma hash_at_sorted i j : i < j -> j < n ->
  bytes_cmp (e_hash (nth (N.to_nat i) tbl d0)) (e_hash (nth (N.to_nat j) tbl d0)) = Lt.
Proof.
  intros Hij Hj. apply (sorted_nth_lt tbl (wf_sorted _ _ WF)); unfold n in *; lia.
Qed.

Lemma name_probe_mono h lo hi : hi <= n ->
  mono (fun mid => match lazy_name hs the_lazy mid with None => None | Some nm => Some (bytes_cmp h nm) end) lo hi.
Proof.
  intros Hh i j Hi Hij Hj.
  rewrite !lazy_name_ok by lia.
  destruct (N.eq_dec i j) as [<-|Hne]; [split; auto|].
  assert (Hs := hash_at_sorted i j ltac:(lia) ltac:(lia)).
  split; intros E; injection E as E1; f_equal.
  - eapply bytes_cmp_trans; [exact E1|exact Hs].
  - apply bytes_cmp_lt_gt. apply bytes_cmp_lt_gt in E1. eapply bytes_cmp_trans; [exact Hs|exact E1].
Qed.

Lemma name_probe_total h lo hi : hi <= n ->
  total (fun mid => match lazy_name hs the_lazy mid with None => None | Some nm => Some (bytes_cmp h nm) end) lo hi.
Proof. intros Hh i Hi Hj. rewrite lazy_name_ok by lia. discriminate. Qed.

Lemma lazy_find_pos_spec h : wf_hash h ->
  (exists i, i < n /\ e_hash (nth (N.to_nat i) tbl d0) = h /\ lazy_find_pos hs the_lazy h = Found i) \/
  ((forall e, In e tbl -> e_hash e <> h) /\ lazy_find_pos hs the_lazy h = NotFound).
Proof.
  intros Hh. pose proof (first_byte_lt h Hh) as Hf.
  unfold lazy_find_pos. rewrite lazy_bounds_ok by assumption.
  set (lo := if Nat.eqb (first_byte h) 0 then 0 else F (first_byte h - 1)).
  set (hi := F (first_byte h)).
  assert (Hout : forall i, i < n -> e_hash (nth (N.to_nat i) tbl d0) = h -> lo <= i < hi).
  { intros i Hi E. apply (bucket_range i (first_byte h) Hi Hf).
    unfold first_of. rewrite E. unfold first_byte. destruct Hh as [_ Hb].
    destruct h as [|b r]; cbn; [reflexivity|]. specialize (Hb b (or_introl eq_refl)). lia. }
  assert (Hnone : (forall i, lo <= i -> i < hi -> e_hash (nth (N.to_nat i) tbl d0) <> h) ->
                  forall e, In e tbl -> e_hash e <> h).
  { intros Hno e He E. destruct (In_nth tbl e d0 He) as (k & Hk & Ek).
    assert (Hkn : N.of_nat k < n) by (unfold n; lia).
    specialize (Hout (N.of_nat k) Hkn). rewrite Nat2N.id, Ek in Hout. specialize (Hout E).
    apply (Hno (N.of_nat k)); try lia. now rewrite Nat2N.id, Ek. }
  destruct (hi <=? lo) eqn:Ehl.
  - right. split; [|reflexivity]. apply Hnone. intros; lia.
  - pose proof (F_le_n (first_byte h)) as Hhn. fold hi in Hhn.
    pose proof (bs_while_fuel _ lo hi (name_probe_mono h lo hi Hhn) (name_probe_total h lo hi Hhn)) as Sp.
    destruct (bs_while (bs_fuel lo hi) _ lo hi) as [i| | |] eqn:Eb; cbn in Sp; try contradiction.
    + left. destruct Sp as [Hr Hp]. rewrite lazy_name_ok in Hp by lia.
      exists i. split; [lia|]. split; [|reflexivity].
      injection Hp as Hc. symmetry. now apply bytes_cmp_eq.
    + right. split; [|reflexivity]. apply Hnone. intros i Hi Hj E.
      apply (Sp i Hi Hj). rewrite lazy_name_ok by lia. now rewrite E, bytes_cmp_refl.
Qed.

(* ---- the map ---- *)

Lemma lookup_nth i : i < n -> lookup tbl (e_hash (nth (N.to_nat i) tbl d0)) = Some (nth (N.to_nat i) tbl d0).
Proof.
  intros Hi. unfold lookup.
  pose proof (sorted_distinct tbl (wf_sorted _ _ WF)) as D. unfold distinct_hashes in D.
  assert (Hl : (N.to_nat i < List.length tbl)%nat) by (unfold n in Hi; lia).
  clear Hi. revert D Hl. generalize (N.to_nat i). clear.
  induction tbl as [|e l IH]; intros k D Hk; cbn in Hk; [lia|].
  inversion D as [|? ? Hn D']; subst. destruct k as [|k]; cbn [nth find].
  - now rewrite (proj2 (bytes_eqb_eq _ _) eq_refl).
  - destruct (bytes_eqb (e_hash e) (e_hash (nth k l d0))) eqn:E.
    + apply bytes_eqb_eq in E. exfalso. apply Hn. rewrite E. apply in_map, nth_In. lia.
    + apply IH; [assumption|lia].
Qed.

Lemma lookup_none h : (forall e, In e tbl -> e_hash e <> h) -> lookup tbl h = None.
Proof.
  intros Hn. unfold lookup. clear - Hn. induction tbl as [|e l IH]; cbn; [reflexivity|].
  rewrite (proj2 (bytes_eqb_neq (e_hash e) h)) by (apply Hn; now left).
  apply IH. intros; apply Hn; now right.
Qed.

Theorem lazy_contains_map h : wf_hash h ->
  lazy_contains hs the_lazy h = Ok (match lookup tbl h with Some _ => true | None => false end).
Proof.
  intros Hh. unfold lazy_contains.
  destruct (lazy_find_pos_spec h Hh) as [(i & Hi & E & ->)|[Hn ->]].
  - now rewrite <- E, lookup_nth.
  - now rewrite lookup_none.
Qed.

Theorem lazy_find_offset_map h : wf_hash h ->
  lazy_find_offset hs the_lazy h =
    match lookup tbl h with Some e => Ok (to_i64 (e_off e)) | None => Err ENotFound end.
Proof.
  intros Hh. unfold lazy_find_offset.
  destruct (lazy_find_pos_spec h Hh) as [(i & Hi & E & ->)|[Hn ->]].
  - rewrite lazy_offset_ok by assumption. now rewrite <- E, lookup_nth.
  - now rewrite lookup_none.
Qed.

Theorem lazy_find_crc_map h : wf_hash h ->
  lazy_find_crc hs the_lazy h =
    match lookup tbl h with Some e => Ok (e_crc e) | None => Err ENotFound end.
Proof.
  intros Hh. unfold lazy_find_crc.
  destruct (lazy_find_pos_spec h Hh) as [(i & Hi & E & ->)|[Hn ->]].
  - rewrite lazy_crc_ok by assumption. now rewrite <- E, lookup_nth.
  - now rewrite lookup_none.
Qed.

(* ---- Entries ---- *)

Lemma lazy_walk_ok : forall k i,
  i + N.of_nat k <= n -> lazy_walk hs the_lazy i k = (firstn k (skipn (N.to_nat i) tbl), None).
Proof.
  induction k as [|k IH]; intros i Hi; cbn [lazy_walk]; [now rewrite firstn_O|].
  rewrite lazy_entry_ok by lia. rewrite IH by lia.
  replace (N.to_nat (i + 1)) with (S (N.to_nat i)) by lia.
  assert (Hl : (N.to_nat i < List.length tbl)%nat) by (unfold n in Hi; lia).
  rewrite (skipn_nth_cons tbl (N.to_nat i) d0 Hl). reflexivity.
Qed.

Theorem lazy_entries_map : lazy_entries hs the_lazy = (tbl, None).
Proof.
  unfold lazy_entries, the_lazy. cbn [l_count]. fold the_lazy.
  rewrite lazy_walk_ok by lia. unfold n. rewrite Nat2N.id. cbn [skipn]. now rewrite firstn_all.
Qed.

Theorem lazy_count_map : l_count the_lazy = N.of_nat (List.length tbl).
Proof. reflexivity. Qed.

End Lazy.
