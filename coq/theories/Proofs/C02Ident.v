(* Proofs/C02Ident.v — Signature.Decode (Signature.Encode i) = i for every
   well-formed identity (Spec/ObjWf.wf_ident). *)
From Coq Require Import List NArith ZArith Bool Lia ZifyBool ZifyNat ZifyN.
From GoGit Require Import Base.Out Model.ObjLines Model.Ident Spec.ObjWf Proofs.ObjLinesFacts Proofs.C02Dec.
Import ListNotations.
Local Open Scope N_scope.

(* ---- list facts ---- *)
Lemma has_byte_app c x y : has_byte c (x ++ y) = has_byte c x || has_byte c y.
Proof. apply existsb_app. Qed.

Lemma has_byte_forall (f : N -> bool) c b :
  (forall x, f x = true -> (x =? c) = false) -> forallb f b = true -> has_byte c b = false.
Proof.
  intros Hf. induction b as [|x b IH]; cbn; [reflexivity|]. intros H. apply andb_true_iff in H as [H1 H2].
  rewrite N.eqb_sym, (Hf _ H1). cbn. now apply IH.
Qed.

Lemma last_index_of_none c b : has_byte c b = false -> last_index_of c b = None.
Proof.
  induction b as [|x b IH]; cbn; [reflexivity|]. intros H. apply orb_false_iff in H as [H1 H2].
  rewrite (IH H2). rewrite N.eqb_sym in H1. now rewrite H1.
Qed.

Lemma last_index_of_unique c x y : has_byte c y = false -> last_index_of c (x ++ c :: y) = Some (List.length x).
Proof.
  intros H. induction x as [|a x IH]; cbn [app last_index_of List.length].
  - now rewrite (last_index_of_none _ _ H), N.eqb_refl.
  - now rewrite IH.
Qed.

Lemma index_of_first c x y : has_byte c x = false -> index_of c (x ++ c :: y) = Some (List.length x).
Proof.
  induction x as [|a x IH]; cbn [app index_of List.length has_byte existsb]; intros H.
  - now rewrite N.eqb_refl.
  - apply orb_false_iff in H as [H1 H2]. rewrite N.eqb_sym in H1. now rewrite H1, (IH H2).
Qed.

Lemma firstn_app_exact {A} (x y : list A) : firstn (List.length x) (x ++ y) = x.
Proof. rewrite firstn_app, Nat.sub_diag, firstn_all. cbn. apply app_nil_r. Qed.
Lemma skipn_app_exact {A} (x y : list A) : skipn (List.length x) (x ++ y) = y.
Proof. rewrite skipn_app, Nat.sub_diag, skipn_all. reflexivity. Qed.

Lemma trim_left_id c b : first_is c b = false -> trim_left c b = b.
Proof. destruct b as [|x b]; cbn; [reflexivity|]. now intros ->. Qed.

Lemma trim_right_id c b : last_is c b = false -> trim_right c b = b.
Proof.
  unfold last_is. induction b as [|x b IH]; [reflexivity|]. cbn [rev]. intros H.
  cbn [trim_right]. destruct b as [|y b].
  - cbn in *. now rewrite H.
  - rewrite IH.
    + reflexivity.
    + cbn [rev] in *. destruct (rev b ++ [y]) eqn:E; [destruct (rev b); discriminate|]. exact H.
Qed.

Lemma trim_right_snoc c b : trim_right c (b ++ [c]) = trim_right c b.
Proof.
  induction b as [|x b IH]; cbn [app trim_right].
  - now rewrite N.eqb_refl.
  - now rewrite IH.
Qed.

(* ---- the time part ---- *)
Definition tchar (c : N) : bool := is_digit c || (c =? 32) || (c =? 43) || (c =? 45).

Lemma zone_form tz : wf_zone tz = true ->
  let a := Z.to_N (Z.abs tz) in
  fmt_zone tz = [if (tz <? 0)%Z then 45 else 43;
                 48 + (a / 60) / 10; 48 + (a / 60) mod 10; 48 + (a mod 60) / 10; 48 + (a mod 60) mod 10].
Proof.
  intros H a. unfold fmt_zone. fold a.
  assert (Ha : a <= 5999) by (unfold wf_zone in H; lia).
  assert (a / 60 < 100) by (apply N.div_lt_upper_bound; lia).
  assert (a mod 60 < 100) by (pose proof (N.mod_lt a 60 ltac:(lia)); lia).
  now rewrite !pad2_two.
Qed.

Lemma decode_time_form nm em ds sg h1 h2 m1 m2 ts :
  has_byte SPC ds = false -> parse_int64 ds = Some ts ->
  decode_time nm em (ds ++ SPC :: [sg; h1; h2; m1; m2]) =
  match parse_int64 [sg; h1; h2], parse_int64 [m1; m2] with
  | Some h, Some m => mk_ident nm em ts (h * 60 + (if (h <? 0)%Z then (- m)%Z else m))%Z
  | _, _ => mk_ident nm em ts 0
  end.
Proof.
  intros Hsp Hp. unfold decode_time.
  rewrite (index_of_first _ _ _ Hsp), firstn_app_exact, Hp.
  rewrite app_length. cbn [List.length].
  replace (Nat.leb (List.length ds + 6) (S (List.length ds)) || Nat.ltb (List.length ds + 6) (S (List.length ds) + 5))%bool
    with false by (symmetry; apply orb_false_iff; split; [apply Nat.leb_gt|apply Nat.ltb_ge]; lia).
  unfold slice. replace (S (List.length ds) + 5 - S (List.length ds))%nat with 5%nat by lia.
  replace (skipn (S (List.length ds)) (ds ++ SPC :: [sg; h1; h2; m1; m2])) with [sg; h1; h2; m1; m2].
  - reflexivity.
  - replace (ds ++ SPC :: [sg; h1; h2; m1; m2]) with ((ds ++ [SPC]) ++ [sg; h1; h2; m1; m2]) by (now rewrite <- app_assoc).
    replace (S (List.length ds)) with (List.length (ds ++ [SPC])) by (rewrite app_length; cbn; lia).
    now rewrite skipn_app_exact.
Qed.

Lemma decode_time_enc nm em i : wf_ident i = true ->
  decode_time nm em (encode_time i) = mk_ident nm em (id_ts i) (id_tz i).
Proof.
  intros Hwf. unfold wf_ident in Hwf. repeat (apply andb_true_iff in Hwf as [Hwf ?]).
  assert (Hts : (0 <= id_ts i < 2 ^ 63)%Z) by lia.
  assert (Hz : wf_zone (id_tz i) = true) by assumption.
  clear - Hts Hz.
  unfold encode_time. rewrite Z.max_l by lia. rewrite (zone_form _ Hz).
  set (a := Z.to_N (Z.abs (id_tz i))).
  assert (Hsp : has_byte SPC (print_dec (Z.to_N (id_ts i))) = false).
  { apply (has_byte_forall is_digit); [|apply print_dec_digits]. intros x Hx. now apply digit_not_sign in Hx. }
  assert (Hp : parse_int64 (print_dec (Z.to_N (id_ts i))) = Some (id_ts i)).
  { rewrite parse_int64_print_dec by lia. f_equal. lia. }
  cbn [app]. rewrite (decode_time_form _ _ _ _ _ _ _ _ _ Hsp Hp).
  assert (Ha : a <= 5999) by (unfold wf_zone in Hz; lia).
  assert (Hh : a / 60 < 100) by (apply N.div_lt_upper_bound; lia).
  pose proof (N.mod_lt a 60 ltac:(lia)) as Hm.
  assert (Hh1 : a / 60 / 10 < 10) by (apply N.div_lt_upper_bound; lia).
  assert (Hm1 : a mod 60 / 10 < 10) by (apply N.div_lt_upper_bound; lia).
  pose proof (N.mod_lt (a / 60) 10 ltac:(lia)) as Hh2.
  pose proof (N.mod_lt (a mod 60) 10 ltac:(lia)) as Hm2.
  pose proof (N.div_mod (a / 60) 10 ltac:(lia)) as Dh.
  pose proof (N.div_mod (a mod 60) 10 ltac:(lia)) as Dm.
  pose proof (N.div_mod a 60 ltac:(lia)) as Da.
  assert (Ehh : 10 * (a / 60 / 10) + (a / 60) mod 10 = a / 60) by lia.
  assert (Emm : 10 * (a mod 60 / 10) + (a mod 60) mod 10 = a mod 60) by lia.
  assert (Pm : parse_int64 [48 + a mod 60 / 10; 48 + (a mod 60) mod 10] = Some (Z.of_N (a mod 60))).
  { rewrite <- Emm at 3.
    apply parse_int64_digits; [discriminate| |now apply digits_val_two|rewrite Emm; lia].
    cbn [forallb]. now rewrite !is_digit_48. }
  rewrite Pm.
  assert (Ea : Z.of_N a = Z.abs (id_tz i)) by (unfold a; lia).
  destruct (id_tz i <? 0)%Z eqn:Eneg.
  - unfold parse_int64.
    replace (45 =? 43) with false by reflexivity. replace (45 =? 45) with true by reflexivity.
    rewrite (digits_val_two _ _ Hh1 Hh2), Ehh.
    clear Pm Ehh Emm Dh Dm Hh1 Hh2 Hm1 Hm2 Hsp Hp.
    set (q := a / 60) in *. set (r := a mod 60) in *. clearbody q r. clearbody a.
    assert (Hr : ((- 2 ^ 63 <=? - Z.of_N q) && (- Z.of_N q <? 2 ^ 63))%Z = true) by lia.
    rewrite Hr.
    assert (Hlt : (- Z.of_N q <? 0)%Z = true) by (unfold wf_zone in Hz; lia).
    rewrite Hlt. f_equal. lia.
  - unfold parse_int64.
    replace (43 =? 43) with true by reflexivity.
    rewrite (digits_val_two _ _ Hh1 Hh2), Ehh.
    clear Pm Ehh Emm Dh Dm Hh1 Hh2 Hm1 Hm2 Hsp Hp.
    set (q := a / 60) in *. set (r := a mod 60) in *. clearbody q r. clearbody a.
    assert (Hr : ((- 2 ^ 63 <=? Z.of_N q) && (Z.of_N q <? 2 ^ 63))%Z = true) by lia.
    rewrite Hr.
    assert (Hlt : (Z.of_N q <? 0)%Z = false) by lia.
    rewrite Hlt. f_equal. lia.
Qed.

Lemma encode_time_tchar i : wf_ident i = true -> forallb tchar (encode_time i) = true.
Proof.
  intros Hwf. unfold wf_ident in Hwf. repeat (apply andb_true_iff in Hwf as [Hwf ?]).
  assert (Hz : wf_zone (id_tz i) = true) by assumption.
  clear - Hz.
  unfold encode_time. rewrite (zone_form _ Hz). rewrite !forallb_app. apply andb_true_iff. split.
  - pose proof (print_dec_digits (Z.to_N (Z.max (id_ts i) 0))) as H'. revert H'.
    generalize (print_dec (Z.to_N (Z.max (id_ts i) 0))). intros l. induction l as [|x l IH]; cbn [forallb]; [reflexivity|].
    intros H'. apply andb_true_iff in H' as [Hd1 Hd2]. unfold tchar at 1. rewrite Hd1. cbn [orb]. now apply IH.
  - set (a := Z.to_N (Z.abs (id_tz i))).
    assert (Ha : a <= 5999) by (unfold wf_zone in Hz; lia).
    assert (Hh : a / 60 < 100) by (apply N.div_lt_upper_bound; lia).
    pose proof (N.mod_lt a 60 ltac:(lia)) as Hm.
    assert (Hh1 : a / 60 / 10 < 10) by (apply N.div_lt_upper_bound; lia).
    assert (Hm1 : a mod 60 / 10 < 10) by (apply N.div_lt_upper_bound; lia).
    pose proof (N.mod_lt (a / 60) 10 ltac:(lia)) as Hh2.
    pose proof (N.mod_lt (a mod 60) 10 ltac:(lia)) as Hm2.
    cbn [forallb app]. unfold tchar. rewrite !is_digit_48 by assumption.
    destruct (id_tz i <? 0)%Z; reflexivity.
Qed.

Lemma tchar_not c x : (x =? 60) = true \/ (x =? 62) = true \/ (x =? 10) = true -> tchar c = true -> (c =? x) = false.
Proof. unfold tchar, is_digit. intros H T. lia. Qed.

Lemma has_byte_cons c x b : has_byte c (x :: b) = (c =? x) || has_byte c b.
Proof. reflexivity. Qed.

Lemma wf_ident_parts i : wf_ident i = true ->
  (has_byte LF (id_name i) = false /\ has_byte LT (id_name i) = false /\ has_byte GT (id_name i) = false) /\
  (has_byte LF (id_email i) = false /\ has_byte LT (id_email i) = false /\ has_byte GT (id_email i) = false) /\
  first_is SPC (id_name i) = false /\ last_is SPC (id_name i) = false.
Proof.
  unfold wf_ident. intros H.
  apply andb_true_iff in H as [H _]. apply andb_true_iff in H as [H _].
  apply andb_true_iff in H as [H Hl]. apply andb_true_iff in H as [H Hf].
  apply andb_true_iff in H as [Hn He].
  apply negb_true_iff in Hn, He, Hf, Hl.
  apply orb_false_iff in Hn as [Hn Hn3]. apply orb_false_iff in Hn as [Hn1 Hn2].
  apply orb_false_iff in He as [He He3]. apply orb_false_iff in He as [He1 He2].
  tauto.
Qed.

Theorem ident_dec_enc : forall i, wf_ident i = true -> decode_ident (encode_ident i) = i.
Proof.
  intros i Hwf.
  destruct (wf_ident_parts _ Hwf) as [[Hn1 [Hn2 Hn3]] [[He1 [He2 He3]] [Hf Hl]]].
  pose proof (encode_time_tchar _ Hwf) as HT.
  assert (HTlt : has_byte LT (encode_time i) = false)
    by (apply (has_byte_forall tchar); [intros x Hx; apply (tchar_not x 60); [now left|exact Hx]|exact HT]).
  assert (HTgt : has_byte GT (encode_time i) = false)
    by (apply (has_byte_forall tchar); [intros x Hx; apply (tchar_not x 62); [right; now left|exact Hx]|exact HT]).
  assert (HTne : encode_time i <> []).
  { unfold encode_time. intros E. apply app_eq_nil in E as [E _]. now apply print_dec_nonempty in E. }
  pose proof (decode_time_enc (id_name i) (id_email i) _ Hwf) as HD.
  destruct i as [nm em ts tz]. cbn [id_name id_email id_ts id_tz] in *.
  unfold encode_ident. cbn [id_name id_email].
  set (T := encode_time (mk_ident nm em ts tz)) in *. clearbody T.
  unfold decode_ident.
  assert (A1 : has_byte LT (em ++ GT :: SPC :: T) = false)
    by (rewrite has_byte_app, !has_byte_cons, HTlt, He2; reflexivity).
  assert (A2 : has_byte GT (SPC :: T) = false)
    by (rewrite has_byte_cons, HTgt; reflexivity).
  (* last '<' *)
  replace (nm ++ [SPC; LT] ++ em ++ [GT; SPC] ++ T) with ((nm ++ [SPC]) ++ LT :: (em ++ GT :: SPC :: T))
    by (now rewrite <- app_assoc).
  rewrite (last_index_of_unique _ _ _ A1).
  (* last '>' *)
  replace ((nm ++ [SPC]) ++ LT :: em ++ GT :: SPC :: T) with ((nm ++ SPC :: LT :: em) ++ GT :: (SPC :: T))
    by (now rewrite <- !app_assoc).
  rewrite (last_index_of_unique _ _ _ A2).
  rewrite !app_length. cbn [List.length].
  replace (Nat.ltb (List.length nm + S (S (List.length em))) (List.length nm + 1)) with false
    by (clear; symmetry; apply Nat.ltb_ge; lia).
  (* name *)
  replace ((nm ++ SPC :: LT :: em) ++ GT :: SPC :: T) with ((nm ++ [SPC]) ++ LT :: em ++ GT :: SPC :: T)
    by (now rewrite <- !app_assoc).
  replace (List.length nm + 1)%nat with (List.length (nm ++ [SPC])) by (rewrite app_length; reflexivity).
  rewrite firstn_app_exact.
  unfold trim_both. rewrite trim_right_snoc, (trim_right_id _ _ Hl), (trim_left_id _ _ Hf).
  (* email *)
  unfold slice.
  replace (S (List.length (nm ++ [SPC]))) with (List.length ((nm ++ [SPC]) ++ [LT])) by (clear; rewrite !app_length; cbn [List.length]; lia).
  replace ((nm ++ [SPC]) ++ LT :: em ++ GT :: SPC :: T) with (((nm ++ [SPC]) ++ [LT]) ++ em ++ GT :: SPC :: T)
    by (now rewrite <- !app_assoc).
  rewrite skipn_app_exact.
  replace (List.length nm + S (S (List.length em)) - List.length ((nm ++ [SPC]) ++ [LT]))%nat with (List.length em)
    by (clear; rewrite !app_length; cbn [List.length]; lia).
  rewrite firstn_app_exact.
  (* time *)
  assert (HTlen : (0 < List.length T)%nat) by (destruct T; [contradiction|cbn [List.length]; clear; lia]).
  replace (List.length nm + S (S (List.length em)) + 2)%nat with (List.length (((nm ++ [SPC]) ++ [LT]) ++ em ++ [GT; SPC]))
    by (clear; rewrite !app_length; cbn [List.length]; lia).
  replace ((((nm ++ [SPC]) ++ [LT]) ++ em ++ GT :: SPC :: T)) with ((((nm ++ [SPC]) ++ [LT]) ++ em ++ [GT; SPC]) ++ T)
    by (now rewrite <- !app_assoc).
  rewrite skipn_app_exact.
  match goal with |- (if ?b then _ else _) = _ => replace b with true end; [exact HD|].
  symmetry. apply Nat.ltb_lt. clear - HTlen. rewrite !app_length. cbn [List.length]. lia.
Qed.

Lemma encode_ident_no_lf i : wf_ident i = true -> no_lf (encode_ident i) = true.
Proof.
  intros Hwf.
  destruct (wf_ident_parts _ Hwf) as [[Hn1 [Hn2 Hn3]] [[He1 [He2 He3]] [Hf Hl]]].
  pose proof (encode_time_tchar _ Hwf) as HT.
  assert (HTlf : has_byte LF (encode_time i) = false)
    by (apply (has_byte_forall tchar); [intros x Hx; apply (tchar_not x 10); [right; now right|exact Hx]|exact HT]).
  assert (E : forall b, no_lf b = negb (has_byte LF b)).
  { induction b as [|x b IH]; [reflexivity|]. rewrite no_lf_cons, IH, has_byte_cons, (N.eqb_sym x LF).
    destruct (LF =? x), (has_byte LF b); reflexivity. }
  rewrite E. unfold encode_ident. rewrite !has_byte_app, !has_byte_cons, Hn1, He1, HTlf. reflexivity.
Qed.
