(* Proofs/C37Term.v — the fuel of Model/RevList never runs out on a ranked
   store: revlist.Objects never answers "out of fuel", every error of the model
   is one the Go code returns. *)
From Coq Require Import List NArith ZArith Bool Lia Arith.
From GoGit Require Import Model.RevList Spec.ObjReach Proofs.C37Queue Proofs.C37Trees.
Import ListNotations.
Local Open Scope N_scope.

(* sub-directories were created before the tree that lists them (hashes are acyclic) *)
Definition tree_ranked (st : store) : bool :=
  forallb (fun ido => match snd ido with
                      | Tree es => forallb (fun e => match e_kind e with KDir => e_id e <? fst ido | _ => true end) es
                      | _ => true
                      end) st.

Lemma filter_length_le : forall (A : Type) (f g : A -> bool) l,
  (forall x, f x = true -> g x = true) -> (List.length (filter f l) <= List.length (filter g l))%nat.
Proof.
  intros A f g l H. induction l as [|x l IH]; cbn; [lia|].
  destruct (f x) eqn:F; [rewrite (H x F); cbn; lia | destruct (g x); cbn; lia].
Qed.

Lemma filter_length_lt : forall (A : Type) (f g : A -> bool) l x,
  (forall y, f y = true -> g y = true) -> In x l -> f x = false -> g x = true ->
  (List.length (filter f l) < List.length (filter g l))%nat.
Proof.
  intros A f g l x H. induction l as [|y l IH]; intros Hin Fx Gx; [contradiction|]. cbn.
  destruct Hin as [->|Hin].
  - rewrite Fx, Gx. cbn. pose proof (filter_length_le A f g l H). lia.
  - specialize (IH Hin Fx Gx). destruct (f y) eqn:F; [rewrite (H y F); cbn; lia | destruct (g y); cbn; lia].
Qed.

Lemma filter_length_all : forall (A : Type) (f : A -> bool) l, (List.length (filter f l) <= List.length l)%nat.
Proof. intros. induction l as [|x l IH]; cbn; [lia | destruct (f x); cbn; lia]. Qed.

Section Term.
  Variable st : store.
  Hypothesis Hrank : tree_ranked st = true.

  (* ---------------- trees ---------------- *)
  Definition cnt (x : oid) : nat := List.length (filter (fun ko : oid * object => fst ko <? x) st).

  Lemma cnt_lt : forall y x o, get st y = Some o -> y < x -> (cnt y < cnt x)%nat.
  Proof.
    intros y x o G L. unfold cnt. apply (filter_length_lt _ _ _ st (y, o)).
    - intros k Hk. apply N.ltb_lt in Hk. apply N.ltb_lt. lia.
    - now apply get_In.
    - cbn. apply N.ltb_irrefl.
    - cbn. now apply N.ltb_lt.
  Qed.

  Lemma cnt_le : forall x, (cnt x <= List.length st)%nat.
  Proof. intros. apply filter_length_all. Qed.

  Lemma dir_entry_lt : forall th es e, get_tree st th = Some es -> In e es -> e_kind e = KDir -> e_id e < th.
  Proof.
    intros th es e Ht Hi Hk. apply get_tree_get in Ht. apply get_In in Ht.
    unfold tree_ranked in Hrank. rewrite forallb_forall in Hrank. specialize (Hrank _ Ht). cbn in Hrank.
    rewrite forallb_forall in Hrank. specialize (Hrank _ Hi). rewrite Hk in Hrank. now apply N.ltb_lt.
  Qed.

  Lemma sub_fuel : forall th es e es' f, get_tree st th = Some es -> In e es -> e_kind e = KDir ->
    get_tree st (e_id e) = Some es' -> (cnt th < S f)%nat -> (cnt (e_id e) < f)%nat.
  Proof.
    intros th es e es' f Ht Hi Hk Hs Hc. apply get_tree_get in Hs.
    pose proof (cnt_lt _ _ _ Hs (dir_entry_lt _ _ _ Ht Hi Hk)). lia.
  Qed.

  Lemma mark_tree_fuel : forall fuel th es seen, get_tree st th = Some es -> (cnt th < fuel)%nat ->
    mark_tree fuel st th es seen <> None.
  Proof.
    induction fuel as [|f IH]; intros th es seen Ht Hc; [lia|]. cbn [mark_tree].
    destruct (mem th seen); [discriminate|].
    assert (K : forall es', incl es' es -> forall sn, mark_entries (mark_tree f st) st es' sn <> None).
    { induction es' as [|e r IHr]; intros Hinc sn; cbn [mark_entries]; [discriminate|].
      assert (Hr : incl r es) by (intros x Hx; apply Hinc; now right).
      destruct (e_kind e) eqn:K; [| |now apply IHr].
      - destruct (mem (e_id e) sn); [now apply IHr|].
        destruct (get_tree st (e_id e)) as [es'|] eqn:G; [|now apply IHr].
        destruct (mark_tree f st (e_id e) es' sn) eqn:M; [now apply IHr|].
        exfalso. eapply IH; [exact G | | exact M].
        exact (sub_fuel th es e es' f Ht (Hinc e (or_introl eq_refl)) K G Hc).
      - destruct (mem (e_id e) sn); now apply IHr. }
    apply K, incl_refl.
  Qed.

  Lemma collect_all_fuel : forall fuel th es s, get_tree st th = Some es -> (cnt th < fuel)%nat ->
    collect_all fuel st th es s <> Err EFuel.
  Proof.
    induction fuel as [|f IH]; intros th es s Ht Hc; [lia|]. cbn [collect_all].
    destruct (mem th (fst s)); [discriminate|].
    assert (K : forall es', incl es' es -> forall sn, all_entries (collect_all f st) st es' sn <> Err EFuel).
    { induction es' as [|e r IHr]; intros Hinc sn; cbn [all_entries]; [discriminate|].
      assert (Hr : incl r es) by (intros x Hx; apply Hinc; now right).
      destruct (e_kind e) eqn:K; [| |now apply IHr].
      - destruct (mem (e_id e) (fst sn)); [now apply IHr|].
        destruct (get_tree st (e_id e)) as [es'|] eqn:G; [|discriminate].
        destruct (collect_all f st (e_id e) es' sn) as [s1|x] eqn:M; [now apply IHr|].
        intro X. inversion X; subst x. eapply IH; [exact G | | exact M].
        exact (sub_fuel th es e es' f Ht (Hinc e (or_introl eq_refl)) K G Hc).
      - destruct (mem (e_id e) (fst sn)); now apply IHr. }
    apply K, incl_refl.
  Qed.

  Lemma collect_changed_fuel : forall fuel nh nes olds s, get_tree st nh = Some nes -> (cnt nh < fuel)%nat ->
    collect_changed fuel st nh nes olds s <> Err EFuel.
  Proof.
    induction fuel as [|f IH]; intros nh nes olds s Ht Hc; [lia|]. cbn [collect_changed].
    destruct (existsb (fun o => fst o =? nh) olds); [discriminate|].
    assert (K : forall es', incl es' nes -> forall sn, changed_entries (collect_changed f st) st olds es' sn <> Err EFuel).
    { induction es' as [|e r IHr]; intros Hinc sn; cbn [changed_entries]; [discriminate|].
      assert (Hr : incl r nes) by (intros x Hx; apply Hinc; now right).
      destruct (e_kind e) eqn:K; [| |now apply IHr].
      - destruct (unchanged_in e olds); [now apply IHr|].
        destruct (get_tree st (e_id e)) as [es'|] eqn:G; [|discriminate].
        destruct (collect_changed f st (e_id e) es' (old_subs st (e_name e) olds) sn) as [s1|x] eqn:M; [now apply IHr|].
        intro X. inversion X; subst x. eapply IH; [exact G | | exact M].
        exact (sub_fuel nh nes e es' f Ht (Hinc e (or_introl eq_refl)) K G Hc).
      - destruct (mem (e_id e) (fst sn)); [now apply IHr|]. destruct (unchanged_in e olds); now apply IHr. }
    apply K, incl_refl.
  Qed.

  Lemma tree_fuel_ok : forall th, (cnt th < tree_fuel st)%nat.
  Proof. intros. unfold tree_fuel. pose proof (cnt_le th). lia. Qed.

  (* ---------------- counting what is not yet marked ---------------- *)
  Definition uncounted (p : object -> bool) (seen : list oid) : nat :=
    List.length (filter (fun ko : oid * object => p (snd ko) && negb (mem (fst ko) seen)) st).

  Lemma uncounted_le : forall p seen, (uncounted p seen <= List.length st)%nat.
  Proof. intros. apply filter_length_all. Qed.

  Lemma uncounted_mono : forall p seen seen', incl seen seen' -> (uncounted p seen' <= uncounted p seen)%nat.
  Proof.
    intros p seen seen' H. apply filter_length_le. intros [k o] Hx. cbn in *.
    apply andb_true_iff in Hx. destruct Hx as [A B]. rewrite A. cbn. apply negb_true_iff in B. apply negb_true_iff.
    apply mem_false in B. apply mem_false. intro X. apply B, H, X.
  Qed.

  Lemma uncounted_dec : forall p seen h o, get st h = Some o -> p o = true -> mem h seen = false ->
    (uncounted p (h :: seen) < uncounted p seen)%nat.
  Proof.
    intros p seen h o G P M. apply (filter_length_lt _ _ _ st (h, o)).
    - intros [k v] Hx. cbn in *. apply andb_true_iff in Hx. destruct Hx as [A B]. rewrite A. cbn.
      apply negb_true_iff in B. apply orb_false_iff in B. destruct B as [_ B]. now rewrite B.
    - now apply get_In.
    - cbn. rewrite P, N.eqb_refl. reflexivity.
    - cbn. now rewrite P, M.
  Qed.

  Definition is_tag (o : object) : bool := match o with Tag _ => true | _ => false end.
  Definition is_commit (o : object) : bool := match o with Commit _ _ _ => true | _ => false end.

  Variable sh : list oid.
  Variable haves : list oid.
  Hypothesis Hwf : wf_store st = true.

  (* ---------------- seedHaves / seedWants ---------------- *)
  Lemma seed_haves_fuel : forall fuel hv hseen hq seen,
    (List.length hv + uncounted is_tag seen < fuel)%nat -> seed_haves fuel st hv hseen hq seen <> Err EFuel.
  Proof.
    induction fuel as [|f IH]; intros hv hseen hq seen H; [lia|]. cbn [seed_haves].
    destruct hv as [|h r]; [discriminate|]. cbn [List.length] in H.
    destruct (mem h hseen || mem h seen) eqn:M; [apply IH; lia|].
    apply orb_false_iff in M. destruct M as [_ M].
    destruct (get st h) as [[t ps tm|es| |tg]|] eqn:G.
    - destruct (get_tree st t) as [es|] eqn:T; [|apply IH; lia].
      destruct (mark_tree (tree_fuel st) st t es seen) as [sn|] eqn:MK.
      + apply IH. destruct (mark_tree_spec st sh _ _ _ _ _ MK T) as [A _].
        pose proof (uncounted_mono is_tag _ _ A). lia.
      + exfalso. eapply mark_tree_fuel; [exact T | apply tree_fuel_ok | exact MK].
    - destruct (mark_tree (tree_fuel st) st h es seen) as [sn|] eqn:MK.
      + apply IH. destruct (mark_tree_spec st sh _ _ _ _ _ MK (proj2 (get_tree_get _ _ _) G)) as [A _].
        pose proof (uncounted_mono is_tag _ _ A). lia.
      + exfalso. eapply mark_tree_fuel; [exact (proj2 (get_tree_get _ _ _) G) | apply tree_fuel_ok | exact MK].
    - apply IH. pose proof (uncounted_mono is_tag seen (h :: seen) (incl_tl _ (incl_refl _))). lia.
    - apply IH. rewrite app_length. cbn. pose proof (uncounted_dec is_tag seen h _ G eq_refl M). lia.
    - apply IH. lia.
  Qed.

  Lemma seed_wants_fuel : forall fuel wl wseen wq s,
    (List.length wl + uncounted is_tag (fst s) < fuel)%nat -> seed_wants fuel st wl wseen wq s <> Err EFuel.
  Proof.
    induction fuel as [|f IH]; intros wl wseen wq s H; [lia|]. cbn [seed_wants].
    destruct wl as [|h r]; [discriminate|]. cbn [List.length] in H.
    destruct (mem h wseen || mem h (fst s)) eqn:M; [apply IH; lia|].
    apply orb_false_iff in M. destruct M as [_ M].
    destruct (get st h) as [[t ps tm|es| |tg]|] eqn:G; [| | | |discriminate].
    - apply IH. lia.
    - destruct (collect_all (tree_fuel st) st h es s) as [s1|x] eqn:CA.
      + apply IH. destruct (collect_all_spec st sh haves Hwf _ _ _ _ _ CA (proj2 (get_tree_get _ _ _) G)) as [[[A _] _ _ _ _ _] _].
        pose proof (uncounted_mono is_tag _ _ A). lia.
      + intro X. inversion X; subst x. eapply collect_all_fuel; [exact (proj2 (get_tree_get _ _ _) G) | apply tree_fuel_ok | exact CA].
    - apply IH. cbn [fst emit]. pose proof (uncounted_mono is_tag (fst s) (h :: fst s) (incl_tl _ (incl_refl _))). lia.
    - apply IH. rewrite app_length. cbn [fst emit List.length]. pose proof (uncounted_dec is_tag (fst s) h _ G eq_refl M). lia.
  Qed.

  (* ---------------- walkFull ---------------- *)
  Lemma insert_sorted_length : forall q c, List.length (insert_sorted q c) = S (List.length q).
  Proof. induction q as [|x q IH]; intros c; cbn [insert_sorted]; [reflexivity|]. destruct (c_time x <? c_time c)%Z; cbn; [reflexivity | now rewrite IH]. Qed.

  Lemma get_commit_obj : forall h t ps tm, get_commit st h = Some (t, ps, tm) -> get st h = Some (Commit t ps tm).
  Proof. intros. now apply get_commit_get. Qed.

  Lemma full_parents_measure : forall ps wseen q wseen' q',
    full_parents st ps wseen q = Ok (wseen', q') ->
    (List.length q' + uncounted is_commit wseen' <= List.length q + uncounted is_commit wseen)%nat.
  Proof.
    induction ps as [|p ps IH]; intros wseen q wseen' q' H; cbn [full_parents] in H.
    - inversion H; subst. lia.
    - destruct (mem p wseen) eqn:M; [now apply IH|].
      destruct (get_commit st p) as [[[t pps] tm]|] eqn:G; [|discriminate].
      apply IH in H. rewrite insert_sorted_length in H.
      pose proof (uncounted_dec is_commit wseen p _ (get_commit_obj _ _ _ _ G) eq_refl M). lia.
  Qed.

  Lemma full_parents_no_fuel : forall ps wseen q, full_parents st ps wseen q <> Err EFuel.
  Proof.
    induction ps as [|p ps IH]; intros wseen q; cbn [full_parents]; [discriminate|].
    destruct (mem p wseen); [apply IH|]. destruct (get_commit st p) as [[[t pps] tm]|]; [apply IH | discriminate].
  Qed.

  Lemma walk_full_fuel : forall fuel wseen q s,
    (List.length q + uncounted is_commit wseen < fuel)%nat -> walk_full fuel st sh wseen q s <> Err EFuel.
  Proof.
    induction fuel as [|f IH]; intros wseen q s H; [lia|]. cbn [walk_full].
    destruct q as [|lc q]; [discriminate|]. cbn [List.length] in H.
    destruct (mem (c_id lc) (fst s)); [apply IH; lia|].
    destruct (get_tree st (c_tree lc)) as [es|] eqn:T; [|discriminate].
    destruct (collect_all (tree_fuel st) st (c_tree lc) es (emit (c_id lc) s)) as [s2|x] eqn:CA.
    - destruct (mem (c_id lc) sh); [apply IH; lia|].
      destruct (full_parents st (c_parents lc) wseen q) as [[w' q']|x] eqn:FP.
      + apply IH. pose proof (full_parents_measure _ _ _ _ _ FP). lia.
      + intro X. inversion X; subst x. eapply full_parents_no_fuel; eauto.
    - intro X. inversion X; subst x. eapply collect_all_fuel; [exact T | apply tree_fuel_ok | exact CA].
  Qed.

  (* ---------------- the painted walk ---------------- *)
  Definition phi (p : paint) : nat :=
    (List.length (p_q p) + 2 * (uncounted is_commit (p_w p) + uncounted is_commit (p_h p)))%nat.

  Lemma propagate_phi : forall fw fh c ps p, (phi (propagate st fw fh c ps p) <= phi p)%nat.
  Proof.
    intros fw fh c. induction ps as [|ph r IH]; intros p; cbn [propagate]; [lia|].
    destruct (implb fw (mem ph (p_w p)) && implb fh (mem ph (p_h p))) eqn:SK; [apply IH|].
    set (w' := if fw && negb (mem ph (p_w p)) then ph :: p_w p else p_w p).
    set (h' := if fh && negb (mem ph (p_h p)) then ph :: p_h p else p_h p).
    assert (Ww : (uncounted is_commit w' <= uncounted is_commit (p_w p))%nat).
    { apply uncounted_mono. unfold w'. destruct (fw && negb (mem ph (p_w p))); [apply incl_tl|]; apply incl_refl. }
    assert (Wh : (uncounted is_commit h' <= uncounted is_commit (p_h p))%nat).
    { apply uncounted_mono. unfold h'. destruct (fh && negb (mem ph (p_h p))); [apply incl_tl|]; apply incl_refl. }
    destruct (get_commit st ph) as [[[t pps] tm]|] eqn:G.
    - eapply Nat.le_trans; [apply IH|]. unfold phi. cbn [p_w p_h p_q]. rewrite insert_sorted_length.
      (* a new flag on a stored commit *)
      assert (D : (uncounted is_commit w' + uncounted is_commit h' < uncounted is_commit (p_w p) + uncounted is_commit (p_h p))%nat).
      { apply andb_false_iff in SK. destruct SK as [SK|SK].
        - destruct fw; cbn in SK; [|discriminate].
          assert (M : mem ph (p_w p) = false) by (destruct (mem ph (p_w p)); [discriminate | reflexivity]).
          unfold w'. rewrite M. cbn.
          pose proof (uncounted_dec is_commit (p_w p) ph _ (get_commit_obj _ _ _ _ G) eq_refl M). lia.
        - destruct fh; cbn in SK; [|discriminate].
          assert (M : mem ph (p_h p) = false) by (destruct (mem ph (p_h p)); [discriminate | reflexivity]).
          unfold h'. rewrite M. cbn.
          pose proof (uncounted_dec is_commit (p_h p) ph _ (get_commit_obj _ _ _ _ G) eq_refl M). lia. }
      lia.
    - eapply Nat.le_trans; [apply IH|]. unfold phi. cbn [p_w p_h p_q]. lia.
  Qed.

  Lemma paint_loop_fuel : forall fuel p newc, (phi p < fuel)%nat -> paint_loop fuel st sh p newc <> Err EFuel.
  Proof.
    induction fuel as [|f IH]; intros p newc H; [lia|]. cbn [paint_loop].
    destruct (p_q p) as [|lc q] eqn:Q; [discriminate|].
    match goal with |- (if all_stale (p_q ?p1) ?p1 then _ else _) <> _ => set (pp := p1) end.
    destruct (all_stale (p_q pp) pp); [discriminate|]. apply IH.
    assert (P0 : (phi (mkP (p_w p) (p_h p) q (p_miss p)) < phi p)%nat) by (unfold phi; cbn [p_q p_w p_h]; rewrite Q; cbn; lia).
    unfold pp. destruct (mem (c_id lc) sh); [lia|].
    pose proof (propagate_phi (mem (c_id lc) (p_w p)) (mem (c_id lc) (p_h p)) (c_id lc) (c_parents lc) (mkP (p_w p) (p_h p) q (p_miss p))). lia.
  Qed.

  Lemma parent_trees_no_fuel : forall ps, parent_trees st ps <> Err EFuel.
  Proof.
    induction ps as [|p ps IH]; cbn [parent_trees]; [discriminate|].
    destruct (get_commit st p) as [[[t a] b]|]; [|exact IH].
    destruct (get_tree st t); [|discriminate]. destruct (parent_trees st ps); [discriminate | exact IH].
  Qed.

  Lemma phase2_fuel : forall hp newc s, phase2 st sh hp newc s <> Err EFuel.
  Proof.
    intros hp. induction newc as [|lc r IH]; intros s; cbn [phase2]; [discriminate|].
    destruct (mem (c_id lc) hp); [apply IH|].
    destruct (process_commit st sh lc s) as [s1|x] eqn:PC; [apply IH|].
    intro X. inversion X; subst x. unfold process_commit in PC.
    destruct (get_tree st (c_tree lc)) as [es|] eqn:T; [|discriminate].
    destruct (parent_trees st (if mem (c_id lc) sh then [] else c_parents lc)) as [olds|x] eqn:PT.
    - eapply collect_changed_fuel; [exact T | apply tree_fuel_ok | exact PC].
    - inversion PC; subst x. eapply parent_trees_no_fuel; eauto.
  Qed.

  Lemma fold_insert_length : forall l q, List.length (fold_left insert_sorted l q) = (List.length l + List.length q)%nat.
  Proof. induction l as [|c l IH]; intros q; cbn [fold_left]; [reflexivity|]. rewrite IH, insert_sorted_length. cbn. lia. Qed.

  (* ---------------- revlist.Objects ---------------- *)
  Lemma objects_fuel : forall wants, objects st sh wants haves <> Err EFuel.
  Proof.
    intros wants. unfold objects.
    destruct (seed_haves _ st haves [] [] []) as [[hq seen]|x] eqn:SH.
    - destruct (seed_wants _ st wants [] [] (seen, [])) as [[[wseen wq] s0]|x] eqn:SW.
      + destruct (walk st sh wseen wq hq s0) as [s'|x] eqn:WK; [discriminate|].
        intro X. inversion X; subst x. unfold walk in WK. destruct hq as [|hc hq'].
        * eapply walk_full_fuel; [|exact WK]. pose proof (uncounted_le is_commit wseen). lia.
        * set (q2 := fold_left insert_sorted (hc :: hq') (fold_left insert_sorted wq [])) in *.
          destruct (paint_loop (paint_fuel st (List.length q2)) st sh (mkP (map c_id wq) (map c_id (hc :: hq')) q2 []) []) as [[p' newc]|x] eqn:PL.
          -- destruct (check_missing (p_miss p') (p_h p')); [|discriminate]. eapply phase2_fuel; eauto.
          -- inversion WK; subst x. eapply paint_loop_fuel; [|exact PL].
             unfold phi, paint_fuel. cbn [p_q p_w p_h].
             pose proof (uncounted_le is_commit (map c_id wq)). pose proof (uncounted_le is_commit (map c_id (hc :: hq'))). lia.
      + intro X. inversion X; subst x. eapply seed_wants_fuel; [|exact SW]. cbn [fst].
        pose proof (uncounted_le is_tag seen). lia.
    - intro X. inversion X; subst x. eapply seed_haves_fuel; [|exact SH].
      pose proof (uncounted_le is_tag []). lia.
  Qed.
End Term.
