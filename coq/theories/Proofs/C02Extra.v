(* Proofs/C02Extra.v — extra headers: for every stored commit that satisfies
   the boolean clause Spec/GitExtra.extras_guard, go-git's Commit.ExtraHeaders
   are the extra headers git itself extracts (commit.c
   read_commit_extra_header_lines, gpgsig headers excluded), each value
   without its trailing LFs. *)
From Coq Require Import List NArith ZArith Bool Lia.
From GoGit Require Import Base.Out Model.ObjLines Model.Ident Model.Commit Spec.ObjWf Spec.GitExtra
     Proofs.ObjLinesFacts Proofs.C03Commit Proofs.C03CommitSig Proofs.C02Ident Proofs.C02Lines.
Import ListNotations.
Local Open Scope N_scope.

(* ---- a header line with a space ---- *)
Lemma index_of_split c b : forall i, index_of c b = Some i ->
  exists x y, b = x ++ c :: y /\ List.length x = i /\ has_byte c x = false.
Proof.
  induction b as [|a b IH]; intros i H; [discriminate|]. cbn [index_of] in H.
  destruct (a =? c) eqn:E.
  - inversion H; subst. apply N.eqb_eq in E. subst a. exists [], b. repeat split.
  - destruct (index_of c b) as [j|] eqn:Ej; [|discriminate]. inversion H; subst.
    destruct (IH _ eq_refl) as [x [y [-> [Hl Hx]]]]. exists (a :: x), y. repeat split.
    + cbn [List.length]. now rewrite Hl.
    + rewrite has_byte_cons, N.eqb_sym, E, Hx. reflexivity.
Qed.

Lemma index_of_snoc_ne c d p : (d =? c) = false -> forall i, index_of c (p ++ [d]) = Some i -> index_of c p = Some i.
Proof.
  intros Hd. induction p as [|x p IH]; intros i H.
  - cbn in H. rewrite Hd in H. discriminate.
  - cbn [app index_of] in *. destruct (x =? c); [exact H|].
    destruct (index_of c (p ++ [d])) as [j|] eqn:Ej; [|discriminate]. now rewrite (IH _ eq_refl).
Qed.

Lemma cut_at_false c b k v : cut_at c b = (k, v, false) -> v = [].
Proof.
  revert k v; induction b as [|x b IH]; intros k v H; cbn in H; [now inversion H|].
  destruct (x =? c); [discriminate|]. destruct (cut_at c b) as [[k0 v0] f0] eqn:Ec. inversion H; subst. now apply (IH k0).
Qed.

(* what both sides see of a LF-terminated line whose first space is at index i *)
Lemma spaced_line l i : line_ok l -> ends_nl l = true -> index_of SPC l = Some i ->
  exists k v, firstn i l = k /\ skipn (S i) l = v /\ no_lf k = true /\
              fst (split_header l) = k /\ cut_at SPC l = (k, v, true).
Proof.
  intros Hl He Hi. destruct (line_lf_form _ Hl He) as [p [Hp ->]].
  apply (index_of_snoc_ne SPC LF p eq_refl) in Hi.
  destruct (index_of_split _ _ _ Hi) as [k [v' [-> [Hlen Hk]]]].
  exists k, (v' ++ [LF]).
  rewrite no_lf_app in Hp. apply andb_true_iff in Hp as [Hpk Hpv].
  rewrite <- app_assoc. cbn [app]. subst i. repeat split.
  - apply firstn_app_exact.
  - replace (k ++ SPC :: v' ++ [LF]) with ((k ++ [SPC]) ++ v' ++ [LF]) by (now rewrite <- app_assoc).
    replace (S (List.length k)) with (List.length (k ++ [SPC])) by (rewrite app_length; cbn [List.length]; lia).
    apply skipn_app_exact.
  - exact Hpk.
  - replace (k ++ SPC :: v' ++ [LF]) with ((k ++ SPC :: v') ++ [LF]) by (now rewrite <- app_assoc).
    rewrite split_header_line.
    + now rewrite (cut_at_first _ _ _ Hk).
    + rewrite no_lf_app, Hpk. exact Hpv.
  - apply (cut_at_first _ _ (v' ++ [LF]) Hk).
Qed.

(* ---- the scanner states as git's loop state ---- *)
Definition st_it (st : cstate) : option (bytes * bytes) := match st with SExtra k v => Some (k, v) | _ => None end.
Definition st_ok (st : cstate) : bool := match st with SExtra _ _ | SPgp | SPgp256 => true | _ => false end.
Definition plain (st : cstate) : Prop := st = SParents \/ st = SAuthor \/ st = SCommitter \/ st = SHeaders.
Definition pgpish (st : cstate) : Prop := st = SPgp \/ st = SPgp256.

Lemma cfinish_extra st c acc : c_extra c = map extra_norm acc ->
  c_extra (cfinish st c) = map extra_norm (flush_extra acc (st_it st)).
Proof.
  intros H. destruct st; cbn [cfinish st_it flush_extra]; try exact H.
  unfold finalise_extra. destruct c as [t0 ps0 a0 cm0 e0 x0 s0 s1 m0]. cbn [c_extra set_extra] in *. rewrite map_app, H. reflexivity.
Qed.

Lemma std_of_key k K : beqb k K = true ->
  K = k_tree \/ K = k_parent \/ K = k_author \/ K = k_committer \/ K = k_encoding -> git_std_field k = true.
Proof. intros H Hk. apply beqb_eq in H. subst k. destruct Hk as [->|[->|[->|[->| ->]]]]; reflexivity. Qed.

Lemma on_headers_keyed c se l k v c' se' st' :
  is_blank l = false -> fst (split_header l) = k -> cut_at SPC l = (k, v, true) -> no_lf k = true ->
  on_headers c se l = (c', se', st') ->
  c_extra c' = c_extra c /\
  (if git_std_field k then st' = SHeaders
   else if git_excl_field k then pgpish st'
   else st' = SExtra k v).
Proof.
  intros Hb Hk Hc Hn. unfold on_headers. rewrite Hb.
  destruct (split_header l) as [key data]. cbn [fst] in Hk. subst key.
  unfold git_std_field, git_excl_field.
  destruct (beqb k k_tree || beqb k k_parent || beqb k k_author || beqb k k_committer) eqn:E4.
  - intros H; inversion H; subst. split; reflexivity.
  - cbn [orb]. destruct (beqb k k_encoding) eqn:E5.
    + intros H; inversion H; subst. split; [now destruct se|reflexivity].
    + destruct (beqb k k_gpgsig) eqn:E6.
      * intros H; inversion H; subst. split; [reflexivity|now left].
      * cbn [orb]. destruct (beqb k k_gpgsig256) eqn:E7.
        -- intros H; inversion H; subst. split; [reflexivity|now right].
        -- unfold parse_extra_header. rewrite Hc, (trim_right_nolf _ Hn).
           intros H; inversion H; subst. split; reflexivity.
Qed.

Lemma on_committer_keyed c se l k v c' se' st' :
  is_blank l = false -> fst (split_header l) = k -> cut_at SPC l = (k, v, true) -> no_lf k = true ->
  on_committer c se l = (c', se', st') ->
  c_extra c' = c_extra c /\
  (if git_std_field k then plain st'
   else if git_excl_field k then pgpish st'
   else st' = SExtra k v).
Proof.
  intros Hb Hk Hc Hn. unfold on_committer. rewrite Hb.
  destruct (split_header l) as [key data] eqn:Es. cbn [fst] in Hk. subst key.
  destruct (beqb k k_committer) eqn:E.
  - rewrite (std_of_key _ _ E ltac:(tauto)). intros H; inversion H; subst. split; [reflexivity|unfold plain; tauto].
  - intros H. destruct (on_headers_keyed c se l k v c' se' st' Hb ltac:(now rewrite Es) Hc Hn H) as [H1 H2].
    split; [exact H1|]. destruct (git_std_field k); [subst; unfold plain; tauto|exact H2].
Qed.

Lemma on_author_keyed c se l k v c' se' st' :
  is_blank l = false -> fst (split_header l) = k -> cut_at SPC l = (k, v, true) -> no_lf k = true ->
  on_author c se l = (c', se', st') ->
  c_extra c' = c_extra c /\
  (if git_std_field k then plain st'
   else if git_excl_field k then pgpish st'
   else st' = SExtra k v).
Proof.
  intros Hb Hk Hc Hn. unfold on_author. rewrite Hb.
  destruct (split_header l) as [key data] eqn:Es. cbn [fst] in Hk. subst key.
  destruct (beqb k k_author) eqn:E.
  - rewrite (std_of_key _ _ E ltac:(tauto)). intros H; inversion H; subst. split; [reflexivity|unfold plain; tauto].
  - intros H. exact (on_committer_keyed c se l k v c' se' st' Hb ltac:(now rewrite Es) Hc Hn H).
Qed.

(* one step on a non-blank header line that is not a continuation *)
Lemma cstep_keyed st c se l k v c' se' st' :
  st <> SMessage -> is_blank l = false -> first_is SPC l = false ->
  fst (split_header l) = k -> cut_at SPC l = (k, v, true) -> no_lf k = true ->
  cstep st c se false l = Ok (c', se', st') ->
  c_extra c' = c_extra (cfinish st c) /\
  (if git_std_field k then plain st'
   else if git_excl_field k then pgpish st'
   else st' = SExtra k v).
Proof.
  intros Hst Hb Hsp Hk Hc Hn. destruct st; cbn [cstep cfinish]; try rewrite Hsp; try rewrite Hb.
  - destruct (split_header l) as [key data] eqn:Es. cbn [fst] in Hk. subst key.
    destruct (beqb k k_parent) eqn:E.
    + rewrite (std_of_key _ _ E ltac:(tauto)).
      destruct (parse_oid data); intros H; inversion H; subst. split; [reflexivity|unfold plain; tauto].
    + intros H. inversion H as [H']. exact (on_author_keyed c se l k v c' se' st' Hb ltac:(now rewrite Es) Hc Hn H').
  - intros H. inversion H as [H']. exact (on_author_keyed _ _ _ _ _ _ _ _ Hb Hk Hc Hn H').
  - intros H. inversion H as [H']. exact (on_committer_keyed _ _ _ _ _ _ _ _ Hb Hk Hc Hn H').
  - intros H. inversion H as [H']. destruct (on_headers_keyed _ _ _ _ _ _ _ _ Hb Hk Hc Hn H') as [H1 H2].
    split; [exact H1|]. destruct (git_std_field k); [subst; unfold plain; tauto|exact H2].
  - intros H. inversion H as [H']. destruct (on_headers_keyed _ _ _ _ _ _ _ _ Hb Hk Hc Hn H') as [H1 H2].
    split; [exact H1|]. destruct (git_std_field k); [subst; unfold plain; tauto|exact H2].
  - intros H. inversion H as [H']. destruct (on_headers_keyed _ _ _ _ _ _ _ _ Hb Hk Hc Hn H') as [H1 H2].
    split; [exact H1|]. destruct (git_std_field k); [subst; unfold plain; tauto|exact H2].
  - intros H. inversion H as [H']. destruct (on_headers_keyed _ _ _ _ _ _ _ _ Hb Hk Hc Hn H') as [H1 H2].
    split; [exact H1|]. destruct (git_std_field k); [subst; unfold plain; tauto|exact H2].
  - contradiction.
Qed.

(* the blank line: the pending extra header is finalised, the scanner enters the message *)
Lemma cstep_blank_extra st c se l c' se' st' :
  st <> SMessage -> is_blank l = true ->
  cstep st c se false l = Ok (c', se', st') -> st' = SMessage /\ c_extra c' = c_extra (cfinish st c).
Proof.
  intros Hst Hb.
  assert (Hsp : first_is SPC l = false).
  { destruct l as [|x [|y l]]; try discriminate. cbn in Hb. apply N.eqb_eq in Hb. now subst. }
  destruct st; cbn [cstep cfinish]; try rewrite Hsp; try rewrite Hb;
    unfold on_author, on_committer, on_headers; try rewrite Hb;
    try (intros H; inversion H; subst; split; reflexivity).
Qed.

Lemma crun_message_extra ls c0 se c : crun SMessage c0 se ls = Ok c -> c_extra c = c_extra c0.
Proof.
  revert c0 se; induction ls as [|l r IH]; intros c0 se; cbn [crun cfinish].
  - intros H; now inversion H.
  - cbn [cstep]. destruct (negb (ends_nl l)).
    + intros H; now inversion H.
    + intros H. now rewrite (IH _ _ H).
Qed.

(* a continuation line in a state that accepts one *)
Lemma cstep_cont_extra st c se l c' se' st' :
  st_ok st = true -> first_is SPC l = true ->
  cstep st c se false l = Ok (c', se', st') ->
  c_extra c' = c_extra c /\ st_ok st' = true /\ st' <> SMessage /\
  st_it st' = match st_it st with Some (k, b) => Some (k, b ++ tl l) | None => None end.
Proof.
  intros Hok Hsp. destruct st; try discriminate; cbn [cstep]; rewrite Hsp;
    intros H; inversion H; subst; repeat split; try reflexivity; discriminate.
Qed.

Lemma plain_facts st : plain st -> st <> SMessage /\ st_ok st = false /\ st_it st = None.
Proof. intros [->|[->|[->| ->]]]; repeat split; discriminate. Qed.
Lemma pgpish_facts st : pgpish st -> st <> SMessage /\ st_ok st = true /\ st_it st = None.
Proof. intros [->| ->]; repeat split; discriminate. Qed.

Lemma crun_extras : forall ls st c se acc c',
  st <> SMessage -> Forall line_ok ls -> forallb ends_nl (header_of ls) = true ->
  extras_guard_run (st_ok st) ls = true -> c_extra c = map extra_norm acc ->
  crun st c se ls = Ok c' ->
  c_extra c' = map extra_norm (git_extras_run ls acc (st_it st)).
Proof.
  induction ls as [|l r IH]; intros st c se acc c' Hst Hok He Hg Hacc Hrun.
  - cbn [crun] in Hrun. inversion Hrun; subst. cbn [git_extras_run]. now apply cfinish_extra.
  - inversion Hok as [|x0 y0 Hl Hr]. subst x0 y0. cbn [crun] in Hrun. cbn [git_extras_run extras_guard_run header_of] in *.
    destruct (first_is LF l) eqn:Elf.
    + assert (Hb : is_blank l = true) by now rewrite <- (first_is_lf_blank _ Hl).
      assert (Een : ends_nl l = true) by (destruct l as [|x [|y l']]; try discriminate; exact Hb).
      rewrite Een in Hrun. cbn [negb] in Hrun.
      destruct (cstep st c se false l) as [[[c1 se1] st1]|e] eqn:Es; [|discriminate].
      destruct (cstep_blank_extra _ _ _ _ _ _ _ Hst Hb Es) as [-> Hc1].
      rewrite (crun_message_extra _ _ _ _ Hrun), Hc1. now apply cfinish_extra.
    + cbn [forallb] in He. apply andb_true_iff in He as [Een Her].
      assert (Hb : is_blank l = false) by now rewrite <- (first_is_lf_blank _ Hl).
      rewrite Een in Hrun. cbn [negb] in Hrun.
      destruct (cstep st c se false l) as [[[c1 se1] st1]|e] eqn:Es; [|discriminate].
      destruct (first_is SPC l) eqn:Esp.
      * apply andb_true_iff in Hg as [Hok1 Hg].
        destruct (cstep_cont_extra _ _ _ _ _ _ _ Hok1 Esp Es) as [Hc1 [Hok' [Hst' Hit]]].
        rewrite <- Hit. apply (IH st1 c1 se1 acc c' Hst' Hr Her); [rewrite Hok'; rewrite Hok1 in Hg; exact Hg|now rewrite Hc1|exact Hrun].
      * destruct (index_of SPC l) as [i|] eqn:Ei; [|discriminate].
        destruct (spaced_line _ _ Hl Een Ei) as [k [v [Hk1 [Hv1 [Hn [Hkey Hcut]]]]]].
        rewrite Hk1, Hv1 in *.
        destruct (cstep_keyed _ _ _ _ _ _ _ _ _ Hst Hb Esp Hkey Hcut Hn Es) as [Hc1 Hst1].
        pose proof (cfinish_extra st c acc Hacc) as Hfin. rewrite <- Hc1 in Hfin.
        destruct (git_std_field k) eqn:Estd.
        -- destruct (plain_facts _ Hst1) as [P1 [P2 P3]]. cbn [orb]. rewrite <- P3.
           apply (IH st1 c1 se1 _ c' P1 Hr Her); [now rewrite P2|exact Hfin|exact Hrun].
        -- cbn [orb negb] in *. destruct (git_excl_field k) eqn:Eex.
           ++ destruct (pgpish_facts _ Hst1) as [P1 [P2 P3]]. rewrite <- P3.
              apply (IH st1 c1 se1 _ c' P1 Hr Her); [now rewrite P2|exact Hfin|exact Hrun].
           ++ subst st1. change (Some (k, v)) with (st_it (SExtra k v)).
              apply (IH (SExtra k v) c1 se1 _ c' ltac:(discriminate) Hr Her); [exact Hg|exact Hfin|exact Hrun].
Qed.

Theorem extras_match_git : forall raw c,
  decode_commit raw = Ok c -> extras_guard raw = true ->
  c_extra c = map extra_norm (git_extras raw).
Proof.
  intros raw c Hd Hg. unfold decode_commit in Hd. unfold extras_guard in Hg. unfold git_extras.
  pose proof (split_lines_ok raw) as Hok. pose proof (split_lines_abl raw) as Habl.
  destruct (split_lines raw) as [|l r]; [discriminate|].
  inversion Hok as [|x0 y0 Hl Hr]. subst x0 y0.
  apply andb_true_iff in Hg as [He Hg].
  cbn [decode_commit_lines] in Hd. destruct (is_blank l) eqn:Hb; [discriminate|].
  destruct (split_header l) as [key data] eqn:Es.
  destruct (beqb key k_tree) eqn:Ek; [|discriminate]. cbn [negb] in Hd. apply beqb_eq in Ek. subst key.
  destruct (parse_oid data) as [h|] eqn:Ep; [|discriminate].
  assert (Elf : first_is LF l = false) by now rewrite (first_is_lf_blank _ Hl).
  cbn [header_of] in He. rewrite Elf in He. cbn [forallb] in He. apply andb_true_iff in He as [Een Her].
  rewrite Een in Hd.
  (* the tree line: a standard header for git *)
  assert (Hpre : starts_with k_tree l = true) by (apply (key_prefix _ _ Hl Een); now rewrite Es).
  destruct (line_lf_form _ Hl Een) as [p [Hp Hlp]].
  assert (Hsp : exists i, index_of SPC l = Some i /\ firstn i l = k_tree).
  { subst l. rewrite (split_header_line _ Hp) in Es. destruct (cut_at SPC p) as [[k0 v0] f0] eqn:Ec.
    inversion Es; subst k0 v0. destruct (cut_at_spec _ _ _ _ _ Ec) as [Hpe Hk0].
    destruct f0.
    - exists 4%nat. subst p. split; reflexivity.
    - rewrite (cut_at_false _ _ _ _ Ec) in Ep. discriminate Ep. }
  destruct Hsp as [i [Hi Hfi]].
  cbn [git_extras_run]. rewrite Elf.
  assert (Hsp0 : first_is SPC l = false) by (apply starts_with_spec in Hpre as [x ->]; reflexivity).
  rewrite Hsp0, Hi, Hfi. cbn [flush_extra].
  replace (git_std_field k_tree || git_excl_field k_tree) with true by reflexivity.
  change (@None (bytes * bytes)) with (st_it SParents).
  apply (crun_extras r SParents (commit_init h) false [] c ltac:(discriminate) Hr Her Hg eq_refl Hd).
Qed.
