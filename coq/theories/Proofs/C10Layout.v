(* Proofs/C10Layout.v — the sections of git's idx v2 layout (Spec/IdxFormat.v)
   of a well-formed table: where each table starts, what a ReadAt of one
   record returns, and what the header parsers of the readers make of it. *)
From Coq Require Import List NArith ZArith Bool Lia ZifyBool ZifyNat ZifyN Sorting.Sorted.
From GoGit Require Import Base.Out Model.PackBytes Model.Idx Spec.IdxFormat
  Proofs.C10Order Proofs.C10Bytes Proofs.C10Table.
Import ListNotations.
Local Open Scope N_scope.
Ltac Zify.zify_post_hook ::= Z.div_mod_to_equations.

(* the domain of the C10 theorems: a table sorted by id whose ids have the
   size of the object format, with 64-bit offsets, 32-bit CRCs and fewer
   than 2^31 objects *)
Record wf_tbl (hs : nat) (tbl : list entry) : Prop := mkWf {
  wf_sorted : sorted_tbl tbl;
  wf_size : forall e, In e tbl -> List.length (e_hash e) = hs;
  wf_bytes : forall e b, In e tbl -> In b (e_hash e) -> b < 256;
  wf_off : forall e, In e tbl -> e_off e < 18446744073709551616;
  wf_crc : forall e, In e tbl -> e_crc e < 4294967296;
  wf_count : N.of_nat (List.length tbl) < 2147483648;
  wf_hs : (0 < hs)%nat }.

Definition d0 : entry := mkE [] 0 0.

Section Layout.
Variable hs : nat.
Variable H : bytes -> bytes.
Variable tbl : list entry.
Variable pack : bytes.
Hypothesis WF : wf_tbl hs tbl.
Hypothesis Hpack : List.length pack = hs.
(* every lemma of the section takes the same parameters *)
Set Default Proof Using "hs H tbl pack WF Hpack".

Let n : N := N.of_nat (List.length tbl).
Let HS : N := N.of_nat hs.
Let file := idx_file H tbl pack.

Definition S_HDRB : bytes := [255; 116; 79; 99] ++ be32 2.
Definition S_FAN : bytes := flat_map be32 (fanout_of tbl).
Definition S_NAMES : bytes := flat_map e_hash tbl.
Definition S_CRC : bytes := flat_map (fun e => be32 (e_crc e)) tbl.
Definition S_O32 : bytes := flat_map be32 (off32_codes tbl 0).
Definition S_O64 : bytes := flat_map be64 (big_offsets tbl).
Definition S_SUM : bytes := H (idx_body tbl pack).

Lemma file_eq : file = S_HDRB ++ S_FAN ++ S_NAMES ++ S_CRC ++ S_O32 ++ S_O64 ++ pack ++ S_SUM.
Proof.
  unfold file, idx_file, idx_body, S_HDRB, S_FAN, S_NAMES, S_CRC, S_O32, S_O64, S_SUM.
  cbv zeta. now rewrite <- !app_assoc.
Qed.

Lemma hash_nonempty e : In e tbl -> e_hash e <> [].
Proof. intros He E. pose proof (wf_size _ _ WF e He) as L. rewrite E in L. cbn in L. pose proof (wf_hs _ _ WF). lia. Qed.

Lemma blen_hash e : In e tbl -> blen (e_hash e) = HS.
Proof. intros He. unfold blen, HS. now rewrite (wf_size _ _ WF e He). Qed.

Lemma first_lt_256 e : In e tbl -> first_of e < 256.
Proof.
  intros He. unfold first_of. destruct (e_hash e) as [|b r] eqn:E; [now apply hash_nonempty in He|].
  cbn. apply (wf_bytes _ _ WF e b He). rewrite E. now left.
Qed.

Lemma fanout_length : List.length (fanout_of tbl) = 256%nat.
Proof. unfold fanout_of. now rewrite map_length, seq_length. Qed.

Lemma fanout_nth k : (k < 256)%nat -> nth k (fanout_of tbl) 0 = count_le tbl (N.of_nat k).
Proof.
  intros Hk. unfold fanout_of.
  rewrite (nth_map_N (fun k => count_le tbl (N.of_nat k)) (seq 0 256) k 0%nat 0) by (rewrite seq_length; lia).
  now rewrite seq_nth by lia.
Qed.

Lemma count_all : count_le tbl 255 = n.
Proof. apply count_le_all. intros e He. pose proof (first_lt_256 e He). lia. Qed.

Lemma blen_FAN : blen S_FAN = 1024.
Proof. unfold S_FAN. rewrite (blen_flat_map be32 4) by (intros; apply blen_be32). rewrite fanout_length. reflexivity. Qed.
Lemma blen_HDRB : blen S_HDRB = 8.
Proof. reflexivity. Qed.
Lemma blen_NAMES : blen S_NAMES = n * HS.
Proof. unfold S_NAMES. apply blen_flat_map. intros; now apply blen_hash. Qed.
Lemma blen_CRC : blen S_CRC = n * 4.
Proof. unfold S_CRC. apply blen_flat_map. intros; apply blen_be32. Qed.
Lemma blen_O32 : blen S_O32 = n * 4.
Proof. unfold S_O32. rewrite (blen_flat_map be32 4) by (intros; apply blen_be32). now rewrite off32_codes_length. Qed.
Lemma blen_O64 : blen S_O64 = n_big tbl * 8.
Proof. unfold S_O64. rewrite (blen_flat_map be64 8) by (intros; apply blen_be64). now rewrite big_offsets_length. Qed.
Lemma blen_pack : blen pack = HS.
Proof. unfold blen, HS. now rewrite Hpack. Qed.

(* -------- ReadAt of one record of each table -------- *)

Lemma nth_in i : i < n -> In (nth (N.to_nat i) tbl d0) tbl.
Proof. intros Hi. apply nth_In. unfold n in Hi. lia. Qed.

(* the names table needs records of equal width: pad the record function outside the table *)
Definition hash_rec (e : entry) : bytes := firstn hs (e_hash e ++ repeat 0 hs).
Lemma hash_rec_len e : blen (hash_rec e) = HS.
Proof. unfold hash_rec, blen, HS. rewrite firstn_length, app_length, repeat_length. lia. Qed.
Lemma hash_rec_in e : In e tbl -> hash_rec e = e_hash e.
Proof.
  intros He. unfold hash_rec. rewrite firstn_app, (wf_size _ _ WF e He), Nat.sub_diag. cbn [firstn].
  rewrite app_nil_r. rewrite <- (wf_size _ _ WF e He). apply firstn_all.
Qed.
Lemma names_as_rec : S_NAMES = flat_map hash_rec tbl.
Proof.
  unfold S_NAMES. assert (G : forall l, (forall e, In e l -> In e tbl) -> flat_map e_hash l = flat_map hash_rec l).
  { induction l as [|e l IH]; intros Hl; cbn; [reflexivity|].
    rewrite hash_rec_in by (apply Hl; now left). f_equal. apply IH. intros; apply Hl; now right. }
  apply G. auto.
Qed.

Lemma read_name i : i < n ->
  read_at file (1032 + i * HS) HS = Some (e_hash (nth (N.to_nat i) tbl d0)).
Proof.
  intros Hi. rewrite file_eq, names_as_rec.
  rewrite (app_assoc S_HDRB S_FAN).
  replace 1032 with (blen (S_HDRB ++ S_FAN)) by (rewrite blen_app, blen_FAN; reflexivity).
  rewrite (record_read_at hash_rec HS tbl _ _ i d0); [|apply hash_rec_len|exact Hi].
  now rewrite hash_rec_in by now apply nth_in.
Qed.

Lemma read_crc i : i < n ->
  read_at file (1032 + n * HS + i * 4) 4 = Some (be32 (e_crc (nth (N.to_nat i) tbl d0))).
Proof.
  intros Hi. rewrite file_eq.
  replace (S_HDRB ++ S_FAN ++ S_NAMES ++ S_CRC ++ S_O32 ++ S_O64 ++ pack ++ S_SUM)
    with ((S_HDRB ++ S_FAN ++ S_NAMES) ++ S_CRC ++ (S_O32 ++ S_O64 ++ pack ++ S_SUM)) by now rewrite <- !app_assoc.
  replace (1032 + n * HS) with (blen (S_HDRB ++ S_FAN ++ S_NAMES)) by (rewrite !blen_app, blen_FAN, blen_NAMES, blen_HDRB; lia).
  unfold S_CRC at 1.
  rewrite (record_read_at (fun e => be32 (e_crc e)) 4 tbl _ _ i d0); [reflexivity|intros; apply blen_be32|exact Hi].
Qed.

Lemma read_code i : i < n ->
  read_at file (1032 + n * HS + n * 4 + i * 4) 4 = Some (be32 (nth (N.to_nat i) (off32_codes tbl 0) 0)).
Proof.
  intros Hi. rewrite file_eq.
  replace (S_HDRB ++ S_FAN ++ S_NAMES ++ S_CRC ++ S_O32 ++ S_O64 ++ pack ++ S_SUM)
    with ((S_HDRB ++ S_FAN ++ S_NAMES ++ S_CRC) ++ S_O32 ++ (S_O64 ++ pack ++ S_SUM)) by now rewrite <- !app_assoc.
  replace (1032 + n * HS + n * 4) with (blen (S_HDRB ++ S_FAN ++ S_NAMES ++ S_CRC))
    by (rewrite !blen_app, blen_FAN, blen_NAMES, blen_CRC, blen_HDRB; lia).
  unfold S_O32 at 1.
  rewrite (record_read_at be32 4 (off32_codes tbl 0) _ _ i 0); [reflexivity|apply blen_be32|rewrite off32_codes_length; exact Hi].
Qed.

Lemma read_big j : j < n_big tbl ->
  read_at file (1032 + n * HS + n * 4 + n * 4 + j * 8) 8 = Some (be64 (nth (N.to_nat j) (big_offsets tbl) 0)).
Proof.
  intros Hj. rewrite file_eq.
  replace (S_HDRB ++ S_FAN ++ S_NAMES ++ S_CRC ++ S_O32 ++ S_O64 ++ pack ++ S_SUM)
    with ((S_HDRB ++ S_FAN ++ S_NAMES ++ S_CRC ++ S_O32) ++ S_O64 ++ (pack ++ S_SUM)) by now rewrite <- !app_assoc.
  replace (1032 + n * HS + n * 4 + n * 4) with (blen (S_HDRB ++ S_FAN ++ S_NAMES ++ S_CRC ++ S_O32))
    by (rewrite !blen_app, blen_FAN, blen_NAMES, blen_CRC, blen_O32, blen_HDRB; lia).
  unfold S_O64 at 1.
  rewrite (record_read_at be64 8 (big_offsets tbl) _ _ j 0); [reflexivity|apply blen_be64|rewrite big_offsets_length; exact Hj].
Qed.

Lemma read_pack :
  read_at file (1032 + n * HS + n * 4 + n * 4 + n_big tbl * 8) HS = Some pack.
Proof.
  rewrite file_eq.
  replace (S_HDRB ++ S_FAN ++ S_NAMES ++ S_CRC ++ S_O32 ++ S_O64 ++ pack ++ S_SUM)
    with ((S_HDRB ++ S_FAN ++ S_NAMES ++ S_CRC ++ S_O32 ++ S_O64) ++ pack ++ S_SUM) by now rewrite <- !app_assoc.
  apply read_at_app_mid; [|now rewrite blen_pack].
  rewrite !blen_app, blen_FAN, blen_NAMES, blen_CRC, blen_O32, blen_O64, blen_HDRB. lia.
Qed.

Lemma read_header : read_at file 0 8 = Some S_HDRB.
Proof. rewrite file_eq. apply (read_at_app_mid [] S_HDRB); reflexivity. Qed.

Lemma read_fanout_tbl : read_at file 8 1024 = Some S_FAN.
Proof. rewrite file_eq. apply read_at_app_mid; [reflexivity|now rewrite blen_FAN]. Qed.

Lemma read_o32_table : read_at file (1032 + n * HS + n * 4) (n * 4) = Some S_O32.
Proof.
  rewrite file_eq.
  replace (S_HDRB ++ S_FAN ++ S_NAMES ++ S_CRC ++ S_O32 ++ S_O64 ++ pack ++ S_SUM)
    with ((S_HDRB ++ S_FAN ++ S_NAMES ++ S_CRC) ++ S_O32 ++ (S_O64 ++ pack ++ S_SUM)) by now rewrite <- !app_assoc.
  apply read_at_app_mid; [|now rewrite blen_O32].
  rewrite !blen_app, blen_FAN, blen_NAMES, blen_CRC, blen_HDRB. lia.
Qed.

(* -------- the values behind the records -------- *)

Lemma code_lt i : i < n -> nth (N.to_nat i) (off32_codes tbl 0) 0 < 4294967296.
Proof.
  intros Hi. apply (off32_codes_bound tbl 0).
  - unfold n_big. pose proof (wf_count _ _ WF).
    assert (List.length (filter is_big tbl) <= List.length tbl)%nat.
    { clear. induction tbl as [|e l IH]; cbn; [lia|]. destruct (is_big e); cbn; lia. }
    lia.
  - intros e He Hb. unfold is_big in Hb. lia.
  - apply nth_In. rewrite off32_codes_length. unfold n in Hi. lia.
Qed.

(* the offset of the i-th object, through the 32-bit code and the 64-bit table *)
Lemma code_small i : i < n -> is_big (nth (N.to_nat i) tbl d0) = false ->
  nth (N.to_nat i) (off32_codes tbl 0) 0 = e_off (nth (N.to_nat i) tbl d0) /\
  e_off (nth (N.to_nat i) tbl d0) < 2147483648.
Proof.
  intros Hi Hb. rewrite (off32_codes_nth tbl 0 (N.to_nat i) d0) by (unfold n in Hi; lia). rewrite Hb.
  split; [reflexivity|]. unfold is_big in Hb. lia.
Qed.

Lemma code_big i : i < n -> is_big (nth (N.to_nat i) tbl d0) = true ->
  exists j, nth (N.to_nat i) (off32_codes tbl 0) 0 = j + 2147483648 /\ j < n_big tbl /\ j < 2147483648 /\
            nth (N.to_nat j) (big_offsets tbl) 0 = e_off (nth (N.to_nat i) tbl d0).
Proof.
  intros Hi Hb. rewrite (off32_codes_nth tbl 0 (N.to_nat i) d0) by (unfold n in Hi; lia). rewrite Hb.
  destruct (big_offsets_nth tbl (N.to_nat i) d0) as [A B]; [unfold n in Hi; lia|assumption|].
  exists (n_big (firstn (N.to_nat i) tbl)).
  assert (Hlt : n_big (firstn (N.to_nat i) tbl) < 2147483648).
  { pose proof (wf_count _ _ WF). unfold n_big in *.
    assert (List.length (filter is_big tbl) <= List.length tbl)%nat.
    { clear. induction tbl as [|e l IH]; cbn; [lia|]. destruct (is_big e); cbn; lia. }
    lia. }
  split; [lia|]. split; [assumption|]. split; assumption.
Qed.

End Layout.
