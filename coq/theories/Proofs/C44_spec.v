(* Proofs/C44_spec.v — DiffTree = map_diff of the flattened trees (as sets), and applying the
   reported changes to the first tree's map gives the second one. *)
From Coq Require Import List NArith Bool Arith Lia.
From GoGit Require Import Base.Out Model.DiffTree Spec.MapDiff Proofs.C44_order Proofs.C44_diff Proofs.C44_sort.
Import ListNotations.

Definition keys_unique (A : fmap) : Prop := forall p a b, In (p, a) A -> In (p, b) A -> a = b.

Lemma SpecF_ext A A' B B' c :
  (forall e, In e A <-> In e A') -> (forall e, In e B <-> In e B') -> SpecF A B c <-> SpecF A' B' c.
Proof.
  intros HA HB. destruct c as [p l|p l|p a b]; cbn.
  - rewrite HB. split; intros [H1 H2]; (split; [exact H1|]); intros (l' & Hl); apply H2; exists l'; now apply HA.
  - rewrite HA. split; intros [H1 H2]; (split; [exact H1|]); intros (l' & Hl); apply H2; exists l'; now apply HB.
  - now rewrite HA, HB.
Qed.

Lemma flatten_keys_unique t : tree_ok t = true -> keys_unique (flatten t).
Proof.
  intros Hok p a b Ha Hb. destruct (sort_tree_ok t Hok) as [Hw Hf].
  apply (proj2 files_keys_unique (sort_tree t) Hw p a b); now apply Hf.
Qed.

(* the model's result, characterised *)
Lemma difftree_spec a b :
  tree_ok a = true -> tree_ok b = true ->
  exists cs, difftree a b = Some cs /\ forall c, In c cs <-> SpecF (flatten a) (flatten b) c.
Proof.
  intros Ha Hb. destruct (sort_tree_ok a Ha) as [Hwa Hfa]. destruct (sort_tree_ok b Hb) as [Hwb Hfb].
  unfold difftree.
  destruct (diffl_spec (S (tree_size (sort_tree a) + tree_size (sort_tree b))) _ _ Hwa Hwb) as (cs & Hd & Hs); [lia|].
  exists cs. split; [exact Hd|]. intros c. rewrite Hs. unfold Spec, flatten.
  apply SpecF_ext; intros [p l]; auto.
Qed.

(* ---------- lookups *)
Lemma path_eqb_eq p q : path_eqb p q = true <-> p = q.
Proof.
  revert q; induction p as [|a p IH]; intros [|b q]; cbn; split; intros H; try congruence; try discriminate.
  - apply andb_true_iff in H as [H1 H2]. apply bytes_eqb_eq in H1. apply IH in H2. congruence.
  - inversion H; subst. apply andb_true_iff. split; [apply bytes_eqb_refl | now apply IH].
Qed.

Lemma path_eqb_refl p : path_eqb p p = true.
Proof. now apply path_eqb_eq. Qed.

Lemma lookup_some p m l : lookup p m = Some l -> In (p, l) m.
Proof.
  induction m as [|[q l'] r IH]; cbn; [discriminate|].
  destruct (path_eqb p q) eqn:He.
  - apply path_eqb_eq in He. intros H; inversion H; subst. now left.
  - intros H. right. auto.
Qed.

Lemma lookup_none p m : lookup p m = None <-> ~ exists l, In (p, l) m.
Proof.
  induction m as [|[q l'] r IH]; cbn.
  - split; [intros _ (l & []) | reflexivity].
  - destruct (path_eqb p q) eqn:He.
    + apply path_eqb_eq in He. subst. split; [discriminate|]. intros H. exfalso. apply H. exists l'. now left.
    + rewrite IH. split.
      * intros H (l & [Hl|Hl]); [inversion Hl; subst; rewrite path_eqb_refl in He; discriminate|]. apply H. eauto.
      * intros H (l & Hl). apply H. eauto.
Qed.

Lemma lookup_in p m l : keys_unique m -> In (p, l) m -> lookup p m = Some l.
Proof.
  intros U Hi. destruct (lookup p m) as [l'|] eqn:Hl.
  - apply lookup_some in Hl. f_equal. eapply U; eauto.
  - exfalso. apply (proj1 (lookup_none p m) Hl). eauto.
Qed.

(* ---------- the executable specification, characterised *)
Lemma map_diff_spec A B c : keys_unique B -> In c (map_diff A B) <-> SpecF A B c.
Proof.
  intros UB. unfold map_diff. rewrite in_app_iff, !in_flat_map. split.
  - intros [([p l] & Hi & Hc)|([p l] & Hi & Hc)]; cbn [fst snd] in Hc.
    + destruct (lookup p B) as [l'|] eqn:Hl.
      * destruct (leaf_eqb l l') eqn:He; [destruct Hc|]. destruct Hc as [<-|[]]. cbn.
        repeat split; auto. now apply lookup_some.
      * destruct Hc as [<-|[]]. cbn. split; [exact Hi|]. now apply lookup_none.
    + destruct (lookup p A) as [l'|] eqn:Hl; [destruct Hc|]. destruct Hc as [<-|[]]. cbn.
      split; [exact Hi|]. now apply lookup_none.
  - destruct c as [p l|p l|p a b]; cbn.
    + intros [Hi Hk]. right. exists (p, l). split; [exact Hi|]. cbn.
      apply lookup_none in Hk. rewrite Hk. now left.
    + intros [Hi Hk]. left. exists (p, l). split; [exact Hi|]. cbn.
      apply lookup_none in Hk. rewrite Hk. now left.
    + intros (Ha & Hb & Hne). left. exists (p, a). split; [exact Ha|]. cbn.
      rewrite (lookup_in p B b UB Hb), Hne. now left.
Qed.

(* ---------- C44_eq_spec *)
Lemma difftree_eq_map_diff a b :
  tree_ok a = true -> tree_ok b = true ->
  exists cs, difftree a b = Some cs /\
             forall c, In c cs <-> In c (map_diff (flatten a) (flatten b)).
Proof.
  intros Ha Hb. destruct (difftree_spec a b Ha Hb) as (cs & Hd & Hs).
  exists cs. split; [exact Hd|]. intros c. rewrite Hs. symmetry. apply map_diff_spec.
  now apply flatten_keys_unique.
Qed.

(* ---------- completeness: the changes transform the first map into the second *)
Lemma leaf_eqb_refl' l : leaf_eqb l l = true.
Proof. apply leaf_eqb_refl. Qed.

Lemma changes_complete A B cs :
  keys_unique A -> keys_unique B ->
  (forall c, In c cs <-> SpecF A B c) ->
  fmap_equiv (apply_changes cs A) B.
Proof.
  intros UA UB Hs. unfold apply_changes. split.
  - intros p l Hi. apply in_app_iff in Hi as [Hi|Hi].
    + apply filter_In in Hi as [Hi Hnt]. cbn in Hnt. apply negb_true_iff in Hnt.
      assert (Hno : forall c, In c cs -> touches p c = false).
      { intros c Hc. destruct (touches p c) eqn:Ht; [|reflexivity].
        assert (existsb (touches p) cs = true) by (apply existsb_exists; eauto). congruence. }
      destruct (lookup p B) as [l'|] eqn:Hl.
      * apply lookup_some in Hl. exists l'. split; [exact Hl|].
        destruct (leaf_eqb l l') eqn:He; [reflexivity|].
        assert (Hc : In (MMod p l l') cs) by (apply Hs; cbn; auto).
        specialize (Hno _ Hc). cbn in Hno. rewrite path_eqb_refl in Hno. discriminate.
      * assert (Hc : In (MDel p l) cs). { apply Hs. cbn. split; [exact Hi|]. now apply lookup_none. }
        specialize (Hno _ Hc). cbn in Hno. rewrite path_eqb_refl in Hno. discriminate.
    + apply in_flat_map in Hi as (c & Hc & Hr). apply Hs in Hc.
      destruct c as [q l0|q l0|q a b]; cbn in Hr.
      * destruct Hr as [Hr|[]]. inversion Hr; subst. exists l. split; [apply Hc | apply leaf_eqb_refl].
      * destruct Hr.
      * destruct Hr as [Hr|[]]. inversion Hr; subst. exists l. split; [apply Hc | apply leaf_eqb_refl].
  - intros p l' Hb. destruct (lookup p A) as [l|] eqn:Hl.
    + apply lookup_some in Hl. destruct (leaf_eqb l l') eqn:He.
      * exists l. split; [|exact He]. apply in_app_iff. left. apply filter_In. split; [exact Hl|]. cbn.
        apply negb_true_iff. destruct (existsb (touches p) cs) eqn:Hex; [|reflexivity]. exfalso.
        apply existsb_exists in Hex as (c & Hc & Ht). apply Hs in Hc.
        destruct c as [q l0|q l0|q a b]; cbn in Ht; apply path_eqb_eq in Ht; subst q; cbn in Hc.
        -- destruct Hc as [_ Hk]. apply Hk. eauto.
        -- destruct Hc as [_ Hk]. apply Hk. eauto.
        -- destruct Hc as (Ha & Hb' & Hne). rewrite (UA _ _ _ Ha Hl), (UB _ _ _ Hb' Hb) in Hne. congruence.
      * exists l'. split; [|apply leaf_eqb_refl]. apply in_app_iff. right. apply in_flat_map.
        exists (MMod p l l'). split; [apply Hs; cbn; auto | now left].
    + exists l'. split; [|apply leaf_eqb_refl]. apply in_app_iff. right. apply in_flat_map.
      exists (MIns p l'). split; [|now left]. apply Hs. cbn. split; [exact Hb|]. now apply lookup_none.
Qed.

Lemma difftree_complete a b :
  tree_ok a = true -> tree_ok b = true ->
  exists cs, difftree a b = Some cs /\ fmap_equiv (apply_changes cs (flatten a)) (flatten b).
Proof.
  intros Ha Hb. destruct (difftree_spec a b Ha Hb) as (cs & Hd & Hs).
  exists cs. split; [exact Hd|]. apply changes_complete; auto using flatten_keys_unique.
Qed.
