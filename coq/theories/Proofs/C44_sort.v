(* Proofs/C44_sort.v — frame.New's sorting: on trees whose directories have pairwise distinct
   names, sort_tree yields a strictly name-sorted tree with the same flattening (as a set). *)
From Coq Require Import List NArith Bool Arith Lia.
From GoGit Require Import Base.Out Model.DiffTree Spec.MapDiff Proofs.C44_order Proofs.C44_diff.
Import ListNotations.

Lemma in_insert_child c l e : In e (insert_child c l) <-> e = c \/ In e l.
Proof.
  induction l as [|d r IH]; cbn.
  - split; [intros [H|[]]; auto | intros [H|[]]; auto].
  - destruct (bytes_ltb (fst d) (fst c)); cbn; rewrite ?IH; split; intros H; intuition.
Qed.

Lemma in_sort_children l e : In e (sort_children l) <-> In e l.
Proof.
  induction l as [|c l IH]; cbn; [reflexivity|].
  rewrite in_insert_child, IH. split; intros [H|H]; auto.
Qed.

Lemma names_sort_children l n : In n (map fst (sort_children l)) <-> In n (map fst l).
Proof.
  rewrite !in_map_iff. split; intros (e & He & Hi); exists e; split; auto; now apply in_sort_children.
Qed.

Lemma insert_wft c l :
  wfn (snd c) -> wft l -> ~ In (fst c) (map fst l) -> wft (insert_child c l).
Proof.
  intros Hc Hl. induction Hl as [|n x r Hx Hr IH Hlt]; intros Hn.
  - cbn. destruct c as [cn cx]. constructor; [exact Hc | constructor | intros m []].
  - cbn [insert_child fst]. destruct (bytes_ltb n (fst c)) eqn:Hlt1.
    + constructor; auto.
      * apply IH. intros Hi. apply Hn. cbn. now right.
      * intros m Hm. apply in_map_iff in Hm as (e & <- & He). apply in_insert_child in He as [->|He]; [exact Hlt1|].
        apply Hlt. apply in_map_iff. eauto.
    + destruct c as [cn cx]. cbn [fst snd] in *.
      assert (Hcn : bytes_ltb cn n = true).
      { apply bytes_ltb_total; [exact Hlt1|]. intros ->. apply Hn. now left. }
      constructor; [exact Hc | constructor; auto |].
      intros m [<-|Hm]; [exact Hcn|]. eapply bytes_ltb_trans; [exact Hcn|]. now apply Hlt.
Qed.

Lemma nodupb_cons x r : nodupb (x :: r) = true -> ~ In x r /\ nodupb r = true.
Proof.
  cbn. intros H. apply andb_true_iff in H as [H1 H2]. split; [|exact H2].
  intros Hi. apply negb_true_iff in H1. assert (existsb (bytes_eqb x) r = true).
  { apply existsb_exists. exists x. split; [exact Hi|apply bytes_eqb_refl]. }
  congruence.
Qed.

Lemma sort_children_wft l :
  Forall (fun c => wfn (snd c)) l -> nodupb (map fst l) = true -> wft (sort_children l).
Proof.
  induction l as [|c l IH]; intros Hf Hn; [constructor|].
  inversion Hf; subst. cbn [map] in Hn. apply nodupb_cons in Hn as [Hni Hn].
  cbn [sort_children fold_right]. apply insert_wft; [exact H1 | now apply IH |].
  intros Hi. apply Hni. now apply (proj1 (names_sort_children l _)) in Hi.
Qed.

(* membership in a flattening only depends on the set of children *)
Lemma in_files_l t p l :
  In (p, l) (files_l t) <-> exists n x q, In (n, x) t /\ p = n :: q /\ In (q, l) (files x).
Proof.
  induction t as [|[n x] t IH].
  - cbn. split; [intros []|]. intros (n & x & q & [] & _).
  - rewrite files_l_cons, in_app_iff, in_pren, IH. split.
    + intros [(q & -> & Hi)|(m & y & q & Hi & -> & Hq)].
      * exists n, x, q. cbn. auto.
      * exists m, y, q. cbn. auto.
    + intros (m & y & q & [He|Hi] & -> & Hq).
      * inversion He; subst. left. eauto.
      * right. exists m, y, q. auto.
Qed.

Lemma node_ok_dir cs :
  node_ok (Dir cs) = true <-> nodupb (map fst cs) = true /\ Forall (fun c => node_ok (snd c) = true) cs.
Proof.
  change (node_ok (Dir cs)) with
    (nodupb (map fst cs) && (fix go (cs : list (name * node)) : bool :=
                               match cs with [] => true | c :: r => node_ok (snd c) && go r end) cs).
  rewrite andb_true_iff. apply and_iff_compat_l.
  induction cs as [|c r IH]; [split; constructor|].
  rewrite andb_true_iff, IH. split.
  - intros [H1 H2]. now constructor.
  - intros H. inversion H; subst. auto.
Qed.

Lemma sort_node_dir cs :
  sort_node (Dir cs) = Dir (sort_children (map (fun c => (fst c, sort_node (snd c))) cs)).
Proof. reflexivity. Qed.

(* sort_node: well-formed result, same flattening *)
Lemma sort_node_ok x :
  node_ok x = true -> wfn (sort_node x) /\ forall p l, In (p, l) (files (sort_node x)) <-> In (p, l) (files x).
Proof.
  induction x as [l|cs IH] using node_ind'; intros Hok.
  - split; [constructor|reflexivity].
  - apply node_ok_dir in Hok as [Hnd Hall]. rewrite sort_node_dir.
    set (f := fun c : name * node => (fst c, sort_node (snd c))).
    assert (Hboth : Forall (fun c => wfn (sort_node (snd c)) /\
                                     forall p l, In (p, l) (files (sort_node (snd c))) <-> In (p, l) (files (snd c))) cs).
    { rewrite Forall_forall in *. intros c Hc. apply IH; auto. }
    split.
    + constructor. apply sort_children_wft.
      * rewrite Forall_forall in *. intros c Hc. apply in_map_iff in Hc as (c0 & <- & Hc0). cbn.
        now apply Hboth.
      * rewrite map_map. cbn. exact Hnd.
    + intros p l. rewrite !files_dir, !in_files_l. rewrite Forall_forall in Hboth. split.
      * intros (n & x & q & Hi & -> & Hq). apply (proj1 (in_sort_children _ _)) in Hi. apply in_map_iff in Hi as (c0 & He & Hc0).
        unfold f in He. inversion He; subst. exists (fst c0), (snd c0), q. repeat split; auto.
        -- now destruct c0.
        -- now apply (Hboth c0 Hc0).
      * intros (n & x & q & Hi & -> & Hq). exists n, (sort_node x), q. repeat split; auto.
        -- apply in_sort_children. apply in_map_iff. exists (n, x). auto.
        -- now apply (Hboth (n, x) Hi).
Qed.

Lemma sort_tree_ok t :
  tree_ok t = true -> wft (sort_tree t) /\ forall p l, In (p, l) (files_l (sort_tree t)) <-> In (p, l) (files_l t).
Proof.
  intros Hok. destruct (sort_node_ok (Dir t) Hok) as [Hw Hf].
  rewrite sort_node_dir in Hw, Hf. fold (sort_tree t) in Hw, Hf.
  split; [now inversion Hw|]. intros p l. specialize (Hf p l). now rewrite !files_dir in Hf.
Qed.
