(* Proofs/C35Utf8.v — facts about the UTF-8 layer (Model/C35Utf8.v) used by the
   C35 round-trip proofs: on lines that begin and end with a non-blank ASCII
   byte the Unicode-aware TrimSpace is the identity, ASCII strings split into
   their bytes, Fields of blank-separated ASCII tokens returns the tokens. *)
From Coq Require Import List Arith NArith Bool Lia ZifyBool ZifyNat ZifyN.
From GoGit Require Import Base.Out Model.PktLine Model.C35Utf8.
Import ListNotations.
Local Open Scope N_scope.

Definition ascii (c : N) : bool := c <? 128.

Lemma decode_rune_ascii b r : ascii b = true -> decode_rune (b :: r) = (b, 1%nat).
Proof. unfold ascii. intros H. cbn [decode_rune]. now rewrite H. Qed.

Lemma decode_rune_width s : s <> [] -> (1 <= snd (decode_rune s) <= List.length s)%nat.
Proof.
  destruct s as [|b0 r]; [contradiction|]. intros _. unfold decode_rune.
  destruct (b0 <? 128); [cbn; lia|]. destruct (b0 <? 194); [cbn; lia|].
  destruct (b0 <? 224).
  { destruct r as [|b1 r]; [cbn; lia|]. destruct (u8cont b1); cbn; lia. }
  destruct (b0 <? 240).
  { destruct r as [|b1 [|b2 r]]; try (cbn; lia).
    destruct (_ && _); cbn; lia. }
  destruct (b0 <? 245); [|cbn; lia].
  destruct r as [|b1 [|b2 [|b3 r]]]; try (cbn; lia).
  destruct (_ && _); cbn; lia.
Qed.

Lemma runes_go_concat : forall fuel s, (List.length s <= fuel)%nat -> List.concat (map snd (runes_go fuel s)) = s.
Proof.
  induction fuel as [|f IH]; intros s H.
  - destruct s; [reflexivity|cbn in H; lia].
  - destruct s as [|b r]; [reflexivity|]. cbn [runes_go].
    pose proof (decode_rune_width (b :: r) ltac:(discriminate)) as W.
    destruct (decode_rune (b :: r)) as [rn n]. cbn [snd] in W. cbn [map snd List.concat].
    rewrite IH; [apply firstn_skipn|]. rewrite skipn_length. cbn [List.length] in *. lia.
Qed.

Lemma runes_concat s : List.concat (map snd (runes s)) = s.
Proof. apply runes_go_concat. lia. Qed.

Lemma runes_cons_ascii b r : ascii b = true -> runes (b :: r) = (b, [b]) :: runes r.
Proof. intros H. unfold runes. cbn [List.length runes_go]. rewrite (decode_rune_ascii b r H). reflexivity. Qed.

Lemma runes_ascii s : forallb ascii s = true -> runes s = map (fun b => (b, [b])) s.
Proof.
  induction s as [|b r IH]; [reflexivity|]. cbn [forallb]. intros H. apply andb_prop in H. destruct H as [H1 H2].
  rewrite (runes_cons_ascii b r H1), (IH H2). reflexivity.
Qed.

Lemma is_space_rune_ascii c : ascii c = true -> is_space_rune c = is_space c.
Proof.
  unfold ascii, is_space_rune, is_space. intros H.
  destruct (N.eqb_spec c 9); [subst; reflexivity|]. destruct (N.eqb_spec c 10); [subst; reflexivity|].
  destruct (N.eqb_spec c 11); [subst; reflexivity|]. destruct (N.eqb_spec c 12); [subst; reflexivity|].
  destruct (N.eqb_spec c 13); [subst; reflexivity|]. destruct (N.eqb_spec c 32); [subst; reflexivity|].
  cbn [orb]. lia.
Qed.

(* a non-blank ASCII byte *)
Definition asciins (c : N) : bool := ascii c && negb (is_space c).

Lemma asciins_spec c : asciins c = true -> ascii c = true /\ is_space_rune c = false /\ is_space c = false.
Proof.
  unfold asciins. intros H. apply andb_prop in H. destruct H as [H1 H2]. apply negb_true_iff in H2.
  rewrite (is_space_rune_ascii c H1). auto.
Qed.

Lemma trim_left_u_ns c r : asciins c = true -> trim_left_u (c :: r) = c :: r.
Proof.
  intros H. destruct (asciins_spec c H) as (A & Sp & _). unfold trim_left_u.
  rewrite (runes_cons_ascii c r A). cbn [drop_space_runes fst]. rewrite Sp.
  rewrite <- (runes_cons_ascii c r A). apply runes_concat.
Qed.

Lemma decode_last_ascii s b : ascii b = true -> decode_last_rune (s ++ [b]) = (b, 1%nat).
Proof. unfold ascii. intros H. unfold decode_last_rune. rewrite rev_unit. now rewrite H. Qed.

Lemma trim_right_u_ns s b : asciins b = true -> trim_right_u (s ++ [b]) = s ++ [b].
Proof.
  intros H. destruct (asciins_spec b H) as (A & Sp & _). unfold trim_right_u.
  rewrite app_length. cbn [List.length]. replace (List.length s + 1)%nat with (S (List.length s)) by lia.
  cbn [trim_right_go]. destruct (s ++ [b]) as [|x l] eqn:E; [destruct s; discriminate|].
  rewrite <- E, (decode_last_ascii s b A), Sp. reflexivity.
Qed.

Lemma trim_right_u_nl s b : asciins b = true -> trim_right_u ((s ++ [b]) ++ [NL]) = s ++ [b].
Proof.
  intros H. destruct (asciins_spec b H) as (A & Sp & _). unfold trim_right_u.
  rewrite !app_length. cbn [List.length]. replace (List.length s + 1 + 1)%nat with (S (S (List.length s))) by lia.
  cbn [trim_right_go]. destruct ((s ++ [b]) ++ [NL]) as [|x l] eqn:E; [destruct s; discriminate|].
  rewrite <- E, (decode_last_ascii (s ++ [b]) NL eq_refl).
  change (is_space_rune NL) with true. cbv iota.
  rewrite !app_length. cbn [List.length].
  replace (List.length s + 1 + 1 - 1)%nat with (List.length (s ++ [b])) by (rewrite app_length; cbn; lia).
  rewrite firstn_app, Nat.sub_diag, firstn_all. cbn [firstn]. rewrite app_nil_r.
  destruct (s ++ [b]) as [|y l'] eqn:E2; [destruct s; discriminate|].
  rewrite <- E2, (decode_last_ascii s b A), Sp. reflexivity.
Qed.

(* lines that begin and end with a non-blank ASCII byte (or are empty) *)
Definition clean_u (text : bytes) : bool :=
  match text with
  | [] => true
  | c :: _ => asciins c && asciins (last text 0)
  end.

Lemma last_split {A} (l : list A) d : l <> [] -> l = removelast l ++ [last l d].
Proof. intros H. now apply app_removelast_last. Qed.

Theorem trim_u_clean text : clean_u text = true -> trim_space_u (text ++ [NL]) = text.
Proof.
  destruct text as [|c t]; [reflexivity|]. unfold clean_u. intros H. apply andb_prop in H. destruct H as [H1 H2].
  unfold trim_space_u. cbn [app]. rewrite (trim_left_u_ns c _ H1).
  change (c :: t ++ [NL]) with ((c :: t) ++ [NL]).
  rewrite (last_split (c :: t) 0 ltac:(discriminate)) at 1 2.
  now apply trim_right_u_nl.
Qed.

Theorem trim_u_id s : clean_u s = true -> trim_space_u s = s.
Proof.
  destruct s as [|c t]; [reflexivity|]. unfold clean_u. intros H. apply andb_prop in H. destruct H as [H1 H2].
  unfold trim_space_u. rewrite (trim_left_u_ns c _ H1).
  rewrite (last_split (c :: t) 0 ltac:(discriminate)) at 1 2.
  now apply trim_right_u_ns.
Qed.

(* ---------- ContainsFunc on ASCII ---------- *)
Lemma contains_rune_ascii f s : forallb ascii s = true -> contains_rune f s = existsb f s.
Proof.
  intros H. unfold contains_rune. rewrite (runes_ascii s H). induction s as [|b r IH]; [reflexivity|].
  cbn [map existsb fst]. cbn [forallb] in H. apply andb_prop in H. now rewrite IH.
Qed.

(* ---------- Fields on blank-separated ASCII tokens ---------- *)
Definition tok_u (t : bytes) : bool := negb (Nat.eqb (List.length t) 0) && forallb asciins t.

Lemma fields_go_tok : forall t rest cur,
  forallb asciins t = true ->
  fields_go (map (fun b => (b, [b])) t ++ rest) cur true
  = fields_go rest (rev (map (fun b => [b]) t) ++ cur) true.
Proof.
  induction t as [|b t IH]; intros rest cur H; [reflexivity|].
  cbn [forallb] in H. apply andb_prop in H. destruct H as [H1 H2].
  destruct (asciins_spec b H1) as (_ & Sp & _).
  cbn [map app fields_go fst snd]. rewrite Sp. cbv iota.
  refine (eq_trans (IH rest ([b] :: cur) H2) _). cbn [rev map]. rewrite <- app_assoc. reflexivity.
Qed.

Lemma concat_singletons (t : bytes) : List.concat (map (fun b => [b]) t) = t.
Proof. induction t as [|b t IH]; [reflexivity|]. cbn. now rewrite IH. Qed.

Lemma fields_go_first : forall t rest,
  tok_u t = true ->
  fields_go (map (fun b => (b, [b])) t ++ rest) [] false
  = fields_go rest (rev (map (fun b => [b]) t)) true.
Proof.
  intros t rest H. unfold tok_u in H. apply andb_prop in H. destruct H as [H0 H].
  destruct t as [|b t]; [discriminate|]. cbn [forallb] in H. apply andb_prop in H. destruct H as [H1 H2].
  destruct (asciins_spec b H1) as (_ & Sp & _).
  cbn [map app fields_go fst snd]. rewrite Sp. cbv iota. refine (eq_trans (fields_go_tok t rest [[b]] H2) _). reflexivity.
Qed.

Fixpoint join_sp (l : list bytes) : bytes :=
  match l with
  | [] => []
  | [x] => x
  | x :: r => x ++ [32] ++ join_sp r
  end.

Lemma fields_go_join : forall toks, toks <> [] -> forallb tok_u toks = true ->
  fields_go (map (fun b => (b, [b])) (join_sp toks)) [] false = toks.
Proof.
  induction toks as [|t toks IH]; [contradiction|]. intros _ H.
  cbn [forallb] in H. apply andb_prop in H. destruct H as [H1 H2].
  destruct toks as [|t2 toks].
  - cbn [join_sp]. rewrite <- (app_nil_r (map _ t)), (fields_go_first t [] H1).
    cbn [fields_go]. rewrite rev_involutive, concat_singletons. reflexivity.
  - change (join_sp (t :: t2 :: toks)) with (t ++ [32] ++ join_sp (t2 :: toks)).
    rewrite map_app, (fields_go_first t _ H1). cbn [app map fields_go fst].
    change (is_space_rune 32) with true. cbv iota.
    rewrite rev_involutive, concat_singletons. f_equal. apply IH; [discriminate|assumption].
Qed.

Lemma tok_u_ascii t : tok_u t = true -> forallb ascii t = true.
Proof.
  unfold tok_u. intros H. apply andb_prop in H. destruct H as [_ H].
  rewrite forallb_forall in *. intros x Hx. specialize (H x Hx). unfold asciins in H. now apply andb_prop in H.
Qed.

Lemma join_sp_ascii toks : forallb tok_u toks = true -> forallb ascii (join_sp toks) = true.
Proof.
  induction toks as [|t toks IH]; [reflexivity|]. cbn [forallb]. intros H. apply andb_prop in H. destruct H as [H1 H2].
  destruct toks as [|t2 toks]; [now apply tok_u_ascii|].
  change (join_sp (t :: t2 :: toks)) with (t ++ [32] ++ join_sp (t2 :: toks)).
  rewrite !forallb_app. rewrite (tok_u_ascii t H1), (IH H2). reflexivity.
Qed.

Theorem fields_join toks : toks <> [] -> forallb tok_u toks = true -> fields_u (join_sp toks) = toks.
Proof.
  intros Hne H. unfold fields_u. rewrite (runes_ascii _ (join_sp_ascii toks H)). now apply fields_go_join.
Qed.
