(* Proofs/C53RevFile.v — C53 for revfile.Decode (Model/Idx.v rev_decode): structural
   (read_u32s recurses on the object count handed in by the caller); whatever that
   count is, a successful decode delivered exactly [count] positions and the file
   holds 4 bytes for each of them plus header and trailers: 4*count + 52 <= |file|. *)
From Coq Require Import List NArith ZArith Bool Lia ZifyBool ZifyNat ZifyN.
From GoGit Require Import Base.Out Model.PackBytes Model.Idx Proofs.C10Bytes.
Import ListNotations.
Local Open Scope N_scope.

Lemma read_u32s_len : forall n r l r', read_u32s n r = Some (l, r') ->
  List.length l = n /\ blen r = 4 * N.of_nat n + blen r'.
Proof.
  induction n as [|n IH]; intros r l r' E; cbn [read_u32s] in E.
  - injection E as <- <-. cbn. split; [reflexivity|lia].
  - destruct (take 4 r) as [[w r1]|] eqn:T; [|discriminate].
    destruct (read_u32s n r1) as [[l1 r2]|] eqn:R; [|discriminate]. injection E as <- <-.
    apply take_some in T. destruct T as [-> Lw]. destruct (IH _ _ _ R) as [A B].
    split; [cbn [List.length]; lia|]. rewrite blen_app, Lw, B. lia.
Qed.

Theorem rev_decode_alloc Hsz file count pack es : rev_decode Hsz file count pack = Ok es ->
  N.of_nat (List.length es) = count /\ 4 * count + 52 <= blen file.
Proof.
  unfold rev_decode. destruct (take 4 file) as [[mg r1]|] eqn:T1; [|discriminate].
  destruct (negb _); [discriminate|]. destruct (take 4 r1) as [[vb r2]|] eqn:T2; [|discriminate].
  destruct (negb _); [discriminate|]. destruct (take 4 r2) as [[hb r3]|] eqn:T3; [|discriminate]. cbv zeta.
  destruct (negb _); [discriminate|]. destruct (count =? 0); [discriminate|].
  destruct (read_u32s (N.to_nat count) r3) as [[es' r4]|] eqn:R; [|discriminate].
  destruct (take _ r4) as [[pk r5]|] eqn:T4; [|discriminate]. destruct (negb _); [discriminate|].
  destruct (take _ r5) as [[sum r6]|] eqn:T5; [|discriminate]. destruct (negb _); [discriminate|].
  destruct r6; [|discriminate]. intros [= <-].
  apply take_some in T1, T2, T3, T4, T5. destruct T1 as [-> L1], T2 as [-> L2], T3 as [-> L3], T4 as [-> L4], T5 as [-> L5].
  apply read_u32s_len in R. destruct R as [A B]. split; [lia|].
  rewrite !blen_app, L1, L2, L3, B, !blen_app, L4, L5.
  destruct (get32 hb =? REV_SHA256); lia.
Qed.
