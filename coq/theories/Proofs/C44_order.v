(* Proofs/C44_order.v — Go's bytewise string order on byte lists is a strict total order. *)
From Coq Require Import List NArith Bool Lia.
From GoGit Require Import Base.Out Model.DiffTree.
Import ListNotations.
Local Open Scope N_scope.

Lemma bytes_cmp_eq a b : bytes_cmp a b = Eq <-> a = b.
Proof.
  revert b; induction a as [|x a IH]; intros [|y b]; cbn; split; intros H; try congruence; try discriminate.
  - destruct (N.compare x y) eqn:Hc; try discriminate. apply N.compare_eq in Hc. apply IH in H. congruence.
  - inversion H; subst. rewrite N.compare_refl. now apply IH.
Qed.

Lemma bytes_cmp_refl a : bytes_cmp a a = Eq.
Proof. now apply bytes_cmp_eq. Qed.

Lemma bytes_cmp_antisym a b : bytes_cmp b a = CompOpp (bytes_cmp a b).
Proof.
  revert b; induction a as [|x a IH]; intros [|y b]; cbn; try reflexivity.
  rewrite (N.compare_antisym x y). destruct (N.compare x y); cbn; auto.
Qed.

Lemma bytes_cmp_lt_trans a b c : bytes_cmp a b = Lt -> bytes_cmp b c = Lt -> bytes_cmp a c = Lt.
Proof.
  revert b c; induction a as [|x a IH]; intros [|y b] [|z c]; cbn; try congruence; try discriminate.
  destruct (N.compare x y) eqn:H1; destruct (N.compare y z) eqn:H2; try discriminate; intros Ha Hb.
  - apply N.compare_eq in H1, H2. subst. rewrite N.compare_refl. eauto.
  - apply N.compare_eq in H1. subst. now rewrite H2.
  - apply N.compare_eq in H2. subst. now rewrite H1.
  - rewrite N.compare_lt_iff in H1, H2. assert (x < z) by lia. apply N.compare_lt_iff in H. now rewrite H.
Qed.

Lemma bytes_eqb_eq a b : bytes_eqb a b = true <-> a = b.
Proof. unfold bytes_eqb. rewrite <- bytes_cmp_eq. destruct (bytes_cmp a b); split; congruence. Qed.

Lemma bytes_eqb_refl a : bytes_eqb a a = true.
Proof. now apply bytes_eqb_eq. Qed.

Lemma bytes_ltb_lt a b : bytes_ltb a b = true <-> bytes_cmp a b = Lt.
Proof. unfold bytes_ltb. destruct (bytes_cmp a b); split; congruence. Qed.

Lemma bytes_ltb_irrefl a : bytes_ltb a a = false.
Proof. unfold bytes_ltb. now rewrite bytes_cmp_refl. Qed.

Lemma bytes_ltb_trans a b c : bytes_ltb a b = true -> bytes_ltb b c = true -> bytes_ltb a c = true.
Proof. rewrite !bytes_ltb_lt. apply bytes_cmp_lt_trans. Qed.

Lemma bytes_ltb_total a b : bytes_ltb a b = false -> a <> b -> bytes_ltb b a = true.
Proof.
  unfold bytes_ltb. rewrite (bytes_cmp_antisym a b). intros H Hn.
  destruct (bytes_cmp a b) eqn:Hc; cbn; try congruence.
  apply bytes_cmp_eq in Hc. contradiction.
Qed.

Lemma bytes_ltb_asym a b : bytes_ltb a b = true -> bytes_ltb b a = false.
Proof. unfold bytes_ltb. rewrite (bytes_cmp_antisym a b). destruct (bytes_cmp a b); cbn; congruence. Qed.

Lemma bytes_cmp_gt_lt a b : bytes_cmp a b = Gt -> bytes_cmp b a = Lt.
Proof. intros H. rewrite bytes_cmp_antisym, H. reflexivity. Qed.
