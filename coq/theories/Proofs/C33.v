(* Proofs/C33.v — the dual filesystem induced by the routing function. *)
From Coq Require Import List NArith Arith Lia Bool String.
From GoGit Require Import Base.Out Model.WtRoute Spec.GitCommonDir.
Import ListNotations.
Local Open Scope N_scope.

Lemma beqb_eq a : forall b, beqb a b = true <-> a = b.
Proof.
  induction a as [|x a IH]; intros [|y b]; cbn [beqb]; split; intros H; try reflexivity; try discriminate.
  - apply andb_true_iff in H as [H1 H2]. apply N.eqb_eq in H1. apply IH in H2. now subst.
  - inversion H; subst. rewrite N.eqb_refl. cbn. now apply IH.
Qed.
Lemma beqb_refl a : beqb a a = true.
Proof. now apply beqb_eq. Qed.

Lemma fget_fput l p d q : fget (fput l p d) q = if beqb p q then Some d else fget l q.
Proof.
  induction l as [|[r x] l IH].
  - cbn [fput fget]. reflexivity.
  - cbn [fput]. destruct (beqb r p) eqn:E.
    + apply beqb_eq in E. subst r. cbn [fget]. destruct (beqb p q); reflexivity.
    + cbn [fget]. destruct (beqb r q) eqn:E2.
      * apply beqb_eq in E2. subst r. destruct (beqb p q) eqn:E3; [|reflexivity].
        apply beqb_eq in E3. subst. rewrite beqb_refl in E. discriminate.
      * exact IH.
Qed.

Lemma pget_pput l w m v : pget (pput l w m) v = if w =? v then m else pget l v.
Proof.
  induction l as [|[u x] l IH].
  - cbn [pput pget]. reflexivity.
  - cbn [pput]. destruct (u =? w) eqn:E.
    + apply N.eqb_eq in E. subst u. cbn [pget]. destruct (w =? v); reflexivity.
    + cbn [pget]. destruct (u =? v) eqn:E2.
      * apply N.eqb_eq in E2. subst u. rewrite N.eqb_sym, E. reflexivity.
      * exact IH.
Qed.

(* a write to a per-worktree path is invisible to every other worktree, at every path *)
Lemma isolated f a b p d q :
  a <> b -> go_common p = false -> fs_read (fs_write f a p d) b q = fs_read f b q.
Proof.
  intros Hab Hp. unfold fs_write, fs_read. rewrite Hp. cbn [fs_common fs_priv].
  destruct (go_common q); [reflexivity|]. rewrite pget_pput.
  destruct (a =? b) eqn:E; [apply N.eqb_eq in E; contradiction|reflexivity].
Qed.

(* a write to a common path is what every worktree reads there *)
Lemma shared f a b p d : go_common p = true -> fs_read (fs_write f a p d) b p = Some d.
Proof.
  intros Hp. unfold fs_write, fs_read. rewrite Hp. cbn [fs_common]. rewrite fget_fput, beqb_refl. reflexivity.
Qed.

Lemma own_read f a p d : fs_read (fs_write f a p d) a p = Some d.
Proof.
  unfold fs_write, fs_read. destruct (go_common p) eqn:Hp; cbn [fs_common fs_priv]; rewrite ?Hp.
  - rewrite fget_fput, beqb_refl. reflexivity.
  - rewrite pget_pput, N.eqb_refl, fget_fput, beqb_refl. reflexivity.
Qed.

(* a write to a common path does not touch any private file *)
Lemma common_keeps_private f a b p d q :
  go_common p = true -> go_common q = false -> fs_read (fs_write f a p d) b q = fs_read f b q.
Proof. intros Hp Hq. unfold fs_write, fs_read. rewrite Hp, Hq. reflexivity. Qed.

(* everything below these directories is shared *)
Lemma common_objects sfx : go_common (s "objects/"%string ++ sfx) = true.
Proof. reflexivity. Qed.
Lemma common_heads sfx : go_common (s "refs/heads/"%string ++ sfx) = true.
Proof. reflexivity. Qed.
Lemma common_tags sfx : go_common (s "refs/tags/"%string ++ sfx) = true.
Proof. reflexivity. Qed.
Lemma common_remotes sfx : go_common (s "refs/remotes/"%string ++ sfx) = true.
Proof. reflexivity. Qed.

(* ------------------------------------------------------------ git's rule on whole families of paths *)

(* ".lock" contains no '/' *)
Lemma lock_noslash : forallb (fun c => negb (c =? SL)) (s ".lock"%string) = true.
Proof. reflexivity. Qed.

Lemma nth_skipn (A : Type) (l : list A) : forall k j d, nth j (skipn k l) d = nth (k + j) l d.
Proof.
  induction l as [|x l IH]; intros [|k] j d; cbn; try reflexivity.
  - now destruct j.
  - apply IH.
Qed.

(* stripping a .lock suffix never reaches into a prefix that ends with '/' *)
Lemma strip_lock_prefix pre rest :
  last pre 0 = SL -> pre <> [] ->
  exists rest', strip_lock (pre ++ rest) = pre ++ rest'.
Proof.
  intros Hl Hne. unfold strip_lock.
  set (p := pre ++ rest). set (n := List.length p).
  destruct (Nat.ltb 5 n && beqb (skipn (n - 5) p) (s ".lock"%string)) eqn:E; [|now exists rest].
  apply andb_true_iff in E as [E1 E2]. apply Nat.ltb_lt in E1. apply beqb_eq in E2.
  set (k := List.length pre).
  assert (Hk : (0 < k)%nat) by (destruct pre; [congruence|cbn; lia]).
  assert (Hn : n = (k + List.length rest)%nat) by (unfold n, p, k; now rewrite app_length).
  assert (Hge : (k <= n - 5)%nat).
  { destruct (le_lt_dec k (n - 5)) as [H|H]; [exact H|exfalso].
    (* the '/' at index k-1 would be one of the last five bytes *)
    assert (Hnth : nth (k - 1) p 0 = SL).
    { unfold p. rewrite app_nth1 by lia. rewrite <- Hl. unfold k.
      clear - Hne. induction pre as [|x pre IH]; [congruence|].
      destruct pre as [|y pre]; [reflexivity|]. cbn [List.length last]. 
      replace (S (S (List.length pre)) - 1)%nat with (S (List.length (y :: pre) - 1)) by (cbn; lia).
      cbn [nth]. apply IH. discriminate. }
    assert (Hj : nth (k - 1 - (n - 5)) (skipn (n - 5) p) 0 = SL).
    { rewrite nth_skipn. replace (n - 5 + (k - 1 - (n - 5)))%nat with (k - 1)%nat by lia. exact Hnth. }
    rewrite E2 in Hj.
    assert (Hlt : (k - 1 - (n - 5) < 5)%nat) by lia.
    destruct (k - 1 - (n - 5))%nat as [|[|[|[|[|j]]]]]; cbn in Hj; try discriminate; lia. }
  exists (firstn (n - 5 - k) rest). unfold p. rewrite firstn_app. fold k.
  rewrite firstn_all2 by (fold k; lia). reflexivity.
Qed.

Ltac family pre :=
  intros rest;
  destruct (strip_lock_prefix (s pre) rest eq_refl ltac:(discriminate)) as [rest' E];
  unfold git_common; rewrite E; reflexivity.

Lemma fam_objects : forall rest, git_common (s "objects/"%string ++ rest) = true.
Proof. family "objects/"%string. Qed.
Lemma fam_heads : forall rest, git_common (s "refs/heads/"%string ++ rest) = true.
Proof. family "refs/heads/"%string. Qed.
Lemma fam_tags : forall rest, git_common (s "refs/tags/"%string ++ rest) = true.
Proof. family "refs/tags/"%string. Qed.
Lemma fam_remotes : forall rest, git_common (s "refs/remotes/"%string ++ rest) = true.
Proof. family "refs/remotes/"%string. Qed.
Lemma fam_hooks : forall rest, git_common (s "hooks/"%string ++ rest) = true.
Proof. family "hooks/"%string. Qed.
Lemma fam_logs_heads : forall rest, git_common (s "logs/refs/heads/"%string ++ rest) = true.
Proof. family "logs/refs/heads/"%string. Qed.
Lemma fam_worktrees : forall rest, git_common (s "worktrees/"%string ++ rest) = true.
Proof. family "worktrees/"%string. Qed.
(* the deviating families, for every suffix *)
Lemma fam_bisect : forall rest, git_common (s "refs/bisect/"%string ++ rest) = false.
Proof. family "refs/bisect/"%string. Qed.
Lemma fam_worktree_refs : forall rest, git_common (s "refs/worktree/"%string ++ rest) = false.
Proof. family "refs/worktree/"%string. Qed.
Lemma fam_rewritten : forall rest, git_common (s "refs/rewritten/"%string ++ rest) = false.
Proof. family "refs/rewritten/"%string. Qed.
Lemma fam_logs_bisect : forall rest, git_common (s "logs/refs/bisect/"%string ++ rest) = false.
Proof. family "logs/refs/bisect/"%string. Qed.

(* ------------------------------------------------------------ Worktree.Open *)

(* a worktree directory with a gitdir pointer is never served from the main storage *)
Lemma open_pointer_never_main wtroot file p admin_ok :
  parse_dotgit file = Some p -> go_open wtroot (Some file) admin_ok <> OpenMain.
Proof. intros H. unfold go_open. rewrite H. destruct (admin_ok _); discriminate. Qed.

(* ... and when its admin directory is gone, Open fails *)
Lemma open_gone_fails wtroot file p admin_ok :
  parse_dotgit file = Some p -> admin_ok (resolve wtroot p) = false ->
  go_open wtroot (Some file) admin_ok = OpenErr.
Proof. intros H G. unfold go_open. now rewrite H, G. Qed.

(* every file that starts with "gitdir: " and is at least 9 bytes long is a pointer *)
Lemma parse_gitdir_prefix rest :
  (1 <= List.length rest)%nat ->
  exists p, parse_dotgit (s "gitdir: "%string ++ rest) = Some p.
Proof.
  intros H. unfold parse_dotgit.
  set (data := firstn 1024 (s "gitdir: "%string ++ rest)).
  assert (L : (9 <= List.length data)%nat).
  { unfold data. rewrite firstn_length, app_length.
    assert (E8 : List.length (s "gitdir: "%string) = 8%nat) by reflexivity. rewrite E8.
    apply Nat.min_glb; lia. }
  destruct (Nat.ltb (List.length data) 9) eqn:E; [apply Nat.ltb_lt in E; lia|].
  assert (F : firstn 6 data = s "gitdir"%string).
  { unfold data. destruct rest as [|r0 rest]; [cbn in H; lia|]. reflexivity. }
  rewrite F. cbn [beqb]. eexists. reflexivity.
Qed.
