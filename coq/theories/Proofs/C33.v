(* Proofs/C33.v — the dual filesystem induced by the routing function. *)
From Coq Require Import List NArith Arith Lia Bool String.
From GoGit Require Import Base.Out Model.WtRoute Spec.GitCommonDir.
Import ListNotations.
Local Open Scope N_scope.

Lemma beqb_eq a : forall b, beqb a b = true <-> a = b.
Proof.
  induction a as [|x a IH]; intros [|y b]; cbn [beqb]; split; intros H; try reflexivity; try discriminate.
  - apply andb_true_iff in H as [H1 H2]. apply N.eqb_eq in H1. apply IH in H2. now subst.
  - inversion H; subst. rewrite N.eqb_refl. cbn. now apply IH.
Qed.
Lemma beqb_refl a : beqb a a = true.
Proof. now apply beqb_eq. Qed.

Lemma fget_fput l p d q : fget (fput l p d) q = if beqb p q then Some d else fget l q.
Proof.
  induction l as [|[r x] l IH].
  - cbn [fput fget]. reflexivity.
  - cbn [fput]. destruct (beqb r p) eqn:E.
    + apply beqb_eq in E. subst r. cbn [fget]. destruct (beqb p q); reflexivity.
    + cbn [fget]. destruct (beqb r q) eqn:E2.
      * apply beqb_eq in E2. subst r. destruct (beqb p q) eqn:E3; [|reflexivity].
        apply beqb_eq in E3. subst. rewrite beqb_refl in E. discriminate.
      * exact IH.
Qed.

Lemma pget_pput l w m v : pget (pput l w m) v = if w =? v then m else pget l v.
Proof.
  induction l as [|[u x] l IH].
  - cbn [pput pget]. reflexivity.
  - cbn [pput]. destruct (u =? w) eqn:E.
    + apply N.eqb_eq in E. subst u. cbn [pget]. destruct (w =? v); reflexivity.
    + cbn [pget]. destruct (u =? v) eqn:E2.
      * apply N.eqb_eq in E2. subst u. rewrite N.eqb_sym, E. reflexivity.
      * exact IH.
Qed.

(* a write to a per-worktree path is invisible to every other worktree, at every path *)
Lemma isolated f a b p d q :
  a <> b -> go_common p = false -> fs_read (fs_write f a p d) b q = fs_read f b q.
Proof.
  intros Hab Hp. unfold fs_write, fs_read. rewrite Hp. cbn [fs_common fs_priv].
  destruct (go_common q); [reflexivity|]. rewrite pget_pput.
  destruct (a =? b) eqn:E; [apply N.eqb_eq in E; contradiction|reflexivity].
Qed.

(* a write to a common path is what every worktree reads there *)
Lemma shared f a b p d : go_common p = true -> fs_read (fs_write f a p d) b p = Some d.
Proof.
  intros Hp. unfold fs_write, fs_read. rewrite Hp. cbn [fs_common]. rewrite fget_fput, beqb_refl. reflexivity.
Qed.

Lemma own_read f a p d : fs_read (fs_write f a p d) a p = Some d.
Proof.
  unfold fs_write, fs_read. destruct (go_common p) eqn:Hp; cbn [fs_common fs_priv]; rewrite ?Hp.
  - rewrite fget_fput, beqb_refl. reflexivity.
  - rewrite pget_pput, N.eqb_refl, fget_fput, beqb_refl. reflexivity.
Qed.

(* a write to a common path does not touch any private file *)
Lemma common_keeps_private f a b p d q :
  go_common p = true -> go_common q = false -> fs_read (fs_write f a p d) b q = fs_read f b q.
Proof. intros Hp Hq. unfold fs_write, fs_read. rewrite Hp, Hq. reflexivity. Qed.

(* everything below these directories is shared *)
Lemma common_objects sfx : go_common (s "objects/"%string ++ sfx) = true.
Proof. reflexivity. Qed.
Lemma common_heads sfx : go_common (s "refs/heads/"%string ++ sfx) = true.
Proof. reflexivity. Qed.
Lemma common_tags sfx : go_common (s "refs/tags/"%string ++ sfx) = true.
Proof. reflexivity. Qed.
Lemma common_remotes sfx : go_common (s "refs/remotes/"%string ++ sfx) = true.
Proof. reflexivity. Qed.
