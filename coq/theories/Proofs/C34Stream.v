(* Proofs/C34Stream.v — chunking independence of the ReadFull-style primitive
   [take] (DESIGN Appendix C.3): whatever the chunking, [take] returns the
   first n bytes of the flat stream and leaves a reader whose flat content is
   the rest. *)
From Coq Require Import List NArith ZArith Bool Lia Arith.
From GoGit Require Import Base.Out Model.PktLine.
Import ListNotations.

Lemma take_concat : forall (r : reader) (n : nat),
  fst (take r n) = firstn n (concat r) /\ concat (snd (take r n)) = skipn n (concat r).
Proof.
  induction r as [|c r IH]; intros n.
  - cbn. now rewrite firstn_nil, skipn_nil.
  - cbn [take concat]. destruct (Nat.leb n (List.length c)) eqn:E.
    + apply Nat.leb_le in E. cbn [fst snd concat]. split.
      * rewrite firstn_app. replace (n - List.length c)%nat with 0%nat by lia.
        cbn [firstn]. now rewrite app_nil_r.
      * rewrite skipn_app. replace (n - List.length c)%nat with 0%nat by lia. reflexivity.
    + apply Nat.leb_gt in E. specialize (IH (n - List.length c)%nat).
      destruct (take r (n - List.length c)) as [x r'']. cbn [fst snd] in *.
      destruct IH as [Hx Hr]. split.
      * rewrite firstn_app, Hx. rewrite (firstn_all2 c) by lia. reflexivity.
      * rewrite skipn_app, Hr. rewrite (skipn_all2 c) by lia. reflexivity.
Qed.

Lemma take_fst r n : fst (take r n) = firstn n (concat r).
Proof. apply take_concat. Qed.
Lemma take_snd r n : concat (snd (take r n)) = skipn n (concat r).
Proof. apply take_concat. Qed.

(* two readers with the same flat content are indistinguishable by [take] *)
Lemma take_flat : forall r1 r2 n, concat r1 = concat r2 ->
  fst (take r1 n) = fst (take r2 n) /\ concat (snd (take r1 n)) = concat (snd (take r2 n)).
Proof. intros r1 r2 n H. rewrite !take_fst, !take_snd, H. auto. Qed.

Lemma rlen_take r n : rlen (snd (take r n)) = (rlen r - n)%nat.
Proof. unfold rlen. rewrite take_snd, skipn_length. reflexivity. Qed.

Lemma take_length r n : List.length (fst (take r n)) = Nat.min n (rlen r).
Proof. unfold rlen. rewrite take_fst, firstn_length. reflexivity. Qed.

Lemma skipn_skipn' {A} : forall (x y : nat) (l : list A), skipn x (skipn y l) = skipn (y + x) l.
Proof.
  intros x y. induction y as [|y IH]; intros l; [reflexivity|].
  destruct l as [|a l]; [now rewrite !skipn_nil|]. cbn [skipn Nat.add]. apply IH.
Qed.

Lemma firstn_add {A} : forall (a b : nat) (l : list A), firstn (a + b) l = firstn a l ++ firstn b (skipn a l).
Proof.
  induction a as [|a IH]; intros b l; [reflexivity|].
  destruct l as [|x l]; [now rewrite !firstn_nil|]. cbn [Nat.add firstn skipn app]. now rewrite IH.
Qed.
