(* Proofs/C37Trees.v — the tree-collecting functions of the revlist walk:
   markTreeSeen, collectAllTreeObjects, collectChangedTreeObjects. *)
From Coq Require Import List NArith ZArith Bool Lia.
From GoGit Require Import Model.RevList Spec.ObjReach.
Import ListNotations.
Local Open Scope N_scope.

Lemma mem_In : forall x l, mem x l = true <-> In x l.
Proof.
  induction l as [|y l IH]; cbn [mem In]; [split; [discriminate | tauto]|].
  rewrite orb_true_iff, IH, N.eqb_eq. tauto.
Qed.

Lemma mem_false : forall x l, mem x l = false <-> ~ In x l.
Proof. intros. rewrite <- mem_In. destruct (mem x l); split; congruence. Qed.

Lemma get_tree_get : forall st h es, get_tree st h = Some es <-> get st h = Some (Tree es).
Proof.
  intros. unfold get_tree. destruct (get st h) as [[]|]; split; intro H; inversion H; subst; reflexivity.
Qed.

Lemma get_commit_get : forall st h t ps tm,
  get_commit st h = Some (t, ps, tm) <-> get st h = Some (Commit t ps tm).
Proof.
  intros. unfold get_commit. destruct (get st h) as [[]|]; split; intro H; inversion H; subst; reflexivity.
Qed.

Section Trees.
  Variable st : store.
  Variable sh : list oid.
  Variable haves : list oid.
  Hypothesis Hwf : wf_store st = true.

  Definition Had (o : oid) : Prop := reach_set st sh haves o.
  Definition I1 (s : wstate) : Prop := forall x, In x (fst s) -> In x (snd s) \/ Had x.
  Definition mono (s s' : wstate) : Prop := incl (fst s) (fst s') /\ incl (snd s) (snd s').
  (* new result elements come from below [root] *)
  Definition from (root : oid) (s s' : wstate) : Prop :=
    forall x, In x (snd s') -> In x (snd s) \/ reach st sh root x.
  (* the result never leaves the seen set *)
  Definition RS (s : wstate) : Prop := incl (snd s) (fst s).

  Lemma mono_refl : forall s, mono s s.
  Proof. intros; split; apply incl_refl. Qed.
  Lemma mono_trans : forall a b c, mono a b -> mono b c -> mono a c.
  Proof. intros a b c [] []; split; eapply incl_tran; eauto. Qed.
  Lemma mono_emit : forall h s, mono s (emit h s).
  Proof. intros; split; cbn; apply incl_tl, incl_refl. Qed.

  Lemma Had_closed : forall a b, Had a -> reach st sh a b -> Had b.
  Proof. intros; eapply reach_set_closed; eauto. Qed.

  Lemma entry_child : forall t es e,
    get_tree st t = Some es -> In e es -> e_kind e <> KSub -> child st sh t (e_id e).
  Proof. intros t es e Ht Hi Hk. apply get_tree_get in Ht. eapply ch_entry; eauto. Qed.

  (* typing facts from wf_store *)
  Lemma entry_typed_of : forall t es e,
    get_tree st t = Some es -> In e es -> entry_typed st (sub_ids st) e = true.
  Proof.
    intros t es e Ht Hi. apply get_tree_get in Ht. pose proof (wf_get _ _ _ Hwf Ht) as W.
    cbn in W. rewrite forallb_forall in W. now apply W.
  Qed.

  Lemma sub_ids_In : forall t es e,
    get_tree st t = Some es -> In e es -> e_kind e = KSub -> In (e_id e) (sub_ids st).
  Proof.
    intros t es e Ht Hi Hk. apply get_tree_get in Ht. apply get_In in Ht.
    unfold sub_ids. apply in_flat_map. exists (t, Tree es). split; [assumption|]. cbn.
    apply in_flat_map. exists e. split; [assumption|]. rewrite Hk. now left.
  Qed.

  Lemma file_entry_get : forall t es e,
    get_tree st t = Some es -> In e es -> e_kind e = KFile ->
    (get st (e_id e) = None \/ get st (e_id e) = Some Blob) /\ ~ In (e_id e) (sub_ids st).
  Proof.
    intros t es e Ht Hi Hk. pose proof (entry_typed_of _ _ _ Ht Hi) as T.
    unfold entry_typed in T. rewrite Hk in T. apply andb_true_iff in T. destruct T as [T1 T2].
    split.
    - destruct (get st (e_id e)) as [[]|]; try discriminate; auto.
    - apply negb_true_iff, mem_false in T2. exact T2.
  Qed.

  Lemma dir_entry_get : forall t es e,
    get_tree st t = Some es -> In e es -> e_kind e = KDir -> ~ In (e_id e) (sub_ids st).
  Proof.
    intros t es e Ht Hi Hk. pose proof (entry_typed_of _ _ _ Ht Hi) as T.
    unfold entry_typed in T. rewrite Hk in T. apply andb_true_iff in T. destruct T as [_ T2].
    apply negb_true_iff, mem_false in T2. exact T2.
  Qed.

  Lemma sub_entry_not_tree : forall t es e,
    get_tree st t = Some es -> In e es -> e_kind e = KSub -> get_tree st (e_id e) = None.
  Proof.
    intros t es e Ht Hi Hk. pose proof (entry_typed_of _ _ _ Ht Hi) as T.
    unfold entry_typed in T. rewrite Hk in T. unfold get_tree.
    destruct (get st (e_id e)) as [[]|]; try reflexivity; discriminate.
  Qed.

  Lemma file_entry_leaf : forall t es e x,
    get_tree st t = Some es -> In e es -> e_kind e = KFile -> child st sh (e_id e) x -> False.
  Proof.
    intros t es e x Ht Hi Hk Hc. destruct (file_entry_get _ _ _ Ht Hi Hk) as [[T|T] _];
    inversion Hc; subst; match goal with H : get st (e_id e) = _ |- _ => rewrite H in T end; discriminate.
  Qed.

  Lemma file_entry_reach : forall t es e x,
    get_tree st t = Some es -> In e es -> e_kind e = KFile -> reach st sh (e_id e) x -> x = e_id e.
  Proof.
    intros t es e x Ht Hi Hk Hr. inversion Hr; subst; [reflexivity|].
    exfalso; eapply file_entry_leaf; eauto.
  Qed.

  Lemma file_entry_not_tree : forall t es e,
    get_tree st t = Some es -> In e es -> e_kind e = KFile -> get_tree st (e_id e) = None.
  Proof.
    intros t es e Ht Hi Hk. destruct (file_entry_get _ _ _ Ht Hi Hk) as [[T|T] _]; unfold get_tree; now rewrite T.
  Qed.

  Lemma file_entry_not_commit : forall t es e,
    get_tree st t = Some es -> In e es -> e_kind e = KFile -> get_commit st (e_id e) = None.
  Proof.
    intros t es e Ht Hi Hk. destruct (file_entry_get _ _ _ Ht Hi Hk) as [[T|T] _]; unfold get_commit; now rewrite T.
  Qed.

  (* the children of a tree object are exactly its non-gitlink entries *)
  Lemma tree_children : forall t es x,
    get_tree st t = Some es -> child st sh t x -> exists e, In e es /\ e_kind e <> KSub /\ x = e_id e.
  Proof.
    intros t es x Ht Hc. apply get_tree_get in Ht.
    inversion Hc; subst; match goal with H : get st t = _ |- _ => rewrite Ht in H; inversion H; subst end.
    eauto.
  Qed.

  (* what lies below a tree is a tree, a blob, or not stored *)
  Lemma below_tree_kind : forall a b, reach st sh a b -> forall es, get_tree st a = Some es ->
    get_commit st b = None /\ (forall tg, get st b <> Some (Tag tg)).
  Proof.
    induction 1 as [a|a b c Hc Hr IH]; intros es Ha.
    - apply get_tree_get in Ha. unfold get_commit. rewrite Ha. split; [reflexivity | congruence].
    - destruct (tree_children _ _ _ Ha Hc) as (e & Hi & Hk & ->).
      destruct (e_kind e) eqn:K; [| |congruence].
      + destruct (get_tree st (e_id e)) as [es1|] eqn:T1; [eapply IH; eauto|].
        pose proof (entry_typed_of _ _ _ Ha Hi) as Ty. unfold entry_typed in Ty. rewrite K in Ty.
        apply andb_true_iff in Ty. destruct Ty as [Ty _].
        assert (Hn : get st (e_id e) = None).
        { unfold get_tree in T1. destruct (get st (e_id e)) as [[]|]; try discriminate; reflexivity. }
        inversion Hr; subst.
        * unfold get_commit. rewrite Hn. split; [reflexivity | congruence].
        * exfalso. inversion H; subst; congruence.
      + rewrite (file_entry_reach _ _ _ _ Ha Hi K Hr).
        destruct (file_entry_get _ _ _ Ha Hi K) as [[X|X] _]; unfold get_commit; rewrite X; split; congruence.
  Qed.

  (* ---------------- markTreeSeen ---------------- *)
  Definition mark_post (root : oid) (seen seen' : list oid) : Prop :=
    incl seen seen' /\ forall x, In x seen' -> In x seen \/ reach st sh root x.

  Lemma mark_entries_spec : forall rec root es seen seen',
    (forall h es0 sn sn', rec h es0 sn = Some sn' -> get_tree st h = Some es0 -> mark_post h sn sn') ->
    (forall e, In e es -> e_kind e <> KSub -> reach st sh root (e_id e)) ->
    mark_entries rec st es seen = Some seen' -> mark_post root seen seen'.
  Proof.
    intros rec root es. induction es as [|e es IH]; intros seen seen' Hrec Hes H; cbn [mark_entries] in H.
    - inversion H; subst. split; [apply incl_refl | auto].
    - assert (Hes' : forall e0, In e0 es -> e_kind e0 <> KSub -> reach st sh root (e_id e0))
        by (intros; apply Hes; [now right | assumption]).
      destruct (e_kind e) eqn:K.
      + (* KDir *)
        destruct (mem (e_id e) seen) eqn:M; [now apply IH|].
        destruct (get_tree st (e_id e)) as [es'|] eqn:G; [|now apply IH].
        destruct (rec (e_id e) es' seen) as [sn|] eqn:R; [|discriminate].
        destruct (Hrec _ _ _ _ R G) as [A B].
        destruct (IH _ _ Hrec Hes' H) as [C D]. split; [eapply incl_tran; eauto|].
        intros x Hx. destruct (D x Hx) as [Hx'|Hx']; [|now right].
        destruct (B x Hx') as [|Hr]; [now left|]. right.
        eapply reach_trans; [apply Hes; [now left | rewrite K; discriminate] | exact Hr].
      + (* KFile *)
        destruct (mem (e_id e) seen) eqn:M; [now apply IH|].
        destruct (IH _ _ Hrec Hes' H) as [C D]. split.
        * eapply incl_tran; [|exact C]. apply incl_tl, incl_refl.
        * intros x Hx. destruct (D x Hx) as [[<-|Hx']|Hx']; [|now left|now right].
          right. apply Hes; [now left | rewrite K; discriminate].
      + now apply IH.
  Qed.

  Lemma mark_tree_spec : forall fuel th es seen seen',
    mark_tree fuel st th es seen = Some seen' -> get_tree st th = Some es -> mark_post th seen seen'.
  Proof.
    induction fuel as [|f IH]; intros th es seen seen' H Ht; cbn [mark_tree] in H; [discriminate|].
    destruct (mem th seen) eqn:M.
    - inversion H; subst. split; [apply incl_refl | auto].
    - apply mark_entries_spec with (root := th) in H.
      + destruct H as [A B]. split.
        * eapply incl_tran; [|exact A]. apply incl_tl, incl_refl.
        * intros x Hx. destruct (B x Hx) as [[<-|Hx']|Hx']; [right; constructor | now left | now right].
      + intros h es0 sn sn' R G. eapply IH; eauto.
      + intros e Hi Hk. apply reach_child. eapply entry_child; eauto.
  Qed.

  (* ---------------- collectAllTreeObjects ---------------- *)
  (* one-step closure of the trees in the result, except the ones in G (being expanded) *)
  Definition I2 (G : list oid) (s : wstate) : Prop :=
    forall t es e, In t (snd s) -> ~ In t G -> get_tree st t = Some es -> In e es -> e_kind e <> KSub ->
                   In (e_id e) (snd s) \/ Had (e_id e).

  Record all_post (root : oid) (s s' : wstate) : Prop := {
    ap_mono : mono s s';
    ap_from : from root s s';
    ap_I1 : I1 s -> I1 s';
    ap_I2 : forall G, I1 s -> I2 G s -> I2 G s';
    ap_nd : RS s -> NoDup (snd s) -> RS s' /\ NoDup (snd s');
    ap_nc : forall x, In x (snd s') -> In x (snd s) \/ get_commit st x = None }.

  Lemma all_post_refl : forall root s, all_post root s s.
  Proof.
    intros; constructor; auto using mono_refl.
    - intros x Hx; now left.
  Qed.

  Lemma all_post_trans : forall root a b c, all_post root a b -> all_post root b c -> all_post root a c.
  Proof.
    intros root a b c [m1 f1 i1 j1 n1 c1] [m2 f2 i2 j2 n2 c2]. constructor.
    - eapply mono_trans; eauto.
    - intros x Hx. destruct (f2 x Hx) as [Hx'|]; [|now right]. apply f1, Hx'.
    - auto.
    - intros G HI1 HI2. apply j2; auto.
    - intros R N. destruct (n1 R N). auto.
    - intros x Hx. destruct (c2 x Hx) as [Hx'|]; [|now right]. apply c1, Hx'.
  Qed.

  (* widening the root: anything below a child of root is below root *)
  Lemma all_post_root : forall root h s s',
    reach st sh root h -> all_post h s s' -> all_post root s s'.
  Proof.
    intros root h s s' Hr [m f i j n c]. constructor; auto.
    intros x Hx. destruct (f x Hx); [now left | right; eapply reach_trans; eauto].
  Qed.

  Lemma I2_emit_leaf : forall G h s, get_tree st h = None -> I2 G s -> I2 G (emit h s).
  Proof.
    intros G h s Hn H t es e Ht HG Hg Hi Hk. cbn in Ht. destruct Ht as [<-|Ht]; [congruence|].
    destruct (H t es e Ht HG Hg Hi Hk); [left; cbn; now right | now right].
  Qed.

  Lemma emit_leaf_post : forall root h s,
    mem h (fst s) = false -> get_tree st h = None -> get_commit st h = None ->
    reach st sh root h -> all_post root s (emit h s).
  Proof.
    intros root h s M Hn Hc Hr. constructor.
    - apply mono_emit.
    - intros x [<-|Hx]; [now right | now left].
    - intros H x [<-|Hx]; [left; cbn; now left|]. destruct (H x Hx); [left; cbn; now right | now right].
    - intros G _ H. now apply I2_emit_leaf.
    - intros R N. split.
      + intros x [<-|Hx]; [cbn; now left | cbn; right; now apply R].
      + cbn. constructor; [|assumption]. intro Hin. apply R in Hin. apply mem_false in M. contradiction.
    - intros x [<-|Hx]; [now right | now left].
  Qed.

  Lemma all_entries_spec : forall rec root res es s s',
    get_tree st root = Some res -> incl es res ->
    (forall h es0 a b, rec h es0 a = Ok b -> get_tree st h = Some es0 -> all_post h a b /\ In h (fst b)) ->
    all_entries rec st es s = Ok s' ->
    all_post root s s' /\ (forall e, In e es -> e_kind e <> KSub -> In (e_id e) (fst s')).
  Proof.
    intros rec root res es. induction es as [|e es IH]; intros s s' Hroot Hincl Hrec H; cbn [all_entries] in H.
    - inversion H; subst. split; [apply all_post_refl | intros e []].
    - assert (Hin : In e res) by (apply Hincl; now left).
      assert (Hincl' : incl es res) by (intros x Hx; apply Hincl; now right).
      assert (Hre : e_kind e <> KSub -> reach st sh root (e_id e))
        by (intro; apply reach_child; eapply entry_child; eauto).
      destruct (e_kind e) eqn:K.
      + (* KDir *)
        destruct (mem (e_id e) (fst s)) eqn:M.
        * destruct (IH _ _ Hroot Hincl' Hrec H) as [P Q]. split; [exact P|].
          intros e0 [<-|Hi] Hk; [|now apply Q]. apply mem_In in M. destruct P as [[A _] _ _ _ _ _]. now apply A.
        * destruct (get_tree st (e_id e)) as [es'|] eqn:G; [|discriminate].
          destruct (rec (e_id e) es' s) as [s1|] eqn:R; [|discriminate].
          destruct (Hrec _ _ _ _ R G) as [P1 S1].
          destruct (IH _ _ Hroot Hincl' Hrec H) as [P Q]. split.
          -- eapply all_post_trans; [|exact P]. eapply all_post_root; [|exact P1]. apply Hre. discriminate.
          -- intros e0 [<-|Hi] Hk; [|now apply Q]. destruct P as [[A _] _ _ _ _ _]. now apply A.
      + (* KFile *)
        destruct (mem (e_id e) (fst s)) eqn:M.
        * destruct (IH _ _ Hroot Hincl' Hrec H) as [P Q]. split; [exact P|].
          intros e0 [<-|Hi] Hk; [|now apply Q]. apply mem_In in M. destruct P as [[A _] _ _ _ _ _]. now apply A.
        * destruct (IH _ _ Hroot Hincl' Hrec H) as [P Q]. split.
          -- eapply all_post_trans; [|exact P]. apply emit_leaf_post; auto.
             ++ eapply file_entry_not_tree; eauto.
             ++ eapply file_entry_not_commit; eauto.
             ++ apply Hre. discriminate.
          -- intros e0 [<-|Hi] Hk; [|now apply Q]. destruct P as [[A _] _ _ _ _ _]. apply A. cbn. now left.
      + (* KSub *)
        destruct (IH _ _ Hroot Hincl' Hrec H) as [P Q]. split; [exact P|].
        intros e0 [<-|Hi] Hk; [congruence | now apply Q].
  Qed.

  Lemma collect_all_spec : forall fuel th es s s',
    collect_all fuel st th es s = Ok s' -> get_tree st th = Some es ->
    all_post th s s' /\ In th (fst s').
  Proof.
    induction fuel as [|f IH]; intros th es s s' H Ht; cbn [collect_all] in H; [discriminate|].
    destruct (mem th (fst s)) eqn:M.
    - inversion H; subst. split; [apply all_post_refl | now apply mem_In].
    - assert (Hrec : forall h es0 a b, collect_all f st h es0 a = Ok b -> get_tree st h = Some es0 ->
                                       all_post h a b /\ In h (fst b))
        by (intros h es0 a b R G; eapply IH; eauto).
      destruct (all_entries_spec (collect_all f st) th es es (emit th s) s' Ht (incl_refl _) Hrec H) as [P Q].
      destruct P as [m fr i1 i2 nd nc].
      assert (Hth : In th (fst s')) by (destruct m as [A _]; apply A; cbn; now left).
      split; [|exact Hth]. constructor.
      + eapply mono_trans; [apply mono_emit | exact m].
      + intros x Hx. destruct (fr x Hx) as [[<-|Hx']|Hx']; [right; constructor | now left | now right].
      + intros H1. apply i1. intros x [<-|Hx]; [left; cbn; now left|].
        destruct (H1 x Hx); [left; cbn; now right | now right].
      + intros G H1 H2.
        assert (H1e : I1 (emit th s)).
        { intros x [<-|Hx]; [left; cbn; now left|]. destruct (H1 x Hx); [left; cbn; now right | now right]. }
        assert (H2e : I2 (th :: G) (emit th s)).
        { intros t es0 e Hti HG Hg Hi Hk. cbn in Hti. destruct Hti as [<-|Hti]; [exfalso; apply HG; now left|].
          destruct (H2 t es0 e Hti) as [|]; auto; [intro; apply HG; now right | left; cbn; now right]. }
        pose proof (i2 _ H1e H2e) as H2'. pose proof (i1 H1e) as H1'.
        intros t es0 e Hti HG Hg Hi Hk.
        destruct (N.eq_dec t th) as [->|Hne].
        * rewrite Ht in Hg. inversion Hg; subst es0. apply H1'. now apply Q.
        * apply (H2' t es0 e); auto. intros [E|E]; [congruence | contradiction].
      + intros R N. apply nd.
        * intros x [<-|Hx]; [cbn; now left | cbn; right; now apply R].
        * cbn. constructor; [|assumption]. intro Hin. apply R in Hin. apply mem_false in M. contradiction.
      + intros x Hx. destruct (nc x Hx) as [[<-|Hx']|Hx']; [|now left|now right].
        right. unfold get_commit. apply get_tree_get in Ht. now rewrite Ht.
  Qed.

  (* ---------------- collectChangedTreeObjects ---------------- *)
  Definition olds_ok (olds : list (oid * list entry)) : Prop :=
    forall old, In old olds -> get_tree st (fst old) = Some (snd old).
  Definition below_old (olds : list (oid * list entry)) (o : oid) : Prop :=
    exists old, In old olds /\ reach st sh (fst old) o.

  Record ch_post (root : oid) (s s' : wstate) : Prop := {
    cp_mono : mono s s';
    cp_from : from root s s';
    cp_I1 : I1 s -> I1 s';
    cp_nd : RS s -> NoDup (snd s) -> RS s' /\ NoDup (snd s');
    cp_nc : forall x, In x (snd s') -> In x (snd s) \/ get_commit st x = None }.

  Definition covered (olds : list (oid * list entry)) (s' : wstate) (o : oid) : Prop :=
    In o (snd s') \/ Had o \/ below_old olds o.

  Lemma ch_post_refl : forall root s, ch_post root s s.
  Proof. intros; constructor; auto using mono_refl; intros x Hx; now left. Qed.

  Lemma ch_post_trans : forall root a b c, ch_post root a b -> ch_post root b c -> ch_post root a c.
  Proof.
    intros root a b c [m1 f1 i1 n1 c1] [m2 f2 i2 n2 c2]. constructor.
    - eapply mono_trans; eauto.
    - intros x Hx. destruct (f2 x Hx) as [Hx'|]; [|now right]. apply f1, Hx'.
    - auto.
    - intros R N. destruct (n1 R N). auto.
    - intros x Hx. destruct (c2 x Hx) as [Hx'|]; [|now right]. apply c1, Hx'.
  Qed.

  Lemma ch_post_root : forall root h s s', reach st sh root h -> ch_post h s s' -> ch_post root s s'.
  Proof.
    intros root h s s' Hr [m f i n c]. constructor; auto.
    intros x Hx. destruct (f x Hx); [now left | right; eapply reach_trans; eauto].
  Qed.

  Lemma all_post_ch : forall root s s', all_post root s s' -> ch_post root s s'.
  Proof. intros root s s' [m f i j n c]. constructor; auto. Qed.

  Lemma covered_mono : forall olds s s' o, mono s s' -> covered olds s o -> covered olds s' o.
  Proof. intros olds s s' o [_ B] [H|H]; [left; now apply B | now right]. Qed.

  Lemma lookup_last_In : forall n es h,
    lookup_last n es = Some h -> exists e, In e es /\ e_id e = h.
  Proof.
    induction es as [|e es IH]; intros h H; cbn [lookup_last] in H; [discriminate|].
    destruct (lookup_last n es) as [h'|] eqn:L.
    - inversion H; subst. destruct (IH _ eq_refl) as (e' & A & B). exists e'. split; [now right | assumption].
    - destruct (e_name e =? n); [|discriminate]. inversion H; subst. exists e. split; [now left | reflexivity].
  Qed.

  (* an entry found in an old tree under the same name with the id of a
     non-gitlink entry is itself not a gitlink: its object is below the old tree *)
  Lemma old_entry_reach : forall old n h,
    get_tree st (fst old) = Some (snd old) -> lookup_last n (snd old) = Some h ->
    ~ In h (sub_ids st) -> reach st sh (fst old) h.
  Proof.
    intros old n h Ho L Hs. destruct (lookup_last_In _ _ _ L) as (e' & Hi & <-).
    apply reach_child. eapply entry_child; eauto.
    intro K. apply Hs. eapply sub_ids_In; eauto.
  Qed.

  Lemma unchanged_below : forall e olds,
    olds_ok olds -> unchanged_in e olds = true -> ~ In (e_id e) (sub_ids st) -> below_old olds (e_id e).
  Proof.
    intros e olds Hok H Hs. unfold unchanged_in in H. apply existsb_exists in H.
    destruct H as (old & Hin & H). destruct (lookup_last (e_name e) (snd old)) as [h|] eqn:L; [|discriminate].
    apply N.eqb_eq in H. subst h. exists old. split; [assumption|].
    eapply old_entry_reach; eauto.
  Qed.

  Lemma old_subs_ok : forall n olds, olds_ok olds -> olds_ok (old_subs st n olds).
  Proof.
    induction olds as [|o olds IH]; intros Hok; cbn [old_subs]; [intros x []|].
    assert (Hok' : olds_ok olds) by (intros x Hx; apply Hok; now right).
    destruct (lookup_last n (snd o)) as [h|]; [|now apply IH].
    destruct (get_tree st h) as [es|] eqn:G; [|now apply IH].
    intros x [<-|Hx]; [exact G | now apply IH].
  Qed.

  Lemma old_subs_below : forall n olds o,
    olds_ok olds -> below_old (old_subs st n olds) o -> below_old olds o.
  Proof.
    induction olds as [|old olds IH]; intros o Hok H; cbn [old_subs] in H; [destruct H as (x & [] & _)|].
    assert (Hok' : olds_ok olds) by (intros x Hx; apply Hok; now right).
    assert (Hrec : below_old (old_subs st n olds) o -> below_old (old :: olds) o).
    { intro B. destruct (IH _ Hok' B) as (x & Hx & Hr). exists x. split; [now right | assumption]. }
    destruct (lookup_last n (snd old)) as [h|] eqn:L; [|now apply Hrec].
    destruct (get_tree st h) as [es|] eqn:G; [|now apply Hrec].
    destruct H as (x & [<-|Hx] & Hr).
    - cbn in Hr. exists old. split; [now left|].
      eapply reach_trans; [|exact Hr].
      destruct (lookup_last_In _ _ _ L) as (e' & Hi & <-).
      apply reach_child. eapply entry_child; [apply Hok; now left | exact Hi |].
      intro K. pose proof (sub_entry_not_tree _ _ _ (Hok old (or_introl eq_refl)) Hi K) as T. congruence.
    - apply Hrec. exists x. split; assumption.
  Qed.

  Lemma changed_entries_spec : forall rec root res olds es s s',
    get_tree st root = Some res -> incl es res -> olds_ok olds ->
    (forall h es0 olds0 a b, rec h es0 olds0 a = Ok b -> get_tree st h = Some es0 -> olds_ok olds0 ->
        ch_post h a b /\ (I1 a -> forall o, reach st sh h o -> covered olds0 b o)) ->
    changed_entries rec st olds es s = Ok s' ->
    ch_post root s s' /\
    (I1 s -> forall e, In e es -> e_kind e <> KSub -> forall o, reach st sh (e_id e) o -> covered olds s' o).
  Proof.
    intros rec root res olds es. induction es as [|e es IH]; intros s s' Hroot Hincl Hok Hrec H; cbn [changed_entries] in H.
    - inversion H; subst. split; [apply ch_post_refl | intros _ e []].
    - assert (Hin : In e res) by (apply Hincl; now left).
      assert (Hincl' : incl es res) by (intros x Hx; apply Hincl; now right).
      assert (Hre : e_kind e <> KSub -> reach st sh root (e_id e))
        by (intro; apply reach_child; eapply entry_child; eauto).
      destruct (e_kind e) eqn:K.
      + (* KDir *)
        destruct (unchanged_in e olds) eqn:U.
        * destruct (IH _ _ Hroot Hincl' Hok Hrec H) as [P Q]. split; [exact P|].
          intros HI e0 [<-|Hi] Hk o Ho; [|now apply (Q HI e0)].
          right; right. destruct (unchanged_below e olds Hok U) as (old & Hin' & Hr).
          { eapply dir_entry_get; eauto. }
          exists old. split; [assumption | eapply reach_trans; eauto].
        * destruct (get_tree st (e_id e)) as [es'|] eqn:G; [|discriminate].
          destruct (rec (e_id e) es' (old_subs st (e_name e) olds) s) as [s1|] eqn:R; [|discriminate].
          destruct (Hrec _ _ _ _ _ R G (old_subs_ok _ _ Hok)) as [P1 C1].
          destruct (IH _ _ Hroot Hincl' Hok Hrec H) as [P Q]. split.
          -- eapply ch_post_trans; [|exact P]. eapply ch_post_root; [|exact P1]. apply Hre; discriminate.
          -- intros HI e0 [<-|Hi] Hk o Ho.
             ++ eapply covered_mono; [apply (cp_mono _ _ _ P)|].
                destruct (C1 HI o Ho) as [A|[A|A]]; [now left | right; now left | right; right].
                eapply old_subs_below; eauto.
             ++ apply (Q (cp_I1 _ _ _ P1 HI) e0); auto.
      + (* KFile *)
        destruct (mem (e_id e) (fst s)) eqn:M.
        * destruct (IH _ _ Hroot Hincl' Hok Hrec H) as [P Q]. split; [exact P|].
          intros HI e0 [<-|Hi] Hk o Ho; [|now apply (Q HI e0)].
          rewrite (file_entry_reach _ _ _ _ Hroot Hin K Ho).
          eapply covered_mono; [apply (cp_mono _ _ _ P)|]. apply mem_In in M.
          destruct (HI _ M); [now left | right; now left].
        * destruct (unchanged_in e olds) eqn:U.
          -- destruct (IH _ _ Hroot Hincl' Hok Hrec H) as [P Q]. split; [exact P|].
             intros HI e0 [<-|Hi] Hk o Ho; [|now apply (Q HI e0)].
             rewrite (file_entry_reach _ _ _ _ Hroot Hin K Ho). right; right.
             apply unchanged_below; auto. apply (file_entry_get _ _ _ Hroot Hin K).
          -- destruct (IH _ _ Hroot Hincl' Hok Hrec H) as [P Q].
             assert (PE : ch_post root s (emit (e_id e) s)).
             { apply all_post_ch, emit_leaf_post; auto.
               - eapply file_entry_not_tree; eauto.
               - eapply file_entry_not_commit; eauto.
               - apply Hre; discriminate. }
             split; [eapply ch_post_trans; eauto|].
             intros HI e0 [<-|Hi] Hk o Ho.
             ++ rewrite (file_entry_reach _ _ _ _ Hroot Hin K Ho). left.
                apply (cp_mono _ _ _ P). cbn. now left.
             ++ apply (Q (cp_I1 _ _ _ PE HI) e0); auto.
      + (* KSub *)
        destruct (IH _ _ Hroot Hincl' Hok Hrec H) as [P Q]. split; [exact P|].
        intros HI e0 [<-|Hi] Hk o Ho; [congruence | now apply (Q HI e0)].
  Qed.

  Lemma collect_changed_spec : forall fuel nh nes olds s s',
    collect_changed fuel st nh nes olds s = Ok s' -> get_tree st nh = Some nes -> olds_ok olds ->
    ch_post nh s s' /\ (I1 s -> forall o, reach st sh nh o -> covered olds s' o).
  Proof.
    induction fuel as [|f IH]; intros nh nes olds s s' H Ht Hok; cbn [collect_changed] in H; [discriminate|].
    destruct (existsb (fun o => fst o =? nh) olds) eqn:E.
    - inversion H; subst. split; [apply ch_post_refl|].
      intros _ o Ho. right; right. apply existsb_exists in E. destruct E as (old & Hin & E).
      apply N.eqb_eq in E. exists old. split; [assumption | subst nh; exact Ho].
    - set (s1 := if mem nh (fst s) then s else emit nh s) in *.
      assert (P1 : ch_post nh s s1).
      { unfold s1. destruct (mem nh (fst s)) eqn:M; [apply ch_post_refl|]. constructor.
        - apply mono_emit.
        - intros x [<-|Hx]; [right; constructor | now left].
        - intros HI x [<-|Hx]; [left; cbn; now left|]. destruct (HI x Hx); [left; cbn; now right | now right].
        - intros R N. split.
          + intros x [<-|Hx]; [cbn; now left | cbn; right; now apply R].
          + cbn. constructor; [|assumption]. intro Hin. apply R in Hin. apply mem_false in M. contradiction.
        - intros x [<-|Hx]; [|now left]. right. unfold get_commit. apply get_tree_get in Ht. now rewrite Ht. }
      assert (Hnh : I1 s -> In nh (snd s1) \/ Had nh).
      { intro HI. unfold s1. destruct (mem nh (fst s)) eqn:M; [apply HI; now apply mem_In | left; cbn; now left]. }
      assert (Hrec : forall h es0 olds0 a b, collect_changed f st h es0 olds0 a = Ok b ->
                 get_tree st h = Some es0 -> olds_ok olds0 ->
                 ch_post h a b /\ (I1 a -> forall o, reach st sh h o -> covered olds0 b o))
        by (intros; eapply IH; eauto).
      destruct (changed_entries_spec _ nh nes olds nes s1 s' Ht (incl_refl _) Hok Hrec H) as [P Q].
      split; [eapply ch_post_trans; eauto|].
      intros HI o Ho. inversion Ho; subst.
      + eapply covered_mono; [apply (cp_mono _ _ _ P)|]. destruct (Hnh HI); [now left | right; now left].
      + destruct (tree_children _ _ _ Ht H0) as (e & Hi & Hk & ->).
        apply (Q (cp_I1 _ _ _ P1 HI) e Hi Hk o H1).
  Qed.
End Trees.
