(* Proofs/C53Lines.v — C53 for the line-oriented object scanners (Model/ObjLines.v)
   and Signature.Decode (Model/Ident.v).  These models are structural (no fuel):
   totality is by construction.  Proved for EVERY byte string:
     total   split_lines partitions its input (concat = input), every line is
             non-empty, so there are at most |input| lines;
     no_oob  bytes.IndexByte / LastIndexByte answer positions inside the buffer
             that hold the byte; in Signature.Decode the three slices
             b[:open], b[open+1:close], b[close+2:] and the time-zone window
             are in range on the paths that take them;
     alloc   name and e-mail of a decoded signature are no longer than the line. *)
From Coq Require Import List NArith ZArith Bool Lia Arith.
From GoGit Require Import Base.Out Model.ObjLines Model.Ident.
Import ListNotations.
Local Open Scope N_scope.

(* ---------------------------------------------------------------- lines *)
Lemma split_lines_concat : forall b, concat (split_lines b) = b.
Proof.
  induction b as [|c r IH]; [reflexivity|]. cbn [split_lines]. destruct (c =? LF).
  - cbn [concat app]. now rewrite IH.
  - destruct (split_lines r) as [|l ls]; cbn [concat app] in *; [now rewrite <- IH|]. now rewrite IH.
Qed.

Lemma split_lines_nonempty : forall b, Forall (fun l => l <> []) (split_lines b).
Proof.
  induction b as [|c r IH]; [constructor|]. cbn [split_lines]. destruct (c =? LF).
  - constructor; [discriminate|exact IH].
  - destruct (split_lines r) as [|l ls]; [repeat constructor; discriminate|].
    inversion IH; subst. constructor; [discriminate|assumption].
Qed.

Lemma concat_length_ge (ls : list bytes) : Forall (fun l => l <> []) ls -> (List.length ls <= List.length (concat ls))%nat.
Proof.
  induction 1 as [|l ls Hl _ IH]; [cbn; lia|]. cbn [concat List.length]. rewrite app_length.
  destruct l; [congruence|]. cbn [List.length]. lia.
Qed.

Theorem split_lines_count b : (List.length (split_lines b) <= List.length b)%nat.
Proof.
  pose proof (concat_length_ge _ (split_lines_nonempty b)) as H. now rewrite split_lines_concat in H.
Qed.

(* ---------------------------------------------------------------- byte searches *)
Lemma index_of_spec c : forall b i, index_of c b = Some i -> (i < List.length b)%nat /\ nth i b 0 = c.
Proof.
  induction b as [|x r IH]; intros i E; cbn [index_of] in E; [discriminate|].
  destruct (N.eqb_spec x c).
  - injection E as <-. cbn. split; [lia|assumption].
  - destruct (index_of c r) as [j|]; [|discriminate]. injection E as <-.
    destruct (IH _ eq_refl) as [A B]. cbn [List.length nth]. split; [lia|exact B].
Qed.

Lemma last_index_of_spec c : forall b i, last_index_of c b = Some i -> (i < List.length b)%nat /\ nth i b 0 = c.
Proof.
  induction b as [|x r IH]; intros i E; cbn [last_index_of] in E; [discriminate|].
  destruct (last_index_of c r) as [j|].
  - injection E as <-. destruct (IH _ eq_refl) as [A B]. cbn [List.length nth]. split; [lia|exact B].
  - destruct (N.eqb_spec x c); [|discriminate]. injection E as <-. cbn. split; [lia|assumption].
Qed.

(* ---------------------------------------------------------------- Signature.Decode *)
(* when both brackets are found in order, open < close < |b|: b[:open] and b[open+1:close] are in range *)
Theorem decode_ident_brackets b op cl :
  last_index_of LT b = Some op -> last_index_of GT b = Some cl -> Nat.ltb cl op = false ->
  (S op <= cl)%nat /\ (cl < List.length b)%nat.
Proof.
  intros Ho Hc Hlt. apply last_index_of_spec in Ho, Hc. destruct Ho as [Ho1 Ho2], Hc as [Hc1 Hc2].
  apply Nat.ltb_ge in Hlt. split; [|exact Hc1].
  destruct (Nat.eq_dec op cl) as [->|]; [|lia]. rewrite Ho2 in Hc2. discriminate.
Qed.

(* the timestamp / zone tail b[close+2:] is only taken when close+2 < |b|, and the
   5-byte zone window only when it fits *)
Theorem decode_time_window (b : bytes) :
  let space := match index_of SPC b with Some i => i | None => List.length b end in
  (space <= List.length b)%nat /\
  (Nat.leb (List.length b) (S space) || Nat.ltb (List.length b) (S space + 5) = false ->
   List.length (slice (S space) (S space + 5) b) = 5%nat).
Proof.
  cbv zeta. split.
  - destruct (index_of SPC b) eqn:E; [apply index_of_spec in E; lia|lia].
  - intros G. apply orb_false_iff in G as [_ G]. apply Nat.ltb_ge in G.
    unfold slice. rewrite firstn_length, skipn_length. lia.
Qed.

Lemma trim_left_len c : forall b, (List.length (trim_left c b) <= List.length b)%nat.
Proof. induction b as [|x r IH]; cbn [trim_left]; [lia|]. destruct (x =? c); cbn [List.length] in *; lia. Qed.

Lemma trim_right_len c : forall b, (List.length (trim_right c b) <= List.length b)%nat.
Proof.
  induction b as [|x r IH]; cbn [trim_right]; [lia|].
  destruct (trim_right c r) as [|y t]; [destruct (x =? c); cbn [List.length]; lia|]. cbn [List.length] in *. lia.
Qed.

Lemma decode_time_fields nm em b : id_name (decode_time nm em b) = nm /\ id_email (decode_time nm em b) = em.
Proof.
  unfold decode_time. cbv zeta. destruct (parse_int64 _); [|split; reflexivity].
  destruct (_ || _)%bool; [split; reflexivity|].
  destruct (parse_int64 (firstn 3 _)); [|split; reflexivity]. destruct (parse_int64 (skipn 3 _)); split; reflexivity.
Qed.

Theorem decode_ident_alloc b :
  (List.length (id_name (decode_ident b)) <= List.length b)%nat /\
  (List.length (id_email (decode_ident b)) <= List.length b)%nat.
Proof.
  unfold decode_ident. destruct (last_index_of LT b) as [op|]; [|cbn; lia].
  destruct (last_index_of GT b) as [cl|]; [|cbn; lia]. destruct (Nat.ltb cl op); [cbn; lia|]. cbv zeta.
  assert (A : (List.length (trim_both SPC (firstn op b)) <= List.length b)%nat).
  { unfold trim_both. pose proof (trim_left_len SPC (trim_right SPC (firstn op b))).
    pose proof (trim_right_len SPC (firstn op b)). rewrite firstn_length in *. lia. }
  assert (B : (List.length (slice (S op) cl b) <= List.length b)%nat).
  { unfold slice. rewrite firstn_length, skipn_length. lia. }
  destruct (Nat.ltb (cl + 2) (List.length b)).
  - destruct (decode_time_fields (trim_both SPC (firstn op b)) (slice (S op) cl b) (skipn (cl + 2) b)) as [-> ->]. split; assumption.
  - cbn [id_name id_email]. split; assumption.
Qed.
