(* Proofs/C01.v — lemmas for C01 (object IDs and loose objects). *)
From Coq Require Import List NArith ZArith Bool Arith Lia ZifyBool ZifyNat ZifyN.
From GoGit Require Import Base.Out Spec.SHA Gen.C01 Model.ObjFile Spec.LooseGit Proofs.SHA.
Import ListNotations.
Local Open Scope N_scope.

(* ------------------------------------------------------------------ *)
(* decimal printing and parsing                                         *)

Lemma digits_fuel_S f n acc :
  digits_fuel (S f) n acc =
  if n / 10 =? 0 then (48 + n mod 10) :: acc else digits_fuel f (n / 10) ((48 + n mod 10) :: acc).
Proof. reflexivity. Qed.

Lemma digits_fuel_app : forall f n acc, digits_fuel f n acc = digits_fuel f n [] ++ acc.
Proof.
  induction f as [|f IH]; intros n acc; cbn [digits_fuel]; [reflexivity|].
  destruct (n / 10 =? 0); [reflexivity|].
  rewrite (IH (n / 10) ((48 + n mod 10) :: acc)), (IH (n / 10) [48 + n mod 10]).
  now rewrite <- app_assoc.
Qed.

Lemma parse_digits_app : forall a b acc,
  parse_digits (a ++ b) acc =
  match parse_digits a acc with Some v => parse_digits b v | None => None end.
Proof.
  induction a as [|c a IH]; intros b acc; cbn [app parse_digits]; [reflexivity|].
  destruct (is_digit c); [apply IH | reflexivity].
Qed.

Lemma digit_is_digit d : d < 10 -> is_digit (48 + d) = true.
Proof. unfold is_digit. lia. Qed.

Lemma div10_lt_pow2 n k : n < 2 ^ (N.succ k) -> n / 10 < 2 ^ k.
Proof.
  intros Hn. rewrite N.pow_succ_r' in Hn.
  apply N.div_lt_upper_bound; lia.
Qed.

Lemma parse_print_fuel : forall f n,
  n < 2 ^ N.of_nat (S f) -> parse_digits (digits_fuel (S f) n []) 0 = Some n.
Proof.
  induction f as [|f IH]; intros n Hn.
  - cbn [digits_fuel]. change (2 ^ N.of_nat 1) with 2 in Hn.
    assert (E : n / 10 = 0) by (apply N.div_small; lia).
    rewrite E. cbn [N.eqb parse_digits].
    assert (Hm : n mod 10 = n) by (apply N.mod_small; lia).
    rewrite Hm, digit_is_digit by lia. f_equal. lia.
  - rewrite digits_fuel_S.
    pose proof (N.mod_lt n 10 ltac:(lia)) as Hm.
    destruct (n / 10 =? 0) eqn:E.
    + cbn [parse_digits]. rewrite digit_is_digit by lia. f_equal.
      apply N.eqb_eq in E. pose proof (N.div_mod n 10 ltac:(lia)). lia.
    + rewrite digits_fuel_app, parse_digits_app.
      rewrite IH.
      * cbn [parse_digits]. rewrite digit_is_digit by lia. f_equal.
        pose proof (N.div_mod n 10 ltac:(lia)). lia.
      * apply div10_lt_pow2. rewrite <- Nat2N.inj_succ. exact Hn.
Qed.

Lemma size_fuel n : n < 2 ^ N.of_nat (S (N.to_nat (N.size n))).
Proof.
  rewrite Nat2N.inj_succ, N2Nat.id. pose proof (N.size_gt n) as H.
  rewrite N.pow_succ_r'. lia.
Qed.

Lemma parse_print n : parse_digits (print_dec n) 0 = Some n.
Proof. unfold print_dec. apply parse_print_fuel, size_fuel. Qed.

(* every printed byte is a digit *)
Lemma digits_fuel_digits : forall f n acc,
  Forall (fun c => is_digit c = true) acc -> Forall (fun c => is_digit c = true) (digits_fuel f n acc).
Proof.
  induction f as [|f IH]; intros n acc Hacc; cbn [digits_fuel]; [assumption|].
  pose proof (N.mod_lt n 10 ltac:(lia)) as Hm.
  assert (Hacc' : Forall (fun c => is_digit c = true) ((48 + n mod 10) :: acc))
    by (constructor; [apply digit_is_digit; lia | assumption]).
  destruct (n / 10 =? 0); [assumption | now apply IH].
Qed.

Lemma print_dec_digits n : Forall (fun c => is_digit c = true) (print_dec n).
Proof. apply digits_fuel_digits. constructor. Qed.

(* the first byte: '0' only for zero *)
Lemma digits_head : forall f n acc,
  0 < n -> n < 2 ^ N.of_nat (S f) ->
  exists d r, digits_fuel (S f) n acc = d :: r /\ 49 <= d /\ d <= 57.
Proof.
  induction f as [|f IH]; intros n acc Hpos Hn.
  - change (2 ^ N.of_nat 1) with 2 in Hn. assert (n = 1) by lia. subst n.
    cbn. eexists _, _. split; [reflexivity|]. lia.
  - rewrite digits_fuel_S.
    pose proof (N.mod_lt n 10 ltac:(lia)) as Hm.
    destruct (n / 10 =? 0) eqn:E.
    + apply N.eqb_eq in E. pose proof (N.div_mod n 10 ltac:(lia)).
      eexists _, _. split; [reflexivity|]. lia.
    + apply N.eqb_neq in E. apply IH; [lia|].
      apply div10_lt_pow2. rewrite <- Nat2N.inj_succ. exact Hn.
Qed.

Lemma print_dec_zero : print_dec 0 = [48].
Proof. reflexivity. Qed.

Lemma print_dec_head n : 0 < n -> exists d r, print_dec n = d :: r /\ 49 <= d /\ d <= 57.
Proof. intros Hn. unfold print_dec. apply digits_head; [assumption | apply size_fuel]. Qed.

(* number of digits *)
Lemma digits_fuel_length : forall f n acc k,
  (1 <= k)%nat -> n < 10 ^ N.of_nat k ->
  (List.length (digits_fuel f n acc) <= List.length acc + k)%nat.
Proof.
  induction f as [|f IH]; intros n acc k Hk Hn; cbn [digits_fuel]; [lia|].
  destruct (n / 10 =? 0) eqn:E; [cbn [List.length]; lia|].
  apply N.eqb_neq in E.
  destruct k as [|[|k]]; [lia| |].
  - change (10 ^ N.of_nat 1) with 10 in Hn. exfalso. apply E. apply N.div_small. exact Hn.
  - specialize (IH (n / 10) ((48 + n mod 10) :: acc) (S k)).
    cbn [List.length] in IH. etransitivity; [apply IH|]; [lia | | lia].
    rewrite Nat2N.inj_succ, N.pow_succ_r' in Hn.
    apply N.div_lt_upper_bound; lia.
Qed.

Lemma print_dec_length n k :
  (1 <= k)%nat -> n < 10 ^ N.of_nat k -> (List.length (print_dec n) <= k)%nat.
Proof. intros Hk Hn. unfold print_dec. now apply (digits_fuel_length _ n [] k). Qed.

Lemma two63_lt : two63 < 10 ^ N.of_nat 19. Proof. vm_compute. reflexivity. Qed.
Lemma two64_lt : two64 < 10 ^ N.of_nat 20. Proof. vm_compute. reflexivity. Qed.

(* print_int on non-negative values *)
Lemma print_int_nonneg z : (0 <= z)%Z -> print_int z = print_dec (Z.to_N z).
Proof. destruct z; [reflexivity | reflexivity | lia]. Qed.

Lemma print_int_of_nat k : print_int (Z.of_nat k) = print_dec (N.of_nat k).
Proof. rewrite print_int_nonneg by lia. f_equal. lia. Qed.

(* ParseInt reads back what FormatInt printed *)
Lemma parse_int64_print n : n < two63 -> parse_int64 (print_dec n) = Some (Z.of_N n).
Proof.
  intros Hn. unfold parse_int64.
  destruct (N.eq_dec n 0) as [->|Hz].
  - reflexivity.
  - destruct (print_dec_head n ltac:(lia)) as (d & r & E & Hlo & Hhi).
    pose proof (parse_print n) as P. rewrite E in *.
    replace (d =? 43) with false by lia. replace (d =? 45) with false by lia.
    rewrite P. replace (two63 <=? n) with false by lia. reflexivity.
Qed.

(* git's canonical-decimal reader agrees with parse_digits below 2^64 *)
Lemma parse_digits_mono : forall l a n, parse_digits l a = Some n -> a <= n.
Proof.
  induction l as [|c l IH]; intros a n Hp; cbn [parse_digits] in Hp.
  - injection Hp as <-. lia.
  - destruct (is_digit c); [|discriminate]. apply IH in Hp. lia.
Qed.

Lemma git_digits_of_parse : forall l a n,
  parse_digits l a = Some n -> n < two64 -> git_digits l a = Some n.
Proof.
  induction l as [|c l IH]; intros a n Hp Hn; cbn [parse_digits git_digits] in *; [assumption|].
  destruct (is_digit c); [|discriminate].
  pose proof (parse_digits_mono _ _ _ Hp) as Hm.
  replace (two64 <=? 10 * a + (c - 48)) with false by lia. now apply IH.
Qed.

Lemma parse_of_git_digits : forall l a n, git_digits l a = Some n -> parse_digits l a = Some n.
Proof.
  induction l as [|c l IH]; intros a n Hg; cbn [parse_digits git_digits] in *; [assumption|].
  destruct (is_digit c); [|discriminate].
  destruct (two64 <=? 10 * a + (c - 48)); [discriminate|]. now apply IH.
Qed.

Lemma git_size_print n : n < two64 -> git_size (print_dec n) = Some n.
Proof.
  intros Hn. destruct (N.eq_dec n 0) as [->|Hz]; [reflexivity|].
  destruct (print_dec_head n ltac:(lia)) as (d & r & E & Hlo & Hhi).
  pose proof (parse_print n) as P. rewrite E in *. unfold git_size.
  assert (Hd : is_digit d = true) by (unfold is_digit; lia).
  rewrite Hd. cbn [negb]. replace (d =? 48) with false by lia.
  cbn [parse_digits] in P. rewrite Hd in P.
  replace (10 * 0 + (d - 48)) with (d - 48) in P by lia.
  now apply git_digits_of_parse.
Qed.

(* ------------------------------------------------------------------ *)
(* scanning to a delimiter                                              *)

Lemma read_until_app : forall pre delim budget r acc,
  Forall (fun c => c <> delim) pre -> (List.length pre < budget)%nat ->
  read_until delim budget (pre ++ delim :: r) acc
  = Ok (rev acc ++ pre, (budget - List.length pre - 1)%nat, r).
Proof.
  induction pre as [|c pre IH]; intros delim budget r acc Hno Hlen.
  - destruct budget as [|b]; [cbn in Hlen; lia|]. cbn [app read_until].
    rewrite N.eqb_refl, app_nil_r. cbn [List.length]. do 3 f_equal. lia.
  - destruct budget as [|b]; [cbn in Hlen; lia|]. cbn [app read_until].
    inversion Hno as [|? ? Hc Hno']; subst.
    apply N.eqb_neq in Hc. rewrite Hc.
    rewrite IH by (try assumption; cbn [List.length] in Hlen; lia).
    cbn [rev List.length]. rewrite <- app_assoc. reflexivity.
Qed.

Lemma read_until_inv : forall l delim budget acc v b r,
  read_until delim budget l acc = Ok (v, b, r) ->
  exists pre, l = pre ++ delim :: r /\ v = rev acc ++ pre /\ Forall (fun c => c <> delim) pre
              /\ (List.length pre < budget)%nat /\ b = (budget - List.length pre - 1)%nat.
Proof.
  induction l as [|c l IH]; intros delim budget acc v b r Hr.
  - destruct budget; discriminate.
  - destruct budget as [|bd]; [discriminate|]. cbn [read_until] in Hr.
    destruct (c =? delim) eqn:E.
    + apply N.eqb_eq in E. subst c. injection Hr as <- <- <-.
      exists []. cbn. rewrite app_nil_r. repeat split; [constructor | lia..].
    + apply IH in Hr. destruct Hr as (pre & -> & -> & Hno & Hlen & ->).
      exists (c :: pre). cbn [app rev List.length]. rewrite <- app_assoc.
      repeat split; try lia. constructor; [now apply N.eqb_neq | assumption].
Qed.

Lemma find_nul_app : forall pre budget r acc,
  Forall (fun c => c <> 0) pre -> (List.length pre < budget)%nat ->
  find_nul budget (pre ++ 0 :: r) acc = Some (rev acc ++ pre, r).
Proof.
  induction pre as [|c pre IH]; intros budget r acc Hno Hlen.
  - destruct budget as [|b]; [cbn in Hlen; lia|]. cbn. now rewrite app_nil_r.
  - destruct budget as [|b]; [cbn in Hlen; lia|]. cbn [app find_nul].
    inversion Hno as [|? ? Hc Hno']; subst.
    apply N.eqb_neq in Hc. rewrite Hc.
    rewrite IH by (try assumption; cbn [List.length] in Hlen; lia).
    cbn [rev]. now rewrite <- app_assoc.
Qed.

Lemma find_nul_inv : forall l budget acc h r,
  find_nul budget l acc = Some (h, r) ->
  exists pre, l = pre ++ 0 :: r /\ h = rev acc ++ pre /\ Forall (fun c => c <> 0) pre
              /\ (List.length pre < budget)%nat.
Proof.
  induction l as [|c l IH]; intros budget acc h r Hr.
  - destruct budget; discriminate.
  - destruct budget as [|bd]; [discriminate|]. cbn [find_nul] in Hr.
    destruct (c =? 0) eqn:E.
    + apply N.eqb_eq in E. subst c. injection Hr as <- <-.
      exists []. cbn. rewrite app_nil_r. repeat split; [constructor | lia..].
    + apply IH in Hr. destruct Hr as (pre & -> & -> & Hno & Hlen).
      exists (c :: pre). cbn [app rev List.length]. rewrite <- app_assoc.
      repeat split; try lia. constructor; [now apply N.eqb_neq | assumption].
Qed.

Lemma split_sp_app : forall pre r acc,
  Forall (fun c => c <> 32) pre -> split_sp (pre ++ 32 :: r) acc = Some (rev acc ++ pre, r).
Proof.
  induction pre as [|c pre IH]; intros r acc Hno.
  - cbn. now rewrite app_nil_r.
  - cbn [app split_sp]. inversion Hno as [|? ? Hc Hno']; subst.
    apply N.eqb_neq in Hc. rewrite Hc, IH by assumption. cbn [rev]. now rewrite <- app_assoc.
Qed.

Lemma split_sp_inv : forall l acc ty sz,
  split_sp l acc = Some (ty, sz) ->
  exists pre, l = pre ++ 32 :: sz /\ ty = rev acc ++ pre /\ Forall (fun c => c <> 32) pre.
Proof.
  induction l as [|c l IH]; intros acc ty sz Hs; [discriminate|].
  cbn [split_sp] in Hs. destruct (c =? 32) eqn:E.
  - apply N.eqb_eq in E. subst c. injection Hs as <- <-. exists []. cbn. rewrite app_nil_r. repeat split. constructor.
  - apply IH in Hs. destruct Hs as (pre & -> & -> & Hno). exists (c :: pre).
    cbn [app rev]. rewrite <- app_assoc. repeat split. constructor; [now apply N.eqb_neq | assumption].
Qed.

(* ------------------------------------------------------------------ *)
(* facts about the type names (finite case analyses)                    *)

Lemma type_bytes_no_sp t : Forall (fun c => c <> 32) (type_bytes t).
Proof. destruct t; cbn; repeat constructor; discriminate. Qed.

Lemma type_bytes_no_nul t : Forall (fun c => c <> 0) (type_bytes t).
Proof. destruct t; cbn; repeat constructor; discriminate. Qed.

Lemma type_bytes_len t : (List.length (type_bytes t) <= 9)%nat.
Proof. destruct t; cbn; lia. Qed.

Lemma type_bytes_len_git t : type_git t = true -> (List.length (type_bytes t) <= 6)%nat.
Proof. destruct t; cbn; intros; try discriminate; lia. Qed.

Lemma parse_type_bytes t : type_valid t = true -> parse_type (type_bytes t) = Some t.
Proof. destruct t; intros Hv; try discriminate; reflexivity. Qed.

Lemma git_type_bytes t : type_git t = true -> git_type (type_bytes t) = Some t.
Proof. destruct t; intros Hv; try discriminate; reflexivity. Qed.

Lemma type_git_valid t : type_git t = true -> type_valid t = true.
Proof. destruct t; intros; try discriminate; reflexivity. Qed.

Lemma bytes_eqb_eq : forall a b, bytes_eqb a b = true -> a = b.
Proof.
  induction a as [|x a IH]; intros [|y b] Hb; cbn in Hb; try discriminate; [reflexivity|].
  apply andb_prop in Hb. destruct Hb as [H1 H2]. apply N.eqb_eq in H1. subst. f_equal. now apply IH.
Qed.

Lemma git_type_parse ty t : git_type ty = Some t -> parse_type ty = Some t /\ type_git t = true.
Proof.
  unfold git_type. destruct (parse_type ty) as [t'|]; [|discriminate].
  destruct (type_git t') eqn:E; [|discriminate]. intros [= <-]. now split.
Qed.

Lemma digits_no_nul l : Forall (fun c => is_digit c = true) l -> Forall (fun c => c <> 0) l.
Proof. apply Forall_impl. intros c Hc. unfold is_digit in Hc. lia. Qed.

Lemma max_header_len_32 : max_header_len = 32%nat.
Proof. reflexivity. Qed.

(* ------------------------------------------------------------------ *)
(* the header round trip                                                *)

Lemma hdr_nonneg t z : (0 <= z)%Z ->
  hdr t z = type_bytes t ++ 32 :: print_dec (Z.to_N z) ++ [0].
Proof. intros Hz. unfold hdr. now rewrite print_int_nonneg. Qed.

Lemma hdr_length t z : (0 <= z < Z.of_N two63)%Z -> (List.length (hdr t z) <= 30)%nat.
Proof.
  intros Hz. rewrite hdr_nonneg by lia. rewrite app_length. cbn [List.length]. rewrite app_length. cbn [List.length].
  pose proof (type_bytes_len t).
  pose proof (print_dec_length (Z.to_N z) 19 ltac:(lia) ltac:(pose proof two63_lt; lia)). lia.
Qed.

Lemma read_header_hdr t z r :
  type_valid t = true -> (0 <= z < Z.of_N two63)%Z ->
  read_header (hdr t z ++ r) = Ok (t, z, r).
Proof.
  intros Hv Hz. rewrite hdr_nonneg by lia. unfold read_header. rewrite max_header_len_32.
  rewrite <- app_assoc. cbn [app].
  pose proof (type_bytes_len t) as Ht.
  pose proof (print_dec_length (Z.to_N z) 19 ltac:(lia) ltac:(pose proof two63_lt; lia)) as Hd.
  rewrite read_until_app by (try apply type_bytes_no_sp; lia). cbn [rev app].
  rewrite parse_type_bytes by assumption.
  rewrite <- app_assoc. cbn [app].
  rewrite read_until_app by (try (apply digits_no_nul, print_dec_digits); lia). cbn [rev app].
  rewrite parse_int64_print by lia. do 3 f_equal. lia.
Qed.

(* ------------------------------------------------------------------ *)
(* the writer                                                           *)

Lemma w_header_ok t z :
  type_valid t = true -> (0 <= z < Z.of_N two63)%Z ->
  w_header t z = Ok (mkW (hdr t z) (hdr t z) z).
Proof.
  intros Hv Hz. unfold w_header. rewrite Hv. cbn [negb].
  replace (z <? 0)%Z with false by lia.
  fold (hdr t z). pose proof (hdr_length t z Hz) as Hl. rewrite max_header_len_32.
  replace (32 <? List.length (hdr t z))%nat with false by (symmetry; apply Nat.ltb_ge; lia).
  reflexivity.
Qed.

Lemma blen_app a b : blen (a ++ b) = (blen a + blen b)%Z.
Proof. unfold blen. rewrite app_length. lia. Qed.

Lemma blen_nonneg a : (0 <= blen a)%Z.
Proof. unfold blen. lia. Qed.

(* all chunks fit: no error, everything is written *)
Lemma w_writes_fit : forall chunks st,
  (blen (concat chunks) <= w_pending st)%Z ->
  w_writes st chunks =
  (mkW (w_z st ++ concat chunks) (w_h st ++ concat chunks) (w_pending st - blen (concat chunks)), None).
Proof.
  induction chunks as [|p chunks IH]; intros [z h pend] Hfit; cbn [w_writes concat w_z w_h w_pending] in *.
  - rewrite !app_nil_r. unfold blen. cbn. do 2 f_equal. lia.
  - rewrite blen_app in Hfit. pose proof (blen_nonneg (concat chunks)). pose proof (blen_nonneg p).
    unfold w_write. cbn [w_z w_h w_pending].
    replace (pend <? blen p)%Z with false by lia.
    rewrite IH by (cbn [w_pending]; lia). cbn [w_z w_h w_pending]. unfold hasher_write.
    rewrite <- !app_assoc, blen_app. do 2 f_equal. lia.
Qed.

Lemma firstn_blen (p : bytes) k : (blen p <= k)%Z -> firstn (Z.to_nat k) p = p.
Proof. intros H. apply firstn_all2. unfold blen in H. lia. Qed.

(* more than declared: exactly [pending] bytes are written, then ErrOverflow *)
Lemma w_writes_over : forall chunks st,
  (0 <= w_pending st)%Z -> (w_pending st < blen (concat chunks))%Z ->
  w_writes st chunks =
  (mkW (w_z st ++ firstn (Z.to_nat (w_pending st)) (concat chunks))
       (w_h st ++ firstn (Z.to_nat (w_pending st)) (concat chunks)) 0, Some EOverflow).
Proof.
  induction chunks as [|p chunks IH]; intros [z h pend] Hpos Hover; cbn [w_writes concat w_z w_h w_pending] in *.
  - unfold blen in Hover. cbn in Hover. lia.
  - pose proof (blen_nonneg p) as Hp. unfold w_write. cbn [w_z w_h w_pending].
    destruct (pend <? blen p)%Z eqn:E.
    + assert (Hl : (Z.to_nat pend <= List.length p)%nat) by (unfold blen in E; lia).
      rewrite firstn_app. replace (Z.to_nat pend - List.length p)%nat with 0%nat by lia.
      cbn [firstn]. rewrite app_nil_r. unfold hasher_write. do 2 f_equal.
      f_equal. unfold blen. rewrite firstn_length. lia.
    + rewrite blen_app in Hover.
      rewrite IH by (cbn [w_pending]; lia). cbn [w_z w_h w_pending]. unfold hasher_write.
      rewrite <- !app_assoc.
      assert (Hsplit : firstn (Z.to_nat pend) (p ++ concat chunks)
                       = p ++ firstn (Z.to_nat (pend - blen p)) (concat chunks)).
      { rewrite firstn_app. rewrite firstn_all2 by (unfold blen in E; lia).
        f_equal. f_equal. unfold blen. unfold blen in E. lia. }
      now rewrite Hsplit.
Qed.

(* ------------------------------------------------------------------ *)
(* MemoryObject                                                         *)

Lemma m_write_fold : forall chunks o,
  m_t (fold_left m_write chunks o) = m_t o /\
  m_h (fold_left m_write chunks o) = m_h o /\
  m_cont (fold_left m_write chunks o) = m_cont o ++ concat chunks /\
  (chunks <> [] -> m_sz (fold_left m_write chunks o) = blen (m_cont o ++ concat chunks)) /\
  (chunks = [] -> m_sz (fold_left m_write chunks o) = m_sz o).
Proof.
  induction chunks as [|p chunks IH]; intros o; cbn [fold_left concat].
  - rewrite app_nil_r. repeat split; congruence.
  - destruct (IH (m_write o p)) as (Ht & Hh & Hc & Hs1 & Hs2). cbn [m_write m_t m_h m_cont m_sz] in *.
    rewrite <- app_assoc in Hc. repeat split; try assumption; try congruence.
    intros _. destruct chunks as [|q chunks].
    + rewrite Hs2 by reflexivity. cbn [concat]. now rewrite app_nil_r.
    + rewrite Hs1 by discriminate. now rewrite <- app_assoc.
Qed.

Lemma m_fill_spec t size chunks :
  size = blen (concat chunks) ->
  let o := m_fill t size chunks in
  m_t o = t /\ m_h o = None /\ m_cont o = concat chunks /\ m_sz o = size.
Proof.
  intros Hs. unfold m_fill.
  destruct (m_write_fold chunks (m_set_size (m_set_type m_new t) size)) as (Ht & Hh & Hc & Hs1 & Hs2).
  cbn [m_set_size m_set_type m_new m_t m_h m_cont m_sz app] in *.
  repeat split; try assumption.
  destruct chunks as [|p chunks]; [now apply Hs2 | rewrite Hs1 by discriminate; now subst].
Qed.
