(* Proofs/C35Git.v — go-git's encodings are in git's documented grammars
   (Spec/GitProto.v) and mean the message: git_<msg> (encode m) = Some m.
   hexsz is the object format of the conversation: every id has that length. *)
From Coq Require Import List Arith NArith ZArith Bool Lia String.
From GoGit Require Import Base.Out Base.GoInt Gen.C34 Model.PktLine Model.C35Utf8 Model.Packp Model.PackpV2 Spec.GitProto
  Proofs.C34Pkt Proofs.C35Base Proofs.C35Utf8 Proofs.C35U Proofs.C35Msgs Proofs.C35Caps Proofs.C35Dec.
Import ListNotations.

(* ---------- ids ---------- *)
Definition sized (hexsz : nat) (h : hash) : bool := hash_ok h && Nat.eqb (hash_hexsize h) hexsz.

Lemma hexdig_ishex n : (n < 16)%N -> ishex (hexdig n) = true.
Proof.
  intros H.
  assert (n = 0 \/ n = 1 \/ n = 2 \/ n = 3 \/ n = 4 \/ n = 5 \/ n = 6 \/ n = 7 \/ n = 8 \/ n = 9 \/
          n = 10 \/ n = 11 \/ n = 12 \/ n = 13 \/ n = 14 \/ n = 15)%N as C by lia.
  repeat (destruct C as [-> | C]; [reflexivity|]). subst. reflexivity.
Qed.

Lemma to_hex_ishex b : forallb byte_ok b = true -> forallb ishex (to_hex b) = true.
Proof.
  induction b as [|c b IH]; intros H; [reflexivity|].
  cbn in H. apply andb_prop in H. destruct H as [H1 H2]. apply N.ltb_lt in H1.
  destruct (nib_hi c H1) as (Ha & Hb & _).
  cbn [to_hex forallb]. now rewrite (IH H2), (hexdig_ishex _ Ha), (hexdig_ishex _ Hb).
Qed.

Lemma sized_spec hexsz h : sized hexsz h = true -> hash_ok h = true /\ List.length (hash_str h) = hexsz.
Proof.
  unfold sized. intros H. apply andb_prop in H. destruct H as [H1 H2]. apply Nat.eqb_eq in H2.
  split; [assumption|]. now rewrite (hash_str_length h H1).
Qed.

Lemma git_oid_str hexsz h : sized hexsz h = true -> git_oid hexsz (hash_str h) = Some h.
Proof.
  intros H. destruct (sized_spec hexsz h H) as [Hok Hl]. unfold git_oid. rewrite Hl, Nat.eqb_refl.
  unfold hash_str at 1. rewrite (to_hex_ishex _ (proj1 (hash_bytes_ok h Hok))). cbn [andb]. now rewrite (new_hash_str h Hok).
Qed.

Lemma chomp_app x : chomp (x ++ [NL]) = x.
Proof. apply trim_eol_app. Qed.

(* "<kw> <oid>" *)
Lemma kw_oid_str hexsz (kw : string) h : sized hexsz h = true ->
  kw_oid hexsz kw ((B kw ++ [SP]) ++ hash_str h) = Some h.
Proof.
  intros H. unfold kw_oid. rewrite has_prefix_app.
  replace (List.length (B kw) + 1)%nat with (List.length (B kw ++ [SP])) by (rewrite app_length; reflexivity).
  rewrite skipn_app_len. now apply git_oid_str.
Qed.

Lemma oid_sp_str hexsz h rest : sized hexsz h = true -> oid_sp hexsz (hash_str h ++ SP :: rest) = Some (h, rest).
Proof.
  intros H. destruct (sized_spec hexsz h H) as [Hok Hl]. unfold oid_sp.
  rewrite (firstn_app_exact (hash_str h) (SP :: rest) _ Hl), (skipn_app_exact (hash_str h) (SP :: rest) _ Hl), (git_oid_str hexsz h H).
  now rewrite N.eqb_refl.
Qed.

(* ================= shallow-update ================= *)
Lemma git_shupd_sh hexsz : forall hs rest sh uns, forallb (sized hexsz) hs = true ->
  git_shupd hexsz (map (fun h => PData (B "shallow " ++ hash_str h ++ [NL])) hs ++ rest) false sh uns
  = git_shupd hexsz rest false (sh ++ hs) uns.
Proof.
  induction hs as [|h hs IH]; intros rest sh uns H; [cbn [map app]; now rewrite app_nil_r|].
  cbn [forallb] in H. apply andb_prop in H. destruct H as [H1 H2]. cbn [map app git_shupd].
  change (B "shallow " ++ hash_str h ++ [NL]) with (((B "shallow" ++ [SP]) ++ hash_str h) ++ [NL]).
  rewrite chomp_app, (kw_oid_str hexsz "shallow" h H1). rewrite (IH rest _ uns H2). now rewrite <- app_assoc.
Qed.

Lemma kw_shallow_unshallow hexsz x : kw_oid hexsz "shallow" ((B "unshallow" ++ [SP]) ++ x) = None.
Proof. reflexivity. Qed.

Lemma git_shupd_un hexsz : forall hs un sh uns, forallb (sized hexsz) hs = true ->
  git_shupd hexsz (map (fun h => PData (B "unshallow " ++ hash_str h ++ [NL])) hs ++ [PFlush]) un sh uns
  = Some (sh, uns ++ hs).
Proof.
  induction hs as [|h hs IH]; intros un sh uns H; [cbn [map app git_shupd]; now rewrite app_nil_r|].
  cbn [forallb] in H. apply andb_prop in H. destruct H as [H1 H2]. cbn [map app].
  change (B "unshallow " ++ hash_str h ++ [NL]) with (((B "unshallow" ++ [SP]) ++ hash_str h) ++ [NL]).
  cbn [git_shupd]. rewrite chomp_app, kw_shallow_unshallow, (kw_oid_str hexsz "unshallow" h H1).
  rewrite (IH true sh _ H2). now rewrite <- app_assoc.
Qed.

Theorem git_shupd_enc hexsz m : forallb (sized hexsz) (su_shallows m) = true -> forallb (sized hexsz) (su_unshallows m) = true ->
  git_shupd hexsz (su_encode m) false [] [] = Some (su_shallows m, su_unshallows m).
Proof.
  intros H1 H2. unfold su_encode. rewrite (git_shupd_sh hexsz _ _ [] [] H1). cbn [app].
  now rewrite (git_shupd_un hexsz _ false _ [] H2).
Qed.

(* ================= upload-haves ================= *)
Lemma git_haves_lines hexsz : forall hs last acc, forallb (sized hexsz) hs = true ->
  (last = PFlush \/ last = PData (B "done" ++ [NL])) ->
  git_haves hexsz (map (fun h => PData (B "have " ++ hash_str h ++ [NL])) hs ++ [last]) acc
  = Some (acc ++ hs, match last with PFlush => false | _ => true end).
Proof.
  induction hs as [|h hs IH]; intros last acc H Hl.
  - cbn [map app]. rewrite app_nil_r. destruct Hl as [-> | ->]; reflexivity.
  - cbn [forallb] in H. apply andb_prop in H. destruct H as [H1 H2]. cbn [map app].
    change (B "have " ++ hash_str h ++ [NL]) with (((B "have" ++ [SP]) ++ hash_str h) ++ [NL]).
    assert (forall p r, git_haves hexsz (PData p :: map (fun h0 => PData (B "have " ++ hash_str h0 ++ [NL])) hs ++ [last]) r
                        = match kw_oid hexsz "have" (chomp p) with
                          | Some h0 => git_haves hexsz (map (fun h0 => PData (B "have " ++ hash_str h0 ++ [NL])) hs ++ [last]) (r ++ [h0])
                          | None => None
                          end) as K.
    { intros p r. destruct hs; destruct Hl as [-> | ->]; reflexivity. }
    rewrite K, chomp_app, (kw_oid_str hexsz "have" h H1), (IH last _ H2 Hl). now rewrite <- app_assoc.
Qed.

Theorem git_haves_enc hexsz m : forallb (sized hexsz) (uh_haves m) = true ->
  git_haves hexsz (uh_encode m) [] = Some (uh_haves (uh_canon m), uh_done m).
Proof.
  intros H. unfold uh_encode, uh_canon. cbn [uh_haves uh_done].
  assert (forallb (sized hexsz) (dedup_from zero_hash (sort_hashes (uh_haves m))) = true) as Hs.
  { apply forallb_Forall, dedup_from_Forall, sort_by_Forall. now apply forallb_Forall. }
  destruct (uh_done m).
  - now rewrite (git_haves_lines hexsz _ _ [] Hs (or_intror eq_refl)).
  - now rewrite (git_haves_lines hexsz _ _ [] Hs (or_introl eq_refl)).
Qed.

(* ================= push-options ================= *)
Lemma git_pushopts_lines : forall opts acc, forallb (fun o => negb (N.eqb NL (last o 0%N))) opts = true ->
  git_pushopts (map PData opts ++ [PFlush]) acc = Some (acc ++ opts).
Proof.
  induction opts as [|o opts IH]; intros acc H; [cbn; now rewrite app_nil_r|].
  cbn [forallb] in H. apply andb_prop in H. destruct H as [H1 H2]. apply negb_true_iff in H1. cbn [map app].
  assert (git_pushopts (PData o :: map PData opts ++ [PFlush]) acc = git_pushopts (map PData opts ++ [PFlush]) (acc ++ [chomp o])) as ->
    by (destruct opts; reflexivity).
  unfold chomp. fold (trim_eol o). rewrite (trim_eol_id o H1), (IH _ H2). now rewrite <- app_assoc.
Qed.

(* ================= report-status ================= *)
Lemma existsb_nobyte c s : no_byte c s = true -> existsb (N.eqb c) s = false.
Proof.
  unfold no_byte. induction s as [|x s IH]; [reflexivity|]. cbn [forallb existsb]. intros H. apply andb_prop in H. destruct H as [H1 H2].
  apply negb_true_iff in H1. rewrite N.eqb_sym, H1. now apply IH.
Qed.

Lemma git_statuses_lines : forall cs acc,
  forallb (fun c => negb (Nat.eqb (List.length (fst c)) 0) && no_byte SP (fst c)) cs = true ->
  git_statuses (map (fun c => if beq (snd c) OKb then PData (B "ok " ++ fst c ++ [NL])
                              else PData (B "ng " ++ fst c ++ [SP] ++ snd c ++ [NL])) cs ++ [PFlush]) acc
  = Some (acc ++ cs).
Proof.
  induction cs as [|[name st] cs IH]; intros acc H; [cbn; now rewrite app_nil_r|].
  cbn [forallb fst snd] in H. apply andb_prop in H. destruct H as [H H2]. apply andb_prop in H. destruct H as [Hne Hsp].
  apply negb_true_iff in Hne. apply Nat.eqb_neq in Hne.
  cbn [map app fst snd]. destruct (beq st OKb) eqn:E.
  - apply beq_eq in E. subst st.
    assert (forall p r, git_statuses (PData p :: r) acc =
              (let line := chomp p in
               if has_prefix (B "ok ") line then
                 match skipn 3 line with
                 | [] => None
                 | name => if existsb (N.eqb SP) name then None else git_statuses r (acc ++ [(name, B "ok")])
                 end
               else if has_prefix (B "ng ") line then
                 match cut SP (skipn 3 line) with
                 | Some (c :: name, msg) => git_statuses r (acc ++ [(c :: name, msg)])
                 | _ => None
                 end
               else None)) as K by (intros p [|x r]; reflexivity).
    rewrite K. cbv zeta. change (B "ok " ++ name ++ [NL]) with ((B "ok " ++ name) ++ [NL]). rewrite chomp_app, has_prefix_app.
    rewrite (skipn_app_exact (B "ok ") name 3 eq_refl). destruct name as [|c name]; [cbn in Hne; contradiction|].
    rewrite (existsb_nobyte SP _ Hsp). rewrite (IH _ H2). now rewrite <- app_assoc.
  - assert (forall p r, git_statuses (PData p :: r) acc =
              (let line := chomp p in
               if has_prefix (B "ok ") line then
                 match skipn 3 line with
                 | [] => None
                 | name => if existsb (N.eqb SP) name then None else git_statuses r (acc ++ [(name, B "ok")])
                 end
               else if has_prefix (B "ng ") line then
                 match cut SP (skipn 3 line) with
                 | Some (c :: name, msg) => git_statuses r (acc ++ [(c :: name, msg)])
                 | _ => None
                 end
               else None)) as K by (intros p [|x r]; reflexivity).
    rewrite K. cbv zeta.
    assert (B "ng " ++ name ++ SP :: st ++ [NL] = (B "ng " ++ name ++ SP :: st) ++ [NL]) as -> by (cbn [app]; now rewrite <- !app_assoc).
    rewrite chomp_app.
    change (has_prefix (B "ok ") (B "ng " ++ name ++ SP :: st)) with false. cbv iota.
    rewrite has_prefix_app, (skipn_app_exact (B "ng ") (name ++ SP :: st) 3 eq_refl), (cut_app SP name st Hsp).
    destruct name as [|c name]; [cbn in Hne; contradiction|]. rewrite (IH _ H2). now rewrite <- app_assoc.
Qed.

(* reference names are non-empty and free of blanks *)
Definition report_ok (m : report) : bool :=
  forallb (fun c => negb (Nat.eqb (List.length (fst c)) 0) && no_byte SP (fst c)) (rs_cmds m).

Theorem git_report_enc m : report_ok m = true -> git_report (rs_encode m) = Some (rs_unpack m, rs_cmds m).
Proof.
  intros Hok. unfold rs_encode.
  assert (forall p r, git_report (PData p :: r) =
            (let line := chomp p in
             if has_prefix (B "unpack ") line then
               match git_statuses r [] with Some cs => Some (skipn 7 line, cs) | None => None end
             else None)) as K by reflexivity.
  rewrite K. cbv zeta. change (B "unpack " ++ rs_unpack m ++ [NL]) with ((B "unpack " ++ rs_unpack m) ++ [NL]).
  rewrite chomp_app, has_prefix_app, (skipn_app_exact (B "unpack ") (rs_unpack m) 7 eq_refl).
  now rewrite (git_statuses_lines _ [] Hok).
Qed.

(* ================= server-response ================= *)
Lemma git_ack_status_str st : (1 <= st <= 3)%N -> git_ack_status (status_str st) = Some st.
Proof. intros H. assert (st = 1 \/ st = 2 \/ st = 3)%N as [-> | [-> | ->]] by lia; reflexivity. Qed.

Lemma git_srv_multi hexsz h st r acc : sized hexsz h = true -> (1 <= st <= 3)%N ->
  git_srvresp hexsz (PData (B "ACK " ++ hash_str h ++ [SP] ++ status_str st ++ [NL]) :: r) acc
  = git_srvresp hexsz r (acc ++ [(h, st)]).
Proof.
  intros H Hst. destruct (sized_spec hexsz h H) as [Hok Hl]. cbn [git_srvresp].
  assert (B "ACK " ++ hash_str h ++ [SP] ++ status_str st ++ [NL] = (B "ACK " ++ hash_str h ++ SP :: status_str st) ++ [NL]) as ->
    by (cbn [app]; now rewrite <- !app_assoc).
  rewrite chomp_app.
  assert (beq (B "ACK " ++ hash_str h ++ SP :: status_str st) (B "NAK") = false) as -> by reflexivity.
  rewrite has_prefix_app, (skipn_app_exact (B "ACK ") _ 4 eq_refl).
  rewrite (firstn_app_exact (hash_str h) _ _ Hl), (git_oid_str hexsz h H).
  assert (skipn (4 + hexsz) (B "ACK " ++ hash_str h ++ SP :: status_str st) = SP :: status_str st) as ->.
  { change (4 + hexsz)%nat with (List.length (B "ACK ") + hexsz)%nat. rewrite <- Hl, <- app_length. rewrite app_assoc. apply skipn_app_len. }
  rewrite N.eqb_refl, (git_ack_status_str st Hst). reflexivity.
Qed.

Lemma git_srv_plain hexsz h acc : sized hexsz h = true ->
  git_srvresp hexsz [PData (B "ACK " ++ hash_str h ++ [NL])] acc = Some (acc ++ [(h, 0%N)]).
Proof.
  intros H. destruct (sized_spec hexsz h H) as [Hok Hl]. cbn [git_srvresp].
  change (B "ACK " ++ hash_str h ++ [NL]) with ((B "ACK " ++ hash_str h) ++ [NL]). rewrite chomp_app.
  assert (beq (B "ACK " ++ hash_str h) (B "NAK") = false) as -> by reflexivity.
  rewrite has_prefix_app, (skipn_app_exact (B "ACK ") _ 4 eq_refl).
  assert (firstn hexsz (hash_str h) = hash_str h) as -> by (rewrite <- Hl; apply firstn_all).
  assert (skipn (4 + hexsz) (B "ACK " ++ hash_str h) = []) as ->.
  { change (4 + hexsz)%nat with (List.length (B "ACK ") + hexsz)%nat. rewrite <- Hl, <- app_length. apply skipn_all. }
  now rewrite (git_oid_str hexsz h H).
Qed.

Lemma git_srv_go hexsz : forall acks multi acc, acks <> [] -> sr_ok acks = true -> forallb (fun a => sized hexsz (fst a)) acks = true ->
  (multi = true \/ acc = []) ->
  git_srvresp hexsz (sr_encode_go acks multi) acc = Some (acc ++ acks).
Proof.
  induction acks as [|[h st] acks IH]; intros multi acc Hne Hok Hs Hm; [contradiction|].
  cbn [forallb fst] in Hs. apply andb_prop in Hs. destruct Hs as [Hs1 Hs2].
  destruct acks as [|a2 acks].
  - cbn [sr_ok] in Hok. apply andb_prop in Hok. destruct Hok as [Hh Hst]. apply N.leb_le in Hst.
    cbn [sr_encode_go]. destruct (N.ltb_spec 0 st).
    + rewrite git_srv_multi by (auto; lia). reflexivity.
    + assert (st = 0%N) as -> by lia. destruct multi; cbn [sr_encode_go]; now rewrite git_srv_plain.
  - change (sr_ok ((h, st) :: a2 :: acks)) with (hash_ok h && N.leb 1 st && N.leb st 3 && sr_ok (a2 :: acks)) in Hok.
    apply andb_prop in Hok. destruct Hok as [Hok H4]. apply andb_prop in Hok. destruct Hok as [Hok H3].
    apply andb_prop in Hok. destruct Hok as [Hh H1]. apply N.leb_le in H1, H3.
    remember (a2 :: acks) as rest eqn:Er.
    cbn [sr_encode_go]. destruct (N.ltb_spec 0 st); [|lia].
    rewrite git_srv_multi by (auto; lia). rewrite IH; [|subst rest; discriminate|assumption|assumption|now left].
    now rewrite <- app_assoc.
Qed.

Theorem git_srvresp_enc hexsz acks : sr_ok acks = true -> forallb (fun a => sized hexsz (fst a)) acks = true ->
  git_srvresp hexsz (sr_encode acks) [] = Some acks.
Proof.
  intros H Hs. unfold sr_encode. destruct acks as [|a acks]; [reflexivity|].
  rewrite git_srv_go; [reflexivity|discriminate|assumption|assumption|now right].
Qed.
