(* Proofs/C02Dec.v — decimal printing / parsing of Model/ObjLines:
   digits_val (print_dec n) = Some n, strconv.ParseInt reads back what %d
   printed, the two-digit fields of the zone. *)
From Coq Require Import List NArith ZArith Bool Lia ZifyBool ZifyNat ZifyN.
From GoGit Require Import Base.Out Model.ObjLines Proofs.ObjLinesFacts.
Import ListNotations.
Local Open Scope N_scope.

Lemma digits_acc_app x : forall y a,
  digits_acc a (x ++ y) = match digits_acc a x with Some v => digits_acc v y | None => None end.
Proof.
  induction x as [|c x IH]; intros y a; cbn [app digits_acc]; [reflexivity|].
  destruct (is_digit c); [apply IH|reflexivity].
Qed.

Lemma is_digit_48 d : d < 10 -> is_digit (48 + d) = true.
Proof. intros H. unfold is_digit. lia. Qed.

Lemma dec_aux_spec : forall fuel n acc, n < 10 ^ N.of_nat fuel ->
  exists ds, dec_aux fuel n acc = ds ++ acc /\ forallb is_digit ds = true /\
             (forall a, digits_acc a ds = Some (a * 10 ^ N.of_nat (List.length ds) + n)) /\
             (fuel <> O -> ds <> []).
Proof.
  induction fuel as [|f IH]; intros n acc Hn.
  - exists []. cbn in Hn. assert (n = 0) by lia. subst. repeat split; try reflexivity.
    + intros a. cbn [digits_acc List.length]. f_equal. change (N.of_nat 0) with 0. rewrite N.pow_0_r. lia.
    + contradiction.
  - cbn [dec_aux]. pose proof (N.mod_lt n 10 ltac:(lia)) as Hm.
    destruct (n / 10 =? 0) eqn:E.
    + exists [48 + n mod 10]. repeat split; try reflexivity.
      * cbn [forallb]. now rewrite (is_digit_48 _ Hm).
      * intros a. cbn [digits_acc List.length]. rewrite (is_digit_48 _ Hm). f_equal.
        pose proof (N.div_mod n 10 ltac:(lia)). change (N.of_nat 1) with 1. rewrite N.pow_1_r. lia.
      * discriminate.
    + assert (Hq : n / 10 < 10 ^ N.of_nat f).
      { apply N.div_lt_upper_bound; [lia|]. rewrite Nat2N.inj_succ, N.pow_succ_r' in Hn. exact Hn. }
      destruct (IH (n / 10) ((48 + n mod 10) :: acc) Hq) as [ds [Hd [Hdig [Hval _]]]].
      exists (ds ++ [48 + n mod 10]). repeat split.
      * now rewrite Hd, <- app_assoc.
      * rewrite forallb_app, Hdig. cbn [forallb andb]. now rewrite (is_digit_48 _ Hm).
      * intros a. rewrite digits_acc_app, Hval. cbn [digits_acc]. rewrite (is_digit_48 _ Hm). f_equal.
        rewrite app_length. cbn [List.length]. rewrite Nat.add_1_r, Nat2N.inj_succ, N.pow_succ_r'.
        pose proof (N.div_mod n 10 ltac:(lia)) as Hdm.
        set (P := 10 ^ N.of_nat (List.length ds)) in *.
        replace (48 + n mod 10 - 48) with (n mod 10) by lia.
        replace (a * (10 * P)) with (10 * (a * P)) by ring. lia.
      * intros _ H. now destruct ds.
Qed.

Lemma print_dec_fuel n : n < 10 ^ N.of_nat (S (N.to_nat (N.size n))).
Proof.
  rewrite Nat2N.inj_succ, N2Nat.id, N.pow_succ_r'.
  pose proof (N.size_gt n) as H.
  assert (2 ^ N.size n <= 10 ^ N.size n) by (apply N.pow_le_mono_l; lia).
  assert (0 < 10 ^ N.size n) by (apply N.neq_0_lt_0, N.pow_nonzero; lia). lia.
Qed.

Lemma print_dec_spec n :
  print_dec n <> [] /\ forallb is_digit (print_dec n) = true /\
  forall a, digits_acc a (print_dec n) = Some (a * 10 ^ N.of_nat (List.length (print_dec n)) + n).
Proof.
  unfold print_dec.
  destruct (dec_aux_spec _ n [] (print_dec_fuel n)) as [ds [Hd [Hdig [Hval Hne]]]].
  rewrite Hd, app_nil_r. repeat split; [now apply Hne|exact Hdig|exact Hval].
Qed.

Lemma print_dec_nonempty n : print_dec n <> [].
Proof. apply print_dec_spec. Qed.
Lemma print_dec_digits n : forallb is_digit (print_dec n) = true.
Proof. apply print_dec_spec. Qed.

Lemma digits_val_print_dec n : digits_val (print_dec n) = Some n.
Proof.
  destruct (print_dec_spec n) as [Hne [_ Hval]]. unfold digits_val.
  destruct (print_dec n) eqn:E; [contradiction|]. rewrite Hval. f_equal; lia.
Qed.

Lemma print_dec_inj a b : print_dec a = print_dec b -> a = b.
Proof.
  intros H. pose proof (digits_val_print_dec a) as Ha. rewrite H, digits_val_print_dec in Ha. now inversion Ha.
Qed.

Lemma digit_not_sign c : is_digit c = true -> (c =? 43) = false /\ (c =? 45) = false /\ (c =? 32) = false /\ (c =? 10) = false /\ (c =? 60) = false /\ (c =? 62) = false.
Proof. unfold is_digit. intros H. repeat split; lia. Qed.

Lemma parse_int64_digits ds n : ds <> [] -> forallb is_digit ds = true -> digits_val ds = Some n ->
  (Z.of_N n < 2 ^ 63)%Z -> parse_int64 ds = Some (Z.of_N n).
Proof.
  intros Hne Hdig Hv Hr. destruct ds as [|c r]; [contradiction|].
  cbn [forallb] in Hdig. apply andb_true_iff in Hdig as [Hc _].
  destruct (digit_not_sign _ Hc) as [H43 [H45 _]].
  unfold parse_int64. rewrite H43, H45, Hv.
  assert (E : ((- 2 ^ 63 <=? Z.of_N n) && (Z.of_N n <? 2 ^ 63))%Z = true) by lia. now rewrite E.
Qed.

Lemma parse_int64_print_dec n : (Z.of_N n < 2 ^ 63)%Z -> parse_int64 (print_dec n) = Some (Z.of_N n).
Proof.
  intros H. apply parse_int64_digits; [apply print_dec_nonempty|apply print_dec_digits|apply digits_val_print_dec|exact H].
Qed.

(* ---- two-digit fields ---- *)
Lemma pad2_table :
  forallb (fun k => beqb (pad2 (N.of_nat k)) [48 + N.of_nat k / 10; 48 + N.of_nat k mod 10]) (seq 0 100) = true.
Proof. vm_compute. reflexivity. Qed.

Lemma pad2_two n : n < 100 -> pad2 n = [48 + n / 10; 48 + n mod 10].
Proof.
  intros H. pose proof pad2_table as T. rewrite forallb_forall in T.
  specialize (T (N.to_nat n)). rewrite N2Nat.id in T. apply beqb_eq, T, in_seq. lia.
Qed.

Lemma digits_val_two a b : a < 10 -> b < 10 -> digits_val [48 + a; 48 + b] = Some (10 * a + b).
Proof.
  intros Ha Hb. unfold digits_val. cbn [digits_acc]. rewrite (is_digit_48 _ Ha), (is_digit_48 _ Hb). f_equal. lia.
Qed.
