(* Proofs/C10Basic.v — first layer of C10: rejection of malformed headers by
   the three readers and the range check of the 64-bit offset table. *)
From Coq Require Import List NArith ZArith Bool Lia ZifyBool ZifyNat ZifyN.
From GoGit Require Import Base.Out Model.PackBytes Model.Idx.
Import ListNotations.
Local Open Scope N_scope.

(* getOffset: a 64-bit entry is answered from inside Offset64 or not at all *)
Lemma mem_get_offset_in_range m b i o :
  mem_get_offset m b i = Ok o ->
  let ofs := get32 (slice (b_off32 b) (4 * i) 4) in
  (N.land ofs O64MASK = 0 /\ o = ofs) \/
  (N.land ofs O64MASK <> 0 /\ 8 * N.ldiff ofs O64MASK + 8 <= blen (m_off64 m) /\
   o = get64 (slice (m_off64 m) (8 * N.ldiff ofs O64MASK) 8)).
Proof.
  unfold mem_get_offset. cbv zeta.
  destruct (N.land (get32 (slice (b_off32 b) (4 * i) 4)) O64MASK =? 0) eqn:E0.
  - intros E; inversion E. left. split; [now apply N.eqb_eq|reflexivity].
  - destruct ((blen (m_off64 m) <? 8) || (blen (m_off64 m) - 8 <? 8 * N.ldiff _ O64MASK)) eqn:Eb; [discriminate|].
    intros E; inversion E. right. apply N.eqb_neq in E0. apply orb_false_iff in Eb. destruct Eb as [E1 E2].
    apply N.ltb_ge in E1, E2. repeat split; auto. lia.
Qed.

(* LazyIndex.offset: the same, against the count of 64-bit entries found at open time *)
Lemma lazy_offset_in_range s pos o :
  lazy_offset s pos = Ok o ->
  exists b, read_at (l_file s) (l_off32 s + pos * L_OFF32) L_OFF32 = Some b /\
  ((N.land (get32 b) L_MASK = 0 /\ o = get32 b) \/
   (N.land (get32 b) L_MASK <> 0 /\ N.ldiff (get32 b) L_MASK < l_count64 s /\
    exists b64, read_at (l_file s) (l_off64 s + N.ldiff (get32 b) L_MASK * L_OFF64) L_OFF64 = Some b64 /\ o = get64 b64)).
Proof.
  unfold lazy_offset.
  destruct (read_at (l_file s) (l_off32 s + pos * L_OFF32) L_OFF32) as [b|]; [|discriminate].
  intros E. exists b. split; [reflexivity|].
  destruct (N.land (get32 b) L_MASK =? 0) eqn:E0.
  - inversion E. left. split; [now apply N.eqb_eq|reflexivity].
  - right. apply N.eqb_neq in E0.
    destruct (l_count64 s <=? N.ldiff (get32 b) L_MASK) eqn:Ec; [discriminate|]. apply N.leb_gt in Ec.
    destruct (read_at (l_file s) _ L_OFF64) as [b64|]; [|discriminate].
    inversion E. repeat split; auto. exists b64. auto.
Qed.

(* PackScanner.offset: a 64-bit entry lies wholly before the trailer *)
Lemma scan_offset_in_range s pos o :
  scan_offset s pos = Ok o ->
  let start := s_off32 s + pos * S_OFF32 in
  start + S_OFF32 <= blen (s_idx s) /\
  let off32 := get32 (slice (s_idx s) start S_OFF32) in
  ((N.land off32 S_MASK = 0 /\ o = off32) \/
   (N.land off32 S_MASK <> 0 /\ s_off64 s + N.ldiff off32 S_MASK * S_OFF64 + S_OFF64 <= s_trailer s)).
Proof.
  unfold scan_offset. cbv zeta.
  destruct (blen (s_idx s) <? s_off32 s + pos * S_OFF32 + S_OFF32) eqn:E1; [discriminate|]. apply N.ltb_ge in E1.
  intros E. split; [exact E1|].
  destruct (N.land _ S_MASK =? 0) eqn:E0.
  - inversion E. left. split; [now apply N.eqb_eq|reflexivity].
  - right. apply N.eqb_neq in E0.
    destruct (s_trailer s <? _) eqn:E2; [discriminate|]. apply N.ltb_ge in E2. split; assumption.
Qed.

(* PackScanner: an index whose object count does not fit the file is rejected at load time *)
Lemma scan_load_fits hs idx rev s :
  scan_load hs idx rev = Ok s ->
  s_off64 s <= s_trailer s /\ s_trailer s + 2 * N.of_nat hs = blen idx /\ S_IDXMIN <= blen idx.
Proof.
  unfold scan_load.
  destruct (negb (valid_file rev S_REVVER S_REVSIG S_REVMIN)); [discriminate|].
  destruct (valid_file idx S_IDXVER S_IDXSIG S_IDXMIN) eqn:Ev; [|discriminate]. cbn [negb]. cbv zeta.
  set (cnt := get32 (skipn (N.to_nat (S_HDR + S_FANOUT - 4)) idx)).
  match goal with |- context [if ?c then _ else _] => destruct c eqn:Ec end; [discriminate|].
  intros E. injection E as <-. cbv beta iota delta [s_off64 s_trailer]. apply N.ltb_ge in Ec.
  unfold valid_file in Ev. apply andb_true_iff in Ev. destruct Ev as [Ev _]. apply andb_true_iff in Ev.
  destruct Ev as [Ev _]. apply N.leb_le in Ev.
  change (S_HDR + S_FANOUT) with 1032 in *.
  clearbody cnt. repeat split; try assumption.
  change (match N.of_nat hs with 0 => 0 | N.pos q => N.pos q~0 end) with (2 * N.of_nat hs). lia.
Qed.

Section Basic.
Variable hs : nat.
Variable Hsz : nat -> bytes -> bytes.

Lemma take_firstn n r a b : take n r = Some (a, b) -> a = firstn (N.to_nat n) r /\ b = skipn (N.to_nat n) r.
Proof. unfold take. destruct (n <=? blen r); intros E; inversion E; auto. Qed.

(* Decoder.Decode: wrong magic *)
Lemma decode_bad_magic file :
  bytes_eqb (firstn 4 file) IDX_MAGIC = false -> decode hs Hsz file = Err EReject.
Proof.
  intros Hm. unfold decode.
  destruct (take 4 file) as [[mg r1]|] eqn:E; [|reflexivity].
  apply take_firstn in E. destruct E as [-> ->]. change (N.to_nat 4) with 4%nat.
  rewrite Hm. reflexivity.
Qed.

(* Decoder.Decode: wrong version *)
Lemma decode_bad_version file :
  (get32 (firstn 4 (skipn 4 file)) =? IDX_VERSION) = false -> decode hs Hsz file = Err EReject.
Proof.
  intros Hv. unfold decode.
  destruct (take 4 file) as [[mg r1]|] eqn:E; [|reflexivity].
  apply take_firstn in E. destruct E as [-> ->]. change (N.to_nat 4) with 4%nat.
  destruct (negb (bytes_eqb (firstn 4 file) IDX_MAGIC)); [reflexivity|].
  destruct (take 4 (skipn 4 file)) as [[vb r2]|] eqn:E2; [|reflexivity].
  apply take_firstn in E2. destruct E2 as [-> ->]. change (N.to_nat 4) with 4%nat.
  rewrite Hv. reflexivity.
Qed.

(* read_fanout fails on a decreasing table, whatever follows *)
Lemma read_fanout_sorted n : forall r prev acc fo r',
  read_fanout n r prev acc = Some (fo, r') ->
  exists l, fo = rev acc ++ l /\ List.length l = n /\
            (forall a b pre post, prev :: l = pre ++ a :: b :: post -> a <= b).
Proof.
  induction n as [|n IH]; intros r prev acc fo r' E; cbn [read_fanout] in E.
  - inversion E; subst. exists []. rewrite app_nil_r. repeat split; auto.
    intros a b pre post Hl. destruct pre as [|x [|y pre]]; cbn in Hl; inversion Hl.
    all: destruct pre; discriminate.
  - destruct (take 4 r) as [[w r1]|]; [|discriminate].
    destruct (get32 w <? prev) eqn:Hlt; [discriminate|].
    apply IH in E. destruct E as (l & -> & Hlen & Hs).
    exists (get32 w :: l). cbn [rev]. rewrite <- app_assoc. cbn [app].
    repeat split; [cbn; lia|].
    intros a b pre post Hl. destruct pre as [|x pre]; cbn in Hl; inversion Hl; subst.
    + apply N.ltb_ge in Hlt. exact Hlt.
    + eapply Hs. eassumption.
Qed.

(* a successfully decoded index has a monotone fanout table of 256 entries *)
Lemma decode_fanout_monotone file m :
  decode hs Hsz file = Ok m ->
  List.length (m_fanout m) = NFANOUT /\
  forall a b pre post, m_fanout m = pre ++ a :: b :: post -> a <= b.
Proof.
  unfold decode. intros E.
  destruct (take 4 file) as [[mg r1]|]; [|discriminate].
  destruct (negb (bytes_eqb mg IDX_MAGIC)); [discriminate|].
  destruct (take 4 r1) as [[vb r2]|]; [|discriminate].
  destruct (negb (get32 vb =? IDX_VERSION)); [discriminate|].
  destruct (read_fanout NFANOUT r2 0 []) as [[fo r3]|] eqn:Ef; [|discriminate].
  destruct (negb (size_ok hs (last fo 0) (blen file))); [discriminate|].
  destruct (read_seq _ r3) as [[names r4]|]; [|discriminate].
  destruct (read_seq _ r4) as [[crcs r5]|]; [|discriminate].
  destruct (read_seq _ r5) as [[offs r6]|]; [|discriminate].
  destruct (take _ r6) as [[off64 r7]|]; [|discriminate].
  destruct (take _ r7) as [[pack r8]|]; [|discriminate].
  destruct (take _ r8) as [[sum r9]|]; [|discriminate].
  destruct (negb (bytes_eqb sum _)); [discriminate|].
  inversion E; subst; cbn [m_fanout].
  apply read_fanout_sorted in Ef. destruct Ef as (l & -> & Hlen & Hs). cbn [rev app].
  split; [exact Hlen|].
  intros a b pre post Hl. apply (Hs a b (0 :: pre) post). cbn. now rewrite Hl.
Qed.

(* the size check of a decoded index held: the file length lies in git's [min,max] *)
Lemma decode_size_ok file m :
  decode hs Hsz file = Ok m -> size_ok hs (last (m_fanout m) 0) (blen file) = true.
Proof.
  unfold decode. intros E.
  destruct (take 4 file) as [[mg r1]|]; [|discriminate].
  destruct (negb (bytes_eqb mg IDX_MAGIC)); [discriminate|].
  destruct (take 4 r1) as [[vb r2]|]; [|discriminate].
  destruct (negb (get32 vb =? IDX_VERSION)); [discriminate|].
  destruct (read_fanout NFANOUT r2 0 []) as [[fo r3]|] eqn:Ef; [|discriminate].
  destruct (size_ok hs (last fo 0) (blen file)) eqn:Hs; [|discriminate]. cbn [negb] in E.
  destruct (read_seq _ r3) as [[names r4]|]; [|discriminate].
  destruct (read_seq _ r4) as [[crcs r5]|]; [|discriminate].
  destruct (read_seq _ r5) as [[offs r6]|]; [|discriminate].
  destruct (take _ r6) as [[off64 r7]|]; [|discriminate].
  destruct (take _ r7) as [[pack r8]|]; [|discriminate].
  destruct (take _ r8) as [[sum r9]|]; [|discriminate].
  destruct (negb (bytes_eqb sum _)); [discriminate|].
  inversion E; subst; cbn [m_fanout]. exact Hs.
Qed.

End Basic.
