(* Proofs/C49Sets.v — the parser of bracket expressions (Spec/Glob.parse_elems /
   parse_set) only looks at the bytes it consumes: what follows can be
   replaced, and more fuel changes nothing. *)
From Coq Require Import List NArith Bool Lia PeanoNat.
From GoGit Require Import Base.Out Spec.Glob.
Import ListNotations.
Local Open Scope N_scope.

Definition pe_cont (f : nat) (prev' : option N) (rs : list (N * N)) (rest : bytes) : option (list (N * N) * bytes) :=
  match rest with
  | [] => None
  | x :: after =>
    if x =? 93 then Some (rs, after)
    else match parse_elems f prev' rest with
         | Some (rs', rest') => Some (rs ++ rs', rest')
         | None => None
         end
  end.

Definition pe_body (f : nat) (prev : option N) (s : bytes) : option (list (N * N) * bytes) :=
  match s with
  | [] => None
  | c :: r =>
    if c =? 0 then None
    else if c =? 92 then
      match r with
      | e :: r' => if e =? 0 then None else pe_cont f (Some e) [(e, e)] r'
      | [] => None
      end
    else if (c =? 45) && is_some prev && match r with h :: _ => negb (h =? 93) | [] => false end then
      match prev, r with
      | Some lo, h :: r1 =>
        if h =? 92 then match r1 with e2 :: r2 => pe_cont f None [(lo, e2)] r2 | [] => None end
        else pe_cont f None [(lo, h)] r1
      | _, _ => None
      end
    else if (c =? 91) && match r with h :: _ => h =? 58 | [] => false end then
      match r with
      | _ :: r0 =>
        match cut_rb r0 with
        | None => None
        | Some (name', after) =>
          match rev name' with
          | [] => pe_cont f (Some c) [(c, c)] r
          | lastc :: rname =>
            if negb (lastc =? 58) then pe_cont f (Some c) [(c, c)] r
            else match class_ranges (rev rname) with
                 | Some rs => pe_cont f None rs after
                 | None => None
                 end
          end
        end
      | [] => None
      end
    else pe_cont f (Some c) [(c, c)] r
  end.

Lemma pe_unfold f prev s : parse_elems (S f) prev s = pe_body f prev s.
Proof. reflexivity. Qed.

Lemma cut_rb_app r0 : forall name after y, cut_rb r0 = Some (name, after) ->
  cut_rb (r0 ++ y) = Some (name, after ++ y).
Proof.
  induction r0 as [|c r IH]; intros name after y H; cbn in H; [discriminate|]. cbn [app cut_rb].
  destruct (c =? 93); [inversion H; reflexivity|].
  destruct (cut_rb r) as [[a b]|] eqn:E; [|discriminate]. inversion H; subst.
  now rewrite (IH _ _ y eq_refl).
Qed.

Lemma cut_rb_suffix r0 : forall name after, cut_rb r0 = Some (name, after) ->
  exists pre, r0 = pre ++ after /\ pre <> [].
Proof.
  induction r0 as [|c r IH]; intros name after H; cbn in H; [discriminate|].
  destruct (c =? 93); [inversion H; subst; exists [c]; split; [reflexivity|discriminate]|].
  destruct (cut_rb r) as [[a b]|] eqn:E; [|discriminate]. inversion H; subst.
  destruct (IH _ _ eq_refl) as (pre & -> & _). exists (c :: pre). split; [reflexivity|discriminate].
Qed.

(* what is proved of parse_elems at one fuel level *)
Definition PE (f : nat) : Prop :=
  forall prev s rs rest, parse_elems f prev s = Some (rs, rest) ->
    (exists pre, s = pre ++ rest /\ pre <> []) /\
    (forall y, parse_elems f prev (s ++ y) = Some (rs, rest ++ y)) /\
    (forall f', (f <= f')%nat -> parse_elems f' prev s = Some (rs, rest)).

Definition PC (f : nat) : Prop :=
  forall prev rs0 rest0 rs rest, pe_cont f prev rs0 rest0 = Some (rs, rest) ->
    (exists pre, rest0 = pre ++ rest /\ pre <> []) /\
    (forall y, pe_cont f prev rs0 (rest0 ++ y) = Some (rs, rest ++ y)) /\
    (forall f', (f <= f')%nat -> pe_cont f' prev rs0 rest0 = Some (rs, rest)).

Lemma PE_PC f : PE f -> PC f.
Proof.
  intros HPE prev rs0 rest0 rs rest H. unfold pe_cont in *.
  destruct rest0 as [|x after]; [discriminate|]. cbn [app].
  destruct (x =? 93).
  - inversion H; subst. split; [exists [x]; split; [reflexivity|discriminate]|]. split; reflexivity.
  - destruct (parse_elems f prev (x :: after)) as [[rs' rest']|] eqn:E; [|discriminate].
    inversion H; subst. destruct (HPE _ _ _ _ E) as (Hsuf & Happ & Hmono).
    split; [exact Hsuf|]. split.
    + intros y. change (x :: after ++ y) with ((x :: after) ++ y). now rewrite (Happ y).
    + intros f' Hf. now rewrite (Hmono f' Hf).
Qed.

Lemma PE_all : forall f, PE f.
Proof.
  induction f as [|f IH]; [intros prev s rs rest H; discriminate|].
  pose proof (PE_PC f IH) as HC.
  intros prev s rs rest H. rewrite pe_unfold in H.
  assert (Hmono_shape : forall f', (S f <= f')%nat -> exists f0, f' = S f0 /\ (f <= f0)%nat).
  { intros f' Hf. destruct f' as [|f0]; [lia|]. exists f0. split; [reflexivity|lia]. }
  (* transfer from a continuation *)
  assert (Hfrom : forall (hd : bytes) pv rs0 rest0,
            pe_cont f pv rs0 rest0 = Some (rs, rest) ->
            (exists pre, hd ++ rest0 = pre ++ rest /\ pre <> []) /\
            (forall y, pe_cont f pv rs0 (rest0 ++ y) = Some (rs, rest ++ y)) /\
            (forall f0, (f <= f0)%nat -> pe_cont f0 pv rs0 rest0 = Some (rs, rest))).
  { intros hd pv rs0 rest0 Hc. destruct (HC _ _ _ _ _ Hc) as ((pre & -> & Hne) & Happ & Hmono).
    split; [exists (hd ++ pre); split; [now rewrite app_assoc|destruct hd; [exact Hne|discriminate]]|].
    split; assumption. }
  unfold pe_body in H. destruct s as [|c r]; [discriminate|].
  destruct (c =? 0) eqn:C0; [discriminate|].
  destruct (c =? 92) eqn:C92.
  { destruct r as [|e r']; [discriminate|]. destruct (e =? 0) eqn:E0; [discriminate|].
    destruct (Hfrom [c; e] _ _ _ H) as (Hsuf & Happ & Hmono).
    split; [exact Hsuf|]. split.
    - intros y. cbn [app]. rewrite pe_unfold. unfold pe_body. rewrite C0, C92, E0. apply Happ.
    - intros f' Hf. destruct (Hmono_shape f' Hf) as (f0 & -> & Hf0).
      rewrite pe_unfold. unfold pe_body. rewrite C0, C92, E0. now apply Hmono. }
  destruct ((c =? 45) && is_some prev && match r with h :: _ => negb (h =? 93) | [] => false end) eqn:CD.
  { destruct prev as [lo|]; [|discriminate]. destruct r as [|h r1]; [discriminate|].
    destruct (h =? 92) eqn:H92.
    - destruct r1 as [|e2 r2]; [discriminate|].
      destruct (Hfrom [c; h; e2] _ _ _ H) as (Hsuf & Happ & Hmono).
      split; [exact Hsuf|]. split.
      + intros y. cbn [app]. rewrite pe_unfold. unfold pe_body. rewrite C0, C92, CD, H92. apply Happ.
      + intros f' Hf. destruct (Hmono_shape f' Hf) as (f0 & -> & Hf0).
        rewrite pe_unfold. unfold pe_body. rewrite C0, C92, CD, H92. now apply Hmono.
    - destruct (Hfrom [c; h] _ _ _ H) as (Hsuf & Happ & Hmono).
      split; [exact Hsuf|]. split.
      + intros y. cbn [app]. rewrite pe_unfold. unfold pe_body. rewrite C0, C92, CD, H92. apply Happ.
      + intros f' Hf. destruct (Hmono_shape f' Hf) as (f0 & -> & Hf0).
        rewrite pe_unfold. unfold pe_body. rewrite C0, C92, CD, H92. now apply Hmono. }
  assert (CD' : forall y, (c =? 45) && is_some prev && match r ++ y with h :: _ => negb (h =? 93) | [] => false end = false \/ r = []).
  { intros y. destruct r as [|h r1]; [now right|]. left. exact CD. }
  destruct ((c =? 91) && match r with h :: _ => h =? 58 | [] => false end) eqn:CP.
  { destruct r as [|c0 r0]; [discriminate|].
    destruct (cut_rb r0) as [[name' after]|] eqn:Ecut; [|discriminate].
    destruct (cut_rb_suffix _ _ _ Ecut) as (cpre & Ecpre & _).
    destruct (rev name') as [|lastc rname] eqn:Erev.
    { destruct (Hfrom [c] _ _ _ H) as (Hsuf & Happ & Hmono). split; [exact Hsuf|]. split.
      - intros y. cbn [app]. rewrite pe_unfold. unfold pe_body. rewrite C0, C92, CD, CP.
        rewrite (cut_rb_app _ _ _ y Ecut), Erev. apply (Happ y).
      - intros f' Hf. destruct (Hmono_shape f' Hf) as (f0 & -> & Hf0).
        rewrite pe_unfold. unfold pe_body. rewrite C0, C92, CD, CP, Ecut, Erev. now apply Hmono. }
    destruct (negb (lastc =? 58)) eqn:EL.
    { destruct (Hfrom [c] _ _ _ H) as (Hsuf & Happ & Hmono). split; [exact Hsuf|]. split.
      - intros y. cbn [app]. rewrite pe_unfold. unfold pe_body. rewrite C0, C92, CD, CP.
        rewrite (cut_rb_app _ _ _ y Ecut), Erev, EL. apply (Happ y).
      - intros f' Hf. destruct (Hmono_shape f' Hf) as (f0 & -> & Hf0).
        rewrite pe_unfold. unfold pe_body. rewrite C0, C92, CD, CP, Ecut, Erev, EL. now apply Hmono. }
    destruct (class_ranges (rev rname)) as [crs|] eqn:Ecls; [|discriminate].
    destruct (HC _ _ _ _ _ H) as ((pre & Epre & Hne) & Happ & Hmono).
    split.
    { exists (c :: c0 :: cpre ++ pre). split; [|discriminate].
      rewrite Ecpre, Epre. cbn [app]. now rewrite <- app_assoc. }
    split.
    - intros y. cbn [app]. rewrite pe_unfold. unfold pe_body. rewrite C0, C92, CD, CP.
      rewrite (cut_rb_app _ _ _ y Ecut), Erev, EL, Ecls. apply Happ.
    - intros f' Hf. destruct (Hmono_shape f' Hf) as (f0 & -> & Hf0).
      rewrite pe_unfold. unfold pe_body. rewrite C0, C92, CD, CP, Ecut, Erev, EL, Ecls. now apply Hmono. }
  (* a plain element: r is not empty, since the continuation succeeded *)
  destruct r as [|h r1]; [cbn in H; discriminate|].
  destruct (Hfrom [c] _ _ _ H) as (Hsuf & Happ & Hmono).
  split; [exact Hsuf|]. split.
  - intros y. cbn [app]. rewrite pe_unfold. unfold pe_body. rewrite C0, C92, CD, CP. apply Happ.
  - intros f' Hf. destruct (Hmono_shape f' Hf) as (f0 & -> & Hf0).
    rewrite pe_unfold. unfold pe_body. rewrite C0, C92, CD, CP. now apply Hmono.
Qed.

Lemma parse_set_app r it rest y : parse_set r = Some (it, rest) ->
  parse_set (r ++ y) = Some (it, rest ++ y).
Proof.
  unfold parse_set. destruct r as [|c r']; [discriminate|]. cbn [app].
  destruct ((c =? 33) || (c =? 94)).
  - destruct (parse_elems (S (List.length r')) None r') as [[rs rest']|] eqn:E; [|discriminate].
    intros H; inversion H; subst.
    destruct (PE_all _ _ _ _ _ E) as (_ & Happ & _).
    destruct (PE_all _ _ _ _ _ (Happ y)) as (_ & _ & Hmono).
    rewrite (Hmono (S (List.length (r' ++ y)))); [reflexivity|rewrite app_length; lia].
  - destruct (parse_elems (S (List.length (c :: r'))) None (c :: r')) as [[rs rest']|] eqn:E; [|discriminate].
    intros H; inversion H; subst.
    destruct (PE_all _ _ _ _ _ E) as (_ & Happ & _).
    destruct (PE_all _ _ _ _ _ (Happ y)) as (_ & _ & Hmono).
    change (c :: r' ++ y) with ((c :: r') ++ y).
    rewrite (Hmono (S (List.length ((c :: r') ++ y)))); [reflexivity|rewrite !app_length; cbn; lia].
Qed.

Lemma parse_set_suffix r it rest : parse_set r = Some (it, rest) ->
  exists pre, r = pre ++ rest /\ pre <> [].
Proof.
  unfold parse_set. destruct r as [|c r']; [discriminate|].
  destruct ((c =? 33) || (c =? 94)).
  - destruct (parse_elems (S (List.length r')) None r') as [[rs rest']|] eqn:E; [|discriminate].
    intros H; inversion H; subst.
    destruct (PE_all _ _ _ _ _ E) as ((pre & -> & _) & _). exists (c :: pre). split; [reflexivity|discriminate].
  - destruct (parse_elems (S (List.length (c :: r'))) None (c :: r')) as [[rs rest']|] eqn:E; [|discriminate].
    intros H; inversion H; subst.
    destruct (PE_all _ _ _ _ _ E) as (Hsuf & _). exact Hsuf.
Qed.
