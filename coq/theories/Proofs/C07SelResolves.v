(* Proofs/C07SelResolves.v — every graph the DeltaSelector model can hand to the encoder satisfies the
   hypotheses of C07_resolves, so the pack written from it resolves to the requested objects; and the
   depth bound fails once stored deltas are reused. *)
From Coq Require Import List NArith ZArith Arith Bool Lia.
From GoGit Require Import Base.Out Model.Delta Model.PackEnc Model.DeltaSel Proofs.C06Apply Proofs.C06Diff Proofs.C07
  Proofs.C07Select.
Import ListNotations.

Section Resolves.
Variable window : nat.
Variable objs : list sobj.
Variable order : list nat.
Variable dsz : nat -> nat -> Z.
Variable st : sstate.
Variable ord : list nat.
Hypothesis dsz_nonneg : forall b t, (0 <= dsz b t)%Z.
Hypothesis size_nonneg : forall u, (0 <= so_size (obj_at objs u))%Z.
Hypothesis Hsel : select window objs order dsz = inl (st, ord).

Variable content : nat -> bytes.       (* the bytes of the object with uid u *)
Variable stored : nat -> bytes.        (* the delta the storer holds for u, when it holds one *)
Variable pick : nat -> option nat.     (* diffDelta's candidate function *)

(* the storer is consistent: a stored delta applies to the object that carries the id of its base *)
Hypothesis store_ok : forall u b bk asz, so_stored (obj_at objs u) = Some (bk, asz) -> so_key (obj_at objs b) = bk ->
  patch_delta (content b) (stored u) = Ok (content u).
Hypothesis small : forall u, (len (content u) <= 2 ^ 32)%N.

Let nodes := sel_nodes objs st ord.
Let base0 := base_fun nodes.
Let orig (k : nat) : bytes := content (nth k ord 0%nat).

Theorem select_hyps : exists delta : nat -> bytes,
  (forall k b, base0 k = Some b -> (b < List.length ord)%nat) /\
  (forall k b, base0 k = Some b -> patch_delta (orig b) (delta k) = Ok (orig k)).
Proof.
  destruct (select_edges window objs order dsz st ord dsz_nonneg size_nonneg Hsel) as [reused [Hre _]].
  exists (fun k => match base0 k with
                   | Some b => if reused (nth k ord 0%nat) then stored (nth k ord 0%nat)
                               else match diff_delta pick (orig b) (orig k) with Some d => d | None => [] end
                   | None => []
                   end).
  split.
  - intros k b E. now destruct (sel_base_fun _ _ _ _ _ E) as [_ [B _]].
  - intros k b E. rewrite E. destruct (sel_base_fun _ _ _ _ _ E) as [_ [_ Hsb]].
    destruct (Hre _ _ Hsb) as [_ Hr].
    destruct (reused (nth k ord 0%nat)) eqn:Er.
    + destruct (Hr eq_refl) as [bk [asz [E1 E2]]]. unfold orig. now apply (store_ok _ _ bk asz).
    + assert (H63 : (len (orig k) < 2 ^ 63)%N).
      { eapply N.le_lt_trans; [apply small|]. reflexivity. }
      destruct (diff_roundtrip pick (orig b) (orig k) (small _) H63) as [d [Hd Hp]]. rewrite Hd. exact Hp.
Qed.

Theorem select_resolves : forall esize es, (forall o, (0 < esize o)%N) ->
  encode (List.length ord) base0 esize = Some es ->
  exists delta, resolved orig delta (rev es) = Some (map (fun e => (e_node e, orig (e_node e))) (rev es)).
Proof.
  intros esize es Hp He. destruct select_hyps as [delta [H1 H2]]. exists delta.
  eapply encode_resolves; eassumption.
Qed.
End Resolves.

(* ------------------------------------------------------------ reuse breaks the depth bound.
   21 blobs x0 > x1 > ... > x20 of decreasing size, each a small delta away from the previous one; a blob r,
   smaller, also close to x20; and 30 objects c1..c30 stored as a chain of deltas on r (c1 on r, c2 on c1, ...).
   fixAndBreakChains gives c_i Depth i (r has Depth 0 then); the walk makes x_k a delta of x_(k-1) (Depth k)
   and then r a delta of x20 (Depth 21): c30 now hangs 51 deltas deep although every recorded Depth is <= 30. *)
Definition wit_objs : list sobj :=
  map (fun k => mkSObj (N.of_nat k) 3 (2000 - Z.of_nat k) None) (seq 0 21)
  ++ [mkSObj 21 3 1975 None]
  ++ map (fun i => mkSObj (N.of_nat (21 + i)) 3 (900 - Z.of_nat i) (Some (N.of_nat (20 + i), 900 - Z.of_nat i)%Z)) (seq 1 30).


Definition wit_st : sstate :=
  match select 2 wit_objs (seq 0 52) (fun _ _ => 20%Z) with inl (st, _) => st | inr _ => mkSt (fun _ => None) (fun _ => 0%Z) (fun _ => 0%Z) (fun _ => false) end.

(* stated through the projection [wit_st] and closed by vm_compute, so that the kernel re-checks it with the
   virtual machine as well (its lazy conversion is hopeless on the selector's function-valued state) *)
Lemma reuse_depth_witness :
  select 2 wit_objs (seq 0 52) (fun _ _ => 20%Z) = inl (wit_st, seq 0 52) /\ sd wit_st 51%nat = 30%Z /\ chain_len (sb wit_st) 100 51 = 51%nat /\
  forallb (fun u => (sd wit_st u <=? 30)%Z) (seq 0 52) = true.
Proof. vm_compute. repeat split. Qed.
