(* Proofs/C05.v — the published collisions are collisions of the executable
   SHA-1, for every common suffix; wiring of the entry points. *)
From Coq Require Import List String Bool NArith Arith Lia.
From GoGit Require Import Base.Out Spec.SHA Spec.ShaAttack Proofs.SHA Gen.C05 Model.HashWiring.
Import ListNotations.

Lemma shattered_len : List.length shattered_1 = (64 * 5)%nat /\ List.length shattered_2 = (64 * 5)%nat.
Proof. split; vm_compute; reflexivity. Qed.

Lemma shattered_state : sha1_state shattered_1 = sha1_state shattered_2.
Proof. vm_compute. reflexivity. Qed.

Lemma shambles_len : List.length shambles_1 = (64 * 10)%nat /\ List.length shambles_2 = (64 * 10)%nat.
Proof. split; vm_compute; reflexivity. Qed.

Lemma shambles_state : sha1_state shambles_1 = sha1_state shambles_2.
Proof. vm_compute. reflexivity. Qed.

Lemma differ_at (a b s : bytes) i :
  (i < List.length a)%nat -> (i < List.length b)%nat -> nth i a 0%N <> nth i b 0%N -> a ++ s <> b ++ s.
Proof.
  intros Ha Hb Hn E. apply Hn.
  rewrite <- (app_nth1 a s 0%N Ha), <- (app_nth1 b s 0%N Hb). now rewrite E.
Qed.

Lemma shattered_family s :
  sha1 (shattered_1 ++ s) = sha1 (shattered_2 ++ s) /\ shattered_1 ++ s <> shattered_2 ++ s.
Proof.
  destruct shattered_len as [L1 L2]. split.
  - apply (sha1_extend 5); [exact L1 | exact L2 | exact shattered_state].
  - apply (differ_at _ _ _ 192); [rewrite L1; lia | rewrite L2; lia |].
    vm_compute. discriminate.
Qed.

Lemma shambles_family s :
  sha1 (shambles_1 ++ s) = sha1 (shambles_2 ++ s) /\ shambles_1 ++ s <> shambles_2 ++ s.
Proof.
  destruct shambles_len as [L1 L2]. split.
  - apply (sha1_extend 10); [exact L1 | exact L2 | exact shambles_state].
  - apply (differ_at _ _ _ 1); [rewrite L1; lia | rewrite L2; lia |].
    vm_compute. discriminate.
Qed.

Lemma shattered_digest :
  sha1 shattered_1 = unhex "f92d74e3874587aaf443d1db961d4e26dde13e9c"%string /\
  sha1 shattered_2 = unhex "f92d74e3874587aaf443d1db961d4e26dde13e9c"%string.
Proof. split; vm_compute; reflexivity. Qed.

Lemma shambles_digest :
  sha1 shambles_1 = unhex "8ac60ba76f1999a1ab70223f225aefdc78d4ddc0"%string /\
  sha1 shambles_2 = unhex "8ac60ba76f1999a1ab70223f225aefdc78d4ddc0"%string.
Proof. split; vm_compute; reflexivity. Qed.

Lemma shattered_collides :
  sha1 shattered_1 = sha1 shattered_2 /\ shattered_1 <> shattered_2 /\
  sha1 shattered_1 = unhex "f92d74e3874587aaf443d1db961d4e26dde13e9c"%string.
Proof.
  destruct (shattered_family []) as [E N]. rewrite !app_nil_r in *.
  exact (conj E (conj N (proj1 shattered_digest))).
Qed.

Lemma shambles_collides :
  sha1 shambles_1 = sha1 shambles_2 /\ shambles_1 <> shambles_2 /\
  sha1 shambles_1 = unhex "8ac60ba76f1999a1ab70223f225aefdc78d4ddc0"%string.
Proof.
  destruct (shambles_family []) as [E N]. rewrite !app_nil_r in *.
  exact (conj E (conj N (proj1 shambles_digest))).
Qed.

(* SHA-256 is not affected by these messages *)
Lemma sha256_distinguishes :
  sha256 shattered_1 <> sha256 shattered_2 /\ sha256 shambles_1 <> sha256 shambles_2.
Proof. split; vm_compute; discriminate. Qed.

Lemma bytes_eqb_refl : forall a, bytes_eqb a a = true.
Proof. induction a as [|x a IH]; cbn; [reflexivity|]. now rewrite N.eqb_refl, IH. Qed.

(* an entry point on plain SHA-1 emits the attacker's colliding digest for the
   whole family *)
Lemma plain_collides ks s :
  has_plain ks = true ->
  pair_out ks true (shattered_1 ++ s) (shattered_2 ++ s) = OOk [OSym "collides"%string] /\
  pair_out ks true (shambles_1 ++ s) (shambles_2 ++ s) = OOk [OSym "collides"%string].
Proof.
  intros Hp. unfold pair_out. rewrite Hp. cbn [orb].
  destruct (shattered_family s) as [E1 _]. destruct (shambles_family s) as [E2 _].
  now rewrite E1, E2, !bytes_eqb_refl.
Qed.

(* ---------- wiring over the regenerated table ---------- *)
Lemma wiring_all : forallb (safe table) entry_points = true.
Proof. vm_compute. reflexivity. Qed.

Lemma wiring e : In e entry_points -> safe table e = true.
Proof. intros Hin. exact (proj1 (forallb_forall _ _) wiring_all e Hin). Qed.

Lemma safe_no_plain tbl e : safe tbl e = true -> has_plain (sha1_ctors tbl e) = false.
Proof.
  unfold safe. destruct (sha1_ctors tbl e) as [|k ks] eqn:E; [discriminate|].
  intros Hall. unfold has_plain, has.
  assert (G : forall k0, detecting k0 = false -> existsb (ctor_eqb k0) (k :: ks) = false).
  { intros k0 Hk0. apply not_true_is_false. intros Hex. apply existsb_exists in Hex.
    destruct Hex as (x & Hin & Hx). rewrite forallb_forall in Hall. specialize (Hall x Hin).
    destruct k0, x; cbn in *; congruence. }
  now rewrite !G.
Qed.

Lemma wiring_no_plain e : In e entry_points -> has_plain (sha1_ctors table e) = false.
Proof. intros Hin. apply safe_no_plain. now apply wiring. Qed.

(* ---------- the tree before the repair (call lists recorded from the
   unfixed sources, commit 74be39e): the same predicate rejects it ---------- *)
Definition table_unfixed : list entry := [
  mkE "plumbing" "NewHasher" ["crypto.SHA256.New"; "crypto.SHA1.New"; "h.Reset"]%string;
  mkE "plumbing" "FromObjectFormat" ["crypto.SHA256.New"; "crypto.SHA1.New"]%string;
  mkE "phash" "New" ["panic"; "fmt.Sprintf"; "hh"]%string;
  mkE "packfile" "NewScanner" ["crc32.NewIEEE"; "gogithash.New"; "plumbing.NewHasher"; "packhash.Size"]%string;
  mkE "revfile" "readHashFunction" ["binary.ReadUint32"; "d.hasher.Available"; "d.hasher.New"]%string;
  mkE "dotgit" "PackWriter.save" ["crypto.SHA1.New"; "crypto.SHA256.New"; "w.encodeIdx"; "w.encodeRev"]%string;
  mkE "objfile" "Writer.prepareForWrite" ["plumbing.NewHasher"; "io.MultiWriter"]%string
].

Lemma unfixed_refuted :
  safe table_unfixed "plumbing.NewHasher" = false /\
  safe table_unfixed "plumbing.FromObjectFormat" = false /\
  safe table_unfixed "packfile.NewScanner" = false /\
  safe table_unfixed "revfile.readHashFunction" = false /\
  safe table_unfixed "dotgit.PackWriter.save" = false /\
  safe table_unfixed "objfile.Writer.prepareForWrite" = false /\
  safe table_unfixed "phash.New" = true.
Proof. vm_compute. repeat split. Qed.

Lemma wiring_unfixed_refuted :
  ~ (forall e, In e (map e_key table_unfixed) -> safe table_unfixed e = true).
Proof.
  intros Hall. destruct unfixed_refuted as [H _].
  rewrite (Hall "plumbing.NewHasher"%string) in H; [discriminate | now left].
Qed.
