(* Proofs/C18.v — the list caches of dotgit never hide a written object:
   refinement of the abstract disk (Spec/ObjDisk.v) by Model/ObjVis.v. *)
From Coq Require Import List NArith Bool Lia.
From GoGit Require Import Model.ObjVis Spec.ObjDisk.
Import ListNotations.
Local Open Scope N_scope.

(* the repaired tree, or no ExclusiveAccess *)
Definition guard (c : cfg) : bool := fixd c || negb (excl c).

Definition abs (s : st) : disk := Disk (loose s) (packs s) (ow s) (pw s).

Record inv (c : cfg) (s : st) : Prop := {
  inv_ol : forall l, olist s = Some l -> excl c = true /\ l = loose s;
  inv_pl : forall l, plist s = Some l -> excl c = true /\ l = packs s;
  inv_ix : forall l, index s = Some l -> forall p, memp p l = memp p (packs s);
  inv_h : forall p, memp p (handles s) = true -> memp p (packs s) = true;
  inv_pw : pw s = [] \/ exists l, index s = Some l   (* PackfileWriter ran requireIndex *)
}.

Ltac conj := repeat match goal with |- _ /\ _ => split end.

(* ---- sets and pack lists ---- *)

Lemma memp_In : forall p l, memp p l = true <-> In p l.
Proof.
  intros p l. unfold memp. rewrite existsb_exists. split.
  - intros [x [Hx He]]. apply N.eqb_eq in He. now subst.
  - intros H. exists p. split; [assumption | apply N.eqb_refl].
Qed.

Lemma memp_app : forall p l1 l2, memp p (l1 ++ l2) = memp p l1 || memp p l2.
Proof. intros. unfold memp. apply existsb_app. Qed.

Lemma memp_addp : forall q p l, memp q (addp p l) = (q =? p) || memp q l.
Proof.
  intros q p l. unfold addp. destruct (memp p l) eqn:E.
  - destruct (q =? p) eqn:Q; [apply N.eqb_eq in Q; subst; now rewrite E | reflexivity].
  - rewrite memp_app. cbn. rewrite orb_false_r. apply orb_comm.
Qed.

Lemma mem_union_all : forall k l, mem k (union_all l) = existsb (mem k) l.
Proof.
  intros k l. induction l as [|p r IH].
  - unfold mem. cbn. destruct k; reflexivity.
  - cbn [union_all fold_right existsb]. change (fold_right N.lor 0 r) with (union_all r).
    unfold mem in *. rewrite N.lor_spec. now rewrite IH.
Qed.

Lemma existsb_memp_ext : forall (f : N -> bool) l1 l2,
  (forall p, memp p l1 = memp p l2) -> existsb f l1 = existsb f l2.
Proof.
  intros f l1 l2 H.
  assert (A : forall a b, (forall p, memp p a = memp p b) -> existsb f a = true -> existsb f b = true).
  { intros a b Hab Ha. apply existsb_exists in Ha. destruct Ha as [x [Hx Hf]].
    apply existsb_exists. exists x. split; [|assumption].
    apply memp_In. rewrite <- Hab. now apply memp_In. }
  destruct (existsb f l1) eqn:E1, (existsb f l2) eqn:E2; try reflexivity.
  - apply (A l1 l2 H) in E1. congruence.
  - apply (A l2 l1) in E2; [congruence | intros; symmetry; apply H].
Qed.

Lemma union_all_ext : forall k l1 l2,
  (forall p, memp p l1 = memp p l2) -> mem k (union_all l1) = mem k (union_all l2).
Proof. intros. rewrite !mem_union_all. now apply existsb_memp_ext. Qed.

Lemma union_all_addp : forall k p l,
  mem k (union_all (addp p l)) = mem k p || mem k (union_all l).
Proof.
  intros k p l. unfold addp. destruct (memp p l) eqn:E.
  - rewrite !mem_union_all. destruct (mem k p) eqn:M; [|reflexivity].
    cbn. apply existsb_exists. exists p. split; [now apply memp_In | assumption].
  - rewrite !mem_union_all, existsb_app. cbn. rewrite orb_false_r. apply orb_comm.
Qed.

(* from here on, keep the set operations folded *)
Arguments memp : simpl never.
Arguments mem : simpl never.
Arguments addp : simpl never.
Arguments union_all : simpl never.

(* ---- the primitives of dotgit.go keep the invariant and answer from disk ---- *)

Lemma objects_ok : forall c s s' lo, inv c s -> objects c s = (s', lo) ->
  inv c s' /\ abs s' = abs s /\ lo = loose s /\ index s' = index s /\ handles s' = handles s.
Proof.
  intros c s s' lo I. unfold objects, gen_olist, olist_val.
  destruct (excl c) eqn:E.
  - destruct (olist s) eqn:O; intros H; inversion H; subst; clear H.
    + rewrite O. destruct (inv_ol _ _ I _ O) as [_ ->]. conj; auto.
    + destruct s; cbn in *. conj; auto.
      constructor; cbn; try apply I.
      intros l Hl. inversion Hl; auto.
  - intros H; inversion H; subst. conj; auto.
Qed.

Lemma loose_lookup_ok : forall c s k s' b, inv c s -> loose_lookup c s k = (s', b) ->
  inv c s' /\ abs s' = abs s /\ b = mem k (loose s) /\ index s' = index s /\ handles s' = handles s.
Proof.
  intros c s k s' b I. unfold loose_lookup, has_object, gen_olist, olist_val.
  destruct (excl c) eqn:E.
  - destruct (olist s) eqn:O; intros H; inversion H; subst; clear H.
    + rewrite O. destruct (inv_ol _ _ I _ O) as [_ ->]. conj; auto. apply andb_diag.
    + destruct s; cbn in *. conj; auto; [|apply andb_diag].
      constructor; cbn; try apply I.
      intros l Hl. inversion Hl; auto.
  - intros H; inversion H; subst. conj; auto.
Qed.

Lemma gen_plist_ok : forall c s, excl c = true -> inv c s ->
  inv c (gen_plist s) /\ abs (gen_plist s) = abs s /\ plist_val (gen_plist s) = packs s /\
  index (gen_plist s) = index s /\ handles (gen_plist s) = handles s.
Proof.
  intros c s E I. unfold gen_plist, plist_val. destruct (plist s) eqn:P.
  - rewrite P. destruct (inv_pl _ _ I _ P) as [_ ->]. conj; auto.
  - destruct s; cbn in *. conj; auto.
    constructor; cbn; try apply I.
    intros l Hl. inversion Hl; auto.
Qed.

Lemma object_packs_ok : forall c s s' ps, inv c s -> object_packs c s = (s', ps) ->
  inv c s' /\ abs s' = abs s /\ ps = packs s /\ index s' = index s /\ handles s' = handles s.
Proof.
  intros c s s' ps I. unfold object_packs. destruct (excl c) eqn:E; intros H; inversion H; subst; clear H.
  - destruct (gen_plist_ok c s E I) as (A & B & C & D & F). conj; auto.
  - conj; auto.
Qed.

Lemma pack_handle_ok : forall c s p s' ok, inv c s -> memp p (packs s) = true ->
  pack_handle c s p = (s', ok) ->
  inv c s' /\ abs s' = abs s /\ ok = true /\ index s' = index s.
Proof.
  intros c s p s' ok I Hp. unfold pack_handle.
  destruct (memp p (handles s)) eqn:Hh.
  - intros H; inversion H; subst. conj; auto.
  - unfold has_pack. destruct (excl c) eqn:E.
    + destruct (gen_plist_ok c s E I) as (A & B & C & D & F).
      rewrite C. assert (Pk : packs (gen_plist s) = packs s) by (inversion B; auto).
      rewrite Pk, Hp. cbn. intros H; inversion H; subst; clear H.
      conj; auto.
      * constructor; cbn; try apply A.
        intros q Hq. rewrite memp_app in Hq. apply orb_true_iff in Hq. destruct Hq as [Hq|Hq].
        -- rewrite Pk. apply I. now rewrite <- F.
        -- unfold memp in Hq. cbn in Hq. rewrite orb_false_r in Hq. apply N.eqb_eq in Hq. subst. now rewrite Pk.
    + rewrite Hp. cbn. intros H; inversion H; subst; clear H.
      conj; auto.
      * constructor; cbn; try apply I.
        intros q Hq. rewrite memp_app in Hq. apply orb_true_iff in Hq. destruct Hq as [Hq|Hq].
        -- now apply I.
        -- unfold memp in Hq. cbn in Hq. rewrite orb_false_r in Hq. apply N.eqb_eq in Hq. now subst.
Qed.

Lemma require_index_ok : forall c s, inv c s ->
  inv c (require_index c s) /\ abs (require_index c s) = abs s /\
  (exists l, index (require_index c s) = Some l) /\ handles (require_index c s) = handles s.
Proof.
  intros c s I. unfold require_index, populate. destruct (index s) eqn:X.
  - conj; eauto.
  - destruct (object_packs c s) as [s1 ps] eqn:OP.
    destruct (object_packs_ok _ _ _ _ I OP) as (A & B & C & D & F). subst ps.
    assert (Pk : packs s1 = packs s) by (inversion B; auto).
    conj.
    + constructor; cbn; try apply A.
      * intros l Hl. inversion Hl; subst. intros p. now rewrite Pk.
      * right. eauto.
    + destruct s1; cbn in *; auto.
    + cbn. eauto.
    + destruct s1; cbn in *; auto.
Qed.

Lemma open_all_ok : forall c ps s s' ok, inv c s ->
  (forall p, In p ps -> memp p (packs s) = true) ->
  (exists l, index s = Some l) ->
  open_all c s ps = (s', ok) ->
  inv c s' /\ abs s' = abs s /\ ok = true /\ index s' = index s.
Proof.
  intros c ps. induction ps as [|p r IH]; intros s s' ok I Hin Hix; cbn.
  - intros H; inversion H; subst. conj; auto.
  - destruct (pack_handle c s p) as [s1 o1] eqn:PH.
    assert (Hp : memp p (packs s) = true) by (apply Hin; now left).
    destruct (pack_handle_ok _ _ _ _ _ I Hp PH) as (A & B & C & D). subst o1.
    destruct Hix as [l Hl].
    assert (Pk : packs s1 = packs s) by (inversion B; auto).
    assert (M : memp p (index_val s1) = true).
    { unfold index_val. rewrite D, Hl. rewrite (inv_ix _ _ I _ Hl). exact Hp. }
    rewrite M. cbn. intros H.
    destruct (IH s1 s' ok A) as (A' & B' & C' & D'); auto.
    + intros q Hq. rewrite Pk. apply Hin. now right.
    + exists l. now rewrite D.
    + conj; auto; congruence.
Qed.

(* findObjectInPackfile against the disk *)
Lemma find_pack_some : forall c s k p, inv c s -> (exists l, index s = Some l) ->
  find_pack s k = Some p -> memp p (packs s) = true /\ visible (abs s) k = true.
Proof.
  intros c s k p I [l Hl] F. unfold find_pack, index_val in F. rewrite Hl in F.
  apply find_some in F. destruct F as [Hin Hm].
  assert (Hp : memp p (packs s) = true).
  { rewrite <- (inv_ix _ _ I _ Hl). now apply memp_In. }
  split; [assumption|].
  unfold visible, all_objects, mem. cbn. rewrite N.lor_spec.
  fold (mem k (union_all (packs s))). rewrite mem_union_all.
  apply orb_true_iff. right. apply existsb_exists. exists p. split; [now apply memp_In | assumption].
Qed.

Lemma find_pack_none : forall c s k, inv c s -> (exists l, index s = Some l) ->
  find_pack s k = None -> visible (abs s) k = mem k (loose s).
Proof.
  intros c s k I [l Hl] F. unfold find_pack, index_val in F. rewrite Hl in F.
  unfold visible, all_objects, mem. cbn. rewrite N.lor_spec.
  fold (mem k (union_all (packs s))).
  rewrite <- (union_all_ext k l (packs s) (inv_ix _ _ I _ Hl)).
  rewrite mem_union_all.
  assert (E : existsb (mem k) l = false).
  { destruct (existsb (mem k) l) eqn:E; [|reflexivity].
    apply existsb_exists in E. destruct E as [x [Hx Hm]].
    pose proof (find_none _ _ F x Hx) as N0. cbn in N0. congruence. }
  rewrite E. apply orb_false_r.
Qed.

Lemma index_all_objects : forall c s k l, inv c s -> index s = Some l ->
  mem k (N.lor (loose s) (union_all l)) = visible (abs s) k.
Proof.
  intros c s k l I Hl. unfold visible, all_objects, mem. cbn. rewrite !N.lor_spec.
  f_equal. apply (union_all_ext k l (packs s)). apply (inv_ix _ _ I _ Hl).
Qed.

(* ---- one step ---- *)

Lemma inv_init : forall c l ps, inv c (init_st l ps).
Proof. intros. constructor; cbn; try (intros; discriminate). now left. Qed.

Ltac inv_fields I := constructor; cbn; try apply I; try (intros; discriminate).

Lemma abs_eq : forall s s', abs s' = abs s ->
  loose s' = loose s /\ packs s' = packs s /\ ow s' = ow s /\ pw s' = pw s.
Proof. intros s s' H. inversion H. auto. Qed.

Lemma slot_some_nonempty : forall A w (l : list (nat * A)) x, slot_get w l = Some x -> l <> [].
Proof. intros A w l x H E. subst. discriminate. Qed.

Lemma step_refines : forall c s o s' r, guard c = true -> inv c s -> step c s o = (s', r) ->
  inv c s' /\ spec_step (abs s) o = (abs s', r).
Proof.
  intros c s o s' r G I. destruct o; cbn [step spec_step].
  - (* NewObj *)
    change (d_ow (abs s)) with (ow s).
    destruct (slot_get w (ow s)); intros H; inversion H; subst; clear H.
    + split; [assumption|reflexivity].
    + split; [|destruct s; reflexivity]. destruct s; inv_fields I.
  - (* CloseObj: a reader may have regenerated olist since NewObj *)
    change (d_ow (abs s)) with (ow s).
    destruct (slot_get w (ow s)) as [k|] eqn:W; intros H; inversion H; subst; clear H.
    + unfold obj_saved, clean_olist. unfold guard in G.
      destruct (fixd c) eqn:F.
      * split; [|destruct s; reflexivity]. destruct s; inv_fields I.
      * cbn in G. apply negb_true_iff in G.
        assert (O : olist s = None).
        { destruct (olist s) eqn:O; [|reflexivity]. destruct (inv_ol _ _ I _ O); congruence. }
        split; [|destruct s; reflexivity]. destruct s; cbn in *; subst; inv_fields I.
    + split; [assumption|reflexivity].
  - (* FailObj *)
    intros H; inversion H; subst; clear H. unfold clean_olist.
    split; [|destruct s; reflexivity]. destruct s; inv_fields I.
  - (* SetObj *)
    intros H; inversion H; subst; clear H.
    unfold obj_saved, clean_olist.
    split; [|destruct (fixd c); destruct s; reflexivity].
    destruct (fixd c); destruct s; inv_fields I.
  - (* NewPack *)
    change (d_pw (abs s)) with (pw s).
    destruct (slot_get w (pw s)) eqn:W; intros H; inversion H; subst; clear H.
    + split; [assumption|reflexivity].
    + destruct (require_index_ok c s I) as (A & B & [l C] & D).
      set (s1 := require_index c s) in *.
      destruct (abs_eq _ _ B) as (B1 & B2 & B3 & B4).
      split.
      * destruct s1; cbn in *. inv_fields A. right; eauto.
      * destruct s1; cbn in *; subst. reflexivity.
  - (* ClosePack *)
    change (d_pw (abs s)) with (pw s).
    destruct (slot_get w (pw s)) as [p|] eqn:W.
    2:{ intros H; inversion H; subst. split; [assumption|reflexivity]. }
    unfold guard in G.
    assert (PL : fixd c = false -> plist s = None).
    { intros F. rewrite F in G. cbn in G. apply negb_true_iff in G.
      destruct (plist s) eqn:P; [|reflexivity]. destruct (inv_pl _ _ I _ P); congruence. }
    assert (IX : exists l, index s = Some l).
    { destruct (inv_pw _ _ I) as [E|E]; [|exact E]. exfalso. eapply slot_some_nonempty; eauto. }
    destruct IX as [l IX].
    destruct (p =? 0) eqn:P0; intros H; inversion H; subst; clear H.
    + split; [|destruct (fixd c); destruct s; reflexivity].
      destruct (fixd c); destruct s; cbn in *; inv_fields I; right; eauto.
    + unfold pack_saved, index_val. cbn.
      split; [|destruct (fixd c); destruct s; reflexivity].
      assert (IX2 : forall q, memp q (addp p l) = memp q (addp p (packs s))).
      { intros q. rewrite !memp_addp. now rewrite (inv_ix _ _ I _ IX). }
      assert (HH : forall q, memp q (handles s) = true -> memp q (addp p (packs s)) = true).
      { intros q Hq. rewrite memp_addp. apply orb_true_iff. right. now apply I. }
      destruct (fixd c) eqn:F.
      * destruct s; cbn in *; subst. constructor; cbn.
        -- apply I. -- intros; discriminate.
        -- intros l' Hl q. inversion Hl; subst. apply IX2.
        -- exact HH.
        -- right; eauto.
      * specialize (PL eq_refl). destruct s; cbn in *; subst. constructor; cbn.
        -- apply I. -- intros; discriminate.
        -- intros l' Hl q. inversion Hl; subst. apply IX2.
        -- exact HH.
        -- right; eauto.
  - (* Has *)
    destruct (require_index_ok c s I) as (A & B & C & D).
    set (s1 := require_index c s) in *.
    destruct (find_pack s1 k) as [p|] eqn:F.
    + intros H; inversion H; subst; clear H. split; [exact A|].
      destruct (find_pack_some _ _ _ _ A C F) as [_ V]. rewrite B in V. now rewrite V, B.
    + destruct (loose_lookup c s1 k) as [s2 b] eqn:L. intros H; inversion H; subst; clear H.
      destruct (loose_lookup_ok _ _ _ _ _ A L) as (A2 & B2 & C2 & _).
      split; [exact A2|]. pose proof (find_pack_none _ _ _ A C F) as V. rewrite B in V.
      now rewrite B2, B, V, C2.
  - (* Size *)
    destruct (require_index_ok c s I) as (A & B & C & D).
    set (s1 := require_index c s) in *.
    destruct (find_pack s1 k) as [p|] eqn:F.
    + destruct (pack_handle c s1 p) as [s2 ok] eqn:PH. intros H; inversion H; subst; clear H.
      destruct (find_pack_some _ _ _ _ A C F) as [Hp V].
      destruct (pack_handle_ok _ _ _ _ _ A Hp PH) as (A2 & B2 & -> & _).
      split; [exact A2|]. rewrite B in V. now rewrite V, B2, B.
    + destruct (loose_lookup c s1 k) as [s2 b] eqn:L. intros H; inversion H; subst; clear H.
      destruct (loose_lookup_ok _ _ _ _ _ A L) as (A2 & B2 & C2 & _).
      split; [exact A2|]. pose proof (find_pack_none _ _ _ A C F) as V. rewrite B in V.
      now rewrite B2, B, V, C2.
  - (* Get *)
    destruct (require_index_ok c s I) as (A & B & C & D).
    set (s1 := require_index c s) in *.
    destruct (find_pack s1 k) as [p|] eqn:F.
    + destruct (pack_handle c s1 p) as [s2 ok] eqn:PH. intros H; inversion H; subst; clear H.
      destruct (find_pack_some _ _ _ _ A C F) as [Hp V].
      destruct (pack_handle_ok _ _ _ _ _ A Hp PH) as (A2 & B2 & -> & _).
      split; [exact A2|]. rewrite B in V. rewrite V, B2, B. cbn. now destruct (has_type t k).
    + destruct (loose_lookup c s1 k) as [s2 b] eqn:L. intros H; inversion H; subst; clear H.
      destruct (loose_lookup_ok _ _ _ _ _ A L) as (A2 & B2 & C2 & _).
      split; [exact A2|]. pose proof (find_pack_none _ _ _ A C F) as V. rewrite B in V.
      now rewrite B2, B, V, C2.
  - (* Iter *)
    destruct (objects c s) as [s1 lo] eqn:O.
    destruct (objects_ok _ _ _ _ I O) as (A1 & B1 & -> & _).
    destruct (require_index_ok c s1 A1) as (A2 & B2 & C2 & _).
    set (s2 := require_index c s1) in *.
    destruct (object_packs c s2) as [s3 ps] eqn:OP.
    destruct (object_packs_ok _ _ _ _ A2 OP) as (A3 & B3 & -> & D3 & _).
    destruct (open_all c s3 (packs s2)) as [s4 ok] eqn:OA.
    destruct (abs_eq _ _ B3) as (_ & P3 & _).
    destruct (abs_eq _ _ B2) as (_ & P2 & _).
    destruct (abs_eq _ _ B1) as (_ & P1 & _).
    destruct (open_all_ok _ _ _ _ _ A3 (fun p Hp => eq_ind_r (fun x => memp p x = true) (proj2 (memp_In _ _) Hp) P3)
                (eq_ind_r (fun x => exists l, x = Some l) C2 D3) OA) as (A4 & B4 & -> & _).
    intros H; inversion H; subst; clear H.
    split; [exact A4|]. rewrite B4, B3, B2, B1. unfold all_objects. cbn. now rewrite P2, P1.
  - (* Prefix *)
    destruct (objects c s) as [s1 lo] eqn:O.
    destruct (objects_ok _ _ _ _ I O) as (A1 & B1 & -> & _).
    destruct (require_index_ok c s1 A1) as (A2 & B2 & [l C2] & _).
    set (s2 := require_index c s1) in *.
    intros H; inversion H; subst; clear H.
    split; [exact A2|]. rewrite B2, B1.
    destruct (abs_eq _ _ B2) as (L2 & _). destruct (abs_eq _ _ B1) as (L1 & _).
    unfold index_val. rewrite C2. rewrite <- L1, <- L2.
    rewrite (index_all_objects _ _ k _ A2 C2). now rewrite B2, B1.
  - (* Packs *)
    destruct (object_packs c s) as [s1 ps] eqn:OP.
    destruct (object_packs_ok _ _ _ _ I OP) as (A & B & -> & _).
    intros H; inversion H; subst; clear H. split; [exact A|]. now rewrite B.
  - (* Del *)
    unfold clean_olist. change (d_loose (abs s)) with (loose s).
    replace (loose (set_olist s None)) with (loose s) by (destruct s; reflexivity).
    destruct (mem k (loose s)) eqn:M; intros H; inversion H; subst; clear H.
    + split; [|destruct s; reflexivity]. destruct s; inv_fields I.
    + split; [|destruct s; reflexivity]. destruct s; inv_fields I.
  - (* Reindex *)
    unfold populate. destruct (object_packs c s) as [s1 ps] eqn:OP.
    destruct (object_packs_ok _ _ _ _ I OP) as (A & B & -> & _).
    intros H; inversion H; subst; clear H.
    destruct (abs_eq _ _ B) as (_ & P & _).
    split.
    + destruct s1; cbn in *. inv_fields A.
      * intros l Hl q. inversion Hl; subst. reflexivity.
      * right; eauto.
    + rewrite <- B. destruct s1; reflexivity.
Qed.

Lemma run_refines : forall c ops s s' rs, guard c = true -> inv c s -> run c s ops = (s', rs) ->
  inv c s' /\ spec_run (abs s) ops = (abs s', rs).
Proof.
  intros c ops. induction ops as [|o r IH]; intros s s' rs G I; cbn.
  - intros H; inversion H; subst. split; [assumption|reflexivity].
  - destruct (step c s o) as [s1 x] eqn:S.
    destruct (step_refines _ _ _ _ _ G I S) as [I1 E1]. rewrite E1.
    destruct (run c s1 r) as [s2 xs] eqn:R.
    destruct (IH _ _ _ G I1 R) as [I2 E2]. rewrite E2.
    intros H; inversion H; subst. split; [assumption|reflexivity].
Qed.

(* ---- the theorems ---- *)

Theorem refines_disk : forall c l0 p0 ops, guard c = true ->
  snd (run c (init_st l0 p0) ops) = snd (spec_run (init_disk l0 p0) ops).
Proof.
  intros c l0 p0 ops G.
  destruct (run c (init_st l0 p0) ops) as [s' rs] eqn:R.
  destruct (run_refines _ _ _ _ _ G (inv_init c l0 p0) R) as [_ E].
  change (abs (init_st l0 p0)) with (init_disk l0 p0) in E. now rewrite E.
Qed.

(* whichever pack the routing (MRU hint, cache) picks among the indexed ones,
   the hasPack gate and the handle catalog let the read through *)
Theorem gate_open : forall c l0 p0 ops p, guard c = true ->
  let s := fst (run c (init_st l0 p0) ops) in
  memp p (index_val s) = true -> snd (pack_handle c s p) = true.
Proof.
  intros c l0 p0 ops p G s Hp. subst s.
  destruct (run c (init_st l0 p0) ops) as [s rs] eqn:R. cbn [fst] in *.
  destruct (run_refines _ _ _ _ _ G (inv_init c l0 p0) R) as [I _].
  unfold index_val in Hp. destruct (index s) as [l|] eqn:X; [|discriminate].
  rewrite (inv_ix _ _ I _ X) in Hp.
  destruct (pack_handle c s p) as [s2 ok] eqn:PH.
  now destruct (pack_handle_ok _ _ _ _ _ I Hp PH) as (_ & _ & -> & _).
Qed.

(* facts about the abstract disk *)

Lemma spec_run_app : forall a b d,
  spec_run d (a ++ b) =
  (fst (spec_run (fst (spec_run d a)) b), snd (spec_run d a) ++ snd (spec_run (fst (spec_run d a)) b)).
Proof.
  induction a as [|o r IH]; intros b d; cbn.
  - now destruct (spec_run d b).
  - destruct (spec_step d o) as [d1 x]. rewrite IH.
    destruct (spec_run d1 r) as [d2 xs]. cbn.
    now destruct (spec_run d2 b).
Qed.

Lemma spec_step_loose : forall k d o, mem k (d_loose d) = true -> is_del k o = false ->
  mem k (d_loose (fst (spec_step d o))) = true.
Proof.
  intros k d o M D. destruct o; cbn in *;
    repeat match goal with |- context [match ?x with _ => _ end] => destruct x eqn:? end; cbn; auto.
  - unfold mem. rewrite N.setbit_eqb. unfold mem in M. rewrite M. apply orb_true_r.
  - unfold mem. rewrite N.setbit_eqb. unfold mem in M. rewrite M. apply orb_true_r.
  - unfold mem in *. rewrite N.clearbit_eqb, M. cbn.
    now rewrite D.
Qed.

Lemma spec_run_loose : forall k ops d, mem k (d_loose d) = true -> forallb (fun o => negb (is_del k o)) ops = true ->
  mem k (d_loose (fst (spec_run d ops))) = true.
Proof.
  intros k ops. induction ops as [|o r IH]; intros d M D; cbn in *; [assumption|].
  apply andb_true_iff in D. destruct D as [D1 D2]. apply negb_true_iff in D1.
  pose proof (spec_step_loose k d o M D1) as M1.
  destruct (spec_step d o) as [d1 x]. cbn in M1.
  specialize (IH d1 M1 D2). now destruct (spec_run d1 r).
Qed.

Definition packed (d : disk) (k : oid) : bool := mem k (union_all (d_packs d)).

Lemma spec_step_packed : forall k d o, packed d k = true -> packed (fst (spec_step d o)) k = true.
Proof.
  intros k d o M. destruct o; cbn in *;
    repeat match goal with |- context [match ?x with _ => _ end] => destruct x eqn:? end; cbn; auto.
  unfold packed in *. cbn. rewrite union_all_addp, M. apply orb_true_r.
Qed.

Lemma spec_run_packed : forall k ops d, packed d k = true -> packed (fst (spec_run d ops)) k = true.
Proof.
  intros k ops. induction ops as [|o r IH]; intros d M; cbn; [assumption|].
  pose proof (spec_step_packed k d o M) as M1.
  destruct (spec_step d o) as [d1 x]. cbn in M1.
  specialize (IH d1 M1). now destruct (spec_run d1 r).
Qed.

Lemma visible_loose : forall d k, mem k (d_loose d) = true -> visible d k = true.
Proof. intros d k M. unfold visible, all_objects, mem in *. now rewrite N.lor_spec, M. Qed.
Lemma visible_packed : forall d k, packed d k = true -> visible d k = true.
Proof. intros d k M. unfold visible, all_objects, packed, mem in *. rewrite N.lor_spec, M. apply orb_true_r. Qed.

Lemma lookup_finds : forall d k q, visible d k = true -> is_lookup k q = true ->
  finds k q (snd (spec_step d q)) = true.
Proof.
  intros d k q V L. destruct q; cbn in *; try discriminate.
  - apply N.eqb_eq in L. subst. now rewrite V, N.eqb_refl.
  - apply N.eqb_eq in L. subst. rewrite V. apply N.eqb_refl.
  - destruct t; try discriminate. apply N.eqb_eq in L. subst. rewrite V. cbn. apply N.eqb_refl.
  - destruct t; try discriminate. exact V.
  - apply N.eqb_eq in L. subst. now rewrite V, N.eqb_refl.
Qed.

Lemma last_spec : forall d ops q,
  last (snd (spec_run d (ops ++ [q]))) ROk = snd (spec_step (fst (spec_run d ops)) q).
Proof.
  intros d ops q. rewrite spec_run_app. cbn [snd].
  destruct (spec_run d ops) as [d1 rs]. cbn [fst snd].
  cbn. destruct (spec_step d1 q) as [d2 x]. cbn. apply last_last.
Qed.

(* S: an object is found by every lookup after the Close of its writer *)
Lemma spec_visible_after_close : forall d ops1 w k ops2 q,
  slot_get w (d_ow (fst (spec_run d ops1))) = Some k ->
  forallb (fun o => negb (is_del k o)) ops2 = true ->
  is_lookup k q = true ->
  finds k q (last (snd (spec_run d (ops1 ++ CloseObj w :: ops2 ++ [q]))) ROk) = true.
Proof.
  intros d ops1 w k ops2 q W D L.
  replace (ops1 ++ CloseObj w :: ops2 ++ [q]) with ((ops1 ++ CloseObj w :: ops2) ++ [q])
    by (rewrite <- app_assoc; reflexivity).
  rewrite last_spec. apply lookup_finds; [|assumption]. apply visible_loose.
  rewrite spec_run_app. cbn [fst].
  destruct (spec_run d ops1) as [d1 r1]. cbn [fst] in *.
  cbn [spec_run spec_step]. rewrite W.
  match goal with |- context [spec_run ?dd ops2] => pose proof (spec_run_loose k ops2 dd) as P end.
  cbn [d_loose] in P.
  destruct (spec_run _ ops2) as [d3 r3]. cbn [fst] in *. apply P; [|assumption].
  unfold mem. rewrite N.setbit_eqb, N.eqb_refl. reflexivity.
Qed.

Lemma spec_visible_after_pack_close : forall d ops1 w p k ops2 q,
  slot_get w (d_pw (fst (spec_run d ops1))) = Some p ->
  mem k p = true ->
  is_lookup k q = true ->
  finds k q (last (snd (spec_run d (ops1 ++ ClosePack w :: ops2 ++ [q]))) ROk) = true.
Proof.
  intros d ops1 w p k ops2 q W M L.
  replace (ops1 ++ ClosePack w :: ops2 ++ [q]) with ((ops1 ++ ClosePack w :: ops2) ++ [q])
    by (rewrite <- app_assoc; reflexivity).
  rewrite last_spec. apply lookup_finds; [|assumption]. apply visible_packed.
  rewrite spec_run_app. cbn [fst].
  destruct (spec_run d ops1) as [d1 r1]. cbn [fst] in *.
  cbn [spec_run spec_step]. rewrite W.
  assert (P0 : (p =? 0) = false).
  { destruct (p =? 0) eqn:E; [|reflexivity]. apply N.eqb_eq in E. subst.
    unfold mem in M. now rewrite N.bits_0 in M. }
  rewrite P0.
  match goal with |- context [spec_run ?dd ops2] => pose proof (spec_run_packed k ops2 dd) as P end.
  destruct (spec_run _ ops2) as [d3 r3]. cbn [fst] in *. apply P.
  unfold packed. cbn [d_packs]. rewrite union_all_addp, M. reflexivity.
Qed.

Lemma fst_run_abs : forall c l0 p0 ops, guard c = true ->
  abs (fst (run c (init_st l0 p0) ops)) = fst (spec_run (init_disk l0 p0) ops).
Proof.
  intros c l0 p0 ops G.
  destruct (run c (init_st l0 p0) ops) as [s' rs] eqn:R.
  destruct (run_refines _ _ _ _ _ G (inv_init c l0 p0) R) as [_ E].
  change (abs (init_st l0 p0)) with (init_disk l0 p0) in E. now rewrite E.
Qed.

(* G: the same, for the implementation model *)
Theorem visible_after_close : forall c l0 p0 ops1 w k ops2 q, guard c = true ->
  slot_get w (ow (fst (run c (init_st l0 p0) ops1))) = Some k ->
  forallb (fun o => negb (is_del k o)) ops2 = true ->
  is_lookup k q = true ->
  finds k q (last (snd (run c (init_st l0 p0) (ops1 ++ CloseObj w :: ops2 ++ [q]))) ROk) = true.
Proof.
  intros c l0 p0 ops1 w k ops2 q G W D L.
  rewrite refines_disk by assumption.
  apply spec_visible_after_close; try assumption.
  rewrite <- (fst_run_abs c) by assumption. exact W.
Qed.

Theorem visible_after_pack_close : forall c l0 p0 ops1 w p k ops2 q, guard c = true ->
  slot_get w (pw (fst (run c (init_st l0 p0) ops1))) = Some p ->
  mem k p = true ->
  is_lookup k q = true ->
  finds k q (last (snd (run c (init_st l0 p0) (ops1 ++ ClosePack w :: ops2 ++ [q]))) ROk) = true.
Proof.
  intros c l0 p0 ops1 w p k ops2 q G W M L.
  rewrite refines_disk by assumption.
  apply (spec_visible_after_pack_close _ _ _ p); try assumption.
  rewrite <- (fst_run_abs c) by assumption. exact W.
Qed.

(* the tree before the repair: ExclusiveAccess, a lookup while the writer is open *)
Theorem unrepaired_refuted :
  snd (run (Cfg true false) (init_st 0 []) [NewObj 0 1; Has 2; CloseObj 0; Has 1; Get 1 TAny; Iter TAny])
  = [ROk; RBool false; ROk; RBool false; RErr ENotFound; RSet 0].
Proof. vm_compute. reflexivity. Qed.

Theorem unrepaired_pack_refuted :
  snd (run (Cfg true false) (init_st 0 [9]) [NewPack 0 22; Packs; ClosePack 0; Has 1; Get 1 TAny; Iter TAny; Packs])
  = [ROk; RPacks [9]; ROk; RBool true; RErr EPackNotFound; RSet 9; RPacks [9]].
Proof. vm_compute. reflexivity. Qed.
