(* Proofs/C42.v — IsAncestor and isFastForward through the pre-order walker
   theorem of Proofs/C43.v. *)
From Coq Require Import List Arith ZArith Bool Lia.
From GoGit Require Import Spec.Dag Model.CommitWalk Model.MergeBase Proofs.Worklist Proofs.C43.
Import ListNotations.

(* a walk that stops at [c]: stopped iff c is reachable *)
Lemma stop_walk_decides : forall g (c s : node) r,
  Post (parents g) (Nat.eqb c) [] s r ->
  (snd r = WStop /\ reach g s c) \/ (snd r = WEof /\ ~ reach g s c).
Proof.
  intros g c s [l e] P. unfold Post in P.
  destruct P as [[He [_ [Hin [Hst _]]]] | [He [l' [c' [_ [Hs [Hra _]]]]]]].
  - right. split; [exact He|]. intros Hr. apply ra_reach in Hr. apply Hin in Hr.
    apply Hst in Hr. now rewrite Nat.eqb_refl in Hr.
  - left. split; [exact He|]. apply Nat.eqb_eq in Hs. subst c'. now apply ra_reach.
Qed.

Theorem is_ancestor_spec : forall g (a b : node),
  dag_ok g = true -> dag_closed g = true -> b < nnodes g ->
  is_ancestor g a b = BOk (is_anc g a b).
Proof.
  intros g a b Hok Hc Hb. unfold is_ancestor.
  pose proof (pre_walk_post g Hc (Nat.eqb a) [] b Hb) as P.
  destruct (stop_walk_decides _ _ _ _ P) as [[He Hr] | [He Hr]];
    destruct (pre_walk g (Nat.eqb a) (walk_fuel g) b []) as [l e]; simpl in He; subst e.
  - apply (is_anc_spec g a b Hok) in Hr. now rewrite Hr.
  - destruct (is_anc g a b) eqn:E; [|reflexivity].
    apply (is_anc_spec g a b Hok) in E. contradiction.
Qed.

(* isFastForward without shallow boundaries *)
Theorem is_fast_forward_spec : forall g (old new : node),
  dag_ok g = true -> dag_closed g = true -> new < nnodes g ->
  is_fast_forward g old new [] = BOk (is_anc g old new).
Proof.
  intros g old new Hok Hc Hn. unfold is_fast_forward.
  assert (Hp : present g new = true) by (unfold present; now apply Nat.ltb_lt).
  rewrite Hp. simpl.
  pose proof (pre_walk_post g Hc (Nat.eqb old) [] new Hn) as P.
  destruct (stop_walk_decides _ _ _ _ P) as [[He Hr] | [He Hr]];
    destruct (pre_walk g (Nat.eqb old) (walk_fuel g) new []) as [l e]; simpl in He; subst e.
  - apply (is_anc_spec g old new Hok) in Hr. now rewrite Hr.
  - assert (E : is_anc g old new = false).
    { destruct (is_anc g old new) eqn:E; [|reflexivity].
      apply (is_anc_spec g old new Hok) in E. contradiction. }
    rewrite E. f_equal. clear. induction l as [|x r IH]; [reflexivity|]. simpl. exact IH.
Qed.
