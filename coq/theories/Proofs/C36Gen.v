(* Proofs/C36Gen.v — interface lemmas between the definitions gotrans
   regenerates from plumbing/transport/negotiate.go (Gen/C36.v) and the model:
   the flush constants (a change of initialFlush, pipeSafeFlush, largeFlush or maxInVein in the source breaks this lemma). *)
From Coq Require Import ZArith Lia Arith.
From GoGit Require Import Base.GoInt Gen.C36 Model.FetchProto.
Local Open Scope Z_scope.

Lemma gen_constants :
  transport_initialFlush = Z.of_nat INITIAL_FLUSH /\ transport_pipeSafeFlush = Z.of_nat PIPESAFE_FLUSH /\
  transport_largeFlush = Z.of_nat LARGE_FLUSH /\ transport_maxInVein = Z.of_nat MAX_IN_VEIN.
Proof. vm_compute. repeat split; reflexivity. Qed.

