(* Proofs/C20Ext.v — the extension pointers of the cached index against the file (Model/IndexCacheExt.v). *)
From Coq Require Import List NArith Arith Lia Bool.
From GoGit Require Import Base.Out Model.IndexCacheExt.
Import ListNotations.

(* a read returns what the file holds *)
Definition ereads_disk (s : est) : Prop := fst (eread_now s) = edisk_ext s.

(* keys are never ahead of the clock; a cache entry stored under the file's key agrees with the file *)
Definition einv (s : est) : Prop :=
  (forall x k, edisk s = Some (x, k) -> k <= eclock s) /\
  (forall cx k, ecache s = Some (cx, k) -> k <= eclock s) /\
  (forall x key cx, edisk s = Some (x, key) -> ecache s = Some (cx, key) -> cx = x).

Lemma einv_reads s : einv s -> ereads_disk s.
Proof.
  intros (_ & _ & Hc). unfold ereads_disk, eread_now, eindex_core, edisk_ext.
  destruct (edisk s) as [[x key]|]; [|reflexivity].
  destruct (ecache s) as [[cx k]|]; [|reflexivity].
  destruct (Nat.eqb k key) eqn:E; [|reflexivity].
  apply Nat.eqb_eq in E. subst k. cbn. now apply (Hc x key cx).
Qed.

Ltac inj_all := repeat match goal with H : Some _ = Some _ |- _ => inversion H; subst; clear H end.

Lemma einv_index s : einv s -> einv (snd (eindex_core s)).
Proof.
  intros Hi. pose proof Hi as (Hd & Hk & Hc). unfold eindex_core.
  destruct (edisk s) as [[x key]|] eqn:Ed in |- *.
  - assert (Hkey : key <= eclock s) by apply (Hd x key Ed).
    destruct (ecache s) as [[cx k]|] eqn:Ec in |- *; [destruct (Nat.eqb k key) eqn:E|]; cbn [snd]; try exact Hi;
      (split; [|split]; cbn [edisk eclock ecache]; intros; inj_all; auto).
  - cbn [snd]. split; [|split]; cbn [edisk eclock ecache]; intros; discriminate.
Qed.

Lemma einv_step s o : einv s -> einv (estep true s o).
Proof.
  intros Hi. destruct o as [|h|h|x| |]; cbn [estep]; [| | | | |exact Hi].
  - pose proof (einv_index s Hi) as Hi'. destruct (eindex_core s) as [x s1]. cbn [snd] in Hi'.
    destruct Hi' as (Hd & Hk & Hc). exact (conj Hd (conj Hk Hc)).
  - destruct (nth_error (ehandles s) h); [|exact Hi].
    split; [|split]; cbn [edisk eclock ecache]; intros.
    + injection H as <- <-. lia.
    + injection H as <- <-. lia.
    + injection H as <- <-. now injection H0 as <-.
  - destruct (nth_error (ehandles s) h); [|exact Hi].
    destruct Hi as (Hd & Hk & Hc). exact (conj Hd (conj Hk Hc)).
  - destruct Hi as (Hd & Hk & Hc). split; [|split]; cbn [edisk eclock ecache]; intros.
    + injection H as <- <-. lia.
    + specialize (Hk _ _ H). lia.
    + injection H as <- <-. specialize (Hk _ _ H0). lia.
  - destruct Hi as (Hd & Hk & Hc). split; [|split]; cbn [edisk eclock ecache]; intros; try discriminate.
    now apply Hk with cx.
Qed.

Lemma einv_init : einv einit.
Proof. split; [|split]; cbn; intros; discriminate. Qed.

Lemma einv_run_from : forall ops s, einv s -> einv (fold_left (estep true) ops s).
Proof. induction ops as [|o ops IH]; intros s Hs; [exact Hs|]. cbn [fold_left]. apply IH. now apply einv_step. Qed.

(* SetIndex caches what it wrote: after every history a read returns what the file holds *)
Theorem ext_fixed_all_histories : forall ops, ereads_disk (erun true ops) /\ einv (erun true ops).
Proof. intros ops. pose proof (einv_run_from ops einit einv_init) as Hi. split; [now apply einv_reads|exact Hi]. Qed.

(* the tree as found: an Index read from a file with a TREE extension, written back, is cached with
   its Cache pointer although the file SetIndex wrote has no extension *)
Definition stale_witness : list eop := [EExternal true; EIndex; ESetIndex 0].

Theorem ext_stale_refuted :
  fst (eread_now (erun false stale_witness)) = true /\ edisk_ext (erun false stale_witness) = false.
Proof. vm_compute. split; reflexivity. Qed.

Theorem ext_fixed_witness : fst (eread_now (erun true stale_witness)) = false.
Proof. reflexivity. Qed.

(* ... it holds of the tree as found exactly when the handle given to SetIndex reports no extensions:
   no external writer adds any, or the caller cleared them *)
Fixpoint no_ext (ops : list eop) : bool :=
  match ops with
  | [] => true
  | EExternal true :: _ => false
  | _ :: r => no_ext r
  end.

Definition all_false (s : est) : Prop :=
  (forall x k, edisk s = Some (x, k) -> x = false) /\ (forall cx k, ecache s = Some (cx, k) -> cx = false) /\
  Forall (fun b => b = false) (ehandles s).

Lemma eset_nth_false k l : Forall (fun b => b = false) l -> Forall (fun b => b = false) (eset_nth k false l).
Proof.
  revert k. induction l as [|y l IH]; intros k Hl; destruct k; cbn; try constructor; inversion Hl; subst; auto.
Qed.

Lemma all_false_step s o : all_false s -> no_ext [o] = true -> all_false (estep false s o).
Proof.
  intros (Hd & Hc & Hh) Ho. destruct o as [|h|h|x| |]; cbn [estep]; [| | | | |exact (conj Hd (conj Hc Hh))].
  - unfold eindex_core.
    destruct (edisk s) as [[x key]|] eqn:Ed in |- *.
    + assert (x = false) by (now apply (Hd x key)). subst x.
      destruct (ecache s) as [[cx k]|] eqn:Ec in |- *.
      * assert (cx = false) by (now apply (Hc cx k)). subst cx.
        destruct (Nat.eqb k key); repeat split; cbn [edisk ecache ehandles]; intros;
          try (rewrite Ed in *); try (rewrite Ec in *);
          try (match goal with H : Some _ = Some _ |- _ => injection H as <- <- end; reflexivity);
          apply Forall_app; split; auto.
      * repeat split; cbn [edisk ecache ehandles]; intros; try (rewrite Ed in *);
          try (match goal with H : Some _ = Some _ |- _ => injection H as <- <- end; reflexivity);
          apply Forall_app; split; auto.
    + repeat split; cbn [edisk ecache ehandles]; intros; try (rewrite Ed in *); try discriminate.
      apply Forall_app; split; auto.
  - destruct (nth_error (ehandles s) h) as [hx|] eqn:En; [|repeat split; assumption].
    assert (hx = false).
    { apply nth_error_In in En. rewrite Forall_forall in Hh. now apply Hh. }
    subst hx. repeat split; cbn [edisk ecache ehandles]; intros;
      try (match goal with H : Some _ = Some _ |- _ => injection H as <- <- end; reflexivity); assumption.
  - destruct (nth_error (ehandles s) h); [|repeat split; assumption].
    repeat split; cbn [edisk ecache ehandles]; try assumption. now apply eset_nth_false.
  - destruct x; [discriminate|].
    repeat split; cbn [edisk ecache ehandles]; intros;
      try (match goal with H : Some _ = Some _ |- _ => injection H as <- <- end; reflexivity); try assumption.
    now apply (Hc cx k).
  - repeat split; cbn [edisk ecache ehandles]; intros; try discriminate; try assumption. now apply (Hc cx k).
Qed.

Lemma no_ext_cons o r : no_ext (o :: r) = true -> no_ext [o] = true /\ no_ext r = true.
Proof. destruct o as [| | |[|]| |]; cbn; intros H; try discriminate; split; auto. Qed.

Lemma all_false_run : forall ops s, all_false s -> no_ext ops = true -> all_false (fold_left (estep false) ops s).
Proof.
  induction ops as [|o ops IH]; intros s Hs Hn; [exact Hs|].
  apply no_ext_cons in Hn as [Ho Hr]. cbn [fold_left]. apply IH; [now apply all_false_step|exact Hr].
Qed.

Theorem ext_unfixed_without_extensions : forall ops, no_ext ops = true -> ereads_disk (erun false ops).
Proof.
  intros ops Hn.
  assert (Hi : all_false einit) by (repeat split; cbn; intros; try discriminate; constructor).
  pose proof (all_false_run ops einit Hi Hn) as (Hd & Hc & _).
  unfold ereads_disk, eread_now, eindex_core, edisk_ext. fold (erun false ops).
  destruct (edisk (erun false ops)) as [[x key]|] eqn:Ed; [|reflexivity].
  destruct (ecache (erun false ops)) as [[cx k]|] eqn:Ec; [|reflexivity].
  destruct (Nat.eqb k key); [|reflexivity]. cbn. rewrite (Hd x key Ed), (Hc cx k Ec). reflexivity.
Qed.
