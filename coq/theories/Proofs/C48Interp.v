(* Proofs/C48Interp.v — go-git's boolean / numeric readers against
   git_parse_maybe_bool / git_parse_int: where they agree, and witnesses
   where they do not. *)
From Coq Require Import List NArith ZArith Arith Lia ZifyBool ZifyNat ZifyN Bool.
From GoGit Require Import Base.Out Model.ConfigEnc Spec.GitConfig.
Import ListNotations.
Local Open Scope N_scope.

Lemma beqb_eq a : forall b, beqb a b = true -> a = b.
Proof.
  induction a as [|x a IH]; intros [|y b] H; try discriminate.
  - reflexivity.
  - cbn in H. apply andb_true_iff in H as [H1 H2]. apply N.eqb_eq in H1. subst. f_equal. auto.
Qed.

Lemma beqb_refl a : beqb a a = true.
Proof. induction a as [|x a IH]; [reflexivity|]. cbn. now rewrite N.eqb_refl. Qed.

Lemma beq_beqb a b : beq a b = beqb a b.
Proof. reflexivity. Qed.

Lemma lower_ascii s : lower s = map ascii_lower s.
Proof. reflexivity. Qed.

(* what go-git itself writes for a boolean: fmt %t / strconv.FormatBool *)
Definition canonical_bool (s : bytes) : bool := beqb s s_true || beqb s s_false.

Definition ob_of (o : option bool) : optbool :=
  match o with Some true => OBTrue | Some false => OBFalse | None => OBUnset end.

(* ---- Get(key) == "true": core.bare, remote mirror / promisor ---- *)
Lemma eq_true_refuted :
  exists v, git_bool v = Some true /\ go_eq_true (go_value v) = false.
Proof. exists (Some [121;101;115]). vm_compute. split; reflexivity. Qed.

Lemma eq_true_sound s : go_eq_true s = true -> git_bool (Some s) = Some true.
Proof. unfold go_eq_true. intros H. apply beqb_eq in H. subst. reflexivity. Qed.

Lemma eq_true_partial s : canonical_bool s = true ->
  git_bool (Some s) = Some (go_eq_true s).
Proof.
  unfold canonical_bool. intros H. apply orb_true_iff in H as [H|H]; apply beqb_eq in H; subst; reflexivity.
Qed.

(* ---- != "false": core.filemode, pack.readReverseIndex / writeReverseIndex ---- *)
Lemma ne_false_refuted :
  exists s, git_bool (Some s) = Some false /\ go_ne_false s = true.
Proof. exists [110;111]. vm_compute. split; reflexivity. Qed.

Lemma ne_false_partial s : canonical_bool s = true ->
  git_bool (Some s) = Some (go_ne_false s).
Proof.
  unfold canonical_bool. intros H. apply orb_true_iff in H as [H|H]; apply beqb_eq in H; subst; reflexivity.
Qed.

(* ---- strings.EqualFold(v, "true"): extensions.worktreeConfig ---- *)
Lemma fold_true_refuted :
  exists s, git_bool (Some s) = Some true /\ go_fold_true s = false.
Proof. exists [111;110]. vm_compute. split; reflexivity. Qed.

(* any capitalisation of true / false *)
Definition folded_bool (s : bytes) : bool := beqb (lower s) s_true || beqb (lower s) s_false.

Lemma fold_true_partial s : folded_bool s = true ->
  git_bool (Some s) = Some (go_fold_true s).
Proof.
  unfold folded_bool, go_fold_true. change (map ascii_lower s) with (lower s). intros H.
  destruct s as [|c s]; [discriminate|].
  unfold git_bool, git_bool_text.
  apply orb_true_iff in H as [H|H]; apply beqb_eq in H; rewrite H; reflexivity.
Qed.

(* ---- strconv.ParseBool: tag/commit.gpgSign, index.skipHash, uploadArchive.allowUnreachable ---- *)
Lemma parsebool_refuted :
  (exists s, git_bool (Some s) = Some true /\ go_parse_bool s = OBUnset) /\
  (exists s, git_bool (Some s) = None /\ go_parse_bool s = OBTrue).
Proof.
  split; [exists [121;101;115] | exists [116]]; vm_compute; split; reflexivity.
Qed.

(* the spellings both accept: 1 0 true false TRUE FALSE True False *)
Definition parsebool_common (s : bytes) : bool :=
  existsb (beqb s) [[49]; [48]; s_true; s_false; [84;82;85;69]; [70;65;76;83;69]; [84;114;117;101]; [70;97;108;115;101]].

Lemma parsebool_partial s : parsebool_common s = true ->
  ob_of (git_bool (Some s)) = go_parse_bool s.
Proof.
  unfold parsebool_common. cbn [existsb]. intros H.
  repeat (apply orb_true_iff in H as [H|H]; [apply beqb_eq in H; subst; reflexivity|]).
  discriminate.
Qed.

(* ---- a valueless key is true for git; decoder.go turns it into "" ---- *)
Lemma valueless_refuted :
  git_bool None = Some true /\
  go_eq_true (go_value None) = false /\ go_fold_true (go_value None) = false /\
  go_parse_bool (go_value None) = OBUnset /\ parse_config_bool (go_value None) = OBUnset.
Proof. vm_compute. repeat split. Qed.

(* ---- decimal numerals ---- *)
Definition all_digits (s : bytes) : bool := forallb g_isdigit s.

Lemma digits_dec d : forall acc seen, all_digits d = true ->
  exists n, dec_digits_val d acc = Some n /\
            digits 10 d acc seen = (n, seen || negb (match d with [] => true | _ => false end), []).
Proof.
  induction d as [|c d IH]; intros acc seen H.
  - exists acc. cbn. now rewrite orb_false_r.
  - cbn [all_digits forallb] in H. apply andb_true_iff in H as [Hc Hd].
    destruct (IH (acc * 10 + (c - 48)) true Hd) as (n & E1 & E2).
    exists n. unfold g_isdigit in Hc. cbn [dec_digits_val digits]. unfold digit_val, g_isdigit.
    rewrite Hc. split; [exact E1|].
    assert (Hlt : (c - 48 <? 10) = true) by lia. rewrite Hlt, E2. cbn. now rewrite orb_true_r.
Qed.

(* a decimal numeral as both sides write it: no sign, no leading zero (or just "0") *)
Definition plain_dec (s : bytes) : bool :=
  match s with
  | [] => false
  | c :: r => if c =? 48 then (match r with [] => true | _ => false end)
              else (49 <=? c) && (c <=? 57) && all_digits r
  end.

Lemma strtoimax0_plain s : plain_dec s = true ->
  exists n, dec_digits_val s 0 = Some n /\ strtoimax0 s = Some (n, false, []).
Proof.
  intros H. destruct s as [|c r]; [discriminate|].
  assert (C : (c = 48 /\ r = []) \/ ((49 <=? c) && (c <=? 57) && all_digits r = true)).
  { cbn [plain_dec] in H. destruct (c =? 48) eqn:E.
    - apply N.eqb_eq in E. subst c. destruct r; [left; auto|discriminate].
    - right. exact H. }
  destruct C as [[-> ->]|C]; [exists 0; split; reflexivity|].
  apply andb_true_iff in C as [C Hr]. 
  assert (Hd : all_digits (c :: r) = true).
  { unfold all_digits in *. cbn [forallb]. rewrite Hr. unfold g_isdigit.
    assert (X : (48 <=? c) && (c <=? 57) = true) by lia. rewrite X. reflexivity. }
  destruct (digits_dec (c :: r) 0 false Hd) as (n & E1 & E2).
  exists n. split; [exact E1|].
  assert (Hc : c = 49 \/ c = 50 \/ c = 51 \/ c = 52 \/ c = 53 \/ c = 54 \/ c = 55 \/ c = 56 \/ c = 57) by lia.
  unfold strtoimax0.
  repeat (destruct Hc as [-> | Hc]; [cbn [skip_c_space c_isspace N.eqb N.leb andb orb Pos.eqb N.compare Pos.compare Pos.compare_cont]; cbv beta iota; rewrite E2; reflexivity|]).
  subst c. cbn [skip_c_space c_isspace N.eqb N.leb andb orb Pos.eqb N.compare Pos.compare Pos.compare_cont]; cbv beta iota; rewrite E2; reflexivity.
Qed.

(* ---- pack.window: strconv.ParseUint(v, 10, 32) vs git_config_int ---- *)
Lemma window_refuted :
  (exists s, git_int (Some s) = Some 1024%Z /\ go_window s = None) /\
  (exists s, git_int (Some s) = Some 8%Z /\ go_window s = Some 10) /\
  (exists s, git_int (Some s) = None /\ go_window s = Some 4294967295).
Proof.
  split; [exists [49;107]|split; [exists [48;49;48]|exists [52;50;57;52;57;54;55;50;57;53]]];
    vm_compute; split; reflexivity.
Qed.

Lemma window_partial s n : plain_dec s = true -> dec_digits_val s 0 = Some n -> n <= 2147483647 ->
  git_int (Some s) = Some (Z.of_N n) /\ go_window s = Some n.
Proof.
  intros Hp Hn Hle. destruct (strtoimax0_plain s Hp) as (n' & E1 & E2).
  rewrite Hn in E1. injection E1 as <-.
  assert (Hs : s <> []) by (destruct s; [discriminate|congruence]).
  split.
  - unfold git_int, git_parse_int, git_parse_signed. destruct s as [|c r]; [congruence|].
    rewrite E2. cbn [unit_factor].
    assert (A : (9223372036854775807 <? n) = false) by lia. rewrite A.
    assert (B : (2147483647 <? 1 * n) = false) by lia. rewrite B.
    f_equal. f_equal. lia.
  - unfold go_window. destruct s as [|c r]; [congruence|]. rewrite Hn.
    assert (A : (n <? 4294967296) = true) by lia. rewrite A. reflexivity.
Qed.

(* ---- optbool.go parseConfigBool: core.protectNTFS / protectHFS ---- *)
Lemma configbool_refuted :
  (exists s, git_bool (Some s) = Some false /\ parse_config_bool s = OBUnset) /\
  (exists s, git_bool (Some s) = Some true /\ parse_config_bool s = OBUnset) /\
  (exists s, git_bool (Some s) = None /\ parse_config_bool s = OBTrue).
Proof.
  split; [exists []|split; [exists [49;107]|exists [50;49;52;55;52;56;51;54;52;56]]];
    vm_compute; split; reflexivity.
Qed.

(* the six words in any capitalisation, or a plain decimal numeral within int *)
Definition word6 (s : bytes) : bool :=
  w_in (lower s) [s_true; [121;101;115]; [111;110]; s_false; [110;111]; [111;102;102]].

Lemma configbool_partial_words s : word6 s = true ->
  ob_of (git_bool (Some s)) = parse_config_bool s.
Proof.
  unfold word6, w_in. cbn [existsb]. intros H.
  destruct s as [|c0 s0]; [discriminate|]. remember (c0 :: s0) as s.
  unfold parse_config_bool, git_bool, git_bool_text. change (map ascii_lower s) with (lower s). subst s.
  unfold w_in. cbn [existsb].
  repeat (apply orb_true_iff in H as [H|H]; [apply beqb_eq in H; rewrite H; reflexivity|]).
  discriminate.
Qed.

Lemma configbool_partial_num s n : plain_dec s = true -> dec_digits_val s 0 = Some n -> n <= 2147483647 ->
  ob_of (git_bool (Some s)) = parse_config_bool s.
Proof.
  intros Hp Hn Hle. destruct (window_partial s n Hp Hn Hle) as [G _].
  unfold git_int in G.
  assert (Hd : forall c r, s = c :: r -> (48 <=? c) && (c <=? 57) = true).
  { intros c r ->. cbn [plain_dec] in Hp. destruct (c =? 48) eqn:E; lia. }
  destruct s as [|c r]; [discriminate|]. specialize (Hd c r eq_refl).
  (* a numeral is none of the words *)
  assert (W : forall w, In w [w_true; w_yes; w_on; w_false; w_no; w_off] -> beq (lower (c :: r)) w = false).
  { assert (Hh : forall k tl, 97 <= k -> beq (lower (c :: r)) (k :: tl) = false).
    { intros k tl Hk. cbn [lower map beq]. unfold g_tolower, g_isupper.
      assert (X : (65 <=? c) && (c <=? 90) = false) by lia. rewrite X.
      assert (Y : (c =? k) = false) by lia. rewrite Y. reflexivity. }
    intros w Hw. cbn [In] in Hw.
    repeat (destruct Hw as [<-|Hw]; [apply Hh; lia|]). contradiction. }
  unfold git_bool, git_bool_text.
  rewrite !W by (cbn; auto 10). cbn [orb]. rewrite G.
  unfold parse_config_bool, w_in. cbn [existsb]. change (map ascii_lower (c :: r)) with (lower (c :: r)).
  change beqb with beq.
  change s_true with w_true. change s_false with w_false.
  change [121;101;115] with w_yes. change [111;110] with w_on. change [110;111] with w_no. change [111;102;102] with w_off.
  rewrite !W by (cbn; auto 10). cbn [orb].
  unfold go_atoi.
  assert (S1 : (c =? 45) = false) by lia. assert (S2 : (c =? 43) = false) by lia.
  rewrite S1, S2.
  cbv beta iota. rewrite Hn. assert (A : (n <=? 9223372036854775807) = true) by lia. rewrite A.
  destruct n; reflexivity.
Qed.
