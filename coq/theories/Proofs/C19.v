(* Proofs/C19.v — transactional storage against the abstract transaction. *)
From Coq Require Import List NArith Bool Lia Permutation.
From GoGit Require Import Base.Out Spec.AStore Model.Txn Proofs.AStoreFacts.
Import ListNotations.
Local Open Scope N_scope.

(* ------------------------------------------------------------ base untouched *)
Lemma g_step_base U t o : t_base (fst (g_step U t o)) = t_base t.
Proof.
  destruct o; cbn; try reflexivity.
  - unfold g_cas. destruct (g_cas_lookup t on); [destruct (rv_hash_eqb r ov)|]; reflexivity.
  - destruct (valid_typ U k); reflexivity.
Qed.

Lemma g_run_base U ops : forall t, t_base (fst (g_run U t ops)) = t_base t.
Proof.
  induction ops as [|o r IH]; intro t; [reflexivity|].
  cbn [g_run]. destruct (g_step U t o) as [t1 x] eqn:E1.
  destruct (g_run U t1 r) as [t2 xs] eqn:E2. cbn [fst].
  specialize (IH t1). rewrite E2 in IH. cbn [fst] in IH. rewrite IH.
  pose proof (g_step_base U t o) as H. rewrite E1 in H. exact H.
Qed.

(* ------------------------------------------------------------ the view *)
(* answers are compared up to the order of listings *)
Definition res_equiv (a b : res) : Prop :=
  match a, b with
  | RRefs l1, RRefs l2 => Permutation l1 l2
  | RIds l1, RIds l2 => Permutation l1 l2
  | _, _ => a = b
  end.

Lemma res_equiv_refl a : res_equiv a a.
Proof. destruct a; cbn; reflexivity. Qed.

Definition store_ok (s : store) : Prop :=
  fm_ok (s_refs s) /\ fm_ok (s_objs s) /\ fm_ok (s_logs s)
  /\ (forall k l, fm_get k (s_logs s) = Some l -> l <> []).

Lemma store_ok_okb s : st_okb s = true -> store_ok s.
Proof.
  unfold st_okb, store_ok. rewrite !andb_true_iff. intros [[[H1 H2] H3] H4].
  apply fm_ok_okb in H1, H2, H3. repeat split; try assumption.
  intros k l Hg Hl. subst l. apply (fm_get_In k [] _ H3) in Hg.
  rewrite forallb_forall in H4. apply H4 in Hg. discriminate.
Qed.

Definition logs_view (b x : fmap (list N)) (dels : list N) : fmap (list N) :=
  fold_right (fun p m => fm_set (fst p) (lg_get (fst p) m ++ snd p) m) (fm_diff b dels) x.

(* the abstraction function: what the transaction's pending state means *)
Definition absview (t : txn) : store :=
  let b := t_base t in
  let x := t_tmp t in
  mkStore
    (fm_union (fm_diff (s_refs b) (t_deleted t)) (s_refs x))
    (fm_union (s_objs b) (s_objs x))
    (if t_idx_set t then s_idx x else s_idx b)
    (if t_cfg_set t then s_cfg x else s_cfg b)
    (if t_sh_set t then s_shallow x else s_shallow b)
    (logs_view (s_logs b) (s_logs x) (t_rl_del t)).

Record Inv (t : txn) : Prop := mkInv {
  inv_base : store_ok (t_base t);
  inv_tmp : store_ok (t_tmp t);
  inv_del : forall k, nmem k (t_deleted t) = true -> fm_get k (s_refs (t_tmp t)) = None;
  inv_app_nodup : NoDup (t_rl_app t);
  inv_app : forall k, nmem k (t_rl_app t) = true <-> fm_get k (s_logs (t_tmp t)) <> None
}.

Lemma store_ok_empty : store_ok st_empty.
Proof. repeat split; try constructor. cbn. discriminate. Qed.

Lemma Inv_begin b : store_ok b -> Inv (txn_begin b).
Proof.
  intro H. constructor; cbn; try assumption.
  - apply store_ok_empty.
  - discriminate.
  - constructor.
  - intro k. split; [discriminate|congruence].
Qed.

(* ------------------------------------------------------------ lookups in the view *)
Lemma lg_get_set k n l m : lg_get k (fm_set n l m) = if k =? n then l else lg_get k m.
Proof. unfold lg_get. rewrite fm_get_set. destruct (k =? n); reflexivity. Qed.

Lemma logs_view_ok b x dels : fm_ok b -> fm_ok (logs_view b x dels).
Proof.
  intro H. unfold logs_view. induction x as [|p r IH]; cbn [fold_right].
  - apply fm_ok_diff; exact H.
  - apply fm_ok_set; exact IH.
Qed.

Lemma logs_view_get k b x dels :
  fm_ok x ->
  fm_get k (logs_view b x dels) =
  match fm_get k x with
  | Some es => Some ((if nmem k dels then [] else lg_get k b) ++ es)
  | None => if nmem k dels then None else fm_get k b
  end.
Proof.
  unfold logs_view. induction x as [|[k1 e1] r IH]; intro Hok; cbn [fold_right fm_get fst snd].
  - apply fm_get_diff.
  - apply fm_ok_inv in Hok as [Hok HF]. rewrite fm_get_set. destruct (k =? k1) eqn:E.
    + apply N.eqb_eq in E; subst k1. f_equal. f_equal.
      unfold lg_get at 1. rewrite (IH Hok).
      rewrite (fm_get_lt k (k, e1) r HF) by (cbn [fst]; lia).
      unfold lg_get. destruct (nmem k dels); reflexivity.
    + apply IH; exact Hok.
Qed.

(* Commit's reflog loop computes the view *)
Lemma lg_append_all_ok n es m : fm_ok m -> fm_ok (lg_append_all n es m).
Proof. intro H. destruct es; cbn [lg_append_all]; [exact H|apply fm_ok_set; exact H]. Qed.

Lemma commit_logs_get k (b x : fmap (list N)) dels app :
  NoDup app ->
  (forall n, nmem n app = true -> exists es, fm_get n x = Some es /\ es <> []) ->
  fm_get k (fold_right (fun n m => lg_append_all n (lg_get n x) m) (fm_diff b dels) app) =
  if nmem k app
  then Some ((if nmem k dels then [] else lg_get k b) ++ lg_get k x)
  else if nmem k dels then None else fm_get k b.
Proof.
  induction app as [|a r IH]; intros Hnd Hne; cbn [fold_right].
  - cbn. apply fm_get_diff.
  - inversion Hnd as [|? ? Hnotin Hnd']; subst.
    destruct (Hne a) as [es [Hes Hnn]]; [cbn; rewrite N.eqb_refl; reflexivity|].
    assert (IH' := IH Hnd' (fun n Hn => Hne n (eq_trans (f_equal (fun z => (n =? a) || z) Hn) (orb_true_r _)))).
    clear IH. unfold lg_get at 1. rewrite Hes.
    destruct es as [|e0 es']; [congruence|]. cbn [lg_append_all].
    rewrite fm_get_set. cbn [nmem existsb]. destruct (k =? a) eqn:E; cbn [orb].
    + apply N.eqb_eq in E; subst k. f_equal. f_equal.
      * unfold lg_get at 1. rewrite IH'.
        assert (Hf : nmem a r = false).
        { destruct (nmem a r) eqn:En; [|reflexivity]. apply nmem_In in En. contradiction. }
        rewrite Hf. unfold lg_get. destruct (nmem a dels); reflexivity.
      * unfold lg_get. rewrite Hes. reflexivity.
    + exact IH'.
Qed.

(* ------------------------------------------------------------ Commit = view *)
Lemma g_commit_absview t : Inv t -> g_commit t = absview t.
Proof.
  intros [Hb Hx _ Hnd Happ]. unfold g_commit, absview. cbn zeta. f_equal.
  destruct Hb as (_ & _ & Hbl & _). destruct Hx as (_ & _ & Hxl & Hxn).
  apply fm_ext.
  - clear Hnd Happ. induction (t_rl_app t) as [|a r IH]; cbn [fold_right].
    + apply fm_ok_diff; exact Hbl.
    + apply lg_append_all_ok. exact IH.
  - apply logs_view_ok; exact Hbl.
  - intro k. rewrite logs_view_get by exact Hxl.
    rewrite commit_logs_get.
    + destruct (nmem k (t_rl_app t)) eqn:E.
      * apply Happ in E. unfold lg_get. destruct (fm_get k (s_logs (t_tmp t))); [reflexivity|congruence].
      * destruct (fm_get k (s_logs (t_tmp t))) eqn:Eg; [|reflexivity].
        assert (nmem k (t_rl_app t) = true) by (apply Happ; congruence). congruence.
    + exact Hnd.
    + intros n Hn. apply Happ in Hn. destruct (fm_get n (s_logs (t_tmp t))) as [es|] eqn:Eg; [|congruence].
      exists es. split; [reflexivity|]. eapply Hxn; exact Eg.
Qed.

(* ------------------------------------------------------------ guards *)
Definition is_nil {A} (l : list A) : bool := match l with [] => true | _ => false end.

(* the calls on which the transaction answers as the view does: all but a
   listing of objects while an object written in the transaction is also in the base *)
Definition op_ok (U : universe) (t : txn) (o : op) : bool :=
  match o with
  | OIterObjs _ =>
    forallb (fun p => negb (fm_has (fst p) (s_objs (t_base t)))) (s_objs (t_tmp t))
  | _ => true
  end.

(* ------------------------------------------------------------ listings *)
Lemma NoDup_app_local {A} (l1 l2 : list A) :
  NoDup l1 -> NoDup l2 -> (forall x, In x l1 -> In x l2 -> False) -> NoDup (l1 ++ l2).
Proof.
  induction l1 as [|a r IH]; intros H1 H2 Hd; [exact H2|].
  inversion H1 as [|? ? Hn H1']; subst. cbn [app]. constructor.
  - intro Hin. apply in_app_or in Hin as [Hin|Hin]; [exact (Hn Hin)|].
    apply (Hd a); [left; reflexivity|exact Hin].
  - apply IH; [exact H1'|exact H2|]. intros x Hx1 Hx2. apply (Hd x); [right; exact Hx1|exact Hx2].
Qed.

Lemma fm_diff_absent {V} (b : fmap V) ds :
  (forall d, In d ds -> fm_get d b = None) -> fm_diff b ds = b.
Proof.
  unfold fm_diff. induction ds as [|d r IH]; intro H; cbn [fold_right]; [reflexivity|].
  rewrite IH by (intros x Hx; apply H; right; exact Hx).
  apply fm_del_absent. apply H. left; reflexivity.
Qed.

Lemma fm_union_disjoint_perm {V} (b x : fmap V) :
  fm_ok x -> (forall k v, In (k, v) x -> fm_get k b = None) ->
  Permutation (b ++ x) (fm_union b x).
Proof.
  unfold fm_union. induction x as [|[k v] r IH]; intros Hok Hd; cbn [fold_right fst snd].
  - rewrite app_nil_r. reflexivity.
  - apply fm_ok_inv in Hok as [Hok HF].
    assert (Hfresh : fm_get k (fold_right (fun p m => fm_set (fst p) (snd p) m) b r) = None).
    { change (fm_get k (fm_union b r) = None). rewrite fm_get_union.
      rewrite (fm_get_lt k (k, v) r HF) by (cbn [fst]; lia).
      apply (Hd k v). left; reflexivity. }
    rewrite (fm_set_fresh_perm k v _ Hfresh).
    rewrite <- Permutation_middle. constructor.
    apply IH; [exact Hok|]. intros k' v' Hin. apply (Hd k' v'). right; exact Hin.
Qed.

Lemma iter_refs_perm t : Inv t -> Permutation (g_iter_refs t) (s_refs (absview t)).
Proof.
  intros [Hb Hx Hd _ _]. destruct Hb as (Hbr & _). destruct Hx as (Hxr & _).
  assert (Hvok : fm_ok (s_refs (absview t)))
    by (unfold absview; cbn [s_refs]; apply fm_ok_union, fm_ok_diff; exact Hbr).
  assert (Hmem : forall k v, In (k, v) (g_iter_refs t) <-> fm_get k (s_refs (absview t)) = Some v).
  { intros k v. unfold g_iter_refs, absview. cbn [s_refs].
    rewrite in_app_iff, filter_In, fm_get_union, fm_get_diff. cbn [fst].
    rewrite <- (fm_get_In k v _ Hbr), <- (fm_get_In k v _ Hxr). unfold fm_has.
    destruct (fm_get k (s_refs (t_tmp t))) as [w|]; destruct (nmem k (t_deleted t)); cbn [negb andb];
      intuition (try discriminate; try congruence). }
  apply NoDup_Permutation.
  - unfold g_iter_refs. apply NoDup_app_local.
    + apply NoDup_filter. apply fm_ok_NoDup; exact Hbr.
    + apply fm_ok_NoDup; exact Hxr.
    + intros [k v] H1 H2. apply filter_In in H1 as [_ H1]. cbn [fst] in H1.
      apply andb_true_iff in H1 as [_ H1]. apply negb_true_iff in H1.
      apply (fm_get_In k v _ Hxr) in H2. unfold fm_has in H1. rewrite H2 in H1. discriminate.
  - apply fm_ok_NoDup; exact Hvok.
  - intros [k v]. rewrite Hmem. apply (fm_get_In k v _ Hvok).
Qed.

Lemma Permutation_filter {A} (f : A -> bool) l1 l2 :
  Permutation l1 l2 -> Permutation (filter f l1) (filter f l2).
Proof.
  induction 1 as [|x l l' _ IH|x y l|l l' l'' _ IH1 _ IH2]; cbn [filter].
  - constructor.
  - destruct (f x); [constructor|]; exact IH.
  - destruct (f x), (f y); try reflexivity. apply perm_swap.
  - etransitivity; eassumption.
Qed.

Lemma iter_objs_perm U t ty :
  Inv t -> op_ok U t (OIterObjs ty) = true ->
  Permutation (g_iter_objs U t ty) (st_iter_objs U ty (absview t)).
Proof.
  intros [Hb Hx _ _ _] Hg. cbn [op_ok] in Hg. rewrite forallb_forall in Hg.
  destruct Hb as (_ & Hbo & _). destruct Hx as (_ & Hxo & _).
  unfold g_iter_objs, st_iter_objs, absview. cbn [s_objs].
  rewrite <- filter_app. apply Permutation_filter.
  unfold fm_keys. rewrite <- map_app. apply Permutation_map.
  apply fm_union_disjoint_perm; [exact Hxo|].
  intros k v Hin. apply Hg in Hin. cbn [fst] in Hin. apply negb_true_iff in Hin.
  unfold fm_has in Hin. destruct (fm_get k (s_objs (t_base t))); [discriminate|reflexivity].
Qed.

(* ------------------------------------------------------------ one call *)
Ltac proj_simpl := cbn [t_base t_tmp t_deleted t_idx_set t_cfg_set t_sh_set t_rl_app t_rl_del
                         s_refs s_objs s_idx s_cfg s_shallow s_logs with_tmp
                         st_with_refs st_with_objs st_with_idx st_with_cfg st_with_shallow st_with_logs].
Ltac inv_split := constructor; unfold with_tmp; proj_simpl.
Ltac view_unfold := unfold absview, with_tmp, st_with_refs, st_with_objs, st_with_idx, st_with_cfg,
                           st_with_shallow, st_with_logs; proj_simpl.

Lemma store_ok_with_refs s r : store_ok s -> fm_ok r -> store_ok (st_with_refs s r).
Proof. intros (H1 & H2 & H3 & H4) Hr. repeat split; assumption. Qed.
Lemma store_ok_with_objs s r : store_ok s -> fm_ok r -> store_ok (st_with_objs s r).
Proof. intros (H1 & H2 & H3 & H4) Hr. repeat split; assumption. Qed.
Lemma store_ok_with_idx s i : store_ok s -> store_ok (st_with_idx s i).
Proof. intros (H1 & H2 & H3 & H4). repeat split; assumption. Qed.
Lemma store_ok_with_cfg s i : store_ok s -> store_ok (st_with_cfg s i).
Proof. intros (H1 & H2 & H3 & H4). repeat split; assumption. Qed.
Lemma store_ok_with_shallow s i : store_ok s -> store_ok (st_with_shallow s i).
Proof. intros (H1 & H2 & H3 & H4). repeat split; assumption. Qed.
Lemma store_ok_with_logs s r :
  store_ok s -> fm_ok r -> (forall k l, fm_get k r = Some l -> l <> []) -> store_ok (st_with_logs s r).
Proof. intros (H1 & H2 & H3 & H4) Hr Hn. repeat split; assumption. Qed.

(* SetReference keeps the invariant and is a set on the view *)
Lemma Inv_set_ref t n v : Inv t -> Inv (g_set_ref t n v).
Proof.
  intros [Hb Hx Hd Hnd Happ]. unfold g_set_ref. inv_split; try assumption.
  - apply store_ok_with_refs; [exact Hx|]. apply fm_ok_set. apply Hx.
  - intros k Hk. rewrite nmem_nrem in Hk. apply andb_true_iff in Hk as [Hk1 Hk2].
    rewrite fm_get_set. apply negb_true_iff in Hk1. rewrite Hk1. apply Hd; exact Hk2.
Qed.

Lemma absview_set_ref t n v :
  Inv t -> absview (g_set_ref t n v) = st_with_refs (absview t) (fm_set n v (s_refs (absview t))).
Proof.
  intros [Hb Hx Hd _ _]. unfold g_set_ref. view_unfold. f_equal.
  destruct Hb as (Hbr & _).
  apply fm_ext.
  - apply fm_ok_union, fm_ok_diff; exact Hbr.
  - apply fm_ok_set, fm_ok_union, fm_ok_diff; exact Hbr.
  - intro k. rewrite fm_get_set, !fm_get_union, fm_get_set, !fm_get_diff, nmem_nrem.
    destruct (k =? n); [reflexivity|]. cbn [negb andb]. reflexivity.
Qed.

Lemma view_get_ref t k :
  Inv t ->
  fm_get k (s_refs (absview t)) =
  match fm_get k (s_refs (t_tmp t)) with
  | Some v => Some v
  | None => if nmem k (t_deleted t) then None else fm_get k (s_refs (t_base t))
  end.
Proof. intros _. unfold absview. cbn [s_refs]. rewrite fm_get_union, fm_get_diff. reflexivity. Qed.

Definition step_sim U t o : Prop :=
  let '(t', r) := g_step U t o in
  let '(s', r') := spec_step U (mkSpec (t_base t) (absview t)) o in
  Inv t' /\ s' = mkSpec (t_base t') (absview t') /\ res_equiv r r'.

Lemma step_sim_refs U t o :
  Inv t -> op_ok U t o = true ->
  match o with OSetRef _ _ | OCas _ _ _ _ | OGetRef _ | OIterRefs | ODelRef _ => step_sim U t o | _ => True end.
Proof.
  intros HI Hg. destruct o; try exact I; unfold step_sim, spec_step; cbn [g_step st_step sp_view sp_base].
  - (* SetRef *)
    split; [apply Inv_set_ref; exact HI|]. split; [|reflexivity].
    rewrite absview_set_ref by exact HI. reflexivity.
  - (* Cas *)
    unfold g_cas, st_cas, g_cas_lookup.
    rewrite (view_get_ref t on HI).
    assert (E : (if nmem on (t_deleted t) then None
                 else match fm_get on (s_refs (t_tmp t)) with
                      | Some v0 => Some v0
                      | None => fm_get on (s_refs (t_base t))
                      end)
                = match fm_get on (s_refs (t_tmp t)) with
                  | Some v0 => Some v0
                  | None => if nmem on (t_deleted t) then None else fm_get on (s_refs (t_base t))
                  end).
    { destruct (nmem on (t_deleted t)) eqn:Ed; [|reflexivity]. rewrite (inv_del t HI on Ed). reflexivity. }
    rewrite E.
    destruct (match fm_get on (s_refs (t_tmp t)) with
              | Some v0 => Some v0
              | None => if nmem on (t_deleted t) then None else fm_get on (s_refs (t_base t))
              end) as [cur|].
    + destruct (rv_hash_eqb cur ov).
      * split; [apply Inv_set_ref; exact HI|]. split; [|reflexivity].
        rewrite absview_set_ref by exact HI. reflexivity.
      * split; [exact HI|]. split; reflexivity.
    + split; [exact HI|]. split; reflexivity.
  - (* GetRef *)
    split; [exact HI|]. split; [reflexivity|]. unfold g_get_ref. rewrite (view_get_ref t n HI).
    destruct (nmem n (t_deleted t)) eqn:Ed.
    + rewrite (inv_del t HI n Ed). reflexivity.
    + destruct (fm_get n (s_refs (t_tmp t))); [reflexivity|].
      destruct (fm_get n (s_refs (t_base t))); reflexivity.
  - (* IterRefs *)
    split; [exact HI|]. split; [reflexivity|]. cbn [res_equiv].
    apply iter_refs_perm; exact HI.
  - (* DelRef *)
    destruct HI as [Hb Hx Hd Hnd Happ]. split; [|split; [|reflexivity]].
    + unfold g_del_ref. inv_split; try assumption.
      * apply store_ok_with_refs; [exact Hx|]. apply fm_ok_del. apply Hx.
      * intros k Hk. rewrite nmem_nadd in Hk. rewrite fm_get_del.
        destruct (k =? n); [reflexivity|]. apply Hd. exact Hk.
    + f_equal. unfold g_del_ref. view_unfold. f_equal.
      destruct Hb as (Hbr & _).
      apply fm_ext.
      * apply fm_ok_del, fm_ok_union, fm_ok_diff; exact Hbr.
      * apply fm_ok_union, fm_ok_diff; exact Hbr.
      * intro k. rewrite fm_get_del, !fm_get_union, fm_get_del, !fm_get_diff, nmem_nadd.
        destruct (k =? n); reflexivity.
Qed.

Lemma view_has_obj t k :
  fm_has k (s_objs (absview t)) = fm_has k (s_objs (t_base t)) || fm_has k (s_objs (t_tmp t)).
Proof.
  unfold absview, fm_has. cbn [s_objs]. rewrite fm_get_union.
  destruct (fm_get k (s_objs (t_tmp t))), (fm_get k (s_objs (t_base t))); reflexivity.
Qed.

Lemma step_sim_objs U t o :
  Inv t -> op_ok U t o = true ->
  match o with OSetObj _ | OHasObj _ | OSizeObj _ | OGetObj _ _ | OIterObjs _ => step_sim U t o | _ => True end.
Proof.
  intros HI Hg. destruct o; try exact I; unfold step_sim, spec_step; cbn [g_step st_step sp_view sp_base].
  - (* SetObj *)
    destruct (valid_typ U k).
    + destruct HI as [Hb Hx Hd Hnd Happ]. split; [|split; [|reflexivity]].
      * inv_split; try assumption. apply store_ok_with_objs; [exact Hx|]. apply fm_ok_set. apply Hx.
      * f_equal. view_unfold. f_equal. destruct Hb as (_ & Hbo & _).
        apply fm_ext.
        -- apply fm_ok_set, fm_ok_union; exact Hbo.
        -- apply fm_ok_union; exact Hbo.
        -- intro j. rewrite fm_get_set, !fm_get_union, fm_get_set. destruct (j =? k); reflexivity.
    + split; [exact HI|]. split; reflexivity.
  - (* HasObj *)
    split; [exact HI|]. split; [reflexivity|]. unfold g_has_obj. rewrite view_has_obj. apply res_equiv_refl.
  - (* SizeObj *)
    split; [exact HI|]. split; [reflexivity|]. unfold g_has_obj. rewrite view_has_obj. apply res_equiv_refl.
  - (* GetObj *)
    split; [exact HI|]. split; [reflexivity|]. unfold g_get_obj, st_get_obj. rewrite view_has_obj.
    destruct (fm_has k (s_objs (t_base t))), (fm_has k (s_objs (t_tmp t))), (typ_match U t0 k); apply res_equiv_refl.
  - (* IterObjs *)
    split; [exact HI|]. split; [reflexivity|]. cbn [res_equiv].
    apply iter_objs_perm; [exact HI|exact Hg].
Qed.

Lemma step_sim_misc U t o :
  Inv t -> op_ok U t o = true ->
  match o with
  | OSetIdx _ | OGetIdx | OSetCfg _ | OGetCfg | OSetShallow _ | OGetShallow => step_sim U t o
  | _ => True
  end.
Proof.
  intros HI Hg. destruct o; try exact I; unfold step_sim, spec_step; cbn [g_step st_step sp_view sp_base];
    destruct HI as [Hb Hx Hd Hnd Happ].
  - split; [|split; [|reflexivity]].
    + inv_split; try assumption; try (apply store_ok_with_idx; exact Hx).
    + f_equal.
  - split; [constructor; assumption|]. split; reflexivity.
  - split; [|split; [|reflexivity]].
    + inv_split; try assumption; try (apply store_ok_with_cfg; exact Hx).
    + f_equal.
  - split; [constructor; assumption|]. split; reflexivity.
  - split; [|split; [|reflexivity]].
    + inv_split; try assumption; try (apply store_ok_with_shallow; exact Hx).
    + f_equal.
  - split; [constructor; assumption|]. split; reflexivity.
Qed.

Lemma app_ne_nil {A} (l : list A) x : l ++ [x] <> [].
Proof. destruct l; discriminate. Qed.

Lemma step_sim_logs U t o :
  Inv t -> op_ok U t o = true ->
  match o with OAppendLog _ _ | OGetLog _ | ODelLog _ => step_sim U t o | _ => True end.
Proof.
  intros HI Hg. destruct o; try exact I; unfold step_sim, spec_step; cbn [g_step st_step sp_view sp_base].
  - (* Append *)
    destruct HI as [Hb Hx Hd Hnd Happ].
    assert (Hxl : fm_ok (s_logs (t_tmp t))) by apply Hx.
    assert (Hbl : fm_ok (s_logs (t_base t))) by apply Hb.
    split; [|split; [|reflexivity]].
    + inv_split; try assumption.
      * apply store_ok_with_logs; [exact Hx|apply fm_ok_set; exact Hxl|].
        intros k l. rewrite fm_get_set. destruct (k =? n).
        -- intro E; injection E as <-. apply app_ne_nil.
        -- apply Hx.
      * apply NoDup_nadd; exact Hnd.
      * intro k. rewrite nmem_nadd, fm_get_set. destruct (k =? n); cbn [orb].
        -- split; [discriminate|reflexivity].
        -- apply Happ.
    + f_equal. view_unfold. f_equal.
      apply fm_ext.
      * apply fm_ok_set, logs_view_ok; exact Hbl.
      * apply logs_view_ok; exact Hbl.
      * intro k. rewrite fm_get_set. rewrite !logs_view_get by (try apply fm_ok_set; exact Hxl).
        rewrite fm_get_set. destruct (k =? n) eqn:E.
        -- apply N.eqb_eq in E; subst k. f_equal. unfold lg_get at 1.
           rewrite logs_view_get by exact Hxl. unfold lg_get.
           destruct (fm_get n (s_logs (t_tmp t))); destruct (nmem n (t_rl_del t));
             rewrite ?app_assoc, ?app_nil_r, ?app_nil_l; try reflexivity;
             destruct (fm_get n (s_logs (t_base t))); reflexivity.
        -- reflexivity.
  - (* GetLog *)
    split; [exact HI|]. split; [reflexivity|]. cbn [res_equiv]. f_equal.
    unfold g_log, absview. cbn [s_logs]. unfold lg_get at 3.
    rewrite logs_view_get by apply HI. unfold lg_get.
    destruct (fm_get n (s_logs (t_tmp t))); [reflexivity|]. rewrite app_nil_r.
    destruct (nmem n (t_rl_del t)); reflexivity.
  - (* DelLog *)
    destruct HI as [Hb Hx Hd Hnd Happ].
    assert (Hxl : fm_ok (s_logs (t_tmp t))) by apply Hx.
    assert (Hbl : fm_ok (s_logs (t_base t))) by apply Hb.
    split; [|split; [|reflexivity]].
    + inv_split; try assumption.
      * apply store_ok_with_logs; [exact Hx|apply fm_ok_del; exact Hxl|].
        intros k l. rewrite fm_get_del. destruct (k =? n); [discriminate|apply Hx].
      * apply NoDup_nrem; exact Hnd.
      * intro k. rewrite nmem_nrem, fm_get_del. destruct (k =? n); cbn [negb andb].
        -- split; [discriminate|congruence].
        -- apply Happ.
    + f_equal. view_unfold. f_equal.
      apply fm_ext.
      * apply fm_ok_del, logs_view_ok; exact Hbl.
      * apply logs_view_ok; exact Hbl.
      * intro k. rewrite fm_get_del, !logs_view_get by (try apply fm_ok_del; exact Hxl).
        rewrite fm_get_del, nmem_nadd. destruct (k =? n); reflexivity.
Qed.

Lemma step_sim_all U t o : Inv t -> op_ok U t o = true -> step_sim U t o.
Proof.
  intros HI Hg.
  pose proof (step_sim_refs U t o HI Hg) as H1.
  pose proof (step_sim_objs U t o HI Hg) as H2.
  pose proof (step_sim_misc U t o HI Hg) as H3.
  pose proof (step_sim_logs U t o HI Hg) as H4.
  destruct o; assumption.
Qed.

(* ------------------------------------------------------------ the invariant needs no guard *)
Lemma Inv_step U t o : Inv t -> Inv (fst (g_step U t o)).
Proof.
  intro HI. destruct (op_ok U t o) eqn:Hg.
  - pose proof (step_sim_all U t o HI Hg) as H. unfold step_sim in H.
    destruct (g_step U t o) as [t' r]. destruct (spec_step U _ o) as [s' r']. apply H.
  - (* the only guarded call is a read *)
    destruct o; cbn [op_ok] in Hg; try discriminate; cbn [g_step fst]; exact HI.
Qed.

Lemma Inv_run U ops : forall t, Inv t -> Inv (fst (g_run U t ops)).
Proof.
  induction ops as [|o r IH]; intros t HI; [exact HI|].
  cbn [g_run]. pose proof (Inv_step U t o HI) as H1.
  destruct (g_step U t o) as [t1 x]. cbn [fst] in H1.
  specialize (IH t1 H1). destruct (g_run U t1 r) as [t2 xs]. exact IH.
Qed.

(* ------------------------------------------------------------ whole histories *)
Fixpoint guards (U : universe) (t : txn) (ops : list op) : bool :=
  match ops with
  | [] => true
  | o :: r => op_ok U t o && guards U (fst (g_step U t o)) r
  end.

Lemma sim_run U ops : forall t,
  Inv t -> guards U t ops = true ->
  let '(t', xs) := g_run U t ops in
  let '(s', ys) := spec_run U (mkSpec (t_base t) (absview t)) ops in
  s' = mkSpec (t_base t') (absview t') /\ Forall2 res_equiv xs ys.
Proof.
  induction ops as [|o r IH]; intros t HI Hg.
  - cbn. split; [reflexivity|constructor].
  - cbn [guards] in Hg. apply andb_true_iff in Hg as [Hg1 Hg2].
    cbn [g_run spec_run].
    pose proof (step_sim_all U t o HI Hg1) as H. unfold step_sim in H.
    destruct (g_step U t o) as [t1 x]. cbn [fst] in Hg2.
    destruct (spec_step U (mkSpec (t_base t) (absview t)) o) as [s1 y].
    destruct H as (HI1 & Hs1 & Hxy). subst s1.
    specialize (IH t1 HI1 Hg2).
    destruct (g_run U t1 r) as [t2 xs].
    destruct (spec_run U (mkSpec (t_base t1) (absview t1)) r) as [s2 ys].
    destruct IH as [Hs2 Hall]. split; [exact Hs2|]. constructor; assumption.
Qed.

Lemma absview_begin b : absview (txn_begin b) = b.
Proof. destruct b. reflexivity. Qed.

Lemma view_partial U b ops :
  st_okb b = true -> guards U (txn_begin b) ops = true ->
  Forall2 res_equiv (snd (g_run U (txn_begin b) ops)) (snd (spec_run U (spec_begin b) ops)).
Proof.
  intros Hb Hg. pose proof (sim_run U ops (txn_begin b) (Inv_begin b (store_ok_okb b Hb)) Hg) as H.
  rewrite absview_begin in H. cbn [t_base txn_begin] in H. unfold spec_begin.
  destruct (g_run U (txn_begin b) ops) as [t' xs].
  destruct (spec_run U (mkSpec b b) ops) as [s' ys]. apply H.
Qed.

Lemma commit_partial U b ops :
  st_okb b = true -> guards U (txn_begin b) ops = true ->
  g_commit (fst (g_run U (txn_begin b) ops)) = spec_commit (fst (spec_run U (spec_begin b) ops)).
Proof.
  intros Hb Hg. pose proof (Inv_begin b (store_ok_okb b Hb)) as HI0.
  pose proof (sim_run U ops (txn_begin b) HI0 Hg) as H.
  pose proof (Inv_run U ops (txn_begin b) HI0) as HI.
  rewrite absview_begin in H. cbn [t_base txn_begin] in H. unfold spec_begin.
  destruct (g_run U (txn_begin b) ops) as [t' xs].
  destruct (spec_run U (mkSpec b b) ops) as [s' ys]. cbn [fst] in *.
  destruct H as [Hs _]. subst s'. unfold spec_commit. cbn [sp_view].
  apply g_commit_absview; exact HI.
Qed.

Lemma commit_abs U b ops :
  st_okb b = true ->
  g_commit (fst (g_run U (txn_begin b) ops)) = absview (fst (g_run U (txn_begin b) ops)).
Proof.
  intro Hb. apply g_commit_absview. apply Inv_run. apply Inv_begin. apply store_ok_okb; exact Hb.
Qed.

(* ------------------------------------------------------------ the guard is exact *)
Lemma fm_ok_keys_NoDup {V} (m : fmap V) : fm_ok m -> NoDup (map fst m).
Proof.
  induction m as [|p r IH]; intro H; cbn [map]; [constructor|].
  apply fm_ok_inv in H as [Hok HF]. constructor; [|apply IH; exact Hok].
  intro Hin. apply in_map_iff in Hin as [q [Hq Hin]].
  rewrite Forall_forall in HF. apply HF in Hin. unfold fm_lt in Hin. lia.
Qed.

(* whenever the guard fails, the full listing shows an object twice *)
Lemma guard_tight_iter_objs U t :
  Inv t -> op_ok U t (OIterObjs 0) = false ->
  ~ Permutation (g_iter_objs U t 0) (st_iter_objs U 0 (absview t)).
Proof.
  intros HI Hg HP. cbn [op_ok] in Hg.
  assert (Hex : exists p, In p (s_objs (t_tmp t)) /\ fm_has (fst p) (s_objs (t_base t)) = true).
  { clear HP. induction (s_objs (t_tmp t)) as [|p r IH]; cbn [forallb] in Hg; [discriminate|].
    apply andb_false_iff in Hg as [Hg|Hg].
    - exists p. split; [left; reflexivity|]. apply negb_false_iff in Hg. exact Hg.
    - destruct (IH Hg) as [q [Hq1 Hq2]]. exists q. split; [right; exact Hq1|exact Hq2]. }
  destruct Hex as [[k u] [Hin Hhas]]. cbn [fst] in Hhas.
  assert (Hall : forall l, filter (typ_match U 0) l = l).
  { induction l as [|a l IH]; [reflexivity|]. cbn [filter]. unfold typ_match at 1. rewrite N.eqb_refl. cbn [orb]. rewrite IH. reflexivity. }
  unfold g_iter_objs, st_iter_objs in HP. rewrite !Hall in HP.
  assert (Hvok : fm_ok (s_objs (absview t))).
  { unfold absview. cbn [s_objs]. apply fm_ok_union. apply HI. }
  apply fm_ok_keys_NoDup in Hvok. unfold fm_keys in HP.
  apply (Permutation_NoDup (Permutation_sym HP)) in Hvok.
  unfold fm_has in Hhas. destruct (fm_get k (s_objs (t_base t))) as [u'|] eqn:Eb; [|discriminate].
  assert (Hbo : fm_ok (s_objs (t_base t))) by apply HI.
  apply (fm_get_In k u' _ Hbo) in Eb.
  apply in_split in Eb as [l1 [l2 Hl]]. rewrite Hl in Hvok.
  rewrite map_app in Hvok. cbn [map fst] in Hvok. rewrite <- app_assoc in Hvok. cbn [app] in Hvok.
  apply NoDup_remove_2 in Hvok. apply Hvok.
  apply in_or_app. right. apply in_or_app. right.
  apply in_map_iff. exists (k, u). split; [reflexivity|exact Hin].
Qed.
