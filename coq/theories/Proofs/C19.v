(* Proofs/C19.v — transactional storage against the abstract transaction. *)
From Coq Require Import List NArith Bool Lia Permutation.
From GoGit Require Import Base.Out Spec.AStore Model.Txn.
Import ListNotations.
Local Open Scope N_scope.

(* ------------------------------------------------------------ base untouched *)
Lemma g_step_base U t o : t_base (fst (g_step U t o)) = t_base t.
Proof.
  destruct o; cbn; try reflexivity.
  - unfold g_cas. destruct (g_cas_lookup t on); [destruct (rv_hash_eqb r ov)|]; reflexivity.
  - destruct (valid_typ U k); reflexivity.
Qed.

Lemma g_run_base U ops : forall t, t_base (fst (g_run U t ops)) = t_base t.
Proof.
  induction ops as [|o r IH]; intro t; [reflexivity|].
  cbn [g_run]. destruct (g_step U t o) as [t1 x] eqn:E1.
  destruct (g_run U t1 r) as [t2 xs] eqn:E2. cbn [fst].
  specialize (IH t1). rewrite E2 in IH. cbn [fst] in IH. rewrite IH.
  pose proof (g_step_base U t o) as H. rewrite E1 in H. exact H.
Qed.
