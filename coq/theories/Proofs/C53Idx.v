(* Proofs/C53Idx.v — C53 for the pack-index readers of Model/Idx.v (MemoryIndex,
   LazyIndex, mmap.PackScanner): for EVERY index structure / file and every
   query — sorted or not, well-formed or not —
     * the binary searches end within the fuel the model gives them
       (bs_fuel = 1 + bit size of the interval): no reader answers [Err EFuel];
     * a 64-bit offset is only read from inside the 64-bit table: a slot index
       equal to (or above) the number of 8-byte slots is rejected, not read;
     * a decoded MemoryIndex is consistent (per bucket: |names| = n*hs,
       |offset32| = |crc32| = 4n) and all its tables together are no longer than
       the file, whatever the fanout claims.
   The C10 development proves the searches CORRECT on sorted tables
   (Proofs/C10Search.v, under mono/total hypotheses); here there is no
   hypothesis on the probe at all. *)
From Coq Require Import List NArith ZArith Bool Lia ZifyBool ZifyNat ZifyN.
From GoGit Require Import Base.Out Base.GoInt Model.PackBytes Model.Idx Proofs.C10Bytes Proofs.C10Basic.
Import ListNotations.
Local Open Scope N_scope.

Ltac Zify.zify_post_hook ::= Z.div_mod_to_equations.

Lemma pow2S f : 2 ^ N.of_nat (S f) = 2 * 2 ^ N.of_nat f.
Proof. rewrite Nat2N.inj_succ, N.pow_succ_r'. reflexivity. Qed.

Lemma size_lt n : n < 2 ^ N.of_nat (N.to_nat (N.size n)).
Proof. rewrite N2Nat.id. apply N.size_gt. Qed.

(* ------------------------------------------------ the four searches, ANY probe *)

Lemma bs_while_S f probe lo hi :
  bs_while (S f) probe lo hi =
  if lo <? hi then
    match probe ((lo + hi) / 2) with
    | None => SErr
    | Some Lt => bs_while f probe lo ((lo + hi) / 2)
    | Some Gt => bs_while f probe ((lo + hi) / 2 + 1) hi
    | Some Eq => Found ((lo + hi) / 2)
    end
  else NotFound.
Proof. reflexivity. Qed.

Lemma bs_while_any probe : forall f lo hi,
  hi - lo < 2 ^ N.of_nat f -> bs_while (S f) probe lo hi <> OutOfFuel.
Proof.
  induction f as [|f IH]; intros lo hi Hm; rewrite bs_while_S.
  - change (2 ^ N.of_nat 0) with 1 in Hm. destruct (N.ltb_spec lo hi); [lia|discriminate].
  - rewrite pow2S in Hm. remember (2 ^ N.of_nat f) as p eqn:Hp. clear Hp.
    destruct (N.ltb_spec lo hi); [|discriminate].
    destruct (probe ((lo + hi) / 2)) as [[| |]|]; try discriminate; apply IH; lia.
Qed.

Lemma bs_do_S f probe lo hi :
  bs_do (S f) probe lo hi =
  match probe ((lo + hi) / 2) with
  | None => SErr
  | Some Lt => if lo <? (lo + hi) / 2 then bs_do f probe lo ((lo + hi) / 2) else NotFound
  | Some Eq => Found ((lo + hi) / 2)
  | Some Gt => if (lo + hi) / 2 + 1 <? hi then bs_do f probe ((lo + hi) / 2 + 1) hi else NotFound
  end.
Proof. reflexivity. Qed.

Lemma bs_do_any probe : forall f lo hi,
  lo < hi -> hi - lo < 2 ^ N.of_nat (S f) -> bs_do (S f) probe lo hi <> OutOfFuel.
Proof.
  induction f as [|f IH]; intros lo hi Hlt Hm; rewrite bs_do_S.
  - change (2 ^ N.of_nat 1) with 2 in Hm.
    destruct (probe ((lo + hi) / 2)) as [[| |]|]; try discriminate.
    + destruct (N.ltb_spec lo ((lo + hi) / 2)); [lia|discriminate].
    + destruct (N.ltb_spec ((lo + hi) / 2 + 1) hi); [lia|discriminate].
  - rewrite pow2S in Hm. remember (2 ^ N.of_nat (S f)) as p eqn:Hp. clear Hp.
    destruct (probe ((lo + hi) / 2)) as [[| |]|]; try discriminate.
    + destruct (N.ltb_spec lo ((lo + hi) / 2)); [apply IH; lia|discriminate].
    + destruct (N.ltb_spec ((lo + hi) / 2 + 1) hi); [apply IH; lia|discriminate].
Qed.

Lemma lower_bound_S f below lo hi :
  lower_bound (S f) below lo hi =
  if lo <? hi then
    match below ((lo + hi) / 2) with
    | None => SErr
    | Some true => lower_bound f below ((lo + hi) / 2 + 1) hi
    | Some false => lower_bound f below lo ((lo + hi) / 2)
    end
  else Found lo.
Proof. reflexivity. Qed.

(* sort.Search style: the answer is a position in [lo, max lo hi] or a read error *)
Definition lb_ok (lo hi : N) (r : sres) : Prop :=
  match r with Found k => lo <= k /\ k <= N.max lo hi | SErr => True | _ => False end.

Lemma lower_bound_any below : forall f lo hi,
  hi - lo < 2 ^ N.of_nat f -> lb_ok lo hi (lower_bound (S f) below lo hi).
Proof.
  induction f as [|f IH]; intros lo hi Hm; rewrite lower_bound_S.
  - change (2 ^ N.of_nat 0) with 1 in Hm. destruct (N.ltb_spec lo hi); [lia|]. cbn. lia.
  - rewrite pow2S in Hm. remember (2 ^ N.of_nat f) as p eqn:Hp. clear Hp.
    destruct (N.ltb_spec lo hi); [|cbn; lia].
    destruct (below ((lo + hi) / 2)) as [[|]|]; [| |exact I].
    + assert (A : hi - ((lo + hi) / 2 + 1) < p) by lia. specialize (IH _ _ A).
      destruct (lower_bound (S f) below ((lo + hi) / 2 + 1) hi); cbn in *; try assumption. lia.
    + assert (A : (lo + hi) / 2 - lo < p) by lia. specialize (IH _ _ A).
      destruct (lower_bound (S f) below lo ((lo + hi) / 2)); cbn in *; try assumption. lia.
Qed.

Lemma lower_bound_total below : (forall i, below i <> None) -> forall f lo hi,
  hi - lo < 2 ^ N.of_nat f -> exists k, lower_bound (S f) below lo hi = Found k /\ lo <= k /\ k <= N.max lo hi.
Proof.
  intros T. induction f as [|f IH]; intros lo hi Hm; rewrite lower_bound_S.
  - change (2 ^ N.of_nat 0) with 1 in Hm. destruct (N.ltb_spec lo hi); [lia|]. exists lo. repeat split; lia.
  - rewrite pow2S in Hm. remember (2 ^ N.of_nat f) as p eqn:Hp. clear Hp.
    destruct (N.ltb_spec lo hi); [|exists lo; repeat split; lia].
    destruct (below ((lo + hi) / 2)) as [[|]|] eqn:E; [| |exfalso; exact (T _ E)].
    + destruct (IH ((lo + hi) / 2 + 1) hi) as (k & -> & A & B); [lia|]. exists k. repeat split; lia.
    + destruct (IH lo ((lo + hi) / 2)) as (k & -> & A & B); [lia|]. exists k. repeat split; lia.
Qed.

Lemma bs_closed_S f probe l r :
  bs_closed (S f) probe l r =
  if (l <=? r)%Z then
    match probe ((l + r) / 2)%Z with
    | None => NotFound
    | Some Eq => Found (Z.to_N ((l + r) / 2))
    | Some Gt => bs_closed f probe ((l + r) / 2 + 1)%Z r
    | Some Lt => bs_closed f probe l ((l + r) / 2 - 1)%Z
    end
  else NotFound.
Proof. reflexivity. Qed.

Lemma bs_closed_any probe : forall f l r,
  Z.to_N (r - l + 1) < 2 ^ N.of_nat f -> bs_closed (S f) probe l r <> OutOfFuel.
Proof.
  induction f as [|f IH]; intros l r Hm; rewrite bs_closed_S.
  - change (2 ^ N.of_nat 0) with 1 in Hm. destruct (Z.leb_spec l r); [lia|discriminate].
  - rewrite pow2S in Hm. remember (2 ^ N.of_nat f) as p eqn:Hp. clear Hp.
    destruct (Z.leb_spec l r); [|discriminate].
    destruct (probe ((l + r) / 2)%Z) as [[| |]|]; try discriminate; apply IH; lia.
Qed.

(* the fuel the model passes *)
Lemma bs_fuel_S lo hi : bs_fuel lo hi = S (N.to_nat (N.size (hi - lo))).
Proof. reflexivity. Qed.

Lemma bs_while_fuel_any probe lo hi : bs_while (bs_fuel lo hi) probe lo hi <> OutOfFuel.
Proof. rewrite bs_fuel_S. apply bs_while_any, size_lt. Qed.

Lemma lower_bound_fuel_any below lo hi : lb_ok lo hi (lower_bound (bs_fuel lo hi) below lo hi).
Proof. rewrite bs_fuel_S. apply lower_bound_any, size_lt. Qed.

Lemma lower_bound_fuel_total below lo hi : (forall i, below i <> None) ->
  exists k, lower_bound (bs_fuel lo hi) below lo hi = Found k /\ lo <= k /\ k <= N.max lo hi.
Proof. intros T. rewrite bs_fuel_S. apply lower_bound_total; [exact T|apply size_lt]. Qed.

Lemma bs_do_fuel_any probe hi : 0 < hi -> bs_do (bs_fuel 0 hi) probe 0 hi <> OutOfFuel.
Proof.
  intros Hp. rewrite bs_fuel_S. replace (hi - 0) with hi by lia.
  assert (B := size_lt hi).
  destruct (N.to_nat (N.size hi)) as [|f] eqn:E.
  - exfalso. change (2 ^ N.of_nat 0) with 1 in B. lia.
  - apply bs_do_any; [exact Hp|]. rewrite !pow2S in *. remember (2 ^ N.of_nat f) as p. lia.
Qed.

Lemma bs_closed_fuel_any probe (num : Z) :
  bs_closed (bs_fuel 0 (Z.to_N num) + 1) probe 0%Z (num - 1)%Z <> OutOfFuel.
Proof.
  rewrite bs_fuel_S, Nat.add_1_r. apply bs_closed_any.
  replace (Z.to_N num - 0) with (Z.to_N num) by lia.
  assert (B := size_lt (Z.to_N num)). rewrite pow2S.
  remember (2 ^ N.of_nat (N.to_nat (N.size (Z.to_N num)))) as p. lia.
Qed.

(* ------------------------------------------------ error classes of the leaf readers *)

Lemma mem_get_offset_err m b i e : mem_get_offset m b i = Err e -> e = EMalformed.
Proof.
  unfold mem_get_offset. cbv zeta.
  destruct (N.land _ O64MASK =? 0); [discriminate|].
  destruct (_ || _); [|discriminate]. now intros [= <-].
Qed.

Lemma lazy_offset_err s pos e : lazy_offset s pos = Err e -> e = EMalformed.
Proof.
  unfold lazy_offset. destruct (read_at _ _ L_OFF32); [|now intros [= <-]]. cbv zeta.
  destruct (N.land _ L_MASK =? 0); [discriminate|].
  destruct (_ <=? _); [now intros [= <-]|].
  destruct (read_at _ _ L_OFF64); [discriminate|now intros [= <-]].
Qed.

Lemma lazy_crc_err s pos e : lazy_crc s pos = Err e -> e = EMalformed.
Proof. unfold lazy_crc. destruct (read_at _ _ _); [discriminate|now intros [= <-]]. Qed.

Lemma lazy_rev_at_err s i e : lazy_rev_at s i = Err e -> e = EMalformed.
Proof.
  unfold lazy_rev_at. destruct (read_at _ _ _); [|now intros [= <-]]. cbv zeta.
  destruct (_ <=? _); [now intros [= <-]|discriminate].
Qed.

Lemma scan_offset_err s pos e : scan_offset s pos = Err e -> e = EMalformed.
Proof.
  unfold scan_offset. cbv zeta. destruct (_ <? _); [now intros [= <-]|].
  destruct (N.land _ S_MASK =? 0); [discriminate|].
  destruct (_ <? _); [now intros [= <-]|discriminate].
Qed.

Section Readers.
Variable hs : nat.

Lemma mem_entry_at_err m b i e : mem_entry_at hs m b i = Err e -> e = EMalformed.
Proof.
  unfold mem_entry_at. destruct (mem_get_offset m b i) eqn:E; [discriminate|].
  intros [= <-]. eapply mem_get_offset_err; eassumption.
Qed.

Lemma lazy_entry_at_err s pos e : lazy_entry_at hs s pos = Err e -> e = EMalformed.
Proof.
  unfold lazy_entry_at. destruct (lazy_name hs s pos); [|now intros [= <-]].
  destruct (lazy_offset s pos) eqn:E; [|intros [= <-]; eapply lazy_offset_err; eassumption].
  destruct (lazy_crc s pos) eqn:E2; [discriminate|intros [= <-]; eapply lazy_crc_err; eassumption].
Qed.

Definition not_fuel (o : option ierr) : Prop := o <> Some EFuel.

Lemma mem_bucket_entries_nf m b : forall n second, not_fuel (snd (mem_bucket_entries hs m b second n)).
Proof.
  induction n as [|n IH]; intros second; cbn [mem_bucket_entries]; [discriminate|].
  destruct (mem_entry_at hs m b second) eqn:E.
  - specialize (IH (second + 1)). destruct (mem_bucket_entries hs m b (second + 1) n). exact IH.
  - apply mem_entry_at_err in E. subst. discriminate.
Qed.

Lemma mem_entries_from_nf m : forall ks total, not_fuel (snd (mem_entries_from hs m ks total)).
Proof.
  induction ks as [|k r IH]; intros total; cbn [mem_entries_from]; [discriminate|]. cbv zeta.
  destruct (_ <=? _); [apply IH|].
  destruct (fmap_at m k); [|discriminate].
  pose proof (mem_bucket_entries_nf m (nthN (m_bk m) n emptyB) (N.to_nat (fan_at m k - total)) 0) as A.
  destruct (mem_bucket_entries hs m _ 0 _) as [l [e|]]; cbn [snd] in *; [exact A|].
  specialize (IH (fan_at m k)). destruct (mem_entries_from hs m r (fan_at m k)). exact IH.
Qed.

Lemma mem_entries_nf m : not_fuel (snd (mem_entries hs m)).
Proof. apply mem_entries_from_nf. Qed.

Lemma mem_find_nf m h : fst (mem_find hs m h) <> OutOfFuel.
Proof.
  unfold mem_find. destruct (fmap_at m (first_byte h)); [|discriminate].
  destruct (_ <=? _); [discriminate|]. cbv zeta.
  destruct (N.eqb_spec (bucket_n (nthN (m_bk m) n emptyB)) 0); [discriminate|].
  cbn [fst]. apply bs_do_fuel_any. lia.
Qed.

Lemma mem_find_offset_nf m st h : fst (mem_find_offset hs m st h) <> Err EFuel.
Proof.
  unfold mem_find_offset. pose proof (mem_find_nf m h) as A.
  destruct (mem_find hs m h) as [[i| | |] k]; cbn [fst] in *; try discriminate; [|congruence].
  destruct (mem_get_offset m _ i) eqn:E; [discriminate|]. apply mem_get_offset_err in E. subst. discriminate.
Qed.

Lemma mem_find_crc_nf m h : mem_find_crc hs m h <> Err EFuel.
Proof.
  unfold mem_find_crc. pose proof (mem_find_nf m h) as A.
  destruct (mem_find hs m h) as [[i| | |] k]; cbn [fst] in *; try discriminate. congruence.
Qed.

Lemma mem_contains_nf m h : mem_contains hs m h <> Err EFuel.
Proof.
  unfold mem_contains. pose proof (mem_find_nf m h) as A.
  destruct (mem_find hs m h) as [[i| | |] k]; cbn [fst] in *; try discriminate. congruence.
Qed.

Lemma mem_gen_nf m : mem_gen hs m <> Err EFuel.
Proof.
  unfold mem_gen. pose proof (mem_entries_nf m) as A.
  destruct (mem_entries hs m) as [l [e|]]; [|discriminate]. cbn in A. congruence.
Qed.

Lemma mem_find_hash_nf m st o : fst (mem_find_hash hs m st o) <> Err EFuel.
Proof.
  unfold mem_find_hash.
  destruct (match ms_map st with Some mp => omap_get mp o | None => None end); [discriminate|].
  destruct (ms_once st); [discriminate|].
  pose proof (mem_gen_nf m) as A. destruct (mem_gen hs m); cbn [fst].
  - destruct (omap_get a o); discriminate.
  - congruence.
Qed.

Lemma mem_by_offset_nf m : not_fuel (snd (mem_by_offset hs m)).
Proof.
  unfold mem_by_offset. pose proof (mem_entries_nf m) as A.
  destruct (mem_entries hs m) as [l [e|]]; [exact A|discriminate].
Qed.

Lemma mem_prefix_walk_nf m b prefix : forall n pos, not_fuel (snd (mem_prefix_walk hs m b prefix pos n)).
Proof.
  induction n as [|n IH]; intros pos; cbn [mem_prefix_walk]; [discriminate|].
  destruct (_ <? _); [discriminate|]. destruct (negb _); [discriminate|].
  destruct (mem_entry_at hs m b pos) eqn:E.
  - specialize (IH (pos + 1)). destruct (mem_prefix_walk hs m b prefix (pos + 1) n). exact IH.
  - apply mem_entry_at_err in E. subst. discriminate.
Qed.

Lemma mem_prefix_nf m prefix : not_fuel (snd (mem_prefix hs m prefix)).
Proof.
  unfold mem_prefix. destruct prefix as [|p0 pr]; [apply mem_entries_nf|].
  destruct (fmap_at m (N.to_nat p0)); [|discriminate]. cbv zeta.
  match goal with |- context [lower_bound (bs_fuel 0 ?n) ?bel 0 ?n] =>
    destruct (lower_bound_fuel_total bel 0 n) as (k & -> & _) end; [discriminate|].
  apply mem_prefix_walk_nf.
Qed.

(* ---- LazyIndex *)
Lemma lazy_find_pos_nf s h : lazy_find_pos hs s h <> OutOfFuel.
Proof.
  unfold lazy_find_pos. destruct (lazy_bounds s (first_byte h)) as [lo hi].
  destruct (hi <=? lo); [discriminate|]. apply bs_while_fuel_any.
Qed.

Lemma lazy_contains_nf s h : lazy_contains hs s h <> Err EFuel.
Proof.
  unfold lazy_contains. pose proof (lazy_find_pos_nf s h). destruct (lazy_find_pos hs s h); congruence.
Qed.

Lemma lazy_find_offset_nf s h : lazy_find_offset hs s h <> Err EFuel.
Proof.
  unfold lazy_find_offset. pose proof (lazy_find_pos_nf s h). destruct (lazy_find_pos hs s h); try congruence.
  destruct (lazy_offset s i) eqn:E; [discriminate|]. apply lazy_offset_err in E. subst. discriminate.
Qed.

Lemma lazy_find_crc_nf s h : lazy_find_crc hs s h <> Err EFuel.
Proof.
  unfold lazy_find_crc. pose proof (lazy_find_pos_nf s h). destruct (lazy_find_pos hs s h); try congruence.
  destruct (lazy_crc s i) eqn:E; [discriminate|]. apply lazy_crc_err in E. subst. discriminate.
Qed.

Lemma lazy_find_hash_nf s want : lazy_find_hash hs s want <> Err EFuel.
Proof.
  unfold lazy_find_hash. cbv zeta.
  match goal with |- context [bs_while (bs_fuel 0 ?n) ?pr 0 ?n] =>
    pose proof (bs_while_fuel_any pr 0 n) as A; destruct (bs_while (bs_fuel 0 n) pr 0 n) end; try congruence.
  destruct (lazy_rev_at s i) eqn:E.
  - destruct (lazy_name hs s a); discriminate.
  - apply lazy_rev_at_err in E. subst. discriminate.
Qed.

Lemma lazy_walk_nf s : forall n pos, not_fuel (snd (lazy_walk hs s pos n)).
Proof.
  induction n as [|n IH]; intros pos; cbn [lazy_walk]; [discriminate|].
  destruct (lazy_entry_at hs s pos) eqn:E.
  - specialize (IH (pos + 1)). destruct (lazy_walk hs s (pos + 1) n). exact IH.
  - apply lazy_entry_at_err in E. subst. discriminate.
Qed.

Lemma lazy_entries_nf s : not_fuel (snd (lazy_entries hs s)).
Proof. apply lazy_walk_nf. Qed.

Lemma lazy_prefix_walk_nf s prefix : forall n pos, not_fuel (snd (lazy_prefix_walk hs s prefix pos n)).
Proof.
  induction n as [|n IH]; intros pos; cbn [lazy_prefix_walk]; [discriminate|].
  destruct (lazy_entry_at hs s pos) eqn:E.
  - destruct (negb _); [discriminate|].
    specialize (IH (pos + 1)). destruct (lazy_prefix_walk hs s prefix (pos + 1) n). exact IH.
  - apply lazy_entry_at_err in E. subst. discriminate.
Qed.

Lemma lazy_prefix_nf s prefix : not_fuel (snd (lazy_prefix hs s prefix)).
Proof.
  unfold lazy_prefix. destruct prefix as [|p0 pr]; [apply lazy_entries_nf|].
  destruct (lazy_bounds s (N.to_nat p0)) as [lo hi].
  destruct (hi <=? lo); [discriminate|]. cbv zeta.
  match goal with |- context [lower_bound (bs_fuel lo hi) ?bel lo hi] =>
    pose proof (lower_bound_fuel_any bel lo hi) as A; destruct (lower_bound (bs_fuel lo hi) bel lo hi) end;
    cbn in A; try contradiction; [|discriminate].
  destruct (hi <=? i); [discriminate|apply lazy_prefix_walk_nf].
Qed.

Lemma lazy_rev_walk_nf s : forall n pos, not_fuel (snd (lazy_rev_walk hs s pos n)).
Proof.
  induction n as [|n IH]; intros pos; cbn [lazy_rev_walk]; [discriminate|].
  destruct (lazy_rev_at s pos) eqn:E0; [|apply lazy_rev_at_err in E0; subst; discriminate].
  destruct (lazy_entry_at hs s a) eqn:E.
  - specialize (IH (pos + 1)). destruct (lazy_rev_walk hs s (pos + 1) n). exact IH.
  - apply lazy_entry_at_err in E. subst. discriminate.
Qed.

Lemma lazy_by_offset_nf s : not_fuel (snd (lazy_by_offset hs s)).
Proof. apply lazy_rev_walk_nf. Qed.

(* ---- mmap.PackScanner *)
Lemma scan_find_offset_nf s h : scan_find_offset s h <> Err EFuel.
Proof.
  unfold scan_find_offset. cbv zeta. destruct (_ <? blen h); [discriminate|].
  match goal with |- context [if ?lo <? ?hi then lower_bound _ ?bel _ _ else _] =>
    destruct (lo <? hi);
    [destruct (lower_bound_fuel_total bel lo hi) as (k & -> & _); [discriminate|]|] end.
  - destruct (_ && _); [|discriminate]. intros E. apply scan_offset_err in E. discriminate.
  - destruct (_ && _); [|discriminate]. intros E. apply scan_offset_err in E. discriminate.
Qed.

Lemma scan_find_hash_nf s want : scan_find_hash hs s want <> Err EFuel.
Proof.
  unfold scan_find_hash. cbv zeta.
  match goal with |- context [bs_closed ?f ?pr 0%Z ?r] =>
    pose proof (bs_closed_fuel_any pr (Z.quot (Z.of_N (blen (s_rev s)) - Z.of_N S_REVHDR - 2 * Z.of_nat hs) 4)) as A;
    destruct (bs_closed f pr 0%Z r) end; try congruence; try discriminate.
  destruct (_ <? _); discriminate.
Qed.

End Readers.

(* ------------------------------------------------ the 64-bit table: slot == length is rejected *)

(* MemoryIndex.getOffset: the number of 8-byte slots is |Offset64| / 8; any slot
   index >= that number (in particular == it) is ErrMalformedIdxFile *)
Lemma mem_get_offset_slot_rejected m b i :
  let ofs := get32 (slice (b_off32 b) (4 * i) 4) in
  N.land ofs O64MASK <> 0 -> blen (m_off64 m) / 8 <= N.ldiff ofs O64MASK ->
  mem_get_offset m b i = Err EMalformed.
Proof.
  cbv zeta. intros Hm Hs. unfold mem_get_offset. cbv zeta.
  destruct (N.eqb_spec (N.land (get32 (slice (b_off32 b) (4 * i) 4)) O64MASK) 0); [contradiction|].
  remember (N.ldiff (get32 (slice (b_off32 b) (4 * i) 4)) O64MASK) as slot. remember (blen (m_off64 m)) as l.
  clear - Hs.
  destruct (N.ltb_spec l 8); [reflexivity|]. destruct (N.ltb_spec (l - 8) (8 * slot)); [reflexivity|]. exfalso. lia.
Qed.

(* ... and an accepted slot lies wholly inside the table (C10's lemma, restated with the slot count) *)
Lemma mem_get_offset_slot_in_range m b i o :
  let ofs := get32 (slice (b_off32 b) (4 * i) 4) in
  mem_get_offset m b i = Ok o -> N.land ofs O64MASK <> 0 ->
  N.ldiff ofs O64MASK < blen (m_off64 m) / 8 /\ 8 * N.ldiff ofs O64MASK + 8 <= blen (m_off64 m).
Proof.
  cbv zeta. intros E Hm. apply mem_get_offset_in_range in E. cbv zeta in E.
  destruct E as [[E _]|(_ & E & _)]; [contradiction|].
  remember (N.ldiff (get32 (slice (b_off32 b) (4 * i) 4)) O64MASK) as slot. remember (blen (m_off64 m)) as l.
  clear - E. split; lia.
Qed.

(* LazyIndex.offset: l_count64 slots were counted at open time *)
Lemma lazy_offset_slot_rejected s pos b :
  read_at (l_file s) (l_off32 s + pos * L_OFF32) L_OFF32 = Some b ->
  N.land (get32 b) L_MASK <> 0 -> l_count64 s <= N.ldiff (get32 b) L_MASK ->
  lazy_offset s pos = Err EMalformed.
Proof.
  intros R Hm Hs. unfold lazy_offset. rewrite R. cbv zeta.
  destruct (N.eqb_spec (N.land (get32 b) L_MASK) 0); [contradiction|].
  destruct (N.leb_spec (l_count64 s) (N.ldiff (get32 b) L_MASK)); [reflexivity|lia].
Qed.

(* PackScanner.offset: the slot must end at or before the trailer *)
Lemma scan_offset_slot_rejected s pos :
  let start := s_off32 s + pos * S_OFF32 in
  let off32 := get32 (slice (s_idx s) start S_OFF32) in
  start + S_OFF32 <= blen (s_idx s) -> N.land off32 S_MASK <> 0 ->
  s_trailer s < s_off64 s + N.ldiff off32 S_MASK * S_OFF64 + S_OFF64 ->
  scan_offset s pos = Err EMalformed.
Proof.
  cbv zeta. intros Hr Hm Hs. unfold scan_offset. cbv zeta.
  destruct (N.ltb_spec (blen (s_idx s)) (s_off32 s + pos * S_OFF32 + S_OFF32)); [lia|].
  destruct (N.eqb_spec (N.land (get32 (slice (s_idx s) (s_off32 s + pos * S_OFF32) S_OFF32)) S_MASK) 0); [contradiction|].
  match goal with |- (if ?c then _ else _) = _ => destruct c eqn:E end; [reflexivity|].
  apply N.ltb_ge in E. lia.
Qed.

(* ------------------------------------------------ Decoder.Decode: consistency and size of what it builds *)

Lemma read_seq_spec : forall sizes r bs r',
  read_seq sizes r = Some (bs, r') ->
  r = concat bs ++ r' /\ Forall2 (fun n b => blen b = n) sizes bs.
Proof.
  induction sizes as [|n rest IH]; intros r bs r' E; cbn [read_seq] in E.
  - injection E as <- <-. split; [reflexivity|constructor].
  - destruct (take n r) as [[b r1]|] eqn:T; [|discriminate].
    destruct (read_seq rest r1) as [[bs1 r2]|] eqn:R; [|discriminate].
    injection E as <- <-. apply take_some in T. destruct T as [-> Hl].
    apply IH in R. destruct R as [-> F]. split.
    + cbn [concat]. now rewrite app_assoc.
    + constructor; assumption.
Qed.

Definition bucket_ok (hs : nat) (b : bucket) : Prop :=
  exists n, blen (b_names b) = n * N.of_nat hs /\ blen (b_off32 b) = n * 4 /\ blen (b_crc32 b) = n * 4.

Lemma zip_buckets_ok hs : forall (cs : list N) ns crcs offs,
  Forall2 (fun n b => blen b = n) (map (fun c => c * N.of_nat hs) cs) ns ->
  Forall2 (fun n b => blen b = n) (map (fun c => c * 4) cs) crcs ->
  Forall2 (fun n b => blen b = n) (map (fun c => c * 4) cs) offs ->
  Forall (bucket_ok hs) (zip_buckets ns crcs offs).
Proof.
  induction cs as [|c cs IH]; intros ns crcs offs F1 F2 F3; cbn [map] in *.
  - inversion F1; subst. constructor.
  - inversion F1; subst. inversion F2; subst. inversion F3; subst. cbn [zip_buckets].
    constructor; [|apply IH; assumption]. exists c. cbn. repeat split; assumption.
Qed.

Lemma blen_concat_app (l : list bytes) (r : bytes) : blen (concat l ++ r) = fold_right (fun b a => blen b + a) 0 l + blen r.
Proof.
  induction l as [|b l IH]; cbn [concat fold_right app]; [lia|].
  rewrite <- app_assoc, blen_app, IH. lia.
Qed.

Definition tables_len (bk : list bucket) : N :=
  fold_right (fun b a => blen (b_names b) + blen (b_off32 b) + blen (b_crc32 b) + a) 0 bk.

Lemma tables_len_zip : forall ns crcs offs,
  tables_len (zip_buckets ns crcs offs) <=
  fold_right (fun b a => blen b + a) 0 ns + fold_right (fun b a => blen b + a) 0 crcs + fold_right (fun b a => blen b + a) 0 offs.
Proof.
  induction ns as [|n ns IH]; intros crcs offs; cbn [zip_buckets tables_len fold_right]; [lia|].
  destruct crcs as [|c crcs]; [cbn; lia|]. destruct offs as [|o offs]; [cbn; lia|].
  cbn [zip_buckets tables_len fold_right b_names b_off32 b_crc32]. specialize (IH crcs offs). unfold tables_len in IH. lia.
Qed.

Lemma read_fanout_len : forall n r prev acc fo r',
  read_fanout n r prev acc = Some (fo, r') -> blen r = 4 * N.of_nat n + blen r'.
Proof.
  induction n as [|n IH]; intros r prev acc fo r' E; cbn [read_fanout] in E.
  - injection E as _ <-. lia.
  - destruct (take 4 r) as [[w rr]|] eqn:T; [|discriminate]. destruct (_ <? _); [discriminate|].
    apply IH in E. apply take_some in T. destruct T as [-> L]. rewrite blen_app, L, E. lia.
Qed.

Section Decode.
Variable hs : nat.
Variable Hsz : nat -> bytes -> bytes.

(* every bucket of a decoded index is consistent, and everything Decode keeps
   (names, crc, offset32 and offset64 tables, both checksums) fits in the file:
   the allocation is bounded by |file| whatever the fanout table claims *)
Lemma decode_consistent file m :
  decode hs Hsz file = Ok m ->
  Forall (bucket_ok hs) (m_bk m) /\
  tables_len (m_bk m) + blen (m_off64 m) + blen (m_pack m) + blen (m_sum m) + 1032 <= blen file /\
  List.length (m_fanout m) = NFANOUT.
Proof.
  intros E. pose proof (decode_fanout_monotone hs Hsz file m E) as [Hfl _].
  unfold decode in E.
  destruct (take 4 file) as [[mg r1]|] eqn:T1; [|discriminate].
  destruct (negb (bytes_eqb mg IDX_MAGIC)); [discriminate|].
  destruct (take 4 r1) as [[vb r2]|] eqn:T2; [|discriminate].
  destruct (negb (get32 vb =? IDX_VERSION)); [discriminate|].
  destruct (read_fanout NFANOUT r2 0 []) as [[fo r3]|] eqn:Ef; [|discriminate].
  destruct (negb (size_ok hs (last fo 0) (blen file))); [discriminate|].
  destruct (read_seq _ r3) as [[names r4]|] eqn:R1; [|discriminate].
  destruct (read_seq _ r4) as [[crcs r5]|] eqn:R2; [|discriminate].
  destruct (read_seq _ r5) as [[offs r6]|] eqn:R3; [|discriminate].
  destruct (take _ r6) as [[off64 r7]|] eqn:T3; [|discriminate].
  destruct (take _ r7) as [[pack r8]|] eqn:T4; [|discriminate].
  destruct (take _ r8) as [[sum r9]|] eqn:T5; [|discriminate].
  destruct (negb (bytes_eqb sum _)); [discriminate|].
  injection E as <-. cbn [m_bk m_off64 m_pack m_sum m_fanout] in *.
  apply read_seq_spec in R1, R2, R3. destruct R1 as [-> F1], R2 as [-> F2], R3 as [-> F3].
  split; [|split; [|exact Hfl]].
  - eapply zip_buckets_ok; eassumption.
  - apply take_some in T1, T2, T3, T4, T5.
    destruct T1 as [-> L1], T2 as [-> L2], T3 as [E3 L3], T4 as [-> L4], T5 as [-> L5].
    assert (Hfan : blen r2 = 1024 + blen (concat names ++ concat crcs ++ concat offs ++ r6)).
    { apply read_fanout_len in Ef. exact Ef. }
    pose proof (tables_len_zip names crcs offs) as Hz.
    rewrite !blen_app, L1, L2, Hfan. rewrite !blen_concat_app. rewrite E3, !blen_app, L4, L5. lia.
Qed.

End Decode.

(* ------------------------------------------------ statements re-exported by Properties/C53.v *)
Theorem c53_idx_total : forall hs m st h o prefix (s : lazyidx) want (sc : scanner) w,
  fst (mem_find_offset hs m st h) <> Err EFuel /\ mem_find_crc hs m h <> Err EFuel /\ mem_contains hs m h <> Err EFuel /\
  fst (mem_find_hash hs m st o) <> Err EFuel /\ snd (mem_entries hs m) <> Some EFuel /\ snd (mem_by_offset hs m) <> Some EFuel /\
  snd (mem_prefix hs m prefix) <> Some EFuel /\
  lazy_contains hs s h <> Err EFuel /\ lazy_find_offset hs s h <> Err EFuel /\ lazy_find_crc hs s h <> Err EFuel /\
  lazy_find_hash hs s want <> Err EFuel /\ snd (lazy_entries hs s) <> Some EFuel /\ snd (lazy_by_offset hs s) <> Some EFuel /\
  snd (lazy_prefix hs s prefix) <> Some EFuel /\
  scan_find_offset sc h <> Err EFuel /\ scan_find_hash hs sc w <> Err EFuel.
Proof.
  intros. repeat split.
  - apply mem_find_offset_nf. - apply mem_find_crc_nf. - apply mem_contains_nf. - apply mem_find_hash_nf.
  - apply mem_entries_nf. - apply mem_by_offset_nf. - apply mem_prefix_nf.
  - apply lazy_contains_nf. - apply lazy_find_offset_nf. - apply lazy_find_crc_nf. - apply lazy_find_hash_nf.
  - apply lazy_entries_nf. - apply lazy_by_offset_nf. - apply lazy_prefix_nf.
  - apply scan_find_offset_nf. - apply scan_find_hash_nf.
Qed.

Theorem c53_idx_no_oob :
  (forall m b i, let ofs := get32 (slice (b_off32 b) (4 * i) 4) in
     N.land ofs O64MASK <> 0 -> blen (m_off64 m) / 8 <= N.ldiff ofs O64MASK -> mem_get_offset m b i = Err EMalformed) /\
  (forall m b i o, let ofs := get32 (slice (b_off32 b) (4 * i) 4) in
     mem_get_offset m b i = Ok o -> N.land ofs O64MASK <> 0 ->
     N.ldiff ofs O64MASK < blen (m_off64 m) / 8 /\ 8 * N.ldiff ofs O64MASK + 8 <= blen (m_off64 m)) /\
  (forall s pos b, read_at (l_file s) (l_off32 s + pos * L_OFF32) L_OFF32 = Some b ->
     N.land (get32 b) L_MASK <> 0 -> l_count64 s <= N.ldiff (get32 b) L_MASK -> lazy_offset s pos = Err EMalformed) /\
  (forall s pos, let start := s_off32 s + pos * S_OFF32 in
     let off32 := get32 (slice (s_idx s) start S_OFF32) in
     start + S_OFF32 <= blen (s_idx s) -> N.land off32 S_MASK <> 0 ->
     s_trailer s < s_off64 s + N.ldiff off32 S_MASK * S_OFF64 + S_OFF64 -> scan_offset s pos = Err EMalformed).
Proof.
  repeat split.
  - apply mem_get_offset_slot_rejected.
  - eapply mem_get_offset_slot_in_range; eassumption.
  - eapply mem_get_offset_slot_in_range; eassumption.
  - apply lazy_offset_slot_rejected.
  - apply scan_offset_slot_rejected.
Qed.
