(* Proofs/C43Limit.v — Log's limit iterator pulls lazily from the walker and
   stops it at the tail commit; that equals filtering the complete walk. *)
From Coq Require Import List Arith ZArith Bool Lia Permutation.
From GoGit Require Import Base.Out Spec.Dag Model.CommitWalk Model.LogWalk Proofs.Worklist Proofs.C43 Proofs.C43Heap.
Import ListNotations.

Lemma walk_prefix : forall g order stop (from : node), dag_closed g = true -> from < nnodes g ->
  fst (walk_by_order order g stop (walk_fuel g) from [])
  = cut_at stop (fst (walk_by_order order g nostop (walk_fuel g) from [])).
Proof.
  intros g order stop from Hc Hf.
  assert (H1 : forall x : node, In x [from] -> x < nnodes g) by (intros x [Hx|[]]; now subst).
  assert (H2 : forall x : node, In x (concat [[from]]) -> x < nnodes g) by (intros x [Hx|[]]; now subst).
  destruct order as [|[|[|[|[|k]]]]]; unfold walk_by_order.
  - unfold pre_walk. rewrite !pre_loop_eq by assumption. unfold pre_gloop.
    destruct (gloop_stop_prefix _ pop_frames (pre_push g) stop (walk_fuel g) [[from]] [] []) as [suf [A B]].
    rewrite A, B. reflexivity.
  - unfold pre_walk. rewrite !pre_loop_eq by assumption. unfold pre_gloop.
    destruct (gloop_stop_prefix _ pop_frames (pre_push g) stop (walk_fuel g) [[from]] [] []) as [suf [A B]].
    rewrite A, B. reflexivity.
  - unfold post_walk. rewrite !post_loop_eq by assumption. unfold post_gloop.
    destruct (gloop_stop_prefix _ pop_list (post_push g) stop (walk_fuel g) [from] [] []) as [suf [A B]].
    rewrite A, B. reflexivity.
  - unfold bfs_walk. rewrite !bfs_loop_eq by assumption. unfold bfs_gloop.
    destruct (gloop_stop_prefix _ pop_list (bfs_push g) stop (walk_fuel g) [from] [] []) as [suf [A B]].
    rewrite A, B. reflexivity.
  - unfold ctime_walk. change (heap_push g from []) with [from].
    rewrite !ctime_loop_eq by assumption. unfold ct_gloop.
    destruct (gloop_stop_prefix _ (heap_pop g) (ct_push g) stop (walk_fuel g) [from] [] []) as [suf [A B]].
    rewrite A, B. reflexivity.
  - unfold postfp_walk. rewrite !postfp_loop_eq by assumption. unfold fp_gloop.
    destruct (gloop_stop_prefix _ pop_list (fp_push g) stop (walk_fuel g) [from] [] []) as [suf [A B]].
    rewrite A, B. reflexivity.
Qed.

Lemma limit_cut : forall g since until tail l,
  limit_list g since until tail
    (cut_at (fun c => passes g since until c && match tail with Some t => t =? c | None => false end) l)
  = limit_list g since until tail l.
Proof.
  intros g since until tail. induction l as [|c r IH]; [reflexivity|].
  cbn [cut_at]. unfold passes at 1.
  destruct (match since with Some s => (ctime g c <? s)%Z | None => false end) eqn:E1.
  - simpl. rewrite E1. exact IH.
  - destruct (match until with Some u => (u <? ctime g c)%Z | None => false end) eqn:E2.
    + simpl. rewrite E1, E2. exact IH.
    + destruct (match tail with Some t => t =? c | None => false end) eqn:E3.
      * simpl. rewrite E1, E2, E3. reflexivity.
      * simpl. rewrite E1, E2, E3. now rewrite IH.
Qed.

Theorem log_limit : forall g order (from : node) since until tail,
  dag_closed g = true -> from < nnodes g ->
  fst (log_from g order from since until tail)
  = limit_list g since until tail (fst (walk_by_order order g nostop (walk_fuel g) from [])).
Proof.
  intros g order from since until tail Hc Hf. unfold log_from.
  set (stop := fun c => passes g since until c && match tail with Some t => t =? c | None => false end).
  pose proof (walk_prefix g order stop from Hc Hf) as P.
  destruct (walk_by_order order g stop (walk_fuel g) from []) as [l e]. simpl in *.
  rewrite P. apply limit_cut.
Qed.

(* ------------------------------------------------------------- corollaries *)
Lemma in_ancs_reach : forall g s x, dag_ok g = true -> dag_closed g = true -> s < nnodes g ->
  (In x (ancs g s) <-> reach g s x).
Proof. intros. now apply ancs_spec. Qed.

Lemma perm_of : forall g s l, dag_ok g = true -> dag_closed g = true -> s < nnodes g ->
  NoDup l -> (forall x, In x l <-> reach g s x) -> Permutation l (ancs g s).
Proof.
  intros g s l Hok Hc Hs Hnd Hin. apply NoDup_Permutation; [exact Hnd | apply ancs_NoDup|].
  intros x. rewrite Hin. symmetry. now apply ancs_spec.
Qed.

Lemma pre_perm : forall g s, dag_ok g = true -> dag_closed g = true -> s < nnodes g ->
  exists l, pre_walk g nostop (walk_fuel g) s [] = (l, WEof) /\ NoDup l /\ (forall x, In x l <-> reach g s x).
Proof.
  intros g s _ Hc Hs. destruct (post_nostop _ _ _ _ (pre_walk_post g Hc nostop [] s Hs)) as [l [E [N [H D]]]].
  exists l. split; [exact E|]. split; [exact N|]. intros x. rewrite H. apply ra_reach.
Qed.

Lemma post_perm : forall g s, dag_ok g = true -> dag_closed g = true -> s < nnodes g ->
  exists l, post_walk g nostop (walk_fuel g) s [] = (l, WEof) /\ NoDup l /\ (forall x, In x l <-> reach g s x).
Proof.
  intros g s _ Hc Hs. destruct (post_nostop _ _ _ _ (post_walk_post g Hc nostop [] s Hs)) as [l [E [N [H D]]]].
  exists l. split; [exact E|]. split; [exact N|]. intros x. rewrite H. apply ra_reach.
Qed.

Lemma bfs_perm : forall g s, dag_ok g = true -> dag_closed g = true -> s < nnodes g ->
  exists l, bfs_walk g nostop (walk_fuel g) s [] = (l, WEof) /\ NoDup l /\ (forall x, In x l <-> reach g s x).
Proof.
  intros g s _ Hc Hs. destruct (post_nostop _ _ _ _ (bfs_walk_post g Hc nostop [] s Hs)) as [l [E [N [H D]]]].
  exists l. split; [exact E|]. split; [exact N|]. intros x. rewrite H. apply ra_reach.
Qed.

Lemma ctime_perm : forall g s, dag_ok g = true -> dag_closed g = true -> s < nnodes g ->
  exists l, ctime_walk g nostop (walk_fuel g) s [] = (l, WEof) /\ NoDup l /\ (forall x, In x l <-> reach g s x).
Proof.
  intros g s _ Hc Hs. destruct (post_nostop _ _ _ _ (ctime_walk_post g Hc nostop [] s Hs)) as [l [E [N [H D]]]].
  exists l. split; [exact E|]. split; [exact N|]. intros x. rewrite H. apply ra_reach.
Qed.

Lemma postfp_perm : forall g s, dag_closed g = true -> s < nnodes g ->
  exists l, postfp_walk g nostop (walk_fuel g) s [] = (l, WEof) /\ NoDup l /\ (forall x, In x l <-> fp_reach g s x).
Proof.
  intros g s Hc Hs. destruct (post_nostop _ _ _ _ (postfp_walk_post g Hc nostop [] s Hs)) as [l [E [N [H D]]]].
  exists l. split; [exact E|]. split; [exact N|]. intros x. rewrite H. apply ra_fp_reach.
Qed.

Lemma walk_perm : forall g s order, order <= 4 ->
  dag_ok g = true -> dag_closed g = true -> s < nnodes g ->
  exists l, walk_by_order order g nostop (walk_fuel g) s [] = (l, WEof) /\
            Permutation l (ancs g s) /\
            (forall l1 x l2, l = l1 ++ x :: l2 -> x = s \/ exists y, In y l1 /\ In x (parents g y)).
Proof.
  intros g s order Ho Hok Hc Hs.
  assert (G : forall r, Post (parents g) nostop [] s r ->
    exists l, r = (l, WEof) /\ Permutation l (ancs g s) /\
      (forall l1 x l2, l = l1 ++ x :: l2 -> x = s \/ exists y, In y l1 /\ In x (parents g y))).
  { intros r P. destruct (post_nostop _ _ _ _ P) as [l [E [N [H D]]]]. exists l. split; [exact E|]. split.
    - apply perm_of; auto. intros x. rewrite H. apply ra_reach.
    - exact D. }
  destruct order as [|[|[|[|[|k]]]]]; unfold walk_by_order.
  - apply G. now apply pre_walk_post.
  - apply G. now apply pre_walk_post.
  - apply G. now apply post_walk_post.
  - apply G. now apply bfs_walk_post.
  - apply G. now apply ctime_walk_post.
  - exfalso. repeat apply le_S_n in Ho. inversion Ho.
Qed.

Lemma all_single : forall g order t, order <= 4 ->
  dag_ok g = true -> dag_closed g = true -> t < nnodes g ->
  exists l, all_walk order g [] [t] = Some l /\ Permutation l (ancs g t).
Proof.
  intros g order t Ho Hok Hc Ht.
  destruct (walk_perm g t order Ho Hok Hc Ht) as [l [E [P _]]].
  exists l. split; [|exact P].
  unfold all_walk, add_reference. simpl. rewrite E.
  assert (T : take_until_known [] l = (l, None)).
  { clear. induction l as [|c r IH]; [reflexivity|]. simpl. now rewrite IH. }
  rewrite T. reflexivity.
Qed.
