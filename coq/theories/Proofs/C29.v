(* Proofs/C29.v — a refused Checkout / Reset leaves the state as it was
   (examples on the repaired Checkout; the lemmas are in Proofs/Porcelain.v). *)
From Coq Require Import List NArith ZArith Bool String.
From GoGit Require Import Base.Out Model.Porcelain Proofs.PorcelainMaps Proofs.Porcelain Proofs.C25.
Import ListNotations.
Local Open Scope N_scope.

(* the state on which the unrepaired code misbehaved: unstaged change to a;
   branch other = commit 1 *)
Definition o_other : bytes := (refs_heads ++ b "other")%list.
Definition o_new : bytes := (refs_heads ++ b "new")%list.
Definition c29_state : state :=
  mkState [[(b "a", (KReg, b "A0"))]; [(b "a", (KReg, b "A1"))]]
          [(master, 0%Z); (o_other, 1%Z)] (HSym master)
          [(b "a", (KReg, b "A0"))] [(b "a", (KReg, b "dirty"))].

Lemma refusals_leave_state :
  checkout (mkCopts o_other (-1) false false false) c29_state = (Some EUnstaged, c29_state) /\
  checkout (mkCopts o_new 1 true false false) c29_state = (Some EUnstaged, c29_state) /\
  checkout (mkCopts o_new 7 true true false) c29_state = (Some EObjectNotFound, c29_state) /\
  checkout (mkCopts o_other 1 false false false) c29_state = (Some EBranchHashExclusive, c29_state) /\
  checkout (mkCopts o_other (-1) true true false) c29_state = (Some EBranchExists, c29_state).
Proof. vm_compute. repeat split. Qed.
