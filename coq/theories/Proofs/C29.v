(* Proofs/C29.v — a refused Checkout / Reset leaves the state as it was
   (examples on the repaired Checkout; the lemmas are in Proofs/Porcelain.v). *)
From Coq Require Import List NArith ZArith Bool String.
From GoGit Require Import Base.Out Model.Porcelain Proofs.PorcelainMaps Proofs.Porcelain Proofs.C25.
Import ListNotations.
Local Open Scope N_scope.

(* the state on which the unrepaired code misbehaved: unstaged change to a;
   branch other = commit 1 *)
Definition o_other : bytes := (refs_heads ++ b "other")%list.
Definition o_new : bytes := (refs_heads ++ b "new")%list.
Definition c29_state : state :=
  mkState [[(b "a", (KReg, b "A0"))]; [(b "a", (KReg, b "A1"))]]
          [(master, 0%Z); (o_other, 1%Z)] (HSym master)
          [(b "a", (KReg, b "A0"))] [(b "a", (KReg, b "dirty"))] [].

Lemma refusals_leave_state :
  checkout (mkCopts o_other (-1) false false false) c29_state = (Some EUnstaged, c29_state) /\
  checkout (mkCopts o_new 1 true false false) c29_state = (Some EUnstaged, c29_state) /\
  checkout (mkCopts o_new 7 true true false) c29_state = (Some EObjectNotFound, c29_state) /\
  checkout (mkCopts o_other 1 false false false) c29_state = (Some EBranchHashExclusive, c29_state) /\
  checkout (mkCopts o_other (-1) true true false) c29_state = (Some EBranchExists, c29_state).
Proof. vm_compute. repeat split. Qed.

(* the "missing object" family: HEAD's commit gone, target that is no commit,
   target commit without its tree, HEAD on a ref that is no branch *)
Definition c29_clean : state :=
  mkState [[(b "a", (KReg, b "A0"))]; [(b "a", (KReg, b "A1"))]]
          [(master, 0%Z); (o_other, 1%Z); (b "refs/tags/t", 0%Z)] (HSym master)
          [(b "a", (KReg, b "A0"))] [(b "a", (KReg, b "A0"))] [].
Definition with_head (s : state) (h : headref) := set_head s h.
Definition without_tree (s : state) (l : list Z) := mkState (commits s) (refs s) (head s) (idx s) (wt s) l.

Lemma missing_object_refusals :
  (* Create from a HEAD whose commit is missing: refused, no branch written *)
  checkout (mkCopts o_new (-1) true false false) (with_head c29_clean (HDet 9)) = (Some EObjectNotFound, with_head c29_clean (HDet 9)) /\
  checkout (mkCopts o_new (-1) true false true) (with_head c29_clean (HDet 9)) = (Some EObjectNotFound, with_head c29_clean (HDet 9)) /\
  (* target names a tree / blob *)
  checkout (mkCopts [] 100 false false false) c29_clean = (Some EOther, c29_clean) /\
  checkout (mkCopts o_new 101 true true false) c29_clean = (Some EOther, c29_clean) /\
  reset 100 Hard None c29_clean = (Some EObjectNotFound, c29_clean) /\
  (* target commit exists, its tree does not *)
  checkout (mkCopts o_other (-1) false false false) (without_tree c29_clean [1%Z]) = (Some EObjectNotFound, without_tree c29_clean [1%Z]) /\
  checkout (mkCopts o_new 1 true true false) (without_tree c29_clean [1%Z]) = (Some EObjectNotFound, without_tree c29_clean [1%Z]) /\
  reset 1 Mixed None (without_tree c29_clean [1%Z]) = (Some EObjectNotFound, without_tree c29_clean [1%Z]) /\
  reset 1 Keep None (without_tree c29_clean [0%Z]) = (Some EObjectNotFound, without_tree c29_clean [0%Z]) /\
  (* HEAD symbolic to a tag *)
  reset 1 Hard None (with_head c29_clean (HSym (b "refs/tags/t"))) = (Some EOther, with_head c29_clean (HSym (b "refs/tags/t"))) /\
  reset 1 Soft None (with_head c29_clean (HSym (b "refs/tags/t"))) = (Some EOther, with_head c29_clean (HSym (b "refs/tags/t"))).
Proof. vm_compute. repeat split. Qed.
