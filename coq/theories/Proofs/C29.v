(* Proofs/C29.v — what a refused Checkout / Reset leaves behind. *)
From Coq Require Import List NArith ZArith Bool String.
From GoGit Require Import Base.Out Model.Porcelain Proofs.PorcelainMaps Proofs.Porcelain Proofs.C25.
Import ListNotations.
Local Open Scope N_scope.

(* did Checkout get as far as its final Reset? *)
Definition pre_ok (o : copts) (s : state) : bool :=
  match fst (checkout_pre o s) with None => true | Some _ => false end.

Lemma checkout_err_frame : forall o s e s', checkout o s = (Some e, s') ->
  commits s' = commits s /\ idx s' = idx s /\ wt s' = wt s /\
  (forall n, n <> co_branch_name o -> lookup n (refs s') = lookup n (refs s)) /\
  (pre_ok o s = false -> co_create o = false -> s' = s) /\
  (pre_ok o s = false -> early_err e = true -> s' = s) /\
  (pre_ok o s = true -> exists x, checkout_pre o s = (None, (x, s'))).
Proof.
  intros o s e s' H. unfold checkout in H. unfold pre_ok.
  destruct (checkout_pre o s) as [[e1|] [[[c m] from] s2]] eqn:Ep; cbn [fst].
  - inversion H; subst. destruct (checkout_pre_frame _ _ _ _ _ Ep) as (F1 & F2 & F3 & F4).
    repeat split; auto.
    + intros _ Hc. eapply checkout_pre_err_nocreate; eauto.
    + intros _ He. eapply checkout_pre_early; eauto.
    + discriminate.
  - apply reset_err_unchanged in H. subst s'.
    destruct (checkout_pre_frame _ _ _ _ _ Ep) as (F1 & F2 & F3 & F4).
    repeat split; auto; try discriminate. intros _. eauto.
Qed.

(* witness of the defect: unstaged change to a, checkout of branch other
   (commit 1) without Force: ErrUnstagedChanges, but HEAD already points at other *)
Definition o_other : bytes := (refs_heads ++ b "other")%list.
Definition c29_state : state :=
  mkState [[(b "a", (KReg, b "A0"))]; [(b "a", (KReg, b "A1"))]]
          [(master, 0%Z); (o_other, 1%Z)] (HSym master)
          [(b "a", (KReg, b "A0"))] [(b "a", (KReg, b "dirty"))].

Lemma checkout_moves_head_then_refuses :
  exists s', checkout (mkCopts o_other (-1) false false false) c29_state = (Some EUnstaged, s') /\
             head c29_state = HSym master /\ head s' = HSym o_other.
Proof. eexists. vm_compute. repeat split. Qed.

(* ... and with Create the new branch exists afterwards *)
Definition o_new : bytes := (refs_heads ++ b "new")%list.
Lemma checkout_creates_branch_then_refuses :
  exists s', checkout (mkCopts o_new 1 true false false) c29_state = (Some EUnstaged, s') /\
             lookup o_new (refs c29_state) = None /\ lookup o_new (refs s') = Some 1%Z /\
             head s' = HSym o_new.
Proof. eexists. vm_compute. repeat split. Qed.

(* Create with a hash that is no commit: the branch is created (dangling) before the lookup fails *)
Lemma checkout_creates_dangling_branch :
  exists s', checkout (mkCopts o_new 7 true false false) c29_state = (Some EObjectNotFound, s') /\
             lookup o_new (refs s') = Some 7%Z.
Proof. eexists. vm_compute. repeat split. Qed.
