(* Proofs/C12Size.v — the on-disk size of a V2/V3 entry is git's ondisk_ce_size. *)
From Coq Require Import List NArith ZArith Arith Lia ZifyBool ZifyNat ZifyN Bool.
From GoGit Require Import Base.Out Model.IndexFile Proofs.C12.
Import ListNotations.
Local Open Scope N_scope.

(* read-cache.c: #define align_flex_name(STRUCT,len) ((offsetof(struct STRUCT,data) + (len) + 8) & ~7)
   with offsetof = 40 + hash size + 2 (flags) [+ 2 (flags2)] *)
Definition git_ondisk_size (hs : nat) (ext : bool) (namelen : nat) : nat :=
  ((40 + hs + 2 + (if ext then 2 else 0) + namelen + 8) / 8 * 8)%nat.

Lemma encode_entry_v23_size hs ver last e b :
  ver = 2 \/ ver = 3 -> List.length (e_hash e) = hs ->
  encode_entry hs ver last e = Ok b ->
  List.length b = git_ondisk_size hs (e_ita e || e_skip e) (List.length (e_name e)).
Proof.
  intros Hver Hh. unfold encode_entry.
  destruct (time_to_u32 (e_ctime e)) as [[sec nsec]|]; [|discriminate].
  destruct (time_to_u32 (e_mtime e)) as [[msec mnsec]|]; [|discriminate].
  assert (E : ((ver =? 2) || (ver =? 3))%bool = true) by (destruct Hver as [-> | ->]; reflexivity).
  rewrite E. cbv zeta. intros Hb.
  assert (Hb' := f_equal (fun r => match r with Ok x => List.length x | Err _ => 0%nat end) Hb). cbv beta iota in Hb'.
  rewrite <- Hb'. clear Hb Hb'. unfold git_ondisk_size.
  rewrite !app_length, !u32_length, Hh, zeros_length.
  destruct (e_ita e || e_skip e)%bool; rewrite ?app_length, ?u16_length;
    set (l := List.length (e_name e));
    [assert (Hm := Nat.mod_upper_bound (42 + hs + 2 + l) 8); assert (Hd := Nat.div_mod (42 + hs + 2 + l) 8)
    |assert (Hm := Nat.mod_upper_bound (42 + hs + 0 + l) 8); assert (Hd := Nat.div_mod (42 + hs + 0 + l) 8)];
    (* (w + 8) / 8 * 8 = w + 8 - w mod 8 *)
    lia.
Qed.
