(* Proofs/C35Dec.v — fmt "%d" / strconv.Atoi: parse_int (dec_bytes z) = Some z
   for every 64-bit z. *)
From Coq Require Import List NArith ZArith Bool Lia Arith String Ascii.
From GoGit Require Import Base.Out Model.Packp.
Import ListNotations.

Definition is_digit (c : N) : bool := N.leb 48 c && N.leb c 57.

(* the digits printed by dec_digits *)
Lemma dec_digits_spec : forall f n acc, (n < 10 ^ N.of_nat (S f))%N ->
  exists ds, bytes_of_string (dec_digits (S f) n acc) = ds ++ bytes_of_string acc /\ ds <> [] /\
    forallb is_digit ds = true /\
    forall r a, parse_dec_go (ds ++ r) a = parse_dec_go r (a * 10 ^ Z.of_nat (List.length ds) + Z.of_N n)%Z.
Proof.
  induction f as [|f IH]; intros n acc Hn.
  - (* one digit *)
    assert (n < 10)%N as Hlt by (cbn in Hn; lia).
    cbn [dec_digits]. assert ((n / 10 =? 0)%N = true) as -> by (apply N.eqb_eq, N.div_small; lia).
    rewrite (N.mod_small n 10 Hlt). exists [(48 + n)%N]. cbn [bytes_of_string app].
    rewrite N_ascii_embedding by lia. repeat split; [discriminate| |].
    + cbn [forallb]. unfold is_digit. assert ((48 <=? 48 + n)%N && (48 + n <=? 57)%N = true) as -> by (apply andb_true_intro; split; apply N.leb_le; lia). reflexivity.
    + intros r a. cbn [app parse_dec_go]. assert ((48 <=? 48 + n)%N && (48 + n <=? 57)%N = true) as -> by (apply andb_true_intro; split; apply N.leb_le; lia).
      f_equal. cbn [List.length]. change (10 ^ Z.of_nat 1)%Z with 10%Z. replace (48 + n - 48)%N with n by lia. lia.
  - change (dec_digits (S (S f)) n acc) with
      (let acc' := String (ascii_of_N (48 + n mod 10)) acc in if (n / 10 =? 0)%N then acc' else dec_digits (S f) (n / 10) acc').
    cbv zeta. pose proof (N.mod_lt n 10 ltac:(lia)) as Hm.
    destruct (N.eqb_spec (n / 10) 0) as [E|E].
    + assert (n < 10)%N as Hlt by (apply N.div_small_iff; [lia|exact E]).
      rewrite (N.mod_small n 10 Hlt). exists [(48 + n)%N]. cbn [bytes_of_string app].
      rewrite N_ascii_embedding by lia. repeat split; [discriminate| |].
      * cbn [forallb]. unfold is_digit. assert ((48 <=? 48 + n)%N && (48 + n <=? 57)%N = true) as -> by (apply andb_true_intro; split; apply N.leb_le; lia). reflexivity.
      * intros r a. cbn [app parse_dec_go]. assert ((48 <=? 48 + n)%N && (48 + n <=? 57)%N = true) as -> by (apply andb_true_intro; split; apply N.leb_le; lia).
        f_equal. cbn [List.length]. change (10 ^ Z.of_nat 1)%Z with 10%Z. replace (48 + n - 48)%N with n by lia. lia.
    + assert (n / 10 < 10 ^ N.of_nat (S f))%N as Hq.
      { apply N.div_lt_upper_bound; [lia|]. rewrite <- N.pow_succ_r'. now rewrite <- Nat2N.inj_succ. }
      destruct (IH (n / 10)%N (String (ascii_of_N (48 + n mod 10)) acc) Hq) as (ds & Hb & Hne & Hd & Hp).
      exists (ds ++ [(48 + n mod 10)%N]). rewrite Hb. cbn [bytes_of_string]. rewrite N_ascii_embedding by lia.
      rewrite <- app_assoc. repeat split; [destruct ds; discriminate| |].
      * rewrite forallb_app, Hd. cbn [forallb andb]. unfold is_digit.
        assert ((48 <=? 48 + n mod 10)%N && (48 + n mod 10 <=? 57)%N = true) as -> by (clear - Hm; generalize dependent (n mod 10)%N; intros m Hm; apply andb_true_intro; split; apply N.leb_le; lia). reflexivity.
      * intros r a. rewrite <- app_assoc, Hp. cbn [app parse_dec_go].
        assert ((48 <=? 48 + n mod 10)%N && (48 + n mod 10 <=? 57)%N = true) as -> by (clear - Hm; generalize dependent (n mod 10)%N; intros m Hm; apply andb_true_intro; split; apply N.leb_le; lia).
        f_equal. rewrite app_length. cbn [List.length]. rewrite Nat2Z.inj_add. change (Z.of_nat 1) with 1%Z.
        rewrite Z.pow_add_r by lia. change (10 ^ 1)%Z with 10%Z. replace (48 + n mod 10 - 48)%N with (n mod 10)%N by (generalize (n mod 10)%N; intros; lia).
        rewrite (N.div_mod n 10) at 3 by lia. rewrite N2Z.inj_add, N2Z.inj_mul. change (Z.of_N 10) with 10%Z. ring.
Qed.

Lemma size_pow10 n : (n < 10 ^ N.of_nat (S (N.to_nat (N.size n))))%N.
Proof.
  rewrite Nat2N.inj_succ, N2Nat.id.
  assert (n < 2 ^ N.size n)%N as H by (apply N.size_gt).
  eapply N.lt_le_trans; [exact H|]. etransitivity; [apply N.pow_le_mono_r; [lia|apply N.le_succ_diag_r]|].
  apply N.pow_le_mono_l. lia.
Qed.

Lemma dec_of_N_spec n : exists ds, bytes_of_string (dec_of_N n) = ds /\ ds <> [] /\ forallb is_digit ds = true /\
  parse_dec_go ds 0 = Some (Z.of_N n).
Proof.
  unfold dec_of_N. destruct (dec_digits_spec (N.to_nat (N.size n)) n EmptyString (size_pow10 n)) as (ds & Hb & Hne & Hd & Hp).
  exists ds. cbn [bytes_of_string] in Hb. rewrite app_nil_r in Hb. repeat split; auto.
  specialize (Hp [] 0%Z). rewrite app_nil_r in Hp. rewrite Hp. cbn [parse_dec_go]. f_equal; lia.
Qed.

Theorem parse_int_dec z : (- 2 ^ 63 <= z < 2 ^ 63)%Z -> parse_int (dec_bytes z) = Some z.
Proof.
  intros Hz. unfold dec_bytes, dec_of_Z. destruct z as [|p|p].
  - reflexivity.
  - destruct (dec_of_N_spec (Npos p)) as (ds & Hb & Hne & Hd & Hp). rewrite Hb.
    destruct ds as [|c ds]; [contradiction|].
    assert (48 <= c <= 57)%N as Hc.
    { cbn [forallb] in Hd. apply andb_prop in Hd. destruct Hd as [Hd _]. unfold is_digit in Hd. apply andb_prop in Hd.
      destruct Hd as [H1 H2]. apply N.leb_le in H1, H2. lia. }
    assert (((- 2 ^ 63 <=? Z.pos p) && (Z.pos p <? 2 ^ 63))%Z = true) as Hrange.
    { apply andb_true_intro. split; [apply Z.leb_le|apply Z.ltb_lt]; lia. }
    change (Z.of_N (N.pos p)) with (Z.pos p) in Hp.
    assert (c = 48 \/ c = 49 \/ c = 50 \/ c = 51 \/ c = 52 \/ c = 53 \/ c = 54 \/ c = 55 \/ c = 56 \/ c = 57)%N as C by lia.
    unfold parse_int.
    repeat (destruct C as [-> | C]; [cbv beta iota; rewrite Hp; cbv beta iota zeta; rewrite Hrange; reflexivity|]).
    subst c. cbv beta iota. rewrite Hp. cbv beta iota zeta. rewrite Hrange. reflexivity.
  - destruct (dec_of_N_spec (Npos p)) as (ds & Hb & Hne & Hd & Hp). cbn [bytes_of_string]. rewrite Hb.
    change (N_of_ascii "-"%char) with 45%N. unfold parse_int.
    destruct ds as [|c ds]; [contradiction|]. rewrite Hp. change (Z.of_N (N.pos p)) with (Z.pos p).
    change (- Z.pos p)%Z with (Z.neg p).
    assert (((- 2 ^ 63 <=? Z.neg p) && (Z.neg p <? 2 ^ 63))%Z = true) as ->; [|reflexivity].
    apply andb_true_intro. split; [apply Z.leb_le|apply Z.ltb_lt]; lia.
Qed.

(* a printed number has no blank, no NL *)
Lemma dec_bytes_chars z : forallb (fun c => is_digit c || N.eqb c 45) (dec_bytes z) = true /\ dec_bytes z <> [].
Proof.
  unfold dec_bytes, dec_of_Z. destruct z as [|p|p].
  - split; [reflexivity|discriminate].
  - destruct (dec_of_N_spec (Npos p)) as (ds & -> & Hne & Hd & _). split; [|assumption].
    rewrite forallb_forall in *. intros x Hx. now rewrite (Hd x Hx).
  - destruct (dec_of_N_spec (Npos p)) as (ds & Hb & Hne & Hd & _). cbn [bytes_of_string]. rewrite Hb. split; [|discriminate].
    cbn [forallb]. change (N_of_ascii "-"%char) with 45%N. cbn. rewrite forallb_forall in *. intros x Hx. now rewrite (Hd x Hx).
Qed.
