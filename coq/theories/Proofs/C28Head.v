(* Proofs/C28Head.v — Commit's parents and reference update against git commit. *)
From Coq Require Import List NArith Arith Bool.
From GoGit Require Import Base.Out Model.CommitHead Spec.GitCommitHead.
Import ListNotations.
Local Open Scope N_scope.

(* no explicit parents, not -a, no merge in progress, the index is empty exactly
   when its tree is the empty tree, the tree id is not the all-zero id, and an
   amended commit is not a merge *)
Definition commit_head_guard (r : crepo) (o : copts) (tree : N) (idx_empty : bool) : bool :=
  is_nil (o_parents o) && negb (o_all o) &&
  match r_merge_head r with None => true | Some _ => false end &&
  Bool.eqb idx_empty (tree =? EMPTY_TREE) && negb (tree =? ZERO_TREE) &&
  (negb (o_amend o) ||
   match head_of r with
   | Some h => match commit_of (r_commits r) h with Some (_, ps) => Nat.leb (List.length ps) 1 | None => true end
   | None => true
   end).

Lemma commit_head_eq r o tree e :
  commit_head_guard r o tree e = true -> g_commit_head r o tree e = s_commit_head r o tree.
Proof.
  unfold commit_head_guard. intros G.
  apply andb_true_iff in G as [G G6]. apply andb_true_iff in G as [G G5]. apply andb_true_iff in G as [G G4].
  apply andb_true_iff in G as [G G3]. apply andb_true_iff in G as [G1 G2].
  apply negb_true_iff in G2, G5. apply eqb_prop in G4. subst e.
  destruct (o_parents o) as [|x xs] eqn:EP; [|discriminate].
  destruct (r_merge_head r) eqn:EM; [discriminate|].
  unfold g_commit_head, s_commit_head. rewrite G2, EP, EM. cbn [andb is_nil negb].
  destruct (o_amend o) eqn:EA; cbn [negb orb andb] in *.
  - destruct (head_of r) as [h|]; [|reflexivity].
    destruct (commit_of (r_commits r) h) as [[th ps]|]; [|reflexivity].
    destruct ps as [|p [|p2 ps]]; cbn [is_nil List.length Nat.leb Nat.ltb andb negb] in *; try discriminate.
    + destruct (tree =? EMPTY_TREE), (o_allow_empty o); cbn [andb negb]; try reflexivity; now rewrite G5.
    + unfold tree_of. destruct (commit_of (r_commits r) p) as [[pt pps]|]; cbn [option_map fst]; [|reflexivity].
      rewrite andb_true_r. reflexivity.
  - destruct (head_of r) as [h|].
    + cbn [is_nil andb]. destruct (commit_of (r_commits r) h) as [[th ps]|]; reflexivity.
    + cbn [is_nil andb]. destruct (tree =? EMPTY_TREE), (o_allow_empty o); cbn [andb negb]; try reflexivity; now rewrite G5.
Qed.
