(* Proofs/C28Glob.v — AddGlob / RemoveGlob against git, for every list of matches. *)
From Coq Require Import List NArith Arith Lia Bool.
From GoGit Require Import Base.Out Model.Status Model.IndexOps Model.IndexGlob Spec.GitStatus Spec.GitIndexOps Spec.GitIndexGlob.
From GoGit Require Import Proofs.C27 Proofs.C28 Proofs.C28Add Proofs.C28AddCor.
Import ListNotations.
Local Open Scope N_scope.
Local Notation is_some := IndexOps.is_some (only parsing).

Lemma mem_path_flat_map {A} (f : A -> list path) q l :
  mem_path q (flat_map f l) = existsb (fun x => mem_path q (f x)) l.
Proof.
  induction l as [|x l IH]; [reflexivity|]. cbn [flat_map existsb]. now rewrite mem_path_app, IH.
Qed.

(* a matched file is an acceptable name; a matched directory is a directory of the worktree that is
   neither an index entry nor below a file; the names doAddFile is called with are distinct *)
Definition match_ok (s : state) (m : path) : bool :=
  if has_file s m then name_ok s m
  else is_dir_wt s m && negb (is_some (find_i (st_index s) m)).
Definition matches_guard (s : state) (ms : list path) : bool :=
  forallb (match_ok s) ms && nodup_b (names_of s ms).

Lemma noconf_under_file s m q f :
  noconf s = true -> find_w (st_wt s) m = Some f -> under m q = true ->
  find_i (st_index s) q = None /\ find_w (st_wt s) q = None.
Proof.
  unfold noconf. rewrite forallb_forall. intros N Hm Hu.
  specialize (N f (find_w_in _ _ _ Hm)). apply andb_true_iff in N as [N1 N2]. rewrite forallb_forall in N1, N2.
  rewrite (find_w_path _ _ _ Hm) in N1, N2. split.
  - destruct (find_i (st_index s) q) as [e|] eqn:E; [|reflexivity]. exfalso.
    specialize (N1 e (find_i_in _ _ _ E)). rewrite (find_i_path _ _ _ E) in N1. unfold df_conflict in N1. now rewrite Hu in N1.
  - destruct (find_w (st_wt s) q) as [g|] eqn:E; [|reflexivity]. exfalso.
    specialize (N2 g (find_w_in _ _ _ E)). rewrite (find_w_path _ _ _ E) in N2. unfold df_conflict in N2. now rewrite Hu in N2.
Qed.

Lemma add_matches_eq s ms :
  add_guard s = true -> matches_guard s ms = true -> res_equiv (g_add_matches s ms) (s_add_matches s ms).
Proof.
  intros G M. unfold matches_guard in M. apply andb_true_iff in M as [M1 M2]. rewrite forallb_forall in M1.
  unfold g_add_matches, s_add_matches. destruct ms as [|m0 ms']; [reflexivity|].
  set (ms := m0 :: ms') in *.
  assert (G' := G). unfold add_guard in G'. apply andb_true_iff in G' as [G' _]. apply andb_true_iff in G' as [G' _].
  apply andb_true_iff in G' as [_ Gc].
  apply add_scope_eq; [exact G|exact M2| |].
  - intros q Hq. unfold names_of in Hq. rewrite mem_path_flat_map in Hq. apply existsb_exists in Hq as [m [Hm Hq]].
    specialize (M1 m Hm). unfold match_ok in M1. destruct (has_file s m) eqn:Hf.
    + cbn [mem_path] in Hq. rewrite orb_false_r in Hq. apply bytes_eqb_eq in Hq. subst q. split; [|exact M1].
      unfold match_scope. apply existsb_exists. exists m. split; [exact Hm|]. now rewrite bytes_eqb_refl.
    + rewrite mem_path_filter in Hq. apply andb_true_iff in Hq as [Hu Hk]. split; [|now apply key_name_ok].
      unfold match_scope. apply existsb_exists. exists m. split; [exact Hm|]. now rewrite Hu, orb_true_r.
  - intros q Hs R. unfold match_scope in Hs. apply existsb_exists in Hs as [m [Hm Hs]].
    unfold names_of. rewrite mem_path_flat_map. apply existsb_exists. exists m. split; [exact Hm|].
    specialize (M1 m Hm). unfold match_ok in M1. destruct (has_file s m) eqn:Hf.
    + apply orb_true_iff in Hs as [Hs|Hs].
      * cbn [mem_path]. now rewrite Hs.
      * exfalso. unfold has_file in Hf. destruct (find_w (st_wt s) m) as [f|] eqn:Ew; [|discriminate].
        destruct (noconf_under_file s m q f Gc Ew Hs) as [E1 E2].
        unfold right_change in R. rewrite E1, E2 in R. discriminate.
    + apply andb_true_iff in M1 as [Md Mi]. apply negb_true_iff in Mi.
      apply orb_true_iff in Hs as [Hs|Hs].
      * exfalso. apply bytes_eqb_eq in Hs. subst q. unfold has_file in Hf.
        unfold right_change in R. destruct (find_i (st_index s) m); [discriminate|].
        destruct (find_w (st_wt s) m); [discriminate|]. discriminate.
      * rewrite mem_path_filter, Hs. now apply change_key.
Qed.

(* ------------------------------------------------------------ RemoveGlob *)

(* some entry matches; the matching entries are distinct, each has its file, none lies below a
   file or is a directory of the worktree *)
Definition victims_ok (s : state) (vs : list path) : bool :=
  nodup_b vs &&
  forallb (fun v => has_file s v && negb (existsb (fun f => under (wf_path f) v) (st_wt s)) && negb (is_dir_wt s v)) vs.
Definition rm_glob_guard (s : state) (pat : bytes) : bool :=
  let victims := filter (gmatch pat) (map ie_path (st_index s)) in
  negb (match victims with [] => true | _ => false end) && victims_ok s victims &&
  (has_meta pat || negb (existsb (under pat) (map ie_path (st_index s)))).

Lemma in_wt_remove l p f : In f (wt_remove l p) -> In f l.
Proof.
  induction l as [|x l IH]; [intros []|]. cbn [wt_remove]. destruct (bytes_eqb (wf_path x) p).
  - intros H. right. now apply IH.
  - intros [H|H]; [now left|right; now apply IH].
Qed.

Lemma find_w_remove l p : forall q, find_w (wt_remove l p) q = if bytes_eqb p q then None else find_w l q.
Proof.
  induction l as [|e r IH]; intros q; [cbn; destruct (bytes_eqb p q); reflexivity|].
  cbn [wt_remove]. destruct (bytes_eqb (wf_path e) p) eqn:E.
  - apply bytes_eqb_eq in E. rewrite IH. cbn [find_w]. rewrite E. destruct (bytes_eqb p q); reflexivity.
  - cbn [find_w]. rewrite IH. destruct (bytes_eqb (wf_path e) q) eqn:E2; [|reflexivity].
    apply bytes_eqb_eq in E2. subst q. rewrite bytes_eqb_sym, E. reflexivity.
Qed.

Lemma existsb_sub {A} (P : A -> bool) l l' : (forall x, In x l' -> In x l) -> existsb P l = false -> existsb P l' = false.
Proof.
  intros Hs H. apply not_true_is_false. intros C. apply existsb_exists in C as [x [Hx Px]].
  assert (X : existsb P l = true) by (apply existsb_exists; exists x; auto). congruence.
Qed.

(* p = dirname p ++ "/" ++ base when p contains a '/' *)
Lemma drop_to_slash_spec r :
  existsb (fun c => c =? SLASH) r = true -> exists b, r = b ++ SLASH :: drop_to_slash r.
Proof.
  induction r as [|c r IH]; [discriminate|]. cbn [existsb drop_to_slash]. destruct (c =? SLASH) eqn:E.
  - intros _. apply N.eqb_eq in E. subst c. exists []. reflexivity.
  - cbn [orb]. intros H. destruct (IH H) as [b Hb]. exists (c :: b). cbn [app]. now rewrite <- Hb.
Qed.

Lemma is_prefix_app a b : is_prefix a (a ++ b) = true.
Proof. induction a as [|x a IH]; [reflexivity|]. cbn [app is_prefix]. now rewrite N.eqb_refl, IH. Qed.

Lemma existsb_rev {A} (P : A -> bool) l : existsb P (rev l) = existsb P l.
Proof.
  induction l as [|x l IH]; [reflexivity|]. cbn [rev existsb]. rewrite existsb_app, IH. cbn [existsb].
  rewrite orb_false_r. apply orb_comm.
Qed.

Lemma under_dirname v : has_slash_b v = true -> under (dirname v) v = true.
Proof.
  unfold has_slash_b, dirname, under. intros H. rewrite <- existsb_rev in H.
  destruct (drop_to_slash_spec (rev v) H) as [b Hb].
  assert (E : v = rev (drop_to_slash (rev v)) ++ [SLASH] ++ rev b).
  { rewrite <- (rev_involutive v) at 1. rewrite Hb at 1. rewrite rev_app_distr. cbn [rev]. now rewrite <- app_assoc. }
  rewrite E at 2. rewrite app_assoc. apply is_prefix_app.
Qed.

Lemma fold_rm_glob vs : forall s,
  victims_ok s vs = true ->
  fold_left rm_glob1 vs (ROk s) =
  ROk (with_both s (fold_left idx_remove vs (st_index s)) (fold_left wt_remove vs (st_wt s))).
Proof.
  induction vs as [|v vs IH]; intros s G.
  - cbn [fold_left]. destruct s; reflexivity.
  - unfold victims_ok in G. apply andb_true_iff in G as [Gn G]. cbn [nodup_b] in Gn. apply andb_true_iff in Gn as [Gn1 Gn].
    apply negb_true_iff in Gn1. cbn [forallb] in G. apply andb_true_iff in G as [Gv G].
    apply andb_true_iff in Gv as [Gv G3]. apply andb_true_iff in Gv as [G1 G2]. apply negb_true_iff in G2, G3.
    cbn [fold_left]. unfold rm_glob1 at 2. rewrite G2, G3. cbn [andb].
    assert (D : has_slash_b v && negb (is_dir_wt s (dirname v)) = false).
    { destruct (has_slash_b v) eqn:Hs; [|reflexivity]. cbn [andb]. apply negb_false_iff.
      unfold is_dir_wt. apply existsb_exists. unfold has_file in G1.
      destruct (find_w (st_wt s) v) as [f|] eqn:Ew; [|discriminate].
      exists f. split; [eapply find_w_in; eassumption|]. rewrite (find_w_path _ _ _ Ew). now apply under_dirname. }
    rewrite D.
    set (s2 := with_both s (idx_remove (st_index s) v) (wt_remove (st_wt s) v)).
    assert (G' : victims_ok s2 vs = true).
    { unfold victims_ok. rewrite Gn. cbn [andb]. apply forallb_forall. intros v' Hv'.
      rewrite forallb_forall in G. specialize (G v' Hv').
      apply andb_true_iff in G as [Ga Gc]. apply andb_true_iff in Ga as [Ga Gb]. apply negb_true_iff in Gb, Gc.
      assert (Ne : bytes_eqb v v' = false).
      { destruct (bytes_eqb v v') eqn:E; [|reflexivity]. apply bytes_eqb_eq in E. subst v'.
        apply mem_path_in in Hv'. congruence. }
      assert (Sub : forall f, In f (st_wt s2) -> In f (st_wt s)) by (intros f Hf; eapply in_wt_remove; exact Hf).
      assert (F1 : has_file s2 v' = true).
      { unfold has_file, s2. cbn [with_both st_wt]. rewrite find_w_remove, Ne. exact Ga. }
      assert (F2 : existsb (fun f => under (wf_path f) v') (st_wt s2) = false) by exact (existsb_sub _ _ _ Sub Gb).
      assert (F3 : is_dir_wt s2 v' = false) by (unfold is_dir_wt in *; exact (existsb_sub _ _ _ Sub Gc)).
      now rewrite F1, F2, F3. }
    rewrite (IH s2 G'). destruct s; reflexivity.
Qed.

Lemma rm_glob_eq s pat : rm_glob_guard s pat = true -> g_rm_glob s pat = s_rm_glob s pat.
Proof.
  unfold rm_glob_guard, g_rm_glob, s_rm_glob. cbv zeta. intros G. apply andb_true_iff in G as [G G3].
  assert (Ef : filter (git_rm_match pat) (map ie_path (st_index s)) = filter (gmatch pat) (map ie_path (st_index s))).
  { apply filter_ext_in. intros q Hq. unfold git_rm_match. destruct (has_meta pat); cbn [negb andb orb] in *; [now rewrite orb_false_r|].
    apply negb_true_iff in G3. assert (U : under pat q = false).
    { apply not_true_is_false. intros C. assert (X : existsb (under pat) (map ie_path (st_index s)) = true) by (apply existsb_exists; eauto). congruence. }
    now rewrite U, orb_false_r. }
  rewrite Ef. clear Ef G3.
  set (victims := filter (gmatch pat) (map ie_path (st_index s))) in *.
  apply andb_true_iff in G as [G1 G2].
  rewrite (fold_rm_glob victims s G2).
  destruct victims as [|v0 vr] eqn:Ev; [discriminate|]. rewrite <- Ev in *.
  assert (Hd : existsb (fun v => is_dir_wt s v && negb (has_file s v)) victims = false).
  { apply not_true_is_false. intros C. apply existsb_exists in C as [v [Hv Hc]].
    unfold victims_ok in G2. apply andb_true_iff in G2 as [_ G2].
    rewrite forallb_forall in G2. specialize (G2 v Hv). apply andb_true_iff in G2 as [_ G2].
    apply negb_true_iff in G2. now rewrite G2 in Hc. }
  assert (Hf : first_fails s victims = false).
  { unfold first_fails. destruct victims as [|v r]; [reflexivity|].
    cbn [existsb] in Hd. now apply orb_false_iff in Hd as [Hd _]. }
  rewrite Hf. destruct s; reflexivity.
Qed.
