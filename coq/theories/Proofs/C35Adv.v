(* Proofs/C35Adv.v — AdvRefs: decoding go-git's (repaired) encoding returns the
   references in wire order: the first reference (HEAD if present), its peeled
   line, then the other references sorted by name, each followed by its peeled
   line; shallows sorted; capabilities and version preserved. *)
From Coq Require Import List NArith ZArith Bool Lia Arith String.
From GoGit Require Import Base.Out Model.PktLine Model.Packp Proofs.C34Pkt Proofs.C35Base Proofs.C35Msgs Proofs.C35Caps.
Import ListNotations.

Definition name_ok (n : bytes) : bool :=
  match n with [] => false | _ => no_byte SP n && no_byte NUL n end.
Definition ref_ok (r : bytes * hash) : bool := name_ok (fst r) && hash_ok (snd r).

(* the references of the message in wire order *)
Definition wire_of (refs : list (bytes * hash)) (r : bytes * hash) : list (bytes * hash) :=
  r :: match peeled_lookup refs (fst r) None with Some ph => [(fst r ++ peeled_suffix, ph)] | None => [] end.

Definition adv_sorted (refs : list (bytes * hash)) : list (bytes * hash) :=
  let fname := match first_ref refs with Some (n, _) => n | None => [] end in
  sort_by (fun x y => bytes_ltb (fst x) (fst y))
          (filter (fun r => negb (is_peeled (fst r)) && negb (beq (fst r) fname)) refs).

Definition adv_wire (refs : list (bytes * hash)) : list (bytes * hash) :=
  match first_ref refs with
  | None => []
  | Some f => wire_of refs f ++ flat_map (wire_of refs) (adv_sorted refs)
  end.

Definition adv_canon (a : advrefs) : advrefs :=
  mkadv (ar_version a) (ar_caps a) (adv_wire (ar_refs a))
        (map new_hash (sort_by bytes_ltb (map hash_str (ar_shallows a)))).

Definition adv_ok (a : advrefs) : bool :=
  ((ar_version a =? 0)%Z || (ar_version a =? 1)%Z) && caps_ok (ar_caps a) &&
  forallb ref_ok (ar_refs a) && forallb hash_ok (ar_shallows a) &&
  match first_ref (ar_refs a) with Some (_, fh) => negb (hash_is_zero fh) | None => true end.

(* ---------- small facts ---------- *)
Lemma hexdig_not n c : (n < 16)%N -> (c = 115 \/ c = 118)%N -> N.eqb c (hexdig n) = false.
Proof.
  intros H Hc.
  assert (n = 0 \/ n = 1 \/ n = 2 \/ n = 3 \/ n = 4 \/ n = 5 \/ n = 6 \/ n = 7 \/ n = 8 \/ n = 9 \/
          n = 10 \/ n = 11 \/ n = 12 \/ n = 13 \/ n = 14 \/ n = 15)%N as C by lia.
  destruct Hc as [-> | ->]; repeat (destruct C as [-> | C]; [reflexivity|]); subst; reflexivity.
Qed.

Lemma hash_str_head h : hash_ok h = true -> exists n t, hash_str h = hexdig n :: t /\ (n < 16)%N.
Proof.
  intros Hok. destruct (hash_bytes_ok h Hok) as [Hb Hl]. unfold hash_str.
  destruct (hash_bytes h) as [|c r] eqn:E.
  { unfold hash_size in Hl. destruct (h256 h); discriminate. }
  cbn [forallb] in Hb. apply andb_prop in Hb. destruct Hb as [Hc _]. apply N.ltb_lt in Hc.
  destruct (nib_hi c Hc) as (Ha & _ & _). cbn [to_hex]. eauto.
Qed.

Lemma hash_line_no_prefix h x p c : hash_ok h = true -> (c = 115 \/ c = 118)%N ->
  has_prefix (c :: p) (hash_str h ++ x) = false.
Proof.
  intros Hok Hc. destruct (hash_str_head h Hok) as (n & t & -> & Hn). cbn [app has_prefix].
  now rewrite (hexdig_not n c Hn Hc).
Qed.

Lemma ref_line_eq h name : ref_line h name = (hash_str h ++ SP :: name) ++ [NL].
Proof. unfold ref_line. cbn [app]. now rewrite <- app_assoc. Qed.

Lemma peeled_line_eq h name : peeled_line h name = ref_line h (name ++ peeled_suffix).
Proof. unfold peeled_line, ref_line. now rewrite <- !app_assoc. Qed.

Lemma line_of_data b : b <> [] -> line_of (item_of (PData (b ++ [NL]))) = b.
Proof.
  intros Hne. rewrite item_of_ne by (rewrite app_length; cbn; lia). unfold line_of. cbn [fst snd].
  rewrite item_nz. apply trim_eol_app.
Qed.

Definition set_refs (a : advrefs) (rs : list (bytes * hash)) := mkadv (ar_version a) (ar_caps a) rs (ar_shallows a).
Definition set_sh (a : advrefs) (ss : list hash) := mkadv (ar_version a) (ar_caps a) (ar_refs a) ss.

(* ---------- the loop over reference lines ---------- *)
Definition refline_ok (r : bytes * hash) : bool := no_byte SP (fst r) && hash_ok (snd r).

Lemma adv_rest_ref r items fin a : refline_ok r = true ->
  adv_rest (item_of (PData (ref_line (snd r) (fst r))) :: items) fin false a
  = adv_rest items fin false (set_refs a (ar_refs a ++ [r])).
Proof.
  destruct r as [name h]. unfold refline_ok. cbn [fst snd]. intros H. apply andb_prop in H. destruct H as [Hn Hok].
  destruct (hash_str_nospace h Hok) as [Hns _]. pose proof (hash_str_ne h Hok) as Hne.
  cbn [adv_rest]. rewrite ref_line_eq, line_of_data by (destruct (hash_str h); [contradiction|discriminate]).
  destruct (hash_str h ++ SP :: name) as [|c0 l0] eqn:E; [destruct (hash_str h); [contradiction|discriminate]|].
  rewrite <- E. change (B "shallow ") with (115%N :: skipn 1 (B "shallow ")).
  rewrite (hash_line_no_prefix h _ _ 115 Hok (or_introl eq_refl)).
  rewrite (cut_app SP (hash_str h) name Hns), (index_byte_none SP name Hn), (new_hash_str h Hok). reflexivity.
Qed.

Lemma adv_rest_refs : forall rs items fin a, forallb refline_ok rs = true ->
  adv_rest (map item_of (map (fun x => PData (ref_line (snd x) (fst x))) rs) ++ items) fin false a
  = adv_rest items fin false (set_refs a (ar_refs a ++ rs)).
Proof.
  induction rs as [|r rs IH]; intros items fin a H.
  - cbn [map app]. rewrite app_nil_r. destruct a; reflexivity.
  - cbn [forallb] in H. apply andb_prop in H. destruct H as [H1 H2]. cbn [map app].
    rewrite (adv_rest_ref r _ fin a H1), IH by assumption. unfold set_refs. cbn [ar_refs ar_version ar_caps ar_shallows].
    now rewrite <- app_assoc.
Qed.

(* ---------- the loop over shallow lines, then the flush ---------- *)
Definition is_hash_str (s : bytes) : Prop := exists h, hash_ok h = true /\ s = hash_str h.

Lemma adv_rest_shallow s items fin b a : is_hash_str s ->
  adv_rest (item_of (PData (B "shallow " ++ s ++ [NL])) :: items) fin b a
  = adv_rest items fin true (set_sh a (ar_shallows a ++ [new_hash s])).
Proof.
  intros (h & Hok & ->). pose proof (hash_str_length h Hok) as HL.
  cbn [adv_rest]. change (B "shallow " ++ hash_str h ++ [NL]) with ((B "shallow " ++ hash_str h) ++ [NL]).
  rewrite line_of_data by discriminate.
  destruct (B "shallow " ++ hash_str h) as [|c0 l0] eqn:E; [discriminate|]. rewrite <- E.
  rewrite has_prefix_app. rewrite (skipn_app_exact (B "shallow ") (hash_str h) 8 eq_refl), HL.
  assert (Nat.eqb (hash_hexsize h) 40 || Nat.eqb (hash_hexsize h) 64 = true) as -> by (unfold hash_hexsize, hash_size; destruct (h256 h); reflexivity).
  rewrite (from_hex_str h Hok), (new_hash_str h Hok). reflexivity.
Qed.

Lemma adv_rest_shallows : forall ss fin b a, Forall is_hash_str ss ->
  adv_rest (map item_of (map (fun s => PData (B "shallow " ++ s ++ [NL])) ss ++ [PFlush])) fin b a
  = inl (set_sh a (ar_shallows a ++ map new_hash ss)).
Proof.
  induction ss as [|s ss IH]; intros fin b a H.
  - cbn. rewrite app_nil_r. destruct a; reflexivity.
  - inversion H; subst. cbn [map app]. rewrite adv_rest_shallow by assumption. rewrite IH by assumption.
    unfold set_sh. cbn [ar_refs ar_version ar_caps ar_shallows map]. now rewrite <- app_assoc.
Qed.

(* ---------- peeled entries come from the message ---------- *)
Lemma peeled_lookup_In : forall refs name found ph,
  peeled_lookup refs name found = Some ph -> found = Some ph \/ exists n, In (n, ph) refs.
Proof.
  induction refs as [|[n h] refs IH]; intros name found ph H; [now left|].
  cbn [peeled_lookup] in H. destruct (is_peeled n && beq (firstn (List.length n - 3) n) name).
  - apply IH in H. destruct H as [H|[n' H]]; [injection H as <-; right; exists n; now left|right; exists n'; now right].
  - apply IH in H. destruct H as [H|[n' H]]; [now left|right; exists n'; now right].
Qed.

Lemma no_byte_app c a b : no_byte c (a ++ b) = no_byte c a && no_byte c b.
Proof. unfold no_byte. apply forallb_app. Qed.

Lemma wire_of_ok refs r : forallb ref_ok refs = true -> In r refs -> forallb refline_ok (wire_of refs r) = true.
Proof.
  intros Hall Hin. rewrite forallb_forall in Hall. pose proof (Hall r Hin) as Hr.
  unfold ref_ok in Hr. apply andb_prop in Hr. destruct Hr as [Hn Hh].
  assert (no_byte SP (fst r) = true) as Hsp.
  { unfold name_ok in Hn. destruct (fst r); [discriminate|]. apply andb_prop in Hn. apply Hn. }
  unfold wire_of. cbn [forallb]. unfold refline_ok at 1. rewrite Hsp, Hh. cbn [andb].
  destruct (peeled_lookup refs (fst r) None) as [ph|] eqn:E; [|reflexivity].
  apply peeled_lookup_In in E. destruct E as [E|[n E]]; [discriminate|].
  specialize (Hall _ E). unfold ref_ok in Hall. apply andb_prop in Hall. destruct Hall as [_ Hph]. cbn [snd] in Hph.
  cbn [forallb]. unfold refline_ok. cbn [fst snd]. rewrite no_byte_app, Hsp, Hph. reflexivity.
Qed.

Lemma find_first_In {A} (f : A -> bool) l x : find_first f l = Some x -> In x l.
Proof.
  induction l as [|y l IH]; [discriminate|]. cbn. destruct (f y); [intros [= <-]; now left|intros H; right; auto].
Qed.

Lemma first_ref_In refs f : first_ref refs = Some f -> In f refs.
Proof.
  unfold first_ref. destruct (find_first _ refs) as [r|] eqn:E.
  - intros [= <-]. eapply find_first_In; eauto.
  - apply find_first_In.
Qed.

Lemma sort_by_In {A} (lt : A -> A -> bool) l x : In x (sort_by lt l) -> In x l.
Proof.
  intros H. assert (Forall (fun y => In y l) (sort_by lt l)) as F.
  { apply sort_by_Forall. apply Forall_forall. auto. }
  rewrite Forall_forall in F. auto.
Qed.

Lemma adv_sorted_ok refs : forallb ref_ok refs = true ->
  forallb refline_ok (flat_map (wire_of refs) (adv_sorted refs)) = true.
Proof.
  intros Hall. apply forallb_forall. intros x Hx. apply in_flat_map in Hx. destruct Hx as (r & Hr & Hx).
  unfold adv_sorted in Hr. apply sort_by_In in Hr. apply filter_In in Hr. destruct Hr as [Hr _].
  pose proof (wire_of_ok refs r Hall Hr) as W. rewrite forallb_forall in W. auto.
Qed.

(* ---------- the encoder, line by line ---------- *)
Lemma wire_lines refs r :
  (PData (ref_line (snd r) (fst r)) ::
   match peeled_lookup refs (fst r) None with Some ph => [PData (peeled_line ph (fst r))] | None => [] end)
  = map (fun x => PData (ref_line (snd x) (fst x))) (wire_of refs r).
Proof.
  unfold wire_of. destruct (peeled_lookup refs (fst r) None); cbn [map fst snd]; [now rewrite peeled_line_eq|reflexivity].
Qed.

Lemma flat_map_lines refs l :
  flat_map (fun r => PData (ref_line (snd r) (fst r)) ::
                     match peeled_lookup refs (fst r) None with Some ph => [PData (peeled_line ph (fst r))] | None => [] end) l
  = map (fun x => PData (ref_line (snd x) (fst x))) (flat_map (wire_of refs) l).
Proof.
  induction l as [|r l IH]; [reflexivity|]. cbn [flat_map]. rewrite wire_lines, IH, map_app. reflexivity.
Qed.

(* the first line *)
Lemma adv_first_ref fname fh capstr cp items fin ver :
  name_ok fname = true -> hash_ok fh = true -> hash_is_zero fh = false ->
  ((ver =? 0)%Z || (ver =? 1)%Z) = true ->
  cap_decode capstr [] = cp -> no_byte NUL capstr = true ->
  adv_first (hash_str fh ++ [SP] ++ fname ++ [NUL] ++ capstr) items fin (mkadv ver [] [] [])
  = adv_rest items fin false (mkadv ver cp [(fname, fh)] []).
Proof.
  intros Hn Hok Hz Hv Hcp Hnul. unfold adv_first. cbn [ar_version ar_caps ar_refs ar_shallows]. rewrite Hv. cbn [negb].
  destruct (hash_str_nospace fh Hok) as [Hns _]. pose proof (hash_str_length fh Hok) as HL. pose proof (hash_str_ne fh Hok) as Hne.
  remember (hash_str fh ++ [SP] ++ fname ++ [NUL] ++ capstr) as line eqn:El.
  assert (line = hash_str fh ++ SP :: (fname ++ NUL :: capstr)) as El2 by (subst line; reflexivity).
  destruct line as [|c0 l0]; [destruct (hash_str fh); [contradiction|discriminate]|].
  assert (Hlen : (40 <= List.length (c0 :: l0))%nat).
  { rewrite El2, app_length, HL. unfold hash_hexsize, hash_size. destruct (h256 fh); lia. }
  destruct (Nat.ltb_spec (List.length (c0 :: l0)) 40); [lia|].
  assert (hash_from (c0 :: l0) = Some fh) as ->.
  { unfold hash_from. rewrite El2, (index_byte_app SP (hash_str fh) _ Hns), HL.
    assert (Nat.eqb (hash_hexsize fh) 40 || Nat.eqb (hash_hexsize fh) 64 = true) as -> by (unfold hash_hexsize, hash_size; destruct (h256 fh); reflexivity).
    rewrite <- HL, firstn_app_exact by reflexivity. now rewrite (from_hex_str fh Hok). }
  rewrite Hz, El2, <- HL, skipn_app_len.
  unfold name_ok in Hn. destruct fname as [|n0 nt]; [discriminate|]. apply andb_prop in Hn. destruct Hn as [Hsp Hnu].
  cbn [List.length app]. destruct (Nat.ltb_spec (S (S (List.length (nt ++ NUL :: capstr)))) 3).
  { rewrite app_length in *. cbn [List.length] in *. lia. }
  change (N.eqb SP SP) with true. cbn [negb].
  change (n0 :: nt ++ NUL :: capstr) with ((n0 :: nt) ++ NUL :: capstr).
  rewrite (cut_app NUL (n0 :: nt) capstr Hnu), Hcp. reflexivity.
Qed.

Lemma adv_first_zero capstr cp items fin ver :
  ((ver =? 0)%Z || (ver =? 1)%Z) = true -> cap_decode capstr [] = cp ->
  adv_first (hash_str zero_hash ++ [SP] ++ B "capabilities^{}" ++ [NUL] ++ capstr) items fin (mkadv ver [] [] [])
  = adv_rest items fin false (mkadv ver cp [] []).
Proof.
  intros Hv Hcp. unfold adv_first. cbn [ar_version ar_caps ar_refs ar_shallows]. rewrite Hv. cbn [negb].
  change (hash_str zero_hash ++ [SP] ++ B "capabilities^{}" ++ [NUL] ++ capstr)
    with (hash_str zero_hash ++ noHeadMark ++ capstr).
  remember (hash_str zero_hash ++ noHeadMark ++ capstr) as line eqn:El.
  destruct line as [|c0 l0]; [discriminate|].
  assert (Hlen : (40 <= List.length (c0 :: l0))%nat) by (rewrite El, app_length; cbn; lia).
  destruct (Nat.ltb_spec (List.length (c0 :: l0)) 40); [lia|].
  assert (hash_from (c0 :: l0) = Some zero_hash) as ->.
  { unfold hash_from. rewrite El.
    change (hash_str zero_hash ++ noHeadMark ++ capstr) with (hash_str zero_hash ++ SP :: (skipn 1 noHeadMark ++ capstr)).
    rewrite (index_byte_app SP (hash_str zero_hash) _ eq_refl).
    change (List.length (hash_str zero_hash)) with 40%nat. cbn [Nat.eqb orb].
    change 40%nat with (List.length (hash_str zero_hash)). rewrite firstn_app_exact by reflexivity. reflexivity. }
  change (hash_is_zero zero_hash) with true. cbv iota.
  rewrite El. change (hash_hexsize zero_hash) with (List.length (hash_str zero_hash)). rewrite skipn_app_len.
  rewrite app_length. destruct (Nat.ltb_spec (List.length noHeadMark + List.length capstr) (List.length noHeadMark)); [lia|].
  rewrite has_prefix_app. cbn [negb]. rewrite skipn_app_len, Hcp. reflexivity.
Qed.

(* ---------- the whole message ---------- *)
Lemma cap_encode_nonul l : caps_ok l = true -> no_byte NUL (cap_encode l) = true.
Proof.
  intros H. pose proof (cap_encode_tokc l H) as T. unfold no_byte. rewrite forallb_forall in *.
  intros x Hx. specialize (T x Hx). apply orb_prop in T. destruct T as [T|T].
  - unfold tokc in T. apply andb_prop in T. destruct T as [T _]. apply N.leb_le in T.
    unfold NUL. destruct (N.eqb_spec x 0); [lia|reflexivity].
  - apply N.eqb_eq in T. subst x. reflexivity.
Qed.

Lemma sorted_strs_ok shs : forallb hash_ok shs = true -> Forall is_hash_str (sort_by bytes_ltb (map hash_str shs)).
Proof.
  intros H. apply sort_by_Forall. apply Forall_forall. intros s Hs. apply in_map_iff in Hs.
  destruct Hs as (h & <- & Hin). rewrite forallb_forall in H. exists h. split; [auto|reflexivity].
Qed.

(* everything after the first line *)
Lemma adv_tail R shs fin a0 : forallb refline_ok R = true -> forallb hash_ok shs = true ->
  adv_rest (map item_of (map (fun x => PData (ref_line (snd x) (fst x))) R ++
                         map (fun s => PData (B "shallow " ++ s ++ [NL])) (sort_by bytes_ltb (map hash_str shs)) ++ [PFlush]))
           fin false a0
  = inl (mkadv (ar_version a0) (ar_caps a0) (ar_refs a0 ++ R)
               (ar_shallows a0 ++ map new_hash (sort_by bytes_ltb (map hash_str shs)))).
Proof.
  intros HR Hs. rewrite map_app, adv_rest_refs by assumption.
  rewrite adv_rest_shallows by (now apply sorted_strs_ok). reflexivity.
Qed.

Definition version_line (v : Z) : list pkt := if (v =? 0)%Z then [] else [PData (B "version 1" ++ [NL])].
Definition shallow_lines (shs : list hash) : list pkt :=
  map (fun s => PData (B "shallow " ++ s ++ [NL])) (sort_by bytes_ltb (map hash_str shs)).
Definition ref_lines (rs : list (bytes * hash)) : list pkt := map (fun x => PData (ref_line (snd x) (fst x))) rs.

Lemma adv_encode_some a fname fh : ((ar_version a =? 0)%Z || (ar_version a =? 1)%Z) = true ->
  first_ref (ar_refs a) = Some (fname, fh) -> fname <> [] ->
  adv_encode a = Some (version_line (ar_version a) ++
    PData ((hash_str fh ++ [SP] ++ fname ++ [NUL] ++ cap_encode (ar_caps a)) ++ [NL]) ::
    ref_lines (tl (wire_of (ar_refs a) (fname, fh)) ++ flat_map (wire_of (ar_refs a)) (adv_sorted (ar_refs a))) ++
    shallow_lines (ar_shallows a) ++ [PFlush]).
Proof.
  intros Hv Ef Hne. unfold adv_encode, adv_sorted, version_line, shallow_lines, ref_lines. rewrite Ef.
  assert (forall vl : list pkt, Some (vl ++
      match fname with
      | [] => [PData (hash_str zero_hash ++ [SP] ++ B "capabilities^{}" ++ [NUL] ++ cap_encode (ar_caps a) ++ [NL])]
      | _ :: _ => PData (hash_str fh ++ [SP] ++ fname ++ [NUL] ++ cap_encode (ar_caps a) ++ [NL]) ::
                  match peeled_lookup (ar_refs a) fname None with Some ph => [PData (peeled_line ph fname)] | None => [] end
      end ++
      flat_map (fun r => PData (ref_line (snd r) (fst r)) ::
                  match peeled_lookup (ar_refs a) (fst r) None with Some ph => [PData (peeled_line ph (fst r))] | None => [] end)
        (sort_by (fun x y => bytes_ltb (fst x) (fst y))
           (filter (fun r => negb (is_peeled (fst r)) && negb (beq (fst r) fname)) (ar_refs a))) ++
      map (fun s => PData (B "shallow " ++ s ++ [NL])) (sort_by bytes_ltb (map hash_str (ar_shallows a))) ++ [PFlush])
    = Some (vl ++ PData ((hash_str fh ++ [SP] ++ fname ++ [NUL] ++ cap_encode (ar_caps a)) ++ [NL]) ::
      map (fun x => PData (ref_line (snd x) (fst x)))
        (tl (wire_of (ar_refs a) (fname, fh)) ++
         flat_map (wire_of (ar_refs a))
           (sort_by (fun x y => bytes_ltb (fst x) (fst y))
              (filter (fun r => negb (is_peeled (fst r)) && negb (beq (fst r) fname)) (ar_refs a)))) ++
      map (fun s => PData (B "shallow " ++ s ++ [NL])) (sort_by bytes_ltb (map hash_str (ar_shallows a))) ++ [PFlush])) as K.
  { intros vl. f_equal. f_equal. destruct fname as [|n0 nt]; [contradiction|].
    rewrite map_app, <- flat_map_lines. unfold wire_of at 1. cbn [tl fst snd].
    destruct (peeled_lookup (ar_refs a) (n0 :: nt) None); cbn [map fst snd]; rewrite ?peeled_line_eq;
      rewrite <- !app_assoc; cbn [app]; reflexivity. }
  destruct (ar_version a =? 0)%Z; [apply (K [])|]. destruct (ar_version a =? 1)%Z; [apply (K [_])|discriminate].
Qed.

Lemma adv_encode_none a : ((ar_version a =? 0)%Z || (ar_version a =? 1)%Z) = true ->
  first_ref (ar_refs a) = None ->
  adv_encode a = Some (version_line (ar_version a) ++
    PData ((hash_str zero_hash ++ [SP] ++ B "capabilities^{}" ++ [NUL] ++ cap_encode (ar_caps a)) ++ [NL]) ::
    ref_lines (flat_map (wire_of (ar_refs a)) (adv_sorted (ar_refs a))) ++
    shallow_lines (ar_shallows a) ++ [PFlush]).
Proof.
  intros Hv Ef. unfold adv_encode, adv_sorted, version_line, shallow_lines, ref_lines. rewrite Ef.
  assert (forall vl : list pkt, Some (vl ++
      [PData (hash_str zero_hash ++ [SP] ++ B "capabilities^{}" ++ [NUL] ++ cap_encode (ar_caps a) ++ [NL])] ++
      flat_map (fun r => PData (ref_line (snd r) (fst r)) ::
                  match peeled_lookup (ar_refs a) (fst r) None with Some ph => [PData (peeled_line ph (fst r))] | None => [] end)
        (sort_by (fun x y => bytes_ltb (fst x) (fst y))
           (filter (fun r => negb (is_peeled (fst r)) && negb (beq (fst r) [])) (ar_refs a))) ++
      map (fun s => PData (B "shallow " ++ s ++ [NL])) (sort_by bytes_ltb (map hash_str (ar_shallows a))) ++ [PFlush])
    = Some (vl ++ PData ((hash_str zero_hash ++ [SP] ++ B "capabilities^{}" ++ [NUL] ++ cap_encode (ar_caps a)) ++ [NL]) ::
      map (fun x => PData (ref_line (snd x) (fst x)))
        (flat_map (wire_of (ar_refs a))
           (sort_by (fun x y => bytes_ltb (fst x) (fst y))
              (filter (fun r => negb (is_peeled (fst r)) && negb (beq (fst r) [])) (ar_refs a)))) ++
      map (fun s => PData (B "shallow " ++ s ++ [NL])) (sort_by bytes_ltb (map hash_str (ar_shallows a))) ++ [PFlush])) as K.
  { intros vl. f_equal. f_equal. rewrite <- flat_map_lines. rewrite <- !app_assoc. cbn [app]. reflexivity. }
  destruct (ar_version a =? 0)%Z; [apply (K [])|]. destruct (ar_version a =? 1)%Z; [apply (K [_])|discriminate].
Qed.

(* decoding: version line (if any), first line, reference lines, shallows, flush *)
Lemma adv_decode_lines ver fl R shs cp frefs :
  ((ver =? 0)%Z || (ver =? 1)%Z) = true -> fl <> [] -> has_prefix (B "version ") fl = false ->
  (forall items fin, adv_first fl items fin (mkadv ver [] [] []) = adv_rest items fin false (mkadv ver cp frefs [])) ->
  forallb refline_ok R = true -> forallb hash_ok shs = true ->
  adv_decode (mksrc (map item_of (version_line ver ++ PData (fl ++ [NL]) :: ref_lines R ++ shallow_lines shs ++ [PFlush])) None)
  = inl (mkadv ver cp (frefs ++ R) (map new_hash (sort_by bytes_ltb (map hash_str shs)))).
Proof.
  intros Hv Hne Hnp Hfirst HR Hs. unfold adv_decode, version_line. cbn [s_items s_fin].
  pose proof (line_of_data fl Hne) as Hl.
  destruct (ver =? 0)%Z eqn:V0.
  - apply Z.eqb_eq in V0. subst ver. cbn [app map]. rewrite Hl.
    destruct fl as [|c0 l0]; [contradiction|]. rewrite Hnp. change adv_empty with (mkadv 0 [] [] []).
    rewrite Hfirst. unfold ref_lines, shallow_lines. rewrite (adv_tail R shs None _ HR Hs). reflexivity.
  - assert ((ver =? 1)%Z = true) as V1 by (destruct ((ver =? 1)%Z); [reflexivity|discriminate]).
    apply Z.eqb_eq in V1. subst ver. cbn [app map].
    change (line_of (item_of (PData (B "version 1" ++ [NL])))) with (B "version 1").
    change (has_prefix (B "version ") (B "version 1")) with true. cbv iota.
    change (parse_version (skipn 8 (B "version 1"))) with (Some 1%Z). cbv iota.
    rewrite Hl, Hfirst. unfold ref_lines, shallow_lines. rewrite (adv_tail R shs None _ HR Hs). reflexivity.
Qed.

Lemma find_first_none {A} (f : A -> bool) l : find_first f l = None -> filter f l = [].
Proof.
  induction l as [|x l IH]; [reflexivity|]. cbn. destruct (f x); [discriminate|auto].
Qed.

Lemma adv_sorted_none refs : first_ref refs = None -> adv_sorted refs = [].
Proof.
  intros H. assert (find_first (fun r : bytes * hash => negb (is_peeled (fst r))) refs = None) as Hn.
  { unfold first_ref in H. destruct (find_first (fun r => negb (is_peeled (fst r)) && beq (fst r) HEADn) refs); [discriminate|exact H]. }
  unfold adv_sorted.
  assert (forall X : bytes * hash -> bool, filter (fun r => negb (is_peeled (fst r)) && X r) refs = []) as K.
  { intros X. clear H. induction refs as [|r refs IH]; [reflexivity|].
    cbn in *. destruct (negb (is_peeled (fst r))); [discriminate|]. cbn [andb]. auto. }
  rewrite K. reflexivity.
Qed.

Theorem adv_roundtrip a ps : adv_ok a = true -> adv_encode a = Some ps ->
  adv_decode (mksrc (map item_of ps) None) = inl (adv_canon a).
Proof.
  unfold adv_ok. intros H He.
  apply andb_prop in H. destruct H as [H Hz]. apply andb_prop in H. destruct H as [H Hsh].
  apply andb_prop in H. destruct H as [H Hrefs]. apply andb_prop in H. destruct H as [Hv Hcaps].
  pose proof (caps_roundtrip _ Hcaps) as Hcr. pose proof (cap_encode_nonul _ Hcaps) as Hcn.
  pose proof (adv_sorted_ok _ Hrefs) as Hsorted.
  destruct (first_ref (ar_refs a)) as [[fname fh]|] eqn:Ef.
  - pose proof (first_ref_In _ _ Ef) as Hin. pose proof Hrefs as Hall. rewrite forallb_forall in Hall. pose proof (Hall _ Hin) as Hrf.
    unfold ref_ok in Hrf. cbn [fst snd] in Hrf. apply andb_prop in Hrf. destruct Hrf as [Hn Hh].
    apply negb_true_iff in Hz.
    assert (fname <> []) as Hfn by (destruct fname; [discriminate|discriminate]).
    rewrite (adv_encode_some a fname fh Hv Ef Hfn) in He.
    apply (f_equal (fun o => match o with Some x => x | None => [] end)) in He. cbv beta iota in He. subst ps.
    rewrite (adv_decode_lines (ar_version a) _ _ (ar_shallows a) (ar_caps a) [(fname, fh)] Hv).
    + unfold adv_canon, adv_wire. rewrite Ef. reflexivity.
    + pose proof (hash_str_ne fh Hh). destruct (hash_str fh); [contradiction|discriminate].
    + change (B "version ") with (118%N :: skipn 1 (B "version ")). apply hash_line_no_prefix; auto.
    + intros items fin. apply adv_first_ref; auto.
    + rewrite forallb_app, Hsorted, andb_true_r.
      pose proof (wire_of_ok _ _ Hrefs Hin) as W. unfold wire_of in *. cbn [tl forallb] in *. apply andb_prop in W. apply W.
    + assumption.
  - rewrite (adv_encode_none a Hv Ef) in He.
    apply (f_equal (fun o => match o with Some x => x | None => [] end)) in He. cbv beta iota in He. subst ps.
    rewrite (adv_decode_lines (ar_version a) _ _ (ar_shallows a) (ar_caps a) [] Hv).
    + unfold adv_canon, adv_wire. rewrite Ef, (adv_sorted_none _ Ef). reflexivity.
    + discriminate.
    + reflexivity.
    + intros items fin. apply adv_first_zero; auto.
    + assumption.
    + assumption.
Qed.

Lemma adv_no_errline a ps : adv_ok a = true -> adv_encode a = Some ps -> forallb no_errline ps = true.
Proof.
  unfold adv_ok. intros H He.
  apply andb_prop in H. destruct H as [H Hz]. apply andb_prop in H. destruct H as [H Hsh].
  apply andb_prop in H. destruct H as [H Hrefs]. clear H Hz.
  assert (forall h x, hash_ok h = true -> no_errline (PData (hash_str h ++ x)) = true) as K.
  { intros h x Hok. destruct (hash_str_head h Hok) as (n & t & -> & Hn). cbn [no_errline app].
    unfold errPrefix, zb. cbn [map has_prefix Gen.C34.pktline_errPrefix].
    assert (N.eqb (Z.to_N 69) (hexdig n) = false) as ->; [|reflexivity].
    assert (n = 0 \/ n = 1 \/ n = 2 \/ n = 3 \/ n = 4 \/ n = 5 \/ n = 6 \/ n = 7 \/ n = 8 \/ n = 9 \/
            n = 10 \/ n = 11 \/ n = 12 \/ n = 13 \/ n = 14 \/ n = 15)%N as C by lia.
    repeat (destruct C as [-> | C]; [reflexivity|]); subst; reflexivity. }
  unfold adv_encode in He.
  destruct (if (ar_version a =? 0)%Z then Some [] else if (ar_version a =? 1)%Z then Some [PData (B "version 1" ++ [NL])] else None) as [vl|] eqn:Ev; [|discriminate].
  injection He as <-. rewrite !forallb_app. repeat (apply andb_true_intro; split).
  - destruct (ar_version a =? 0)%Z; [injection Ev as <-; reflexivity|]. destruct (ar_version a =? 1)%Z; [injection Ev as <-; reflexivity|discriminate].
  - destruct (first_ref (ar_refs a)) as [[fname fh]|] eqn:Ef; [|reflexivity].
    pose proof (first_ref_In _ _ Ef) as Hin. rewrite forallb_forall in Hrefs. pose proof (Hrefs _ Hin) as Hrf.
    unfold ref_ok in Hrf. cbn [fst snd] in Hrf. apply andb_prop in Hrf. destruct Hrf as [_ Hh].
    destruct fname; [reflexivity|]. cbn [forallb]. rewrite (K fh _ Hh). cbn [andb].
    destruct (peeled_lookup (ar_refs a) (n :: fname) None) as [ph|] eqn:Ep; [|reflexivity].
    apply peeled_lookup_In in Ep. destruct Ep as [Ep|[n' Ep]]; [discriminate|].
    specialize (Hrefs _ Ep). unfold ref_ok in Hrefs. apply andb_prop in Hrefs. cbn [forallb]. unfold peeled_line. rewrite (K ph _ (proj2 Hrefs)). reflexivity.
  - apply forallb_forall. intros p Hp. apply in_flat_map in Hp. destruct Hp as (r & Hr & Hp).
    apply sort_by_In in Hr. apply filter_In in Hr. destruct Hr as [Hr _].
    rewrite forallb_forall in Hrefs. pose proof (Hrefs _ Hr) as Hrf. unfold ref_ok in Hrf. apply andb_prop in Hrf.
    destruct Hp as [<- | Hp]; [unfold ref_line; apply K; apply Hrf|].
    destruct (peeled_lookup (ar_refs a) (fst r) None) as [ph|] eqn:Ep; [|contradiction].
    destruct Hp as [<- | []]. apply peeled_lookup_In in Ep. destruct Ep as [Ep|[n' Ep]]; [discriminate|].
    specialize (Hrefs _ Ep). unfold ref_ok in Hrefs. apply andb_prop in Hrefs. unfold peeled_line. apply K. apply Hrefs.
  - apply forallb_forall. intros p Hp. apply in_map_iff in Hp. destruct Hp as (s & <- & _). reflexivity.
  - reflexivity.
  - reflexivity.
Qed.
