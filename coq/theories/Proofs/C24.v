(* Proofs/C24.v — inductive invariants of the SharedFile / fdpool state machine *)
From Coq Require Import List Arith Bool Lia.
From GoGit Require Import Base.Out Model.SharedFile.
Import ListNotations.

(* ---- basics ------------------------------------------------------------ *)
Arguments hold_eqb : simpl never.

Definition on_file (f : nat) (x : nat * nat * nat) : bool :=
  match x with (_, f', _) => Nat.eqb f' f end.
Definition hcount (f : nat) (hs : list (nat * nat * nat)) : nat := List.length (filter (on_file f) hs).

Definition reachable (c : cfg) (s : st) : Prop := exists ls, run c init ls = Some s.

Lemma upd_same : forall A (m : nat -> A) k v, upd m k v k = v.
Proof. intros. unfold upd. now rewrite Nat.eqb_refl. Qed.
Lemma upd_other : forall A (m : nat -> A) k v x, x <> k -> upd m k v x = m x.
Proof. intros. unfold upd. destruct (Nat.eqb_spec x k); congruence. Qed.

Lemma hold_eqb_spec : forall a b, hold_eqb a b = true <-> a = b.
Proof.
  intros [[t f] h] [[t' f'] h']. unfold hold_eqb. rewrite !andb_true_iff, !Nat.eqb_eq.
  split; [intros [[-> ->] ->]; reflexivity | intros H; inversion H; auto].
Qed.

Lemma hmemb_In : forall x l, hmemb x l = true <-> In x l.
Proof.
  intros x l. unfold hmemb. rewrite existsb_exists. split.
  - intros [y [Hy He]]. apply hold_eqb_spec in He. now subst.
  - intros H. exists x. split; auto. now apply hold_eqb_spec.
Qed.

Lemma memb_In : forall x l, memb x l = true <-> In x l.
Proof.
  intros x l. unfold memb. rewrite existsb_exists. split.
  - intros [y [Hy He]]. apply Nat.eqb_eq in He. now subst.
  - intros H. exists x. split; auto. apply Nat.eqb_refl.
Qed.

Lemma In_remove1_nat : forall x y l, In y (remove1 Nat.eqb x l) -> In y l.
Proof.
  induction l as [|a l IH]; cbn; auto. destruct (Nat.eqb_spec x a); cbn; intuition.
Qed.

Lemma In_remove1_nat_other : forall x y l, y <> x -> In y l -> In y (remove1 Nat.eqb x l).
Proof.
  induction l as [|a l IH]; cbn; auto. intros Hne [->|H].
  - destruct (Nat.eqb_spec x y); [congruence | now left].
  - destruct (Nat.eqb_spec x a); [auto | right; auto].
Qed.

Lemma NoDup_remove1 : forall x l, NoDup l -> NoDup (remove1 Nat.eqb x l).
Proof.
  induction l as [|a l IH]; cbn; auto. intros H. inversion H; subst.
  destruct (Nat.eqb_spec x a); auto. constructor; auto.
  intros Hin. apply In_remove1_nat in Hin. contradiction.
Qed.

Lemma NoDup_remove1_notin : forall x l, NoDup l -> ~ In x (remove1 Nat.eqb x l).
Proof.
  induction l as [|a l IH]; cbn; auto. intros H. inversion H; subst.
  destruct (Nat.eqb_spec x a); [subst; auto|]. cbn. intros [E|E]; [congruence | now apply IH].
Qed.

Lemma length_remove1 : forall x l, In x l -> S (List.length (remove1 Nat.eqb x l)) = List.length l.
Proof.
  induction l as [|a l IH]; cbn; [tauto|]. intros [->|H].
  - now rewrite Nat.eqb_refl.
  - destruct (Nat.eqb_spec x a); cbn; auto.
Qed.

Lemma In_remove1_hold : forall x y l, In y (remove1 hold_eqb x l) -> In y l.
Proof.
  induction l as [|a l IH]; cbn; auto. destruct (hold_eqb x a); cbn; intuition.
Qed.

Lemma In_remove1_hold_other : forall x y l, y <> x -> In y l -> In y (remove1 hold_eqb x l).
Proof.
  induction l as [|a l IH]; cbn; auto. intros Hne [->|H].
  - destruct (hold_eqb x y) eqn:E; [apply hold_eqb_spec in E; congruence | now left].
  - destruct (hold_eqb x a); [auto | right; auto].
Qed.

Lemma hcount_remove1_same : forall t f h l, In (t, f, h) l ->
  S (hcount f (remove1 hold_eqb (t, f, h) l)) = hcount f l.
Proof.
  unfold hcount. induction l as [|a l IH]; cbn; [tauto|]. intros [->|H].
  - assert (E : hold_eqb (t, f, h) (t, f, h) = true) by now apply hold_eqb_spec.
    rewrite E. cbn. now rewrite Nat.eqb_refl.
  - destruct (hold_eqb (t, f, h) a) eqn:E.
    + apply hold_eqb_spec in E. subst a. cbn. now rewrite Nat.eqb_refl.
    + cbn. destruct (on_file f a); cbn; auto.
Qed.

Lemma hcount_remove1_other : forall t f h g l, g <> f ->
  hcount g (remove1 hold_eqb (t, f, h) l) = hcount g l.
Proof.
  unfold hcount. induction l as [|a l IH]; cbn; auto. intros Hne.
  destruct (hold_eqb (t, f, h) a) eqn:E.
  - apply hold_eqb_spec in E. subst a. cbn. destruct (Nat.eqb_spec f g); [congruence|reflexivity].
  - cbn. destruct (on_file g a); cbn; auto.
Qed.

Lemma hcount_zero_notin : forall f l t h, hcount f l = 0 -> ~ In (t, f, h) l.
Proof.
  unfold hcount. induction l as [|a l IH]; cbn; auto. intros t h H [->|Hin].
  - cbn in H. rewrite Nat.eqb_refl in H. discriminate.
  - destruct (on_file f a); [discriminate | eapply IH; eauto].
Qed.

Lemma hcount_pos_of_In : forall f l t h, In (t, f, h) l -> hcount f l <> 0.
Proof. intros f l t h H E. eapply hcount_zero_notin; eauto. Qed.

(* ---- the invariant ------------------------------------------------------- *)

Record Inv (c : cfg) (s : st) : Prop := mkInv {
  i_refs : forall f, frefs (files s f) = hcount f (holds s);
  i_pin : forall t f h, In (t, f, h) (holds s) -> fclosed (files s f) = false -> ffile (files s f) = Some h;
  i_pchold : forall t f, pcs s t = PTouch f -> exists h, In (t, f, h) (holds s);
  i_pcpool : forall t f, pcs s t = PTouch f -> epooled c f = true;
  i_nodup : NoDup (lru s);
  i_inlru : forall f, finlru (files s f) = true <-> In f (lru s);
  i_len : List.length (lru s) <= cap c;
  i_closed : forall f, fclosed (files s f) = true -> ffile (files s f) = None;
  i_forget : forall t f, pcs s t = PForget f -> fclosed (files s f) = true;
  i_open : forall f, epooled c f = true -> is_open (files s f) = true ->
      In f (lru s) \/ In f (inflight s)
      \/ (flatch (files s f) = true /\ frefs (files s f) <> 0)
      \/ (exists t, pcs s t = PTouch f)
}.

Lemma inv_init : forall c, Inv c init.
Proof.
  intros c. constructor; cbn; intros; try discriminate; try tauto; try lia.
  constructor.
Qed.

(* ---- effects of the SharedFile critical sections on one file ------------ *)

Lemma release_now_cases : forall x,
  (fclosed x = true /\ release_now x = x)
  \/ (fclosed x = false /\ frefs x = 0 /\ ffile (release_now x) = None /\ frefs (release_now x) = 0
      /\ fclosed (release_now x) = false /\ flatch (release_now x) = flatch x /\ finlru (release_now x) = finlru x)
  \/ (fclosed x = false /\ frefs x <> 0 /\ ffile (release_now x) = ffile x /\ frefs (release_now x) = frefs x
      /\ fclosed (release_now x) = false /\ flatch (release_now x) = true /\ finlru (release_now x) = finlru x).
Proof.
  intros x. unfold release_now. destruct (fclosed x) eqn:Ec; [left; auto|].
  destruct (Nat.eqb_spec (frefs x) 0) as [E|E]; cbn; [right; left | right; right]; repeat split; auto.
Qed.

Lemma release_cases : forall p g n x, frefs x <> 0 ->
  frefs (release p g n x) = pred (frefs x) /\ fclosed (release p g n x) = fclosed x
  /\ finlru (release p g n x) = finlru x
  /\ ((ffile (release p g n x) = ffile x /\ flatch (release p g n x) = flatch x)
      \/ (ffile (release p g n x) = None /\ pred (frefs x) = 0 /\ fclosed x = false)).
Proof.
  intros p g n x Hr. unfold release. destruct (Nat.eqb_spec (frefs x) 0); [contradiction|].
  destruct (Nat.eqb_spec (pred (frefs x)) 0) as [E0|E0]; cbn.
  - destruct (fclosed x) eqn:Ec; cbn; [repeat split; auto|].
    destruct (ffile x) eqn:Ef; cbn; [|repeat split; auto; left; now rewrite Ef].
    destruct (flatch x) eqn:El; cbn; [repeat split; auto|].
    destruct p; cbn; repeat split; auto; left; rewrite ?Ef, ?El; auto.
  - repeat split; auto.
Qed.

Lemma timer_body_cases : forall g x,
  timer_body g x = x
  \/ (frefs x = 0 /\ fclosed x = false /\ ffile (timer_body g x) = None /\ frefs (timer_body g x) = 0
      /\ fclosed (timer_body g x) = false /\ flatch (timer_body g x) = flatch x /\ finlru (timer_body g x) = finlru x).
Proof.
  intros g x. unfold timer_body.
  destruct (fclosed x) eqn:Ec; cbn; [left; auto|].
  destruct (Nat.eqb_spec (fgen x) g); cbn; [|left; auto].
  destruct (Nat.eqb_spec (frefs x) 0) as [E|E]; cbn; [|left; auto].
  destruct (ffile x); cbn; [right; repeat split; auto | left; auto].
Qed.

(* ---- preservation ------------------------------------------------------- *)

Ltac fcase g f := destruct (Nat.eqb_spec g f) as [->|?]; [rewrite ?upd_same in * | rewrite ?upd_other in * by assumption].

Lemma hcount_cons : forall g t f h l, hcount g ((t, f, h) :: l) = (if Nat.eqb f g then 1 else 0) + hcount g l.
Proof. intros. unfold hcount. cbn. destruct (Nat.eqb f g); reflexivity. Qed.

Lemma inv_acq : forall c s t f h g' tm pcs' nexth',
  Inv c s -> pcs s t = PIdle -> fclosed (files s f) = false ->
  (ffile (files s f) = Some h \/ ffile (files s f) = None) ->
  (pcs' = pcs s /\ epooled c f = false \/ pcs' = upd (pcs s) t (PTouch f) /\ epooled c f = true) ->
  let x := files s f in
  let x' := mkF (Some h) (S (frefs x)) g' tm (fcbs x) false (flatch x) (finlru x) (fidle x) in
  Inv c (mkSt (upd (files s) f x') (lru s) (inflight s) ((t, f, h) :: holds s) pcs' nexth' (now s)).
Proof.
  intros c s t f h g' tm pcs' nexth' I Hidle Hcl Hfile Hpc x x'. subst x x'.
  destruct I as [i_refs0 i_pin0 i_pchold0 i_pcpool0 i_nodup0 i_inlru0 i_len0 i_closed0 i_forget0 i_open0]. constructor; cbn [files lru inflight holds pcs nexth now].
  - intros g. rewrite hcount_cons. fcase g f; cbn.
    + rewrite Nat.eqb_refl. now rewrite i_refs0.
    + destruct (Nat.eqb_spec f g); [congruence|]. apply i_refs0.
  - intros t0 g h0 [E|Hin] Hc.
    + inversion E; subst. now rewrite upd_same.
    + fcase g f; cbn in *.
      * destruct Hfile as [Hf|Hf]; specialize (i_pin0 _ _ _ Hin Hcl); congruence.
      * eauto.
  - intros t0 g Hp. destruct Hpc as [[-> _]|[-> _]].
    + destruct (i_pchold0 _ _ Hp) as [h0 ?]. exists h0. now right.
    + unfold upd in Hp. destruct (Nat.eqb_spec t0 t).
      * inversion Hp; subst. exists h. now left.
      * destruct (i_pchold0 _ _ Hp) as [h0 ?]. exists h0. now right.
  - intros t0 g Hp. destruct Hpc as [[-> _]|[-> He]]; [eauto|].
    unfold upd in Hp. destruct (Nat.eqb_spec t0 t); [inversion Hp; subst; auto | eauto].
  - auto.
  - intros g. fcase g f; cbn; auto.
  - auto.
  - intros g. fcase g f; cbn; [discriminate | auto].
  - intros t0 g Hp. assert (Hp' : pcs s t0 = PForget g).
    { destruct Hpc as [[-> _]|[-> _]]; auto. unfold upd in Hp. destruct (Nat.eqb_spec t0 t); [discriminate | auto]. }
    specialize (i_forget0 _ _ Hp'). fcase g f; cbn; [congruence | auto].
  - intros g Hg Ho. fcase g f; cbn in *.
    + destruct Hpc as [[-> He]|[-> _]]; [congruence|].
      right; right; right. exists t. apply upd_same.
    + destruct (i_open0 _ Hg Ho) as [?|[?|[?|[t0 Ht0]]]]; auto.
      right; right; right. exists t0. destruct Hpc as [[-> _]|[-> _]]; auto.
      rewrite upd_other; auto. intros ->. congruence.
Qed.

Lemma inv_upd_file : forall c s f x' infl' pcs' nexth' now',
  Inv c s ->
  let x := files s f in
  frefs x' = frefs x -> finlru x' = finlru x ->
  (ffile x' = ffile x \/ (ffile x' = None /\ (frefs x = 0 \/ fclosed x' = true))) ->
  (fclosed x = true -> fclosed x' = true) ->
  (fclosed x' = true -> ffile x' = None) ->
  (fclosed x' = false -> fclosed x = false) ->
  (is_open x' = true -> flatch x = true -> flatch x' = true) ->
  (forall g, g <> f -> In g (inflight s) -> In g infl') ->
  (In f (inflight s) -> In f infl' \/ is_open x' = false \/ (flatch x' = true /\ frefs x' <> 0)) ->
  (forall t g, pcs' t = PTouch g <-> pcs s t = PTouch g) ->
  (forall t g, pcs' t = PForget g -> pcs s t = PForget g \/ (g = f /\ fclosed x' = true)) ->
  Inv c (mkSt (upd (files s) f x') (lru s) infl' (holds s) pcs' nexth' now').
Proof.
  intros c s f x' infl' pcs' nexth' now' I x Hr Hl Hf Hc1 Hc2 Hc3 Hla Hi1 Hi2 Hp1 Hp2. subst x.
  destruct I as [i_refs0 i_pin0 i_pchold0 i_pcpool0 i_nodup0 i_inlru0 i_len0 i_closed0 i_forget0 i_open0].
  constructor; cbn [files lru inflight holds pcs nexth now].
  - intros g. fcase g f; [now rewrite Hr | auto].
  - intros t g h Hin Hc. fcase g f; [|eauto].
    specialize (i_pin0 _ _ _ Hin (Hc3 Hc)).
    destruct Hf as [Hf|[Hf [Hz|Hz]]]; [congruence| |congruence].
    exfalso. rewrite i_refs0 in Hz. eapply hcount_pos_of_In; eauto.
  - intros t g Hp. apply Hp1 in Hp. eauto.
  - intros t g Hp. apply Hp1 in Hp. eauto.
  - auto.
  - intros g. fcase g f; [rewrite Hl; auto | auto].
  - auto.
  - intros g. fcase g f; auto.
  - intros t g Hp. destruct (Hp2 _ _ Hp) as [Hq|[-> Hq]].
    + specialize (i_forget0 _ _ Hq). fcase g f; auto.
    + now rewrite upd_same.
  - intros g Hg Ho. fcase g f.
    + assert (Ho' : is_open (files s f) = true).
      { unfold is_open in *. destruct Hf as [Hf|[Hf _]]; rewrite Hf in Ho; [auto|discriminate]. }
      destruct (i_open0 _ Hg Ho') as [?|[Hin|[[Hlt Hrf]|[t Ht]]]]; auto.
      * destruct (Hi2 Hin) as [?|[?|?]]; auto. congruence.
      * right; right; left. split; [auto | congruence].
      * right; right; right. exists t. now apply Hp1.
    + destruct (i_open0 _ Hg Ho) as [?|[Hin|[?|[t Ht]]]]; auto.
      right; right; right. exists t. now apply Hp1.
Qed.

Lemma inv_release : forall c s t f h p,
  Inv c s -> pcs s t = PIdle -> In (t, f, h) (holds s) ->
  Inv c (mkSt (upd (files s) f (release p (grace c) (now s) (files s f))) (lru s) (inflight s)
              (remove1 hold_eqb (t, f, h) (holds s)) (pcs s) (nexth s) (now s)).
Proof.
  intros c s t f h p I Hidle Hin.
  destruct I as [i_refs0 i_pin0 i_pchold0 i_pcpool0 i_nodup0 i_inlru0 i_len0 i_closed0 i_forget0 i_open0].
  assert (Hnz : frefs (files s f) <> 0) by (rewrite i_refs0; eapply hcount_pos_of_In; eauto).
  destruct (release_cases p (grace c) (now s) (files s f) Hnz) as (Hr & Hc & Hl & Hf).
  constructor; cbn [files lru inflight holds pcs nexth now].
  - intros g. fcase g f.
    + rewrite Hr, i_refs0. rewrite <- (hcount_remove1_same t f h (holds s) Hin). reflexivity.
    + rewrite hcount_remove1_other by auto. auto.
  - intros t0 g h0 Hin0 Hcl. apply In_remove1_hold in Hin0 as Hin1. fcase g f; [|eauto].
    rewrite Hc in Hcl. specialize (i_pin0 _ _ _ Hin1 Hcl).
    destruct Hf as [[Hf _]|[Hf [Hz _]]]; [congruence|].
    exfalso. eapply (hcount_zero_notin f (remove1 hold_eqb (t, f, h) (holds s))); eauto.
    pose proof (hcount_remove1_same t f h (holds s) Hin). rewrite <- i_refs0 in H. lia.
  - intros t0 g Hp. destruct (i_pchold0 _ _ Hp) as [h0 Hh]. exists h0.
    apply In_remove1_hold_other; auto. intros E. inversion E; subst. congruence.
  - eauto.
  - auto.
  - intros g. fcase g f; [rewrite Hl; auto | auto].
  - auto.
  - intros g. fcase g f; auto. rewrite Hc. intros Hcl.
    destruct Hf as [[Hf _]|[Hf _]]; [rewrite Hf; auto | auto].
  - intros t0 g Hp. specialize (i_forget0 _ _ Hp). fcase g f; [congruence | auto].
  - intros g Hg Ho. fcase g f; [|auto].
    destruct Hf as [[Hf Hla]|[Hf _]]; [|unfold is_open in Ho; rewrite Hf in Ho; discriminate].
    assert (Ho' : is_open (files s f) = true) by (unfold is_open in *; now rewrite Hf in Ho).
    destruct (i_open0 _ Hg Ho') as [?|[?|[[Hlt Hrf]|?]]]; auto.
    destruct (Nat.eq_dec (pred (frefs (files s f))) 0) as [Hz|Hz].
    + (* last reference with the latch set: release closes the file *)
      exfalso. unfold release in Ho. destruct (Nat.eqb_spec (frefs (files s f)) 0); [contradiction|].
      rewrite Hz in Ho. cbn in Ho. unfold is_open in Ho, Ho'.
      destruct (fclosed (files s f)) eqn:Ec; cbn in Ho.
      * rewrite (i_closed0 _ Ec) in Ho'. discriminate.
      * destruct (ffile (files s f)); cbn in Ho; [|discriminate]. rewrite Hlt in Ho. cbn in Ho. discriminate.
    + right; right; left. split; [congruence | rewrite Hr; auto].
Qed.

Lemma inv_relink : forall c s files' lru' infl' pcs',
  Inv c s ->
  (forall g, ffile (files' g) = ffile (files s g) /\ frefs (files' g) = frefs (files s g)
             /\ fclosed (files' g) = fclosed (files s g) /\ flatch (files' g) = flatch (files s g)) ->
  NoDup lru' -> (forall g, finlru (files' g) = true <-> In g lru') -> List.length lru' <= cap c ->
  (forall g, In g (lru s) -> In g lru' \/ In g infl' \/ fclosed (files s g) = true) ->
  (forall g, In g (inflight s) -> In g infl') ->
  (forall t g, pcs' t = PTouch g -> pcs s t = PTouch g) ->
  (forall t g, pcs s t = PTouch g -> pcs' t = PTouch g \/ In g lru') ->
  (forall t g, pcs' t = PForget g -> pcs s t = PForget g) ->
  Inv c (mkSt files' lru' infl' (holds s) pcs' (nexth s) (now s)).
Proof.
  intros c s files' lru' infl' pcs' I Hsame Hnd Hin Hlen Hl Hi Hp1 Hp2 Hp3.
  destruct I as [i_refs0 i_pin0 i_pchold0 i_pcpool0 i_nodup0 i_inlru0 i_len0 i_closed0 i_forget0 i_open0].
  constructor; cbn [files lru inflight holds pcs nexth now].
  - intros g. destruct (Hsame g) as (_ & -> & _). auto.
  - intros t g h H Hc. destruct (Hsame g) as (-> & _ & Hcc & _). rewrite Hcc in Hc. eauto.
  - intros t g Hp. eauto.
  - intros t g Hp. eauto.
  - auto.
  - auto.
  - auto.
  - intros g. destruct (Hsame g) as (-> & _ & -> & _). auto.
  - intros t g Hp. destruct (Hsame g) as (_ & _ & -> & _). eauto.
  - intros g Hg Ho. destruct (Hsame g) as (Hf & Hr & Hc & Hla).
    assert (Ho' : is_open (files s g) = true) by (unfold is_open in *; now rewrite <- Hf).
    destruct (i_open0 _ Hg Ho') as [H|[H|[H|[t Ht]]]].
    + destruct (Hl _ H) as [?|[?|Hcl]]; auto.
      unfold is_open in Ho'. rewrite (i_closed0 _ Hcl) in Ho'. discriminate.
    + auto.
    + right; right; left. now rewrite Hla, Hr.
    + destruct (Hp2 _ _ Ht); eauto 6.
Qed.

Ltac bm H :=
  match type of H with
  | context [match ?x with _ => _ end] => destruct x eqn:?
  end.

Lemma is_idle_true : forall p, is_idle p = true -> p = PIdle.
Proof. destruct p; cbn; congruence. Qed.

Lemma inv_step_acquire : forall c s t f ok s', Inv c s -> step c s (LAcquire t f ok) = Some s' -> Inv c s'.
Proof.
  intros c s t f ok s' I H. cbn in H.
  destruct (is_idle (pcs s t)) eqn:Hi; cbn in H; [|discriminate]. apply is_idle_true in Hi.
  destruct (fclosed (files s f)) eqn:Hc; [inversion H; subst; auto|].
  destruct (ffile (files s f)) as [h|] eqn:Hf.
  - destruct (epooled c f) eqn:He; inversion H; subst; clear H;
      apply (inv_acq c s t f h _ _ _ _ I Hi Hc (or_introl Hf)); auto.
  - destruct ok.
    + destruct (epooled c f) eqn:He; inversion H; subst; clear H;
        apply (inv_acq c s t f (nexth s) _ _ _ _ I Hi Hc (or_intror Hf)); auto.
    + inversion H; subst; clear H.
      apply (inv_upd_file c s f _ (inflight s) (pcs s) (nexth s) (now s) I); cbn; auto; try tauto; try congruence.
Qed.

Lemma inv_step_touch : forall c s t v s', Inv c s -> step c s (LTouch t v) = Some s' -> Inv c s'.
Proof.
  intros c s t v s' I H. unfold step in H.
  destruct (pcs s t) eqn:Hp; try discriminate.
  pose proof I as [i_refs0 i_pin0 i_pchold0 i_pcpool0 i_nodup0 i_inlru0 i_len0 i_closed0 i_forget0 i_open0].
  destruct (finlru (files s f)) eqn:Hl.
  - (* hit *)
    inversion H; subst; clear H. apply i_inlru0 in Hl.
    apply (inv_relink c s (files s) (f :: remove1 Nat.eqb f (lru s)) (inflight s) (upd (pcs s) t PIdle) I); auto.
    + constructor; [apply NoDup_remove1_notin; auto | apply NoDup_remove1; auto].
    + intros g. rewrite i_inlru0. cbn. split.
      * intros Hg. destruct (Nat.eq_dec f g); auto. right. apply In_remove1_nat_other; auto.
      * intros [<-|Hg]; auto. eapply In_remove1_nat; eauto.
    + cbn. rewrite length_remove1; auto.
    + intros g Hg. left. cbn. destruct (Nat.eq_dec f g); auto. right. apply In_remove1_nat_other; auto.
    + intros t0 g. unfold upd. destruct (Nat.eqb_spec t0 t); [intros; discriminate|auto].
    + intros t0 g Hq. unfold upd. destruct (Nat.eqb_spec t0 t); auto. subst. right.
      rewrite Hp in Hq. inversion Hq; subst. now left.
    + intros t0 g. unfold upd. destruct (Nat.eqb_spec t0 t); [intros; discriminate|auto].
  - assert (Hnf : ~ In f (lru s)) by (intros Hin; apply i_inlru0 in Hin; congruence).
    destruct (Nat.ltb_spec (cap c) (S (List.length (lru s)))) as [Hlt|Hge].
    + (* insert and evict v *)
      destruct (memb v (lru s) && negb (Nat.eqb v f)) eqn:Hv; [|discriminate].
      apply andb_true_iff in Hv as [Hv1 Hv2]. apply memb_In in Hv1.
      apply negb_true_iff in Hv2. apply Nat.eqb_neq in Hv2.
      inversion H; subst; clear H.
      apply (inv_relink c s _ (f :: remove1 Nat.eqb v (lru s)) (v :: inflight s) (upd (pcs s) t (PEvict f v)) I).
      * intros g. cbn. unfold upd. destruct (Nat.eqb_spec g v); [subst; destruct (Nat.eqb_spec v f); [congruence|cbn; auto]|].
        destruct (Nat.eqb_spec g f); [subst; cbn; auto | auto].
      * constructor; [intros Hin; apply In_remove1_nat in Hin; auto | apply NoDup_remove1; auto].
      * intros g. cbn. unfold upd. destruct (Nat.eqb_spec g v) as [->|Hgv].
        { destruct (Nat.eqb_spec v f); [congruence|]. cbn. split; [discriminate|].
          intros [E|Hin]; [congruence|]. exfalso. eapply NoDup_remove1_notin; eauto. }
        destruct (Nat.eqb_spec g f) as [->|Hgf]; cbn; [tauto|].
        rewrite i_inlru0. split.
        { intros Hg. right. apply In_remove1_nat_other; auto. }
        { intros [E|Hg]; [congruence|]. eapply In_remove1_nat; eauto. }
      * cbn. pose proof (length_remove1 v (lru s) Hv1). lia.
      * intros g Hg. cbn. destruct (Nat.eq_dec g v); [subst; auto|].
        left. right. apply In_remove1_nat_other; auto.
      * intros g Hg. now right.
      * intros t0 g. unfold upd. destruct (Nat.eqb_spec t0 t); [intros; discriminate|auto].
      * intros t0 g Hq. unfold upd. destruct (Nat.eqb_spec t0 t); auto. subst. right.
        rewrite Hp in Hq. inversion Hq; subst. now left.
      * intros t0 g. unfold upd. destruct (Nat.eqb_spec t0 t); [intros; discriminate|auto].
    + (* insert, room left *)
      inversion H; subst; clear H.
      apply (inv_relink c s _ (f :: lru s) (inflight s) (upd (pcs s) t PIdle) I).
      * intros g. cbn. unfold upd. destruct (Nat.eqb_spec g f); [subst; cbn; auto | auto].
      * constructor; auto.
      * intros g. cbn. unfold upd. destruct (Nat.eqb_spec g f) as [->|Hgf]; cbn; [tauto|].
        rewrite i_inlru0. split; [auto | intros [E|Hg]; [congruence|auto]].
      * cbn. lia.
      * intros g Hg. left. now right.
      * auto.
      * intros t0 g. unfold upd. destruct (Nat.eqb_spec t0 t); [intros; discriminate|auto].
      * intros t0 g Hq. unfold upd. destruct (Nat.eqb_spec t0 t); auto. subst. right.
        rewrite Hp in Hq. inversion Hq; subst. now left.
      * intros t0 g. unfold upd. destruct (Nat.eqb_spec t0 t); [intros; discriminate|auto].
Qed.

Lemma pcs_upd_touch : forall (pcs : nat -> pc) t p, (forall g, p <> PTouch g) -> (forall g, pcs t <> PTouch g) ->
  forall t0 g, upd pcs t p t0 = PTouch g <-> pcs t0 = PTouch g.
Proof.
  intros pcs t p Hp Hq t0 g. unfold upd. destruct (Nat.eqb_spec t0 t); [subst|tauto].
  split; intros E; [apply Hp in E | apply Hq in E]; contradiction.
Qed.

Lemma release_now_upd : forall c s v infl' pcs',
  Inv c s ->
  (forall g, g <> v -> In g (inflight s) -> In g infl') ->
  (forall t g, pcs' t = PTouch g <-> pcs s t = PTouch g) ->
  (forall t g, pcs' t = PForget g -> pcs s t = PForget g) ->
  Inv c (mkSt (upd (files s) v (release_now (files s v))) (lru s) infl' (holds s) pcs' (nexth s) (now s)).
Proof.
  intros c s v infl' pcs' I Hi Hp1 Hp2.
  pose proof (i_closed c s I v) as Hcl.
  destruct (release_now_cases (files s v)) as [[Hc E]|[(Hc & Hr & Hf & Hr' & Hc' & Hl & Hn)|(Hc & Hr & Hf & Hr' & Hc' & Hl & Hn)]].
  - rewrite E. apply (inv_upd_file c s v (files s v) infl' pcs' (nexth s) (now s) I); auto.
    + intros _. right. left. unfold is_open. now rewrite (Hcl Hc).
  - apply (inv_upd_file c s v _ infl' pcs' (nexth s) (now s) I); auto; try congruence.
    + intros _. right. left. unfold is_open. now rewrite Hf.
  - apply (inv_upd_file c s v _ infl' pcs' (nexth s) (now s) I); auto; try congruence.
    + intros _. right. right. split; congruence.
Qed.

Lemma inv_pcs_only : forall c s pcs' nexth' now',
  Inv c s ->
  (forall t g, pcs' t = PTouch g <-> pcs s t = PTouch g) ->
  (forall t g, pcs' t = PForget g -> pcs s t = PForget g) ->
  Inv c (mkSt (files s) (lru s) (inflight s) (holds s) pcs' nexth' now').
Proof.
  intros c s pcs' nexth' now' I Hp1 Hp2.
  destruct I as [i_refs0 i_pin0 i_pchold0 i_pcpool0 i_nodup0 i_inlru0 i_len0 i_closed0 i_forget0 i_open0].
  constructor; cbn [files lru inflight holds pcs nexth now]; auto.
  - intros t g Hp. apply Hp1 in Hp. eauto.
  - intros t g Hp. apply Hp1 in Hp. eauto.
  - intros t g Hp. eauto.
  - intros g Hg Ho. destruct (i_open0 _ Hg Ho) as [?|[?|[?|[t Ht]]]]; auto.
    right; right; right. exists t. now apply Hp1.
Qed.

Lemma inv_step_rest : forall c s l s', Inv c s -> step c s l = Some s' ->
  match l with LAcquire _ _ _ | LTouch _ _ => True | _ => Inv c s' end.
Proof.
  intros c s l s' I H. destruct l; auto; unfold step in H.
  - (* LEvict *)
    destruct (pcs s t) eqn:Hp; try discriminate. inversion H; subst; clear H.
    apply (release_now_upd c s v _ _ I).
    + intros g Hg Hin. apply In_remove1_nat_other; auto.
    + apply pcs_upd_touch; [discriminate | rewrite Hp; discriminate].
    + intros t0 g. unfold upd. destruct (Nat.eqb_spec t0 t); [intros; discriminate|auto].
  - (* LRelock *)
    destruct (pcs s t) eqn:Hp; try discriminate. inversion H; subst; clear H.
    apply (inv_pcs_only c s _ (nexth s) (now s) I).
    + apply pcs_upd_touch; [discriminate | rewrite Hp; discriminate].
    + intros t0 g. unfold upd. destruct (Nat.eqb_spec t0 t); [intros; discriminate|auto].
  - (* LRelease *)
    destruct (is_idle (pcs s t) && hmemb (t, f, h) (holds s)) eqn:E; [|discriminate].
    apply andb_true_iff in E as [E1 E2]. apply is_idle_true in E1. apply hmemb_In in E2.
    inversion H; subst; clear H. apply (inv_release c s t f h _ I E1 E2).
  - (* LClose *)
    destruct (is_idle (pcs s t)) eqn:Hi; cbn in H; [|discriminate]. apply is_idle_true in Hi.
    destruct (fclosed (files s f)) eqn:Hc; [inversion H; subst; auto|].
    destruct (epooled c f) eqn:He; inversion H; subst; clear H.
    + apply (inv_upd_file c s f (close_body (files s f)) (inflight s) (upd (pcs s) t (PForget f)) (nexth s) (now s) I);
        cbn; auto; try congruence.
      * apply pcs_upd_touch; [discriminate | rewrite Hi; discriminate].
      * intros t0 g. unfold upd. destruct (Nat.eqb_spec t0 t); [|auto]. intros E. inversion E; subst. auto.
    + apply (inv_upd_file c s f (close_body (files s f)) (inflight s) (pcs s) (nexth s) (now s) I);
        cbn; auto; try congruence; try tauto.
  - (* LForget *)
    destruct (pcs s t) eqn:Hp; try discriminate.
    pose proof I as [i_refs0 i_pin0 i_pchold0 i_pcpool0 i_nodup0 i_inlru0 i_len0 i_closed0 i_forget0 i_open0].
    destruct (finlru (files s f)) eqn:Hl; inversion H; subst; clear H.
    + apply i_inlru0 in Hl.
      apply (inv_relink c s _ (remove1 Nat.eqb f (lru s)) (inflight s) (upd (pcs s) t PIdle) I).
      * intros g. cbn. unfold upd. destruct (Nat.eqb_spec g f); [subst; cbn; auto | auto].
      * apply NoDup_remove1; auto.
      * intros g. cbn. unfold upd. destruct (Nat.eqb_spec g f) as [->|Hgf]; cbn.
        { split; [discriminate|]. intros Hin. exfalso. eapply NoDup_remove1_notin; eauto. }
        rewrite i_inlru0. split; [intros; apply In_remove1_nat_other; auto | apply In_remove1_nat].
      * pose proof (length_remove1 f (lru s) Hl). lia.
      * intros g Hg. destruct (Nat.eq_dec g f); [subst; right; right; eauto | left; apply In_remove1_nat_other; auto].
      * auto.
      * intros t0 g. unfold upd. destruct (Nat.eqb_spec t0 t); [intros; discriminate|auto].
      * intros t0 g Hq. unfold upd. destruct (Nat.eqb_spec t0 t); auto. subst. congruence.
      * intros t0 g. unfold upd. destruct (Nat.eqb_spec t0 t); [intros; discriminate|auto].
    + apply (inv_pcs_only c s _ (nexth s) (now s) I).
      * apply pcs_upd_touch; [discriminate | rewrite Hp; discriminate].
      * intros t0 g. unfold upd. destruct (Nat.eqb_spec t0 t); [intros; discriminate|auto].
  - (* LReleaseNow *)
    destruct (is_idle (pcs s t)); [|discriminate]. inversion H; subst; clear H.
    apply (release_now_upd c s f (inflight s) (pcs s) I); auto; tauto.
  - (* LTick *)
    inversion H; subst; clear H. apply (inv_pcs_only c s (pcs s) (nexth s) _ I); tauto.
  - (* LTimerStart *)
    destruct (ftimer (files s f)) as [[g dl]|] eqn:Et; [|discriminate].
    destruct (Nat.leb dl (now s)); inversion H; subst; clear H.
    apply (inv_upd_file c s f _ (inflight s) (pcs s) (nexth s) (now s) I); cbn; auto; try tauto.
    apply (i_closed c s I).
  - (* LTimerRun *)
    destruct (memb g (fcbs (files s f))); inversion H; subst; clear H.
    set (x1 := mkF _ _ _ _ _ _ _ _ _).
    pose proof (i_closed c s I f) as Hcl.
    destruct (timer_body_cases g x1) as [E|(Hr & Hc & Hf & Hr' & Hc' & Hl & Hn)].
    + rewrite E. apply (inv_upd_file c s f x1 (inflight s) (pcs s) (nexth s) (now s) I); subst x1; cbn; auto; tauto.
    + apply (inv_upd_file c s f _ (inflight s) (pcs s) (nexth s) (now s) I); subst x1; cbn in *; auto; try congruence; try tauto.
Qed.

Lemma inv_step : forall c s l s', Inv c s -> step c s l = Some s' -> Inv c s'.
Proof.
  intros c s l s' I H. destruct l;
    try (exact (inv_step_rest c s _ s' I H)).
  - eapply inv_step_acquire; eauto.
  - eapply inv_step_touch; eauto.
Qed.

Lemma inv_run : forall c ls s s', Inv c s -> run c s ls = Some s' -> Inv c s'.
Proof.
  induction ls as [|l ls IH]; cbn; intros s s' I H; [inversion H; subst; auto|].
  destruct (step c s l) eqn:E; [|discriminate]. eapply IH; [eapply inv_step; eauto | eauto].
Qed.

Lemma inv_reachable : forall c s, reachable c s -> Inv c s.
Proof. intros c s [ls H]. eapply inv_run; [apply inv_init | eauto]. Qed.

(* ---- the bound ------------------------------------------------------------ *)

Lemma filter_mono_length : forall A (p q : A -> bool) l,
  (forall x, In x l -> p x = true -> q x = true) ->
  List.length (filter p l) <= List.length (filter q l).
Proof.
  induction l as [|a l IH]; cbn; intros H; auto.
  assert (IH' := IH (fun x Hx => H x (or_intror Hx))).
  destruct (p a) eqn:Ep; [rewrite (H a (or_introl eq_refl) Ep); cbn; lia|].
  destruct (q a); cbn; lia.
Qed.

Lemma filter_or_length : forall A (a b : A -> bool) l,
  List.length (filter (fun x => a x || b x) l) <= List.length (filter a l) + List.length (filter b l).
Proof.
  induction l as [|x l IH]; cbn; auto. destruct (a x), (b x); cbn; lia.
Qed.

Lemma filter_memb_length : forall l m, NoDup l ->
  List.length (filter (fun x => memb x m) l) <= List.length m.
Proof.
  intros l m Hnd. apply NoDup_incl_length.
  - now apply NoDup_filter.
  - intros x Hx. apply filter_In in Hx as [_ Hx]. now apply memb_In.
Qed.

(* the invariant behind the bound: an open pooled descriptor is registered,
   or an eviction of it is in flight, or a reader pins it *)
Lemma open_covered : forall c s f, Inv c s -> epooled c f = true -> is_open (files s f) = true ->
  memb f (lru s) || (memb f (inflight s) || is_pinned (files s f)) = true.
Proof.
  intros c s f I He Ho. destruct (i_open c s I f He Ho) as [H|[H|[[_ H]|[t H]]]].
  - apply memb_In in H. now rewrite H.
  - apply memb_In in H. rewrite H. now rewrite orb_true_r.
  - unfold is_pinned. apply Nat.eqb_neq in H. rewrite H. cbn. now rewrite !orb_true_r.
  - destruct (i_pchold c s I t f H) as [h Hh].
    unfold is_pinned. rewrite (i_refs c s I f).
    pose proof (hcount_pos_of_In f (holds s) t h Hh) as Hn. apply Nat.eqb_neq in Hn. rewrite Hn. cbn.
    now rewrite !orb_true_r.
Qed.

Lemma bound_partial : forall c s fs, reachable c s -> NoDup fs -> (forall f, In f fs -> epooled c f = true) ->
  count is_open s fs <= cap c + count is_pinned s fs + List.length (inflight s).
Proof.
  intros c s fs R Hnd Hp. apply inv_reachable in R. unfold count.
  eapply Nat.le_trans.
  { apply (filter_mono_length _ _ (fun f => memb f (lru s) || (memb f (inflight s) || is_pinned (files s f)))).
    intros f Hf Ho. eapply open_covered; eauto. }
  eapply Nat.le_trans; [apply filter_or_length|].
  eapply Nat.le_trans; [apply Nat.add_le_mono_l; apply filter_or_length|].
  pose proof (filter_memb_length fs (lru s) Hnd). pose proof (filter_memb_length fs (inflight s) Hnd).
  pose proof (i_len c s R). lia.
Qed.

Lemma bound_quiescent : forall c s fs, reachable c s -> NoDup fs -> (forall f, In f fs -> epooled c f = true) ->
  inflight s = [] -> count is_open s fs <= cap c + count is_pinned s fs.
Proof. intros c s fs R Hnd Hp Hq. pose proof (bound_partial c s fs R Hnd Hp). rewrite Hq in H. cbn in H. lia. Qed.

(* ---- grace timers ---------------------------------------------------------- *)

Definition tok (c : cfg) (p : bool) (now : nat) (x : fstate) : Prop :=
  (forall g, In g (fcbs x) -> g <= fgen x) /\
  (forall g dl, ftimer x = Some (g, dl) -> g <= fgen x) /\
  (p = false -> frefs x = 0 -> is_open x = true -> fclosed x = false ->
     ftimer x = Some (fgen x, fidle x + grace c) \/ In (fgen x) (fcbs x)) /\
  (forall g dl, ftimer x = Some (g, dl) -> g = fgen x -> dl = fidle x + grace c) /\
  (In (fgen x) (fcbs x) -> fidle x + grace c <= now).

Lemma In_remove1_nat' : forall x y l, In y (remove1 Nat.eqb x l) -> In y l.
Proof. exact In_remove1_nat. Qed.

Lemma tok_now : forall c p n n' x, n <= n' -> tok c p n x -> tok c p n' x.
Proof. intros c p n n' x Hle (A & B & C & D & E). repeat split; auto. intros H. specialize (E H). lia. Qed.

Lemma tok_bump_none : forall c p n x fl r cl la il,
  tok c p n x -> (r <> 0 \/ fl = None \/ cl = true \/ p = true) ->
  tok c p n (mkF fl r (S (fgen x)) None (fcbs x) cl la il (fidle x)).
Proof.
  intros c p n x fl r cl la il (A & B & C & D & E) H. unfold tok; cbn. repeat split.
  - intros g Hg. specialize (A g Hg). lia.
  - discriminate.
  - intros Hp Hr Ho Hc. unfold is_open in Ho. cbn in Ho.
    destruct H as [H|[H|[H|H]]]; subst; try congruence; discriminate.
  - discriminate.
  - intros Hin. specialize (A _ Hin). lia.
Qed.

Lemma tok_release_now : forall c p n x, tok c p n x -> tok c p n (release_now x).
Proof.
  intros c p n x T. unfold release_now. destruct (fclosed x) eqn:Ec; auto.
  destruct (Nat.eqb_spec (frefs x) 0).
  - apply tok_bump_none; auto.
  - apply tok_bump_none; auto.
Qed.

Lemma tok_close : forall c p n x, tok c p n x -> tok c p n (close_body x).
Proof. intros. unfold close_body. apply tok_bump_none; auto. Qed.

Lemma tok_inlru : forall c p n x b, tok c p n x -> tok c p n (set_inlru x b).
Proof. intros c p n x b T. exact T. Qed.

Lemma tok_release : forall c p n x, tok c p n x -> (frefs x <> 0 -> ftimer x = None) ->
  tok c p n (release p (grace c) n x).
Proof.
  intros c p n x T Hnt. unfold release. destruct (Nat.eqb_spec (frefs x) 0); auto.
  specialize (Hnt n0). rewrite Hnt.
  destruct (Nat.eqb_spec (pred (frefs x)) 0) as [E0|E0]; cbn [negb orb].
  2:{ apply tok_bump_none; auto. }
  destruct (fclosed x) eqn:Ec; cbn [orb].
  { apply tok_bump_none; auto. }
  destruct (ffile x) eqn:Ef.
  2:{ apply tok_bump_none; auto. }
  destruct (flatch x).
  { apply tok_bump_none; auto. }
  destruct p.
  { apply tok_bump_none; auto. }
  destruct T as (A & B & C & D & E).
  unfold tok; cbn. repeat split.
  - intros g Hg. specialize (A g Hg). lia.
  - intros g dl Hh. inversion Hh; subst. lia.
  - intros. now left.
  - intros g dl Hh _. inversion Hh; subst. reflexivity.
  - intros Hin. specialize (A _ Hin). lia.
Qed.

Lemma tok_timer_start : forall c p n x g dl, tok c p n x -> ftimer x = Some (g, dl) -> dl <= n ->
  tok c p n (mkF (ffile x) (frefs x) (fgen x) None (fcbs x ++ [g]) (fclosed x) (flatch x) (finlru x) (fidle x)).
Proof.
  intros c p n x g dl (A & B & C & D & E) Ht Hdl. unfold tok; cbn. repeat split; try discriminate.
  - intros g0 Hg. apply in_app_or in Hg as [Hg|[<-|[]]]; eauto.
  - intros Hp Hr Ho Hc. right. apply in_or_app.
    destruct (C Hp Hr Ho Hc) as [H|H]; [|now left]. rewrite Ht in H. inversion H; subst. right. now left.
  - intros Hin. apply in_app_or in Hin as [Hin|[Heq|[]]]; auto.
    rewrite (D _ _ Ht Heq) in Hdl. auto.
Qed.

Lemma tok_timer_run : forall c p n x g, tok c p n x ->
  tok c p n (timer_body g (mkF (ffile x) (frefs x) (fgen x) (ftimer x) (remove1 Nat.eqb g (fcbs x)) (fclosed x) (flatch x) (finlru x) (fidle x))).
Proof.
  intros c p n [fl r gn tm cb cl la il id] g (A & B & C & D & E). cbn in *.
  assert (Hsame : (gn <> g \/ cl = true \/ r <> 0 \/ fl = None) ->
    tok c p n (mkF fl r gn tm (remove1 Nat.eqb g cb) cl la il id)).
  { intros H. unfold tok; cbn. repeat split; auto.
    - intros g0 Hg. apply In_remove1_nat in Hg. auto.
    - intros Hp Hr Ho Hc. destruct (C Hp Hr Ho Hc) as [H1|H1]; auto. right.
      destruct H as [H|[H|[H|H]]]; try congruence.
      + apply In_remove1_nat_other; auto.
      + unfold is_open in Ho. cbn in Ho. rewrite H in Ho. discriminate.
    - intros Hin. apply In_remove1_nat in Hin. auto. }
  unfold timer_body. cbn.
  destruct cl; cbn; [apply Hsame; auto|].
  destruct (Nat.eqb_spec gn g); cbn; [|apply Hsame; auto].
  destruct (Nat.eqb_spec r 0); cbn; [|apply Hsame; auto].
  destruct fl; cbn; [|apply Hsame; auto].
  unfold tok; cbn. repeat split; try discriminate.
  - intros g0 Hg. apply In_remove1_nat in Hg. auto.
  - intros Hin. apply In_remove1_nat in Hin. auto.
Qed.

Lemma tok_openfail : forall c p n x la il,
  tok c p n x -> tok c p n (mkF None (frefs x) (fgen x) None (fcbs x) false la il (fidle x)).
Proof.
  intros c p n x la il (A & B & C & D & E). unfold tok; cbn. repeat split; auto; try discriminate.
Qed.

Definition InvT (c : cfg) (s : st) : Prop :=
  (forall f, tok c (epooled c f) (now s) (files s f)) /\
  (forall f, frefs (files s f) <> 0 -> ftimer (files s f) = None).

Lemma invT_init : forall c, InvT c init.
Proof.
  intros c. split; cbn; auto. intros f. unfold tok; cbn. repeat split; try tauto; try discriminate; try lia.
Qed.


Lemma release_timer_none : forall p gr n x, (frefs x <> 0 -> ftimer x = None) ->
  frefs (release p gr n x) <> 0 -> ftimer (release p gr n x) = None.
Proof.
  intros p gr n x H. unfold release. destruct (Nat.eqb_spec (frefs x) 0); auto.
  specialize (H n0).
  destruct (Nat.eqb_spec (pred (frefs x)) 0); cbn; auto.
  destruct (fclosed x); cbn; auto. destruct (ffile x); cbn; auto. destruct (flatch x); cbn; auto.
  destruct p; cbn; auto. congruence.
Qed.

Lemma release_now_timer_none : forall x, (frefs x <> 0 -> ftimer x = None) ->
  frefs (release_now x) <> 0 -> ftimer (release_now x) = None.
Proof.
  intros x H. unfold release_now. destruct (fclosed x); auto.
  destruct (Nat.eqb (frefs x) 0); reflexivity.
Qed.

Lemma timer_body_timer_none : forall g x, (frefs x <> 0 -> ftimer x = None) ->
  frefs (timer_body g x) <> 0 -> ftimer (timer_body g x) = None.
Proof.
  intros g x H. unfold timer_body.
  destruct (fclosed x || negb (Nat.eqb (fgen x) g) || negb (Nat.eqb (frefs x) 0) || match ffile x with None => true | Some _ => false end); auto.
Qed.

Lemma invT_step : forall c s l s', InvT c s -> step c s l = Some s' -> InvT c s'.
Proof.
  intros c s l s' [T N] H. destruct l; unfold step in H.
  - (* LAcquire *)
    destruct (is_idle (pcs s t)); cbn in H; [|discriminate].
    destruct (fclosed (files s f)) eqn:Hc; [inversion H; subst; split; auto|].
    destruct (ffile (files s f)) eqn:Hf; [|destruct openok];
      try (destruct (epooled c f) eqn:He); inversion H; subst; clear H; split; cbn; intros g; fcase g f; cbn; auto;
      try (apply tok_bump_none; auto); try (apply tok_openfail; auto).
  - (* LTouch *)
    destruct (pcs s t); try discriminate.
    destruct (finlru (files s f)); [inversion H; subst; split; auto|].
    destruct (Nat.ltb (cap c) (S (List.length (lru s)))).
    + destruct (memb v (lru s) && negb (Nat.eqb v f)); inversion H; subst; clear H.
      split; cbn; intros g; unfold upd; destruct (Nat.eqb_spec g v), (Nat.eqb_spec g f), (Nat.eqb_spec v f); subst; cbn; auto;
        repeat apply tok_inlru; auto.
    + inversion H; subst; clear H. split; cbn; intros g; fcase g f; cbn; auto. apply tok_inlru; auto.
  - (* LEvict *)
    destruct (pcs s t); try discriminate. inversion H; subst; clear H.
    split; cbn; intros g; fcase g v; auto.
    + apply tok_release_now; auto.
    + apply release_now_timer_none; auto.
  - (* LRelock *)
    destruct (pcs s t); try discriminate. inversion H; subst; clear H. split; auto.
  - (* LRelease *)
    destruct (is_idle (pcs s t) && hmemb (t, f, h) (holds s)); inversion H; subst; clear H.
    split; cbn; intros g; fcase g f; auto.
    + apply tok_release; auto.
    + apply release_timer_none; auto.
  - (* LClose *)
    destruct (is_idle (pcs s t)); cbn in H; [|discriminate].
    destruct (fclosed (files s f)); [inversion H; subst; split; auto|].
    destruct (epooled c f) eqn:He; inversion H; subst; clear H; split; cbn; intros g; fcase g f; auto;
      try (rewrite He; apply tok_close; rewrite <- He; auto).
  - (* LForget *)
    destruct (pcs s t); try discriminate.
    destruct (finlru (files s f)); inversion H; subst; clear H; [|split; auto].
    split; cbn; intros g; fcase g f; cbn; auto. apply tok_inlru; auto.
  - (* LReleaseNow *)
    destruct (is_idle (pcs s t)); inversion H; subst; clear H.
    split; cbn; intros g; fcase g f; auto.
    + apply tok_release_now; auto.
    + apply release_now_timer_none; auto.
  - (* LTick *)
    inversion H; subst; clear H. split; cbn; auto. intros f. eapply tok_now; [|apply T]. lia.
  - (* LTimerStart *)
    destruct (ftimer (files s f)) as [[g dl]|] eqn:Et; [|discriminate].
    destruct (Nat.leb_spec dl (now s)); inversion H; subst; clear H.
    split; cbn; intros g0; fcase g0 f; cbn; auto.
    eapply tok_timer_start; eauto.
  - (* LTimerRun *)
    destruct (memb g (fcbs (files s f))); inversion H; subst; clear H.
    split; cbn; intros g0; fcase g0 f; auto.
    + apply tok_timer_run; auto.
    + apply timer_body_timer_none. cbn. auto.
Qed.

Lemma invT_run : forall c ls s s', InvT c s -> run c s ls = Some s' -> InvT c s'.
Proof.
  induction ls as [|l ls IH]; cbn; intros s s' I H; [inversion H; subst; auto|].
  destruct (step c s l) eqn:E; [|discriminate]. eapply IH; [eapply invT_step; eauto | eauto].
Qed.

Lemma invT_reachable : forall c s, reachable c s -> InvT c s.
Proof. intros c s [ls H]. eapply invT_run; [apply invT_init | eauto]. Qed.

(* ---- reachability is closed under steps; the command interpreter only steps -- *)

Lemma run_app : forall c l1 l2 s s1, run c s l1 = Some s1 -> run c s (l1 ++ l2) = run c s1 l2.
Proof.
  induction l1 as [|l l1 IH]; cbn; intros l2 s s1 H; [inversion H; auto|].
  destruct (step c s l); [eauto|discriminate].
Qed.

Lemma reachable_step : forall c s l s', reachable c s -> step c s l = Some s' -> reachable c s'.
Proof.
  intros c s l s' [ls H] Hs. exists (ls ++ [l]). rewrite (run_app c ls [l] init s H). cbn. now rewrite Hs.
Qed.

Lemma reachable_run : forall c ls s s', reachable c s -> run c s ls = Some s' -> reachable c s'.
Proof.
  induction ls as [|l ls IH]; cbn; intros s s' R H; [inversion H; subst; auto|].
  destruct (step c s l) eqn:E; [|discriminate]. eapply IH; [eapply reachable_step; eauto|eauto].
Qed.

Lemma reachable_init : forall c, reachable c init.
Proof. intros c. exists []. reflexivity. Qed.

Lemma start_due_reachable : forall c fs s, reachable c s -> reachable c (start_due c s fs).
Proof.
  induction fs as [|f fs IH]; cbn [start_due]; intros s R; auto.
  destruct (step c s (LTimerStart f)) eqn:E; [apply IH; eapply reachable_step; eauto | auto].
Qed.

Lemma exec1_reachable : forall c nf s k, reachable c s -> reachable c (fst (exec1 c nf s k)).
Proof.
  intros c nf s k R. unfold exec1. destruct (label_of c s k) as [l|]; [|exact R].
  destruct (step c s l) eqn:E; [|exact R]. cbn [fst].
  pose proof (reachable_step c s l s0 R E) as R'.
  destruct k; auto. now apply start_due_reachable.
Qed.

Lemma exec_reachable : forall c nf ks s, reachable c s -> reachable c (fst (exec c nf s ks)).
Proof.
  induction ks as [|k ks IH]; cbn; intros s R; auto.
  pose proof (exec1_reachable c nf s k R) as R1. destruct (exec1 c nf s k) as [s1 o]. cbn in R1.
  specialize (IH s1 R1). destruct (exec c nf s1 ks) as [s2 os]. exact IH.
Qed.

(* ---- Close is final ----------------------------------------------------------- *)

Lemma release_now_closed : forall x, fclosed x = true -> fclosed (release_now x) = true.
Proof. intros x H. unfold release_now. now rewrite H. Qed.

Lemma release_closed : forall p g n x, fclosed x = true -> fclosed (release p g n x) = true.
Proof.
  intros p g n x H. unfold release. destruct (Nat.eqb (frefs x) 0); auto. rewrite H. cbn.
  rewrite orb_true_r. cbn. auto.
Qed.

Lemma timer_body_closed : forall g x, fclosed x = true -> fclosed (timer_body g x) = true.
Proof. intros g x H. unfold timer_body. rewrite H. cbn. auto. Qed.

Lemma closed_step : forall c s l s' g, step c s l = Some s' ->
  fclosed (files s g) = true -> fclosed (files s' g) = true.
Proof.
  intros c s l s' g H Hc. destruct l; unfold step in H.
  - destruct (is_idle (pcs s t)); cbn in H; [|discriminate].
    destruct (fclosed (files s f)) eqn:Hf; [inversion H; subst; auto|].
    destruct (ffile (files s f)); [|destruct openok]; try destruct (epooled c f); inversion H; subst; clear H; cbn;
      unfold upd; destruct (Nat.eqb_spec g f); subst; auto; congruence.
  - destruct (pcs s t); try discriminate.
    destruct (finlru (files s f)); [inversion H; subst; auto|].
    destruct (Nat.ltb (cap c) (S (List.length (lru s)))).
    + destruct (memb v (lru s) && negb (Nat.eqb v f)); inversion H; subst; clear H. cbn. unfold upd.
      destruct (Nat.eqb_spec g v), (Nat.eqb_spec g f), (Nat.eqb_spec v f); subst; cbn; auto.
    + inversion H; subst; clear H. cbn. unfold upd. destruct (Nat.eqb_spec g f); subst; cbn; auto.
  - destruct (pcs s t); try discriminate. inversion H; subst; clear H. cbn. unfold upd.
    destruct (Nat.eqb_spec g v); subst; auto. now apply release_now_closed.
  - destruct (pcs s t); try discriminate. inversion H; subst; auto.
  - destruct (is_idle (pcs s t) && hmemb (t, f, h) (holds s)); inversion H; subst; clear H. cbn. unfold upd.
    destruct (Nat.eqb_spec g f); subst; auto. now apply release_closed.
  - destruct (is_idle (pcs s t)); cbn in H; [|discriminate].
    destruct (fclosed (files s f)); [inversion H; subst; auto|].
    destruct (epooled c f); inversion H; subst; clear H; cbn; unfold upd; destruct (Nat.eqb_spec g f); subst; auto.
  - destruct (pcs s t); try discriminate.
    destruct (finlru (files s f)); inversion H; subst; clear H; auto. cbn. unfold upd.
    destruct (Nat.eqb_spec g f); subst; auto.
  - destruct (is_idle (pcs s t)); inversion H; subst; clear H. cbn. unfold upd.
    destruct (Nat.eqb_spec g f); subst; auto. now apply release_now_closed.
  - inversion H; subst; auto.
  - destruct (ftimer (files s f)) as [[g0 dl]|]; [|discriminate].
    destruct (Nat.leb dl (now s)); inversion H; subst; clear H. cbn. unfold upd.
    destruct (Nat.eqb_spec g f); subst; auto.
  - destruct (memb g0 (fcbs (files s f))); inversion H; subst; clear H. cbn. unfold upd.
    destruct (Nat.eqb_spec g f); subst; auto. now apply timer_body_closed.
Qed.

Lemma closed_run : forall c ls s s' g, run c s ls = Some s' ->
  fclosed (files s g) = true -> fclosed (files s' g) = true.
Proof.
  induction ls as [|l ls IH]; cbn; intros s s' g H Hc; [inversion H; subst; auto|].
  destruct (step c s l) eqn:E; [|discriminate]. eapply IH; eauto. eapply closed_step; eauto.
Qed.

Lemma acquire_closed : forall c s t f ok s', fclosed (files s f) = true ->
  step c s (LAcquire t f ok) = Some s' -> s' = s.
Proof.
  intros c s t f ok s' Hc H. unfold step in H. destruct (is_idle (pcs s t)); cbn in H; [|discriminate].
  rewrite Hc in H. now inversion H.
Qed.

(* ---- idle descriptors ----------------------------------------------------------- *)

Lemma idle_armed : forall c s f, reachable c s -> epooled c f = false ->
  frefs (files s f) = 0 -> is_open (files s f) = true -> fclosed (files s f) = false ->
  ftimer (files s f) = Some (fgen (files s f), fidle (files s f) + grace c) \/ In (fgen (files s f)) (fcbs (files s f)).
Proof.
  intros c s f R Hp Hr Ho Hc. destruct (invT_reachable c s R) as [T _].
  destruct (T f) as (_ & _ & C & _). rewrite Hp in C. auto.
Qed.

Lemma timer_run_closes : forall c s f, In (fgen (files s f)) (fcbs (files s f)) ->
  frefs (files s f) = 0 -> fclosed (files s f) = false ->
  exists s', step c s (LTimerRun f (fgen (files s f))) = Some s' /\ ffile (files s' f) = None.
Proof.
  intros c s f Hin Hr Hc. unfold step. apply memb_In in Hin. rewrite Hin. eexists. split; [reflexivity|].
  cbn. rewrite upd_same. unfold timer_body. cbn. rewrite Hc, Hr, Nat.eqb_refl. cbn.
  destruct (ffile (files s f)); reflexivity.
Qed.

Lemma idle_closes : forall c s f, reachable c s -> epooled c f = false ->
  frefs (files s f) = 0 -> is_open (files s f) = true -> fclosed (files s f) = false ->
  exists ls s', run c s ls = Some s' /\ ffile (files s' f) = None.
Proof.
  intros c s f R Hp Hr Ho Hc. destruct (idle_armed c s f R Hp Hr Ho Hc) as [Ht|Hin].
  - set (x := files s f) in *. set (g := fgen x) in *. set (dl := fidle x + grace c) in *.
    set (s1 := set_now s (now s + dl)).
    set (s2 := setf s1 f (mkF (ffile x) (frefs x) (fgen x) None (fcbs x ++ [g]) (fclosed x) (flatch x) (finlru x) (fidle x))).
    assert (E1 : step c s (LTick dl) = Some s1) by reflexivity.
    assert (E2 : step c s1 (LTimerStart f) = Some s2).
    { unfold step. subst s1. cbn [files set_now now]. fold x. rewrite Ht.
      destruct (Nat.leb_spec dl (now s + dl)); [reflexivity|lia]. }
    assert (F2 : files s2 f = mkF (ffile x) (frefs x) (fgen x) None (fcbs x ++ [g]) (fclosed x) (flatch x) (finlru x) (fidle x)).
    { subst s2. cbn. now rewrite upd_same. }
    destruct (timer_run_closes c s2 f) as [s' [Hs Hf]].
    + rewrite F2. cbn. apply in_or_app. right. now left.
    + rewrite F2. cbn. exact Hr.
    + rewrite F2. cbn. exact Hc.
    + exists [LTick dl; LTimerStart f; LTimerRun f g], s'. cbn [run]. rewrite E1, E2.
      rewrite F2 in Hs. cbn [fgen] in Hs. fold g in Hs. rewrite Hs. auto.
  - destruct (timer_run_closes c s f Hin Hr Hc) as [s' [Hs Hf]].
    exists [LTimerRun f (fgen (files s f))], s'. cbn [run]. rewrite Hs. auto.
Qed.

Lemma grace_respected : forall c s f g s', reachable c s -> step c s (LTimerRun f g) = Some s' ->
  is_open (files s f) = true -> is_open (files s' f) = false ->
  fidle (files s f) + grace c <= now s.
Proof.
  intros c s f g s' R H Ho Ho'. destruct (invT_reachable c s R) as [T _].
  destruct (T f) as (_ & _ & _ & _ & E). unfold step in H.
  destruct (memb g (fcbs (files s f))) eqn:Hm; inversion H; subst; clear H.
  apply memb_In in Hm. cbn in Ho'. rewrite upd_same in Ho'. unfold timer_body in Ho'. cbn in Ho'.
  unfold is_open in Ho, Ho'.
  destruct (fclosed (files s f)); cbn in Ho'; [congruence|].
  destruct (Nat.eqb_spec (fgen (files s f)) g); cbn in Ho'; [|congruence].
  subst g. auto.
Qed.

Lemma idle_pooled_registered : forall c s f, reachable c s -> epooled c f = true ->
  frefs (files s f) = 0 -> is_open (files s f) = true ->
  In f (lru s) \/ In f (inflight s).
Proof.
  intros c s f R Hp Hr Ho. pose proof (inv_reachable c s R) as I.
  destruct (i_open c s I f Hp Ho) as [?|[?|[[_ H]|[t H]]]]; auto; exfalso.
  - auto.
  - destruct (i_pchold c s I t f H) as [h Hh]. rewrite (i_refs c s I f) in Hr.
    eapply hcount_pos_of_In; eauto.
Qed.

Lemma release_now_closes : forall c s t f, reachable c s -> pcs s t = PIdle -> frefs (files s f) = 0 ->
  exists s', step c s (LReleaseNow t f) = Some s' /\ is_open (files s' f) = false.
Proof.
  intros c s t f R Hi Hr. unfold step. rewrite Hi. cbn [is_idle]. eexists. split; [reflexivity|].
  cbn. rewrite upd_same. unfold release_now, is_open.
  destruct (fclosed (files s f)) eqn:Hc.
  - now rewrite (i_closed c s (inv_reachable c s R) f Hc).
  - rewrite Hr. reflexivity.
Qed.

(* ---- the transient overshoot, under the Go victim policy ------------------------ *)

Definition overshoot_cfg : cfg := c24_cfg 1 10 [true; true; true].
Definition overshoot_cmds : list cmd :=
  [CAcquire 1 0 false; CStep 1; CAcquire 2 1 false; CAcquire 3 1 false; CStep 2; CRelease 1 0;
   CAcquire 0 2 false; CStep 0; CStep 0; CStep 3; CStep 0; CRelease 0 2].
Definition overshoot_state : st := fst (exec overshoot_cfg 3 init overshoot_cmds).

Lemma overshoot_reachable : reachable overshoot_cfg overshoot_state.
Proof. apply exec_reachable. apply reachable_init. Qed.

Lemma overshoot_counts :
  count is_open overshoot_state [0; 1; 2] = 3 /\ count is_pinned overshoot_state [0; 1; 2] = 1
  /\ cap overshoot_cfg = 1 /\ List.length (inflight overshoot_state) = 2.
Proof. vm_compute. repeat split. Qed.
