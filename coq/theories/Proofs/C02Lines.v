(* Proofs/C02Lines.v — line-level facts used by the commit/tag round-trip
   proofs: splitting a concatenation of complete lines, header-key cutting,
   hex ids, values spread over continuation lines. *)
From Coq Require Import List NArith ZArith Bool Lia ZifyBool ZifyNat ZifyN.
From GoGit Require Import Base.Out Model.ObjLines Model.Ident Model.Commit Spec.ObjWf
     Proofs.ObjLinesFacts Proofs.C02Dec Proofs.C02Ident Proofs.C03CommitSig.
Import ListNotations.
Local Open Scope N_scope.

(* ---- complete lines ---- *)
Definition cline (l : bytes) : Prop := exists p, no_lf p = true /\ l = p ++ [LF].

Lemma cline_mk p : no_lf p = true -> cline (p ++ [LF]).
Proof. intros H. now exists p. Qed.

Lemma cline_ends l : cline l -> ends_nl l = true.
Proof. intros [p [_ ->]]. apply ends_nl_app_lf. Qed.

Lemma split_lines_clines ls : Forall cline ls -> forall tl, split_lines (List.concat ls ++ tl) = ls ++ split_lines tl.
Proof.
  induction 1 as [|l ls [p [Hp ->]] _ IH]; intros tl; [reflexivity|].
  cbn [List.concat]. rewrite <- !app_assoc. cbn [app].
  rewrite (split_lines_line _ _ Hp), IH. reflexivity.
Qed.

Fixpoint all_but_last_nl (ls : list bytes) : bool :=
  match ls with
  | [] => true
  | [_] => true
  | l :: r => ends_nl l && all_but_last_nl r
  end.

Lemma ends_nl_cons c l : l <> [] -> ends_nl (c :: l) = ends_nl l.
Proof. destruct l; [contradiction|reflexivity]. Qed.

Lemma split_lines_abl b : all_but_last_nl (split_lines b) = true.
Proof.
  induction b as [|c r IH]; [reflexivity|]. cbn [split_lines].
  pose proof (split_lines_ok r) as Hok.
  destruct (c =? LF) eqn:E.
  - destruct (split_lines r) as [|l ls]; [reflexivity|].
    change (all_but_last_nl ([c] :: l :: ls)) with (ends_nl [c] && all_but_last_nl (l :: ls)).
    rewrite IH. cbn. now rewrite E.
  - destruct (split_lines r) as [|l ls]; [reflexivity|].
    destruct ls as [|l2 ls]; [reflexivity|].
    change (all_but_last_nl ((c :: l) :: l2 :: ls)) with (ends_nl (c :: l) && all_but_last_nl (l2 :: ls)).
    change (all_but_last_nl (l :: l2 :: ls)) with (ends_nl l && all_but_last_nl (l2 :: ls)) in IH.
    inversion Hok as [|? ? [Hne _] _]; subst. now rewrite (ends_nl_cons _ _ Hne).
Qed.

(* scanMessage: the rest of the lines is the message *)
Lemma crun_message ls : all_but_last_nl ls = true -> forall c se,
  crun SMessage c se ls = Ok (set_msg c (c_msg c ++ List.concat ls)).
Proof.
  induction ls as [|l r IH]; intros Habl c se.
  - cbn [crun cfinish List.concat]. rewrite app_nil_r. now destruct c.
  - cbn [crun cstep List.concat]. destruct r as [|l2 r].
    + cbn [List.concat]. rewrite app_nil_r. destruct (negb (ends_nl l)); cbn [crun cfinish]; reflexivity.
    + change (all_but_last_nl (l :: l2 :: r)) with (ends_nl l && all_but_last_nl (l2 :: r)) in Habl.
      apply andb_true_iff in Habl as [H1 H2]. rewrite H1. cbn [negb].
      rewrite (IH H2). destruct c as [t0 ps a0 cm0 e0 x0 s0 s1 m0]. unfold set_msg.
      cbn [c_tree c_parents c_author c_committer c_enc c_extra c_sig c_sig256 c_msg]. now rewrite <- app_assoc.
Qed.

(* ---- cutting a header line ---- *)
Lemma cut_at_first c k v : has_byte c k = false -> cut_at c (k ++ c :: v) = (k, v, true).
Proof.
  induction k as [|x k IH]; cbn [app cut_at]; intros H.
  - now rewrite N.eqb_refl.
  - rewrite has_byte_cons in H. apply orb_false_iff in H as [H1 H2]. rewrite N.eqb_sym in H1.
    now rewrite H1, (IH H2).
Qed.

Lemma cut_at_none c k : has_byte c k = false -> cut_at c k = (k, [], false).
Proof.
  induction k as [|x k IH]; cbn [cut_at]; intros H; [reflexivity|].
  rewrite has_byte_cons in H. apply orb_false_iff in H as [H1 H2]. rewrite N.eqb_sym in H1.
  now rewrite H1, (IH H2).
Qed.

Lemma no_lf_has b : no_lf b = negb (has_byte LF b).
Proof.
  induction b as [|x b IH]; [reflexivity|]. rewrite no_lf_cons, IH, has_byte_cons, (N.eqb_sym x LF).
  destruct (LF =? x), (has_byte LF b); reflexivity.
Qed.

Lemma split_header_kv k v : no_lf k = true -> has_byte SPC k = false -> no_lf v = true ->
  split_header (k ++ SPC :: v ++ [LF]) = (k, v).
Proof.
  intros Hk Hs Hv. unfold split_header.
  replace (k ++ SPC :: v ++ [LF]) with ((k ++ SPC :: v) ++ [LF]) by (now rewrite <- app_assoc).
  rewrite trim_right_app_lf.
  - now rewrite (cut_at_first _ _ _ Hs).
  - rewrite no_lf_app, Hk. rewrite no_lf_cons, Hv. reflexivity.
Qed.

Lemma split_header_k k : no_lf k = true -> has_byte SPC k = false -> split_header (k ++ [LF]) = (k, []).
Proof. intros Hk Hs. unfold split_header. rewrite (trim_right_app_lf _ Hk). now rewrite (cut_at_none _ _ Hs). Qed.

Lemma trim_right_nolf k : no_lf k = true -> trim_right LF k = k.
Proof.
  intros H. apply trim_right_id. unfold last_is.
  assert (Hr : no_lf (rev k) = true) by (unfold no_lf in *; rewrite forallb_forall in *; intros x Hx; apply H, in_rev, Hx).
  destruct (rev k) as [|x r]; [reflexivity|]. rewrite no_lf_cons in Hr. apply andb_true_iff in Hr as [Hr _].
  cbn. now apply negb_true_iff in Hr.
Qed.

Lemma parse_extra_header_kv k v : no_lf k = true -> has_byte SPC k = false ->
  parse_extra_header (k ++ SPC :: v) = (k, v, true).
Proof. intros Hk Hs. unfold parse_extra_header. now rewrite (cut_at_first _ _ _ Hs), (trim_right_nolf _ Hk). Qed.

Lemma parse_extra_header_k k : no_lf k = true -> has_byte SPC k = false ->
  parse_extra_header (k ++ [LF]) = (k, [], false).
Proof.
  intros Hk Hs. unfold parse_extra_header.
  assert (H : has_byte SPC (k ++ [LF]) = false) by (rewrite has_byte_app, Hs; reflexivity).
  now rewrite (cut_at_none _ _ H), (trim_right_app_lf _ Hk).
Qed.

(* ---- hex ids ---- *)
Lemma hexv_hexdig d : d < 16 -> hexv (hexdig d) = Some d.
Proof.
  intros H. unfold hexdig, hexv. destruct (d <? 10) eqn:E.
  - replace ((48 <=? 48 + d) && (48 + d <=? 57)) with true by lia. f_equal. lia.
  - replace ((48 <=? 87 + d) && (87 + d <=? 57)) with false by lia.
    replace ((97 <=? 87 + d) && (87 + d <=? 102)) with true by lia. f_equal. lia.
Qed.

Lemma hex_decode_encode h : bytes_ok h = true -> hex_decode (hex_encode h) = Some h.
Proof.
  induction h as [|c h IH]; [reflexivity|]. cbn [bytes_ok forallb]. intros H. apply andb_true_iff in H as [Hc Hh].
  change (hex_encode (c :: h)) with (hexdig (c / 16) :: hexdig (c mod 16) :: hex_encode h).
  cbn [hex_decode].
  assert (c / 16 < 16) by (apply N.div_lt_upper_bound; lia).
  pose proof (N.mod_lt c 16 ltac:(lia)).
  rewrite !hexv_hexdig by assumption. fold (bytes_ok h) in Hh. rewrite (IH Hh).
  pose proof (N.div_mod c 16 ltac:(lia)). f_equal. f_equal. lia.
Qed.

Lemma hex_encode_length h : List.length (hex_encode h) = (2 * List.length h)%nat.
Proof. induction h as [|c h IH]; [reflexivity|]. change (hex_encode (c :: h)) with (hexdig (c / 16) :: hexdig (c mod 16) :: hex_encode h). cbn [List.length]. lia. Qed.

Lemma parse_oid_hex h : oid_ok h = true -> parse_oid (hex_encode h) = Some h.
Proof.
  unfold oid_ok. intros H. apply andb_true_iff in H as [Hb Hl]. unfold parse_oid. rewrite hex_encode_length.
  apply orb_true_iff in Hl as [Hl|Hl]; apply Nat.eqb_eq in Hl; rewrite Hl; cbn [Nat.mul Nat.add Nat.eqb orb];
    now apply hex_decode_encode.
Qed.

Lemma hexdig_plain d : d < 16 -> (hexdig d =? LF) = false /\ (hexdig d =? SPC) = false.
Proof. unfold hexdig, LF, SPC. intros H. destruct (d <? 10); split; lia. Qed.

Lemma hex_encode_plain h : bytes_ok h = true -> no_lf (hex_encode h) = true /\ has_byte SPC (hex_encode h) = false.
Proof.
  induction h as [|c h IH]; [now split|]. cbn [bytes_ok forallb]. intros H. apply andb_true_iff in H as [Hc Hh].
  change (hex_encode (c :: h)) with (hexdig (c / 16) :: hexdig (c mod 16) :: hex_encode h).
  fold (bytes_ok h) in Hh. destruct (IH Hh) as [I1 I2].
  assert (A : c / 16 < 16) by (apply N.div_lt_upper_bound; lia).
  pose proof (N.mod_lt c 16 ltac:(lia)) as B.
  destruct (hexdig_plain _ A) as [A1 A2], (hexdig_plain _ B) as [B1 B2].
  rewrite !no_lf_cons, !has_byte_cons, A1, B1, I1, I2. rewrite (N.eqb_sym SPC), A2, (N.eqb_sym SPC), B2. now split.
Qed.
