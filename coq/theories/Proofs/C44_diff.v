(* Proofs/C44_diff.v — the merge walk of Model/DiffTree.v on name-sorted trees computes exactly the
   changes between the flattened trees (as sets), for all trees. *)
From Coq Require Import List NArith Bool Arith Lia.
From GoGit Require Import Base.Out Model.DiffTree Spec.MapDiff Proofs.C44_order.
Import ListNotations.

(* ---------- induction over nodes *)
Section node_induction.
  Variable P : node -> Prop.
  Hypothesis HF : forall l, P (File l).
  Hypothesis HD : forall cs, Forall (fun c => P (snd c)) cs -> P (Dir cs).
  Fixpoint node_ind' (x : node) : P x :=
    match x with
    | File l => HF l
    | Dir cs =>
      HD cs ((fix go (cs : list (name * node)) : Forall (fun c => P (snd c)) cs :=
                match cs with
                | [] => Forall_nil _
                | c :: r => Forall_cons c (node_ind' (snd c)) (go r)
                end) cs)
    end.
End node_induction.

(* ---------- flattening *)
Definition pren (n : name) (pl : path * leaf) : path * leaf := (n :: fst pl, snd pl).

Lemma files_dir cs : files (Dir cs) = files_l cs.
Proof.
  induction cs as [|[n c] r IH]; [reflexivity|].
  change (files (Dir ((n, c) :: r))) with (map (fun pl => (n :: fst pl, snd pl)) (files c) ++ files (Dir r)).
  rewrite IH. reflexivity.
Qed.

Lemma files_l_cons n x t : files_l ((n, x) :: t) = map (pren n) (files x) ++ files_l t.
Proof. reflexivity. Qed.

Lemma node_size_dir cs : node_size (Dir cs) = S (tree_size cs).
Proof.
  induction cs as [|[n c] r IH]; [reflexivity|].
  change (node_size (Dir ((n, c) :: r))) with (S (node_size c + pred (node_size (Dir r)))).
  rewrite IH. reflexivity.
Qed.

Lemma node_size_pos x : 0 < node_size x.
Proof. destruct x; [cbn; lia | rewrite node_size_dir; lia]. Qed.

Lemma tree_size_cons n x t : tree_size ((n, x) :: t) = node_size x + tree_size t.
Proof. reflexivity. Qed.

(* ---------- well-formed = children strictly sorted by name, recursively *)
Inductive wfn : node -> Prop :=
| wf_file l : wfn (File l)
| wf_dir cs : wft cs -> wfn (Dir cs)
with wft : tree -> Prop :=
| wft_nil : wft []
| wft_cons n x r : wfn x -> wft r -> (forall m, In m (map fst r) -> bytes_ltb n m = true) -> wft ((n, x) :: r).

Scheme wfn_mut := Induction for wfn Sort Prop
  with wft_mut := Induction for wft Sort Prop.

(* ---------- the specification as a predicate on changes *)
Notation haskey A p := (exists l, In (p, l) A).

Definition SpecF (A B : fmap) (c : mchange) : Prop :=
  match c with
  | MDel p l => In (p, l) A /\ ~ haskey B p
  | MIns p l => In (p, l) B /\ ~ haskey A p
  | MMod p a b => In (p, a) A /\ In (p, b) B /\ leaf_eqb a b = false
  end.

(* no path of A starts with n *)
Definition hd_ne (n : name) (A : fmap) : Prop := forall p l, In (p, l) A -> exists m q, p = m :: q /\ m <> n.

Lemma in_pren n X p l : In (p, l) (map (pren n) X) <-> exists q, p = n :: q /\ In (q, l) X.
Proof.
  rewrite in_map_iff. split.
  - intros ([q l'] & H & Hi). unfold pren in H; cbn in H. inversion H; subst. eauto.
  - intros (q & -> & Hi). exists (q, l). auto.
Qed.

Lemma SpecF_split n X Y A B c :
  hd_ne n A -> hd_ne n B ->
  SpecF (map (pren n) X ++ A) (map (pren n) Y ++ B) c <->
  (exists c', c = pre n c' /\ SpecF X Y c') \/ SpecF A B c.
Proof.
  intros HA HB.
  assert (KA : forall p l, In (p, l) A -> forall q, p <> n :: q).
  { intros p l Hi q ->. destruct (HA _ _ Hi) as (m & q' & He & Hn). inversion He; congruence. }
  assert (KB : forall p l, In (p, l) B -> forall q, p <> n :: q).
  { intros p l Hi q ->. destruct (HB _ _ Hi) as (m & q' & He & Hn). inversion He; congruence. }
  destruct c as [p l|p l|p a b]; cbn [SpecF].
  - (* MIns *)
    split.
    + intros [Hi Hk]. apply in_app_iff in Hi as [Hi|Hi].
      * apply in_pren in Hi as (q & -> & Hi). left. exists (MIns q l). split; [reflexivity|]. cbn. split; [exact Hi|].
        intros (l' & Hl). apply Hk. exists l'. apply in_app_iff. left. apply in_pren. eauto.
      * right. split; [exact Hi|]. intros (l' & Hl). apply Hk. exists l'. apply in_app_iff. now right.
    + intros [(c' & Hc & Hs)|[Hi Hk]].
      * destruct c' as [q l0|q l0|q a b]; cbn in Hc; inversion Hc; subst. cbn in Hs. destruct Hs as [Hi Hk].
        split; [apply in_app_iff; left; apply in_pren; eauto|].
        intros (l' & Hl). apply in_app_iff in Hl as [Hl|Hl].
        -- apply in_pren in Hl as (q' & He & Hl). inversion He; subst. apply Hk. eauto.
        -- exact (KA _ _ Hl q eq_refl).
      * split; [apply in_app_iff; now right|].
        intros (l' & Hl). apply in_app_iff in Hl as [Hl|Hl].
        -- apply in_pren in Hl as (q' & He & Hl). exact (KB _ _ Hi q' He).
        -- apply Hk. eauto.
  - (* MDel *)
    split.
    + intros [Hi Hk]. apply in_app_iff in Hi as [Hi|Hi].
      * apply in_pren in Hi as (q & -> & Hi). left. exists (MDel q l). split; [reflexivity|]. cbn. split; [exact Hi|].
        intros (l' & Hl). apply Hk. exists l'. apply in_app_iff. left. apply in_pren. eauto.
      * right. split; [exact Hi|]. intros (l' & Hl). apply Hk. exists l'. apply in_app_iff. now right.
    + intros [(c' & Hc & Hs)|[Hi Hk]].
      * destruct c' as [q l0|q l0|q a b]; cbn in Hc; inversion Hc; subst. cbn in Hs. destruct Hs as [Hi Hk].
        split; [apply in_app_iff; left; apply in_pren; eauto|].
        intros (l' & Hl). apply in_app_iff in Hl as [Hl|Hl].
        -- apply in_pren in Hl as (q' & He & Hl). inversion He; subst. apply Hk. eauto.
        -- exact (KB _ _ Hl q eq_refl).
      * split; [apply in_app_iff; now right|].
        intros (l' & Hl). apply in_app_iff in Hl as [Hl|Hl].
        -- apply in_pren in Hl as (q' & He & Hl). exact (KA _ _ Hi q' He).
        -- apply Hk. eauto.
  - (* MMod *)
    split.
    + intros (Ha & Hb & Hne). apply in_app_iff in Ha as [Ha|Ha]; apply in_app_iff in Hb as [Hb|Hb].
      * apply in_pren in Ha as (q & -> & Ha). apply in_pren in Hb as (q' & He & Hb). inversion He; subst.
        left. exists (MMod q' a b). cbn. auto.
      * apply in_pren in Ha as (q & -> & Ha). exfalso. exact (KB _ _ Hb q eq_refl).
      * apply in_pren in Hb as (q & -> & Hb). exfalso. exact (KA _ _ Ha q eq_refl).
      * right. auto.
    + intros [(c' & Hc & Hs)|(Ha & Hb & Hne)].
      * destruct c' as [q l0|q l0|q a0 b0]; cbn in Hc; inversion Hc; subst. cbn in Hs. destruct Hs as (Ha & Hb & Hne).
        repeat split; auto; apply in_app_iff; left; apply in_pren; eauto.
      * repeat split; auto; apply in_app_iff; now right.
Qed.

Lemma SpecF_nil_r X c : SpecF X [] c <-> exists q l, c = MDel q l /\ In (q, l) X.
Proof.
  destruct c as [p l|p l|p a b]; cbn; split.
  - intros [[] _].
  - intros (q & l' & H & _). discriminate.
  - intros [Hi _]. eauto.
  - intros (q & l' & H & Hi). inversion H; subst. split; [exact Hi|]. intros (l0 & []).
  - intros (_ & [] & _).
  - intros (q & l' & H & _). discriminate.
Qed.

Lemma SpecF_nil_l Y c : SpecF [] Y c <-> exists q l, c = MIns q l /\ In (q, l) Y.
Proof.
  destruct c as [p l|p l|p a b]; cbn; split.
  - intros [Hi _]. eauto.
  - intros (q & l' & H & Hi). inversion H; subst. split; [exact Hi|]. intros (l0 & []).
  - intros [[] _].
  - intros (q & l' & H & _). discriminate.
  - intros ([] & _).
  - intros (q & l' & H & _). discriminate.
Qed.

Lemma in_del_all n x c : In c (del_all n x) <-> exists c', c = pre n c' /\ SpecF (files x) [] c'.
Proof.
  unfold del_all. rewrite in_map_iff. split.
  - intros ([q l] & <- & Hi). exists (MDel q l). split; [reflexivity|]. apply SpecF_nil_r. eauto.
  - intros (c' & -> & Hs). apply SpecF_nil_r in Hs as (q & l & -> & Hi). exists (q, l). auto.
Qed.

Lemma in_ins_all n x c : In c (ins_all n x) <-> exists c', c = pre n c' /\ SpecF [] (files x) c'.
Proof.
  unfold ins_all. rewrite in_map_iff. split.
  - intros ([q l] & <- & Hi). exists (MIns q l). split; [reflexivity|]. apply SpecF_nil_l. eauto.
  - intros (c' & -> & Hs). apply SpecF_nil_l in Hs as (q & l & -> & Hi). exists (q, l). auto.
Qed.

(* ---------- paths of a flattened tree start with one of its names *)
Lemma files_l_head t p l : In (p, l) (files_l t) -> exists n q, p = n :: q /\ In n (map fst t).
Proof.
  induction t as [|[n x] t IH]; [intros []|].
  rewrite files_l_cons, in_app_iff. intros [H|H].
  - apply in_pren in H as (q & -> & _). exists n, q. cbn. auto.
  - destruct (IH H) as (m & q & -> & Hm). exists m, q. cbn. auto.
Qed.

Lemma hd_ne_files_l n t : (forall m, In m (map fst t) -> m <> n) -> hd_ne n (files_l t).
Proof. intros H p l Hi. destruct (files_l_head _ _ _ Hi) as (m & q & -> & Hm). exists m, q. auto. Qed.

Lemma ltb_neq a b : bytes_ltb a b = true -> b <> a.
Proof. intros H ->. rewrite bytes_ltb_irrefl in H. discriminate. Qed.

(* ---------- keys of a well-formed flattening are unique; a directory's paths are non-empty *)
Lemma files_keys_unique :
  (forall x, wfn x -> forall p a b, In (p, a) (files x) -> In (p, b) (files x) -> a = b) /\
  (forall t, wft t -> forall p a b, In (p, a) (files_l t) -> In (p, b) (files_l t) -> a = b).
Proof.
  assert (H : forall x (w : wfn x), forall p a b, In (p, a) (files x) -> In (p, b) (files x) -> a = b).
  { apply (wfn_mut (fun x _ => forall p a b, In (p, a) (files x) -> In (p, b) (files x) -> a = b)
                   (fun t _ => forall p a b, In (p, a) (files_l t) -> In (p, b) (files_l t) -> a = b)).
    - intros l p a b [Ha|[]] [Hb|[]]. congruence.
    - intros cs _ IH p a b. rewrite files_dir. apply IH.
    - intros p a b [].
    - intros n x r _ IHx _ IHr Hlt p a b. rewrite files_l_cons, !in_app_iff.
      assert (Hne : hd_ne n (files_l r)).
      { apply hd_ne_files_l. intros m Hm. apply ltb_neq. auto. }
      intros [Ha|Ha] [Hb|Hb].
      + apply in_pren in Ha as (q & -> & Ha). apply in_pren in Hb as (q' & He & Hb). inversion He; subst. eauto.
      + apply in_pren in Ha as (q & -> & Ha). destruct (Hne _ _ Hb) as (m & q' & He & Hn). inversion He; congruence.
      + apply in_pren in Hb as (q & -> & Hb). destruct (Hne _ _ Ha) as (m & q' & He & Hn). inversion He; congruence.
      + eauto. }
  split; [intros x w; exact (H x w)|].
  intros t w p a b. specialize (H (Dir t) (wf_dir t w) p a b). now rewrite files_dir in H.
Qed.

Lemma dir_paths_nonempty cs l : ~ In ([], l) (files (Dir cs)).
Proof. rewrite files_dir. intros H. destruct (files_l_head _ _ _ H) as (n & q & He & _). discriminate. Qed.

(* ---------- hash equality *)
Lemma leaf_raw_eqb_eq a b : leaf_raw_eqb a b = true -> a = b.
Proof.
  destruct a as [m1 h1], b as [m2 h2]. unfold leaf_raw_eqb; cbn. intros H.
  apply andb_true_iff in H as [H1 H2]. apply N.eqb_eq in H1. apply bytes_eqb_eq in H2. congruence.
Qed.

Lemma leaf_eqb_refl a : leaf_eqb a a = true.
Proof. unfold leaf_eqb. now rewrite N.eqb_refl, bytes_eqb_refl. Qed.

Lemma node_eqb_eq x : forall y, node_eqb x y = true -> x = y.
Proof.
  induction x as [l|cs IH] using node_ind'; intros [l2|cs2]; try (cbn; discriminate).
  - cbn. intros H. apply leaf_raw_eqb_eq in H. congruence.
  - revert cs2. induction IH as [|[n1 x1] r Hx _ IHr]; intros [|[n2 y1] r2]; try (cbn; discriminate); [reflexivity|].
    intros H.
    change (node_eqb (Dir ((n1, x1) :: r)) (Dir ((n2, y1) :: r2)))
      with (bytes_eqb n1 n2 && node_eqb x1 y1 && node_eqb (Dir r) (Dir r2)) in H.
    apply andb_true_iff in H as [H H3]. apply andb_true_iff in H as [H1 H2].
    apply bytes_eqb_eq in H1. cbn in Hx. apply Hx in H2. apply IHr in H3. congruence.
Qed.

Lemma SpecF_same F c : (forall p a b, In (p, a) F -> In (p, b) F -> a = b) -> ~ SpecF F F c.
Proof.
  intros U. destruct c as [p l|p l|p a b]; cbn.
  - intros [Hi Hk]. apply Hk. now exists l.
  - intros [Hi Hk]. apply Hk. now exists l.
  - intros (Ha & Hb & Hne). rewrite (U _ _ _ Ha Hb), leaf_eqb_refl in Hne. discriminate.
Qed.

(* ---------- main lemma: the merge walk *)
Definition Spec (xs ys : tree) (c : mchange) : Prop := SpecF (files_l xs) (files_l ys) c.

Lemma pre_in_map n cs c : In c (map (pre n) cs) <-> exists c', c = pre n c' /\ In c' cs.
Proof. rewrite in_map_iff. split; intros (c' & H1 & H2); exists c'; auto. Qed.

Lemma diffl_spec : forall fuel xs ys,
  wft xs -> wft ys -> tree_size xs + tree_size ys < fuel ->
  exists cs, diffl fuel xs ys = Some cs /\ forall c, In c cs <-> Spec xs ys c.
Proof.
  induction fuel as [|f IH]; intros xs ys Wx Wy Hsz; [lia|].
  destruct xs as [|[n1 x] xs']; destruct ys as [|[n2 y] ys'].
  - exists []. split; [reflexivity|]. intros c. unfold Spec; cbn. split; [intros []|].
    destruct c; cbn; intros H; tauto.
  - (* only the second tree remains *)
    inversion Wy as [|? ? ? Wyn Wyr Hlt]; subst.
    rewrite tree_size_cons in Hsz. pose proof (node_size_pos y).
    destruct (IH [] ys' Wx Wyr) as (cs & Hd & Hs); [cbn; lia|].
    exists (ins_all n2 y ++ cs). split; [cbn [diffl]; now rewrite Hd|].
    intros c. rewrite in_app_iff, in_ins_all, Hs. unfold Spec. rewrite files_l_cons.
    change (files_l []) with (map (pren n2) [] ++ @nil (path * leaf)).
    rewrite SpecF_split; [reflexivity| intros p l [] |].
    apply hd_ne_files_l. intros m Hm. apply ltb_neq. auto.
  - (* only the first tree remains *)
    inversion Wx as [|? ? ? Wxn Wxr Hlt]; subst.
    rewrite tree_size_cons in Hsz. pose proof (node_size_pos x).
    destruct (IH xs' [] Wxr Wy) as (cs & Hd & Hs); [cbn in *; lia|].
    exists (del_all n1 x ++ cs). split; [cbn [diffl]; now rewrite Hd|].
    intros c. rewrite in_app_iff, in_del_all, Hs. unfold Spec. rewrite files_l_cons.
    change (files_l []) with (map (pren n1) [] ++ @nil (path * leaf)).
    rewrite SpecF_split; [reflexivity| |intros p l []].
    apply hd_ne_files_l. intros m Hm. apply ltb_neq. auto.
  - inversion Wx as [|? ? ? Wxn Wxr Hltx]; subst. inversion Wy as [|? ? ? Wyn Wyr Hlty]; subst.
    rewrite !tree_size_cons in Hsz. pose proof (node_size_pos x). pose proof (node_size_pos y).
    cbn [diffl]. destruct (bytes_cmp n1 n2) eqn:Hcmp.
    + (* same name *)
      apply bytes_cmp_eq in Hcmp. subst n2.
      destruct (IH xs' ys' Wxr Wyr) as (cs & Hd & Hs); [lia|]. rewrite Hd.
      assert (Hhere : exists h,
        (if same_hash x y then Some []
         else match x, y with
              | File a, File b => Some [MMod [n1] a b]
              | Dir [], Dir _ => Some (ins_all n1 y)
              | Dir _, Dir [] => Some (del_all n1 x)
              | Dir c1, Dir c2 => option_map (map (pre n1)) (diffl f c1 c2)
              | _, _ => Some (del_all n1 x ++ ins_all n1 y)
              end) = Some h /\
        forall c, In c h <-> exists c', c = pre n1 c' /\ SpecF (files x) (files y) c').
      { destruct (same_hash x y) eqn:Hsh.
        - exists []. split; [reflexivity|]. intros c. split; [intros []|]. intros (c' & _ & Hs').
          exfalso. revert Hs'. destruct x as [a|c1], y as [b|c2]; unfold same_hash in Hsh; try discriminate.
          + destruct c' as [p l|p l|p a0 b0]; cbn.
            * intros [[He|[]] Hk]. inversion He; subst. apply Hk. exists a. now left.
            * intros [[He|[]] Hk]. inversion He; subst. apply Hk. exists b. now left.
            * intros ([He1|[]] & [He2|[]] & Hne). inversion He1; inversion He2; subst. congruence.
          + apply node_eqb_eq in Hsh. inversion Hsh; subst. apply SpecF_same.
            apply (proj1 files_keys_unique). exact Wxn.
        - destruct x as [a|c1], y as [b|c2].
          + exists [MMod [n1] a b]. split; [reflexivity|]. intros c. cbn [In]. split.
            * intros [<-|[]]. exists (MMod [] a b). split; [reflexivity|]. cbn.
              repeat split; auto.
            * intros (c' & -> & Hs'). left. destruct c' as [p l|p l|p a0 b0]; cbn in Hs'.
              -- destruct Hs' as [[He|[]] Hk]. inversion He; subst. exfalso. apply Hk. exists a. now left.
              -- destruct Hs' as [[He|[]] Hk]. inversion He; subst. exfalso. apply Hk. exists b. now left.
              -- destruct Hs' as ([He1|[]] & [He2|[]] & _). inversion He1; inversion He2; subst. reflexivity.
          + exists (del_all n1 (File a) ++ ins_all n1 (Dir c2)). split; [reflexivity|].
            intros c. rewrite in_app_iff, in_del_all, in_ins_all. split.
            * intros [(c' & -> & Hs')|(c' & -> & Hs')]; exists c'; (split; [reflexivity|]).
              -- apply SpecF_nil_r in Hs' as (q & l & -> & Hi). cbn. split; [exact Hi|].
                 destruct Hi as [He|[]]. inversion He; subst. intros (l' & Hl). exact (dir_paths_nonempty _ _ Hl).
              -- apply SpecF_nil_l in Hs' as (q & l & -> & Hi). cbn. split; [exact Hi|].
                 intros (l' & [He|[]]). inversion He; subst. exact (dir_paths_nonempty _ _ Hi).
            * intros (c' & -> & Hs'). destruct c' as [p l|p l|p a0 b0]; cbn in Hs'.
              -- right. exists (MIns p l). split; [reflexivity|]. apply SpecF_nil_l. exists p, l. split; [reflexivity|exact (proj1 Hs')].
              -- left. exists (MDel p l). split; [reflexivity|]. apply SpecF_nil_r. exists p, l. split; [reflexivity|exact (proj1 Hs')].
              -- destruct Hs' as ([He|[]] & Hb & _). inversion He; subst. exfalso. exact (dir_paths_nonempty _ _ Hb).
          + exists (del_all n1 (Dir c1) ++ ins_all n1 (File b)). split; [destruct c1; reflexivity|].
            intros c. rewrite in_app_iff, in_del_all, in_ins_all. split.
            * intros [(c' & -> & Hs')|(c' & -> & Hs')]; exists c'; (split; [reflexivity|]).
              -- apply SpecF_nil_r in Hs' as (q & l & -> & Hi). cbn. split; [exact Hi|].
                 intros (l' & [He|[]]). inversion He; subst. exact (dir_paths_nonempty _ _ Hi).
              -- apply SpecF_nil_l in Hs' as (q & l & -> & Hi). cbn. split; [exact Hi|].
                 destruct Hi as [He|[]]. inversion He; subst. intros (l' & Hl). exact (dir_paths_nonempty _ _ Hl).
            * intros (c' & -> & Hs'). destruct c' as [p l|p l|p a0 b0]; cbn in Hs'.
              -- right. exists (MIns p l). split; [reflexivity|]. apply SpecF_nil_l. exists p, l. split; [reflexivity|exact (proj1 Hs')].
              -- left. exists (MDel p l). split; [reflexivity|]. apply SpecF_nil_r. exists p, l. split; [reflexivity|exact (proj1 Hs')].
              -- destruct Hs' as (Ha & [He|[]] & _). inversion He; subst. exfalso. exact (dir_paths_nonempty _ _ Ha).
          + destruct c1 as [|k1 c1'].
            * exists (ins_all n1 (Dir c2)). split; [reflexivity|]. intros c. rewrite in_ins_all. reflexivity.
            * destruct c2 as [|k2 c2'].
              -- exists (del_all n1 (Dir (k1 :: c1'))). split; [reflexivity|]. intros c. rewrite in_del_all. reflexivity.
              -- inversion Wxn as [|? Wc1]; subst. inversion Wyn as [|? Wc2]; subst.
                 rewrite !node_size_dir in Hsz.
                 destruct (IH (k1 :: c1') (k2 :: c2') Wc1 Wc2) as (cs' & Hd' & Hs'); [lia|].
                 exists (map (pre n1) cs'). split; [now rewrite Hd'|].
                 intros c. rewrite pre_in_map. rewrite !files_dir.
                 split; intros (c' & Hc & Hin); exists c'; (split; [exact Hc|]); now apply Hs'. }
      destruct Hhere as (h & Hh & Hhs). rewrite Hh. cbn [option_map].
      exists (h ++ cs). split; [reflexivity|].
      intros c. rewrite in_app_iff, Hhs, Hs. unfold Spec. rewrite !files_l_cons.
      rewrite SpecF_split; [reflexivity| |]; apply hd_ne_files_l; intros m Hm; apply ltb_neq; auto.
    + (* n1 < n2: the first tree's entry is deleted *)
      assert (Hn2 : bytes_ltb n1 n2 = true) by now apply bytes_ltb_lt.
      destruct (IH xs' ((n2, y) :: ys') Wxr Wy) as (cs & Hd & Hs); [rewrite tree_size_cons; lia|]. rewrite Hd.
      exists (del_all n1 x ++ cs). split; [reflexivity|].
      intros c. rewrite in_app_iff, in_del_all, Hs. unfold Spec. rewrite (files_l_cons n1 x xs').
      change (files_l ((n2, y) :: ys')) with (map (pren n1) [] ++ files_l ((n2, y) :: ys')).
      rewrite SpecF_split; [reflexivity| |].
      * apply hd_ne_files_l. intros m Hm. apply ltb_neq. auto.
      * apply hd_ne_files_l. intros m [<-|Hm]; apply ltb_neq; [exact Hn2|].
        eapply bytes_ltb_trans; [exact Hn2|auto].
    + (* n1 > n2: the second tree's entry is inserted *)
      assert (Hn2 : bytes_ltb n2 n1 = true) by (apply bytes_ltb_lt; now apply bytes_cmp_gt_lt).
      destruct (IH ((n1, x) :: xs') ys' Wx Wyr) as (cs & Hd & Hs); [rewrite tree_size_cons; lia|]. rewrite Hd.
      exists (ins_all n2 y ++ cs). split; [reflexivity|].
      intros c. rewrite in_app_iff, in_ins_all, Hs. unfold Spec. rewrite (files_l_cons n2 y ys').
      change (files_l ((n1, x) :: xs')) with (map (pren n2) [] ++ files_l ((n1, x) :: xs')).
      rewrite SpecF_split; [reflexivity| |].
      * apply hd_ne_files_l. intros m [<-|Hm]; apply ltb_neq; [exact Hn2|].
        eapply bytes_ltb_trans; [exact Hn2|auto].
      * apply hd_ne_files_l. intros m Hm. apply ltb_neq. auto.
Qed.
