(* Proofs/C25.v — forced checkout and hard reset materialise the target commit. *)
From Coq Require Import List NArith ZArith Bool String.
From GoGit Require Import Base.Out Model.Porcelain Proofs.PorcelainMaps Proofs.Porcelain.
Import ListNotations.
Local Open Scope N_scope.

(* state s' has exactly commit c (tree t) checked out: HEAD resolves to c, the
   index is t, every path of t is on disk with t's kind and content *)
Definition materialised (s' : state) (c : Z) (t : fmap) : Prop :=
  head_commit s' = Some c /\
  agree (idx s') t /\
  (forall p e, lookup p t = Some e -> lookup p (wt s') = Some e).

(* git status would list no tracked change: index = HEAD tree, worktree = index on index paths *)
Definition tracked_clean (s' : state) : Prop :=
  exists c t, head_commit s' = Some c /\ tree_of s' c = Some t /\ agree (idx s') t /\
    forall p e, lookup p (idx s') = Some e -> lookup p (wt s') = Some e.

Lemma materialised_clean : forall s' c t, tree_of s' c = Some t -> materialised s' c t -> tracked_clean s'.
Proof.
  intros s' c t Ht (H1 & H2 & H3). exists c, t. repeat split; auto.
  intros p e Hp. rewrite (H2 p) in Hp. auto.
Qed.

Lemma not_in_tree_mem : forall (pv : fmap) p, lookup p pv = None -> mem p (keys pv) = false.
Proof. intros pv p H. apply mem_false. now apply lookup_none_not_in_keys. Qed.

Lemma reset_hard_materialises : forall commit s s',
  reset commit Hard None s = (None, s') ->
  exists c t, reset_target commit s = Some c /\ tree_of s' c = Some t /\ materialised s' c t /\
    (forall p, lookup p t = None -> lookup p (tree_or_empty (head_tree s)) = None ->
               lookup p (wt s') = lookup p (wt s)).
Proof.
  intros commit s s' H.
  destruct (reset_ok _ _ _ _ _ H ltac:(discriminate)) as (c & t & s1 & R1 & R2 & R3 & R4 & R5 & R6 & R7 & R8 & _).
  destruct (set_head_commit_ok _ _ _ R3) as (_ & _ & _ & S4).
  exists c, t. repeat split; auto.
  - now rewrite (tree_of_commits s' s _ R4).
  - unfold head_commit in *. now rewrite R5, R6.
  - intros p e Hp. rewrite R8. cbn [wt_after]. now rewrite Hp.
  - intros p Hp Hh. rewrite R8. cbn [wt_after]. rewrite Hp.
    unfold prev_of, prev_tree. now rewrite (not_in_tree_mem _ _ Hh).
Qed.

Lemma checkout_force_materialises : forall o s s',
  co_force o = true -> checkout o s = (None, s') ->
  exists c t, checkout_target o s = Some c /\ tree_of s' c = Some t /\ materialised s' c t /\
    (forall p, lookup p t = None -> lookup p (tree_or_empty (head_tree s)) = None ->
               lookup p (wt s') = lookup p (wt s)).
Proof.
  intros o s s' Hf H.
  assert (Hm : co_mode o = Hard) by (unfold co_mode; now rewrite Hf).
  destruct (checkout_ok _ _ _ H ltac:(rewrite Hm; discriminate))
    as (c & t & pv & K1 & K2 & K3 & K4 & K5 & K6 & K7 & _).
  rewrite Hm in K6.
  exists c, t. repeat split; auto.
  - now rewrite (tree_of_commits s' s _ K3).
  - intros p e Hp. rewrite K6. cbn [wt_after]. now rewrite Hp.
  - intros p Hp Hh. rewrite K6. cbn [wt_after]. rewrite Hp.
    destruct (K7 Hm) as [-> | ->]; now rewrite not_in_tree_mem.
Qed.

(* the faithful model refutes "untracked files outside the target survive":
   HEAD = commit 0 = {a, n}, target = commit 1 = {a}; n was dropped from the
   index only (git rm --cached) and is still on disk: Reset(Hard) deletes it *)
Definition b (s : string) : bytes := bytes_of_string s.
Definition w_tree0 : fmap := [(b "a", (KReg, b "A")); (b "n", (KReg, b "N"))].
Definition w_tree1 : fmap := [(b "a", (KReg, b "A"))].
Definition w_state : state :=
  mkState [w_tree0; w_tree1] [(master, 0%Z)] (HSym master) w_tree1 w_tree0 [].

Lemma hard_deletes_untracked :
  exists s', reset 1 Hard None w_state = (None, s') /\
    lookup (b "n") (idx w_state) = None /\           (* untracked *)
    lookup (b "n") w_tree1 = None /\                 (* not in the target *)
    lookup (b "n") (wt w_state) = Some (KReg, b "N") /\
    lookup (b "n") (wt s') = None.                   (* ... and gone *)
Proof. eexists. vm_compute. repeat split. Qed.

(* a second departure from git, in the other direction: a staged NEW file (in
   the index, in neither HEAD's tree nor the target) survives Reset(Hard) as an
   untracked file; git reset --hard deletes it *)
Definition w_state2 : state :=
  mkState [w_tree1; [(b "a", (KReg, b "A2"))]] [(master, 0%Z)] (HSym master)
          [(b "a", (KReg, b "A")); (b "s", (KReg, b "S"))] [(b "a", (KReg, b "A")); (b "s", (KReg, b "S"))] [].

Lemma hard_keeps_staged_new :
  exists s', reset 1 Hard None w_state2 = (None, s') /\
    lookup (b "s") (idx w_state2) = Some (KReg, b "S") /\
    lookup (b "s") (idx s') = None /\ lookup (b "s") (wt s') = Some (KReg, b "S").
Proof. eexists. vm_compute. repeat split. Qed.
