(* Proofs/C13.v — ReferenceName.Validate (Model/RefName.v) agrees with git's
   check_refname_format (Spec/CheckRefFormat.v) on every NUL-free name other
   than "HEAD", up to go-git's documented leading-dash rule. *)
From Coq Require Import List Arith NArith ZArith Bool String Lia ZifyBool ZifyNat ZifyN.
From GoGit Require Import Base.Out Model.RefStrings Model.RefName Spec.CheckRefFormat Gen.C13.
Import ListNotations.
Local Open Scope N_scope.

(* ---- interface lemmas for the regenerated constants ---- *)
Lemma refHeadPrefix_val : refHeadPrefix = [114;101;102;115;47;104;101;97;100;115;47].
Proof. reflexivity. Qed.
Lemma refTagPrefix_val : refTagPrefix = [114;101;102;115;47;116;97;103;115;47].
Proof. reflexivity. Qed.
Lemma HEADname_val : HEADname = [72;69;65;68].
Proof. reflexivity. Qed.

(* ---- generic list/string facts ---- *)
Lemma beqb_eq a : forall b, beqb a b = true <-> a = b.
Proof.
  induction a as [|x a IH]; intros [|y b]; cbn; split; try congruence; try reflexivity.
  - intros H. apply andb_true_iff in H as [H1 H2]. apply N.eqb_eq in H1. apply IH in H2. congruence.
  - intros H. injection H as -> ->. rewrite N.eqb_refl. cbn. now apply IH.
Qed.

Lemma beqb_false a b : beqb a b = false <-> a <> b.
Proof.
  split.
  - intros H E. apply beqb_eq in E. congruence.
  - intros H. destruct (beqb a b) eqn:E; [apply beqb_eq in E; contradiction|reflexivity].
Qed.

Lemma has_prefix_split p : forall s, has_prefix p s = true -> s = p ++ skipn (List.length p) s.
Proof.
  induction p as [|x p IH]; intros s H; [reflexivity|].
  destruct s as [|y s]; cbn in H; [discriminate|].
  apply andb_true_iff in H as [H1 H2]. apply N.eqb_eq in H1. subst y.
  cbn. f_equal. now apply IH.
Qed.

Lemma has_prefix_app p q : forall s,
  has_prefix (p ++ q) s = has_prefix p s && has_prefix q (skipn (List.length p) s).
Proof.
  induction p as [|x p IH]; intros s; [reflexivity|].
  destruct s as [|y s]; cbn; [reflexivity|]. rewrite IH. now rewrite andb_assoc.
Qed.

Lemma has_prefix_len p : forall s, has_prefix p s = true -> (List.length p <= List.length s)%nat.
Proof.
  induction p as [|x p IH]; intros [|y s] H; cbn in *; try lia; try discriminate.
  apply andb_true_iff in H as [_ H]. apply IH in H. lia.
Qed.

Lemma has_suffix_len p s : has_suffix p s = true -> (List.length p <= List.length s)%nat.
Proof. unfold has_suffix. intros H. apply has_prefix_len in H. now rewrite !rev_length in H. Qed.

Lemma contains1 x s : contains [x] s = existsb (N.eqb x) s.
Proof.
  induction s as [|c s IH]; [reflexivity|]. cbn [contains existsb has_prefix]. rewrite IH.
  now rewrite andb_true_r.
Qed.

Lemma existsb_orb {A} (f g : A -> bool) l :
  existsb (fun x => f x || g x) l = existsb f l || existsb g l.
Proof.
  induction l as [|x l IH]; [reflexivity|]. cbn. rewrite IH.
  destruct (f x), (g x), (existsb f l), (existsb g l); reflexivity.
Qed.

Lemma existsb_ext' {A} (f g : A -> bool) l : (forall x, f x = g x) -> existsb f l = existsb g l.
Proof. intros H. induction l as [|x l IH]; [reflexivity|]. cbn. now rewrite H, IH. Qed.

Lemma forallb_ext' {A} (f g : A -> bool) l : (forall x, f x = g x) -> forallb f l = forallb g l.
Proof. intros H. induction l as [|x l IH]; [reflexivity|]. cbn. now rewrite H, IH. Qed.

(* ---- splitting at '/' ---- *)
Fixpoint span_slash (s : bytes) : bytes * bytes :=
  match s with
  | [] => ([], [])
  | c :: r => if c =? 47 then ([], s) else let (a, b) := span_slash r in (c :: a, b)
  end.

Lemma split_nonempty sep s : split_on sep s <> [].
Proof.
  destruct s as [|c r]; cbn; [discriminate|].
  destruct (c =? sep); [discriminate|]. destruct (split_on sep r); discriminate.
Qed.

Lemma split_span s :
  split_on 47 s = let (c, rest) := span_slash s in
                  match rest with [] => [c] | _ :: r => c :: split_on 47 r end.
Proof.
  induction s as [|a s IH]; [reflexivity|].
  cbn [split_on span_slash]. unfold SLASH. destruct (a =? 47) eqn:E; [reflexivity|].
  rewrite IH. destruct (span_slash s) as [c rest]. destruct rest; reflexivity.
Qed.

Definition no_nul (s : bytes) : bool := forallb (fun c => negb (c =? 0)) s.

Lemma span_rest s c rest : span_slash s = (c, rest) ->
  (rest = [] \/ exists r, rest = 47 :: r /\ (List.length r < List.length s)%nat
                          /\ (no_nul s = true -> no_nul r = true)).
Proof.
  revert c rest. induction s as [|a s IH]; intros c rest H; cbn in H.
  - injection H as <- <-. now left.
  - destruct (a =? 47) eqn:E.
    + injection H as <- <-. right. apply N.eqb_eq in E. subst a. exists s. split; [reflexivity|].
      split; [cbn; lia|]. cbn. tauto.
    + destruct (span_slash s) as [c' rest'] eqn:E'. injection H as <- <-.
      destruct (IH _ _ eq_refl) as [->|[r [-> [Hl Hn]]]]; [now left|].
      right. exists r. split; [reflexivity|]. split; [cbn; lia|].
      cbn. intros H. apply andb_true_iff in H as [_ H]. auto.
Qed.

(* ---- the per-character classes ---- *)
Definition bad_char (c : N) : bool := is_ctrl c || mem c rule_chars || (c =? 92).

Lemma disposition_cases ch :
  (disposition ch = 1 /\ (ch = 0 \/ ch = 47)) \/
  (disposition ch = 2 /\ ch = 46) \/
  (disposition ch = 3 /\ ch = 123) \/
  ((disposition ch = 4 \/ disposition ch = 5) /\ bad_char ch = true /\ ch <> 47) \/
  (disposition ch = 0 /\ bad_char ch = false /\ ch <> 0 /\ ch <> 47 /\ ch <> 46 /\ ch <> 123).
Proof.
  unfold disposition, bad_char, is_ctrl, mem, rule_chars. cbn [existsb].
  repeat match goal with |- context [if ?b then _ else _] => destruct b eqn:? end; lia.
Qed.

Definition scan_bad (last : N) (c : bytes) : bool :=
  ((last =? 46) && has_prefix [46] c) || ((last =? 64) && has_prefix [123] c)
  || contains [46; 46] c || contains [64; 123] c || existsb bad_char c.

Lemma scan_bad_nil last : scan_bad last [] = false.
Proof. unfold scan_bad. cbn. now rewrite !andb_false_r. Qed.

Lemma scan_bad_cons last ch a :
  scan_bad last (ch :: a) =
  ((last =? 46) && (ch =? 46)) || ((last =? 64) && (ch =? 123)) || bad_char ch || scan_bad ch a.
Proof.
  unfold scan_bad. cbn [contains existsb].
  change (has_prefix [46] (ch :: a)) with ((46 =? ch) && true).
  change (has_prefix [123] (ch :: a)) with ((123 =? ch) && true).
  change (has_prefix [46; 46] (ch :: a)) with ((46 =? ch) && has_prefix [46] a).
  change (has_prefix [64; 123] (ch :: a)) with ((64 =? ch) && has_prefix [123] a).
  rewrite (N.eqb_sym 46 ch), (N.eqb_sym 123 ch), (N.eqb_sym 64 ch).
  destruct (last =? 46), (ch =? 46), (last =? 64), (ch =? 123), (ch =? 64), (bad_char ch),
    (has_prefix [46] a), (has_prefix [123] a), (contains [46; 46] a), (contains [64; 123] a),
    (existsb bad_char a); reflexivity.
Qed.

Lemma comp_scan_spec s : forall last acc, no_nul s = true ->
  comp_scan s last acc =
  let (c, rest) := span_slash s in
  if scan_bad last c then None else Some (rev acc ++ c, rest).
Proof.
  induction s as [|ch r IH]; intros last acc Hn.
  - cbn. rewrite scan_bad_nil, app_nil_r. reflexivity.
  - cbn in Hn. apply andb_true_iff in Hn as [Hch Hn]. apply negb_true_iff in Hch.
    cbn [comp_scan span_slash].
    destruct (disposition_cases ch) as [[D [E|E]]|[[D E]|[[D E]|[[D [B E]]|[D [B [E0 [E1 [E2 E3]]]]]]]]].
    + subst ch. discriminate.
    + subst ch. cbn. rewrite scan_bad_nil, app_nil_r. reflexivity.
    + subst ch. rewrite D. cbn [N.eqb Pos.eqb]. change (46 =? 47) with false. cbv iota.
      specialize (IH 46 (46 :: acc) Hn). destruct (span_slash r) as [a b].
      rewrite scan_bad_cons. destruct (last =? 46) eqn:EL.
      * reflexivity.
      * rewrite IH. cbn [andb orb]. change (46 =? 123) with false. rewrite andb_false_r.
        change (bad_char 46) with false. cbn [orb]. cbn [rev]. now rewrite <- app_assoc.
    + subst ch. rewrite D. change (3 =? 1) with false. change (3 =? 2) with false.
      change (3 =? 3) with true. change (123 =? 47) with false. cbv iota.
      specialize (IH 123 (123 :: acc) Hn). destruct (span_slash r) as [a b].
      rewrite scan_bad_cons. change (123 =? 46) with false. rewrite andb_false_r.
      change (123 =? 123) with true. rewrite andb_true_r. cbn [orb].
      destruct (last =? 64) eqn:EL.
      * reflexivity.
      * rewrite IH. change (bad_char 123) with false. cbn [orb rev]. now rewrite <- app_assoc.
    + apply N.eqb_neq in E. rewrite E. destruct (span_slash r) as [a b].
      rewrite scan_bad_cons, B, orb_true_r. cbn [orb].
      destruct D as [D|D]; rewrite D; reflexivity.
    + apply N.eqb_neq in E1. rewrite E1. rewrite D. change (0 =? 1) with false.
      change (0 =? 2) with false. change (0 =? 3) with false. change (0 =? 4) with false.
      change (0 =? 5) with false. cbv iota.
      specialize (IH ch (ch :: acc) Hn). destruct (span_slash r) as [a b].
      rewrite scan_bad_cons, B. apply N.eqb_neq in E2, E3. rewrite E2, E3, !andb_false_r.
      cbn [orb]. rewrite IH. cbn [rev]. now rewrite <- app_assoc.
Qed.

Definition gcomp_bad (c : bytes) : bool :=
  scan_bad 0 c || has_prefix [46] c || has_suffix LOCK_SUFFIX c.

Lemma check_component_spec s : no_nul s = true ->
  check_component s = let (c, rest) := span_slash s in
                      if gcomp_bad c then None else Some (c, rest).
Proof.
  intros Hn. unfold check_component. rewrite comp_scan_spec by assumption.
  destruct (span_slash s) as [c rest]. unfold gcomp_bad.
  destruct (scan_bad 0 c) eqn:ES; [reflexivity|]. cbn [rev app orb].
  destruct c as [|c0 c']; [reflexivity|].
  cbn [has_prefix]. rewrite (N.eqb_sym 46 c0), andb_true_r.
  destruct (c0 =? 46); [reflexivity|]. cbn [orb].
  destruct (has_suffix LOCK_SUFFIX (c0 :: c')) eqn:EL.
  - apply has_suffix_len in EL. cbn [LOCK_SUFFIX List.length] in EL.
    assert (H : (5 <=? List.length (c0 :: c'))%nat = true) by (apply Nat.leb_le; exact EL).
    rewrite H. reflexivity.
  - now rewrite andb_false_r.
Qed.

Definition gcomp_ok (c : bytes) : bool := negb (beqb c []) && negb (gcomp_bad c).

Lemma comp_loop_spec fuel : forall s count,
  (List.length s < fuel)%nat -> no_nul s = true ->
  comp_loop fuel s count =
  let parts := split_on 47 s in
  if forallb gcomp_ok parts then
    if last (last parts []) 0 =? 46 then Invalid
    else if (count + List.length parts <? 2)%nat then Invalid else Valid
  else Invalid.
Proof.
  induction fuel as [|f IH]; intros s count Hl Hn; [lia|].
  cbn [comp_loop]. rewrite check_component_spec by assumption. cbv zeta. rewrite split_span.
  destruct (span_slash s) as [c rest] eqn:ES.
  destruct (gcomp_bad c) eqn:EB.
  { destruct rest; cbn [forallb]; unfold gcomp_ok; rewrite EB; cbn; now rewrite andb_false_r. }
  destruct c as [|c0 c'].
  { destruct rest; reflexivity. }
  assert (Hok : gcomp_ok (c0 :: c') = true) by (unfold gcomp_ok; rewrite EB; reflexivity).
  destruct (span_rest _ _ _ ES) as [->|[r [-> [Hlr Hnr]]]].
  - cbn [forallb]. rewrite Hok. cbn [andb last List.length]. rewrite Nat.add_1_r. reflexivity.
  - rewrite N.eqb_refl. rewrite IH by (try lia; auto).
    cbn [forallb]. rewrite Hok. cbn [andb].
    pose proof (split_nonempty 47 r) as Hne. destruct (split_on 47 r) as [|f0 fs]; [contradiction|].
    change (last ((c0 :: c') :: f0 :: fs) []) with (last (f0 :: fs) []).
    cbn [List.length]. replace (S count + S (List.length fs))%nat with (count + S (S (List.length fs)))%nat by lia.
    reflexivity.
Qed.

(* ---- Go side ---- *)
Definition go_ok (p : bytes) : bool := negb (beqb p []) && negb (part_bad p).

Lemma parts_ok_spec isBT parts : forall i,
  parts_ok isBT i parts =
  forallb go_ok parts && negb (isBT && (i <=? 2)%nat && has_prefix [DASH] (nth (2 - i) parts [])).
Proof.
  induction parts as [|part r IH]; intros i.
  - cbn [parts_ok forallb andb].
    assert (H : nth (2 - i) (@nil bytes) [] = []) by (destruct (2 - i)%nat; reflexivity).
    rewrite H. cbn [has_prefix]. now rewrite andb_false_r.
  - cbn [parts_ok forallb]. unfold go_ok at 1. destruct part as [|p0 p'].
    + reflexivity.
    + cbn [beqb negb andb]. destruct (part_bad (p0 :: p')) eqn:EB; [reflexivity|]. cbn [negb andb].
      rewrite IH. destruct i as [|[|[|i]]]; cbn [Nat.eqb Nat.sub nth Nat.leb].
      * now rewrite !andb_false_r.
      * now rewrite !andb_false_r.
      * rewrite !andb_true_r, !andb_false_r. cbn [andb negb].
        destruct (isBT && has_prefix [DASH] (p0 :: p')); cbn [negb]; [now rewrite andb_false_r|now rewrite andb_true_r].
      * rewrite !andb_false_r. cbn [andb negb]. reflexivity.
Qed.

Lemma part_bad_gcomp c : part_bad c = gcomp_bad c || beqb c [64].
Proof.
  unfold part_bad, gcomp_bad, scan_bad, DOTLOCK, LOCK_SUFFIX, DOT, AT, LBRACE, BSLASH.
  change (0 =? 46) with false. change (0 =? 64) with false. cbn [andb orb].
  assert (E : existsb bad_char c = existsb is_ctrl c || contains_any rule_chars c || contains [92] c).
  { unfold bad_char, contains_any. rewrite contains1. rewrite !existsb_orb. f_equal.
    apply existsb_ext'. intros x. apply N.eqb_sym. }
  rewrite E.
  destruct (has_prefix [46] c), (contains [46; 46] c), (existsb is_ctrl c), (contains_any rule_chars c),
    (contains [64; 123] c), (contains [92] c), (has_suffix [46; 108; 111; 99; 107] c), (beqb c [64]); reflexivity.
Qed.

(* no component is the single character '@' *)
Definition no_at_component (s : bytes) : bool :=
  forallb (fun c => negb (beqb c [64])) (split_on 47 s).

Lemma go_ok_gcomp c : go_ok c = gcomp_ok c && negb (beqb c [64]).
Proof.
  unfold go_ok, gcomp_ok. rewrite part_bad_gcomp.
  destruct (beqb c []), (gcomp_bad c), (beqb c [64]); reflexivity.
Qed.

Lemma forallb_andb {A} (f g : A -> bool) l :
  forallb (fun x => f x && g x) l = forallb f l && forallb g l.
Proof.
  induction l as [|x l IH]; [reflexivity|]. cbn. rewrite IH.
  destruct (f x), (g x), (forallb f l), (forallb g l); reflexivity.
Qed.

Lemma hd_split_dash t : has_prefix [45] (hd [] (split_on 47 t)) = has_prefix [45] t.
Proof.
  destruct t as [|c t]; [reflexivity|]. cbn [split_on]. destruct (c =? 47) eqn:E.
  - apply N.eqb_eq in E. subst c. reflexivity.
  - destruct (split_on 47 t); reflexivity.
Qed.

Lemma dash_equiv s :
  (is_branch s || is_tag s) && has_prefix [DASH] (nth 2 (split_on 47 s) []) = negb (dash_rule s).
Proof.
  unfold dash_rule, is_branch, is_tag. rewrite negb_involutive.
  rewrite refHeadPrefix_val, refTagPrefix_val. unfold DASH.
  change (bytes_of_string "refs/heads/-"%string) with ([114;101;102;115;47;104;101;97;100;115;47] ++ [45]).
  change (bytes_of_string "refs/tags/-"%string) with ([114;101;102;115;47;116;97;103;115;47] ++ [45]).
  rewrite !has_prefix_app.
  destruct (has_prefix [114;101;102;115;47;104;101;97;100;115;47] s) eqn:EH.
  - apply has_prefix_split in EH. set (t := skipn _ s) in *. rewrite EH at 1 2.
    cbn [orb andb].
    change (split_on 47 ([114;101;102;115;47;104;101;97;100;115;47] ++ t))
      with (split_on 47 (114::101::102::115::47::104::101::97::100::115::47::t)).
    assert (ES : split_on 47 (114::101::102::115::47::104::101::97::100::115::47::t)
                 = [114;101;102;115] :: [104;101;97;100;115] :: split_on 47 t).
    { cbn [split_on]. change (114 =? 47) with false. change (101 =? 47) with false.
      change (102 =? 47) with false. change (115 =? 47) with false. change (47 =? 47) with true.
      change (104 =? 47) with false. change (97 =? 47) with false. change (100 =? 47) with false.
      cbv iota. pose proof (split_nonempty 47 t). destruct (split_on 47 t); [contradiction|reflexivity]. }
    rewrite ES. cbn [nth].
    assert (EN : nth 0 (split_on 47 t) [] = hd [] (split_on 47 t)) by (destruct (split_on 47 t); reflexivity).
    rewrite EN, hd_split_dash.
    assert (ET : has_prefix [114;101;102;115;47;116;97;103;115;47] s = false).
    { rewrite EH. reflexivity. }
    rewrite ET. cbn [andb]. now rewrite orb_false_r.
  - cbn [orb andb]. destruct (has_prefix [114;101;102;115;47;116;97;103;115;47] s) eqn:ET; [|reflexivity].
    apply has_prefix_split in ET. set (t := skipn _ s) in *. rewrite ET at 1.
    cbn [andb].
    change (split_on 47 ([114;101;102;115;47;116;97;103;115;47] ++ t))
      with (split_on 47 (114::101::102::115::47::116::97::103::115::47::t)).
    assert (ES : split_on 47 (114::101::102::115::47::116::97::103::115::47::t)
                 = [114;101;102;115] :: [116;97;103;115] :: split_on 47 t).
    { cbn [split_on]. change (114 =? 47) with false. change (101 =? 47) with false.
      change (102 =? 47) with false. change (115 =? 47) with false. change (47 =? 47) with true.
      change (116 =? 47) with false. change (97 =? 47) with false. change (103 =? 47) with false.
      cbv iota. pose proof (split_nonempty 47 t). destruct (split_on 47 t); [contradiction|reflexivity]. }
    rewrite ES. cbn [nth].
    assert (EN : nth 0 (split_on 47 t) [] = hd [] (split_on 47 t)) by (destruct (split_on 47 t); reflexivity).
    now rewrite EN, hd_split_dash.
Qed.

Lemma last_hd_rev (s : bytes) d : last s d = hd d (rev s).
Proof.
  induction s as [|c s IH] using rev_ind; [reflexivity|].
  rewrite rev_app_distr. cbn. destruct s; [reflexivity|]. now rewrite last_last.
Qed.

Lemma has_suffix_dot s : has_suffix [DOT] s = (last s 0 =? 46).
Proof.
  unfold has_suffix, DOT. rewrite (last_hd_rev s 0). cbn [rev app].
  destruct (rev s) as [|c r]; [reflexivity|]. cbn. now rewrite andb_true_r, N.eqb_sym.
Qed.

Lemma split_single_nil s : split_on 47 s = [[]] -> s = [].
Proof.
  destruct s as [|c r]; [reflexivity|]. cbn. destruct (c =? 47).
  - intros H. injection H as H. now apply split_nonempty in H.
  - destruct (split_on 47 r); discriminate.
Qed.

Lemma last_split s : (last (last (split_on 47 s) []) 0 =? 46) = (last s 0 =? 46).
Proof.
  induction s as [|c r IH]; [reflexivity|].
  cbn [split_on]. destruct (c =? 47) eqn:E.
  - apply N.eqb_eq in E. subst c.
    pose proof (split_nonempty 47 r) as Hne.
    destruct (split_on 47 r) as [|f fs] eqn:ES; [contradiction|].
    change (last ([] :: f :: fs) []) with (last (f :: fs) []). rewrite IH.
    destruct r as [|c' r']; [reflexivity|reflexivity].
  - pose proof (split_nonempty 47 r) as Hne.
    destruct (split_on 47 r) as [|f fs] eqn:ES; [contradiction|].
    destruct fs as [|f2 fs].
    + cbn [last] in *. destruct r as [|c' r'].
      * cbn in ES. injection ES as <-. reflexivity.
      * destruct f as [|f0 f'].
        { apply split_single_nil in ES. discriminate. }
        change (last (c :: f0 :: f') 0) with (last (f0 :: f') 0).
        change (last (c :: c' :: r') 0) with (last (c' :: r') 0). exact IH.
    + change (last ((c :: f) :: f2 :: fs) []) with (last (f2 :: fs) []).
      change (last (f :: f2 :: fs) []) with (last (f2 :: fs) []) in IH. rewrite IH.
      destruct r as [|c' r']; [discriminate|reflexivity].
Qed.

Definition git_valid (s : bytes) : bool :=
  match git_check s with Valid => true | _ => false end.

(* the exact relation between the code as it is and git: one extra rule *)
Lemma validate_exact s :
  no_nul s = true -> s <> HEADname ->
  git_check s <> OutOfFuel /\ validate s = git_valid s && dash_rule s && no_at_component s.
Proof.
  intros Hn Hh. unfold git_valid, git_check.
  rewrite comp_loop_spec by (try lia; assumption). cbv zeta.
  destruct s as [|s0 s'] eqn:Es.
  { cbn. split; [discriminate|reflexivity]. }
  rewrite <- Es in *. assert (Hs : s <> []) by (rewrite Es; discriminate). clear Es.
  assert (EV : validate s =
    negb (last s 0 =? 46) && negb (List.length (split_on 47 s) <? 2)%nat
    && forallb gcomp_ok (split_on 47 s) && dash_rule s && no_at_component s).
  { unfold validate. destruct s as [|x y]; [contradiction|].
    apply beqb_false in Hh. rewrite Hh. rewrite has_suffix_dot.
    destruct (last (x :: y) 0 =? 46); [reflexivity|]. unfold SLASH. cbn [negb andb].
    destruct (List.length (split_on 47 (x :: y)) <? 2)%nat eqn:EL; [reflexivity|]. cbn [negb andb].
    rewrite parts_ok_spec. cbn [Nat.leb Nat.sub]. rewrite andb_true_r.
    rewrite dash_equiv, negb_involutive.
    rewrite (forallb_ext' go_ok (fun c => gcomp_ok c && negb (beqb c [64]))) by apply go_ok_gcomp.
    rewrite forallb_andb. unfold no_at_component.
    destruct (forallb gcomp_ok (split_on 47 (x :: y))), (dash_rule (x :: y)),
      (forallb (fun c => negb (beqb c [64])) (split_on 47 (x :: y))); reflexivity. }
  rewrite EV, last_split. cbn [Nat.add].
  destruct (beqb s [64]) eqn:EA.
  - apply beqb_eq in EA. subst s. split; [discriminate|reflexivity].
  - destruct (forallb gcomp_ok (split_on 47 s)); [|split; [discriminate|now rewrite !andb_false_r]].
    destruct (last s 0 =? 46); [split; [discriminate|reflexivity]|].
    destruct (List.length (split_on 47 s) <? 2)%nat; split; try discriminate; reflexivity.
Qed.

Lemma validate_agrees_partial s :
  no_nul s = true -> s <> HEADname -> no_at_component s = true ->
  git_check s <> OutOfFuel /\ validate s = git_valid s && dash_rule s.
Proof.
  intros Hn Hh Ha. destruct (validate_exact s Hn Hh) as [Hf He]. split; [assumption|].
  now rewrite He, Ha, andb_true_r.
Qed.

(* the full statement fails on the code as it is *)
Definition at_witness : bytes := [114;101;102;115;47;104;101;97;100;115;47;64].   (* refs/heads/@ *)
Lemma validate_agrees_refuted :
  exists s, no_nul s = true /\ s <> HEADname /\ validate s <> (git_valid s && dash_rule s).
Proof. exists at_witness. split; [reflexivity|]. split; [discriminate|]. vm_compute. discriminate. Qed.

(* names with a NUL byte are always refused by go-git (rule 4) *)
Lemma in_split c s : In c s -> c <> 47 -> exists p, In p (split_on 47 s) /\ In c p.
Proof.
  induction s as [|x r IH]; intros Hin Hc; [contradiction|].
  cbn [split_on]. destruct (x =? 47) eqn:E.
  - destruct Hin as [->|Hin]; [apply N.eqb_eq in E; contradiction|].
    destruct (IH Hin Hc) as [p [Hp Hcp]]. exists p. split; [now right|assumption].
  - pose proof (split_nonempty 47 r) as Hne.
    destruct (split_on 47 r) as [|f fs] eqn:ES; [contradiction|].
    destruct Hin as [->|Hin].
    + exists (c :: f). split; [now left|now left].
    + destruct (IH Hin Hc) as [p [[<-|Hp] Hcp]].
      * exists (x :: f). split; [now left|now right].
      * exists p. split; [now right|assumption].
Qed.

Lemma parts_ok_false isBT parts p : forall i, In p parts -> part_bad p = true -> parts_ok isBT i parts = false.
Proof.
  induction parts as [|q r IH]; intros i Hin Hb; [contradiction|].
  cbn [parts_ok]. destruct q as [|q0 q']; [reflexivity|].
  destruct Hin as [->|Hin].
  - now rewrite Hb.
  - destruct (part_bad (q0 :: q')); [reflexivity|].
    destruct (isBT && has_prefix [DASH] (q0 :: q') && Nat.eqb i 2); [reflexivity|]. now apply IH.
Qed.

Lemma validate_nul s : In 0 s -> validate s = false.
Proof.
  intros Hin. unfold validate. destruct s as [|x y]; [reflexivity|].
  destruct (beqb (x :: y) HEADname) eqn:EH.
  { apply beqb_eq in EH. rewrite EH, HEADname_val in Hin. cbn in Hin.
    repeat (destruct Hin as [Hin|Hin]; [discriminate|]). contradiction. }
  destruct (has_suffix [DOT] (x :: y)); [reflexivity|].
  destruct (List.length (split_on SLASH (x :: y)) <? 2)%nat; [reflexivity|].
  destruct (in_split 0 (x :: y) Hin) as [p [Hp Hc]]; [discriminate|].
  apply parts_ok_false with (p := p); [exact Hp|].
  unfold part_bad. assert (E : existsb is_ctrl p = true).
  { apply existsb_exists. exists 0. split; [assumption|reflexivity]. }
  rewrite E. now rewrite !orb_true_r.
Qed.
