(* Proofs/C45_gen.v — the hunks generator of Model/Unified.v produces hunks whose strict application
   to the old lines gives the new lines: invariant of the Generate loop. *)
From Coq Require Import List NArith ZArith Bool Arith Lia.
From GoGit Require Import Base.Out Model.Unified Spec.HunkApply Proofs.C45_apply.
Import ListNotations.

Definition adds_from (o : dop) : bool := match o with Add => false | _ => true end.
Definition adds_to (o : dop) : bool := match o with Delete => false | _ => true end.
(* will processing chunk c put lines of this side into an open hunk? (Equal lines: only with ctx > 0) *)
Definition will_add (ctx : nat) (side : dop -> bool) (c : chunk) : bool :=
  side (fst c) && (negb (Nat.eqb ctx 0) || negb (dop_eqb (fst c) Equal)).

(* the header start of one side of the open hunk, relative to bc = lines of that side before the hunk *)
Definition HdrOK (ctx : nat) (side : dop -> bool) (line count bc : Z) (rest : list chunk) : Prop :=
  ((0 < count /\ line = bc + 1) \/
   (count = 0 /\ match rest with
                 | [] => line = bc
                 | c :: _ => if will_add ctx side c then line = bc + 1 else line = bc
                 end))%Z.
Definition NoStall (side : dop -> bool) (count : Z) (rest : list chunk) : Prop :=
  count = 0%Z -> match rest with [] => True | d :: _ => side (fst d) = true end.

Definition oldl (c : chunk) : list line := match fst c with Add => [] | _ => split_lines (snd c) end.
Definition newl (c : chunk) : list line := match fst c with Delete => [] | _ => split_lines (snd c) end.

Definition Base (hs : list hunk) (obase outp : list line) : Prop :=
  apply_pref hs 0 0 obase = Some (outp, Z.of_nat (length obase), Z.of_nat (length outp), []).

Definition Inv (ctx : nat) (st : gstate) (O N : list line) (rest : list chunk) : Prop :=
  st.(g_from) = Z.of_nat (length O) /\ st.(g_to) = Z.of_nat (length N) /\
  exists obase outp, Base st.(g_hunks) obase outp /\
  match st.(g_cur) with
  | None =>
    O = obase ++ st.(g_before) /\ N = outp ++ st.(g_before) /\
    (st.(g_hunks) <> [] -> rest <> [] -> (ctx < length st.(g_before))%nat)
  | Some h => exists gapl,
    O = obase ++ gapl ++ oldside h.(h_ops) /\ N = outp ++ gapl ++ newside h.(h_ops) /\
    h.(h_fromc) = Z.of_nat (length (oldside h.(h_ops))) /\
    h.(h_toc) = Z.of_nat (length (newside h.(h_ops))) /\
    HdrOK ctx adds_from h.(h_from) h.(h_fromc) (Z.of_nat (length obase + length gapl)) rest /\
    HdrOK ctx adds_to h.(h_to) h.(h_toc) (Z.of_nat (length outp + length gapl)) rest /\
    NoStall adds_from h.(h_fromc) rest /\ NoStall adds_to h.(h_toc) rest
  end.

(* what the loop needs to know about the chunk being processed and the one after it *)
Definition Gd (ctx : nat) (c : chunk) (rest : list chunk) : Prop :=
  snd c <> [] /\
  match rest with
  | [] => True
  | d :: _ => fst c <> fst d /\ (ctx = O -> fst c = Equal \/ fst d = Equal)
  end.

Definition next_of (rest : list chunk) : option dop := match rest with [] => None | d :: _ => Some (fst d) end.

(* the loop body without the final append *)
Definition core_step (ctx : nat) (st : gstate) (c : chunk) (next : option dop) : gstate :=
  let ls := split_lines (snd c) in
  let n := zlen ls in
  let is_last := match next with None => true | Some _ => false end in
  match fst c with
  | Equal => process_equals ctx (set_lines st (st.(g_from) + n) (st.(g_to) + n))%Z ls is_last
  | Delete =>
    let s1 := set_lines st (if (n =? 0)%Z then st.(g_from) else st.(g_from) + 1)%Z st.(g_to) in
    let s2 := process_hunk ctx s1 next Delete in
    cur_add (set_lines s2 (s2.(g_from) + (n - 1))%Z s2.(g_to)) Delete ls
  | Add =>
    let s1 := set_lines st st.(g_from) (if (n =? 0)%Z then st.(g_to) else st.(g_to) + 1)%Z in
    let s2 := process_hunk ctx s1 next Add in
    cur_add (set_lines s2 s2.(g_from) (s2.(g_to) + (n - 1))%Z) Add ls
  end.

Definition finish (st : gstate) : list hunk :=
  match st.(g_cur) with Some h => st.(g_hunks) ++ [h] | None => st.(g_hunks) end.

Lemma gen_step_core ctx st c next :
  g_hunks (gen_step ctx st c next) =
  match next with None => finish (core_step ctx st c next) | Some _ => g_hunks (core_step ctx st c next) end.
Proof.
  unfold gen_step, core_step, finish. cbv zeta. destruct next; [reflexivity|].
  destruct (fst c); cbn; match goal with |- context [g_cur ?s] => destruct (g_cur s) end; reflexivity.
Qed.

Lemma gen_step_core_some ctx st c d : gen_step ctx st c (Some d) = core_step ctx st c (Some d).
Proof. reflexivity. Qed.

(* ---------- small facts *)
Lemma Base_nil obase outp : Base [] obase outp -> obase = [] /\ outp = [].
Proof. unfold Base. cbn. intros H. inversion H; subst. auto. Qed.

Lemma Base_nil_intro : Base [] [] [].
Proof. reflexivity. Qed.

Lemma zlen_len {A} (l : list A) : zlen l = Z.of_nat (length l).
Proof. reflexivity. Qed.

Lemma add_op_ops h t ls : h_ops (add_op h t ls) = h_ops h ++ map (fun l => (t, l)) ls.
Proof. reflexivity. Qed.
Lemma add_op_from h t ls : h_from (add_op h t ls) = h_from h.
Proof. reflexivity. Qed.
Lemma add_op_to h t ls : h_to (add_op h t ls) = h_to h.
Proof. reflexivity. Qed.
Lemma add_op_fromc h t ls :
  h_fromc (add_op h t ls) = (h_fromc h + (if adds_from t then Z.of_nat (length ls) else 0))%Z.
Proof. destruct t; cbn; unfold zlen; lia. Qed.
Lemma add_op_toc h t ls :
  h_toc (add_op h t ls) = (h_toc h + (if adds_to t then Z.of_nat (length ls) else 0))%Z.
Proof. destruct t; cbn; unfold zlen; lia. Qed.

Lemma oldside_add_op h t ls :
  oldside (h_ops (add_op h t ls)) = oldside (h_ops h) ++ (if adds_from t then ls else []).
Proof. rewrite add_op_ops, oldside_app, oldside_map. now destruct t. Qed.
Lemma newside_add_op h t ls :
  newside (h_ops (add_op h t ls)) = newside (h_ops h) ++ (if adds_to t then ls else []).
Proof. rewrite add_op_ops, newside_app, newside_map. now destruct t. Qed.

Lemma dop_eqb_eq a b : dop_eqb a b = true <-> a = b.
Proof. destruct a, b; cbn; split; congruence. Qed.

(* a side that gets k > 0 lines from the current chunk has a correct header afterwards *)
Lemma HdrOK_grow ctx side line count bc c rest rest' k :
  HdrOK ctx side line count bc (c :: rest) -> (0 <= count)%Z -> (0 < k)%Z ->
  will_add ctx side c = true ->
  HdrOK ctx side line (count + k) bc rest'.
Proof.
  intros [[H1 H2]|[H1 H2]] Hc Hk Hw; left; (split; [lia|]); [exact H2|]. now rewrite Hw in H2.
Qed.

Lemma HdrOK_keep ctx side line count bc c rest rest' :
  HdrOK ctx side line count bc (c :: rest) -> (0 < count)%Z -> HdrOK ctx side line count bc rest'.
Proof. intros [[H1 H2]|[H1 H2]] Hc; [left; auto | lia]. Qed.

(* closing on an Equal chunk that contributes k = min ctx |ls| lines *)
Lemma HdrOK_close ctx side line count bc c rest k :
  HdrOK ctx side line count bc (c :: rest) -> (0 <= count)%Z -> fst c = Equal -> side Equal = true ->
  (ctx = O -> k = 0%Z) -> (ctx <> O -> 0 < k)%Z -> (0 <= k)%Z ->
  start_index line (count + k) = bc.
Proof.
  intros H Hc He Hs H0 H1 Hk. unfold start_index.
  destruct H as [[Ha Hb]|[Ha Hb]].
  - replace (count + k =? 0)%Z with false by (symmetry; apply Z.eqb_neq; lia). lia.
  - unfold will_add in Hb. rewrite He, Hs in Hb. cbn in Hb.
    destruct (Nat.eqb ctx 0) eqn:Hx; cbn in Hb.
    + apply Nat.eqb_eq in Hx. rewrite (H0 Hx). replace (count + 0 =? 0)%Z with true by (symmetry; apply Z.eqb_eq; lia). exact Hb.
    + apply Nat.eqb_neq in Hx. specialize (H1 Hx).
      replace (count + k =? 0)%Z with false by (symmetry; apply Z.eqb_neq; lia). lia.
Qed.

Lemma HdrOK_final ctx side line count bc : HdrOK ctx side line count bc [] -> (0 <= count)%Z -> start_index line count = bc.
Proof.
  unfold start_index. intros [[Ha Hb]|[Ha Hb]] Hc.
  - replace (count =? 0)%Z with false by (symmetry; apply Z.eqb_neq; lia). lia.
  - subst count. cbn. exact Hb.
Qed.

(* ---------- the steps *)
Ltac simp_st := cbn [g_from g_to g_cur g_hunks g_before set_lines cur_add h_from h_to h_fromc h_toc h_ops h_prefix].

Lemma len_split_pos (c : chunk) : snd c <> [] -> (0 < length (split_lines (snd c)))%nat.
Proof. intros H. pose proof (split_lines_nonempty _ H). destruct (split_lines (snd c)); [congruence|cbn; lia]. Qed.

(* Equal chunk, no open hunk: the lines join the pending context *)
Lemma step_equal_none ctx st c rest O N :
  fst c = Equal -> g_cur st = None ->
  Inv ctx st O N (c :: rest) ->
  Inv ctx (core_step ctx st c (next_of rest)) (O ++ oldl c) (N ++ newl c) rest.
Proof.
  intros Hf Hc (H1 & H2 & obase & outp & Hb & Hi). rewrite Hc in Hi. destruct Hi as (HO & HN & H3).
  unfold core_step, oldl, newl. rewrite Hf. cbv zeta. unfold process_equals. simp_st. rewrite Hc. simp_st.
  unfold Inv. simp_st. split; [rewrite H1, app_length, zlen_len; lia|]. split; [rewrite H2, app_length, zlen_len; lia|].
  exists obase, outp. split; [exact Hb|]. simp_st.
  split; [rewrite HO; now rewrite app_assoc|]. split; [rewrite HN; now rewrite app_assoc|].
  intros Hh _. rewrite app_length. assert (ctx < length (g_before st))%nat by (apply H3; [exact Hh|discriminate]). lia.
Qed.

(* Equal chunk, open hunk *)
Lemma step_equal_some ctx st c rest O N h :
  fst c = Equal -> g_cur st = Some h -> Gd ctx c rest ->
  Inv ctx st O N (c :: rest) ->
  Inv ctx (core_step ctx st c (next_of rest)) (O ++ oldl c) (N ++ newl c) rest.
Proof.
  intros Hf Hc (Hne & Hg) (H1 & H2 & obase & outp & Hb & Hi). rewrite Hc in Hi.
  destruct Hi as (gapl & HO & HN & Hfc & Htc & Hhf & Hht & Hsf & Hst).
  pose proof (len_split_pos c Hne) as Hpos.
  set (ls := split_lines (snd c)) in *.
  unfold core_step, oldl, newl. rewrite Hf. cbv zeta. fold ls. unfold process_equals. simp_st. rewrite Hc.
  assert (Hlast : (match next_of rest with None => true | Some _ => false end) = match rest with [] => true | _ => false end)
    by (destruct rest; reflexivity).
  rewrite Hlast.
  destruct (Nat.leb (length ls) (ctx * 2) && negb (match rest with [] => true | _ => false end)) eqn:Hm.
  - (* merged into the hunk *)
    apply andb_true_iff in Hm as [Hm1 Hm2]. apply Nat.leb_le in Hm1.
    assert (Hctx : ctx <> 0%nat) by lia.
    assert (Hw : forall side, side Equal = true -> will_add ctx side c = true).
    { intros side Hs. unfold will_add. rewrite Hf, Hs. destruct ctx; [congruence|reflexivity]. }
    unfold Inv. simp_st. split; [rewrite H1, app_length, zlen_len; lia|]. split; [rewrite H2, app_length, zlen_len; lia|].
    exists obase, outp. split; [exact Hb|]. simp_st. exists gapl.
    rewrite oldside_add_op, newside_add_op, add_op_fromc, add_op_toc, add_op_from, add_op_to. cbn [adds_from adds_to].
    rewrite !app_length.
    split; [rewrite HO; now rewrite <- !app_assoc|]. split; [rewrite HN; now rewrite <- !app_assoc|].
    split; [lia|]. split; [lia|].
    split; [eapply HdrOK_grow; eauto; lia|]. split; [eapply HdrOK_grow; eauto; lia|].
    split; intros Hz; lia.
  - (* the hunk is closed with min ctx |ls| lines of context *)
    set (k := Nat.min ctx (length ls)).
    set (h' := add_op h Equal (firstn k ls)).
    assert (Hk : length (firstn k ls) = k) by (apply firstn_length_le; unfold k; lia).
    unfold Inv. simp_st. split; [rewrite H1, app_length, zlen_len; lia|]. split; [rewrite H2, app_length, zlen_len; lia|].
    exists (obase ++ gapl ++ oldside (h_ops h')), (outp ++ gapl ++ newside (h_ops h')).
    assert (Hfc' : h_fromc h' = Z.of_nat (length (oldside (h_ops h')))).
    { unfold h'. rewrite oldside_add_op, add_op_fromc, app_length. cbn [adds_from]. lia. }
    assert (Htc' : h_toc h' = Z.of_nat (length (newside (h_ops h')))).
    { unfold h'. rewrite newside_add_op, add_op_toc, app_length. cbn [adds_to]. lia. }
    split.
    + unfold Base.
      pose proof (apply_close (g_hunks st) h' obase outp gapl [] Hb) as Hcl. rewrite !app_nil_r in Hcl.
      apply Hcl; auto.
      * unfold h'. rewrite add_op_from, add_op_fromc. cbn [adds_from]. rewrite Hk.
        eapply (HdrOK_close ctx adds_from); eauto; unfold k; lia.
      * unfold h'. rewrite add_op_to, add_op_toc. cbn [adds_to]. rewrite Hk.
        eapply (HdrOK_close ctx adds_to); eauto; unfold k; lia.
    + simp_st. unfold h'. rewrite oldside_add_op, newside_add_op. cbn [adds_from adds_to].
      split; [rewrite HO, <- !app_assoc; now rewrite (firstn_skipn k ls)|].
      split; [rewrite HN, <- !app_assoc; now rewrite (firstn_skipn k ls)|].
      intros _ Hr. rewrite skipn_length.
      destruct rest as [|d r]; [congruence|]. cbn in Hm. rewrite andb_true_r in Hm. apply Nat.leb_gt in Hm.
      unfold k. lia.
Qed.

(* Delete / Add chunk on an open hunk *)
Lemma step_delete_some ctx st c rest O N h :
  fst c = Delete -> g_cur st = Some h -> Gd ctx c rest ->
  Inv ctx st O N (c :: rest) ->
  Inv ctx (core_step ctx st c (next_of rest)) (O ++ oldl c) (N ++ newl c) rest.
Proof.
  intros Hf Hc (Hne & Hg) (H1 & H2 & obase & outp & Hb & Hi). rewrite Hc in Hi.
  destruct Hi as (gapl & HO & HN & Hfc & Htc & Hhf & Hht & Hsf & Hst).
  pose proof (len_split_pos c Hne) as Hpos.
  set (ls := split_lines (snd c)) in *.
  unfold core_step, oldl, newl. rewrite Hf. cbv zeta. fold ls.
  replace (zlen ls =? 0)%Z with false by (symmetry; apply Z.eqb_neq; unfold zlen; lia).
  unfold process_hunk. simp_st. rewrite Hc. simp_st.
  assert (Hto : (0 < h_toc h)%Z).
  { destruct (Z.eq_dec (h_toc h) 0) as [Hz|Hz]; [|lia]. specialize (Hst Hz). cbn in Hst. rewrite Hf in Hst. discriminate. }
  unfold Inv, cur_add, set_lines. simp_st. rewrite Hc. simp_st. rewrite app_nil_r.
  split; [rewrite H1, app_length, zlen_len; lia|]. split; [exact H2|].
  exists obase, outp. split; [exact Hb|]. exists gapl.
  rewrite oldside_add_op, newside_add_op, add_op_fromc, add_op_toc, add_op_from, add_op_to. cbn [adds_from adds_to].
  rewrite !app_length, app_nil_r. cbn [length]. rewrite ?Nat.add_0_r.
  split; [rewrite HO; now rewrite <- !app_assoc|]. split; [exact HN|]. 
  split; [lia|]. split; [lia|].
  split; [eapply HdrOK_grow; eauto; try lia; unfold will_add; rewrite Hf; cbn; apply orb_true_r|].
  split; [rewrite Z.add_0_r; eapply HdrOK_keep; eauto|].
  split; intros Hz; lia.
Qed.

Lemma step_add_some ctx st c rest O N h :
  fst c = Add -> g_cur st = Some h -> Gd ctx c rest ->
  Inv ctx st O N (c :: rest) ->
  Inv ctx (core_step ctx st c (next_of rest)) (O ++ oldl c) (N ++ newl c) rest.
Proof.
  intros Hf Hc (Hne & Hg) (H1 & H2 & obase & outp & Hb & Hi). rewrite Hc in Hi.
  destruct Hi as (gapl & HO & HN & Hfc & Htc & Hhf & Hht & Hsf & Hst).
  pose proof (len_split_pos c Hne) as Hpos.
  set (ls := split_lines (snd c)) in *.
  unfold core_step, oldl, newl. rewrite Hf. cbv zeta. fold ls.
  replace (zlen ls =? 0)%Z with false by (symmetry; apply Z.eqb_neq; unfold zlen; lia).
  unfold process_hunk. simp_st. rewrite Hc. simp_st.
  assert (Hfr : (0 < h_fromc h)%Z).
  { destruct (Z.eq_dec (h_fromc h) 0) as [Hz|Hz]; [|lia]. specialize (Hsf Hz). cbn in Hsf. rewrite Hf in Hsf. discriminate. }
  unfold Inv, cur_add, set_lines. simp_st. rewrite Hc. simp_st. rewrite app_nil_r.
  split; [exact H1|]. split; [rewrite H2, app_length, zlen_len; lia|].
  exists obase, outp. split; [exact Hb|]. exists gapl.
  rewrite oldside_add_op, newside_add_op, add_op_fromc, add_op_toc, add_op_from, add_op_to. cbn [adds_from adds_to].
  rewrite !app_length, app_nil_r. cbn [length]. rewrite ?Nat.add_0_r.
  split; [exact HO|]. split; [rewrite HN; now rewrite <- !app_assoc|].
  split; [lia|]. split; [lia|].
  split; [rewrite Z.add_0_r; eapply HdrOK_keep; eauto|].
  split; [eapply HdrOK_grow; eauto; try lia; unfold will_add; rewrite Hf; cbn; apply orb_true_r|].
  split; intros Hz; lia.
Qed.

(* ---------- opening a hunk *)
Lemma process_hunk_none ctx st next op :
  g_cur st = None ->
  exists dropped b2 pfx,
    g_before st = dropped ++ b2 /\ length b2 = Nat.min ctx (length (g_before st)) /\
    process_hunk ctx st next op =
    {| g_from := g_from st; g_to := g_to st;
       g_cur := Some
         (let h1 := {| h_from := 0; h_to := 0; h_fromc := Z.of_nat (length b2); h_toc := Z.of_nat (length b2);
                       h_prefix := pfx; h_ops := map (fun l => (Equal, l)) b2 |} in
          match op with
          | Delete =>
            {| h_from := fst (add_line_numbers ctx (g_from st) (g_to st) (length b2) next Add);
               h_to := snd (add_line_numbers ctx (g_from st) (g_to st) (length b2) next Add);
               h_fromc := h_fromc h1; h_toc := h_toc h1; h_prefix := pfx; h_ops := h_ops h1 |}
          | Add =>
            {| h_from := snd (add_line_numbers ctx (g_to st) (g_from st) (length b2) next Delete);
               h_to := fst (add_line_numbers ctx (g_to st) (g_from st) (length b2) next Delete);
               h_fromc := h_fromc h1; h_toc := h_toc h1; h_prefix := pfx; h_ops := h_ops h1 |}
          | Equal => h1
          end);
       g_hunks := g_hunks st; g_before := [] |}.
Proof.
  intros Hc. unfold process_hunk. rewrite Hc.
  destruct (Nat.ltb ctx (length (g_before st))) eqn:Hlt.
  - apply Nat.ltb_lt in Hlt.
    exists (firstn (length (g_before st) - ctx) (g_before st)), (skipn (length (g_before st) - ctx) (g_before st)),
           (trim_lf (nth (length (g_before st) - ctx - 1) (g_before st) [])).
    split; [now rewrite firstn_skipn|]. split; [rewrite skipn_length; lia|].
    assert (Hl : length (skipn (length (g_before st) - ctx) (g_before st)) = ctx) by (rewrite skipn_length; lia).
    cbv zeta. rewrite Hl.
    destruct op; cbn [add_op h_from h_to h_fromc h_toc h_prefix h_ops app];
      repeat match goal with |- context [let '(a, b) := ?x in _] => destruct x end;
      unfold add_op, zlen; cbn [h_from h_to h_fromc h_toc h_prefix h_ops app]; rewrite ?Hl; reflexivity.
  - apply Nat.ltb_ge in Hlt.
    exists [], (g_before st), (trim_lf []).
    split; [reflexivity|]. split; [lia|].
    cbv zeta.
    destruct op; cbn [add_op h_from h_to h_fromc h_toc h_prefix h_ops app];
      repeat match goal with |- context [let '(a, b) := ?x in _] => destruct x end;
      unfold add_op, zlen; cbn [h_from h_to h_fromc h_toc h_prefix h_ops app]; reflexivity.
Qed.

Lemma oldside_equal b2 : oldside (map (fun l : line => (Equal, l)) b2) = b2.
Proof. now rewrite oldside_map. Qed.
Lemma newside_equal b2 : newside (map (fun l : line => (Equal, l)) b2) = b2.
Proof. now rewrite newside_map. Qed.

Lemma not_delete_adds_to d : d <> Delete -> adds_to d = true.
Proof. destruct d; cbn; congruence. Qed.
Lemma not_add_adds_from d : d <> Add -> adds_from d = true.
Proof. destruct d; cbn; congruence. Qed.

Lemma step_delete_none ctx st c rest O N :
  fst c = Delete -> g_cur st = None -> Gd ctx c rest ->
  Inv ctx st O N (c :: rest) ->
  Inv ctx (core_step ctx st c (next_of rest)) (O ++ oldl c) (N ++ newl c) rest.
Proof.
  intros Hf Hc (Hne & Hg) (H1 & H2 & obase & outp & Hb & Hi). rewrite Hc in Hi. destruct Hi as (HO & HN & H3).
  pose proof (len_split_pos c Hne) as Hpos. set (ls := split_lines (snd c)) in *.
  unfold core_step, oldl, newl. rewrite Hf. cbv zeta. fold ls.
  replace (zlen ls =? 0)%Z with false by (symmetry; apply Z.eqb_neq; unfold zlen; lia).
  set (s1 := set_lines st (g_from st + 1) (g_to st)).
  assert (Hc1 : g_cur s1 = None) by exact Hc.
  destruct (process_hunk_none ctx s1 (next_of rest) Delete Hc1) as (dropped & b2 & pfx & Hbef & Hlen & Hph).
  rewrite Hph. clear Hph. unfold s1 in *. unfold cur_add, set_lines in *. simp_st. cbn [g_before g_from g_to] in *.
  set (alf := add_line_numbers ctx (g_from st + 1) (g_to st) (length b2) (next_of rest) Add).
  assert (HlO : length O = (length obase + length dropped + length b2)%nat)
    by (rewrite HO, Hbef, !app_length; lia).
  assert (HlN : length N = (length outp + length dropped + length b2)%nat)
    by (rewrite HN, Hbef, !app_length; lia).
  assert (Hbl : length (g_before st) = (length dropped + length b2)%nat) by (rewrite Hbef, app_length; lia).
  assert (Hnil : (length (g_before st) <= ctx)%nat -> dropped = [] /\ outp = [] /\ obase = []).
  { intros Hle. assert (length dropped = 0)%nat by lia. destruct dropped; [|discriminate].
    destruct (g_hunks st) eqn:Hh.
    - destruct (Base_nil _ _ Hb). auto.
    - exfalso. assert (ctx < length (g_before st))%nat by (apply H3; discriminate). lia. }
  unfold Inv. simp_st.
  split; [rewrite H1, app_length, zlen_len; lia|]. split; [rewrite app_nil_r; exact H2|].
  exists obase, outp. split; [exact Hb|]. exists dropped.
  rewrite oldside_add_op, newside_add_op, add_op_fromc, add_op_toc, add_op_from, add_op_to. simp_st.
  cbn [adds_from adds_to]. rewrite oldside_equal, newside_equal, !app_length, !app_nil_r. cbn [length]. rewrite ?Nat.add_0_r.
  split; [rewrite HO, Hbef; now rewrite <- ?app_assoc|]. split; [rewrite HN, Hbef; now rewrite <- ?app_assoc|].
  split; [lia|]. split; [lia|].
  split.
  { left. split; [lia|]. unfold alf, add_line_numbers. cbn [fst]. lia. }
  split.
  { unfold alf, add_line_numbers. cbn [snd]. rewrite Z.add_0_r.
    destruct (Nat.eqb_spec (length b2) 0) as [Eb|Eb]; destruct (Nat.eqb_spec ctx 0) as [Ec|Ec]; cbn [negb andb].
    - (* ctx = 0 *)
      right. split; [lia|]. destruct rest as [|d r]; [lia|].
      destruct Hg as [Hg1 Hg2]. destruct (Hg2 Ec) as [He|He]; [congruence|].
      unfold will_add. rewrite He. subst ctx. cbn. lia.
    - (* no context before, ctx > 0: start of the file *)
      assert (Hb0 : (length (g_before st) <= ctx)%nat) by lia.
      destruct (Hnil Hb0) as (-> & -> & ->). cbn [length] in *.
      right. split; [lia|]. destruct rest as [|d r]; cbn [next_of]; [lia|].
      destruct Hg as [Hg1 Hg2]. unfold will_add.
      rewrite (not_delete_adds_to (fst d)) by congruence.
      replace (Nat.eqb ctx 0) with false by (symmetry; now apply Nat.eqb_neq). cbn [negb orb andb].
      destruct (fst d); cbn; try lia. congruence.
    - lia.
    - (* context before *)
      left. split; [lia|]. rewrite Z.gtb_ltb.
      destruct (Nat.le_gt_cases (length (g_before st)) ctx) as [Hle|Hgt].
      + destruct (Hnil Hle) as (-> & -> & ->). cbn [length] in *.
        destruct (Z.ltb_spec (Z.of_nat ctx) (g_to st)); lia.
      + destruct (Z.ltb_spec (Z.of_nat ctx) (g_to st)); lia. }
  split; [intros Hz; lia|].
  intros Hz. destruct rest as [|d r]; [exact I|]. destruct Hg as [Hg1 _]. apply not_delete_adds_to. congruence.
Qed.

Lemma step_add_none ctx st c rest O N :
  fst c = Add -> g_cur st = None -> Gd ctx c rest ->
  Inv ctx st O N (c :: rest) ->
  Inv ctx (core_step ctx st c (next_of rest)) (O ++ oldl c) (N ++ newl c) rest.
Proof.
  intros Hf Hc (Hne & Hg) (H1 & H2 & obase & outp & Hb & Hi). rewrite Hc in Hi. destruct Hi as (HO & HN & H3).
  pose proof (len_split_pos c Hne) as Hpos. set (ls := split_lines (snd c)) in *.
  unfold core_step, oldl, newl. rewrite Hf. cbv zeta. fold ls.
  replace (zlen ls =? 0)%Z with false by (symmetry; apply Z.eqb_neq; unfold zlen; lia).
  set (s1 := set_lines st (g_from st) (g_to st + 1)).
  assert (Hc1 : g_cur s1 = None) by exact Hc.
  destruct (process_hunk_none ctx s1 (next_of rest) Add Hc1) as (dropped & b2 & pfx & Hbef & Hlen & Hph).
  rewrite Hph. clear Hph. unfold s1 in *. unfold cur_add, set_lines in *. simp_st. cbn [g_before g_from g_to] in *.
  set (alf := add_line_numbers ctx (g_to st + 1) (g_from st) (length b2) (next_of rest) Delete).
  assert (HlO : length O = (length obase + length dropped + length b2)%nat)
    by (rewrite HO, Hbef, !app_length; lia).
  assert (HlN : length N = (length outp + length dropped + length b2)%nat)
    by (rewrite HN, Hbef, !app_length; lia).
  assert (Hbl : length (g_before st) = (length dropped + length b2)%nat) by (rewrite Hbef, app_length; lia).
  assert (Hnil : (length (g_before st) <= ctx)%nat -> dropped = [] /\ outp = [] /\ obase = []).
  { intros Hle. assert (length dropped = 0)%nat by lia. destruct dropped; [|discriminate].
    destruct (g_hunks st) eqn:Hh.
    - destruct (Base_nil _ _ Hb). auto.
    - exfalso. assert (ctx < length (g_before st))%nat by (apply H3; discriminate). lia. }
  unfold Inv. simp_st.
  split; [rewrite app_nil_r; exact H1|]. split; [rewrite H2, app_length, zlen_len; lia|].
  exists obase, outp. split; [exact Hb|]. exists dropped.
  rewrite oldside_add_op, newside_add_op, add_op_fromc, add_op_toc, add_op_from, add_op_to. simp_st.
  cbn [adds_from adds_to]. rewrite oldside_equal, newside_equal, !app_length, !app_nil_r. cbn [length]. rewrite ?Nat.add_0_r.
  split; [rewrite HO, Hbef; now rewrite <- ?app_assoc|]. split; [rewrite HN, Hbef; now rewrite <- ?app_assoc|].
  split; [lia|]. split; [lia|].
  split.
  { unfold alf, add_line_numbers. cbn [snd]. rewrite Z.add_0_r.
    destruct (Nat.eqb_spec (length b2) 0) as [Eb|Eb]; destruct (Nat.eqb_spec ctx 0) as [Ec|Ec]; cbn [negb andb].
    - right. split; [lia|]. destruct rest as [|d r]; [lia|].
      destruct Hg as [Hg1 Hg2]. destruct (Hg2 Ec) as [He|He]; [congruence|].
      unfold will_add. rewrite He. subst ctx. cbn. lia.
    - assert (Hb0 : (length (g_before st) <= ctx)%nat) by lia.
      destruct (Hnil Hb0) as (-> & -> & ->). cbn [length] in *.
      right. split; [lia|]. destruct rest as [|d r]; cbn [next_of]; [lia|].
      destruct Hg as [Hg1 Hg2]. unfold will_add.
      rewrite (not_add_adds_from (fst d)) by congruence.
      replace (Nat.eqb ctx 0) with false by (symmetry; now apply Nat.eqb_neq). cbn [negb orb andb].
      destruct (fst d); cbn; try lia. congruence.
    - lia.
    - left. split; [lia|]. rewrite Z.gtb_ltb.
      destruct (Nat.le_gt_cases (length (g_before st)) ctx) as [Hle|Hgt].
      + destruct (Hnil Hle) as (-> & -> & ->). cbn [length] in *.
        destruct (Z.ltb_spec (Z.of_nat ctx) (g_from st)); lia.
      + destruct (Z.ltb_spec (Z.of_nat ctx) (g_from st)); lia. }
  split.
  { left. split; [lia|]. unfold alf, add_line_numbers. cbn [fst]. lia. }
  split; [|intros Hz; lia].
  intros Hz. destruct rest as [|d r]; [exact I|]. destruct Hg as [Hg1 _]. apply not_add_adds_from. congruence.
Qed.

(* ---------- one step, all cases *)
Lemma step_inv ctx st c rest O N :
  Gd ctx c rest -> Inv ctx st O N (c :: rest) ->
  Inv ctx (core_step ctx st c (next_of rest)) (O ++ oldl c) (N ++ newl c) rest.
Proof.
  intros Hg HI. destruct (fst c) eqn:Hf; destruct (g_cur st) as [h|] eqn:Hc;
    eauto using step_equal_none, step_equal_some, step_delete_none, step_delete_some, step_add_none, step_add_some.
Qed.

(* ---------- the end of the loop *)
Lemma final_apply ctx st O N :
  Inv ctx st O N [] -> strict_apply (finish st) O = Some N.
Proof.
  intros (H1 & H2 & obase & outp & Hb & Hi). unfold finish, strict_apply.
  destruct (g_cur st) as [h|].
  - destruct Hi as (gapl & HO & HN & Hfc & Htc & Hhf & Hht & _ & _).
    pose proof (apply_close (g_hunks st) h obase outp gapl [] Hb) as Hcl. rewrite !app_nil_r in Hcl.
    rewrite HO, Hcl, app_nil_r; [now rewrite HN| | |exact Hfc|exact Htc].
    + eapply HdrOK_final; eauto. lia.
    + eapply HdrOK_final; eauto. lia.
  - destruct Hi as (HO & HN & _). rewrite HO.
    rewrite (apply_pref_ext _ _ _ _ _ _ _ _ (g_before st) Hb). cbn [app]. now rewrite HN.
Qed.

(* ---------- the loop *)
Fixpoint guards (ctx : nat) (cs : list chunk) : Prop :=
  match cs with
  | [] => True
  | c :: r => Gd ctx c r /\ guards ctx r
  end.

Lemma loop_apply ctx : forall cs c st O N,
  guards ctx (c :: cs) -> Inv ctx st O N (c :: cs) ->
  strict_apply (g_hunks (gen_loop ctx st (c :: cs))) (O ++ old_lines (c :: cs)) = Some (N ++ new_lines (c :: cs)).
Proof.
  induction cs as [|d r IH]; intros c st O N [Hg Hgs] HI.
  - cbn [gen_loop]. rewrite gen_step_core.
    pose proof (step_inv ctx st c [] O N Hg HI) as HI'. cbn [next_of] in HI'.
    unfold old_lines, new_lines. cbn [flat_map]. rewrite !app_nil_r.
    apply (final_apply ctx). exact HI'.
  - cbn [gen_loop]. rewrite gen_step_core_some.
    pose proof (step_inv ctx st c (d :: r) O N Hg HI) as HI'. cbn [next_of] in HI'.
    specialize (IH d _ _ _ Hgs HI').
    unfold old_lines, new_lines in *. cbn [flat_map] in *. rewrite <- !app_assoc in IH. exact IH.
Qed.

Lemma Inv_init ctx cs : Inv ctx g_init [] [] cs.
Proof.
  unfold Inv, g_init. cbn. split; [reflexivity|]. split; [reflexivity|].
  exists [], []. split; [reflexivity|]. repeat split; auto. intros H. exfalso. now apply H.
Qed.

(* the boolean guards give the step guards *)
Definition no_replace (cs : list chunk) : bool :=
  (fix go (cs : list chunk) : bool :=
     match cs with
     | c :: ((d :: _) as r) => (dop_eqb (fst c) Equal || dop_eqb (fst d) Equal) && go r
     | _ => true
     end) cs.

Lemma guards_of_normal ctx cs :
  normal cs = true -> (ctx <> 0%nat \/ no_replace cs = true) -> guards ctx cs.
Proof.
  unfold normal. intros Hn Hc. apply andb_true_iff in Hn as [Hne Halt].
  induction cs as [|c r IH]; [exact I|].
  cbn [forallb] in Hne. apply andb_true_iff in Hne as [Hc0 Hne].
  assert (Hc1 : snd c <> []) by (destruct c as [o [|b s]]; cbn in Hc0 |- *; [discriminate|discriminate]).
  destruct r as [|d r'].
  - split; [split; [exact Hc1|exact I]|exact I].
  - cbn [alternating] in Halt. apply andb_true_iff in Halt as [Ha Halt].
    assert (Hcr : ctx <> 0%nat \/ no_replace (d :: r') = true /\ (dop_eqb (fst c) Equal || dop_eqb (fst d) Equal) = true).
    { destruct Hc as [Hc|Hc]; [now left|right]. unfold no_replace in Hc. fold (no_replace (d :: r')) in Hc.
      apply andb_true_iff in Hc as [Hx Hy]. auto. }
    split.
    + split; [exact Hc1|]. split.
      * intros He. rewrite He in Ha. destruct (fst d); discriminate.
      * intros Hz. destruct Hcr as [Hcr|[_ Hcr]]; [congruence|].
        apply orb_true_iff in Hcr as [Hx|Hx]; apply dop_eqb_eq in Hx; auto.
    + apply IH; auto. destruct Hcr as [Hcr|[Hcr _]]; auto.
Qed.

(* ---------- the theorem *)
Theorem generate_applies ctx cs :
  normal cs = true -> (ctx <> 0%nat \/ no_replace cs = true) ->
  strict_apply (generate ctx cs) (old_lines cs) = Some (new_lines cs).
Proof.
  intros Hn Hc. unfold generate. destruct cs as [|c r]; [reflexivity|].
  apply (loop_apply ctx r c g_init [] []).
  - now apply guards_of_normal.
  - apply Inv_init.
Qed.
