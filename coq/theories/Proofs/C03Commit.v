(* Proofs/C03Commit.v — commits: go-git's stripHeaderSignatures (G) produces
   git's parse_buffer_signed_by_header payload (S) on every byte string whose
   gpgsig-prefixed header lines are all "gpgsig " / "gpgsig-sha256 " headers;
   a freshly decoded commit matches its source. *)
From Coq Require Import List NArith ZArith Bool Lia.
From GoGit Require Import Base.Out Model.ObjLines Model.Ident Model.Commit Model.Tag Model.SigPayload
     Spec.GitSig Spec.ObjWf Spec.SigGuards Proofs.ObjLinesFacts.
Import ListNotations.
Local Open Scope N_scope.

Lemma first_is_true c l : first_is c l = true -> exists r, l = c :: r.
Proof. destruct l as [|x r]; cbn; [discriminate|]. intros H. apply N.eqb_eq in H. subst. now exists r. Qed.

(* ---- first-byte facts about header lines ---- *)
Lemma sp_not_gpgsig l : first_is SPC l = true -> starts_with k_gpgsig l = false.
Proof. intros H. apply first_is_true in H as [r ->]. reflexivity. Qed.
Lemma sp_not_gpgsig7 l : first_is SPC l = true -> starts_with (k_gpgsig ++ [SPC]) l = false.
Proof. intros H. apply first_is_true in H as [r ->]. reflexivity. Qed.
Lemma sp_not_sighdr l : first_is SPC l = true -> is_sig_header l = false.
Proof. intros H. apply first_is_true in H as [r ->]. reflexivity. Qed.
Lemma sp_not_lf l : first_is SPC l = true -> first_is LF l = false.
Proof. intros H. apply first_is_true in H as [r ->]. reflexivity. Qed.
Lemma sp_not_blank l : first_is SPC l = true -> is_blank l = false.
Proof. intros H. apply first_is_true in H as [r ->]. destruct r; reflexivity. Qed.
Lemma lf_not_gpgsig l : first_is LF l = true -> starts_with k_gpgsig l = false.
Proof. intros H. apply first_is_true in H as [r ->]. reflexivity. Qed.
Lemma lf_not_gpgsig7 l : first_is LF l = true -> starts_with (k_gpgsig ++ [SPC]) l = false.
Proof. intros H. apply first_is_true in H as [r ->]. reflexivity. Qed.
Lemma lf_not_sighdr l : first_is LF l = true -> is_sig_header l = false.
Proof. intros H. apply first_is_true in H as [r ->]. reflexivity. Qed.

Lemma gpgsig7_gpgsig l : starts_with (k_gpgsig ++ [SPC]) l = true -> starts_with k_gpgsig l = true.
Proof. intros H. apply starts_with_spec in H as [r ->]. reflexivity. Qed.
Lemma gpgsig7_not_lf l : starts_with (k_gpgsig ++ [SPC]) l = true -> first_is LF l = false.
Proof. intros H. apply starts_with_spec in H as [r ->]. reflexivity. Qed.
Lemma sighdr_gpgsig l : is_sig_header l = true -> starts_with k_gpgsig l = true.
Proof.
  unfold is_sig_header. intros H. apply orb_true_iff in H as [H|H]; apply starts_with_spec in H as [r ->]; reflexivity.
Qed.
Lemma sighdr_not_lf l : is_sig_header l = true -> first_is LF l = false.
Proof.
  unfold is_sig_header. intros H. apply orb_true_iff in H as [H|H]; apply starts_with_spec in H as [r ->]; reflexivity.
Qed.
Lemma sighdr_not_blank l : is_sig_header l = true -> is_blank l = false.
Proof.
  unfold is_sig_header. intros H. apply orb_true_iff in H as [H|H]; apply starts_with_spec in H as [r ->]; reflexivity.
Qed.

Lemma guard_tail l r :
  first_is LF l = false -> foreign_gpgsig_free (l :: r) = true ->
  (negb (starts_with k_gpgsig l) || is_sig_header l) = true /\ foreign_gpgsig_free r = true.
Proof.
  unfold foreign_gpgsig_free. cbn [header_of]. intros ->. cbn [forallb]. intros H.
  now apply andb_true_iff in H.
Qed.

(* the signature header of the repository's object format *)
Definition sig_hdr (h : bytes) : Prop := h = k_gpgsig \/ h = k_gpgsig256.

Lemma sp_not_h h l : sig_hdr h -> first_is SPC l = true -> starts_with (h ++ [SPC]) l = false.
Proof. intros [-> | ->] H; apply first_is_true in H as [r ->]; reflexivity. Qed.
Lemma lf_not_h h l : sig_hdr h -> first_is LF l = true -> starts_with (h ++ [SPC]) l = false.
Proof. intros [-> | ->] H; apply first_is_true in H as [r ->]; reflexivity. Qed.
Lemma h_sighdr h l : sig_hdr h -> starts_with (h ++ [SPC]) l = true -> is_sig_header l = true.
Proof. intros [-> | ->] H; unfold is_sig_header; rewrite H; [reflexivity|apply orb_true_r]. Qed.

(* G's skipping flag is S's (in_signature || other_signature), whichever of
   the two headers is THE signature header *)
Lemma strip_pbsh_gen h : sig_hdr h -> forall ls insig other,
  Forall line_ok ls -> foreign_gpgsig_free ls = true ->
  strip_lines (insig || other) ls = fst (fst (pbsh h insig other ls)).
Proof.
  intros Hh. induction ls as [|l r IH]; intros insig other Hok Hg; [reflexivity|].
  inversion Hok as [|? ? Hl Hr]; subst.
  cbn [strip_lines pbsh].
  destruct (first_is SPC l) eqn:Esp.
  - pose proof (sp_not_lf _ Esp) as Elf.
    destruct (guard_tail _ _ Elf Hg) as [_ Hgr].
    rewrite (sp_not_sighdr _ Esp), (sp_not_h _ _ Hh Esp), (sp_not_gpgsig _ Esp), Elf, (sp_not_blank _ Esp).
    rewrite !andb_true_r.
    destruct insig; cbn [orb andb negb].
    + specialize (IH true other Hr Hgr). cbn [orb] in IH.
      destruct (pbsh h true other r) as [[p s] f]. exact IH.
    + destruct other; cbn [orb andb negb].
      * specialize (IH false true Hr Hgr). cbn [orb] in IH.
        destruct (pbsh h false true r) as [[p s] f]. exact IH.
      * specialize (IH false false Hr Hgr). cbn [orb] in IH.
        destruct (pbsh h false false r) as [[p s] f]. cbn [fst]. now rewrite IH.
  - rewrite !andb_false_r.
    destruct (starts_with (h ++ [SPC]) l) eqn:E7.
    + pose proof (h_sighdr _ _ Hh E7) as Eh.
      destruct (guard_tail _ _ (sighdr_not_lf _ Eh) Hg) as [_ Hgr].
      rewrite Eh. specialize (IH true false Hr Hgr). cbn [orb] in IH.
      destruct (pbsh h true false r) as [[p s] f]. exact IH.
    + destruct (is_sig_header l) eqn:Eh.
      * destruct (guard_tail _ _ (sighdr_not_lf _ Eh) Hg) as [_ Hgr].
        rewrite (sighdr_gpgsig _ Eh), (sighdr_not_lf _ Eh).
        specialize (IH false true Hr Hgr). cbn [orb] in IH.
        destruct (pbsh h false true r) as [[p s] f]. exact IH.
      * destruct (first_is LF l) eqn:Elf.
        -- rewrite <- (first_is_lf_blank _ Hl), Elf, (lf_not_gpgsig _ Elf).
           cbn [negb andb]. rewrite andb_true_r.
           destruct other; reflexivity.
        -- rewrite <- (first_is_lf_blank _ Hl), Elf.
           destruct (guard_tail _ _ Elf Hg) as [Hgl Hgr]. rewrite Eh, orb_false_r in Hgl.
           apply negb_true_iff in Hgl. rewrite Hgl. cbn [negb]. rewrite andb_true_r.
           specialize (IH false false Hr Hgr). cbn [orb] in IH.
           assert (Eo : (if other then false else other) = false) by (destruct other; reflexivity).
           rewrite Eo. destruct (pbsh h false false r) as [[p s] f]. cbn [fst]. now rewrite IH.
Qed.

Theorem strip_eq_pbsh_fmt : forall f raw,
  commit_sig_guard raw = true ->
  strip_header_sigs raw = fst (fst (git_commit_payload_fmt f raw)).
Proof.
  intros f raw Hg. unfold strip_header_sigs, git_commit_payload_fmt.
  assert (Hh : sig_hdr (sig_header_of f)) by (destruct f; [now left|now right]).
  exact (strip_pbsh_gen _ Hh (split_lines raw) false false (split_lines_ok raw) Hg).
Qed.

Theorem strip_eq_pbsh : forall raw,
  commit_sig_guard raw = true ->
  strip_header_sigs raw = fst (fst (git_commit_payload raw)).
Proof. exact (strip_eq_pbsh_fmt SHA1). Qed.

(* ---- a freshly decoded commit matches its source ---- *)
Lemma ident_eqb_refl i : ident_eqb i i = true.
Proof. unfold ident_eqb. now rewrite !beqb_refl, Z.eqb_refl. Qed.

Lemma list_eqb_refl {A} (eq : A -> A -> bool) (l : list A) :
  (forall x, eq x x = true) -> list_eqb eq l l = true.
Proof. intros H. induction l as [|x l IH]; cbn; [reflexivity|]. now rewrite H, IH. Qed.

Lemma commit_fields_eqb_refl c : commit_fields_eqb c c = true.
Proof.
  unfold commit_fields_eqb. rewrite !ident_eqb_refl, !beqb_refl.
  rewrite (list_eqb_refl beqb), (list_eqb_refl _ (c_extra c)); [reflexivity| |exact beqb_refl].
  intros x. now rewrite !beqb_refl.
Qed.

Theorem matches_source_fresh : forall raw c,
  decode_commit raw = Ok c -> commit_matches_source raw true c = true.
Proof. intros raw c H. unfold commit_matches_source. rewrite H. cbn [andb]. apply commit_fields_eqb_refl. Qed.

Theorem payload_fresh : forall raw c,
  decode_commit raw = Ok c -> commit_payload raw true c = strip_header_sigs raw.
Proof. intros raw c H. unfold commit_payload. now rewrite (matches_source_fresh _ _ H). Qed.
