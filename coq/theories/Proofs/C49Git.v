(* Proofs/C49Git.v — go-git's gitignore against the transcription of git
   2.39.5 (Spec/GitIgnore.v). *)
From Coq Require Import List NArith Bool Lia.
From GoGit Require Import Base.Out Model.Gitignore Spec.Glob Spec.GitIgnore
     Proofs.C49Total Proofs.C49Wild.
Import ListNotations.
Local Open Scope N_scope.

(* ------------------------------------------------------------------ *)
(* git's dowild (2.39.5 abort codes) satisfies the same invariant      *)

Lemma gdowild_R : forall fuel fuel' p t prev g,
  (List.length p < fuel)%nat -> parse_glob fuel' p = Some g ->
  R g (gdowild fuel 0 prev p t) t.
Proof.
  induction fuel as [|f IH]; intros fuel' p t prev g Hf Hp; [lia|].
  destruct fuel' as [|f']; [discriminate|].
  cbn [gdowild]. change (fl_casefold 0) with false. change (fl_pathname 0) with false.
  cbn [fold andb].
  destruct p as [|pc0 p1].
  { cbn in Hp. inversion Hp; subst. destruct t; cbn; [constructor|]. intros H; inversion H. }
  cbn [parse_glob] in Hp. cbn in Hf.
  unfold cBSL, cQM, cSTAR, cLB, cRB.
  destruct (pc0 =? 92) eqn:E1.
  { (* backslash *)
    apply N.eqb_eq in E1. subst pc0. change (92 =? 42) with false. cbn [negb andb].
    destruct p1 as [|e p2]; [discriminate|].
    destruct (parse_glob f' p2) as [g'|] eqn:Hp2; [|discriminate]. inversion Hp; subst.
    destruct t as [|tc t1]; [now apply R_abort_nil|].
    destruct (tc =? e) eqn:Ee; cbn [negb].
    - apply R_cons; [reflexivity|exact Ee|]. eapply IH; [cbn in Hf; lia|exact Hp2].
    - now apply R_nomatch_head. }
  destruct (pc0 =? 63) eqn:E2.
  { apply N.eqb_eq in E2. subst pc0. change (63 =? 42) with false. cbn [negb andb].
    destruct (parse_glob f' p1) as [g'|] eqn:Hp1; [|discriminate]. inversion Hp; subst.
    destruct t as [|tc t1]; [now apply R_abort_nil|].
    apply R_cons; [reflexivity|reflexivity|]. eapply IH; [lia|exact Hp1]. }
  destruct (pc0 =? 42) eqn:E3.
  { (* star *)
    rewrite andb_false_r.
    destruct (parse_glob f' p1) as [g1|] eqn:Hp1; [|discriminate]. inversion Hp; subst.
    rewrite star_case_flags0.
    destruct (parse_drop_stars _ _ _ Hp1) as (k & f2 & g2 & -> & Hp2).
    destruct (drop_stars p1) as [|q0 q1] eqn:Ed.
    - destruct f2; [discriminate|]. cbn in Hp2. inversion Hp2; subst.
      cbn [R]. apply Gmatch_stars. exists []. split; [|constructor].
      exists t. now rewrite app_nil_r.
    - pose proof (drop_stars_head _ _ _ Ed) as Hq0.
      destruct (parse_head_nonstar _ _ _ _ Hp2 Hq0) as (it & g' & -> & Hit & Hlit).
      pose proof (drop_stars_len p1) as Hlen. rewrite Ed in Hlen.
      assert (HRS : RS (it :: g')
                (star_loop (gdowild f 0 None (q0 :: q1)) true (negb (is_glob_special q0)) false q0
                           WNoMatch false t) t).
      { apply star_loop_RS.
        - intros t0. eapply IH; [lia|exact Hp2].
        - intros H. apply Gmatch_one_inv in H; [|assumption]. destruct H as (? & ? & ? & _). discriminate.
        - intros Hl t0 H. apply negb_true_iff in Hl. rewrite (Hlit Hl) in H.
          apply Gmatch_one_inv in H; [|reflexivity]. destruct H as (c0 & t1 & -> & A & _).
          cbn in A. apply N.eqb_eq in A. subst. eauto.
        - now right. }
      cbn [fold andb].
      destruct (star_loop _ _ _ _ _ _ _ t); cbn in HRS |- *; try tauto.
      + apply Gmatch_stars. exact HRS.
      + intros H. apply Gmatch_stars in H. destruct H as [t2 [Hs2 H]]. exact (HRS _ Hs2 H).
      + intros t' Hs H. apply Gmatch_stars in H. destruct H as [t2 [Hs2 H]].
        eapply HRS; [|exact H]. eapply suffix_trans; eassumption. }
  destruct (pc0 =? 91) eqn:E4.
  { (* bracket *)
    cbn [negb andb].
    destruct (parse_set p1) as [[it rest]|] eqn:Hps; [|discriminate].
    destruct (parse_glob f' rest) as [g'|] eqn:Hpr; [|discriminate]. inversion Hp; subst.
    destruct (parse_set_is_set _ _ _ Hps) as (neg & rs & ->).
    destruct t as [|tc t1]; [now apply R_abort_nil|].
    rewrite (bracket_parse _ _ _ _ tc Hps). rewrite orb_false_r.
    destruct (bracket_ok false tc p1) as [_ Hlen].
    specialize (Hlen _ _ _ (bracket_parse _ _ _ _ tc Hps)).
    destruct (eqb (in_ranges rs tc) neg) eqn:Eq.
    - apply R_nomatch_head; [reflexivity|]. cbn. now rewrite Eq.
    - apply R_cons; [reflexivity|cbn; now rewrite Eq|]. eapply IH; [lia|exact Hpr]. }
  (* literal *)
  cbn [negb andb].
  destruct (parse_glob f' p1) as [g'|] eqn:Hp1; [|discriminate]. inversion Hp; subst.
  destruct t as [|tc t1]; [now apply R_abort_nil|].
  destruct (tc =? pc0) eqn:Ee; cbn [negb].
  - apply R_cons; [reflexivity|exact Ee|]. eapply IH; [lia|exact Hp1].
  - now apply R_nomatch_head.
Qed.


Theorem gwildmatch_sound_complete p g t :
  glob_of p = Some g -> (gwildmatch 0 p t = true <-> Gmatch g t).
Proof.
  intros Hp. unfold gwildmatch.
  pose proof (gdowild_R (wm_fuel p) _ p t None g ltac:(unfold wm_fuel; lia) Hp) as H.
  destruct (gdowild (wm_fuel p) 0 None p t); cbn in H |- *; split; try tauto; try discriminate.
  - intros H'. exfalso. apply (H t); [apply suffix_refl|assumption].
Qed.

Theorem wildmatch_eq_git p g t : glob_of p = Some g -> wildmatch p t = gwildmatch 0 p t.
Proof.
  intros Hp. pose proof (wildmatch_sound_complete p g t Hp) as H1.
  pose proof (gwildmatch_sound_complete p g t Hp) as H2.
  destruct (wildmatch p t), (gwildmatch 0 p t); try reflexivity; intuition congruence.
Qed.

(* ------------------------------------------------------------------ *)
(* the full statement is false                                         *)

Lemma eq_git_refuted : exists excl fs path isdir,
  ignored excl fs path isdir <> git_ignored excl fs path isdir.
Proof.
  (* pattern foo**/bar, path foobar *)
  exists None, [([], [102;111;111;42;42;47;98;97;114])], [[102;111;111;98;97;114]], false.
  vm_compute. discriminate.
Qed.
