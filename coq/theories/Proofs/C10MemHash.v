(* Proofs/C10MemHash.v — MemoryIndex.FindHash with its lazily built offset->id map and
   the cache FindOffset feeds: for every history of FindOffset / FindHash calls the
   answers are those of the map by offset (distinct offsets below 2^63). *)
From Coq Require Import List NArith ZArith Bool Lia ZifyBool ZifyNat ZifyN Sorting.Sorted Sorting.Permutation.
From GoGit Require Import Base.Out Base.GoInt Model.PackBytes Model.Idx Spec.IdxFormat
  Proofs.C10Search Proofs.C10Order Proofs.C10Bytes Proofs.C10Table Proofs.C10Layout Proofs.C10Lazy
  Proofs.C10Splits Proofs.C10Decode Proofs.C10Memory Proofs.C10Rev.
Import ListNotations.
Local Open Scope N_scope.

(* ---- association lists as Go maps ---- *)
Lemma omap_get_in mp : forall k v, omap_get mp k = Some v -> In (k, v) mp.
Proof.
  induction mp as [|[k' v'] mp IH]; intros k v E; cbn in E; [discriminate|].
  destruct (k' =? k)%Z eqn:Ek.
  - apply Z.eqb_eq in Ek. inversion E; subst. now left.
  - right. now apply IH.
Qed.

Lemma omap_get_nodup mp : forall k v, NoDup (map fst mp) -> In (k, v) mp -> omap_get mp k = Some v.
Proof.
  induction mp as [|[k' v'] mp IH]; intros k v Hd Hi; [contradiction|].
  inversion Hd as [|? ? Hn Hd']; subst. cbn [omap_get]. destruct Hi as [E|Hi].
  - inversion E; subst. now rewrite Z.eqb_refl.
  - destruct (k' =? k)%Z eqn:Ek.
    + apply Z.eqb_eq in Ek. subst. exfalso. apply Hn. change k with (fst (k, v)). now apply in_map.
    + now apply IH.
Qed.

Lemma fold_cons_rev {A B} (kv : A -> B) : forall l acc,
  fold_left (fun mp e => kv e :: mp) l acc = rev (map kv l) ++ acc.
Proof.
  induction l as [|x l IH]; intros acc; cbn; [reflexivity|]. rewrite IH, <- app_assoc. reflexivity.
Qed.

Lemma i64_small' o : o < 9223372036854775808 -> to_i64 o = Z.of_N o.
Proof.
  intros Ho. unfold to_i64, wraps. change (2 ^ 64)%Z with 18446744073709551616%Z.
  change (2 ^ (64 - 1))%Z with 9223372036854775808%Z.
  rewrite Z.mod_small by lia. replace (Z.of_N o <? 9223372036854775808)%Z with true by lia. reflexivity.
Qed.

(* what FindOffset does to the cache, for any index *)
Lemma find_offset_state hs m st h :
  snd (mem_find_offset hs m st h) = st \/
  exists o, fst (mem_find_offset hs m st h) = Ok (to_i64 o) /\
            snd (mem_find_offset hs m st h)
            = mkS (Some ((to_i64 o, h) :: match ms_map st with Some mp => mp | None => [] end)) (ms_once st).
Proof.
  unfold mem_find_offset. destruct (mem_find hs m h) as [[ib| | |] r]; cbn [fst snd]; auto.
  destruct (mem_get_offset m (nthN (m_bk m) r emptyB) ib) as [o|e]; cbn [fst snd]; auto.
  right. exists o. auto.
Qed.

Section MemHash.
Variable hs : nat.
Variable Hsz : nat -> bytes -> bytes.
Variable tbl : list entry.
Variable pack sum : bytes.
Hypothesis WF : wf_tbl hs tbl.
Hypothesis Hpack : List.length pack = hs.
Hypothesis Hdist : distinct_offsets tbl.
Hypothesis Hsmall : forall e, In e tbl -> e_off e < 9223372036854775808.

Let m := spec_index tbl pack sum.
Set Default Proof Using "hs Hsz tbl pack sum WF Hpack Hdist Hsmall".

Let Entries := mem_entries_map hs Hsz tbl pack sum WF Hpack.
Let FindOffset := mem_find_offset_map hs Hsz tbl pack sum WF Hpack.

Definition kv (e : entry) : Z * bytes := (to_i64 (e_off e), e_hash e).
Definition genmap : omap := fold_left (fun mp e => kv e :: mp) tbl [].

Lemma mem_gen_ok : mem_gen hs m = Ok genmap.
Proof. unfold mem_gen. unfold m. rewrite Entries. reflexivity. Qed.

Lemma keys_nodup : NoDup (map fst (rev (map kv tbl))).
Proof.
  rewrite <- map_rev, map_map. apply NoDup_rev in Hdist. rewrite <- map_rev in Hdist.
  assert (G : forall l, (forall e, In e l -> e_off e < 9223372036854775808) -> NoDup (map e_off l) ->
              NoDup (map (fun x => fst (kv x)) l)).
  { induction l as [|e l IH]; intros Hs Hd; cbn; [constructor|]. inversion Hd as [|? ? Hn Hd']; subst.
    constructor; [|apply IH; auto; intros; apply Hs; now right].
    intros Hi. apply in_map_iff in Hi. destruct Hi as (x & Ex & Hx). apply Hn.
    unfold kv in Ex. cbn [fst] in Ex. rewrite !i64_small' in Ex by (apply Hs; (now left) || now right).
    apply N2Z.inj in Ex. rewrite <- Ex. now apply in_map. }
  apply G; [|exact Hdist]. intros e He. apply Hsmall. now apply in_rev.
Qed.

Lemma genmap_get_in e : In e tbl -> omap_get genmap (Z.of_N (e_off e)) = Some (e_hash e).
Proof.
  intros He. unfold genmap. rewrite fold_cons_rev, app_nil_r.
  apply omap_get_nodup; [exact keys_nodup|]. rewrite <- in_rev.
  replace (Z.of_N (e_off e), e_hash e) with (kv e) by (unfold kv; now rewrite i64_small' by now apply Hsmall).
  now apply in_map.
Qed.

Lemma genmap_get_sound z h : omap_get genmap z = Some h ->
  exists e, In e tbl /\ Z.of_N (e_off e) = z /\ e_hash e = h.
Proof.
  intros E. unfold genmap in E. rewrite fold_cons_rev, app_nil_r in E.
  apply omap_get_in in E. rewrite <- in_rev in E. apply in_map_iff in E. destruct E as (e & Ek & He).
  exists e. unfold kv in Ek. inversion Ek; subst. rewrite i64_small' by now apply Hsmall. auto.
Qed.

(* the invariant of the offset cache *)
Definition cache_get (st : mstate) (z : Z) : option bytes :=
  match ms_map st with Some mp => omap_get mp z | None => None end.
Definition st_ok (st : mstate) : Prop :=
  (forall z h, cache_get st z = Some h -> exists e, In e tbl /\ Z.of_N (e_off e) = z /\ e_hash e = h) /\
  (ms_once st = true -> forall e, In e tbl -> cache_get st (Z.of_N (e_off e)) = Some (e_hash e)).

Lemma st_ok_init : st_ok ms_init.
Proof. split; [intros z h E; discriminate|intros E; discriminate]. Qed.

Lemma lookup_off_in e : In e tbl -> lookup_off tbl (e_off e) = Some e.
Proof.
  intros He. destruct (In_nth tbl e d0 He) as (k & Hk & Ek). rewrite <- Ek. now apply lookup_off_nth.
Qed.

(* FindHash on a consistent cache answers like the map by offset and keeps the cache consistent *)
Theorem mem_find_hash_map st o : st_ok st -> o < 9223372036854775808 ->
  fst (mem_find_hash hs m st (Z.of_N o)) =
    match lookup_off tbl o with Some e => Ok (e_hash e) | None => Err ENotFound end /\
  st_ok (snd (mem_find_hash hs m st (Z.of_N o))).
Proof.
  intros Hst Ho. pose proof Hst as [Sa Sb]. unfold mem_find_hash. fold (cache_get st (Z.of_N o)).
  destruct (cache_get st (Z.of_N o)) as [h|] eqn:Ec.
  - cbn [fst snd]. split; [|exact Hst].
    destruct (Sa _ _ Ec) as (e & He & Eo & Eh). apply N2Z.inj in Eo. subst o. now rewrite lookup_off_in, Eh.
  - destruct (ms_once st) eqn:Eo.
    + cbn [fst snd]. split; [|exact Hst].
      rewrite lookup_off_none; [reflexivity|]. intros e He E. subst o.
      rewrite (Sb eq_refl e He) in Ec. discriminate.
    + rewrite mem_gen_ok. cbn [fst snd]. split.
      * destruct (omap_get genmap (Z.of_N o)) as [h|] eqn:Eg.
        -- destruct (genmap_get_sound _ _ Eg) as (e & He & Eo' & Eh). apply N2Z.inj in Eo'. subst o.
           now rewrite lookup_off_in, Eh.
        -- rewrite lookup_off_none; [reflexivity|]. intros e He E. subst o.
           rewrite genmap_get_in in Eg by exact He. discriminate.
      * split; cbn [cache_get ms_map ms_once].
        -- intros z h. apply genmap_get_sound.
        -- intros _ e He. now apply genmap_get_in.
Qed.

(* FindOffset records (offset -> the id asked for): the cache stays consistent *)
Theorem mem_find_offset_keeps st h : st_ok st -> wf_hash hs h ->
  st_ok (snd (mem_find_offset hs m st h)).
Proof.
  intros Hst Hh. pose proof Hst as [Sa Sb].
  pose proof (FindOffset st h Hh) as Ef. fold m in Ef.
  destruct (find_offset_state hs m st h) as [Es|(o & E1 & E2)]; [now rewrite Es|].
  rewrite E2. rewrite E1 in Ef.
  destruct (lookup tbl h) as [e|] eqn:El; [|discriminate].
  injection Ef as Eo.
  unfold lookup in El. apply find_some in El. destruct El as [He Ehh]. apply bytes_eqb_eq in Ehh.
  rewrite Eo. rewrite i64_small' by now apply Hsmall.
  assert (Hget : forall z, cache_get (mkS (Some ((Z.of_N (e_off e), h) :: match ms_map st with Some mp => mp | None => [] end)) (ms_once st)) z
                 = if (Z.of_N (e_off e) =? z)%Z then Some h else cache_get st z).
  { intros z. unfold cache_get. cbn [ms_map omap_get]. destruct (Z.of_N (e_off e) =? z)%Z; [reflexivity|].
    destruct (ms_map st); reflexivity. }
  split.
  - intros z h' E. rewrite Hget in E. destruct (Z.of_N (e_off e) =? z)%Z eqn:Ez.
    + apply Z.eqb_eq in Ez. injection E as Eh'. exists e. split; [exact He|]. split; [exact Ez|].
      now rewrite <- Eh'.
    + exact (Sa z h' E).
  - cbn [ms_once]. intros Eon e' He'. rewrite Hget. destruct (Z.of_N (e_off e) =? Z.of_N (e_off e'))%Z eqn:Ez.
    + apply Z.eqb_eq, N2Z.inj in Ez.
      assert (Hee : e = e').
      { pose proof (lookup_off_in e He) as L1. pose proof (lookup_off_in e' He') as L2. rewrite Ez in L1.
        rewrite L1 in L2. now injection L2. }
      rewrite <- Hee. now rewrite Ehh.
    + exact (Sb Eon e' He').
Qed.

End MemHash.
