(* Proofs/C49Scope.v — matcher.Match is "last match wins"; Scope: nothing below
   an excluded directory is re-included. *)
From Coq Require Import List NArith Bool Lia.
From GoGit Require Import Base.Out Model.Gitignore.
Import ListNotations.
Local Open Scope N_scope.

(* ---------------- last match wins ---------------- *)

(* the decision of a pattern list: the result of its last pattern that matches *)
Inductive decides : list pat -> list bytes -> bool -> mres -> Prop :=
| D_none : forall ps path d,
    Forall (fun q => pat_match q path d = NoMatch) ps -> decides ps path d NoMatch
| D_last : forall pre p post path d r,
    pat_match p path d = r -> r <> NoMatch ->
    Forall (fun q => pat_match q path d = NoMatch) post ->
    decides (pre ++ p :: post) path d r.

Lemma decides_snoc_nomatch ps p path d r :
  decides ps path d r -> pat_match p path d = NoMatch -> decides (ps ++ [p]) path d r.
Proof.
  intros H E. destruct H.
  - constructor. apply Forall_app. split; [assumption|]. constructor; [exact E|constructor].
  - rewrite <- app_assoc. cbn [app]. apply D_last; [assumption|assumption|].
    apply Forall_app. split; [assumption|]. constructor; [exact E|constructor].
Qed.

Lemma matcher_rev_spec : forall rps path d,
  exists r, decides (rev rps) path d r /\ matcher_rev rps path d = match r with Exclude => true | _ => false end.
Proof.
  induction rps as [|p r IH]; intros path d.
  - exists NoMatch. split; [constructor; constructor|reflexivity].
  - cbn [matcher_rev rev]. destruct (pat_match p path d) eqn:E.
    + destruct (IH path d) as [r0 [Hd Hm]]. exists r0. split; [|exact Hm].
      now apply decides_snoc_nomatch.
    + exists Exclude. split; [|reflexivity].
      apply D_last with (post := []); [exact E|discriminate|constructor].
    + exists Include. split; [|reflexivity].
      apply D_last with (post := []); [exact E|discriminate|constructor].
Qed.

Theorem matcher_last_match_wins ps path d :
  exists r, decides ps path d r /\ matcher_match ps path d = match r with Exclude => true | _ => false end.
Proof.
  unfold matcher_match. destruct (matcher_rev_spec (rev ps) path d) as [r [H1 H2]].
  rewrite rev_involutive in H1. eauto.
Qed.

(* the decision is unique, so [decides] is a function of its arguments *)
Lemma split_last_unique (P : pat -> Prop) : forall pre p post pre0 p0 post0,
  pre ++ p :: post = pre0 ++ p0 :: post0 ->
  ~ P p -> ~ P p0 -> Forall P post -> Forall P post0 ->
  pre = pre0 /\ p = p0 /\ post = post0.
Proof.
  induction pre as [|x pre IHp]; intros p post pre0 p0 post0 Hs Hp Hp0 Hpost Hpost0.
  - destruct pre0 as [|y pre0]; cbn in Hs; inversion Hs; subst; [tauto|].
    exfalso. apply Hp0. rewrite Forall_forall in Hpost. apply Hpost.
    apply in_or_app. right. left. reflexivity.
  - destruct pre0 as [|y pre0]; cbn in Hs; inversion Hs; subst.
    + exfalso. apply Hp. rewrite Forall_forall in Hpost0. apply Hpost0.
      apply in_or_app. right. left. reflexivity.
    + destruct (IHp _ _ _ _ _ H1 Hp Hp0 Hpost Hpost0) as (-> & -> & ->). tauto.
Qed.

Lemma decides_inv ps path d r : decides ps path d r ->
  (r = NoMatch /\ Forall (fun q => pat_match q path d = NoMatch) ps) \/
  (r <> NoMatch /\ exists pre p post, ps = pre ++ p :: post /\ pat_match p path d = r /\
                     Forall (fun q => pat_match q path d = NoMatch) post).
Proof.
  intros H. destruct H.
  - left. split; [reflexivity|assumption].
  - right. split; [assumption|]. eauto 7.
Qed.

Lemma decides_unique ps path d r1 r2 : decides ps path d r1 -> decides ps path d r2 -> r1 = r2.
Proof.
  intros H1 H2. apply decides_inv in H1. apply decides_inv in H2.
  destruct H1 as [[-> A1]|[N1 (pre1 & p1 & post1 & E1 & R1 & A1)]];
  destruct H2 as [[-> A2]|[N2 (pre2 & p2 & post2 & E2 & R2 & A2)]].
  - reflexivity.
  - exfalso. apply N2. rewrite <- R2. rewrite Forall_forall in A1. apply A1. rewrite E2.
    apply in_or_app. right. left. reflexivity.
  - exfalso. apply N1. rewrite <- R1. rewrite Forall_forall in A2. apply A2. rewrite E1.
    apply in_or_app. right. left. reflexivity.
  - rewrite E1 in E2.
    destruct (split_last_unique (fun q => pat_match q path d = NoMatch) _ _ _ _ _ _ E2) as (_ & E & _);
      try assumption; try congruence.
Qed.

(* ---------------- excluded parent ---------------- *)

Lemma descend_excluded fs s dir : sc_excluded s = true -> sc_excluded (descend fs s dir) = true.
Proof. intros H. unfold descend. now rewrite H. Qed.

Lemma walk_excluded fs : forall rest s pre,
  sc_excluded s = true -> sc_excluded (walk fs s pre rest) = true.
Proof.
  induction rest as [|e rest IH]; intros s pre H; cbn [walk]; [exact H|].
  apply IH. now apply descend_excluded.
Qed.

Lemma walk_app fs : forall a s pre b,
  walk fs s pre (a ++ b) = walk fs (walk fs s pre a) (pre ++ a) b.
Proof.
  induction a as [|e a IH]; intros s pre b; cbn [walk app].
  - now rewrite app_nil_r.
  - rewrite IH. now rewrite <- app_assoc.
Qed.

(* if go-git reports directory d as ignored, every path below d is ignored,
   whatever the patterns (negations included) in d or deeper say *)
Theorem excluded_parent excl fs d e rest isdir :
  ignored excl fs d true = true -> ignored excl fs (d ++ e :: rest) isdir = true.
Proof.
  unfold ignored. intros H.
  rewrite walk_app. cbn [app walk].
  set (s := walk fs _ [] d) in *.
  assert (Hx : sc_excluded (descend fs s d) = true).
  { unfold descend. unfold scope_match in H. now rewrite H. }
  unfold scope_match. rewrite (walk_excluded fs rest _ _ Hx). reflexivity.
Qed.

(* and the patterns of an excluded directory's own ignore file are never read:
   the scope below is the scope above, frozen *)
Lemma descend_frozen fs s dir :
  scope_match s dir true = true -> sc_pats (descend fs s dir) = sc_pats s.
Proof. unfold descend, scope_match. intros ->. reflexivity. Qed.
