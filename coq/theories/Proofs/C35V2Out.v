(* Proofs/C35V2Out.v — protocol v2: the fetch response up to the packfile data
   (acknowledgments, shallow-info, wanted-refs, packfile-uris sections and the
   packfile header) round-trips, and Decode stops exactly behind the packfile
   header. *)
From Coq Require Import List Arith NArith ZArith Bool Lia String.
From GoGit Require Import Base.Out Base.GoInt Gen.C34 Model.PktLine Model.C35Utf8 Model.Packp Model.PackpV2
  Proofs.C34Pkt Proofs.C35Base Proofs.C35Utf8 Proofs.C35U Proofs.C35Msgs Proofs.C35Caps Proofs.C35Adv
  Proofs.C35V2Base Proofs.C35V2Caps Proofs.C35V2Fetch Proofs.C35V2Ls.
Import ListNotations.

(* ---------- acknowledgments ---------- *)
Lemma acks_ack_step h rest a : hash_ok h = true ->
  acks_decode (rdp (PData (B "ACK " ++ hash_str h ++ [NL])) :: rest) a = acks_decode rest (fst a ++ [h], snd a).
Proof.
  intros Hh. change (B "ACK " ++ hash_str h ++ [NL]) with (B "ACK " ++ (hash_str h ++ [NL])). rewrite app_assoc.
  rewrite rdp_line. cbn [acks_decode rd_err rd_len rd_payload]. rewrite special_data.
  destruct (clean_kw_hash "ACK " 65%N (skipn 1 (B "ACK ")) h eq_refl eq_refl Hh) as [Hcl _].
  rewrite (C35Utf8.trim_u_clean _ Hcl). rewrite has_prefix_app, (skipn_app_exact (B "ACK ") (hash_str h) 4 eq_refl).
  rewrite (C35Utf8.trim_u_id _ (clean_u_hex _ (hash_str_asciins h Hh))). now rewrite (pfh_str h Hh).
Qed.

Lemma acks_ack_lines : forall hs rest a, forallb hash_ok hs = true ->
  acks_decode (map rdp (map (fun h => PData (B "ACK " ++ hash_str h ++ [NL])) hs) ++ rest) a = acks_decode rest (fst a ++ hs, snd a).
Proof.
  induction hs as [|h hs IH]; intros rest a H.
  - cbn [map app]. rewrite app_nil_r. now destruct a.
  - cbn [forallb] in H. apply andb_prop in H. destruct H as [H1 H2]. cbn [map app].
    rewrite (acks_ack_step h _ a H1), (IH rest _ H2). cbn [fst snd]. now rewrite <- app_assoc.
Qed.

Lemma acks_nak_step rest a : acks_decode (rdp (PData (B "NAK" ++ [NL])) :: rest) a = acks_decode rest a.
Proof. reflexivity. Qed.
Lemma acks_ready_step rest a : acks_decode (rdp (PData (B "ready" ++ [NL])) :: rest) a = acks_decode rest (fst a, true).
Proof. reflexivity. Qed.
Lemma acks_delim rest a : acks_decode (rdp PDelim :: rest) a = inl (1%Z, a, rest).
Proof. reflexivity. Qed.
Lemma acks_flush rest a : acks_decode (rdp PFlush :: rest) a = inl (0%Z, a, rest).
Proof. reflexivity. Qed.

Lemma acks_body a (term : pkt) rest : forallb hash_ok (fst a) = true -> (term = PDelim \/ term = PFlush) ->
  acks_decode (map rdp (acks_encode a ++ [term]) ++ rest) ([], false)
  = inl ((if match term with PDelim => true | _ => false end then 1 else 0)%Z, a, rest).
Proof.
  intros Hh Ht. destruct a as [hs ready]. cbn [fst snd] in *. unfold acks_encode. cbn [fst snd].
  rewrite <- !app_assoc, !map_app, <- !app_assoc. rewrite (acks_ack_lines hs _ _ Hh). cbn [fst snd app].
  destruct ready.
  - cbn [map app]. rewrite acks_ready_step. cbn [fst]. destruct Ht as [-> | ->]; reflexivity.
  - destruct hs as [|h hs].
    + cbn [map app]. rewrite acks_nak_step. destruct Ht as [-> | ->]; reflexivity.
    + cbn [map app]. destruct Ht as [-> | ->]; reflexivity.
Qed.

(* ---------- shallow-info ---------- *)
Lemma shinfo_step (sh : bool) h rest s : hash_ok h = true ->
  shinfo_decode (rdp (PData ((if sh then B "shallow " else B "unshallow ") ++ hash_str h ++ [NL])) :: rest) s
  = shinfo_decode rest (if sh then (fst s ++ [h], snd s) else (fst s, snd s ++ [h])).
Proof.
  intros Hh. destruct sh.
  - change (B "shallow " ++ hash_str h ++ [NL]) with (B "shallow " ++ (hash_str h ++ [NL])). rewrite app_assoc.
    rewrite rdp_line. cbn [shinfo_decode rd_err rd_len rd_payload]. rewrite special_data.
    destruct (clean_kw_hash "shallow " 115%N (skipn 1 (B "shallow ")) h eq_refl eq_refl Hh) as [Hcl _].
    rewrite (C35Utf8.trim_u_clean _ Hcl). rewrite has_prefix_app, (skipn_app_exact (B "shallow ") (hash_str h) 8 eq_refl).
    now rewrite (pfh_str h Hh).
  - change (B "unshallow " ++ hash_str h ++ [NL]) with (B "unshallow " ++ (hash_str h ++ [NL])). rewrite app_assoc.
    rewrite rdp_line. cbn [shinfo_decode rd_err rd_len rd_payload]. rewrite special_data.
    destruct (clean_kw_hash "unshallow " 117%N (skipn 1 (B "unshallow ")) h eq_refl eq_refl Hh) as [Hcl _].
    rewrite (C35Utf8.trim_u_clean _ Hcl).
    change (has_prefix (B "shallow ") (B "unshallow " ++ hash_str h)) with false. cbv iota.
    rewrite has_prefix_app, (skipn_app_exact (B "unshallow ") (hash_str h) 10 eq_refl).
    now rewrite (pfh_str h Hh).
Qed.

Lemma shinfo_lines (sh : bool) : forall hs rest s, forallb hash_ok hs = true ->
  shinfo_decode (map rdp (map (fun h => PData ((if sh then B "shallow " else B "unshallow ") ++ hash_str h ++ [NL])) hs) ++ rest) s
  = shinfo_decode rest (if sh then (fst s ++ hs, snd s) else (fst s, snd s ++ hs)).
Proof.
  induction hs as [|h hs IH]; intros rest s H.
  - cbn [map app]. rewrite !app_nil_r. destruct sh, s; reflexivity.
  - cbn [forallb] in H. apply andb_prop in H. destruct H as [H1 H2]. cbn [map app].
    rewrite (shinfo_step sh h _ s H1), (IH rest _ H2). destruct sh; cbn [fst snd]; now rewrite <- app_assoc.
Qed.

Lemma shinfo_delim rest s : shinfo_decode (rdp PDelim :: rest) s = inl (1%Z, s, rest).
Proof. reflexivity. Qed.

Lemma shinfo_body s rest : forallb hash_ok (fst s) = true -> forallb hash_ok (snd s) = true ->
  shinfo_decode (map rdp (shinfo_encode s ++ [PDelim]) ++ rest) ([], []) = inl (1%Z, s, rest).
Proof.
  intros H1 H2. destruct s as [sh un]. cbn [fst snd] in *. unfold shinfo_encode. cbn [fst snd].
  rewrite <- !app_assoc, !map_app, <- !app_assoc.
  rewrite (shinfo_lines true sh _ _ H1). cbn [fst snd app]. rewrite (shinfo_lines false un _ _ H2). cbn [fst snd app map].
  apply shinfo_delim.
Qed.

(* ---------- wanted-refs ---------- *)
Definition wanted_ok (r : bytes * hash) : bool := word_ok (fst r) && hash_ok (snd r).

Lemma wanted_step r rest w : wanted_ok r = true ->
  wanted_decode (rdp (PData (hash_str (snd r) ++ [SP] ++ fst r ++ [NL])) :: rest) w = wanted_decode rest (w ++ [r]).
Proof.
  destruct r as [name h]. cbn [fst snd]. unfold wanted_ok. cbn [fst snd]. intros H. apply andb_prop in H. destruct H as [Hn Hh].
  destruct (word_asciins name Hn) as [Hne Hna]. destruct (hash_str_nospace h Hh) as [Hns _].
  assert (hash_str h ++ [SP] ++ name ++ [NL] = (hash_str h ++ SP :: name) ++ [NL]) as -> by (cbn [app]; now rewrite <- app_assoc).
  rewrite rdp_line. cbn [wanted_decode rd_err rd_len rd_payload]. rewrite special_data.
  assert (C35Utf8.clean_u (hash_str h ++ SP :: name) = true) as Hcl.
  { pose proof (hash_str_asciins h Hh) as Ha. pose proof (hash_str_ne h Hh) as Hhn.
    destruct (hash_str h) as [|c t] eqn:E; [contradiction|]. cbn [app]. unfold C35Utf8.clean_u.
    cbn [forallb] in Ha. apply andb_prop in Ha. destruct Ha as [-> _]. cbn [andb].
    assert (c :: t ++ SP :: name = (c :: t ++ [SP]) ++ name) as -> by (cbn [app]; now rewrite <- app_assoc).
    rewrite (last_app_ne' _ name _ Hne).
    now apply forallb_last. }
  rewrite (C35Utf8.trim_u_clean _ Hcl), (cut_app SP (hash_str h) name Hns), (pfh_str h Hh). reflexivity.
Qed.

Lemma wanted_lines : forall rs rest w, forallb wanted_ok rs = true ->
  wanted_decode (map rdp (wanted_encode rs) ++ rest) w = wanted_decode rest (w ++ rs).
Proof.
  induction rs as [|r rs IH]; intros rest w H; [cbn; now rewrite app_nil_r|].
  cbn [forallb] in H. apply andb_prop in H. destruct H as [H1 H2]. unfold wanted_encode. cbn [map app].
  rewrite (wanted_step r _ w H1). fold (wanted_encode rs). rewrite (IH rest _ H2). now rewrite <- app_assoc.
Qed.

Lemma wanted_delim rest w : wanted_decode (rdp PDelim :: rest) w = inl (1%Z, w, rest).
Proof. reflexivity. Qed.

Lemma wanted_body rs rest : forallb wanted_ok rs = true ->
  wanted_decode (map rdp (wanted_encode rs ++ [PDelim]) ++ rest) [] = inl (1%Z, rs, rest).
Proof.
  intros H. rewrite map_app, <- app_assoc. rewrite (wanted_lines rs _ [] H). cbn [map app]. apply wanted_delim.
Qed.

(* ---------- packfile-uris ---------- *)
Lemma uris_lines : forall us rest u,
  uris_decode (map rdp (uris_encode us) ++ rest) u = uris_decode rest (u ++ us).
Proof.
  induction us as [|x us IH]; intros rest u; [cbn; now rewrite app_nil_r|].
  unfold uris_encode. cbn [map app]. rewrite rdp_line. cbn [uris_decode rd_err rd_len rd_payload]. rewrite special_data, trim_eol_app.
  fold (uris_encode us). rewrite IH. now rewrite <- app_assoc.
Qed.

Lemma uris_delim rest u : uris_decode (rdp PDelim :: rest) u = inl (1%Z, u, rest).
Proof. reflexivity. Qed.

Lemma uris_body us rest : uris_decode (map rdp (uris_encode us ++ [PDelim]) ++ rest) [] = inl (1%Z, us, rest).
Proof. rewrite map_app, <- app_assoc. rewrite (uris_lines us _ []). cbn [map app]. apply uris_delim. Qed.

(* ---------- the section loop ---------- *)
Definition set_acks o a := mkfetchout (Some a) (fo_shallow o) (fo_wanted o) (fo_uris o) (fo_packfile o).
Definition set_shallow o s := mkfetchout (fo_acks o) (Some s) (fo_wanted o) (fo_uris o) (fo_packfile o).
Definition set_wanted o w := mkfetchout (fo_acks o) (fo_shallow o) (Some w) (fo_uris o) (fo_packfile o).
Definition set_uris o u := mkfetchout (fo_acks o) (fo_shallow o) (fo_wanted o) (Some u) (fo_packfile o).

Lemma head_acks f rest expect o :
  fetchout_decode_go (S f) (rdp (PData (B "acknowledgments" ++ [NL])) :: rest) 0 expect o =
  match acks_decode rest ([], false) with
  | inr e => inr e
  | inl (term, a, r') =>
    if snd a then (if (term =? 1)%Z then fetchout_decode_go f r' 1 true (set_acks o a) else inr V2Malformed)
    else (if (term =? 1)%Z then inr V2Malformed else inl (set_acks o a, r'))
  end.
Proof. reflexivity. Qed.

Lemma leb_false a b : (b < a)%nat -> Nat.leb a b = false.
Proof. intros H. destruct (Nat.leb_spec a b); [lia|reflexivity]. Qed.

Lemma head_shallow f rest last expect o : (last < 2)%nat ->
  fetchout_decode_go (S f) (rdp (PData (B "shallow-info" ++ [NL])) :: rest) last expect o =
  match shinfo_decode rest ([], []) with
  | inr e => inr e
  | inl (term, s, r') => if (term =? 1)%Z then fetchout_decode_go f r' 2 true (set_shallow o s) else inr V2Malformed
  end.
Proof.
  intros H. cbn [fetchout_decode_go rl_next]. rewrite rdp_line. cbn [rd_err rd_len rd_payload].
  rewrite !len_data_nz by lia. cbn [orb].
  change (trim_space_u (B "shallow-info" ++ [NL])) with (B "shallow-info").
  change (section_rank (B "shallow-info")) with 2%nat. cbn [Nat.eqb]. now rewrite (leb_false 2 last H).
Qed.

Lemma head_wanted f rest last expect o : (last < 3)%nat ->
  fetchout_decode_go (S f) (rdp (PData (B "wanted-refs" ++ [NL])) :: rest) last expect o =
  match wanted_decode rest [] with
  | inr e => inr e
  | inl (term, w, r') => if (term =? 1)%Z then fetchout_decode_go f r' 3 true (set_wanted o w) else inr V2Malformed
  end.
Proof.
  intros H. cbn [fetchout_decode_go rl_next]. rewrite rdp_line. cbn [rd_err rd_len rd_payload].
  rewrite !len_data_nz by lia. cbn [orb].
  change (trim_space_u (B "wanted-refs" ++ [NL])) with (B "wanted-refs").
  change (section_rank (B "wanted-refs")) with 3%nat. cbn [Nat.eqb]. now rewrite (leb_false 3 last H).
Qed.

Lemma head_uris f rest last expect o : (last < 4)%nat ->
  fetchout_decode_go (S f) (rdp (PData (B "packfile-uris" ++ [NL])) :: rest) last expect o =
  match uris_decode rest [] with
  | inr e => inr e
  | inl (term, u, r') => if (term =? 1)%Z then fetchout_decode_go f r' 4 true (set_uris o u) else inr V2Malformed
  end.
Proof.
  intros H. cbn [fetchout_decode_go rl_next]. rewrite rdp_line. cbn [rd_err rd_len rd_payload].
  rewrite !len_data_nz by lia. cbn [orb].
  change (trim_space_u (B "packfile-uris" ++ [NL])) with (B "packfile-uris").
  change (section_rank (B "packfile-uris")) with 4%nat. cbn [Nat.eqb]. now rewrite (leb_false 4 last H).
Qed.

Lemma head_packfile f rest last expect o : (last < 5)%nat ->
  fetchout_decode_go (S f) (rdp (PData (B "packfile" ++ [NL])) :: rest) last expect o =
  inl (mkfetchout (fo_acks o) (fo_shallow o) (fo_wanted o) (fo_uris o) true, rest).
Proof.
  intros H. cbn [fetchout_decode_go rl_next]. rewrite rdp_line. cbn [rd_err rd_len rd_payload].
  rewrite !len_data_nz by lia. cbn [orb].
  change (trim_space_u (B "packfile" ++ [NL])) with (B "packfile").
  change (section_rank (B "packfile")) with 5%nat. cbn [Nat.eqb]. now rewrite (leb_false 5 last H).
Qed.

(* one optional section each *)
Lemma sec_none {A} (hdr : string) (enc : A -> list pkt) rest : map rdp (section hdr enc None) ++ rest = rest.
Proof. reflexivity. Qed.

Lemma sec_acks f rest expect o a : forallb hash_ok (fst a) = true -> snd a = true ->
  fetchout_decode_go (S f) (map rdp (section "acknowledgments" acks_encode (Some a)) ++ rest) 0 expect o
  = fetchout_decode_go f rest 1 true (set_acks o a).
Proof.
  intros Hh Hr. unfold section. cbn [map app]. rewrite head_acks. rewrite (acks_body a PDelim rest Hh (or_introl eq_refl)).
  now rewrite Hr.
Qed.

Lemma sec_shallow f rest last expect o s : (last < 2)%nat -> forallb hash_ok (fst s) = true -> forallb hash_ok (snd s) = true ->
  fetchout_decode_go (S f) (map rdp (section "shallow-info" shinfo_encode (Some s)) ++ rest) last expect o
  = fetchout_decode_go f rest 2 true (set_shallow o s).
Proof.
  intros Hl H1 H2. unfold section. cbn [map app]. rewrite (head_shallow f _ last expect o Hl). now rewrite (shinfo_body s rest H1 H2).
Qed.

Lemma sec_wanted f rest last expect o w : (last < 3)%nat -> forallb wanted_ok w = true ->
  fetchout_decode_go (S f) (map rdp (section "wanted-refs" wanted_encode (Some w)) ++ rest) last expect o
  = fetchout_decode_go f rest 3 true (set_wanted o w).
Proof.
  intros Hl H. unfold section. cbn [map app]. rewrite (head_wanted f _ last expect o Hl). now rewrite (wanted_body w rest H).
Qed.

Lemma sec_uris f rest last expect o u : (last < 4)%nat ->
  fetchout_decode_go (S f) (map rdp (section "packfile-uris" uris_encode (Some u)) ++ rest) last expect o
  = fetchout_decode_go f rest 4 true (set_uris o u).
Proof.
  intros Hl. unfold section. cbn [map app]. rewrite (head_uris f _ last expect o Hl). now rewrite (uris_body u rest).
Qed.

(* ---------- the guard ---------- *)
Definition opt_ok {A} (f : A -> bool) (o : option A) : bool := match o with Some x => f x | None => true end.
Definition uri_ok (u : bytes) : bool := negb (has_prefix errPrefix (u ++ [NL])).

Definition fetchout_ok (o : fetchout) : bool :=
  opt_ok (fun a : list hash * bool => forallb hash_ok (fst a)) (fo_acks o) &&
  opt_ok (fun s : list hash * list hash => forallb hash_ok (fst s) && forallb hash_ok (snd s)) (fo_shallow o) &&
  opt_ok (forallb wanted_ok) (fo_wanted o) && opt_ok (forallb uri_ok) (fo_uris o) &&
  (if fo_packfile o then opt_ok (fun a : list hash * bool => snd a) (fo_acks o)
   else match fo_acks o, fo_shallow o, fo_wanted o, fo_uris o with
        | Some a, None, None, None => negb (snd a)
        | _, _, _, _ => false
        end).

Lemma acks_noerr a : forallb no_errline (acks_encode a) = true.
Proof.
  unfold acks_encode. rewrite forallb_app. apply andb_true_intro. split.
  - apply forallb_forall. intros p Hp. apply in_map_iff in Hp. destruct Hp as (h & <- & _). reflexivity.
  - destruct (snd a); [reflexivity|]. destruct (fst a); reflexivity.
Qed.

Lemma section_noerr {A} (hdr : string) (enc : A -> list pkt) (o : option A) :
  has_prefix errPrefix (B hdr ++ [NL]) = false -> (forall x, o = Some x -> forallb no_errline (enc x) = true) ->
  forallb no_errline (section hdr enc o) = true.
Proof.
  intros Hh He. destruct o as [x|]; [|reflexivity]. unfold section. cbn [forallb no_errline]. rewrite Hh. cbn [negb andb].
  rewrite forallb_app, (He x eq_refl). reflexivity.
Qed.

Theorem fetchout_roundtrip o ps tail : fetchout_ok o = true -> fetchout_encode o = Some ps ->
  forallb no_errline ps = true /\ fetchout_decode (map rdp ps ++ tail) = inl (o, tail).
Proof.
  unfold fetchout_ok. intros H He.
  repeat (apply andb_prop in H; let X := fresh "G" in destruct H as [H X]).
  rename H into Ha, G2 into Hs, G1 into Hw, G0 into Hu, G into Hshape.
  destruct o as [acks sh wr ur pf]. cbn [fo_acks fo_shallow fo_wanted fo_uris fo_packfile] in *.
  unfold fetchout_encode in He. cbn [fo_acks fo_shallow fo_wanted fo_uris fo_packfile] in He.
  destruct pf.
  - (* the response carries a packfile *)
    apply (f_equal (fun x => match x with Some y => y | None => [] end)) in He. cbv beta iota in He. subst ps. split.
    + rewrite !forallb_app. repeat (apply andb_true_intro; split); try reflexivity.
      * apply section_noerr; [reflexivity|]. intros x _. apply acks_noerr.
      * apply section_noerr; [reflexivity|]. intros x _. unfold shinfo_encode. rewrite forallb_app. apply andb_true_intro.
        split; apply forallb_forall; intros p Hp; apply in_map_iff in Hp; destruct Hp as (h & <- & _); reflexivity.
      * apply section_noerr; [reflexivity|]. intros x Ex. subst wr. cbn [opt_ok] in Hw.
        unfold wanted_encode. apply forallb_forall. intros p Hp. apply in_map_iff in Hp. destruct Hp as (r & <- & Hin).
        rewrite forallb_forall in Hw. specialize (Hw r Hin). unfold wanted_ok in Hw. apply andb_prop in Hw. destruct Hw as [_ Hh].
        cbn [no_errline]. now rewrite (hash_line_noerr (snd r) _ Hh).
      * apply section_noerr; [reflexivity|]. intros x Ex. subst ur. cbn [opt_ok] in Hu.
        unfold uris_encode. apply forallb_forall. intros p Hp. apply in_map_iff in Hp. destruct Hp as (u & <- & Hin).
        rewrite forallb_forall in Hu. apply (Hu u Hin).
    + unfold fetchout_decode. rewrite !map_app, <- !app_assoc.
      destruct acks as [a|], sh as [s|], wr as [w|], ur as [u|]; cbn [opt_ok] in *;
        try (apply andb_prop in Hs; destruct Hs as [Hs1 Hs2]);
        rewrite ?sec_none;
        try rewrite (sec_acks _ _ _ _ a Ha Hshape);
        try (rewrite (sec_shallow _ _ _ _ _ s) by (auto; lia));
        try (rewrite (sec_wanted _ _ _ _ _ w) by (auto; lia));
        try (rewrite (sec_uris _ _ _ _ _ u) by lia);
        cbn [map app]; rewrite head_packfile by lia; reflexivity.
  - (* a negotiation round: acknowledgments, flush-pkt *)
    destruct acks as [a|]; [|discriminate]. destruct sh; [discriminate|]. destruct wr; [discriminate|]. destruct ur; [discriminate|].
    cbn [opt_ok] in *. apply negb_true_iff in Hshape. rewrite Hshape in He.
    apply (f_equal (fun x => match x with Some y => y | None => [] end)) in He. cbv beta iota in He. subst ps. split.
    + cbn [forallb]. rewrite forallb_app, acks_noerr. reflexivity.
    + unfold fetchout_decode. cbn [map app]. rewrite head_acks. rewrite (acks_body a PFlush tail Ha (or_intror eq_refl)).
      rewrite Hshape. cbn [Z.eqb]. unfold set_acks, fetchout_zero. reflexivity.
Qed.

(* ---------- where Decode stops: right behind the packfile header ---------- *)
Lemma tagged_last : forall ps p t rest d,
  snd (nth (List.length ps) (tagged (ps ++ [p]) t ++ rest) d) = t.
Proof.
  induction ps as [|q ps IH]; intros p t rest d.
  - cbn [app tagged nth List.length snd]. unfold enc_len. cbn. reflexivity.
  - cbn [app tagged nth List.length]. apply IH.
Qed.

Theorem fetchout_position o ps s t r : fetchout_ok o = true -> fo_packfile o = true -> fetchout_encode o = Some ps ->
  enc_pkts ps = Some s -> List.concat r = s ++ t ->
  exists ls', fetchout_decode (map fst (rl_all r)) = inl (o, ls') /\ rl_rest (rlen r) (rl_all r) ls' = List.length t.
Proof.
  intros Hok Hpf He Hs Hr. pose proof He as He'.
  destruct (fetchout_roundtrip o ps [] Hok He) as [Hne _].
  destruct (rl_all_tail ps s t r Hs Hne Hr) as (rest & Hall & _).
  exists (map fst rest). rewrite Hall, map_app, map_fst_tagged.
  destruct (fetchout_roundtrip o ps (map fst rest) Hok He) as [_ Hd]. split; [exact Hd|].
  unfold rl_rest. rewrite app_length, map_length, tagged_length.
  (* the encoding of a response with a packfile ends with the packfile header: it is not empty *)
  unfold fetchout_encode in He'. rewrite Hpf in He'.
  apply (f_equal (fun x => match x with Some y => y | None => [] end)) in He'. cbv beta iota in He'.
  set (pre := section "acknowledgments" acks_encode (fo_acks o) ++ section "shallow-info" shinfo_encode (fo_shallow o) ++
              section "wanted-refs" wanted_encode (fo_wanted o) ++ section "packfile-uris" uris_encode (fo_uris o)) in *.
  assert (ps = pre ++ [PData (B "packfile" ++ [NL])]) as -> by (subst ps; unfold pre; now rewrite <- !app_assoc).
  rewrite app_length. cbn [List.length]. replace (List.length pre + 1 + List.length rest - List.length rest)%nat with (S (List.length pre)) by lia.
  apply tagged_last.
Qed.
