(* Proofs/C35V2Caps.v — protocol v2: the one-capability-per-line list
   (EncodeListV2 / DecodeListV2), the capability advertisement and the
   ls-refs arguments round-trip. *)
From Coq Require Import List Arith NArith ZArith Bool Lia String.
From GoGit Require Import Base.Out Base.GoInt Gen.C34 Model.PktLine Model.C35Utf8 Model.Packp Model.PackpV2
  Proofs.C34Pkt Proofs.C35Base Proofs.C35Msgs Proofs.C35Caps Proofs.C35V2Base.
Import ListNotations.

(* a v2 value is one word: non-empty, graphic, no blank *)
Definition val2_ok (v : bytes) : bool := match v with [] => false | _ => forallb tokc v end.
Definition caps2_ok (l : caps) : bool :=
  forallb (fun e => key_ok (fst e) && forallb val2_ok (snd e)) l && keys_distinct l.

Definition cap2_line (e : bytes * list bytes) : bytes :=
  match snd e with [] => fst e | vs => fst e ++ [EQ] ++ join [SP] vs end.

Lemma caps2_encode_eq l : caps2_encode l = map (fun e => PData (cap2_line e ++ [NL])) l.
Proof.
  unfold caps2_encode. apply map_ext. intros [k vs]. unfold cap2_line. cbn [fst snd].
  destruct vs; [reflexivity|]. now rewrite <- !app_assoc.
Qed.

Lemma val2_props v : val2_ok v = true -> v <> [] /\ no_byte SP v = true.
Proof.
  unfold val2_ok. destruct v as [|c v]; [discriminate|]. intros H. split; [discriminate|].
  unfold no_byte. rewrite forallb_forall in *. intros x Hx. destruct (tokc_facts _ (H x Hx)) as [_ ->]. reflexivity.
Qed.

Lemma add_values_go k : forall vs acc v0s, absent k acc = true -> forallb val2_ok vs = true ->
  caps2_add_values (acc ++ [(k, v0s)]) k vs = acc ++ [(k, v0s ++ vs)].
Proof.
  induction vs as [|v vs IH]; intros acc v0s Ha Hv; [cbn; now rewrite app_nil_r|].
  cbn [forallb] in Hv. apply andb_prop in Hv. destruct Hv as [Hv1 Hv2].
  destruct (val2_props v Hv1) as [Hne _]. unfold caps2_add_values. cbn [fold_left].
  destruct v as [|c v']; [contradiction|].
  etransitivity; [apply f_equal; apply (cap_add_last acc k v0s [c :: v'] Ha)|].
  etransitivity; [apply (IH acc (v0s ++ [c :: v']) Ha Hv2)|]. do 3 f_equal. now rewrite <- app_assoc.
Qed.

Lemma add_values k vs acc : absent k acc = true -> vs <> [] -> forallb val2_ok vs = true ->
  caps2_add_values acc k vs = acc ++ [(k, vs)].
Proof.
  intros Ha Hne Hv. destruct vs as [|v vs]; [contradiction|].
  cbn [forallb] in Hv. apply andb_prop in Hv. destruct Hv as [Hv1 Hv2].
  destruct (val2_props v Hv1) as [Hvn _]. unfold caps2_add_values. cbn [fold_left].
  destruct v as [|c v']; [contradiction|].
  etransitivity; [apply f_equal; apply (cap_add_absent acc k [c :: v'] Ha)|].
  apply (add_values_go k vs acc [c :: v'] Ha Hv2).
Qed.

Lemma caps2_step e rest acc : key_ok (fst e) = true -> forallb val2_ok (snd e) = true -> absent (fst e) acc = true ->
  caps2_decode (rdp (PData (cap2_line e ++ [NL])) :: rest) acc = caps2_decode rest (acc ++ [e]).
Proof.
  destruct e as [k vs]. cbn [fst snd]. intros Hk Hv Ha. destruct (key_noeq k Hk) as [Hne Hnn].
  unfold EQ in *. rewrite rdp_line. cbn [caps2_decode rd_err rd_len rd_payload]. rewrite special_data, trim_eol_app.
  unfold cap2_line. cbn [fst snd]. unfold EQ. destruct vs as [|v vs].
  - destruct k as [|c k]; [contradiction|]. rewrite (cut_none 61%N _ Hne). now rewrite (cap_add_absent acc (c :: k) [] Ha).
  - destruct (k ++ [61%N] ++ join [SP] (v :: vs)) as [|c0 t0] eqn:E; [destruct k; discriminate|]. rewrite <- E.
    change (k ++ [61%N] ++ join [SP] (v :: vs)) with (k ++ 61%N :: join [SP] (v :: vs)). rewrite (cut_app 61%N k _ Hne).
    rewrite split_join; [|discriminate|].
    + now rewrite (add_values k (v :: vs) acc Ha ltac:(discriminate) Hv).
    + apply forallb_forall. intros x Hx. rewrite forallb_forall in Hv. now destruct (val2_props x (Hv x Hx)).
Qed.

Lemma caps2_lines : forall l rest acc,
  forallb (fun e => key_ok (fst e) && forallb val2_ok (snd e)) l = true -> keys_distinct l = true ->
  forallb (fun e => absent (fst e) acc) l = true ->
  caps2_decode (map rdp (caps2_encode l) ++ rest) acc = caps2_decode rest (acc ++ l).
Proof.
  intros l rest. rewrite caps2_encode_eq.
  induction l as [|[k vs] l IH]; intros acc Hk Hd Ha; [cbn; now rewrite app_nil_r|].
  cbn [forallb fst snd] in Hk, Ha. apply andb_prop in Hk, Ha. destruct Hk as [Hk1 Hk2], Ha as [Ha1 Ha2].
  apply andb_prop in Hk1. destruct Hk1 as [Hkk Hkv].
  cbn [keys_distinct] in Hd. apply andb_prop in Hd. destruct Hd as [Hd1 Hd2].
  cbn [map app]. rewrite (caps2_step (k, vs) _ acc Hkk Hkv Ha1).
  rewrite IH; [now rewrite <- app_assoc|assumption|assumption|].
  apply forallb_forall. intros [k2 vs2] Hin. cbn [fst]. rewrite absent_app.
  rewrite forallb_forall in Ha2. pose proof (Ha2 _ Hin) as Hab2. cbn [fst] in Hab2. rewrite Hab2. cbn [andb].
  unfold absent. cbn [existsb fst]. rewrite orb_false_r.
  apply negb_true_iff in Hd1. destruct (beq k k2) eqn:E; [|reflexivity].
  exfalso. rewrite <- not_true_iff_false in Hd1. apply Hd1. apply existsb_exists. exists (k2, vs2). split; [assumption|].
  cbn [fst]. now rewrite beq_sym.
Qed.

Lemma caps2_all l rest : caps2_ok l = true ->
  caps2_decode (map rdp (caps2_encode l) ++ rest) [] = caps2_decode rest l.
Proof.
  unfold caps2_ok. intros H. apply andb_prop in H. destruct H as [H1 H2].
  rewrite (caps2_lines l rest [] H1 H2); [reflexivity|]. apply forallb_forall. intros e _. reflexivity.
Qed.

(* no capability line is an ERR line *)
Lemma cap2_line_noerr e : key_ok (fst e) = true -> no_errline (PData (cap2_line e ++ [NL])) = true.
Proof.
  destruct e as [k vs]. cbn [fst]. intros Hk. cbn [no_errline]. apply negb_true_iff.
  unfold key_ok in Hk. destruct k as [|c1 k]; [discriminate|].
  assert (forall c, In c (c1 :: k) -> N.eqb c SP = false /\ N.eqb c EQ = false) as Hc.
  { intros c Hin. rewrite forallb_forall in Hk. specialize (Hk c Hin). apply andb_prop in Hk. destruct Hk as [Ht Hq].
    destruct (tokc_facts c Ht) as [_ ->]. apply negb_true_iff in Hq. auto. }
  unfold cap2_line. cbn [fst snd].
  assert (forall tail, (tail = [] \/ exists t, tail = EQ :: t) -> has_prefix errPrefix ((c1 :: k) ++ tail ++ [NL]) = false) as K.
  { intros tail Ht. change errPrefix with [69; 82; 82; 32]%N.
    destruct k as [|c2 k].
    { destruct Ht as [-> | (t & ->)]; cbn [app has_prefix]; [destruct (69 =? c1)%N; reflexivity|].
      destruct (69 =? c1)%N; [|reflexivity]. reflexivity. }
    destruct k as [|c3 k].
    { destruct Ht as [-> | (t & ->)]; cbn [app has_prefix].
      - destruct (69 =? c1)%N, (82 =? c2)%N; reflexivity.
      - destruct (69 =? c1)%N, (82 =? c2)%N; reflexivity. }
    destruct k as [|c4 k].
    { destruct Ht as [-> | (t & ->)]; cbn [app has_prefix].
      - destruct (69 =? c1)%N, (82 =? c2)%N, (82 =? c3)%N; reflexivity.
      - destruct (69 =? c1)%N, (82 =? c2)%N, (82 =? c3)%N; reflexivity. }
    cbn [app has_prefix]. destruct (Hc c4 ltac:(cbn; auto)) as [H4 _]. rewrite N.eqb_sym in H4. unfold SP in H4. rewrite H4.
    now rewrite !andb_false_r. }
  destruct vs as [|v vs].
  - specialize (K [] (or_introl eq_refl)). cbn [app] in K. exact K.
  - specialize (K ([EQ] ++ join [SP] (v :: vs)) (or_intror (ex_intro _ _ eq_refl))).
    rewrite <- !app_assoc in K. rewrite <- !app_assoc. exact K.
Qed.

Lemma caps2_noerr l : forallb (fun e => key_ok (fst e) && forallb val2_ok (snd e)) l = true ->
  forallb no_errline (caps2_encode l) = true.
Proof.
  intros H. rewrite caps2_encode_eq. apply forallb_forall. intros p Hp. apply in_map_iff in Hp. destruct Hp as (e & <- & Hin).
  rewrite forallb_forall in H. specialize (H e Hin). apply andb_prop in H. now apply cap2_line_noerr.
Qed.

(* ================= CapabilityAdv ================= *)
Lemma capadv_head rest : capadv_decode (rdp (PData (B "version 2" ++ [NL])) :: rest) =
  match caps2_decode rest [] with
  | inr e => inr e
  | inl (len, l, r') => if (len =? 0)%Z then inl (2%Z, l, r') else inr V2Other
  end.
Proof. reflexivity. Qed.

Theorem capadv_roundtrip l ps tail : caps2_ok l = true -> capadv_encode 2 l = Some ps ->
  forallb no_errline ps = true /\
  capadv_decode (map rdp ps ++ tail) = inl (2%Z, l, tail).
Proof.
  intros Hok He. unfold capadv_encode in He. cbn [Z.eqb Pos.eqb] in He. injection He as <-. split.
  - cbn [forallb]. rewrite forallb_app. cbn [forallb andb].
    unfold caps2_ok in Hok. apply andb_prop in Hok. destruct Hok as [H1 _]. rewrite (caps2_noerr l H1). reflexivity.
  - cbn [map app]. rewrite capadv_head. rewrite map_app, <- app_assoc. rewrite (caps2_all l _ Hok). reflexivity.
Qed.

(* ================= LsRefsArgs ================= *)
(* a prefix Encode accepts and Decode gives back: non-empty graphic ASCII without blanks *)
Definition prefix_ok (p : bytes) : bool := match p with [] => false | _ => forallb tokc p end.
Definition lsargs_ok (a : lsargs) : bool := forallb prefix_ok (la_prefixes a).

Lemma tokc_ascii c : tokc c = true -> C35Utf8.ascii c = true.
Proof. intros H. pose proof (tokc_asciins c H) as A. unfold C35Utf8.asciins in A. now apply andb_prop in A. Qed.

Lemma prefix_ok_ref p : prefix_ok p = true -> ref_prefix_ok p = true.
Proof.
  unfold prefix_ok, ref_prefix_ok. destruct p as [|c p]; [discriminate|]. intros H. apply negb_true_iff.
  rewrite C35Utf8.contains_rune_ascii.
  - apply not_true_iff_false. intros E. apply existsb_exists in E. destruct E as (x & Hx & Hf).
    rewrite forallb_forall in H. specialize (H x Hx). pose proof (tokc_asciins x H) as A.
    destruct (C35Utf8.asciins_spec x A) as (_ & S1 & _). rewrite S1, orb_false_r in Hf.
    unfold tokc in H. apply andb_prop in H. destruct H as [H1 H2]. apply N.leb_le in H1, H2.
    unfold is_control_rune in Hf. destruct (N.eqb_spec x 0); [lia|]. cbn [orb] in Hf.
    destruct (N.ltb_spec x 32); [lia|]. cbn [orb] in Hf. apply andb_prop in Hf. destruct Hf as [Hf1 Hf2].
    apply N.leb_le in Hf1. lia.
  - rewrite forallb_forall in *. intros x Hx. now apply tokc_ascii, H.
Qed.

Definition set_prefixes (a : lsargs) (ps : list bytes) := mklsargs (la_peel a) (la_symrefs a) (la_unborn a) ps.

Lemma lsargs_prefix_step p rest a : p <> [] ->
  lsargs_decode (rdp (PData (B "ref-prefix " ++ p ++ [NL])) :: rest) a = lsargs_decode rest (set_prefixes a (la_prefixes a ++ [p])).
Proof.
  intros Hne. change (B "ref-prefix " ++ p ++ [NL]) with ((B "ref-prefix " ++ p) ++ [NL]).
  rewrite rdp_line. cbn [lsargs_decode rd_err rd_len rd_payload]. rewrite len_data_nz by lia. rewrite trim_eol_app.
  destruct (B "ref-prefix " ++ p) as [|c0 t0] eqn:E; [discriminate|]. rewrite <- E.
  change (beq (B "ref-prefix " ++ p) (B "peel")) with false.
  change (beq (B "ref-prefix " ++ p) (B "symrefs")) with false.
  change (beq (B "ref-prefix " ++ p) (B "unborn")) with false. cbv iota.
  rewrite has_prefix_app. now rewrite (skipn_app_exact (B "ref-prefix ") p 11 eq_refl).
Qed.

Lemma lsargs_prefix_lines : forall ps rest a, forallb prefix_ok ps = true ->
  lsargs_decode (map rdp (map (fun p => PData (B "ref-prefix " ++ p ++ [NL])) ps) ++ rest) a
  = lsargs_decode rest (set_prefixes a (la_prefixes a ++ ps)).
Proof.
  induction ps as [|p ps IH]; intros rest a H.
  - cbn [map app]. rewrite app_nil_r. destruct a; reflexivity.
  - cbn [forallb] in H. apply andb_prop in H. destruct H as [H1 H2]. cbn [map app].
    rewrite lsargs_prefix_step by (destruct p; [discriminate|discriminate]).
    rewrite (IH rest _ H2). unfold set_prefixes. cbn [la_peel la_symrefs la_unborn la_prefixes]. now rewrite <- app_assoc.
Qed.

Lemma lsargs_peel (b : bool) rest a :
  lsargs_decode (map rdp (if b then [PData (B "peel" ++ [NL])] else []) ++ rest) a
  = lsargs_decode rest (if b then mklsargs true (la_symrefs a) (la_unborn a) (la_prefixes a) else a).
Proof. destruct b; reflexivity. Qed.
Lemma lsargs_symrefs (b : bool) rest a :
  lsargs_decode (map rdp (if b then [PData (B "symrefs" ++ [NL])] else []) ++ rest) a
  = lsargs_decode rest (if b then mklsargs (la_peel a) true (la_unborn a) (la_prefixes a) else a).
Proof. destruct b; reflexivity. Qed.
Lemma lsargs_unborn (b : bool) rest a :
  lsargs_decode (map rdp (if b then [PData (B "unborn" ++ [NL])] else []) ++ rest) a
  = lsargs_decode rest (if b then mklsargs (la_peel a) (la_symrefs a) true (la_prefixes a) else a).
Proof. destruct b; reflexivity. Qed.

Theorem lsargs_roundtrip a ps tail : lsargs_ok a = true ->
  lsargs_encode a = Some ps ->
  forallb no_errline ps = true /\
  lsargs_decode (map rdp (ps ++ [PFlush]) ++ tail) lsargs_zero = inl (a, tail).
Proof.
  intros Hok He. unfold lsargs_ok in Hok. unfold lsargs_encode in He.
  assert (forallb ref_prefix_ok (la_prefixes a) = true) as Hr.
  { rewrite forallb_forall in *. intros p Hp. now apply prefix_ok_ref, Hok. }
  rewrite Hr in He. injection He as <-. split.
  - rewrite !forallb_app. repeat (apply andb_true_intro; split).
    + destruct (la_peel a); reflexivity.
    + destruct (la_symrefs a); reflexivity.
    + destruct (la_unborn a); reflexivity.
    + apply forallb_forall. intros p Hp. apply in_map_iff in Hp. destruct Hp as (x & <- & _). reflexivity.
  - rewrite <- !app_assoc. rewrite !map_app, <- !app_assoc.
    rewrite lsargs_peel, lsargs_symrefs, lsargs_unborn.
    rewrite (lsargs_prefix_lines (la_prefixes a) _ _ Hok).
    destruct a as [peel sym unb pre]. cbn [la_peel la_symrefs la_unborn la_prefixes].
    destruct peel, sym, unb; reflexivity.
Qed.
