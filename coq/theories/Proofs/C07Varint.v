(* Proofs/C07Varint.v — entryHead and the OFS_DELTA distance encoding are inverted
   by git's decoders (unpack_object_header_buffer, get_delta_base). *)
From Coq Require Import List NArith Arith Lia Bool.
From Coq Require Import ZifyBool ZifyNat ZifyN.
From GoGit Require Import Base.Out Model.PackEnc Proofs.C06Diff.
Import ListNotations.
Local Open Scope N_scope.

(* ---------------------------------------------------------------- arithmetic of 7-bit groups *)
Lemma land127_mod x : N.land x 127 = x mod 128.
Proof. change 127 with (N.ones 7). rewrite N.land_ones. reflexivity. Qed.

Lemma shiftr7_div x : N.shiftr x 7 = x / 128.
Proof. rewrite N.shiftr_div_pow2. reflexivity. Qed.

Lemma shiftl7_mul x : N.shiftl x 7 = x * 128.
Proof. rewrite N.shiftl_mul_pow2. reflexivity. Qed.

Lemma split7_add x : N.shiftl (N.shiftr x 7) 7 + N.land x 127 = x.
Proof.
  rewrite shiftl7_mul, shiftr7_div, land127_mod.
  pose proof (N.div_mod x 128 ltac:(discriminate)). lia.
Qed.

Lemma lor128_land128 x : N.land (N.lor 128 (N.land x 127)) 128 =? 0 = false.
Proof.
  rewrite N.land_lor_distr_l, land127_128. reflexivity.
Qed.

Lemma lor128_land127 x : N.land (N.lor 128 (N.land x 127)) 127 = N.land x 127.
Proof.
  rewrite N.land_lor_distr_l, land127_idem. reflexivity.
Qed.

Lemma small_land127 x : x < 128 -> N.land x 127 = x.
Proof. intros H. rewrite land127_mod. apply N.mod_small. exact H. Qed.

Lemma shiftr7_zero_small x : N.shiftr x 7 = 0 -> x < 128.
Proof.
  rewrite shiftr7_div. intros H. apply N.div_small_iff in H; [exact H|discriminate].
Qed.

(* ---------------------------------------------------------------- WriteVariableWidthInt *)
Lemma ofs_go_app : forall f m acc rest, ofs_go f m acc ++ rest = ofs_go f m (acc ++ rest).
Proof.
  induction f as [|f IH]; intros m acc rest; [reflexivity|].
  cbn [ofs_go]. destruct (m =? 0); [reflexivity|]. cbv zeta. rewrite IH. reflexivity.
Qed.

Lemma ofs_go_decode : forall f m tl, m < 2 ^ N.of_nat f ->
  ofs_decode (ofs_go f m tl) = if m =? 0 then ofs_decode tl else ofs_decode_go tl (m - 1).
Proof.
  induction f as [|f IH]; intros m tl Hm.
  - change (2 ^ N.of_nat 0) with 1 in Hm. assert (m = 0) by lia. subst m. reflexivity.
  - cbn [ofs_go]. destruct (m =? 0) eqn:E0; [reflexivity|]. cbv zeta.
    apply N.eqb_neq in E0.
    set (m1 := m - 1) in *.
    assert (Hm' : N.shiftr m1 7 < 2 ^ N.of_nat f).
    { rewrite shiftr7_div. apply N.div_lt_upper_bound; [discriminate|].
      apply N.lt_le_trans with (2 ^ N.of_nat (S f)); [unfold m1; lia|].
      change 128 with (2 ^ 7). rewrite <- N.pow_add_r. apply N.pow_le_mono_r; [discriminate|lia]. }
    rewrite IH by assumption.
    destruct (N.shiftr m1 7 =? 0) eqn:E1.
    + apply N.eqb_eq in E1. cbn [ofs_decode]. rewrite lor128_land128, lor128_land127.
      rewrite small_land127 by (apply shiftr7_zero_small; exact E1). reflexivity.
    + apply N.eqb_neq in E1. cbn [ofs_decode_go]. rewrite lor128_land128, lor128_land127.
      replace (N.shiftr m1 7 - 1 + 1) with (N.shiftr m1 7) by lia.
      rewrite split7_add. reflexivity.
Qed.

Lemma ofs_roundtrip n rest : ofs_decode (ofs_encode n ++ rest) = Some (n, rest).
Proof.
  unfold ofs_encode. rewrite ofs_go_app. cbn [app].
  rewrite ofs_go_decode.
  - destruct (N.shiftr n 7 =? 0) eqn:E.
    + apply N.eqb_eq in E. cbn [ofs_decode]. rewrite land127_128. cbn [N.eqb].
      rewrite land127_idem, small_land127 by (apply shiftr7_zero_small; exact E). reflexivity.
    + apply N.eqb_neq in E. cbn [ofs_decode_go]. rewrite land127_128. cbn [N.eqb].
      rewrite land127_idem. replace (N.shiftr n 7 - 1 + 1) with (N.shiftr n 7) by lia.
      rewrite split7_add. reflexivity.
  - rewrite N2Nat.id, shiftr7_div.
    apply N.le_lt_trans with n; [apply N.div_le_upper_bound; [discriminate|lia]|apply N.size_gt].
Qed.

(* ---------------------------------------------------------------- entryHead *)
Lemma head_go_parse : forall f c s shift acc rest,
  c < 128 -> s < 2 ^ (7 * N.of_nat f) ->
  parse_head_go (entry_head_go f c s ++ rest) shift acc
  = Some (N.lor acc (N.lor (N.shiftl c shift) (N.shiftl s (shift + 7))), rest).
Proof.
  induction f as [|f IH]; intros c s shift acc rest Hc Hs.
  - change (2 ^ (7 * N.of_nat 0)) with 1 in Hs. assert (s = 0) by lia. subst s.
    cbn [entry_head_go app parse_head_go]. rewrite land_small by assumption. cbn [N.eqb].
    rewrite small_land127 by assumption. rewrite N.shiftl_0_l, N.lor_0_r. reflexivity.
  - cbn [entry_head_go]. destruct (s =? 0) eqn:E0.
    + apply N.eqb_eq in E0. subst s. cbn [app parse_head_go]. rewrite land_small by assumption. cbn [N.eqb].
      rewrite small_land127 by assumption. rewrite N.shiftl_0_l, N.lor_0_r. reflexivity.
    + cbn [app parse_head_go].
      assert (E128 : N.land (N.lor c 128) 128 =? 0 = false).
      { rewrite N.land_lor_distr_l, land_small by assumption. reflexivity. }
      assert (E127 : N.land (N.lor c 128) 127 = c).
      { rewrite N.land_lor_distr_l, small_land127 by assumption. change (N.land 128 127) with 0. apply N.lor_0_r. }
      rewrite E128, E127. rewrite IH.
      * f_equal. f_equal. rewrite <- N.lor_assoc. f_equal. f_equal.
        rewrite <- (split7 s) at 3. rewrite N.shiftl_lor, N.shiftl_shiftl. f_equal. f_equal. lia.
      * rewrite land127_mod. apply N.mod_lt. discriminate.
      * rewrite shiftr7_div. apply N.div_lt_upper_bound; [discriminate|].
        change 128 with (2 ^ 7). rewrite <- N.pow_add_r.
        replace (7 + 7 * N.of_nat f) with (7 * N.of_nat (S f)) by lia. exact Hs.
Qed.

Lemma split4 x : N.lor (N.land x 15) (N.shiftl (N.shiftr x 4) 4) = x.
Proof.
  apply N.bits_inj. intro m. rewrite N.lor_spec, N.land_spec. change 15 with (N.ones 4).
  destruct (N.lt_ge_cases m 4) as [H|H].
  - rewrite N.ones_spec_low, N.shiftl_spec_low by assumption.
    rewrite andb_true_r, orb_false_r. reflexivity.
  - rewrite N.ones_spec_high, N.shiftl_spec_high' by assumption.
    rewrite N.shiftr_spec', N.sub_add by assumption. rewrite andb_false_r. reflexivity.
Qed.

Lemma land15_lt x : N.land x 15 < 16.
Proof. change 15 with (N.ones 4). rewrite N.land_ones. apply N.mod_lt. discriminate. Qed.

Lemma first_byte typ size :
  typ < 8 ->
  let c := N.lor (N.shiftl typ 4) (N.land size 15) in
  c < 128 /\ N.land (N.shiftr c 4) 7 = typ /\ N.land c 15 = N.land size 15 /\
  N.land (N.shiftr (N.lor c 128) 4) 7 = typ /\ N.land (N.lor c 128) 15 = N.land size 15.
Proof.
  intros Ht. pose proof (land15_lt size) as Hn.
  assert (E : typ = 0 \/ typ = 1 \/ typ = 2 \/ typ = 3 \/ typ = 4 \/ typ = 5 \/ typ = 6 \/ typ = 7) by lia.
  set (z := N.land size 15) in *.
  assert (Ez : z = 0 \/ z = 1 \/ z = 2 \/ z = 3 \/ z = 4 \/ z = 5 \/ z = 6 \/ z = 7 \/ z = 8 \/ z = 9 \/ z = 10 \/
               z = 11 \/ z = 12 \/ z = 13 \/ z = 14 \/ z = 15) by lia.
  clearbody z.
  repeat (destruct E as [E|E]; [subst typ; repeat (destruct Ez as [Ez|Ez]; [subst z; vm_compute; repeat split; reflexivity|]); subst z; vm_compute; repeat split; reflexivity|]).
  subst typ; repeat (destruct Ez as [Ez|Ez]; [subst z; vm_compute; repeat split; reflexivity|]); subst z; vm_compute; repeat split; reflexivity.
Qed.

Lemma entry_head_roundtrip typ size rest :
  typ < 8 -> parse_head (entry_head typ size ++ rest) = Some (typ, size, rest).
Proof.
  intros Ht. unfold entry_head. destruct (first_byte typ size Ht) as (Hc & T1 & S1 & T2 & S2).
  set (c := N.lor (N.shiftl typ 4) (N.land size 15)) in *.
  set (s := N.shiftr size 4).
  assert (Hs : s < 2 ^ (7 * N.of_nat (N.to_nat (N.size size)))).
  { rewrite N2Nat.id. unfold s. rewrite N.shiftr_div_pow2.
    apply N.le_lt_trans with size; [apply N.div_le_upper_bound; [discriminate|]; change (2 ^ 4) with 16; lia|].
    apply N.lt_le_trans with (2 ^ N.size size); [apply N.size_gt|]. apply N.pow_le_mono_r; [discriminate|lia]. }
  destruct (N.to_nat (N.size size)) as [|f] eqn:Ef.
  - change (2 ^ (7 * N.of_nat 0)) with 1 in Hs. assert (E : s = 0) by lia.
    cbn [entry_head_go app parse_head]. rewrite land_small by assumption. cbn [N.eqb].
    rewrite T1, S1. f_equal. f_equal. f_equal.
    transitivity (N.lor (N.land size 15) (N.shiftl s 4)); [rewrite E, N.shiftl_0_l, N.lor_0_r; reflexivity|apply split4].
  - cbn [entry_head_go]. destruct (s =? 0) eqn:E0.
    + apply N.eqb_eq in E0. cbn [app parse_head]. rewrite land_small by assumption. cbn [N.eqb].
      rewrite T1, S1. f_equal. f_equal. f_equal.
      transitivity (N.lor (N.land size 15) (N.shiftl s 4)); [rewrite E0, N.shiftl_0_l, N.lor_0_r; reflexivity|apply split4].
    + cbn [app parse_head].
      assert (E128 : N.land (N.lor c 128) 128 =? 0 = false).
      { rewrite N.land_lor_distr_l, land_small by assumption. reflexivity. }
      rewrite E128, T2, S2. rewrite head_go_parse.
      * f_equal. f_equal. f_equal.
        transitivity (N.lor (N.land size 15) (N.shiftl s 4)); [|apply split4]. f_equal.
        replace (N.shiftl s 4) with (N.shiftl (N.lor (N.land s 127) (N.shiftl (N.shiftr s 7) 7)) 4)
          by (rewrite split7; reflexivity).
        rewrite N.shiftl_lor, N.shiftl_shiftl. repeat f_equal; try lia.
      * rewrite land127_mod. apply N.mod_lt. discriminate.
      * rewrite shiftr7_div. apply N.div_lt_upper_bound; [discriminate|].
        change 128 with (2 ^ 7). rewrite <- N.pow_add_r.
        replace (7 + 7 * N.of_nat f) with (7 * N.of_nat (S f)) by lia. exact Hs.
Qed.
